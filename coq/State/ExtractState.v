(* Extraction of the StateDB model for ocaml/state/driver.ml.  ExtrOcamlBasic only. *)
From AQ Require Import Lib.Bytes Lib.ExtractBase Lib.Keccak State.StateSpec State.StateModel State.StateRoot State.ManagedModel State.StateAbs State.StateDb.
Require Extraction.
Require Import ExtrOcamlBasic.
Extraction "../ocaml/state/model.ml" base_anchor keccak256
  new_state with_codes create_account add_balance sub_balance set_balance set_nonce set_code
  set_state suicide add_log add_preimage add_refund prepare snapshot revert_to finalise
  intermediate_root commit copy
  exist is_empty get_balance get_nonce get_code get_code_size get_code_hash get_state
  has_suicided get_refund get_logs get_obj aget nmem run step state_root
  manage_state ms_has ms_new_nonce ms_get_nonce ms_set_nonce ms_remove_nonce
  astep abs_state a_view a_store a_exist a_empty refs commit_db_keys.
