(* State/StateSpec.v — declarative side of C09: result type, finite maps at
   content level (association lists with a canonical sorted form, standing for
   the account trie / storage tries: two tries have equal roots iff equal
   content — that step is C10), and the abstract account view that every
   observable of core/state.StateDB is a function of.  Definitions only. *)
From AQ Require Import Lib.Bytes.
Import ListNotations.
Local Open Scope N_scope.

(* A Go panic / nil dereference / slice-bounds failure is an explicit result. *)
Inductive res (A : Type) : Type :=
| Ok (a : A)
| Panic.
Arguments Ok {A} a.
Arguments Panic {A}.

Definition rbind {A B} (r : res A) (f : A -> res B) : res B :=
  match r with Ok a => f a | Panic => Panic end.

(* ---- finite maps keyed by N (addresses, storage slots, tx hashes) ---- *)
Section AMap.
  Context {V : Type}.
  Fixpoint aget (k : N) (m : list (N * V)) : option V :=
    match m with
    | [] => None
    | (k', v) :: t => if k =? k' then Some v else aget k t
    end.
  (* sorted insert / replace: on a strictly sorted list the result is strictly
     sorted, so equal finite maps are equal lists (canonical form) *)
  Fixpoint aset (k : N) (v : V) (m : list (N * V)) : list (N * V) :=
    match m with
    | [] => [(k, v)]
    | (k', v') :: t =>
      if k =? k' then (k, v) :: t
      else if k <? k' then (k, v) :: (k', v') :: t
      else (k', v') :: aset k v t
    end.
  Fixpoint adel (k : N) (m : list (N * V)) : list (N * V) :=
    match m with
    | [] => []
    | (k', v') :: t => if k =? k' then adel k t else (k', v') :: adel k t
    end.
  Definition akeys (m : list (N * V)) : list N := map fst m.
End AMap.

Fixpoint asorted (ks : list N) : bool :=
  match ks with
  | [] => true
  | k :: t => match t with [] => true | k' :: _ => (k <? k') && asorted t end
  end.

(* sets of addresses (stateObjectsDirty) *)
Fixpoint nmem (k : N) (l : list N) : bool :=
  match l with [] => false | x :: t => (k =? x) || nmem k t end.
Definition nadd (k : N) (l : list N) : list N := if nmem k l then l else l ++ [k].
Fixpoint ndel (k : N) (l : list N) : list N :=
  match l with [] => [] | x :: t => if k =? x then ndel k t else x :: ndel k t end.

(* ---- finite map keyed by byte strings (code hash -> code in the node db) ---- *)
Fixpoint bget (k : bytes) (m : list (bytes * bytes)) : option bytes :=
  match m with
  | [] => None
  | (k', v) :: t => if bytes_eqb k k' then Some v else bget k t
  end.
Definition bset (k v : bytes) (m : list (bytes * bytes)) : list (bytes * bytes) :=
  match bget k m with Some _ => m | None => m ++ [(k, v)] end.

(* ---- what an account looks like through the vm.StateDB getters ---- *)
Record aview : Type := mkView {
  v_nonce : N;
  v_balance : Z;
  v_codehash : bytes;
  v_code : option bytes;      (* None = Go nil slice *)
  v_suicided : bool;
}.

Definition two64 : N := 18446744073709551616.
Definition ripemd_addr : N := 3.
