(* State/StateRoot.v — from content to the real state root: the account trie and the storage
   tries are secure tries (keys hashed with H), the root is C10's specification root `mpt_root`
   (Trie/MptSpec.v) of the RLP-encoded leaves.  core/state/statedb.go updateStateObject
   (rlp of Account{Nonce, Balance, Root, CodeHash} under the 20-byte address),
   state_object.go updateTrie (rlp of the value without leading zeros under the 32-byte slot).
   Definitions only (extracted). *)
From AQ Require Import Lib.Bytes Rlp.RlpSpec Trie.MptSpec State.StateSpec State.StateModel.
Import ListNotations.
Local Open Scope N_scope.

Section Root.
Variable H : bytes -> bytes.
Definition addr_key (a : N) : bytes := H (be_fixed 20 a).
Definition slot_key (k : N) : bytes := H (be_fixed 32 k).
Definition storage_root (m : smap) : bytes :=
  mpt_root H (map (fun kv => (slot_key (fst kv), encode (Str (be_of_N (snd kv))))) m).
Definition leaf_rlp (ac : acct) : bytes :=
  encode (Lst [Str (be_of_N (a_nonce ac)); Str (be_of_N (Z.to_N (a_bal ac)));
               Str (storage_root (a_root ac)); Str (a_ch ac)]).
Definition state_root (r : list (N * acct)) : bytes :=
  mpt_root H (map (fun kv => (addr_key (fst kv), leaf_rlp (snd kv))) r).
End Root.
