(* State/StateUndoLemmas.v — C09: every mutator of core/state.StateDB pushes journal entries
   whose undo restores all observables ("restores"), for arbitrary states. *)
From AQ Require Import Lib.Bytes State.StateSpec State.StateModel State.StateProofs.
From Coq Require Import ZifyBool ZifyN ZifyNat.
Import ListNotations.
Local Open Scope N_scope.

Section Undo.
Variable H : bytes -> bytes.

Lemma get_obj_wj j s a : get_obj (with_journal j s) a = get_obj s a.
Proof. reflexivity. Qed.
Lemma get_obj_push e s a : get_obj (push_journal e s) a = get_obj s a.
Proof. reflexivity. Qed.
Lemma get_obj_wd d s a : get_obj (with_dirty d s) a = get_obj s a.
Proof. reflexivity. Qed.

Definition meta (s : state) := (st_journal s, st_revs s, st_nextrev s).
Lemma meta_mark s a o : meta (mark_and_put s a o) = meta s.
Proof. unfold mark_and_put. destruct (o_armed o); reflexivity. Qed.

Lemma undo_meta e s s' : undo e s = Ok s' -> meta s' = meta s.
Proof.
  intros U. destruct e; cbn [undo] in U; cbv zeta in U;
  repeat match type of U with
         | context [match ?x with _ => _ end] => destruct x eqn:?; try discriminate
         end; injection U as <-; rewrite ?meta_mark; reflexivity.
Qed.

Lemma undo_n_meta n : forall s s', undo_n n s = Ok s' ->
  st_revs s' = st_revs s /\ st_nextrev s' = st_nextrev s /\
  exists pre, st_journal s = pre ++ st_journal s' /\ length pre = n.
Proof.
  induction n as [|n IH]; intros s s' U; cbn [undo_n] in U.
  - injection U as <-. repeat split. exists []. split; reflexivity.
  - destruct (st_journal s) as [|e j] eqn:EJ; [discriminate|].
    destruct (undo e (with_journal j s)) as [s1|] eqn:U1; [|discriminate]. cbn [rbind] in U.
    apply undo_meta in U1. unfold meta in U1. cbn [st_journal st_revs st_nextrev with_journal] in U1.
    injection U1 as J1 R1 N1.
    destruct (IH _ _ U) as (R & N & pre & JP & LP).
    repeat split; try congruence. exists (e :: pre). split; [|cbn; congruence].
    cbn. rewrite <- JP, J1. reflexivity.
Qed.

Lemma undo_n_add a : forall b s, undo_n (a + b) s = rbind (undo_n a s) (undo_n b).
Proof.
  induction a as [|a IH]; intros b s; cbn [Nat.add undo_n rbind]; [reflexivity|].
  destruct (st_journal s) as [|e j]; [reflexivity|].
  destruct (undo e (with_journal j s)) as [s1|]; cbn [rbind]; [apply IH|reflexivity].
Qed.

Lemma undo_n_inv n s s' : inv s -> undo_n n s = Ok s' -> inv s'.
Proof.
  intros I U. destruct (undo_n_sim H n s s s' (sim_refl H s I) U) as (t' & U' & S).
  destruct S as (_ & _ & _ & _ & _ & _ & _ & _ & I1 & _). exact I1.
Qed.

(* a state that differs from s only outside what getters / undo look at *)
Lemma sim_back s s3 :
  inv s -> others s3 = others s ->
  (forall a, orel H (st_codes s) (get_obj s3 a) (get_obj s a)) -> sim H s3 s.
Proof.
  intros I O R. apply sim_sym. apply (sim_objs H s s); auto using sim_refl.
  - intros a. apply orel_sym, R.
  - intros a. apply I.
  - intros a G. apply I. specialize (R a). rewrite G in R. destruct (get_obj s a); [contradiction|reflexivity].
Qed.

Lemma sim_eqv s s3 : inv s -> others s3 = others s -> (forall a, get_obj s3 a = get_obj s a) -> sim H s3 s.
Proof. intros I O G. apply sim_back; auto. intros a. rewrite G. apply orel_refl. Qed.

Lemma inv_at s s1 :
  inv s -> st_trie s1 = st_trie s -> Forall jok (st_journal s1) ->
  (forall a, get_obj s1 a = None -> get_obj s a = None) -> inv s1.
Proof. intros [W K] T J G. split; [|exact J]. intros a Ga. rewrite T. apply W, G, Ga. Qed.

(* ---- "the journal entries pushed since s undo back to something no getter tells from s" ---- *)
Definition restores (s sg : state) (k : nat) : Prop :=
  st_revs sg = st_revs s /\ st_nextrev sg = st_nextrev s /\ inv sg /\
  length (st_journal sg) = (k + length (st_journal s))%nat /\
  exists s'', undo_n k sg = Ok s'' /\ sim H s'' s.

Lemma restores_refl s : inv s -> restores s s 0.
Proof. intros I. repeat split; auto; try apply I. exists s. split; [reflexivity|apply sim_refl; exact I]. Qed.

Lemma restores_trans s sm sg k1 k2 : restores s sm k1 -> restores sm sg k2 -> restores s sg (k2 + k1).
Proof.
  intros (R1 & N1 & I1 & L1 & x1 & U1 & S1) (R2 & N2 & I2 & L2 & x2 & U2 & S2).
  repeat split; try congruence; try apply I2; [lia|].
  rewrite undo_n_add, U2. cbn [rbind].
  destruct (undo_n_sim H k1 sm x2 x1 (sim_sym H _ _ S2) U1) as (t & Ut & St).
  exists t. split; [exact Ut|]. eapply sim_trans; [apply sim_sym, St|exact S1].
Qed.

Lemma restores_one s s1 e s3 :
  inv s1 -> meta s1 = (e :: st_journal s, st_revs s, st_nextrev s) ->
  undo e (with_journal (st_journal s) s1) = Ok s3 -> sim H s3 s -> restores s s1 1.
Proof.
  intros I1 M U S. unfold meta in M. injection M as J R N.
  repeat split; auto; try apply I1; [rewrite J; reflexivity|].
  exists s3. split; [|exact S]. cbn [undo_n]. rewrite J, U. reflexivity.
Qed.

(* ---- generic restoration lemma for the setters that go through mark_and_put ---- *)
Lemma sim_back_at s s3 a o o3 :
  inv s -> get_obj s a = Some o -> others s3 = others s ->
  (forall a', get_obj s3 a' = if a' =? a then Some o3 else get_obj s a') ->
  same_view H (st_codes s) o3 o -> sim H s3 s.
Proof.
  intros I G O GA V. apply sim_back; auto. intros a'. rewrite GA.
  destruct (a' =? a) eqn:E; [|apply orel_refl]. apply N.eqb_eq in E. subst a'. rewrite G. exact V.
Qed.

Lemma others_pop_mark s e a o1 : others (with_journal (st_journal s) (mark_and_put (push_journal e s) a o1)) = others s.
Proof. unfold mark_and_put. destruct (o_armed o1); reflexivity. Qed.

Lemma prim_mark s a o o1 e o2 :
  inv s -> get_obj s a = Some o -> o_deleted o1 = false -> jok e ->
  (forall sx, get_obj sx a = Some (disarm o1) -> undo e sx = Ok (mark_and_put sx a o2)) ->
  o_deleted o2 = false -> same_view H (st_codes s) o2 o ->
  restores s (mark_and_put (push_journal e s) a o1) 1.
Proof.
  intros I G D1 JK UH D2 V. set (s1 := mark_and_put (push_journal e s) a o1).
  assert (M1 : meta s1 = (e :: st_journal s, st_revs s, st_nextrev s)) by (unfold s1; rewrite meta_mark; reflexivity).
  assert (G1 : forall a', get_obj s1 a' = if a' =? a then Some (disarm o1) else get_obj s a').
  { intros a'. unfold s1. rewrite get_obj_mark, D1, get_obj_push. reflexivity. }
  eapply (restores_one s s1 e (mark_and_put (with_journal (st_journal s) s1) a o2)); auto.
  - apply (inv_at s); auto.
    + unfold s1, mark_and_put. destruct (o_armed o1); reflexivity.
    + unfold meta in M1. injection M1 as -> _ _. constructor; [exact JK|apply I].
    + intros a'. rewrite G1. destruct (a' =? a); [discriminate|auto].
  - apply UH. rewrite get_obj_wj, G1, N.eqb_refl. reflexivity.
  - apply (sim_back_at s _ a o (disarm o2)); auto.
    + rewrite others_mark. apply others_pop_mark.
    + intros a'. rewrite get_obj_mark, D2, get_obj_wj, G1. destruct (a' =? a); reflexivity.
    + eapply same_view_trans; [apply disarm_view|exact V].
Qed.

Lemma obj_get_state_disarm o k : obj_get_state (disarm o) k = obj_get_state o k.
Proof. unfold disarm. destruct (o_armed o); reflexivity. Qed.

Ltac dv o := unfold same_view, code_of, disarm;
  cbn [o_armed o_nonce o_bal o_ch o_code o_suicided o_with_bal o_with_suicided o_with_nonce o_with_code o_with_touched o_with_armed];
  destruct (o_armed o);
  cbn [o_armed o_nonce o_bal o_ch o_code o_suicided o_with_bal o_with_suicided o_with_nonce o_with_code o_with_touched o_with_armed];
  repeat split; try reflexivity.

(* state_object.go SetBalance / journal.go balanceChange *)
Lemma prim_balance s a o v : inv s -> get_obj s a = Some o -> restores s (obj_set_balance s a o v) 1.
Proof.
  intros I G. assert (D : o_deleted o = false) by (eapply get_obj_not_deleted; eauto).
  unfold obj_set_balance.
  apply (prim_mark s a o _ _ (o_with_bal (o_bal o) (disarm (o_with_bal v o)))); auto; try exact Logic.I.
  - intros sx Gx. cbn [undo]. rewrite Gx. reflexivity.
  - rewrite <- D. unfold disarm. cbn. destruct (o_armed o); reflexivity.
  - dv o.
Qed.

(* SetNonce / nonceChange *)
Lemma prim_nonce s a o n : inv s -> get_obj s a = Some o ->
  restores s (mark_and_put (push_journal (JNonce a (o_nonce o)) s) a (o_with_nonce n o)) 1.
Proof.
  intros I G. assert (D : o_deleted o = false) by (eapply get_obj_not_deleted; eauto).
  apply (prim_mark s a o _ _ (o_with_nonce (o_nonce o) (disarm (o_with_nonce n o)))); auto; try exact Logic.I.
  - intros sx Gx. cbn [undo]. rewrite Gx. reflexivity.
  - rewrite <- D. unfold disarm. cbn. destruct (o_armed o); reflexivity.
  - dv o.
Qed.

(* SetCode / codeChange *)
Lemma prim_code s a o h c : inv s -> get_obj s a = Some o ->
  restores s (mark_and_put (push_journal (JCode a (obj_code H s o) (o_ch o)) s) a (o_with_code h (Some c) true o)) 1.
Proof.
  intros I G. assert (D : o_deleted o = false) by (eapply get_obj_not_deleted; eauto).
  apply (prim_mark s a o _ _ (o_with_code (o_ch o) (obj_code H s o) true (disarm (o_with_code h (Some c) true o)))); auto; try exact Logic.I.
  - intros sx Gx. cbn [undo]. rewrite Gx. reflexivity.
  - rewrite <- D. unfold disarm. cbn. destruct (o_armed o); reflexivity.
  - unfold obj_code, empty_code_hash. dv o.
    all: destruct (o_code o); [reflexivity|]; destruct (bytes_eqb (o_ch o) (H [])); [reflexivity|];
      destruct (bget (o_ch o) (st_codes s)); reflexivity.
Qed.

(* SetState / storageChange *)
Lemma prim_storage s a o k v : inv s -> get_obj s a = Some o ->
  restores s (mark_and_put (push_journal (JStorage a k (obj_get_state o k)) s) a (o_with_slot k v o)) 1.
Proof.
  intros I G. assert (D : o_deleted o = false) by (eapply get_obj_not_deleted; eauto).
  apply (prim_mark s a o _ _ (o_with_slot k (obj_get_state o k) (disarm (o_with_slot k v o)))); auto; try exact Logic.I.
  - intros sx Gx. cbn [undo]. rewrite Gx. reflexivity.
  - rewrite <- D. unfold disarm. cbn. destruct (o_armed o); reflexivity.
  - assert (F : forall k', obj_get_state (o_with_slot k (obj_get_state o k) (disarm (o_with_slot k v o))) k' = obj_get_state o k').
    { intros k'. rewrite obj_get_state_slot, obj_get_state_disarm, obj_get_state_slot.
      destruct (k' =? k) eqn:E; [|reflexivity]. apply N.eqb_eq in E. subst. reflexivity. }
    unfold same_view, code_of, disarm. cbn [o_armed o_with_slot]. destruct (o_armed o) eqn:EA; repeat split; try reflexivity;
      intros k0; specialize (F k0); unfold disarm in F; cbn [o_armed o_with_slot] in F; rewrite EA in F; exact F.
Qed.

(* Suicide / suicideChange *)
Lemma prim_suicide s a o : inv s -> get_obj s a = Some o ->
  restores s (mark_and_put (push_journal (JSuicide a (o_suicided o) (o_bal o)) s) a (o_with_bal 0%Z (o_with_suicided true o))) 1.
Proof.
  intros I G. assert (D : o_deleted o = false) by (eapply get_obj_not_deleted; eauto).
  apply (prim_mark s a o _ _ (o_with_bal (o_bal o) (o_with_suicided (o_suicided o) (disarm (o_with_bal 0%Z (o_with_suicided true o)))))); auto; try exact Logic.I.
  - intros sx Gx. cbn [undo]. rewrite Gx. reflexivity.
  - rewrite <- D. unfold disarm. cbn. destruct (o_armed o); reflexivity.
  - dv o.
Qed.

(* touch / touchChange (including the ripemd exception: then undo does nothing and the object,
   which reads the same touched or not, stays) *)
Lemma touch_aux s s1 a o o1 prev pd :
  inv s -> get_obj s a = Some o ->
  others (with_journal (st_journal s) s1) = others s -> st_trie s1 = st_trie s ->
  meta s1 = (JTouch a prev pd :: st_journal s, st_revs s, st_nextrev s) ->
  (forall a', get_obj s1 a' = if a' =? a then Some o1 else get_obj s a') ->
  same_view H (st_codes s) o1 o -> o_deleted o1 = false ->
  restores s s1 1.
Proof.
  intros I G O1 T1 M1 G1 V D1.
  assert (I1 : inv s1).
  { apply (inv_at s); auto.
    - unfold meta in M1. injection M1 as -> _ _. constructor; [exact Logic.I|apply I].
    - intros a'. rewrite G1. destruct (a' =? a); [discriminate|auto]. }
  destruct (negb prev && negb (a =? ripemd_addr)) eqn:EC.
  - set (sx := with_journal (st_journal s) s1).
    set (P := put_obj sx a (o_with_touched prev o1)).
    apply (restores_one s s1 (JTouch a prev pd) (if pd then P else with_dirty (ndel a (st_dirty P)) P)); auto.
    + cbn [undo]. rewrite EC. fold sx. rewrite (get_obj_wj _ s1 a : get_obj sx a = get_obj s1 a), G1, N.eqb_refl. reflexivity.
    + assert (GP : forall a', get_obj P a' = if a' =? a then Some (o_with_touched prev o1) else get_obj s a').
      { intros a'. unfold P. rewrite get_obj_put. cbn [o_deleted o_with_touched]. rewrite D1.
        rewrite (get_obj_wj _ s1 a' : get_obj sx a' = get_obj s1 a'), G1. destruct (a' =? a); reflexivity. }
      apply (sim_back_at s _ a o (o_with_touched prev o1)); auto; try (destruct pd; assumption).
  - apply (restores_one s s1 (JTouch a prev pd) (with_journal (st_journal s) s1)); auto.
    + cbn [undo]. rewrite EC. reflexivity.
    + apply (sim_back_at s _ a o o1); auto.
Qed.

Lemma prim_touch s a o : inv s -> get_obj s a = Some o -> restores s (obj_touch s a o) 1.
Proof.
  intros I G. assert (D : o_deleted o = false) by (eapply get_obj_not_deleted; eauto).
  unfold obj_touch. destruct (o_armed o) eqn:EA.
  - eapply (touch_aux s _ a o (o_with_touched true (o_with_armed false o))); auto; try reflexivity.
    + intros a'. rewrite get_obj_put. cbn [o_deleted o_with_touched o_with_armed]. rewrite D. reflexivity.
    + repeat split.
  - eapply (touch_aux s _ a o (o_with_touched true o)); auto; try reflexivity.
    + intros a'. rewrite get_obj_put. cbn [o_deleted o_with_touched]. rewrite D. reflexivity.
    + repeat split.
Qed.

(* createObject / createObjectChange, resetObjectChange *)
Definition fresh_obj : obj := o_with_armed false (o_with_nonce 0 (new_object 0 0%Z [] (empty_code_hash H) true)).

Lemma create_object_eq s a :
  create_object H s a =
  (put_obj (push_journal (match get_obj s a with None => JCreate a | Some p => JReset a p end)
                         (with_dirty (nadd a (st_dirty s)) s)) a fresh_obj, fresh_obj, get_obj s a).
Proof. reflexivity. Qed.

Lemma prim_create_none s a : inv s -> get_obj s a = None ->
  restores s (put_obj (push_journal (JCreate a) (with_dirty (nadd a (st_dirty s)) s)) a fresh_obj) 1.
Proof.
  intros I G. set (s1 := put_obj _ a fresh_obj).
  assert (G1 : forall a', get_obj s1 a' = if a' =? a then Some fresh_obj else get_obj s a').
  { intros a'. unfold s1. rewrite get_obj_put. reflexivity. }
  set (sx := with_journal (st_journal s) s1).
  apply (restores_one s s1 (JCreate a) (with_dirty (ndel a (st_dirty sx)) (with_live (adel a (st_live sx)) sx))).
  - apply (inv_at s); auto; [constructor; [exact Logic.I|apply I]|].
    intros a'. rewrite G1. destruct (a' =? a); [discriminate|auto].
  - reflexivity.
  - reflexivity.
  - apply sim_eqv; auto. intros a'. rewrite get_obj_del.
    destruct (a' =? a) eqn:E.
    + apply N.eqb_eq in E. subst a'. rewrite G. destruct I as [W _]. specialize (W a G).
      unfold load_obj. cbn [st_trie]. change (st_trie sx) with (st_trie s). rewrite W. reflexivity.
    + unfold sx. rewrite get_obj_wj, G1, E. reflexivity.
Qed.

Lemma get_or_new_restores s a sg o :
  inv s -> get_or_new H s a = (sg, o) -> (exists k, restores s sg k) /\ get_obj sg a = Some o.
Proof.
  intros I E. unfold get_or_new in E. destruct (get_obj s a) as [p|] eqn:G.
  - injection E as <- <-. split; [exists 0%nat; apply restores_refl; exact I|exact G].
  - rewrite create_object_eq, G in E. injection E as <- <-. split.
    + exists 1%nat. apply prim_create_none; auto.
    + rewrite get_obj_put, N.eqb_refl. reflexivity.
Qed.

(* CreateAccount: createObject, then the un-journalled balance carry-over *)
Lemma op_create s a : inv s -> exists k, restores s (create_account H s a) k.
Proof.
  intros I. unfold create_account. rewrite create_object_eq. destruct (get_obj s a) as [p|] eqn:G.
  - exists 1%nat. assert (Dp : o_deleted p = false) by (eapply get_obj_not_deleted; eauto).
    set (s2 := mark_and_put _ a _).
    assert (G2 : forall a', get_obj s2 a' = if a' =? a then Some (o_with_bal (o_bal p) fresh_obj) else get_obj s a').
    { intros a'. unfold s2. rewrite get_obj_mark. cbn [o_deleted o_with_bal fresh_obj o_with_armed o_with_nonce new_object].
      rewrite get_obj_put. destruct (a' =? a); reflexivity. }
    apply (restores_one s s2 (JReset a p) (put_obj (with_journal (st_journal s) s2) a p)).
    + apply (inv_at s); auto; [constructor; [exact Dp|apply I]|].
      intros a'. rewrite G2. destruct (a' =? a); [discriminate|auto].
    + reflexivity.
    + reflexivity.
    + apply (sim_back_at s _ a p p); auto using same_view_refl.
      intros a'. rewrite get_obj_put, Dp, get_obj_wj, G2. destruct (a' =? a); reflexivity.
  - exists 1%nat. apply prim_create_none; auto.
Qed.

(* ---- the other journalled fields ---- *)
Lemma sim_rest s s3 :
  inv s -> st_trie s3 = st_trie s -> st_codes s3 = st_codes s -> (forall a, get_obj s3 a = get_obj s a) ->
  st_refund s3 = st_refund s -> (forall th, get_logs s3 th = get_logs s th) ->
  st_logsize s3 mod two64 = st_logsize s mod two64 ->
  (forall h, aget h (st_preimages s3) = aget h (st_preimages s)) ->
  st_journal s3 = st_journal s -> sim H s3 s.
Proof.
  intros I T C G R L S P J. unfold sim. rewrite T, C, R, S, J. repeat split; auto; try apply I.
  - intros a. rewrite G. apply orel_refl.
  - intros a Ga. rewrite T. apply I. rewrite <- G. exact Ga.
  - rewrite J. apply I.
Qed.

Lemma prim_refund s g : inv s -> restores s (add_refund s g) 1.
Proof.
  intros I. unfold add_refund.
  apply (restores_one s _ (JRefund (st_refund s)) (with_refund (st_refund s) (with_journal (st_journal s) (with_refund ((st_refund s + g) mod two64) (push_journal (JRefund (st_refund s)) s))))).
  - apply (inv_at s); auto. constructor; [exact Logic.I|apply I].
  - reflexivity.
  - reflexivity.
  - apply sim_eqv; auto.
Qed.

Lemma logsize_back x : ((x + 1) mod two64 + two64 - 1) mod two64 mod two64 = x mod two64.
Proof.
  assert (Z : two64 <> 0) by (unfold two64; lia).
  rewrite N.mod_mod by exact Z.
  replace ((x + 1) mod two64 + two64 - 1) with ((x + 1) mod two64 + (two64 - 1)) by (unfold two64; lia).
  rewrite N.add_mod_idemp_l by exact Z.
  replace (x + 1 + (two64 - 1)) with (x + 1 * two64) by (unfold two64; lia).
  apply N.mod_add. exact Z.
Qed.

Lemma prim_log s d : inv s -> restores s (add_log s d) 1.
Proof.
  intros I. unfold add_log.
  set (th := st_thash s). set (old := match aget th (st_logs s) with Some x => x | None => [] end).
  set (l := mkLog d th (st_bhash s) (st_txindex s) (st_logsize s)).
  set (s1 := with_logs _ _ _).
  assert (I1 : inv s1) by (apply (inv_at s); auto; constructor; [exact Logic.I|apply I]).
  set (sx := with_journal (st_journal s) s1).
  assert (AG : aget th (st_logs sx) = Some (old ++ [l])) by (cbn; rewrite aget_aset, N.eqb_refl; reflexivity).
  destruct old as [|x t] eqn:EO.
  - apply (restores_one s s1 (JLog th) (with_logs (adel th (st_logs sx)) ((st_logsize sx + two64 - 1) mod two64) sx)); auto.
    + fold sx. cbn [undo]. rewrite AG. reflexivity.
    + apply sim_rest; auto; try reflexivity.
      * intros th'. unfold get_logs. cbn [st_logs with_logs sx s1 with_journal]. rewrite aget_adel, aget_aset.
        destruct (th' =? th) eqn:E; [|reflexivity]. apply N.eqb_eq in E. subst th'. fold old in EO. unfold old in EO. rewrite EO. reflexivity.
      * cbn [st_logsize with_logs sx s1 with_journal]. apply logsize_back.
  - assert (NE : exists y r, t ++ [l] = y :: r).
    { destruct t; cbn; eauto. }
    destruct NE as (y & r & NE).
    apply (restores_one s s1 (JLog th) (with_logs (aset th (removelast ((x :: t) ++ [l])) (st_logs sx)) ((st_logsize sx + two64 - 1) mod two64) sx)); auto.
    + fold sx. cbn [undo]. rewrite AG. cbn [app]. rewrite NE. reflexivity.
    + apply sim_rest; auto; try reflexivity.
      * intros th'. unfold get_logs. cbn [st_logs with_logs sx s1 with_journal]. rewrite removelast_last, !aget_aset.
        destruct (th' =? th) eqn:E; [|reflexivity]. apply N.eqb_eq in E. subst th'. fold old in EO. unfold old in EO. rewrite EO. reflexivity.
      * cbn [st_logsize with_logs sx s1 with_journal]. apply logsize_back.
Qed.

Lemma prim_preimage s h p : inv s -> exists k, restores s (add_preimage s h p) k.
Proof.
  intros I. unfold add_preimage. destruct (aget h (st_preimages s)) eqn:E.
  - exists 0%nat. apply restores_refl; auto.
  - exists 1%nat.
    set (s1 := with_preimages _ _). set (sx := with_journal (st_journal s) s1).
    apply (restores_one s s1 (JPreimage h) (with_preimages (adel h (st_preimages sx)) sx)).
    + apply (inv_at s); auto. constructor; [exact Logic.I|apply I].
    + reflexivity.
    + reflexivity.
    + apply sim_rest; auto; try reflexivity.
      intros h'. cbn [st_preimages with_preimages sx s1 with_journal]. rewrite aget_adel, aget_aset.
      destruct (h' =? h) eqn:E'; [|reflexivity]. apply N.eqb_eq in E'. subst h'. rewrite E. reflexivity.
Qed.

(* ---- every journalled operation of vm.StateDB ---- *)
Definition mutator (o : op) : bool :=
  match o with
  | OCreate _ | OAddBal _ _ | OSubBal _ _ | OSetBal _ _ | OSetNonce _ _ | OSetCode _ _
  | OSetState _ _ _ | OSuicide _ | OAddLog _ | OAddRefund _ | OAddPreimage _ _ => true
  | _ => false
  end.

Lemma restores_inv s sg k : restores s sg k -> inv sg.
Proof. intros (_ & _ & I & _). exact I. Qed.

Lemma step_restores o s s1 : inv s -> mutator o = true -> step H s o = Ok s1 -> exists k, restores s s1 k.
Proof.
  intros I M ST. destruct o; try discriminate M; cbn [step] in ST; injection ST as <-.
  - (* CreateAccount *) apply op_create; exact I.
  - (* AddBalance *) unfold add_balance. destruct (get_or_new H s a) as [sg o] eqn:E.
    destruct (get_or_new_restores s a sg o I E) as [[k R] G]. pose proof (restores_inv _ _ _ R) as Ig.
    destruct (Z.eqb v 0).
    + destruct (obj_empty H o); [|eauto]. eexists. eapply restores_trans; [exact R|apply prim_touch; auto].
    + eexists. eapply restores_trans; [exact R|apply prim_balance; auto].
  - (* SubBalance *) unfold sub_balance. destruct (get_or_new H s a) as [sg o] eqn:E.
    destruct (get_or_new_restores s a sg o I E) as [[k R] G]. pose proof (restores_inv _ _ _ R) as Ig.
    destruct (Z.eqb v 0); [eauto|]. eexists. eapply restores_trans; [exact R|apply prim_balance; auto].
  - (* SetBalance *) unfold set_balance. destruct (get_or_new H s a) as [sg o] eqn:E.
    destruct (get_or_new_restores s a sg o I E) as [[k R] G]. pose proof (restores_inv _ _ _ R) as Ig.
    eexists. eapply restores_trans; [exact R|apply prim_balance; auto].
  - (* SetNonce *) unfold set_nonce. destruct (get_or_new H s a) as [sg o] eqn:E.
    destruct (get_or_new_restores s a sg o I E) as [[k R] G]. pose proof (restores_inv _ _ _ R) as Ig.
    eexists. eapply restores_trans; [exact R|apply prim_nonce; auto].
  - (* SetCode *) unfold set_code. destruct (get_or_new H s a) as [sg o] eqn:E.
    destruct (get_or_new_restores s a sg o I E) as [[k R] G]. pose proof (restores_inv _ _ _ R) as Ig.
    eexists. eapply restores_trans; [exact R|apply prim_code; auto].
  - (* SetState *) unfold set_state. destruct (get_or_new H s a) as [sg o] eqn:E.
    destruct (get_or_new_restores s a sg o I E) as [[k' R] G]. pose proof (restores_inv _ _ _ R) as Ig.
    eexists. eapply restores_trans; [exact R|apply prim_storage; auto].
  - (* Suicide *) unfold suicide. destruct (get_obj s a) as [o|] eqn:G; cbn [fst].
    + eexists. apply prim_suicide; auto.
    + eexists. apply restores_refl; auto.
  - (* AddLog *) eexists. apply prim_log; auto.
  - (* AddRefund *) eexists. apply prim_refund; auto.
  - (* AddPreimage *) apply prim_preimage; auto.
Qed.
End Undo.
