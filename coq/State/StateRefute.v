(* State/StateRefute.v — concrete histories (vm_compute witnesses, H := Keccak-256) on which the
   hidden-state versions of the C09 clauses fail in the faithful model, exactly as in the Go code. *)
From AQ Require Import Lib.Bytes Lib.Keccak State.StateSpec State.StateModel.
Import ListNotations.
Local Open Scope N_scope.

(* ------------------------------------------------------------------ *)
(* refutations: concrete histories (H := Keccak-256)                    *)

(* an account trie holding one pre-existing EMPTY account at address 4 and a funded one at 1 *)
Definition kec_empty : bytes := Eval vm_compute in keccak256 [].
Definition ex_trie : list (N * acct) := [(1, mkAcct 0 100%Z [] kec_empty); (4, mkAcct 0 0%Z [] kec_empty)].
Definition ex_state : state := Eval vm_compute in new_state ex_trie [].
Definition unres {A} (d : A) (r : res A) : A := match r with Ok x => x | Panic => d end.

(* (a) snapshot / AddBalance(4,5) / revert: observables are back, the dirty set is not,
   and IntermediateRoot(true) now deletes account 4 although nothing changed *)
Definition ra_s1 : state := Eval vm_compute in fst (snapshot ex_state).
Definition ra_s2 : state := Eval vm_compute in unres ex_state (run keccak256 [OAddBal 4 5%Z; ORevert 0] ra_s1).
Lemma revert_hidden_refuted :
  exists (H : bytes -> bytes) (s s1 s2 : state) (id : N),
    snapshot s = (s1, id) /\ run H [OAddBal 4 5%Z; ORevert id] s1 = Ok s2 /\
    st_dirty s2 <> st_dirty s /\
    Forall (fun a => account_view H s2 a = account_view H s a) [1; 2; 3; 4; 5; 6] /\
    match intermediate_root H true s, intermediate_root H true s2 with
    | Ok (_, r), Ok (_, r2) => aget 4 r <> None /\ aget 4 r2 = None
    | _, _ => False
    end.
Proof.
  exists keccak256, ex_state, ra_s1, ra_s2, 0.
  split; [vm_compute; reflexivity|]. split; [vm_compute; reflexivity|].
  split; [vm_compute; discriminate|].
  split.
  - repeat (apply Forall_cons; [vm_compute; reflexivity|]). apply Forall_nil.
  - vm_compute. split; [discriminate|reflexivity].
Qed.

(* (b) a write after Commit on the same StateDB never reaches the next root: the
   one-shot onDirty callback was consumed before the Commit that cleared the dirty set *)
Definition rb_c1 := Eval vm_compute in unres (ex_state, []) (commit keccak256 true (add_balance keccak256 ex_state 1 1%Z)).
Definition rb_s2 := Eval vm_compute in add_balance keccak256 (fst rb_c1) 1 1%Z.
Definition rb_c3 := Eval vm_compute in unres (ex_state, []) (commit keccak256 true rb_s2).
Lemma write_after_commit_refuted :
  exists (H : bytes -> bytes) (s s1 s2 s3 : state) (r1 r3 : list (N * acct)),
    commit H true (add_balance H s 1 1%Z) = Ok (s1, r1) /\
    add_balance H s1 1 1%Z = s2 /\
    commit H true s2 = Ok (s3, r3) /\
    get_balance s3 1 = 102%Z /\ get_balance s1 1 = 101%Z /\ r3 = r1 /\
    option_map a_bal (aget 1 r3) = Some 101%Z.
Proof.
  exists keccak256, ex_state, (fst rb_c1), rb_s2, (fst rb_c3), (snd rb_c1), (snd rb_c3).
  repeat split; vm_compute; reflexivity.
Qed.

(* (c) a reverted touch leaves the object neither dirty nor armed: the next write is lost *)
Definition rc_s2 : state := Eval vm_compute in unres ex_state (run keccak256 [OAddBal 4 0%Z; ORevert 0; OAddBal 4 9%Z] ra_s1).
Lemma write_after_reverted_touch_refuted :
  exists (H : bytes -> bytes) (s s1 s2 : state) (id : N),
    snapshot s = (s1, id) /\
    run H [OAddBal 4 0%Z; ORevert id; OAddBal 4 9%Z] s1 = Ok s2 /\
    get_balance s2 4 = 9%Z /\
    match intermediate_root H true s2 with
    | Ok (_, r) => option_map a_bal (aget 4 r) = Some 0%Z
    | Panic => False
    end.
Proof.
  exists keccak256, ex_state, ra_s1, rc_s2, 0.
  repeat split; vm_compute; reflexivity.
Qed.

