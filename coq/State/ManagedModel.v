(* State/ManagedModel.v — core/state/managed_state.go (nonce management on top of a copied StateDB,
   used by the transaction pool).  Definitions only (extracted); tied by correspondence, no theorems. *)
From AQ Require Import Lib.Bytes State.StateSpec State.StateModel.
Import ListNotations.
Local Open Scope N_scope.

(* managed_state.go: type account (the stateObject pointer it keeps is never read again) *)
Record macct : Type := mkMacct { m_nstart : N; m_nonces : list bool }.
(* managed_state.go: type ManagedState *)
Record mstate : Type := mkMs { ms_db : state; ms_accts : list (N * macct) }.

Section Managed.
Variable H : bytes -> bytes.

(* ManageState: StateDB.Copy + empty account map *)
Definition manage_state (s : state) : res mstate := rbind (copy s) (fun c => Ok (mkMs c [])).

(* newAccount *)
Definition new_macct (o : obj) : macct := mkMacct (o_nonce o) [].

(* hasAccount *)
Definition ms_has (ms : mstate) (a : N) : bool := match aget a (ms_accts ms) with Some _ => true | None => false end.

(* getAccount: creates (through GetOrNewStateObject, which may create and journal a state object)
   or refreshes when the state's nonce has moved past the managed range; uint64 sums wrap *)
Definition ms_get_account (ms : mstate) (a : N) : mstate * macct :=
  match aget a (ms_accts ms) with
  | None =>
    let '(sg, o) := get_or_new H (ms_db ms) a in
    let acc := new_macct o in (mkMs sg (aset a acc (ms_accts ms)), acc)
  | Some acc =>
    match get_obj (ms_db ms) a with
    | Some o =>
      if (lenN (m_nonces acc) + m_nstart acc) mod two64 <? o_nonce o
      then let acc' := new_macct o in (mkMs (ms_db ms) (aset a acc' (ms_accts ms)), acc')
      else (ms, acc)
    | None => (ms, acc)
    end
  end.

Fixpoint first_false (l : list bool) (i : N) : option N :=
  match l with [] => None | b :: t => if b then first_false t (i + 1) else Some i end.

(* NewNonce *)
Definition ms_new_nonce (ms : mstate) (a : N) : mstate * N :=
  let '(ms1, acc) := ms_get_account ms a in
  match first_false (m_nonces acc) 0 with
  | Some i => (ms1, (m_nstart acc + i) mod two64)
  | None =>
    let acc' := mkMacct (m_nstart acc) (m_nonces acc ++ [true]) in
    (mkMs (ms_db ms1) (aset a acc' (ms_accts ms1)), (lenN (m_nonces acc') + two64 - 1 + m_nstart acc) mod two64)
  end.

(* GetNonce *)
Definition ms_get_nonce (ms : mstate) (a : N) : mstate * N :=
  if ms_has ms a
  then let '(ms1, acc) := ms_get_account ms a in (ms1, (lenN (m_nonces acc) + m_nstart acc) mod two64)
  else (ms, get_nonce (ms_db ms) a).

(* SetNonce: GetOrNewStateObject + stateObject.SetNonce (journalled) + newAccount *)
Definition ms_set_nonce (ms : mstate) (a : N) (n : N) : mstate :=
  mkMs (set_nonce H (ms_db ms) a n) (aset a (mkMacct n []) (ms_accts ms)).

(* RemoveNonce: n - nstart is a uint64 subtraction *)
Definition ms_remove_nonce (ms : mstate) (a : N) (n : N) : mstate :=
  if ms_has ms a then
    let '(ms1, acc) := ms_get_account ms a in
    let d := (n + two64 - m_nstart acc) mod two64 in
    if d <=? lenN (m_nonces acc)
    then mkMs (ms_db ms1) (aset a (mkMacct (m_nstart acc) (firstn (N.to_nat d) (m_nonces acc))) (ms_accts ms1))
    else ms1
  else ms.
End Managed.
