(* State/StateDb.v — StateDB.Commit's interaction with the trie node database, on top of C10's
   Trie/DbModel.v (memory layer with child references, disk store, Database.Commit = flush of
   everything reachable through the references).  Granularity: a committed trie is ONE node (key =
   its root, blob = an injective encoding of its content): what this file is about is the reference
   edges statedb.go Commit creates, not the inside of a trie (that is C10).
   statedb.go Commit: per dirty object — `TrieDB().Insert(codeHash, code)` when dirtyCode,
   `CommitTrie` (storage trie nodes inserted) — then the account trie Commit whose leaf callback
   does `Reference(account.Root, parent)` unless Root == emptyState and `Reference(codeHash, parent)`
   unless CodeHash == emptyCode.  Definitions only (refs / commit_db are extracted). *)
From AQ Require Import Lib.Bytes State.StateSpec State.StateModel State.StateRoot.
From AQ Require Trie.TrieModel Trie.DbModel.
Import DbModel.
Import ListNotations.
Local Open Scope N_scope.

Section Db.
Variable H : bytes -> bytes.
Variable enc_storage : smap -> bytes.
Variable enc_trie : list (N * acct) -> bytes.

Definition skey (m : smap) : bytes := storage_root H m.
Definition tkey (r : list (N * acct)) : bytes := state_root H r.

(* trie/database.go insert: keeps an existing node *)
Definition mem_ins (m : memdb) (k : bytes) (n : mnode) : memdb :=
  match mem_get m k with Some _ => m | None => m ++ [(k, n)] end.

(* the leaf callback of StateDB.Commit *)
Definition leaf_refs (ac : acct) : list bytes :=
  (match a_root ac with [] => [] | _ => [skey (a_root ac)] end) ++
  (if bytes_eqb (a_ch ac) (H []) then [] else [a_ch ac]).
Definition refs (r : list (N * acct)) : list bytes := flat_map (fun kv => leaf_refs (snd kv)) r.

(* the node-database side of the Commit loop body (same branches as commit_one) *)
Definition commit_db_one (b : bool) (s : state) (m : memdb) (a : N) : memdb :=
  match aget a (st_live s) with
  | None => m
  | Some o =>
    if o_suicided o || (nmem a (st_dirty s) && b && obj_empty H o) then m
    else if nmem a (st_dirty s) then
      let m1 := match o_code o with
                | Some c => if o_dirtycode o then mem_ins m (o_ch o) (mkMnode c []) else m
                | None => m
                end in
      let root' := o_root (obj_update_root o) in
      match root' with
      | [] => m1
      | _ => mem_ins m1 (skey root') (mkMnode (enc_storage root') [])
      end
    else m
  end.

(* Commit: the loop, then the account trie with its references *)
Definition commit_db (b : bool) (s : state) (r : list (N * acct)) (m : memdb) : memdb :=
  let m1 := fold_left (commit_db_one b s) (akeys (st_live s)) m in
  match r with
  | [] => m1                                              (* the empty trie has no root node *)
  | _ => mem_ins m1 (tkey r) (mkMnode (enc_trie r) (refs r))
  end.

(* state.New(root, fresh Database over the disk store), once the root blob found on disk has been
   decoded to the account content r: a storage trie whose root is not on disk opens empty (getTrie's
   fallback); code is read from the disk store *)
Definition disk_leaf (d : diskdb) (ac : acct) : acct :=
  match a_root ac with
  | [] => ac
  | _ => match disk_get d (skey (a_root ac)) with
         | Some _ => ac
         | None => mkAcct (a_nonce ac) (a_bal ac) [] (a_ch ac)
         end
  end.
Definition disk_state (d : diskdb) (r : list (N * acct)) : state :=
  new_state (map (fun kv => (fst kv, disk_leaf d (snd kv))) r) d.
End Db.

(* keys only (for the harness): the encodings do not matter *)
Definition commit_db_keys (H : bytes -> bytes) (b : bool) (s : state) (r : list (N * acct)) : list bytes :=
  map fst (commit_db H (fun _ => []) (fun _ => []) b s r []).
