(* State/StateRevertProof.v — C09 clause 1: RevertToSnapshot restores every observable, for any
   history without Finalise/Commit and any nesting of snapshots and reverts to live ids. *)
From AQ Require Import Lib.Bytes State.StateSpec State.StateModel State.StateProofs State.StateUndoLemmas.
From Coq Require Import ZifyBool ZifyN ZifyNat.
Import ListNotations.
Local Open Scope N_scope.

(* validRevisions: ids strictly increasing, journal indices non-decreasing *)
Fixpoint rsorted (l : list (N * N)) : Prop :=
  match l with
  | [] => True
  | r :: t => Forall (fun r' => fst r < fst r' /\ snd r <= snd r') t /\ rsorted t
  end.
(* ... ids below nextRevisionId, indices within the journal *)
Definition rok (s : state) : Prop :=
  rsorted (st_revs s) /\
  Forall (fun r => fst r < st_nextrev s /\ snd r <= lenN (st_journal s)) (st_revs s).

Lemma rev_search_found l : forall id n, rsorted l -> In (id, n) l -> nth_error l (rev_search id l) = Some (id, n).
Proof.
  induction l as [|[id0 n0] t IH]; intros id n RS IN; [contradiction|].
  cbn [rev_search]. destruct RS as [F RS]. destruct (id <=? id0) eqn:E.
  - cbn [nth_error]. destruct IN as [EQ|IN]; [congruence|].
    rewrite Forall_forall in F. specialize (F _ IN). cbn [fst snd] in F. lia.
  - destruct IN as [EQ|IN]; [injection EQ as -> ->; lia|]. cbn [nth_error]. apply IH; auto.
Qed.

Lemma in_firstn {A} (x : A) k : forall l, In x (firstn k l) -> In x l.
Proof. induction k as [|k IH]; intros [|y l] IN; cbn in *; auto; try contradiction. destruct IN; auto. Qed.

Lemma rsorted_prefix l : forall idx r r', rsorted l -> nth_error l idx = Some r' -> In r (firstn idx l) ->
  fst r < fst r' /\ snd r <= snd r'.
Proof.
  induction l as [|x t IH]; intros [|idx] r r' RS NT IN; cbn in *; try contradiction; try discriminate.
  destruct RS as [F RS]. destruct IN as [<-|IN].
  - rewrite Forall_forall in F. apply F. eapply nth_error_In; eauto.
  - eapply IH; eauto.
Qed.

Lemma rsorted_firstn k : forall l, rsorted l -> rsorted (firstn k l).
Proof.
  induction k as [|k IH]; intros [|x t] RS; cbn; auto. destruct RS as [F RS]. split; [|auto].
  rewrite Forall_forall in *. intros y IN. apply F. eapply in_firstn; eauto.
Qed.

Lemma rsorted_app l id n : rsorted l -> Forall (fun r => fst r < id /\ snd r <= n) l -> rsorted (l ++ [(id, n)]).
Proof.
  induction l as [|x t IH]; intros RS F; cbn; [split; [constructor|exact Logic.I]|].
  destruct RS as [F' RS]. inversion F as [|? ? Fx Ft]; subst. split; [|auto].
  apply Forall_app. split; [exact F'|]. constructor; [exact Fx|constructor].
Qed.

Section Main.
Variable H : bytes -> bytes.
Variables (id n : N) (s0 : state).

(* as long as snapshot id is live, rewinding to its journal index gives something no getter
   tells from s0, the state in which it was taken *)
Definition tgt (s : state) : Prop :=
  forall n', In (id, n') (st_revs s) ->
    n' = n /\ exists s', undo_n (N.to_nat (lenN (st_journal s) - n)) s = Ok s' /\ sim H s' s0.
Definition T (s : state) : Prop := inv s /\ rok s /\ id < st_nextrev s /\ tgt s.

Lemma mkT s : inv s -> rsorted (st_revs s) ->
  Forall (fun r => fst r < st_nextrev s /\ snd r <= lenN (st_journal s)) (st_revs s) ->
  id < st_nextrev s -> tgt s -> T s.
Proof. intros I R B L TG. split; [exact I|]. split; [split; assumption|]. split; assumption. Qed.

Lemma tgt_ext s s1 k s'' :
  (forall n', In (id, n') (st_revs s1) -> In (id, n') (st_revs s)) ->
  length (st_journal s1) = (k + length (st_journal s))%nat ->
  undo_n k s1 = Ok s'' -> sim H s'' s -> rok s -> tgt s -> tgt s1.
Proof.
  intros SUB LEN U S [_ B] TG n' IN. specialize (SUB _ IN).
  destruct (TG _ SUB) as (-> & s' & U' & S'). split; [reflexivity|].
  rewrite Forall_forall in B. specialize (B _ SUB). cbn [fst snd] in B. unfold lenN in *.
  replace (N.to_nat (N.of_nat (length (st_journal s1)) - n)) with (k + N.to_nat (N.of_nat (length (st_journal s)) - n))%nat by lia.
  rewrite undo_n_add, U. cbn [rbind].
  destruct (undo_n_sim H _ s s'' s' (sim_sym H _ _ S) U') as (t & Ut & St).
  exists t. split; [exact Ut|]. eapply sim_trans; [apply sim_sym, St|exact S'].
Qed.

Lemma lenN_len {A} (l : list A) : lenN l = N.of_nat (length l).
Proof. reflexivity. Qed.

Lemma step_T o s s1 : T s -> is_fin o = false -> step H s o = Ok s1 -> T s1.
Proof.
  intros (I & RK & LT & TG) NF ST. destruct (mutator o) eqn:MU.
  - (* journalled mutators *)
    destruct (step_restores H o s s1 I MU ST) as (k & R & NX & I1 & LEN & s'' & U & S).
    destruct RK as [RS B]. apply mkT.
    + exact I1.
    + rewrite R; exact RS.
    + rewrite R, NX. rewrite Forall_forall in *. intros r IN. specialize (B r IN). cbn beta in B.
      rewrite !lenN_len in *. rewrite LEN. lia.
    + congruence.
    + apply (tgt_ext s s1 k s''); auto. all: try (split; assumption). all: intros n' IN; rewrite <- R; exact IN.
  - destruct o; try discriminate MU; try discriminate NF; cbn [step] in ST.
    + (* Prepare *) injection ST as <-. destruct RK as [RS B]. apply mkT; auto.
      eapply (tgt_ext s _ 0%nat); auto. all: try (split; assumption). all: try reflexivity. all: apply sim_eqv; auto.
    + (* Snapshot *) injection ST as <-. cbn [snapshot fst]. destruct RK as [RS B].
      assert (S1 : sim H (with_revs (st_revs s ++ [(st_nextrev s, lenN (st_journal s))]) (st_nextrev s + 1) s) s) by (apply sim_eqv; auto).
      apply mkT; cbn [st_revs st_nextrev st_journal with_revs].
      * exact I.
      * apply rsorted_app; auto.
      * apply Forall_app. split; [|constructor; [cbn; lia|constructor]].
        eapply Forall_impl; [|exact B]. intros r [A1 A2]. split; [lia|auto].
      * lia.
      * eapply (tgt_ext s _ 0%nat); [|reflexivity|reflexivity|exact S1|split; assumption|exact TG].
        intros n' IN. cbn [st_revs with_revs] in IN. apply in_app_or in IN. destruct IN as [IN|[EQ|[]]]; auto.
        injection EQ as E1 E2. lia.
    + (* RevertToSnapshot *)
      unfold revert_to in ST. destruct RK as [RS B].
      destruct (nth_error (st_revs s) (rev_search id0 (st_revs s))) as [[id' j']|] eqn:NT; [|discriminate].
      destruct (negb (id' =? id0)); [discriminate|].
      destruct (lenN (st_journal s) <? j') eqn:LJ; [discriminate|].
      destruct (undo_n (N.to_nat (lenN (st_journal s) - j')) s) as [sx|] eqn:UX; [|discriminate].
      cbn [rbind] in ST. injection ST as <-.
      destruct (undo_n_meta _ _ _ UX) as (RX & NXX & pre & JP & LP).
      pose proof (undo_n_inv H _ _ _ I UX) as IX.
      assert (LX : lenN (st_journal sx) = j').
      { rewrite !lenN_len in *. rewrite JP, app_length in *. lia. }
      assert (SX : sim H (with_revs (firstn (rev_search id0 (st_revs sx)) (st_revs sx)) (st_nextrev sx) sx) sx) by (apply sim_eqv; auto).
      apply mkT; cbn [st_revs st_nextrev st_journal with_revs]; rewrite ?RX, ?NXX.
      * exact IX.
      * apply rsorted_firstn; exact RS.
      * rewrite Forall_forall in *. intros r IN. pose proof (rsorted_prefix _ _ _ _ RS NT IN) as [P1 P2].
        specialize (B r (in_firstn _ _ _ IN)). cbn [fst snd] in *. split; [apply B|]. rewrite LX. exact P2.
      * exact LT.
      * intros n' IN. cbn [st_revs with_revs] in IN. try rewrite RX in IN.
        pose proof (rsorted_prefix _ _ _ _ RS NT IN) as [P1 P2]. cbn [fst snd] in P1, P2.
        destruct (TG _ (in_firstn _ _ _ IN)) as (-> & s' & U' & S'). split; [reflexivity|].
        cbn [st_journal with_revs].
        assert (UX2 : undo_n (N.to_nat (lenN (st_journal sx) - n)) sx = Ok s').
        { replace (N.to_nat (lenN (st_journal s) - n)) with (N.to_nat (lenN (st_journal s) - j') + N.to_nat (lenN (st_journal sx) - n))%nat in U' by lia.
          rewrite undo_n_add, UX in U'. exact U'. }
        destruct (undo_n_sim H _ _ _ _ (sim_sym H _ _ SX) UX2) as (t & Ut & St).
        rewrite RX, NXX in Ut. exists t. split; [exact Ut|]. eapply sim_trans; [apply sim_sym, St|exact S'].
Qed.

Lemma run_T ops : forall s s2, T s -> forallb (fun o => negb (is_fin o)) ops = true -> run H ops s = Ok s2 -> T s2.
Proof.
  induction ops as [|o ops IH]; intros s s2 Ts NF R; cbn [run fold_res] in R.
  - injection R as <-. exact Ts.
  - cbn [forallb] in NF. apply andb_true_iff in NF. destruct NF as [NF1 NF2].
    destruct (step H s o) as [s1|] eqn:ST; [|discriminate]. cbn [rbind] in R.
    apply (IH s1 s2); [|exact NF2|exact R]. apply (step_T o s s1 Ts); [|exact ST]. destruct (is_fin o); [discriminate|reflexivity].
Qed.
End Main.

(* the invariants hold of every state opened from a trie and are kept by every operation
   other than Finalise/Commit *)
Lemma rok_new_state trie codes : rok (new_state trie codes).
Proof. split; [exact Logic.I|constructor]. Qed.

Theorem revert_observable : forall (H : bytes -> bytes) (s : state) (ops : list op) (id : N) (s1 s2 : state),
  inv s -> rok s ->
  snapshot s = (s1, id) ->
  forallb (fun o => negb (is_fin o)) ops = true ->
  run H ops s1 = Ok s2 ->
  In id (map fst (st_revs s2)) ->
  exists s3, revert_to s2 id = Ok s3 /\ obs_eq H s3 s.
Proof.
  intros H s ops id s1 s2 I [RS B] SN NF RUN LIVE. unfold snapshot in SN. injection SN as <- <-.
  set (n := lenN (st_journal s)).
  assert (T1 : T H (st_nextrev s) n s (with_revs (st_revs s ++ [(st_nextrev s, n)]) (st_nextrev s + 1) s)).
  { assert (S1 : sim H (with_revs (st_revs s ++ [(st_nextrev s, n)]) (st_nextrev s + 1) s) s) by (apply sim_eqv; auto).
    apply mkT; cbn [st_revs st_nextrev st_journal with_revs].
    - exact I.
    - apply rsorted_app; auto.
    - apply Forall_app. split; [|constructor; [cbn; unfold n; lia|constructor]].
      eapply Forall_impl; [|exact B]. intros r [A1 A2]. split; [lia|auto].
    - lia.
    - intros n' IN. cbn [st_revs with_revs] in IN. apply in_app_or in IN. destruct IN as [IN|[EQ|[]]].
      + rewrite Forall_forall in B. specialize (B _ IN). cbn [fst] in B. lia.
      + injection EQ as <-. split; [reflexivity|]. cbn [st_journal with_revs]. fold n.
        replace (N.to_nat (n - n)) with 0%nat by lia. cbn [undo_n]. eauto. }
  pose proof (run_T H _ _ _ ops _ _ T1 NF RUN) as (I2 & [RS2 B2] & LT2 & TG2).
  apply in_map_iff in LIVE. destruct LIVE as ([id' n'] & E & IN). cbn [fst] in E. subst id'.
  destruct (TG2 _ IN) as (-> & s' & U' & S').
  unfold revert_to. rewrite (rev_search_found _ _ _ RS2 IN), N.eqb_refl. cbn [negb].
  rewrite Forall_forall in B2. specialize (B2 _ IN). cbn [snd] in B2.
  replace (lenN (st_journal s2) <? n) with false by lia. rewrite U'. cbn [rbind].
  eexists. split; [reflexivity|]. apply (sim_obs H).
  destruct (undo_n_meta _ _ _ U') as (RX & _).
  eapply sim_trans; [|exact S']. apply sim_eqv; auto.
  destruct S' as (_ & _ & _ & _ & _ & _ & _ & _ & IX & _). exact IX.
Qed.

(* the invariants are kept by every operation other than Finalise/Commit *)
Theorem invariants_step : forall (H : bytes -> bytes) (s s1 : state) (o : op),
  inv s -> rok s -> is_fin o = false -> step H s o = Ok s1 -> inv s1 /\ rok s1.
Proof.
  intros H s s1 o I RK NF ST. destruct (mutator o) eqn:MU.
  - destruct (step_restores H o s s1 I MU ST) as (k & R & NX & I1 & LEN & s'' & U & S).
    destruct RK as [RS B]. split; [exact I1|]. split; [rewrite R; exact RS|].
    rewrite R, NX. rewrite Forall_forall in *. intros r IN. specialize (B r IN). cbn beta in B.
    rewrite !lenN_len in *. rewrite LEN. lia.
  - destruct o; try discriminate MU; try discriminate NF; cbn [step] in ST.
    + injection ST as <-. split; assumption.
    + injection ST as <-. cbn [snapshot fst]. destruct RK as [RS B]. split; [exact I|].
      split; cbn [st_revs st_nextrev st_journal with_revs].
      * apply rsorted_app; auto.
      * apply Forall_app. split; [|constructor; [cbn; lia|constructor]].
        eapply Forall_impl; [|exact B]. intros r [A1 A2]. split; [lia|auto].
    + unfold revert_to in ST. destruct RK as [RS B].
      destruct (nth_error (st_revs s) (rev_search id (st_revs s))) as [[id' j']|] eqn:NT; [|discriminate].
      destruct (negb (id' =? id)); [discriminate|].
      destruct (lenN (st_journal s) <? j') eqn:LJ; [discriminate|].
      destruct (undo_n (N.to_nat (lenN (st_journal s) - j')) s) as [sx|] eqn:UX; [|discriminate].
      cbn [rbind] in ST. injection ST as <-.
      destruct (undo_n_meta _ _ _ UX) as (RX & NXX & pre & JP & LP).
      pose proof (undo_n_inv H _ _ _ I UX) as IX.
      assert (LX : lenN (st_journal sx) = j').
      { rewrite !lenN_len in *. rewrite JP, app_length in *. lia. }
      split; [exact IX|]. split; cbn [st_revs st_nextrev st_journal with_revs]; rewrite ?RX, ?NXX.
      * apply rsorted_firstn; exact RS.
      * rewrite Forall_forall in *. intros r IN. pose proof (rsorted_prefix _ _ _ _ RS NT IN) as [P1 P2].
        specialize (B r (in_firstn _ _ _ IN)). cbn [fst snd] in *. split; [apply B|]. rewrite LX. exact P2.
Qed.
