(* State/StateProofs.v — lemmas for property C09 about State/StateModel.v. *)
From AQ Require Import Lib.Bytes State.StateSpec State.StateModel.
From Coq Require Import ZifyBool ZifyN ZifyNat Permutation.
Import ListNotations.
Local Open Scope N_scope.

(* ------------------------------------------------------------------ *)
(* finite maps                                                          *)
Lemma aget_aset {V} k k' (v : V) m : aget k (aset k' v m) = if k =? k' then Some v else aget k m.
Proof.
  induction m as [|[k0 v0] t IH]; cbn [aset aget].
  - destruct (k =? k') eqn:E; reflexivity.
  - destruct (k' =? k0) eqn:E1; cbn [aget].
    + destruct (k =? k') eqn:E2; [reflexivity|].
      assert (k =? k0 = false) as -> by lia. reflexivity.
    + destruct (k' <? k0) eqn:E3; cbn [aget].
      * destruct (k =? k'); reflexivity.
      * rewrite IH. destruct (k =? k0) eqn:E4; [|reflexivity].
        assert (k =? k' = false) as -> by lia. reflexivity.
Qed.

Lemma aget_adel {V} k k' (m : list (N * V)) : aget k (adel k' m) = if k =? k' then None else aget k m.
Proof.
  induction m as [|[k0 v0] t IH]; cbn [adel aget].
  - destruct (k =? k'); reflexivity.
  - destruct (k' =? k0) eqn:E1; cbn [aget]; rewrite IH.
    + destruct (k =? k') eqn:E2; [reflexivity|]. assert (k =? k0 = false) as -> by lia. reflexivity.
    + destruct (k =? k0) eqn:E2; [|reflexivity]. assert (k =? k' = false) as -> by lia. reflexivity.
Qed.

(* ------------------------------------------------------------------ *)
(* revert_observable                                                    *)
Section Revert.
Variable H : bytes -> bytes.

Definition code_of (c : list (bytes * bytes)) (o : obj) : option bytes :=
  match o_code o with
  | Some x => Some x
  | None => if bytes_eqb (o_ch o) (H []) then None else bget (o_ch o) c
  end.

(* two objects that no getter can tell apart *)
Definition same_view (c : list (bytes * bytes)) (o p : obj) : Prop :=
  o_nonce o = o_nonce p /\ o_bal o = o_bal p /\ o_ch o = o_ch p /\ code_of c o = code_of c p /\
  o_suicided o = o_suicided p /\ forall k, obj_get_state o k = obj_get_state p k.
Definition orel c (x y : option obj) : Prop :=
  match x, y with Some o, Some p => same_view c o p | None, None => True | _, _ => False end.

Lemma same_view_refl c o : same_view c o o.
Proof. repeat split. Qed.
Lemma same_view_sym c o p : same_view c o p -> same_view c p o.
Proof. intros (A & B & C & D & E & F). repeat split; auto. Qed.
Lemma same_view_trans c o p q : same_view c o p -> same_view c p q -> same_view c o q.
Proof. intros (A & B & C & D & E & F) (A' & B' & C' & D' & E' & F'). repeat split; try congruence. all: try (intros k; rewrite F; apply F'). Qed.
Lemma orel_refl c x : orel c x x.
Proof. destruct x; cbn; auto using same_view_refl. Qed.
Lemma orel_sym c x y : orel c x y -> orel c y x.
Proof. destruct x, y; cbn; auto using same_view_sym. Qed.
Lemma orel_trans c x y z : orel c x y -> orel c y z -> orel c x z.
Proof. destruct x, y, z; cbn; try tauto. apply same_view_trans. Qed.

Definition jok (e : jentry) : Prop := match e with JReset _ p => o_deleted p = false | _ => True end.
Definition inv (s : state) : Prop :=
  (forall a, get_obj s a = None -> aget a (st_trie s) = None) /\ Forall jok (st_journal s).

(* observational equivalence (everything RevertToSnapshot is supposed to restore);
   logSize is compared modulo 2^64 (it is a uint) *)
Definition sim (s t : state) : Prop :=
  st_trie s = st_trie t /\ st_codes s = st_codes t /\
  (forall a, orel (st_codes s) (get_obj s a) (get_obj t a)) /\
  st_refund s = st_refund t /\
  (forall th, get_logs s th = get_logs t th) /\
  st_logsize s mod two64 = st_logsize t mod two64 /\
  (forall h, aget h (st_preimages s) = aget h (st_preimages t)) /\
  st_journal s = st_journal t /\ inv s /\ inv t.

Lemma sim_refl s : inv s -> sim s s.
Proof. intros I. repeat split; auto using orel_refl; apply I. Qed.
Lemma sim_sym s t : sim s t -> sim t s.
Proof.
  intros (A & B & C & D & E & F & G & J & I1 & I2). repeat split; auto; try apply I1; try apply I2.
  intros a. rewrite <- B. apply orel_sym, C.
Qed.
Lemma sim_trans s t u : sim s t -> sim t u -> sim s u.
Proof.
  intros (A & B & C & D & E & F & G & J & I1 & I2) (A' & B' & C' & D' & E' & F' & G' & J' & I1' & I2').
  repeat split; try congruence; try apply I1; try apply I2'.
  all: try (intros a; eapply orel_trans; [apply C|]; rewrite B; apply C').
  all: try (intros th; rewrite E; apply E').
  all: try (intros h; rewrite G; apply G').
Qed.

(* ---- how the primitive updates act on get_obj ---- *)
Lemma get_obj_put s a o a' :
  get_obj (put_obj s a o) a' = if a' =? a then (if o_deleted o then None else Some o) else get_obj s a'.
Proof.
  unfold get_obj, put_obj, load_obj. cbn [st_live st_trie with_live]. rewrite aget_aset.
  destruct (a' =? a); reflexivity.
Qed.

Definition disarm (o : obj) : obj := if o_armed o then o_with_armed false o else o.
Lemma disarm_view c o : same_view c (disarm o) o.
Proof. unfold disarm. destruct (o_armed o); repeat split. Qed.
Lemma disarm_deleted o : o_deleted (disarm o) = o_deleted o.
Proof. unfold disarm. destruct (o_armed o); reflexivity. Qed.

Lemma get_obj_mark s a o a' :
  get_obj (mark_and_put s a o) a' = if a' =? a then (if o_deleted o then None else Some (disarm o)) else get_obj s a'.
Proof.
  unfold mark_and_put, disarm. destruct (o_armed o).
  - rewrite get_obj_put. reflexivity.
  - rewrite get_obj_put. reflexivity.
Qed.

(* fields other than live/dirty are untouched by mark_and_put / put_obj *)
Definition others (s : state) :=
  (st_trie s, st_codes s, st_refund s, st_logs s, st_logsize s, st_preimages s, st_journal s).
Lemma others_mark s a o : others (mark_and_put s a o) = others s.
Proof. unfold mark_and_put. destruct (o_armed o); reflexivity. Qed.
Lemma others_put s a o : others (put_obj s a o) = others s.
Proof. reflexivity. Qed.

Lemma get_obj_not_deleted s a o : get_obj s a = Some o -> o_deleted o = false.
Proof.
  unfold get_obj, load_obj. destruct (aget a (st_live s)) as [x|].
  - destruct (o_deleted x) eqn:E; [discriminate|]. intros [= <-]. exact E.
  - destruct (aget a (st_trie s)); [|discriminate]. intros [= <-]. reflexivity.
Qed.

(* building sim from a description of the two result states *)
Lemma sim_build s t s' t' :
  sim s t ->
  others s' = others t' -> st_trie s' = st_trie s -> st_codes s' = st_codes s ->
  (forall a, orel (st_codes s) (get_obj s' a) (get_obj t' a)) ->
  (forall a, get_obj s' a = None -> aget a (st_trie s) = None) ->
  (forall a, get_obj t' a = None -> aget a (st_trie s) = None) ->
  Forall jok (st_journal s') ->
  sim s' t'.
Proof.
  intros (A & B & C & D & E & F & G & J & I1 & I2) O T Cd R W1 W2 JK.
  unfold others in O. injection O as O1 O2 O3 O4 O5 O6 O7.
  unfold sim, inv, get_logs. rewrite <- O1, <- O2, <- O3, <- O4, <- O5, <- O6, <- O7, T, Cd.
  repeat split; auto.
Qed.

Lemma sim_objs s t s' t' :
  sim s t -> others s' = others s -> others t' = others t ->
  (forall a, orel (st_codes s) (get_obj s' a) (get_obj t' a)) ->
  (forall a, get_obj s' a = None -> aget a (st_trie s) = None) ->
  (forall a, get_obj t' a = None -> aget a (st_trie s) = None) ->
  sim s' t'.
Proof.
  intros (A & B & C & D & E & F & G & J & I1 & I2) O1 O2 R W1 W2.
  unfold others in O1, O2. injection O1 as P1 P2 P3 P4 P5 P6 P7. injection O2 as Q1 Q2 Q3 Q4 Q5 Q6 Q7.
  unfold sim, inv, get_logs. rewrite P1, P2, P3, P4, P5, P6, P7, Q1, Q2, Q3, Q4, Q5, Q6, Q7.
  repeat split; auto; try apply I1; try apply I2.
  intros a Ha. rewrite <- A. auto.
Qed.

Lemma sim_mark s t a o p :
  sim s t -> same_view (st_codes s) o p -> o_deleted o = false -> o_deleted p = false ->
  sim (mark_and_put s a o) (mark_and_put t a p).
Proof.
  intros S V Do Dp. pose proof S as (A & B & C & D & E & F & G & J & I1 & I2).
  apply (sim_objs s t); auto using others_mark.
  - intros a'. rewrite !get_obj_mark. destruct (a' =? a); [|apply C]. rewrite Do, Dp. cbn [orel].
    eapply same_view_trans; [apply disarm_view|]. eapply same_view_trans; [apply V|]. apply same_view_sym, disarm_view.
  - intros a'. rewrite get_obj_mark. destruct (a' =? a); [rewrite Do; discriminate|]. apply I1.
  - intros a'. rewrite get_obj_mark. destruct (a' =? a); [rewrite Dp; discriminate|]. rewrite A. apply I2.
Qed.

Lemma sim_put s t a o p :
  sim s t -> same_view (st_codes s) o p -> o_deleted o = false -> o_deleted p = false ->
  sim (put_obj s a o) (put_obj t a p).
Proof.
  intros S V Do Dp. pose proof S as (A & B & C & D & E & F & G & J & I1 & I2).
  apply (sim_objs s t); auto.
  - intros a'. rewrite !get_obj_put. destruct (a' =? a); [|apply C]. rewrite Do, Dp. exact V.
  - intros a'. rewrite get_obj_put. destruct (a' =? a); [rewrite Do; discriminate|]. apply I1.
  - intros a'. rewrite get_obj_put. destruct (a' =? a); [rewrite Dp; discriminate|]. rewrite A. apply I2.
Qed.

Lemma sim_dirty s t d d' : sim s t -> sim (with_dirty d s) (with_dirty d' t).
Proof. intros S. exact S. Qed.

Lemma obj_get_state_slot o k v k' :
  obj_get_state (o_with_slot k v o) k' = if k' =? k then v else obj_get_state o k'.
Proof. unfold obj_get_state, o_with_slot. cbn [o_cached o_root]. rewrite aget_aset. destruct (k' =? k); reflexivity. Qed.

Lemma get_obj_del s a a' d :
  get_obj (with_dirty d (with_live (adel a (st_live s)) s)) a' = if a' =? a then load_obj s a else get_obj s a'.
Proof.
  unfold get_obj, load_obj. cbn [st_live st_trie with_live with_dirty]. rewrite aget_adel.
  destruct (a' =? a) eqn:E; [|reflexivity]. apply N.eqb_eq in E. subst. reflexivity.
Qed.

Ltac ndtac := cbn [o_deleted o_with_bal o_with_suicided o_with_nonce o_with_code o_with_touched o_with_slot]; eapply get_obj_not_deleted; eauto.
Ltac svtac C :=
  destruct C as (c1 & c2 & c3 & c4 & c5 & c6); unfold same_view, code_of in *;
  cbn [o_nonce o_bal o_ch o_code o_suicided o_with_bal o_with_suicided o_with_nonce o_with_code o_with_touched o_with_slot] in *;
  repeat split; auto.

(* RevertToSnapshot's building block respects observational equivalence: undoing the same
   journal entry in two states no getter can tell apart panics in both or gives two such states *)
Lemma undo_sim e s t s' :
  sim s t -> jok e -> undo e s = Ok s' -> exists t', undo e t = Ok t' /\ sim s' t'.
Proof.
  intros S JK U. pose proof S as (A & B & C & D & E & F & G & J & I1 & I2).
  destruct e as [a|a prev|a prev pb|a prev|a prev|a k prev|a pc ph|prev|th|h|a prev pd]; cbn [undo] in *.
  - (* JCreate *) injection U as <-. eexists. split; [reflexivity|].
    apply (sim_objs s t); auto.
    + intros a'. rewrite !get_obj_del. destruct (a' =? a); [|apply C]. unfold load_obj. rewrite A. apply orel_refl.
    + intros a'. rewrite get_obj_del. destruct (a' =? a) eqn:Ea; [|apply I1]. apply N.eqb_eq in Ea. subst a'.
      unfold load_obj. destruct (aget a (st_trie s)); [discriminate|reflexivity].
    + intros a'. rewrite get_obj_del. destruct (a' =? a) eqn:Ea; [|rewrite A; apply I2]. apply N.eqb_eq in Ea. subst a'.
      unfold load_obj. rewrite <- A. destruct (aget a (st_trie s)); [discriminate|reflexivity].
  - (* JReset *) injection U as <-. eexists. split; [reflexivity|]. apply sim_put; auto using same_view_refl.
  - (* JSuicide *) specialize (C a). destruct (get_obj s a) as [o|] eqn:Go, (get_obj t a) as [p|] eqn:Gp; cbn in C; try contradiction.
    + injection U as <-. eexists. split; [reflexivity|].
      apply sim_mark; auto; [|ndtac|ndtac].
      svtac C.
    + injection U as <-. eexists. split; [reflexivity|]. exact S.
  - (* JBalance *) specialize (C a). destruct (get_obj s a) as [o|] eqn:Go, (get_obj t a) as [p|] eqn:Gp; cbn in C; try contradiction; try discriminate.
    injection U as <-. eexists. split; [reflexivity|].
    apply sim_mark; auto; [|ndtac|ndtac].
    svtac C.
  - (* JNonce *) specialize (C a). destruct (get_obj s a) as [o|] eqn:Go, (get_obj t a) as [p|] eqn:Gp; cbn in C; try contradiction; try discriminate.
    injection U as <-. eexists. split; [reflexivity|].
    apply sim_mark; auto; [|ndtac|ndtac].
    svtac C.
  - (* JStorage *) specialize (C a). destruct (get_obj s a) as [o|] eqn:Go, (get_obj t a) as [p|] eqn:Gp; cbn in C; try contradiction; try discriminate.
    injection U as <-. eexists. split; [reflexivity|].
    apply sim_mark; auto; [|ndtac|ndtac].
    svtac C.
    intros k'. change (obj_get_state (o_with_slot k prev o) k' = obj_get_state (o_with_slot k prev p) k').
    rewrite !obj_get_state_slot. destruct (k' =? k); auto.
  - (* JCode *) specialize (C a). destruct (get_obj s a) as [o|] eqn:Go, (get_obj t a) as [p|] eqn:Gp; cbn in C; try contradiction; try discriminate.
    injection U as <-. eexists. split; [reflexivity|].
    apply sim_mark; auto; [|ndtac|ndtac].
    svtac C.
  - (* JRefund *) injection U as <-. eexists. split; [reflexivity|].
    unfold sim, inv, get_logs in *. cbn. repeat split; auto; try apply I1; try apply I2.
  - (* JLog *)
    assert (EL : match aget th (st_logs s) with Some x => x | None => [] end = match aget th (st_logs t) with Some x => x | None => [] end) by apply (E th).
    rewrite <- EL.
    assert (FM : (st_logsize s + two64 - 1) mod two64 = (st_logsize t + two64 - 1) mod two64).
    { replace (st_logsize s + two64 - 1) with (st_logsize s + (two64 - 1)) by (unfold two64; lia).
      replace (st_logsize t + two64 - 1) with (st_logsize t + (two64 - 1)) by (unfold two64; lia).
      rewrite (N.add_mod (st_logsize s)), (N.add_mod (st_logsize t)) by (unfold two64; lia). rewrite F. reflexivity. }
    destruct (match aget th (st_logs s) with Some x => x | None => [] end) as [|l0 [|l1 ls]] eqn:EQ; [discriminate| |].
    + injection U as <-. eexists. split; [reflexivity|].
      unfold sim, inv, get_logs in *. cbn [st_trie st_codes st_refund st_logs st_logsize st_preimages st_journal with_logs get_obj st_live load_obj].
      repeat split; auto; try apply I1; try apply I2.
      * intros th'. rewrite !aget_adel. destruct (th' =? th); auto; try apply E.
      * rewrite FM. reflexivity.
    + injection U as <-. eexists. split; [reflexivity|].
      unfold sim, inv, get_logs in *. cbn [st_trie st_codes st_refund st_logs st_logsize st_preimages st_journal with_logs get_obj st_live load_obj].
      repeat split; auto; try apply I1; try apply I2.
      * intros th'. rewrite !aget_aset. destruct (th' =? th); auto; try apply E.
      * rewrite FM. reflexivity.
  - (* JPreimage *) injection U as <-. eexists. split; [reflexivity|].
    unfold sim, inv, get_logs in *. cbn [st_trie st_codes st_refund st_logs st_logsize st_preimages st_journal with_preimages get_obj st_live load_obj].
    repeat split; auto; try apply I1; try apply I2.
    intros h'. rewrite !aget_adel. destruct (h' =? h); auto.
  - (* JTouch *)
    destruct (negb prev && negb (a =? ripemd_addr)).
    + specialize (C a). destruct (get_obj s a) as [o|] eqn:Go, (get_obj t a) as [p|] eqn:Gp; cbn in C; try contradiction; try discriminate.
      injection U as <-. eexists. split; [reflexivity|].
      assert (SP : sim (put_obj s a (o_with_touched prev o)) (put_obj t a (o_with_touched prev p))).
      { apply sim_put; auto; try ndtac. }
      destruct pd; [exact SP|apply sim_dirty; exact SP].
    + injection U as <-. eexists. split; [reflexivity|]. exact S.
Qed.

Lemma sim_pop s t e j :
  sim s t -> st_journal s = e :: j -> sim (with_journal j s) (with_journal j t) /\ jok e.
Proof.
  intros (A & B & C & D & E & F & G & J & I1 & I2) EJ.
  destruct I1 as [W1 K1]. destruct I2 as [W2 K2]. rewrite EJ in K1. inversion K1 as [|x l K1a K1b]; subst.
  split; [|exact K1a]. unfold sim, inv, get_logs in *. cbn. repeat split; auto.
Qed.

(* rewinding the journal (the loop of RevertToSnapshot) respects observational equivalence *)
Lemma undo_n_sim n : forall s t s',
  sim s t -> undo_n n s = Ok s' -> exists t', undo_n n t = Ok t' /\ sim s' t'.
Proof.
  induction n as [|n IH]; intros s t s' S U; cbn [undo_n] in *.
  - injection U as <-. eauto.
  - pose proof S as (A & B & C & D & E & F & G & J & I1 & I2).
    destruct (st_journal s) as [|e j] eqn:EJ; [discriminate|]. rewrite <- J.
    destruct (sim_pop s t e j S EJ) as [SP JK].
    destruct (undo e (with_journal j s)) as [s1|] eqn:U1; [|discriminate]. cbn [rbind] in U.
    destruct (undo_sim e _ _ _ SP JK U1) as (t1 & U2 & S1). rewrite U2. cbn [rbind].
    eapply IH; eauto.
Qed.

Definition obs_eq (s t : state) : Prop :=
  (forall a, account_view H s a = account_view H t a) /\
  (forall a k, get_state s a k = get_state t a k) /\
  (forall a, exist s a = exist t a) /\ (forall a, is_empty H s a = is_empty H t a) /\
  get_refund s = get_refund t /\ (forall th, get_logs s th = get_logs t th) /\
  (forall h, aget h (st_preimages s) = aget h (st_preimages t)).

(* observational equivalence is what the getters see *)
Lemma sim_obs s t : sim s t -> obs_eq s t.
Proof.
  intros (A & B & C & D & E & F & G & J & I1 & I2).
  assert (V : forall a, account_view H s a = account_view H t a).
  { intros a. specialize (C a). unfold account_view. destruct (get_obj s a) as [o|], (get_obj t a) as [p|]; cbn in C; try contradiction; auto.
    destruct C as (c1 & c2 & c3 & c4 & c5 & c6). change (obj_code H s o) with (code_of (st_codes s) o). change (obj_code H t p) with (code_of (st_codes t) p).
    rewrite <- B, c4, c1, c2, c3, c5. reflexivity. }
  repeat split; auto.
  - intros a k. specialize (C a). unfold get_state. destruct (get_obj s a) as [o|], (get_obj t a) as [p|]; cbn in C; try contradiction; auto. apply C.
  - intros a. specialize (C a). unfold exist. destruct (get_obj s a), (get_obj t a); cbn in C; try contradiction; auto.
  - intros a. specialize (C a). unfold is_empty. destruct (get_obj s a) as [o|], (get_obj t a) as [p|]; cbn in C; try contradiction; auto.
    destruct C as (c1 & c2 & c3 & c4 & c5 & c6). unfold obj_empty. rewrite c1, c2, c3. reflexivity.
Qed.

(* C09 (partial): the rewind loop of RevertToSnapshot cannot distinguish two states that no getter
   distinguishes: from such states it panics in both or yields two states that again agree on every
   getter at every address and slot, Exist, Empty, the refund counter, the logs and the preimages. *)
Theorem rewind_respects_observables : forall n s t s',
  sim s t -> undo_n n s = Ok s' -> exists t', undo_n n t = Ok t' /\ obs_eq s' t'.
Proof.
  intros n s t s' S U. destruct (undo_n_sim n s t s' S U) as (t' & U' & S'). eauto using sim_obs.
Qed.

(* one journalled balance change (AddBalance/SubBalance/SetBalance on an existing account) is exactly
   undone on every observable, for any state *)
Lemma revert_set_balance s a v s1 id o :
  inv s -> get_obj s a = Some o -> snapshot s = (s1, id) -> st_revs s = [] ->
  exists s3, run H [OSetBal a v; ORevert id] s1 = Ok s3 /\ obs_eq s3 s.
Proof.
  intros I G SN RV. unfold snapshot in SN. injection SN as <- <-.
  cbn [run fold_res step rbind]. unfold set_balance, get_or_new.
  change (get_obj (with_revs _ _ s) a) with (get_obj s a). rewrite G.
  unfold revert_to, obj_set_balance. rewrite RV.
  set (s1 := with_revs _ _ s). set (s2 := mark_and_put _ a _).
  assert (O2 : others s2 = (st_trie s, st_codes s, st_refund s, st_logs s, st_logsize s, st_preimages s, JBalance a (o_bal o) :: st_journal s)).
  { unfold s2. rewrite others_mark. reflexivity. }
  assert (R2 : st_revs s2 = [(st_nextrev s, lenN (st_journal s))] /\ st_nextrev s2 = st_nextrev s + 1).
  { unfold s2, mark_and_put. destruct (o_armed (o_with_bal v o)); split; reflexivity. }
  destruct R2 as [R2 N2]. rewrite R2. cbn [app rev_search]. rewrite N.leb_refl. cbn [nth_error].
  rewrite N.eqb_refl. cbn [negb].
  unfold others in O2. injection O2 as T2 C2 F2 L2 LS2 P2 J2. rewrite J2.
  replace (lenN (JBalance a (o_bal o) :: st_journal s) <? lenN (st_journal s)) with false by (rewrite lenN_cons; lia).
  replace (N.to_nat (lenN (JBalance a (o_bal o) :: st_journal s) - lenN (st_journal s))) with 1%nat by (rewrite lenN_cons; lia).
  cbn [undo_n]. rewrite J2. cbn [undo rbind].
  change (get_obj (with_journal (st_journal s) s2) a) with (get_obj s2 a).
  unfold s2 at 1. rewrite get_obj_mark, N.eqb_refl.
  assert (Dl : o_deleted o = false) by (eapply get_obj_not_deleted; eauto).
  cbn [o_deleted o_with_bal]. rewrite Dl. cbn [rbind].
  eexists. split; [reflexivity|]. apply sim_obs.
  set (s3 := mark_and_put _ a _).
  apply (sim_objs s s).
  - apply sim_refl; exact I.
  - unfold s3. cbn [st_trie]. unfold others. cbn [st_trie st_codes st_refund st_logs st_logsize st_preimages st_journal with_revs].
    pose proof (others_mark (with_journal (st_journal s) s2) a (o_with_bal (o_bal o) (disarm (o_with_bal v o)))) as OM.
    unfold others in OM. injection OM as -> -> -> -> -> -> ->. cbn. rewrite T2, C2, F2, L2, LS2, P2. reflexivity.
  - reflexivity.
  - intros a'. change (get_obj (with_revs _ _ s3) a') with (get_obj s3 a'). unfold s3. rewrite get_obj_mark.
    change (get_obj (with_journal (st_journal s) s2) a') with (get_obj s2 a'). unfold s2. rewrite get_obj_mark.
    change (get_obj (push_journal _ s1) a') with (get_obj s a').
    destruct (a' =? a) eqn:Ea; [|apply orel_refl]. apply N.eqb_eq in Ea. subst a'. rewrite G.
    cbn [o_deleted o_with_bal]. rewrite disarm_deleted. cbn [o_deleted o_with_bal]. rewrite Dl. cbn [orel].
    eapply same_view_trans; [apply disarm_view|].
    pose proof (disarm_view (st_codes s) (o_with_bal v o)) as (d1 & d2 & d3 & d4 & d5 & d6).
    unfold same_view, code_of in *. cbn [o_nonce o_bal o_ch o_code o_suicided o_with_bal] in *. repeat split; auto.
  - intros a'. change (get_obj (with_revs _ _ s3) a') with (get_obj s3 a'). unfold s3. rewrite get_obj_mark.
    change (get_obj (with_journal (st_journal s) s2) a') with (get_obj s2 a'). unfold s2. rewrite get_obj_mark.
    change (get_obj (push_journal _ s1) a') with (get_obj s a').
    destruct (a' =? a); [|apply I]. cbn [o_deleted o_with_bal]. rewrite disarm_deleted. cbn [o_deleted o_with_bal]. rewrite Dl. discriminate.
  - intros a'. apply I.
Qed.

Lemma inv_new_state trie codes : inv (new_state trie codes).
Proof.
  split; [|constructor]. intros a. unfold get_obj, load_obj, new_state. cbn [st_live st_trie aget].
  destruct (aget a trie); [discriminate|reflexivity].
Qed.
End Revert.
