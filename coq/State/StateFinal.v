(* State/StateFinal.v — C09, final phase: decidable checks for the premises of copy_obs /
   commit_reopen (non-vacuity on concrete reachable states), history independence of the committed
   root, and the step from content to the real Merkle root (C10's specification root). *)
From AQ Require Import Lib.Bytes Lib.Keccak State.StateSpec State.StateModel State.StateProofs
  State.StateRefute State.StatePerm State.StateCopy.
From Coq Require Import ZifyBool ZifyN ZifyNat.
Import ListNotations.
Local Open Scope N_scope.

Lemma aget_In {V} k (m : list (N * V)) v : aget k m = Some v -> In (k, v) m.
Proof.
  induction m as [|[k0 v0] t IH]; cbn [aget]; [discriminate|].
  destruct (k =? k0) eqn:E; [intros [= <-]; apply N.eqb_eq in E; subst; left; reflexivity|right; auto].
Qed.

(* ---- boolean checks that imply the premises ---- *)
Definition all_dirty_b (s : state) : bool := forallb (fun kv => nmem (fst kv) (st_dirty s)) (st_live s).

Definition opt_eqb (x : option N) (v : N) : bool := match x with Some y => y =? v | None => false end.
Definition coherent_b (o : obj) : bool :=
  forallb (fun kv => opt_eqb (aget (fst kv) (o_cached o)) (snd kv)) (o_dirtyst o) &&
  forallb (fun kv => match aget (fst kv) (o_dirtyst o) with
                     | Some _ => true
                     | None => snd kv =? lookup0 (fst kv) (o_root o)
                     end) (o_cached o).

Fixpoint nodup_b (l : list N) : bool :=
  match l with [] => true | x :: t => negb (nmem x t) && nodup_b t end.

Lemma nmem_In k l : nmem k l = true <-> In k l.
Proof.
  induction l as [|x t IH]; cbn [nmem In]; [split; [discriminate|tauto]|].
  rewrite orb_true_iff, IH, N.eqb_eq. split; intros [A|A]; auto.
Qed.
Lemma nodup_b_ok l : nodup_b l = true -> NoDup l.
Proof.
  induction l as [|x t IH]; cbn [nodup_b]; intros E; [constructor|].
  apply andb_true_iff in E. destruct E as [E1 E2]. constructor; auto.
  intros IN. apply nmem_In in IN. rewrite IN in E1. discriminate.
Qed.

Section Checks.
Variable H : bytes -> bytes.

Lemma all_dirty_no_unmarked s : all_dirty_b s = true -> no_unmarked H s.
Proof.
  unfold all_dirty_b, no_unmarked. rewrite forallb_forall. intros A a o E ND.
  specialize (A _ (aget_In _ _ _ E)). cbn [fst] in A. congruence.
Qed.

Lemma coherent_b_ok o : coherent_b o = true -> st_coherent o.
Proof.
  unfold coherent_b, st_coherent. intros E k. apply andb_true_iff in E. destruct E as [E1 E2].
  rewrite forallb_forall in E1, E2. split.
  - intros v A. specialize (E1 _ (aget_In _ _ _ A)). cbn [fst snd] in E1. unfold opt_eqb in E1.
    destruct (aget k (o_cached o)); [|discriminate]. apply N.eqb_eq in E1. congruence.
  - intros v A B. specialize (E2 _ (aget_In _ _ _ B)). cbn [fst snd] in E2. rewrite A in E2. lia.
Qed.

Lemma live_forall (P : obj -> Prop) (f : obj -> bool) s :
  (forall o, f o = true -> P o) -> forallb (fun kv => f (snd kv)) (st_live s) = true ->
  forall a o, aget a (st_live s) = Some o -> P o.
Proof. intros FP A a o E. rewrite forallb_forall in A. apply FP. exact (A _ (aget_In _ _ _ E)). Qed.

Definition code_ok_b (s : state) (o : obj) : bool :=
  match o_code o with
  | Some c => bytes_eqb (o_ch o) (H c) && o_dirtycode o
  | None => true
  end.
Lemma code_ok_b_ok s o c : code_ok_b s o = true -> o_code o = Some c ->
  o_ch o = H c /\ (o_dirtycode o = true \/ bget (o_ch o) (st_codes s) = Some c).
Proof.
  unfold code_ok_b. intros E C. rewrite C in E. apply andb_true_iff in E. destruct E as [E1 E2].
  split; [|left; exact E2]. destruct (bytes_eqb_spec (o_ch o) (H c)); [assumption|discriminate].
Qed.
End Checks.

(* ---- a concrete reachable state: storage write, code, fresh account, all still dirty ---- *)
Definition ex2 : state := Eval vm_compute in
  unres ex_state (run keccak256 [OSetState 4 1 7; OSetCode 1 [x01]; OSetNonce 9 3; OSetState 4 2 0] ex_state).

Lemma ex2_copy_premises :
  (exists c, copy ex2 = Ok c) /\ no_unmarked keccak256 ex2 /\
  (forall a o, aget a (st_live ex2) = Some o -> st_coherent o).
Proof.
  split; [eexists; vm_compute; reflexivity|]. split.
  - apply all_dirty_no_unmarked. vm_compute. reflexivity.
  - apply (live_forall st_coherent coherent_b ex2 coherent_b_ok). vm_compute. reflexivity.
Qed.

(* the same history under the (trivially collision-free) hash H = identity, for commit_reopen *)
Definition idH : bytes -> bytes := fun x => x.
Definition ex_state_id : state := new_state [(1, mkAcct 0 100%Z [] []); (4, mkAcct 0 0%Z [] [])] [].
Definition ex3 : state := Eval vm_compute in
  unres ex_state_id (run idH [OSetState 4 1 7; OSetCode 1 [x01]; OSetNonce 9 3; OSetState 4 2 0] ex_state_id).

Lemma ex3_reopen_premises :
  (forall x y, idH x = idH y -> x = y) /\
  (exists s' r, commit idH true ex3 = Ok (s', r)) /\
  no_unmarked idH ex3 /\
  (forall a o, aget a (st_live ex3) = Some o -> st_coherent o) /\
  (forall a o, aget a (st_live ex3) = Some o -> NoDup (akeys (o_dirtyst o))) /\
  NoDup (akeys (st_live ex3)) /\
  (forall a o, aget a (st_live ex3) = Some o -> o_deleted o = true -> nmem a (st_dirty ex3) = true ->
               o_suicided o = true \/ (true = true /\ obj_empty idH o = true)) /\
  (forall h c, bget h (st_codes ex3) = Some c -> h = idH c) /\
  (forall a o c, aget a (st_live ex3) = Some o -> o_code o = Some c ->
                 o_ch o = idH c /\ (o_dirtycode o = true \/ bget (o_ch o) (st_codes ex3) = Some c)).
Proof.
  split; [intros x y E; exact E|].
  split; [eexists; eexists; vm_compute; reflexivity|].
  split; [apply all_dirty_no_unmarked; vm_compute; reflexivity|].
  split; [apply (live_forall st_coherent coherent_b ex3 coherent_b_ok); vm_compute; reflexivity|].
  split; [apply (live_forall (fun o => NoDup (akeys (o_dirtyst o))) (fun o => nodup_b (akeys (o_dirtyst o))) ex3);
          [intros o; apply nodup_b_ok|vm_compute; reflexivity]|].
  split; [apply nodup_b_ok; vm_compute; reflexivity|].
  split.
  - intros a o E D. exfalso. revert D.
    apply (live_forall (fun o => o_deleted o = true -> False) (fun o => negb (o_deleted o)) ex3) with (a := a); auto.
    all: try (intros o' N D; rewrite D in N; discriminate). all: try (vm_compute; reflexivity).
  - split; [intros h c E; vm_compute in E; discriminate|].
    intros a o c E C. apply (code_ok_b_ok idH ex3 o c); auto.
    revert C. apply (live_forall (fun o => o_code o = Some c -> code_ok_b idH ex3 o = true) (fun o => code_ok_b idH ex3 o) ex3) with (a := a); auto.
    all: try (vm_compute; reflexivity).
Qed.

(* ------------------------------------------------------------------------------------------ *)
(* history independence of the committed root *)
Lemma same_account_sym x y : same_account x y -> same_account y x.
Proof. destruct x, y; cbn; try tauto. intros (A & B & C & D & E). repeat split; congruence. Qed.
Lemma same_account_trans x y z : same_account x y -> same_account y z -> same_account x z.
Proof.
  destruct x, y, z; cbn; try tauto.
  intros (A & B & C & D & E) (A' & B' & C' & D' & E'). repeat split; congruence.
Qed.

(* canonical form of an account-trie content: sorted, storage contents sorted and without zero
   values (updateTrie deletes instead of storing zero) *)
Definition zero_free (m : smap) : Prop := forall k, aget k m <> Some 0.
Definition trie_canon (r : list (N * acct)) : Prop :=
  sorted r /\ forall a ac, aget a r = Some ac -> sorted (a_root ac) /\ zero_free (a_root ac).

Lemma lookup0_ext m1 m2 : sorted m1 -> sorted m2 -> zero_free m1 -> zero_free m2 ->
  (forall k, lookup0 k m1 = lookup0 k m2) -> m1 = m2.
Proof.
  intros S1 S2 Z1 Z2 E. apply sorted_ext; auto. intros k. specialize (E k). unfold lookup0 in E.
  specialize (Z1 k). specialize (Z2 k).
  destruct (aget k m1) as [v1|], (aget k m2) as [v2|]; try congruence.
Qed.

Section HistInd.
Variable H : bytes -> bytes.

Lemma view_new_state r codes a :
  account_view H (new_state r codes) a =
  match aget a r with
  | Some ac => Some (mkView (a_nonce ac) (a_bal ac) (a_ch ac)
                            (obj_code H (new_state r codes) (new_object (a_nonce ac) (a_bal ac) (a_root ac) (a_ch ac) true)) false)
  | None => None
  end.
Proof. unfold account_view, get_obj, load_obj, new_state. cbn [st_live st_trie aget]. destruct (aget a r); reflexivity. Qed.

Lemma get_state_new_state r codes a k :
  get_state (new_state r codes) a k = match aget a r with Some ac => lookup0 k (a_root ac) | None => 0 end.
Proof. unfold get_state, get_obj, load_obj, new_state. cbn [st_live st_trie aget]. destruct (aget a r); reflexivity. Qed.

(* two account-trie contents in canonical form that read the same through a StateDB opened on
   them are the same content *)
Lemma content_of_reads r1 r2 c1 c2 :
  trie_canon r1 -> trie_canon r2 ->
  (forall a, same_account (account_view H (new_state r1 c1) a) (account_view H (new_state r2 c2) a) /\
             forall k, get_state (new_state r1 c1) a k = get_state (new_state r2 c2) a k) ->
  r1 = r2.
Proof.
  intros [S1 L1] [S2 L2] E. apply sorted_ext; auto. intros a. destruct (E a) as [V G].
  rewrite !view_new_state in V. specialize (L1 a). specialize (L2 a).
  destruct (aget a r1) as [ac1|] eqn:A1, (aget a r2) as [ac2|] eqn:A2; cbn in V; try contradiction; auto.
  destruct V as (V1 & V2 & V3 & _). cbn [v_nonce v_balance v_codehash] in V1, V2, V3.
  destruct (L1 _ eq_refl) as [SR1 Z1]. destruct (L2 _ eq_refl) as [SR2 Z2].
  assert (R : a_root ac1 = a_root ac2).
  { apply lookup0_ext; auto. intros k. specialize (G k). rewrite !get_state_new_state, A1, A2 in G. exact G. }
  destruct ac1, ac2. cbn in *. congruence.
Qed.

Hypothesis H_inj : forall x y, H x = H y -> x = y.

Definition commit_premises (b : bool) (s : state) : Prop :=
  no_unmarked H s /\
  (forall a o, aget a (st_live s) = Some o -> st_coherent o) /\
  (forall a o, aget a (st_live s) = Some o -> NoDup (akeys (o_dirtyst o))) /\
  NoDup (akeys (st_live s)) /\
  (forall a o, aget a (st_live s) = Some o -> o_deleted o = true -> nmem a (st_dirty s) = true ->
               o_suicided o = true \/ (b = true /\ obj_empty H o = true)) /\
  (forall h c, bget h (st_codes s) = Some c -> h = H c) /\
  (forall a o c, aget a (st_live s) = Some o -> o_code o = Some c ->
                 o_ch o = H c /\ (o_dirtycode o = true \/ bget (o_ch o) (st_codes s) = Some c)).

(* the committed root is a function of what the getters show after the Commit, whatever the
   histories that led to the two states *)
Theorem root_history_independent : forall b1 b2 s1 s2 s1' s2' r1 r2,
  commit H b1 s1 = Ok (s1', r1) -> commit H b2 s2 = Ok (s2', r2) ->
  commit_premises b1 s1 -> commit_premises b2 s2 ->
  trie_canon r1 -> trie_canon r2 ->
  (forall a, same_account (account_view H s1' a) (account_view H s2' a) /\
             forall k, get_state s1' a k = get_state s2' a k) ->
  r1 = r2.
Proof.
  intros b1 b2 s1 s2 s1' s2' r1 r2 C1 C2 (P1 & P2 & P3 & P4 & P5 & P6 & P7) (Q1 & Q2 & Q3 & Q4 & Q5 & Q6 & Q7) T1 T2 E.
  pose proof (commit_reopen H H_inj b1 s1 s1' r1 C1 P1 P2 P3 P4 P5 P6 P7) as R1.
  pose proof (commit_reopen H H_inj b2 s2 s2' r2 C2 Q1 Q2 Q3 Q4 Q5 Q6 Q7) as R2.
  cbv zeta in R1, R2.
  apply (content_of_reads r1 r2 (st_codes s1') (st_codes s2')); auto.
  intros a. destruct (R1 a) as [V1 G1]. destruct (R2 a) as [V2 G2]. destruct (E a) as [V G]. split.
  - eapply same_account_trans; [exact V1|]. eapply same_account_trans; [exact V|]. apply same_account_sym, V2.
  - intros k. rewrite G1, G, <- G2. reflexivity.
Qed.
End HistInd.

(* ---- Commit keeps the canonical form, so trie_canon of the result is not an extra premise ---- *)
Definition canon_state (s : state) : Prop :=
  trie_canon (st_trie s) /\
  forall a o, aget a (st_live s) = Some o -> sorted (o_root o) /\ zero_free (o_root o).

Lemma update_trie_canon d : forall m, sorted m -> zero_free m ->
  sorted (update_trie_with d m) /\ zero_free (update_trie_with d m).
Proof.
  unfold update_trie_with. induction d as [|[k v] d IH]; intros m S Z; cbn [fold_left]; [auto|].
  apply IH; cbn [fst snd]; destruct (v =? 0) eqn:E.
  - apply adel_sorted; exact S.
  - apply aset_sorted; exact S.
  - intros k'. rewrite aget_adel. destruct (k' =? k); [discriminate|apply Z].
  - intros k'. rewrite aget_aset. destruct (k' =? k); [intros [= ->]; lia|apply Z].
Qed.

Lemma trie_canon_aset r a ac : trie_canon r -> sorted (a_root ac) -> zero_free (a_root ac) -> trie_canon (aset a ac r).
Proof.
  intros [S L] SA ZA. split; [apply aset_sorted; exact S|]. intros a' ac'. rewrite aget_aset.
  destruct (a' =? a); [intros [= <-]; auto|apply L].
Qed.
Lemma trie_canon_adel r a : trie_canon r -> trie_canon (adel a r).
Proof.
  intros [S L]. split; [apply adel_sorted; exact S|]. intros a' ac'. rewrite aget_adel.
  destruct (a' =? a); [discriminate|apply L].
Qed.

Lemma live_canon_put (l : list (N * obj)) a o :
  (forall a' o', aget a' l = Some o' -> sorted (o_root o') /\ zero_free (o_root o')) ->
  sorted (o_root o) -> zero_free (o_root o) ->
  forall a' o', aget a' (aset a o l) = Some o' -> sorted (o_root o') /\ zero_free (o_root o').
Proof. intros L S Z a' o'. rewrite aget_aset. destruct (a' =? a); [intros [= <-]; auto|apply L]. Qed.

Lemma commit_one_canon H b s a s' : canon_state s -> commit_one H b s a = Ok s' -> canon_state s'.
Proof.
  intros [T L] C. unfold commit_one in C. destruct (aget a (st_live s)) as [o|] eqn:E; [|injection C as <-; split; assumption].
  destruct (L _ _ E) as [So Zo].
  destruct (o_suicided o || (nmem a (st_dirty s) && b && obj_empty H o)).
  - cbn [rbind] in C. injection C as <-. split; cbn.
    + apply trie_canon_adel; exact T.
    + apply live_canon_put; auto.
  - destruct (nmem a (st_dirty s)).
    + set (p := match o_code o with
                | Some c => if o_dirtycode o then (with_codes (bset (o_ch o) c (st_codes s)) s, o_with_dirtycode false o) else (s, o)
                | None => (s, o) end) in C.
      assert (P : st_trie (fst p) = st_trie s /\ st_live (fst p) = st_live s /\ o_root (snd p) = o_root o /\ o_dirtyst (snd p) = o_dirtyst o).
      { unfold p. destruct (o_code o); [destruct (o_dirtycode o)|]; repeat split. }
      destruct p as [s1 o1]. cbn [fst snd] in P. destruct P as (P1 & P2 & P3 & P4).
      unfold update_state_object in C. destruct (o_bal (obj_update_root o1) <? 0)%Z; [discriminate|].
      cbn [rbind] in C. injection C as <-.
      destruct (update_trie_canon (o_dirtyst o) (o_root o) So Zo) as [SU ZU].
      assert (RU : o_root (obj_update_root o1) = update_trie_with (o_dirtyst o) (o_root o)) by (cbn; rewrite P3, P4; reflexivity).
      split; cbn [st_trie st_live with_dirty with_trie put_obj with_live]; rewrite ?P1, ?P2.
      * apply trie_canon_aset; auto; cbn [a_root]; rewrite P3, P4; auto.
      * apply live_canon_put; auto; rewrite RU; auto.
    + cbn [rbind] in C. injection C as <-. split; assumption.
Qed.

Lemma commit_canon H b s s' r : canon_state s -> commit H b s = Ok (s', r) -> trie_canon r.
Proof.
  unfold commit, commit_with. intros CS C.
  destruct (fold_res (commit_one H b) (akeys (st_live s)) s) as [sf|] eqn:F; [|discriminate].
  cbn [rbind] in C. injection C as <- <-. cbn.
  assert (G : forall l s0 sf0, canon_state s0 -> fold_res (commit_one H b) l s0 = Ok sf0 -> canon_state sf0).
  { induction l as [|x l IH]; intros s0 sf0 C0 F0; cbn [fold_res] in F0; [injection F0 as <-; exact C0|].
    destruct (commit_one H b s0 x) as [s1|] eqn:C1; [|discriminate]. cbn [rbind] in F0.
    eapply IH; [eapply commit_one_canon; eauto|exact F0]. }
  exact (proj1 (G _ _ _ CS F)).
Qed.

Theorem root_history_independent_canon :
  forall (H : bytes -> bytes), (forall x y, H x = H y -> x = y) ->
  forall b1 b2 s1 s2 s1' s2' r1 r2,
  commit H b1 s1 = Ok (s1', r1) -> commit H b2 s2 = Ok (s2', r2) ->
  commit_premises H b1 s1 -> commit_premises H b2 s2 ->
  canon_state s1 -> canon_state s2 ->
  (forall a, same_account (account_view H s1' a) (account_view H s2' a) /\
             forall k, get_state s1' a k = get_state s2' a k) ->
  r1 = r2.
Proof.
  intros H HI b1 b2 s1 s2 s1' s2' r1 r2 C1 C2 P1 P2 K1 K2 E.
  eapply (root_history_independent H HI); eauto using commit_canon.
Qed.

(* ------------------------------------------------------------------------------------------ *)
(* histories that avoid the refuted corners: from a freshly opened StateDB, any sequence of the
   journalled mutators, Prepare and Snapshot (no RevertToSnapshot, nothing after a Commit) keeps
   every live object in the dirty set and the write caches coherent — so `no_unmarked` and the
   coherence premise of copy_obs / commit_reopen hold there *)
From AQ Require Import State.StateUndoLemmas.

Definition all_dirty (s : state) : Prop := forall a o, aget a (st_live s) = Some o -> nmem a (st_dirty s) = true.
Definition all_coherent (s : state) : Prop := forall a o, aget a (st_live s) = Some o -> st_coherent o.
Definition good (s : state) : Prop := all_dirty s /\ all_coherent s.

Definition straight (o : op) : bool :=
  mutator o || match o with OPrepare _ _ _ | OSnapshot => true | _ => false end.

Lemma nmem_app k l1 l2 : nmem k (l1 ++ l2) = nmem k l1 || nmem k l2.
Proof. induction l1 as [|x t IH]; cbn [app nmem]; [reflexivity|]. rewrite IH, orb_assoc. reflexivity. Qed.
Lemma nmem_nadd a' a d : nmem a' (nadd a d) = (a' =? a) || nmem a' d.
Proof.
  unfold nadd. destruct (nmem a d) eqn:E.
  - destruct (a' =? a) eqn:E'; [apply N.eqb_eq in E'; subst; rewrite E; reflexivity|reflexivity].
  - rewrite nmem_app. cbn [nmem]. rewrite orb_false_r, orb_comm. reflexivity.
Qed.

Lemma coherent_fresh nonce bal root ch ar : st_coherent (new_object nonce bal root ch ar).
Proof. intros k. split; intros v A; cbn in A; discriminate. Qed.

Lemma get_obj_cases s a o : get_obj s a = Some o ->
  aget a (st_live s) = Some o \/ (aget a (st_live s) = None /\ o_armed o = true /\ st_coherent o).
Proof.
  unfold get_obj, load_obj. destruct (aget a (st_live s)) as [x|].
  - destruct (o_deleted x); [discriminate|]. intros [= <-]. left. reflexivity.
  - destruct (aget a (st_trie s)); [|discriminate]. intros [= <-]. right. split; [reflexivity|]. split; [reflexivity|apply coherent_fresh].
Qed.

Lemma good_put s s0 a o' d' :
  good s -> st_live s0 = st_live s -> st_coherent o' -> nmem a d' = true ->
  (forall a', nmem a' (st_dirty s) = true -> nmem a' d' = true) ->
  good (put_obj (with_dirty d' s0) a o').
Proof.
  intros [AD AC] L C' D' MON. split; intros a' x; cbn [st_live st_dirty put_obj with_live with_dirty]; rewrite L, aget_aset;
    destruct (a' =? a) eqn:E.
  - intros _. apply N.eqb_eq in E. subst. exact D'.
  - intros A. apply MON. eapply AD; eauto.
  - intros [= <-]. exact C'.
  - intros A. eapply AC; eauto.
Qed.

(* the idiom of every setter *)
Lemma good_mark s s0 a o o' :
  good s -> st_live s0 = st_live s -> st_dirty s0 = st_dirty s -> get_obj s a = Some o ->
  o_armed o' = o_armed o -> st_coherent (o_with_armed false o') -> good (mark_and_put s0 a o').
Proof.
  intros G L D GO AR C'. unfold mark_and_put. destruct (o_armed o') eqn:EA.
  - apply (good_put s); auto.
    + rewrite nmem_nadd, N.eqb_refl. reflexivity.
    + intros a' A. rewrite nmem_nadd, D, A. apply orb_true_r.
  - replace s0 with (with_dirty (st_dirty s0) s0) by (destruct s0; reflexivity).
    apply (good_put s); auto.
    + destruct (get_obj_cases _ _ _ GO) as [IN|(_ & AR' & _)]; [|congruence]. rewrite D. eapply (proj1 G); eauto.
    + intros a' A. rewrite D. exact A.
Qed.

Lemma coherent_of_get s a o : good s -> get_obj s a = Some o -> st_coherent o.
Proof. intros [_ AC] GO. destruct (get_obj_cases _ _ _ GO) as [IN|(_ & _ & C)]; [eapply AC; eauto|exact C]. Qed.

Lemma coherent_slot o k v : st_coherent o -> st_coherent (o_with_slot k v o).
Proof.
  intros C k'. destruct (C k') as [C1 C2]. split; intros v'; cbn [o_dirtyst o_cached o_root o_with_slot]; rewrite !aget_aset;
    destruct (k' =? k); auto; discriminate.
Qed.

Section Straight.
Variable H : bytes -> bytes.

Lemma good_get_or_new s a sg o : good s -> get_or_new H s a = (sg, o) -> good sg /\ get_obj sg a = Some o.
Proof.
  intros G E. unfold get_or_new in E. destruct (get_obj s a) as [p|] eqn:GO.
  - injection E as <- <-. auto.
  - rewrite create_object_eq, GO in E. injection E as <- <-. split.
    + apply (good_put s); auto; try reflexivity.
      * apply coherent_fresh.
      * rewrite nmem_nadd, N.eqb_refl. reflexivity.
      * intros a' A. rewrite nmem_nadd, A. apply orb_true_r.
    + rewrite get_obj_put, N.eqb_refl. reflexivity.
Qed.

Lemma step_good o s s1 : good s -> straight o = true -> step H s o = Ok s1 -> good s1.
Proof.
  intros G ST E. destruct o; try discriminate ST; cbn [step] in E; injection E as <-.
  - (* CreateAccount *) unfold create_account. rewrite create_object_eq.
    assert (G1 : good (put_obj (push_journal (match get_obj s a with None => JCreate a | Some p => JReset a p end)
                                             (with_dirty (nadd a (st_dirty s)) s)) a (fresh_obj H))).
    { apply (good_put s); auto; try reflexivity; [apply coherent_fresh|rewrite nmem_nadd, N.eqb_refl; reflexivity|].
      intros a' A. rewrite nmem_nadd, A. apply orb_true_r. }
    destruct (get_obj s a) as [p|] eqn:GO; [|exact G1].
    set (s' := put_obj _ a (fresh_obj H)) in *.
    apply (good_mark s' s' a (fresh_obj H)); auto; [unfold s'; rewrite get_obj_put, N.eqb_refl; reflexivity|apply coherent_fresh].
  - (* AddBalance *) unfold add_balance. destruct (get_or_new H s a) as [sg o] eqn:E.
    destruct (good_get_or_new _ _ _ _ G E) as [Gg GO]. pose proof (coherent_of_get _ _ _ Gg GO) as Co.
    destruct (Z.eqb v 0).
    + destruct (obj_empty H o); [|exact Gg]. unfold obj_touch. destruct (o_armed o) eqn:EA.
      * apply (good_put sg); auto; [rewrite nmem_nadd, N.eqb_refl; reflexivity|].
        intros a' A. rewrite nmem_nadd. cbn [st_dirty push_journal with_journal]. rewrite A. apply orb_true_r.
      * replace (push_journal (JTouch a (o_touched o) (negb false)) sg)
          with (with_dirty (st_dirty sg) (push_journal (JTouch a (o_touched o) (negb false)) sg)) by (destruct sg; reflexivity).
        apply (good_put sg); auto.
        destruct (get_obj_cases _ _ _ GO) as [IN|(_ & AR' & _)]; [|congruence]. eapply (proj1 Gg); eauto.
    + unfold obj_set_balance. apply (good_mark sg _ a o); auto.
  - (* SubBalance *) unfold sub_balance. destruct (get_or_new H s a) as [sg o] eqn:E.
    destruct (good_get_or_new _ _ _ _ G E) as [Gg GO]. pose proof (coherent_of_get _ _ _ Gg GO) as Co.
    destruct (Z.eqb v 0); [exact Gg|]. unfold obj_set_balance. apply (good_mark sg _ a o); auto.
  - (* SetBalance *) unfold set_balance. destruct (get_or_new H s a) as [sg o] eqn:E.
    destruct (good_get_or_new _ _ _ _ G E) as [Gg GO]. pose proof (coherent_of_get _ _ _ Gg GO) as Co.
    unfold obj_set_balance. apply (good_mark sg _ a o); auto.
  - (* SetNonce *) unfold set_nonce. destruct (get_or_new H s a) as [sg o] eqn:E.
    destruct (good_get_or_new _ _ _ _ G E) as [Gg GO]. pose proof (coherent_of_get _ _ _ Gg GO) as Co.
    apply (good_mark sg _ a o); auto.
  - (* SetCode *) unfold set_code. destruct (get_or_new H s a) as [sg o] eqn:E.
    destruct (good_get_or_new _ _ _ _ G E) as [Gg GO]. pose proof (coherent_of_get _ _ _ Gg GO) as Co.
    apply (good_mark sg _ a o); auto.
  - (* SetState *) unfold set_state. destruct (get_or_new H s a) as [sg o] eqn:E.
    destruct (good_get_or_new _ _ _ _ G E) as [Gg GO]. pose proof (coherent_of_get _ _ _ Gg GO) as Co.
    apply (good_mark sg _ a o); auto. apply (coherent_slot o k v Co).
  - (* Suicide *) unfold suicide. destruct (get_obj s a) as [o|] eqn:GO; cbn [fst]; [|exact G].
    pose proof (coherent_of_get _ _ _ G GO) as Co. apply (good_mark s _ a o); auto.
  - (* AddLog *) exact G.
  - (* AddRefund *) exact G.
  - (* AddPreimage *) unfold add_preimage. destruct (aget h (st_preimages s)); exact G.
  - (* Prepare *) exact G.
  - (* Snapshot *) exact G.
Qed.

Lemma run_good ops : forall s s', good s -> forallb straight ops = true -> run H ops s = Ok s' -> good s'.
Proof.
  induction ops as [|o ops IH]; intros s s' G ST R; cbn [run fold_res] in R; [injection R as <-; exact G|].
  cbn [forallb] in ST. apply andb_true_iff in ST. destruct ST as [S1 S2].
  destruct (step H s o) as [s1|] eqn:E; [|discriminate]. cbn [rbind] in R.
  apply (IH s1 s'); auto. eapply step_good; eauto.
Qed.

Lemma good_no_unmarked s : good s -> no_unmarked H s.
Proof. intros [AD _] a o E ND. rewrite (AD _ _ E) in ND. discriminate. Qed.

(* Copy after any such history reads like the original: no premise about hidden state is left *)
Theorem copy_obs_straight : forall trie codes ops s c,
  forallb straight ops = true -> run H ops (new_state trie codes) = Ok s -> copy s = Ok c ->
  (forall a, account_view H c a = account_view H s a) /\ (forall a k, get_state c a k = get_state s a k) /\
  get_refund c = get_refund s /\ (forall th, get_logs c th = get_logs s th) /\ st_preimages c = st_preimages s.
Proof.
  intros trie codes ops s c ST R C.
  assert (G0 : good (new_state trie codes)) by (split; intros a o E; cbn in E; discriminate).
  pose proof (run_good ops _ _ G0 ST R) as G.
  apply (copy_obs H s c C (good_no_unmarked s G) (proj2 G)).
Qed.
End Straight.

(* decidable check for canon_state (non-vacuity) *)
Definition zero_free_b (m : smap) : bool := forallb (fun kv => negb (snd kv =? 0)) m.
Lemma zero_free_b_ok m : zero_free_b m = true -> zero_free m.
Proof.
  unfold zero_free_b, zero_free. rewrite forallb_forall. intros A k E.
  specialize (A _ (aget_In _ _ _ E)). cbn [snd] in A. discriminate.
Qed.
Definition smap_canon_b (m : smap) : bool := asorted (akeys m) && zero_free_b m.
Definition canon_state_b (s : state) : bool :=
  asorted (akeys (st_trie s)) && forallb (fun kv => smap_canon_b (a_root (snd kv))) (st_trie s) &&
  forallb (fun kv => smap_canon_b (o_root (snd kv))) (st_live s).
Lemma canon_state_b_ok s : canon_state_b s = true -> canon_state s.
Proof.
  unfold canon_state_b, canon_state, trie_canon, smap_canon_b. intros E.
  apply andb_true_iff in E. destruct E as [E E3]. apply andb_true_iff in E. destruct E as [E1 E2].
  rewrite forallb_forall in E2, E3. split; [split; [exact E1|]|].
  - intros a ac A. specialize (E2 _ (aget_In _ _ _ A)). cbn [snd] in E2. apply andb_true_iff in E2.
    destruct E2 as [S Z]. split; [exact S|apply zero_free_b_ok; exact Z].
  - intros a o A. specialize (E3 _ (aget_In _ _ _ A)). cbn [snd] in E3. apply andb_true_iff in E3.
    destruct E3 as [S Z]. split; [exact S|apply zero_free_b_ok; exact Z].
Qed.
Lemma ex3_canon : canon_state ex3.
Proof. apply canon_state_b_ok. vm_compute. reflexivity. Qed.
