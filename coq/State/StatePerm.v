(* State/StatePerm.v — C09: the result of Finalise (and the root returned by
   Commit) does not depend on Go's map iteration order, which the model takes
   as an explicit `order` argument.  Route: canonical sorted maps are
   extensional, hence aset/adel at different keys commute; two loop bodies at
   different addresses commute; induction on Permutation. *)
From AQ Require Import Lib.Bytes State.StateSpec State.StateModel State.StateProofs.
From Coq Require Import Permutation ZifyBool ZifyN ZifyNat.
Import ListNotations.
Local Open Scope N_scope.

(* ---- 1. canonical sorted maps ---- *)
Definition sorted {V} (m : list (N * V)) : Prop := asorted (akeys m) = true.

Lemma sorted_nil {V} : sorted (@nil (N * V)).
Proof. reflexivity. Qed.

Lemma sorted_single {V} k (v : V) : sorted [(k, v)].
Proof. reflexivity. Qed.

Lemma sorted_cons2 {V} k (v : V) k1 v1 t :
  sorted ((k, v) :: (k1, v1) :: t) <-> k < k1 /\ sorted ((k1, v1) :: t).
Proof.
  unfold sorted. cbn [akeys map fst asorted].
  rewrite andb_true_iff, N.ltb_lt. reflexivity.
Qed.

Lemma sorted_cons_iff {V} k (v : V) t :
  sorted ((k, v) :: t) <-> sorted t /\ forall k', k' <= k -> aget k' t = None.
Proof.
  revert k v. induction t as [|[k1 v1] t IH]; intros k v.
  - split; [intros _; split; [reflexivity|reflexivity] | intros _; reflexivity].
  - rewrite sorted_cons2. split.
    + intros [Hlt Hs]. split; [exact Hs|]. intros k' Hk. cbn [aget].
      destruct (k' =? k1) eqn:E; [lia|].
      apply IH in Hs. destruct Hs as [_ Hs]. apply Hs. lia.
    + intros [Hs Hn]. split; [|exact Hs].
      destruct (N.lt_ge_cases k k1) as [Hlt|Hge]; [exact Hlt|].
      specialize (Hn k1 Hge). cbn [aget] in Hn. rewrite N.eqb_refl in Hn. discriminate Hn.
Qed.

Lemma sorted_tail {V} (p : N * V) t : sorted (p :: t) -> sorted t.
Proof. destruct p as [k v]. intros Hs. apply sorted_cons_iff in Hs. tauto. Qed.

Theorem sorted_ext {V} (m1 m2 : list (N * V)) :
  sorted m1 -> sorted m2 -> (forall k, aget k m1 = aget k m2) -> m1 = m2.
Proof.
  revert m2. induction m1 as [|[k1 v1] t1 IH]; intros [|[k2 v2] t2] S1 S2 E.
  - reflexivity.
  - specialize (E k2). cbn in E. rewrite N.eqb_refl in E. discriminate E.
  - specialize (E k1). cbn in E. rewrite N.eqb_refl in E. discriminate E.
  - apply sorted_cons_iff in S1. destruct S1 as [S1 N1].
    apply sorted_cons_iff in S2. destruct S2 as [S2 N2].
    assert (Hk : k1 = k2).
    { destruct (N.lt_trichotomy k1 k2) as [Hlt|[Heq|Hgt]]; [|exact Heq|].
      - pose proof (E k1) as E1. cbn in E1. rewrite N.eqb_refl in E1.
        replace (k1 =? k2) with false in E1 by lia.
        rewrite N2 in E1 by lia. discriminate E1.
      - pose proof (E k2) as E2. cbn in E2. rewrite N.eqb_refl in E2.
        replace (k2 =? k1) with false in E2 by lia.
        rewrite N1 in E2 by lia. discriminate E2. }
    subst k2.
    pose proof (E k1) as E1. cbn in E1. rewrite N.eqb_refl in E1.
    injection E1 as ->.
    f_equal. apply IH; [exact S1|exact S2|].
    intros k. destruct (N.le_gt_cases k k1) as [Hle|Hgt].
    + rewrite N1, N2 by exact Hle. reflexivity.
    + specialize (E k). cbn in E. replace (k =? k1) with false in E by lia. exact E.
Qed.

Lemma aset_sorted {V} k (v : V) m : sorted m -> sorted (aset k v m).
Proof.
  induction m as [|[k1 v1] t IH]; intros Hs.
  - reflexivity.
  - cbn [aset]. destruct (k =? k1) eqn:E1.
    + apply sorted_cons_iff in Hs. apply sorted_cons_iff.
      destruct Hs as [Hs Hn]. split; [exact Hs|]. intros k' Hk. apply Hn. lia.
    + destruct (k <? k1) eqn:E2.
      * apply sorted_cons2. split; [lia|exact Hs].
      * apply sorted_cons_iff in Hs. destruct Hs as [Hs Hn].
        apply sorted_cons_iff. split; [apply IH; exact Hs|].
        intros k' Hk. rewrite aget_aset. replace (k' =? k) with false by lia.
        apply Hn. exact Hk.
Qed.

Lemma adel_sorted {V} k (m : list (N * V)) : sorted m -> sorted (adel k m).
Proof.
  induction m as [|[k1 v1] t IH]; intros Hs.
  - reflexivity.
  - cbn [adel]. apply sorted_cons_iff in Hs. destruct Hs as [Hs Hn].
    destruct (k =? k1) eqn:E1; [apply IH; exact Hs|].
    apply sorted_cons_iff. split; [apply IH; exact Hs|].
    intros k' Hk. rewrite aget_adel. destruct (k' =? k); [reflexivity|]. apply Hn. exact Hk.
Qed.

Lemma aset_aset_comm {V} k k' (v v' : V) m :
  sorted m -> k <> k' -> aset k v (aset k' v' m) = aset k' v' (aset k v m).
Proof.
  intros Hs Hk. apply sorted_ext; try (repeat apply aset_sorted; exact Hs).
  intros x. rewrite !aget_aset.
  destruct (x =? k) eqn:E1; destruct (x =? k') eqn:E2; try reflexivity. lia.
Qed.

Lemma adel_adel_comm {V} k k' (m : list (N * V)) :
  sorted m -> adel k (adel k' m) = adel k' (adel k m).
Proof.
  intros Hs. apply sorted_ext; try (repeat apply adel_sorted; exact Hs).
  intros x. rewrite !aget_adel.
  destruct (x =? k) eqn:E1; destruct (x =? k') eqn:E2; reflexivity.
Qed.

Lemma aset_adel_comm {V} k k' (v : V) m :
  sorted m -> k <> k' -> aset k v (adel k' m) = adel k' (aset k v m).
Proof.
  intros Hs Hk. apply sorted_ext.
  - apply aset_sorted, adel_sorted, Hs.
  - apply adel_sorted, aset_sorted, Hs.
  - intros x. rewrite aget_aset, !aget_adel, aget_aset.
    destruct (x =? k) eqn:E1; destruct (x =? k') eqn:E2; try reflexivity. lia.
Qed.

(* ---- generic: folds whose steps commute at different keys ---- *)
Lemma fold_left_perm {A B} (f : A -> B -> A) (P : A -> Prop) (key : B -> N) :
  (forall a b, P a -> P (f a b)) ->
  (forall a b c, P a -> key b <> key c -> f (f a b) c = f (f a c) b) ->
  forall l1 l2, Permutation l1 l2 -> NoDup (map key l1) ->
  forall a, P a -> fold_left f l1 a = fold_left f l2 a.
Proof.
  intros Hp Hc l1 l2 Hperm. induction Hperm; intros Hnd a Pa.
  - reflexivity.
  - cbn. cbn in Hnd. inversion Hnd; subst. apply IHHperm; [assumption|apply Hp; exact Pa].
  - cbn. cbn in Hnd. inversion Hnd as [|? ? Hni _]; subst.
    rewrite (Hc a y x); [reflexivity|exact Pa|].
    intros Heq. apply Hni. left. symmetry. exact Heq.
  - rewrite IHHperm1 by assumption. apply IHHperm2; [|exact Pa].
    eapply Permutation_NoDup; [|exact Hnd]. apply Permutation_map. exact Hperm1.
Qed.

Lemma rbind_assoc {A B C} (r : res A) (g : A -> res B) (h : B -> res C) :
  rbind (rbind r g) h = rbind r (fun x => rbind (g x) h).
Proof. destruct r; reflexivity. Qed.

Lemma fold_res_perm {A} (f : A -> N -> res A) (P : A -> Prop) :
  (forall a b a', P a -> f a b = Ok a' -> P a') ->
  (forall a b c, P a -> b <> c ->
     rbind (f a b) (fun a' => f a' c) = rbind (f a c) (fun a' => f a' b)) ->
  forall l1 l2, Permutation l1 l2 -> NoDup l1 ->
  forall a, P a -> fold_res f l1 a = fold_res f l2 a.
Proof.
  intros Hp Hc l1 l2 Hperm. induction Hperm; intros Hnd a Pa.
  - reflexivity.
  - cbn. inversion Hnd; subst. destruct (f a x) eqn:E; [|reflexivity].
    cbn. apply IHHperm; [assumption|]. eapply Hp; [exact Pa|exact E].
  - cbn [fold_res]. inversion Hnd as [|? ? Hni _]; subst.
    rewrite <- !rbind_assoc. rewrite (Hc a y x); [reflexivity|exact Pa|].
    intros Heq. apply Hni. left. symmetry. exact Heq.
  - rewrite IHHperm1 by assumption. apply IHHperm2; [|exact Pa].
    eapply Permutation_NoDup; [exact Hperm1|exact Hnd].
Qed.

(* ---- 2. updateTrie ---- *)
Theorem update_trie_perm : forall (o1 o2 root : smap),
  Permutation o1 o2 -> NoDup (map fst o1) -> sorted root ->
  update_trie_with o1 root = update_trie_with o2 root.
Proof.
  intros o1 o2 root Hperm Hnd Hs. unfold update_trie_with.
  apply (fold_left_perm _ (fun t : smap => sorted t) fst); try assumption.
  - intros a b Pa. destruct (snd b =? 0); [apply adel_sorted|apply aset_sorted]; exact Pa.
  - intros a b c Pa Hk.
    destruct (snd b =? 0); destruct (snd c =? 0).
    + apply adel_adel_comm; exact Pa.
    + apply aset_adel_comm; [exact Pa|congruence].
    + symmetry. apply aset_adel_comm; [exact Pa|exact Hk].
    + apply aset_aset_comm; [exact Pa|congruence].
Qed.

(* ---- 3. Finalise ---- *)
Definition sorted_state (s : state) : Prop := sorted (st_live s) /\ sorted (st_trie s).

Lemma finalise_one_sorted H b s a s' :
  sorted_state s -> finalise_one H b s a = Ok s' -> sorted_state s'.
Proof.
  unfold sorted_state, finalise_one, update_state_object, delete_state_object, put_obj,
    with_trie, with_live.
  destruct s; cbn. intros [Hl Ht].
  destruct (aget a st_live) as [o|]; [|discriminate].
  destruct (o_suicided o || (b && obj_empty H o)).
  - intros E. injection E as <-. cbn. split; [apply aset_sorted|apply adel_sorted]; assumption.
  - destruct (o_bal o <? 0)%Z; [discriminate|].
    intros E. injection E as <-. cbn. split; apply aset_sorted; assumption.
Qed.

Lemma finalise_one_comm H b s a a' :
  sorted_state s -> a <> a' ->
  rbind (finalise_one H b s a) (fun s' => finalise_one H b s' a') =
  rbind (finalise_one H b s a') (fun s' => finalise_one H b s' a).
Proof.
  unfold sorted_state, finalise_one, update_state_object, delete_state_object, put_obj,
    with_trie, with_live.
  destruct s; cbn. intros [Hl Ht] Hne.
  destruct (aget a st_live) as [o|] eqn:Ea; destruct (aget a' st_live) as [o'|] eqn:Ea'; cbn.
  - assert (Hne' : a' <> a) by lia.
    destruct (o_suicided o || (b && obj_empty H o)) eqn:Ec;
      destruct (o_suicided o' || (b && obj_empty H o')) eqn:Ec';
      cbn; try destruct (o_bal o <? 0)%Z eqn:Eb; try destruct (o_bal o' <? 0)%Z eqn:Eb'; cbn;
      rewrite ?aget_aset; replace (a' =? a) with false by lia; replace (a =? a') with false by lia;
      rewrite ?Ea, ?Ea'; cbn; rewrite ?Ec, ?Ec'; cbn; rewrite ?Eb, ?Eb'; cbn.
    all: try reflexivity.
    all: apply f_equal; f_equal;
      first [ apply adel_adel_comm; assumption
            | apply aset_aset_comm; assumption
            | apply aset_adel_comm; assumption
            | symmetry; apply aset_adel_comm; assumption ].
  - destruct (o_suicided o || (b && obj_empty H o)); cbn;
      try destruct (o_bal o <? 0)%Z; cbn;
      rewrite ?aget_aset; replace (a' =? a) with false by lia; rewrite ?Ea'; reflexivity.
  - destruct (o_suicided o' || (b && obj_empty H o')); cbn;
      try destruct (o_bal o' <? 0)%Z; cbn;
      rewrite ?aget_aset; replace (a =? a') with false by lia; rewrite ?Ea; reflexivity.
  - reflexivity.
Qed.

Lemma fold_finalise_perm H b o1 o2 s :
  Permutation o1 o2 -> NoDup o1 -> sorted_state s ->
  fold_res (finalise_one H b) o1 s = fold_res (finalise_one H b) o2 s.
Proof.
  intros Hperm Hnd Hs.
  apply (fold_res_perm (finalise_one H b) sorted_state); try assumption.
  - intros a x a' Pa E. eapply finalise_one_sorted; eassumption.
  - intros a x y Pa Hne. apply finalise_one_comm; assumption.
Qed.

Theorem finalise_perm : forall (H : bytes -> bytes) (b : bool) (s : state) (o1 o2 : list N),
  Permutation o1 o2 -> NoDup o1 -> sorted (st_live s) -> sorted (st_trie s) ->
  finalise_with H o1 b s = finalise_with H o2 b s.
Proof.
  intros H b s o1 o2 Hperm Hnd Hl Ht. unfold finalise_with.
  rewrite (fold_finalise_perm H b o1 o2 s Hperm Hnd (conj Hl Ht)). reflexivity.
Qed.

(* ---- 4. Commit: everything except the code store ---- *)
(* st_codes is written with bset, which appends: the code store *list* depends
   on the iteration order, so the statement erases it. *)
Definition rmap {A B} (g : A -> B) (r : res A) : res B :=
  match r with Ok a => Ok (g a) | Panic => Panic end.
Definition erase_codes (s : state) : state := with_codes [] s.
Definition commit_one_e H b (s : state) (a : N) : res state := rmap erase_codes (commit_one H b s a).

Lemma nmem_ndel k k' l : k <> k' -> nmem k (ndel k' l) = nmem k l.
Proof.
  intros Hne. induction l as [|x t IH]; [reflexivity|]. cbn.
  destruct (k' =? x) eqn:E; cbn; rewrite IH; [|reflexivity].
  replace (k =? x) with false by lia. reflexivity.
Qed.

Lemma ndel_ndel_comm k k' l : ndel k (ndel k' l) = ndel k' (ndel k l).
Proof.
  induction l as [|x t IH]; [reflexivity|]. cbn.
  destruct (k' =? x) eqn:E'; destruct (k =? x) eqn:E; cbn; rewrite ?E, ?E', IH; reflexivity.
Qed.

Lemma commit_one_e_erase H b s a : commit_one_e H b (erase_codes s) a = commit_one_e H b s a.
Proof.
  unfold commit_one_e, commit_one, erase_codes, update_state_object, delete_state_object, put_obj,
    with_trie, with_live, with_codes, with_dirty.
  destruct s; cbn.
  destruct (aget a st_live) as [o|]; [|reflexivity].
  destruct (o_suicided o || (nmem a st_dirty && b && obj_empty H o)); [reflexivity|].
  destruct (nmem a st_dirty); [|reflexivity].
  destruct (o_code o); [destruct (o_dirtycode o)|]; cbn;
    destruct (o_bal o <? 0)%Z; reflexivity.
Qed.

(* commit_one_e in a flat form: what happens at address a is decided by a
   four-way classification of the live object and its dirty flag *)
Inductive ckind : Type := KDel | KPanic | KUpd | KClean.

Definition commit_obj (o : obj) : obj :=
  obj_update_root
    (match o_code o with
     | Some _ => if o_dirtycode o then o_with_dirtycode false o else o
     | None => o
     end).

Arguments commit_obj : simpl never.

Definition commit_kind H (b d : bool) (o : obj) : ckind :=
  if o_suicided o || (d && b && obj_empty H o) then KDel
  else if d then (if (o_bal (commit_obj o) <? 0)%Z then KPanic else KUpd)
  else KClean.

Definition set_tld t l d (s : state) : state :=
  mkState t [] l d (st_refund s) (st_thash s) (st_bhash s) (st_txindex s) (st_logs s)
          (st_logsize s) (st_preimages s) (st_journal s) (st_revs s) (st_nextrev s).

Definition commit_one_c H b (s : state) (a : N) : res state :=
  match aget a (st_live s) with
  | None => Ok (erase_codes s)
  | Some o =>
    match commit_kind H b (nmem a (st_dirty s)) o with
    | KDel => Ok (set_tld (adel a (st_trie s)) (aset a (o_with_deleted true o) (st_live s))
                          (ndel a (st_dirty s)) s)
    | KPanic => Panic
    | KUpd => let o2 := commit_obj o in
              Ok (set_tld (aset a (mkAcct (o_nonce o2) (o_bal o2) (o_root o2) (o_ch o2)) (st_trie s))
                          (aset a o2 (st_live s)) (ndel a (st_dirty s)) s)
    | KClean => Ok (set_tld (st_trie s) (st_live s) (ndel a (st_dirty s)) s)
    end
  end.

Lemma commit_one_e_c H b s a : commit_one_e H b s a = commit_one_c H b s a.
Proof.
  unfold commit_one_e, commit_one_c, commit_kind, commit_obj, commit_one, erase_codes,
    update_state_object, delete_state_object, put_obj, set_tld,
    with_trie, with_live, with_codes, with_dirty.
  destruct s; cbn.
  destruct (aget a st_live) as [o|]; [|reflexivity].
  destruct (o_suicided o || (nmem a st_dirty && b && obj_empty H o)); [reflexivity|].
  destruct (nmem a st_dirty); [|reflexivity].
  destruct (o_code o); [destruct (o_dirtycode o)|]; cbn;
    destruct (o_bal o <? 0)%Z; reflexivity.
Qed.

Lemma commit_one_c_sorted H b s a s' :
  sorted_state s -> commit_one_c H b s a = Ok s' -> sorted_state s'.
Proof.
  unfold sorted_state, commit_one_c, erase_codes, set_tld, with_codes.
  destruct s; cbn. intros [Hl Ht].
  destruct (aget a st_live) as [o|]; cbn; [|intros E; injection E as <-; cbn; tauto].
  destruct (commit_kind H b (nmem a st_dirty) o); try discriminate;
    intros E; injection E as <-; cbn; split;
    first [assumption | apply aset_sorted; assumption | apply adel_sorted; assumption].
Qed.

Lemma commit_one_c_comm H b s a a' :
  sorted_state s -> a <> a' ->
  rbind (commit_one_c H b s a) (fun s' => commit_one_c H b s' a') =
  rbind (commit_one_c H b s a') (fun s' => commit_one_c H b s' a).
Proof.
  unfold sorted_state, commit_one_c, erase_codes, set_tld, with_codes.
  destruct s; cbn. intros [Hl Ht] Hne. assert (Hne' : a' <> a) by lia.
  destruct (aget a st_live) as [o|] eqn:Ea; destruct (aget a' st_live) as [o'|] eqn:Ea'; cbn;
    rewrite ?Ea, ?Ea'; cbn; try reflexivity.
  - remember (commit_kind H b (nmem a st_dirty) o) as ka eqn:Eka.
    remember (commit_kind H b (nmem a' st_dirty) o') as ka' eqn:Eka'.
    destruct ka; destruct ka'; cbn;
      rewrite ?aget_aset; replace (a' =? a) with false by lia; replace (a =? a') with false by lia;
      rewrite ?Ea, ?Ea'; rewrite ?nmem_ndel by assumption; rewrite <- ?Eka, <- ?Eka'; cbn;
      try reflexivity.
    all: apply f_equal; unfold set_tld; cbn; f_equal;
      first [ apply ndel_ndel_comm
            | apply adel_adel_comm; assumption
            | apply aset_aset_comm; assumption
            | apply aset_adel_comm; assumption
            | symmetry; apply aset_adel_comm; assumption ].
  - destruct (commit_kind H b (nmem a st_dirty) o); cbn;
      rewrite ?aget_aset; replace (a' =? a) with false by lia; rewrite ?Ea'; reflexivity.
  - destruct (commit_kind H b (nmem a' st_dirty) o'); cbn;
      rewrite ?aget_aset; replace (a =? a') with false by lia; rewrite ?Ea; reflexivity.
Qed.

Lemma fold_commit_erase H b l : forall s,
  rmap erase_codes (fold_res (commit_one H b) l s) =
  fold_res (commit_one_c H b) l (erase_codes s).
Proof.
  induction l as [|x t IH]; intros s; [reflexivity|].
  cbn [fold_res]. rewrite <- commit_one_e_c, commit_one_e_erase. unfold commit_one_e.
  destruct (commit_one H b s x) as [s1|]; cbn; [apply IH|reflexivity].
Qed.

Lemma fold_commit_perm H b o1 o2 s :
  Permutation o1 o2 -> NoDup o1 -> sorted_state s ->
  rmap erase_codes (fold_res (commit_one H b) o1 s) =
  rmap erase_codes (fold_res (commit_one H b) o2 s).
Proof.
  intros Hperm Hnd Hs. rewrite !fold_commit_erase.
  apply (fold_res_perm (commit_one_c H b) sorted_state); try assumption.
  - intros a x a' Pa E. eapply commit_one_c_sorted; eassumption.
  - intros a x y Pa Hne. apply commit_one_c_comm; assumption.
Qed.

(* Commit: the returned root and every component of the returned state other
   than st_codes are independent of the iteration order. *)
Theorem commit_perm : forall (H : bytes -> bytes) (b : bool) (s : state) (o1 o2 : list N),
  Permutation o1 o2 -> NoDup o1 -> sorted (st_live s) -> sorted (st_trie s) ->
  rmap (fun p => (erase_codes (fst p), snd p)) (commit_with H o1 b s) =
  rmap (fun p => (erase_codes (fst p), snd p)) (commit_with H o2 b s).
Proof.
  intros H b s o1 o2 Hperm Hnd Hl Ht. unfold commit_with.
  pose proof (fold_commit_perm H b o1 o2 s Hperm Hnd (conj Hl Ht)) as E.
  destruct (fold_res (commit_one H b) o1 s) as [s1|];
    destruct (fold_res (commit_one H b) o2 s) as [s2|]; cbn in E; try discriminate E;
    [|reflexivity].
  destruct s1, s2. unfold erase_codes, with_codes in E. cbn in E.
  injection E; intros; subst. reflexivity.
Qed.

Corollary commit_root_perm : forall (H : bytes -> bytes) (b : bool) (s : state) (o1 o2 : list N),
  Permutation o1 o2 -> NoDup o1 -> sorted (st_live s) -> sorted (st_trie s) ->
  rmap snd (commit_with H o1 b s) = rmap snd (commit_with H o2 b s).
Proof.
  intros H b s o1 o2 Hperm Hnd Hl Ht.
  pose proof (commit_perm H b s o1 o2 Hperm Hnd Hl Ht) as E.
  destruct (commit_with H o1 b s) as [[s1 t1]|];
    destruct (commit_with H o2 b s) as [[s2 t2]|]; cbn in *; try discriminate E;
    [|reflexivity].
  injection E; intros; congruence.
Qed.

(* ---- the writers keep stateObjects in canonical form ---- *)
Lemma put_obj_sorted s a o : sorted (st_live s) -> sorted (st_live (put_obj s a o)).
Proof. intros Hs. cbn. apply aset_sorted. exact Hs. Qed.

Lemma mark_and_put_sorted s a o : sorted (st_live s) -> sorted (st_live (mark_and_put s a o)).
Proof. intros Hs. unfold mark_and_put. destruct (o_armed o); cbn; apply aset_sorted; exact Hs. Qed.

Lemma undo_sorted e s s' : sorted (st_live s) -> undo e s = Ok s' -> sorted (st_live s').
Proof.
  intros Hs. destruct e; cbn [undo].
  - intros E. injection E as <-. cbn. apply adel_sorted. exact Hs.
  - intros E. injection E as <-. apply put_obj_sorted. exact Hs.
  - destruct (get_obj s a); intros E; injection E as <-; [apply mark_and_put_sorted|]; exact Hs.
  - destruct (get_obj s a); [|discriminate]. intros E. injection E as <-. apply mark_and_put_sorted. exact Hs.
  - destruct (get_obj s a); [|discriminate]. intros E. injection E as <-. apply mark_and_put_sorted. exact Hs.
  - destruct (get_obj s a); [|discriminate]. intros E. injection E as <-. apply mark_and_put_sorted. exact Hs.
  - destruct (get_obj s a); [|discriminate]. intros E. injection E as <-. apply mark_and_put_sorted. exact Hs.
  - intros E. injection E as <-. exact Hs.
  - destruct (match aget txhash (st_logs s) with Some x => x | None => [] end) as [|x [|y t]];
      [discriminate| |]; intros E; injection E as <-; exact Hs.
  - intros E. injection E as <-. exact Hs.
  - destruct (negb prev && negb (a =? ripemd_addr)).
    + destruct (get_obj s a); [|discriminate]. intros E. injection E as <-.
      destruct prevDirty; cbn; apply aset_sorted; exact Hs.
    + intros E. injection E as <-. exact Hs.
Qed.
