(* State/StatePermCodes.v — C09_commit_perm (full): StateDB.Commit is independent of the iteration
   order of the stateObjects map INCLUDING the code store, read as a map (bget).  The list that
   represents the code store depends on the order (bset appends), its meaning does not, provided
   two live objects never carry DIFFERENT code under the SAME code hash (codes_agree: implied by
   o_ch = H code with a collision-free H; needed when H collides: two accounts could then hold different code under one hash and the
   order would decide which code the store keeps). *)
From AQ Require Import Lib.Bytes State.StateSpec State.StateModel State.StateProofs State.StatePerm.
From Coq Require Import Permutation ZifyBool ZifyN ZifyNat.
Import ListNotations.
Local Open Scope N_scope.
Set Default Timeout 60.

Section PermCodes.
Variable H : bytes -> bytes.
Variable b : bool.

(* what the loop body at a inserts into the code store, as a function of the state *)
Definition contrib (s : state) (a : N) : option (bytes * bytes) :=
  match aget a (st_live s) with
  | None => None
  | Some o =>
    if o_suicided o || (nmem a (st_dirty s) && b && obj_empty H o) then None
    else if nmem a (st_dirty s) then
      match o_code o with
      | Some c => if o_dirtycode o then Some (o_ch o, c) else None
      | None => None
      end
    else None
  end.

Definition ins_opt (x : option (bytes * bytes)) (m : list (bytes * bytes)) :=
  match x with Some (k, v) => bset k v m | None => m end.

Lemma commit_one_codes s a s' :
  commit_one H b s a = Ok s' -> st_codes s' = ins_opt (contrib s a) (st_codes s).
Proof.
  unfold commit_one, contrib, update_state_object, delete_state_object, put_obj,
    with_trie, with_live, with_codes, with_dirty.
  destruct s; cbn.
  destruct (aget a st_live) as [o|]; [|intros E; injection E as <-; reflexivity].
  destruct (o_suicided o || (nmem a st_dirty && b && obj_empty H o)); [intros E; injection E as <-; reflexivity|].
  destruct (nmem a st_dirty); [|intros E; injection E as <-; reflexivity].
  destruct (o_code o); [destruct (o_dirtycode o)|]; cbn;
    destruct (o_bal o <? 0)%Z; cbn; try discriminate; intros E; injection E as <-; reflexivity.
Qed.

(* the body at a does not change what another address contributes *)
Lemma commit_one_contrib s a s' a' :
  commit_one H b s a = Ok s' -> a' <> a -> contrib s' a' = contrib s a'.
Proof.
  intros E Hne.
  assert (L : aget a' (st_live s') = aget a' (st_live s) /\ nmem a' (st_dirty s') = nmem a' (st_dirty s)).
  { revert E. unfold commit_one, update_state_object, delete_state_object, put_obj,
      with_trie, with_live, with_codes, with_dirty.
    destruct s; cbn.
    destruct (aget a st_live) as [o|]; [|intros E; injection E as <-; cbn; auto].
    destruct (o_suicided o || (nmem a st_dirty && b && obj_empty H o)).
    { intros E; injection E as <-; cbn. rewrite aget_aset, nmem_ndel by assumption.
      replace (a' =? a) with false by lia. auto. }
    destruct (nmem a st_dirty).
    2:{ intros E; injection E as <-; cbn. rewrite nmem_ndel by assumption. auto. }
    destruct (o_code o); [destruct (o_dirtycode o)|]; cbn;
      destruct (o_bal o <? 0)%Z; cbn; try discriminate; intros E; injection E as <-; cbn;
      rewrite aget_aset, nmem_ndel by assumption; replace (a' =? a) with false by lia; auto. }
  destruct L as [L1 L2]. unfold contrib. rewrite L1, L2. reflexivity.
Qed.

(* the code store after the loop, read at h *)
Fixpoint find_code (s : state) (h : bytes) (l : list N) : option bytes :=
  match l with
  | [] => None
  | a :: t => match contrib s a with
              | Some (k, c) => if bytes_eqb h k then Some c else find_code s h t
              | None => find_code s h t
              end
  end.

Lemma bget_bset h k v m :
  bget h (bset k v m) = match bget h m with Some c => Some c | None => if bytes_eqb h k then Some v else None end.
Proof.
  unfold bset. destruct (bget k m) eqn:E.
  - destruct (bget h m) eqn:E2; [reflexivity|].
    destruct (bytes_eqb_spec h k); [subst; congruence|reflexivity].
  - assert (A : forall m', bget h (m' ++ [(k, v)]) = match bget h m' with Some c => Some c | None => if bytes_eqb h k then Some v else None end).
    { induction m' as [|[k' v'] t IH]; cbn; [reflexivity|]. destruct (bytes_eqb h k'); [reflexivity|apply IH]. }
    apply A.
Qed.

Lemma find_code_ext s s' h l :
  (forall a, In a l -> contrib s' a = contrib s a) -> find_code s' h l = find_code s h l.
Proof.
  induction l as [|a t IH]; intros E; [reflexivity|]. cbn.
  rewrite (E a (or_introl eq_refl)), IH by (intros; apply E; right; assumption). reflexivity.
Qed.

Lemma fold_commit_codes l : forall s s', NoDup l ->
  fold_res (commit_one H b) l s = Ok s' ->
  forall h, bget h (st_codes s') = match bget h (st_codes s) with Some c => Some c | None => find_code s h l end.
Proof.
  induction l as [|a t IH]; intros s s' ND E h; cbn in E.
  - injection E as <-. cbn. destruct (bget h (st_codes s)); reflexivity.
  - inversion ND as [|x l NI ND']; subst.
    destruct (commit_one H b s a) as [s1|] eqn:E1; cbn in E; [|discriminate].
    rewrite (IH s1 s' ND' E h), (commit_one_codes _ _ _ E1).
    rewrite (find_code_ext s s1 h t).
    2:{ intros a' IN. apply (commit_one_contrib _ _ _ _ E1). intros ->. contradiction. }
    cbn [find_code]. destruct (contrib s a) as [[k c]|]; cbn [ins_opt]; [|reflexivity].
    rewrite bget_bset. destruct (bget h (st_codes s)); [reflexivity|].
    destruct (bytes_eqb h k); reflexivity.
Qed.

(* two live objects never hold different code under one code hash *)
Definition codes_agree (s : state) : Prop :=
  forall a a' o o' c c', aget a (st_live s) = Some o -> aget a' (st_live s) = Some o' ->
    o_code o = Some c -> o_code o' = Some c' -> o_ch o = o_ch o' -> c = c'.

Lemma contrib_live s a k c : contrib s a = Some (k, c) ->
  exists o, aget a (st_live s) = Some o /\ o_code o = Some c /\ o_ch o = k.
Proof.
  unfold contrib. destruct (aget a (st_live s)) as [o|]; [|discriminate].
  destruct (o_suicided o || _); [discriminate|]. destruct (nmem a (st_dirty s)); [|discriminate].
  destruct (o_code o) as [c0|] eqn:EC; [|discriminate]. destruct (o_dirtycode o); [|discriminate].
  intros E; injection E as <- <-. exists o. auto.
Qed.

Lemma find_code_some s h l c : find_code s h l = Some c -> exists a, In a l /\ contrib s a = Some (h, c).
Proof.
  induction l as [|a t IH]; cbn; [discriminate|].
  destruct (contrib s a) as [[k c0]|] eqn:E.
  - destruct (bytes_eqb_spec h k).
    + intros X; injection X as <-. subst. exists a. auto.
    + intros X. destruct (IH X) as (a' & I & C). exists a'. auto.
  - intros X. destruct (IH X) as (a' & I & C). exists a'. auto.
Qed.

Lemma find_code_none s h l : find_code s h l = None -> forall a c, In a l -> contrib s a <> Some (h, c).
Proof.
  induction l as [|a t IH]; cbn; [intros _ a c []|].
  destruct (contrib s a) as [[k c0]|] eqn:E.
  - destruct (bytes_eqb_spec h k); [discriminate|].
    intros X a' c [<-|IN]; [rewrite E; congruence|apply IH; assumption].
  - intros X a' c [<-|IN]; [rewrite E; discriminate|apply IH; assumption].
Qed.

Lemma find_code_perm s h l1 l2 :
  codes_agree s -> Permutation l1 l2 -> find_code s h l1 = find_code s h l2.
Proof.
  intros AG P.
  assert (X : forall l l', (forall a, In a l -> In a l') -> forall c, find_code s h l = Some c -> find_code s h l' = Some c).
  { intros l l' SUB c E. destruct (find_code_some _ _ _ _ E) as (a & IN & C).
    destruct (find_code s h l') as [c'|] eqn:E'.
    - destruct (find_code_some _ _ _ _ E') as (a' & IN' & C').
      destruct (contrib_live _ _ _ _ C) as (o & L & K & CH).
      destruct (contrib_live _ _ _ _ C') as (o' & L' & K' & CH').
      f_equal. symmetry. apply (AG a a' o o' c c' L L' K K'). congruence.
    - exfalso. eapply (find_code_none _ _ _ E'); eauto. }
  destruct (find_code s h l1) as [c|] eqn:E1.
  - symmetry. apply (X l1 l2); [intros; eapply Permutation_in; eauto|exact E1].
  - destruct (find_code s h l2) as [c|] eqn:E2; [|reflexivity].
    rewrite <- E1. apply (X l2 l1); [intros; eapply Permutation_in; [apply Permutation_sym|]; eauto|exact E2].
Qed.

(* FULL: root, Panic-ness, every field but the code-store list, and the code store as a map *)
Theorem commit_perm_full : forall (s : state) (o1 o2 : list N),
  Permutation o1 o2 -> NoDup o1 -> sorted (st_live s) -> sorted (st_trie s) -> codes_agree s ->
  match commit_with H o1 b s, commit_with H o2 b s with
  | Ok (s1, r1), Ok (s2, r2) =>
      r1 = r2 /\ erase_codes s1 = erase_codes s2 /\ (forall h, bget h (st_codes s1) = bget h (st_codes s2))
  | Panic, Panic => True
  | _, _ => False
  end.
Proof.
  intros s o1 o2 P ND Hl Ht AG.
  pose proof (commit_perm H b s o1 o2 P ND Hl Ht) as E.
  assert (ND2 : NoDup o2) by (eapply Permutation_NoDup; eauto).
  unfold commit_with in *.
  destruct (fold_res (commit_one H b) o1 s) as [t1|] eqn:F1;
    destruct (fold_res (commit_one H b) o2 s) as [t2|] eqn:F2; cbn [rbind rmap fst snd] in *; try discriminate E; [|exact I].
  match type of E with Ok (?a, ?x) = Ok (?c, ?y) => assert (EA : a = c) by congruence; assert (EB : x = y) by congruence end.
  split; [exact EB|]. split; [exact EA|].
  intros h. unfold clear_journal_and_refund. cbn.
  rewrite (fold_commit_codes o1 s t1 ND F1 h), (fold_commit_codes o2 s t2 ND2 F2 h).
  destruct (bget h (st_codes s)); [reflexivity|]. apply find_code_perm; assumption.
Qed.

(* every getter of the two results agrees (the code store is only read through bget) *)
Lemma getters_of_erase s1 s2 :
  erase_codes s1 = erase_codes s2 -> (forall h, bget h (st_codes s1) = bget h (st_codes s2)) ->
  (forall a, account_view H s1 a = account_view H s2 a) /\ (forall a k, get_state s1 a k = get_state s2 a k) /\
  (forall a, get_code_size s1 a = get_code_size s2 a) /\ (forall a, get_code H s1 a = get_code H s2 a).
Proof.
  intros E B. destruct s1, s2. unfold erase_codes, with_codes in E. cbn in E. injection E; intros; subst.
  cbn in B.
  unfold account_view, get_state, get_code_size, get_code, get_obj, load_obj, obj_code; cbn.
  repeat split; intros a; try intros k; destruct (aget a st_live0) as [o|]; try reflexivity;
    try (destruct (o_deleted o); [reflexivity|]); try rewrite B; try reflexivity.
  all: destruct (aget a st_trie0); cbn; rewrite ?B; reflexivity.
Qed.

(* the premise follows from the way SetCode computes the hash, for a collision-free H *)
Lemma codes_agree_of_hash s :
  (forall x y, H x = H y -> x = y) ->
  (forall a o c, aget a (st_live s) = Some o -> o_code o = Some c -> o_ch o = H c) -> codes_agree s.
Proof.
  intros INJ K a a' o o' c c' L L' C C' E. apply INJ. rewrite <- (K a o c L C), <- (K a' o' c' L' C'). exact E.
Qed.
End PermCodes.

