(* State/StateDbProofs.v — C09_commit_reopen_from_disk (partial): Commit + Database.Commit(root),
   then a StateDB opened at the root over a fresh database on the same disk store. *)
From AQ Require Import Lib.Bytes State.StateSpec State.StateModel State.StateProofs State.StateRoot
  State.StateCopy State.StateFinal State.StateDb.
From AQ Require Trie.TrieModel Trie.DbModel Trie.DbProofs.
Import DbModel.
Import ListNotations.
Local Open Scope N_scope.

Lemma bytes_eqb_sym a b : bytes_eqb a b = bytes_eqb b a.
Proof. destruct (bytes_eqb_spec a b), (bytes_eqb_spec b a); congruence. Qed.
Lemma disk_get_bget d k : disk_get d k = bget k d.
Proof. induction d as [|[k' v] t IH]; cbn; [reflexivity|]. rewrite bytes_eqb_sym, IH. reflexivity. Qed.

Section DbThm.
Variable H : bytes -> bytes.
Variable enc_storage : smap -> bytes.
Variable enc_trie : list (N * acct) -> bytes.
Hypothesis H_inj : forall x y, H x = H y -> x = y.

Lemma disk_leaf_id d (r : list (N * acct)) :
  (forall a ac, In (a, ac) r -> a_root ac <> [] -> disk_get d (skey H (a_root ac)) <> None) ->
  map (fun kv => (fst kv, disk_leaf H d (snd kv))) r = r.
Proof.
  induction r as [|[a ac] t IH]; intros P; cbn [map]; [reflexivity|]. rewrite IH by (intros; eapply P; eauto; right; eauto).
  f_equal. cbn [fst snd]. f_equal. unfold disk_leaf. destruct (a_root ac) as [|x l] eqn:E; [reflexivity|].
  specialize (P a ac (or_introl eq_refl)). rewrite E in P. destruct (disk_get d (skey H (x :: l))); [reflexivity|].
  exfalso. apply P; [discriminate|reflexivity].
Qed.

Lemma in_refs_storage (r : list (N * acct)) a ac : In (a, ac) r -> a_root ac <> [] -> In (skey H (a_root ac)) (refs H r).
Proof.
  intros IN NE. unfold refs. apply in_flat_map. exists (a, ac). split; [exact IN|]. cbn [snd]. unfold leaf_refs.
  apply in_or_app. left. destruct (a_root ac); [contradiction|left; reflexivity].
Qed.
Lemma in_refs_code (r : list (N * acct)) a ac : In (a, ac) r -> a_ch ac <> H [] -> In (a_ch ac) (refs H r).
Proof.
  intros IN NE. unfold refs. apply in_flat_map. exists (a, ac). split; [exact IN|]. cbn [snd]. unfold leaf_refs.
  apply in_or_app. right. destruct (bytes_eqb_spec (a_ch ac) (H [])); [contradiction|left; reflexivity].
Qed.

(* what the flush does to a key the root node references *)
Lemma flushed_child fuel limit m d root blob ch m' d' k :
  tdb_commit fuel limit m [] d root = TrieModel.Ok (m', d') ->
  mem_get m root = Some (mkMnode blob ch) -> In k ch ->
  (forall n, mem_get m k = Some n -> disk_get d' k = Some (mn_blob n)) /\
  (mem_get m k = None -> disk_get d' k = disk_get d k).
Proof.
  intros TC RN IN. destruct (DbProofs.tdb_commit_disk _ _ _ _ _ _ _ TC) as [A B].
  assert (RR : DbProofs.reach m root root) by (apply DbProofs.reach_refl; rewrite RN; discriminate).
  split.
  - intros n E. apply A; [|exact E]. eapply DbProofs.reach_step; eauto. rewrite E. discriminate.
  - intros E. apply B. intros R. apply DbProofs.reach_end_mem in R. contradiction.
Qed.

Theorem commit_reopen_from_disk : forall b s s' r m d fuel limit m' d',
  commit H b s = Ok (s', r) -> commit_premises H b s ->
  let m1 := commit_db H enc_storage enc_trie b s r m in
  (* the account trie's root node carries the references of every leaf *)
  mem_get m1 (tkey H r) = Some (mkMnode (enc_trie r) (refs H r)) ->
  (* every referenced storage trie / code blob is in the node database (memory or disk) *)
  (forall a ac, aget a r = Some ac -> a_root ac <> [] ->
     mem_get m1 (skey H (a_root ac)) <> None \/ disk_get d (skey H (a_root ac)) <> None) ->
  (forall a ac, aget a r = Some ac -> a_ch ac <> H [] ->
     exists c, bget (a_ch ac) (st_codes s') = Some c /\
       ((exists n, mem_get m1 (a_ch ac) = Some n /\ mn_blob n = c) \/
        (mem_get m1 (a_ch ac) = None /\ disk_get d (a_ch ac) = Some c))) ->
  NoDup (akeys r) ->
  tdb_commit fuel limit m1 [] d (tkey H r) = TrieModel.Ok (m', d') ->
  disk_get d' (tkey H r) = Some (enc_trie r) /\
  forall a, same_account (account_view H (disk_state H d' r) a) (account_view H s' a) /\
            forall k, get_state (disk_state H d' r) a k = get_state s' a k.
Proof.
  intros b s s' r m d fuel limit m' d' C (P1 & P2 & P3 & P4 & P5 & P6 & P7) m1 RN PS PC ND TC.
  (* root blob on disk *)
  destruct (DbProofs.tdb_commit_disk _ _ _ _ _ _ _ TC) as [A _].
  assert (RD : disk_get d' (tkey H r) = Some (enc_trie r)).
  { apply (A _ _ (DbProofs.reach_refl _ _ ltac:(rewrite RN; discriminate)) RN). }
  assert (AI : forall a ac, In (a, ac) r -> aget a r = Some ac).
  { clear - ND. induction r as [|[a0 ac0] t IH]; intros a ac IN; [contradiction|]. cbn [akeys map fst] in ND.
    inversion ND as [|x l NI ND']; subst. cbn [aget]. destruct IN as [[= -> ->]|IN]; [rewrite N.eqb_refl; reflexivity|].
    destruct (a =? a0) eqn:E; [|apply IH; auto]. apply N.eqb_eq in E. subst. exfalso. apply NI.
    change (In a0 (map fst t)). apply in_map_iff. exists (a0, ac). auto. }
  (* storage tries on disk *)
  assert (SD : forall a ac, In (a, ac) r -> a_root ac <> [] -> disk_get d' (skey H (a_root ac)) <> None).
  { intros a ac IN NE. destruct (flushed_child _ _ _ _ _ _ _ _ _ (skey H (a_root ac)) TC RN (in_refs_storage r a ac IN NE)) as [F1 F2].
    destruct (mem_get m1 (skey H (a_root ac))) as [n|] eqn:E; [rewrite (F1 n eq_refl); discriminate|].
    rewrite (F2 eq_refl). destruct (PS a ac (AI _ _ IN) NE) as [X|X]; [contradiction|exact X]. }
  split; [exact RD|]. unfold disk_state. rewrite (disk_leaf_id d' r SD).
  pose proof (commit_reopen H H_inj b s s' r C P1 P2 P3 P4 P5 P6 P7) as CR. cbv zeta in CR.
  intros a. destruct (CR a) as [V G]. split.
    + (* the code read from disk is the code the model's node database holds *)
      replace (account_view H (new_state r d') a) with (account_view H (new_state r (st_codes s')) a); [exact V|].
      rewrite !view_new_state. destruct (aget a r) as [ac|] eqn:E; [|reflexivity]. f_equal. f_equal.
      unfold obj_code, new_object, new_state, empty_code_hash. cbn [o_code o_ch st_codes].
      destruct (bytes_eqb_spec (a_ch ac) (H [])) as [|NE]; [reflexivity|].
      destruct (PC a ac E NE) as (c & BC & AV). rewrite BC, <- disk_get_bget.
      assert (INr : In (a, ac) r) by (apply aget_In; exact E).
      destruct (flushed_child _ _ _ _ _ _ _ _ _ (a_ch ac) TC RN (in_refs_code r a ac INr NE)) as [F1 F2].
      destruct AV as [(n & EM & EB)|[EM ED]]; [rewrite (F1 n EM), EB; reflexivity|rewrite (F2 EM), ED; reflexivity].
    + intros k. rewrite <- G. rewrite !get_state_new_state. reflexivity.
Qed.

(* the first premise holds whenever the root key is new to the memory layer *)
Lemma commit_db_root_node b s r m : r <> [] ->
  mem_get (fold_left (commit_db_one H enc_storage b s) (akeys (st_live s)) m) (tkey H r) = None ->
  mem_get (commit_db H enc_storage enc_trie b s r m) (tkey H r) = Some (mkMnode (enc_trie r) (refs H r)).
Proof.
  intros NE E. unfold commit_db. destruct r as [|x r0]; [contradiction|]. set (r := x :: r0) in *. clearbody r.
  unfold mem_ins. rewrite E. set (m0 := fold_left _ _ m) in *. clearbody m0.
  induction m0 as [|[k n] t IH]; cbn [app mem_get] in *.
  - rewrite bytes_eqb_refl. reflexivity.
  - destruct (bytes_eqb k (tkey H r)); [discriminate|]. apply IH. exact E.
Qed.
End DbThm.
