(* State/StateCopy.v — C09: StateDB.Copy is observationally the identity and
   Commit followed by re-opening the committed root shows the same accounts,
   both under the explicit hypothesis that no object was written without
   being put in the dirty set ("no unmarked writes"). *)
From AQ Require Import Lib.Bytes State.StateSpec State.StateModel State.StateProofs.
From Coq Require Import ZifyBool ZifyN ZifyNat.
Import ListNotations.
Local Open Scope N_scope.

(* ------------------------------------------------------------------ *)
(* sets and maps                                                        *)
Lemma nmem_In a l : nmem a l = true <-> In a l.
Proof.
  induction l as [|x t IH]; cbn [nmem In].
  - split; [discriminate|tauto].
  - rewrite Bool.orb_true_iff, IH. split; intros [E|E]; auto; left; lia.
Qed.

Definition lookup0 (k : N) (m : smap) : N := match aget k m with Some v => v | None => 0 end.

Lemma aget_none_notin {V} k (m : list (N * V)) : ~ In k (akeys m) -> aget k m = None.
Proof.
  induction m as [|[k0 v0] t IH]; cbn [akeys map fst In aget]; intros N0; [reflexivity|].
  destruct (k =? k0) eqn:E.
  - exfalso. apply N0. left. lia.
  - apply IH. intros I0. apply N0. right. exact I0.
Qed.

Lemma aget_some_in {V} k (v : V) m : aget k m = Some v -> In k (akeys m).
Proof.
  induction m as [|[k0 v0] t IH]; cbn [akeys map fst In aget]; [discriminate|].
  destruct (k =? k0) eqn:E; [left; lia|]. intros E2. right. apply IH, E2.
Qed.

Lemma nmem_ndel a x l : a <> x -> nmem a (ndel x l) = nmem a l.
Proof.
  intros Nx. induction l as [|y t IH]; cbn [ndel nmem]; [reflexivity|].
  destruct (x =? y) eqn:E; cbn [nmem]; rewrite IH; [|reflexivity].
  assert (a =? y = false) as -> by lia. reflexivity.
Qed.

(* updateTrie on a dirty-storage map with distinct keys: per-slot lookup *)
Lemma update_trie_get : forall d root k, NoDup (akeys d) ->
  aget k (update_trie_with d root) =
  match aget k d with
  | Some v => if v =? 0 then None else Some v
  | None => aget k root
  end.
Proof.
  unfold update_trie_with.
  induction d as [|[k0 v0] t IH]; intros root k ND; [reflexivity|].
  cbn [fold_left fst snd]. cbn [akeys map fst] in ND.
  inversion ND as [|? ? Nin ND']; subst.
  rewrite IH by exact ND'. cbn [aget].
  destruct (k =? k0) eqn:E.
  - assert (k = k0) as -> by lia. rewrite (aget_none_notin k0 t Nin).
    destruct (v0 =? 0); [rewrite aget_adel | rewrite aget_aset]; rewrite N.eqb_refl; reflexivity.
  - destruct (aget k t); [reflexivity|].
    destruct (v0 =? 0); [rewrite aget_adel | rewrite aget_aset]; rewrite E; reflexivity.
Qed.

Lemma lookup0_update d root k : NoDup (akeys d) ->
  lookup0 k (update_trie_with d root) = match aget k d with Some v => v | None => lookup0 k root end.
Proof.
  intros ND. unfold lookup0. rewrite update_trie_get by exact ND.
  destruct (aget k d) as [v|]; [|reflexivity].
  destruct (v =? 0) eqn:E; [lia|reflexivity].
Qed.

Lemma bget_app h m m' : bget h (m ++ m') = match bget h m with Some c => Some c | None => bget h m' end.
Proof.
  induction m as [|[k v] t IH]; cbn [app bget]; [reflexivity|].
  destruct (bytes_eqb h k); [reflexivity|apply IH].
Qed.
Lemma bget_bset_mono h c k v m : bget h m = Some c -> bget h (bset k v m) = Some c.
Proof. unfold bset. destruct (bget k m); [auto|]. intros E. rewrite bget_app, E. reflexivity. Qed.
Lemma bget_bset_same k v m : bget k (bset k v m) = match bget k m with Some c => Some c | None => Some v end.
Proof.
  unfold bset. destruct (bget k m) eqn:E; [exact E|]. rewrite bget_app, E. cbn [bget].
  rewrite bytes_eqb_refl. reflexivity.
Qed.
Lemma bget_bset_inv h c k v m : bget h (bset k v m) = Some c -> bget h m = Some c \/ (h = k /\ c = v).
Proof.
  unfold bset. destruct (bget k m); [left; assumption|]. rewrite bget_app.
  destruct (bget h m); [left; assumption|]. cbn [bget].
  destruct (bytes_eqb_spec h k); [|discriminate]. intros [= <-]. right. split; [assumption|reflexivity].
Qed.

(* nil code and empty code are the same to every caller (len, copy, hash) *)
Definition norm_code (c : option bytes) : bytes := match c with Some x => x | None => [] end.
Definition same_account (x y : option aview) : Prop :=
  match x, y with
  | None, None => True
  | Some v, Some w =>
    v_nonce v = v_nonce w /\ v_balance v = v_balance w /\ v_codehash v = v_codehash w /\
    v_suicided v = v_suicided w /\ norm_code (v_code v) = norm_code (v_code w)
  | _, _ => False
  end.

Section Copy.
Variable H : bytes -> bytes.

(* the storage write caches agree with each other and with the storage trie *)
Definition st_coherent (o : obj) : Prop :=
  forall k,
    (forall v, aget k (o_dirtyst o) = Some v -> aget k (o_cached o) = Some v) /\
    (forall v, aget k (o_dirtyst o) = None -> aget k (o_cached o) = Some v -> v = lookup0 k (o_root o)).

(* the object getStateObject would build from the trie leaf ac *)
Definition obj_of_acct (ac : acct) : obj :=
  new_object (a_nonce ac) (a_bal ac) (a_root ac) (a_ch ac) true.

(* every live object outside the dirty set reads like the trie leaf under it *)
Definition no_unmarked (s : state) : Prop :=
  forall a o, aget a (st_live s) = Some o -> nmem a (st_dirty s) = false ->
    (o_deleted o = true /\ aget a (st_trie s) = None) \/
    (o_deleted o = false /\ exists ac, aget a (st_trie s) = Some ac /\
       o_nonce o = a_nonce ac /\ o_bal o = a_bal ac /\ o_ch o = a_ch ac /\
       o_suicided o = false /\
       (forall k, obj_get_state o k = lookup0 k (a_root ac)) /\
       obj_code H s o = obj_code H s (obj_of_acct ac)).

(* ------------------------------------------------------------------ *)
(* Copy                                                                 *)
Lemma copy_fold s : forall order dst c,
  fold_res (copy_one s) order dst = Ok c ->
  st_trie c = st_trie dst /\ st_codes c = st_codes dst /\ st_refund c = st_refund dst /\
  st_logs c = st_logs dst /\ st_preimages c = st_preimages dst /\
  forall a, aget a (st_live c) =
            if nmem a order then option_map deep_copy (aget a (st_live s)) else aget a (st_live dst).
Proof.
  induction order as [|x t IH]; intros dst c E; cbn [fold_res] in E.
  - injection E as <-. repeat split; reflexivity.
  - unfold copy_one in E at 1. destruct (aget x (st_live s)) as [o|] eqn:Lx; cbn [rbind] in E; [|discriminate].
    apply IH in E. destruct E as (A & B & C & D & P & L).
    cbn [with_dirty put_obj with_live st_trie st_codes st_refund st_logs st_preimages st_live] in A, B, C, D, P, L.
    repeat split; auto. intros a. rewrite L. cbn [nmem]. rewrite aget_aset.
    destruct (a =? x) eqn:Eax; cbn [orb]; [|reflexivity].
    assert (a = x) as -> by lia. rewrite Lx. destruct (nmem x t); reflexivity.
Qed.

Lemma deep_copy_state o k : st_coherent o -> obj_get_state (deep_copy o) k = obj_get_state o k.
Proof.
  intros C. destruct (C k) as [C1 C2]. unfold obj_get_state, deep_copy; cbn [o_cached o_root].
  destruct (aget k (o_dirtyst o)) as [v|] eqn:E.
  - rewrite (C1 v eq_refl). reflexivity.
  - destruct (aget k (o_cached o)) as [v|] eqn:E2; [|reflexivity].
    rewrite (C2 v eq_refl eq_refl). reflexivity.
Qed.

Lemma copy_orel s c :
  copy s = Ok c -> no_unmarked s ->
  (forall a o, aget a (st_live s) = Some o -> st_coherent o) ->
  st_codes c = st_codes s /\ st_refund c = st_refund s /\ st_logs c = st_logs s /\
  st_preimages c = st_preimages s /\
  forall a, orel H (st_codes s) (get_obj c a) (get_obj s a).
Proof.
  intros E NU CO. unfold copy, copy_with in E. apply copy_fold in E.
  cbn [st_trie st_codes st_refund st_logs st_preimages st_live] in E.
  destruct E as (A & B & C & D & P & L). repeat split; auto.
  intros a. unfold get_obj, load_obj. rewrite L, A. cbn [aget].
  destruct (nmem a (st_dirty s)) eqn:Ed.
  - destruct (aget a (st_live s)) as [o|] eqn:La; cbn [option_map].
    + change (o_deleted (deep_copy o)) with (o_deleted o). destruct (o_deleted o); cbn [orel]; [exact I|].
      repeat split. intros k. apply deep_copy_state. eauto.
    + apply orel_refl.
  - destruct (aget a (st_live s)) as [o|] eqn:La; [|apply orel_refl].
    destruct (NU a o La Ed) as [[Dl Tr]|(Dl & ac & Tr & N1 & N2 & N3 & N4 & N5 & N6)]; rewrite Dl, Tr; cbn [orel]; [exact I|].
    fold (obj_of_acct ac). unfold same_view. repeat split; auto.
    intros k. rewrite N5. reflexivity.
Qed.

Theorem copy_obs : forall s c,
  copy s = Ok c -> no_unmarked s ->
  (forall a o, aget a (st_live s) = Some o -> st_coherent o) ->
  (forall a, account_view H c a = account_view H s a) /\
  (forall a k, get_state c a k = get_state s a k) /\
  get_refund c = get_refund s /\
  (forall th, get_logs c th = get_logs s th) /\
  st_preimages c = st_preimages s.
Proof.
  intros s c E NU CO. destruct (copy_orel s c E NU CO) as (B & C & D & P & R).
  split; [|split; [|split; [|split]]]; auto.
  - intros a. specialize (R a). unfold account_view.
    destruct (get_obj c a) as [o|], (get_obj s a) as [p|]; cbn [orel] in R; try contradiction; [|reflexivity].
    destruct R as (R1 & R2 & R3 & R4 & R5 & R6).
    unfold obj_code. rewrite B. unfold code_of in R4. fold (empty_code_hash H) in R4.
    rewrite R4, R1, R2, R3, R5. reflexivity.
  - intros a k. specialize (R a). unfold get_state.
    destruct (get_obj c a) as [o|], (get_obj s a) as [p|]; cbn [orel] in R; try contradiction; [|reflexivity].
    apply R.
  - intros th. unfold get_logs. rewrite D. reflexivity.
Qed.

(* ------------------------------------------------------------------ *)
(* Commit, then re-open the committed root                              *)
Section Reopen.
Hypothesis H_inj : forall x y, H x = H y -> x = y.

Definition codes_ok (codes : list (bytes * bytes)) : Prop := forall h c, bget h codes = Some c -> h = H c.
Definition codes_le (c1 c2 : list (bytes * bytes)) : Prop := forall h c, bget h c1 = Some c -> bget h c2 = Some c.

(* the code held by the object is what the code store has under its hash *)
Definition code_settled (codes : list (bytes * bytes)) (o : obj) : Prop :=
  forall c, o_code o = Some c -> o_ch o = H c /\ bget (o_ch o) codes = Some c.

(* live object lo reads exactly like trie leaf tl *)
Definition settled_at (lo : option obj) (tl : option acct) (codes : list (bytes * bytes)) : Prop :=
  forall o, lo = Some o ->
    (o_deleted o = true /\ tl = None) \/
    (o_deleted o = false /\ exists ac, tl = Some ac /\
       o_nonce o = a_nonce ac /\ o_bal o = a_bal ac /\ o_ch o = a_ch ac /\
       o_suicided o = false /\
       (forall k, obj_get_state o k = lookup0 k (a_root ac)) /\
       code_settled codes o).
Definition settled (a : N) (st : state) : Prop :=
  settled_at (aget a (st_live st)) (aget a (st_trie st)) (st_codes st).

Lemma settled_at_mono lo tl c1 c2 : settled_at lo tl c1 -> codes_le c1 c2 -> settled_at lo tl c2.
Proof.
  intros S LE o E. destruct (S o E) as [L|(D & ac & T & N1 & N2 & N3 & N4 & N5 & N6)]; [left; exact L|].
  right. split; [exact D|]. exists ac. do 6 (split; [assumption|]).
  intros c Hc. destruct (N6 c Hc) as [X Y]. split; [exact X|apply LE, Y].
Qed.

Lemma update_root_state o k : st_coherent o -> NoDup (akeys (o_dirtyst o)) ->
  obj_get_state (obj_update_root o) k = lookup0 k (update_trie_with (o_dirtyst o) (o_root o)).
Proof.
  intros C ND. destruct (C k) as [C1 C2].
  unfold obj_get_state, obj_update_root, o_with_root; cbn [o_cached o_root].
  fold (lookup0 k (update_trie_with (o_dirtyst o) (o_root o))).
  rewrite lookup0_update by exact ND.
  destruct (aget k (o_dirtyst o)) as [v|] eqn:E.
  - rewrite (C1 v eq_refl). reflexivity.
  - destruct (aget k (o_cached o)) as [v|] eqn:E2; [|reflexivity]. apply (C2 v eq_refl eq_refl).
Qed.

(* what one iteration of the Commit loop does *)
Lemma commit_one_cases b st x o st' :
  commit_one H b st x = Ok st' -> aget x (st_live st) = Some o ->
  st_dirty st' = ndel x (st_dirty st) /\
  ( (o_suicided o || (nmem x (st_dirty st) && b && obj_empty H o) = true /\
     st_live st' = aset x (o_with_deleted true o) (st_live st) /\
     st_trie st' = adel x (st_trie st) /\ st_codes st' = st_codes st)
  \/ (o_suicided o || (nmem x (st_dirty st) && b && obj_empty H o) = false /\
      nmem x (st_dirty st) = true /\
      exists o1 codes1,
        st_live st' = aset x (obj_update_root o1) (st_live st) /\
        st_trie st' = aset x (mkAcct (o_nonce o) (o_bal o) (o_root (obj_update_root o1)) (o_ch o)) (st_trie st) /\
        st_codes st' = codes1 /\
        ((o1 = o /\ codes1 = st_codes st /\ (forall c, o_code o = Some c -> o_dirtycode o = false)) \/
         (exists c, o_code o = Some c /\ o_dirtycode o = true /\
                    o1 = o_with_dirtycode false o /\ codes1 = bset (o_ch o) c (st_codes st))))
  \/ (o_suicided o || (nmem x (st_dirty st) && b && obj_empty H o) = false /\
      nmem x (st_dirty st) = false /\
      st_live st' = st_live st /\ st_trie st' = st_trie st /\ st_codes st' = st_codes st) ).
Proof.
  intros E L. unfold commit_one in E. rewrite L in E.
  destruct (o_suicided o || (nmem x (st_dirty st) && b && obj_empty H o)) eqn:C1.
  - cbn [rbind] in E. injection E as <-. split; [reflexivity|]. left. repeat split.
  - destruct (nmem x (st_dirty st)) eqn:Ed.
    + destruct (o_code o) as [c|] eqn:Ec; [destruct (o_dirtycode o) eqn:Edc|];
        unfold update_state_object in E;
        cbn [o_bal obj_update_root o_with_root o_with_dirtycode] in E;
        destruct (o_bal o <? 0)%Z; cbn [rbind] in E; try discriminate;
        injection E as <-; (split; [reflexivity|]); right; left; (split; [reflexivity|]); (split; [reflexivity|]).
      * exists (o_with_dirtycode false o), (bset (o_ch o) c (st_codes st)).
        repeat split. right. exists c. repeat split.
      * exists o, (st_codes st). repeat split. left. repeat split.
      * exists o, (st_codes st). repeat split. left. repeat split. intros c' [=].
    + cbn [rbind] in E. injection E as <-. split; [reflexivity|]. right. right. repeat split.
Qed.

Section Fold.
Variables (b : bool) (s : state).
Hypothesis NU : no_unmarked s.
Hypothesis CO : forall a o, aget a (st_live s) = Some o -> st_coherent o.
Hypothesis ND : forall a o, aget a (st_live s) = Some o -> NoDup (akeys (o_dirtyst o)).
Hypothesis DEL : forall a o, aget a (st_live s) = Some o -> o_deleted o = true ->
  nmem a (st_dirty s) = true -> o_suicided o = true \/ (b = true /\ obj_empty H o = true).
Hypothesis CS : codes_ok (st_codes s).
Hypothesis OC : forall a o c, aget a (st_live s) = Some o -> o_code o = Some c ->
  o_ch o = H c /\ (o_dirtycode o = true \/ bget (o_ch o) (st_codes s) = Some c).

(* address a has not been visited yet by the loop *)
Definition pending (a : N) (st : state) : Prop :=
  aget a (st_live st) = aget a (st_live s) /\ aget a (st_trie st) = aget a (st_trie s) /\
  nmem a (st_dirty st) = nmem a (st_dirty s).
Definition Ginv (st : state) : Prop := codes_ok (st_codes st) /\ codes_le (st_codes s) (st_codes st).

Lemma step_other st x st' a :
  commit_one H b st x = Ok st' -> a <> x ->
  aget a (st_live st') = aget a (st_live st) /\ aget a (st_trie st') = aget a (st_trie st) /\
  nmem a (st_dirty st') = nmem a (st_dirty st).
Proof.
  intros E Na. assert (Ea : a =? x = false) by lia.
  destruct (aget x (st_live st)) as [o|] eqn:L.
  - destruct (commit_one_cases _ _ _ _ _ E L)
      as (D & [(_ & A & B & C)|[(_ & _ & o1 & c1 & A & B & C & _)|(_ & _ & A & B & C)]]);
      rewrite D, A, B; rewrite ?aget_aset, ?aget_adel, ?Ea, nmem_ndel by exact Na; repeat split.
  - unfold commit_one in E. rewrite L in E. injection E as <-. repeat split.
Qed.

Lemma step_codes st x st' :
  commit_one H b st x = Ok st' ->
  codes_le (st_codes st) (st_codes st') /\
  (codes_ok (st_codes st) ->
   (forall o c, aget x (st_live st) = Some o -> o_code o = Some c -> o_ch o = H c) ->
   codes_ok (st_codes st')).
Proof.
  intros E. destruct (aget x (st_live st)) as [o|] eqn:L.
  - destruct (commit_one_cases _ _ _ _ _ E L)
      as (D & [(_ & A & B & C)|[(_ & _ & o1 & c1 & A & B & C & Cs)|(_ & _ & A & B & C)]]);
      rewrite C; try (split; [intros h c Hc; exact Hc|intros OK _; exact OK]).
    destruct Cs as [(_ & -> & _)|(c & Ec & _ & _ & ->)]; [split; [intros h c Hc; exact Hc|intros OK _; exact OK]|].
    split.
    + intros h c0 Hc. apply bget_bset_mono, Hc.
    + intros OK Hh h c0 Hc. apply bget_bset_inv in Hc. destruct Hc as [Hc|[-> ->]]; [apply OK, Hc|].
      apply (Hh o c eq_refl Ec).
  - unfold commit_one in E. rewrite L in E. injection E as <-.
    split; [intros h c Hc; exact Hc|intros OK _; exact OK].
Qed.

Lemma step_self st x st' o :
  commit_one H b st x = Ok st' -> Ginv st -> pending x st -> aget x (st_live s) = Some o ->
  settled x st'.
Proof.
  intros E [GO GL] (P1 & P2 & P3) L.
  assert (L' : aget x (st_live st) = Some o) by (rewrite P1; exact L).
  destruct (commit_one_cases _ _ _ _ _ E L')
    as (D & [(C1 & A & B & C)|[(C1 & Ed & o1 & c1 & A & B & C & Cs)|(C1 & Ed & A & B & C)]]);
    unfold settled; rewrite A, B, C.
  - rewrite aget_aset, aget_adel, N.eqb_refl. intros o' [= <-]. left. split; reflexivity.
  - rewrite !aget_aset, N.eqb_refl. intros o' [= <-].
    rewrite Ed in C1.
    assert (Dl : o_deleted o = false).
    { destruct (o_deleted o) eqn:Dl; [|reflexivity]. rewrite P3 in Ed.
      destruct (DEL x o L Dl Ed) as [S|[Bt Em]].
      - rewrite S in C1. cbn [orb] in C1. discriminate.
      - rewrite Bt, Em in C1. destruct (o_suicided o); cbn [orb andb] in C1; discriminate. }
    assert (Su : o_suicided o = false).
    { destruct (o_suicided o); [cbn [orb] in C1; discriminate|reflexivity]. }
    right.
    destruct Cs as [(-> & -> & Hdc)|(c & Ec & Edc & -> & ->)].
    + split; [exact Dl|]. eexists. split; [reflexivity|]. cbn [a_nonce a_bal a_ch a_root].
      do 4 (split; [assumption || reflexivity|]). split.
      * intros k. apply update_root_state; [exact (CO x o L)|exact (ND x o L)].
      * intros c' Ec'. change (o_code o = Some c') in Ec'.
        destruct (OC x o c' L Ec') as [Hh [Hd|Hb]].
        -- rewrite (Hdc c' Ec') in Hd. discriminate.
        -- split; [exact Hh|]. apply GL. exact Hb.
    + split; [exact Dl|]. eexists. split; [reflexivity|]. cbn [a_nonce a_bal a_ch a_root].
      do 4 (split; [assumption || reflexivity|]). split.
      * intros k. apply update_root_state; [exact (CO x o L)|exact (ND x o L)].
      * intros c' Ec'. change (o_code o = Some c') in Ec'.
        destruct (OC x o c' L Ec') as [Hh _]. split; [exact Hh|].
        change (bget (o_ch o) (bset (o_ch o) c (st_codes st)) = Some c').
        rewrite Ec in Ec'. injection Ec' as <-.
        rewrite bget_bset_same. destruct (bget (o_ch o) (st_codes st)) as [c0|] eqn:E0; [|reflexivity].
        f_equal. apply H_inj. rewrite <- Hh. symmetry. apply GO, E0.
  - rewrite P3 in Ed. rewrite L'. intros o' [= <-]. rewrite P2.
    destruct (NU x o L Ed) as [[Dl Tr]|(Dl & ac & Tr & N1 & N2 & N3 & N4 & N5 & N6)]; [left; split; assumption|].
    right. split; [exact Dl|]. exists ac. do 6 (split; [assumption|]).
    intros c Ec. destruct (OC x o c L Ec) as [Hh _]. split; [exact Hh|]. apply GL.
    unfold obj_code in N6. rewrite Ec in N6. cbn [obj_of_acct new_object o_code o_ch] in N6.
    destruct (bytes_eqb (a_ch ac) (empty_code_hash H)); [discriminate|].
    rewrite N3. symmetry. exact N6.
Qed.

Lemma settled_step_other st x st' a :
  commit_one H b st x = Ok st' -> a <> x -> settled a st -> settled a st'.
Proof.
  intros E Na S. unfold settled. destruct (step_other _ _ _ a E Na) as (A & B & _). rewrite A, B.
  eapply settled_at_mono; [exact S|]. apply (step_codes _ _ _ E).
Qed.

Lemma commit_fold : forall order st st',
  NoDup order -> fold_res (commit_one H b) order st = Ok st' -> Ginv st ->
  (forall a, In a order -> pending a st) -> (forall a, ~ In a order -> settled a st) ->
  forall a, settled a st'.
Proof.
  induction order as [|x t IH]; intros st st' NDo E Gs P S; cbn [fold_res] in E.
  - injection E as <-. intros a. apply S. intros [].
  - destruct (commit_one H b st x) as [st1|] eqn:E1; cbn [rbind] in E; [|discriminate].
    inversion NDo as [|? ? Nin NDt]; subst.
    apply (IH st1 st' NDt E).
    + destruct (step_codes _ _ _ E1) as [LE OK]. destruct Gs as [GO GL]. split.
      * apply OK; [exact GO|]. intros o c Lx Ec.
        destruct (P x (or_introl eq_refl)) as (P1 & _). rewrite P1 in Lx. apply (OC x o c Lx Ec).
      * intros h c Hc. apply LE, GL, Hc.
    + intros a' Ia. assert (Ne : a' <> x) by (intros ->; contradiction).
      destruct (step_other _ _ _ a' E1 Ne) as (A & B & C).
      destruct (P a' (or_intror Ia)) as (P1 & P2 & P3). unfold pending. rewrite A, B, C. auto.
    + intros a' Nia. destruct (N.eq_dec a' x) as [->|Ne].
      * destruct (aget x (st_live s)) as [o|] eqn:L.
        -- apply (step_self st x st1 o E1 Gs); [|exact L]. apply P. left. reflexivity.
        -- destruct (P x (or_introl eq_refl)) as (P1 & _). rewrite L in P1.
           unfold settled. unfold commit_one in E1. rewrite P1 in E1. injection E1 as <-.
           rewrite P1. intros o [=].
      * apply (settled_step_other st x st1 a' E1 Ne). apply S. intros [->|I']; [apply Ne; reflexivity|contradiction].
Qed.

End Fold.

(* Hypotheses beyond no_unmarked / st_coherent / NoDup of the live keys:
   * the dirtyStorage list of every live object has distinct keys (it is built
     by aset, so this always holds for reachable states): updateTrie applies the
     bindings in list order, GetState reads the first one;
   * a live object that is already `deleted` and still in the dirty set must be
     deleted again by this Commit (suicided, or b and empty).  Without it the
     statement is false: Finalise(true) deletes an empty object, a following
     Commit(false) takes the `isDirty` branch and writes the deleted object back
     into the trie, so the re-opened state has an account that s' does not show;
   * the code-store hypotheses (collision freedom is the Section hypothesis H_inj). *)
Theorem commit_reopen : forall b s s' r,
  commit H b s = Ok (s', r) ->
  no_unmarked s ->
  (forall a o, aget a (st_live s) = Some o -> st_coherent o) ->
  (forall a o, aget a (st_live s) = Some o -> NoDup (akeys (o_dirtyst o))) ->
  NoDup (akeys (st_live s)) ->
  (forall a o, aget a (st_live s) = Some o -> o_deleted o = true -> nmem a (st_dirty s) = true ->
               o_suicided o = true \/ (b = true /\ obj_empty H o = true)) ->
  (forall h c, bget h (st_codes s) = Some c -> h = H c) ->
  (forall a o c, aget a (st_live s) = Some o -> o_code o = Some c ->
                 o_ch o = H c /\ (o_dirtycode o = true \/ bget (o_ch o) (st_codes s) = Some c)) ->
  let re := new_state r (st_codes s') in
  forall a, same_account (account_view H re a) (account_view H s' a) /\
            forall k, get_state re a k = get_state s' a k.
Proof.
  intros b s s' r E NU CO ND NDl DEL CS OC re a. subst re.
  unfold commit, commit_with in E.
  destruct (fold_res (commit_one H b) (akeys (st_live s)) s) as [st'|] eqn:EF; cbn [rbind] in E; [|discriminate].
  injection E as <- <-.
  assert (S : settled a st').
  { apply (commit_fold b s NU CO ND DEL OC (akeys (st_live s)) s st' NDl EF).
    - split; [exact CS|]. intros h c Hc. exact Hc.
    - intros a' _. repeat split.
    - intros a' Nia. unfold settled. rewrite (aget_none_notin a' (st_live s) Nia). intros o [=]. }
  unfold settled in S.
  unfold account_view, get_state, get_obj, load_obj, new_state.
  cbn [st_live st_trie st_codes clear_journal_and_refund with_refund with_revs with_journal aget].
  destruct (aget a (st_live st')) as [o|] eqn:L.
  - destruct (S o eq_refl) as [[Dl Tr]|(Dl & ac & Tr & N1 & N2 & N3 & N4 & N5 & N6)]; rewrite Dl, Tr.
    + split; [exact I|reflexivity].
    + cbn [same_account v_nonce v_balance v_codehash v_suicided v_code new_object o_nonce o_bal o_ch o_suicided].
      split.
      * do 4 (split; [congruence|]).
        unfold obj_code.
        cbn [new_object o_code o_ch st_codes clear_journal_and_refund with_refund with_revs with_journal].
        destruct (o_code o) as [c|] eqn:Ec.
        -- destruct (N6 c Ec) as [Hh Hb]. rewrite <- N3.
           destruct (bytes_eqb_spec (o_ch o) (empty_code_hash H)) as [Ee|_].
           ++ cbn [norm_code]. apply H_inj. rewrite <- Hh. symmetry. exact Ee.
           ++ rewrite Hb. reflexivity.
        -- rewrite N3. reflexivity.
      * intros k. rewrite N5. unfold obj_get_state, new_object. cbn [o_cached o_root aget]. reflexivity.
  - destruct (aget a (st_trie st')) as [ac|]; [|split; [exact I|reflexivity]].
    split; [|reflexivity]. cbn [same_account v_nonce v_balance v_codehash v_suicided v_code].
    do 4 (split; [reflexivity|]). reflexivity.
Qed.

End Reopen.

End Copy.
