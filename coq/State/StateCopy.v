(* State/StateCopy.v — C09: StateDB.Copy is observationally the identity and
   Commit followed by re-opening the committed root shows the same accounts,
   both under the explicit hypothesis that no object was written without
   being put in the dirty set ("no unmarked writes"). *)
From AQ Require Import Lib.Bytes State.StateSpec State.StateModel State.StateProofs.
From Coq Require Import ZifyBool ZifyN ZifyNat.
Import ListNotations.
Local Open Scope N_scope.

(* ------------------------------------------------------------------ *)
(* sets and maps                                                        *)
Lemma nmem_In a l : nmem a l = true <-> In a l.
Proof.
  induction l as [|x t IH]; cbn [nmem In].
  - split; [discriminate|tauto].
  - rewrite Bool.orb_true_iff, IH. split; intros [E|E]; auto; left; lia.
Qed.

Definition lookup0 (k : N) (m : smap) : N := match aget k m with Some v => v | None => 0 end.

Section Copy.
Variable H : bytes -> bytes.

(* the storage write caches agree with each other and with the storage trie *)
Definition st_coherent (o : obj) : Prop :=
  forall k,
    (forall v, aget k (o_dirtyst o) = Some v -> aget k (o_cached o) = Some v) /\
    (forall v, aget k (o_dirtyst o) = None -> aget k (o_cached o) = Some v -> v = lookup0 k (o_root o)).

(* the object getStateObject would build from the trie leaf ac *)
Definition obj_of_acct (ac : acct) : obj :=
  new_object (a_nonce ac) (a_bal ac) (a_root ac) (a_ch ac) true.

(* every live object outside the dirty set reads like the trie leaf under it *)
Definition no_unmarked (s : state) : Prop :=
  forall a o, aget a (st_live s) = Some o -> nmem a (st_dirty s) = false ->
    (o_deleted o = true /\ aget a (st_trie s) = None) \/
    (o_deleted o = false /\ exists ac, aget a (st_trie s) = Some ac /\
       o_nonce o = a_nonce ac /\ o_bal o = a_bal ac /\ o_ch o = a_ch ac /\
       o_suicided o = false /\
       (forall k, obj_get_state o k = lookup0 k (a_root ac)) /\
       obj_code H s o = obj_code H s (obj_of_acct ac)).

(* ------------------------------------------------------------------ *)
(* Copy                                                                 *)
Lemma copy_fold s : forall order dst c,
  fold_res (copy_one s) order dst = Ok c ->
  st_trie c = st_trie dst /\ st_codes c = st_codes dst /\ st_refund c = st_refund dst /\
  st_logs c = st_logs dst /\ st_preimages c = st_preimages dst /\
  forall a, aget a (st_live c) =
            if nmem a order then option_map deep_copy (aget a (st_live s)) else aget a (st_live dst).
Proof.
  induction order as [|x t IH]; intros dst c E; cbn [fold_res] in E.
  - injection E as <-. repeat split; reflexivity.
  - unfold copy_one in E at 1. destruct (aget x (st_live s)) as [o|] eqn:Lx; cbn [rbind] in E; [|discriminate].
    apply IH in E. destruct E as (A & B & C & D & P & L).
    cbn [with_dirty put_obj with_live st_trie st_codes st_refund st_logs st_preimages st_live] in A, B, C, D, P, L.
    repeat split; auto. intros a. rewrite L. cbn [nmem]. rewrite aget_aset.
    destruct (a =? x) eqn:Eax; cbn [orb]; [|reflexivity].
    assert (a = x) as -> by lia. rewrite Lx. destruct (nmem x t); reflexivity.
Qed.

Lemma deep_copy_state o k : st_coherent o -> obj_get_state (deep_copy o) k = obj_get_state o k.
Proof.
  intros C. destruct (C k) as [C1 C2]. unfold obj_get_state, deep_copy; cbn [o_cached o_root].
  destruct (aget k (o_dirtyst o)) as [v|] eqn:E.
  - rewrite (C1 v eq_refl). reflexivity.
  - destruct (aget k (o_cached o)) as [v|] eqn:E2; [|reflexivity].
    rewrite (C2 v eq_refl eq_refl). reflexivity.
Qed.

Lemma copy_orel s c :
  copy s = Ok c -> no_unmarked s ->
  (forall a o, aget a (st_live s) = Some o -> st_coherent o) ->
  st_codes c = st_codes s /\ st_refund c = st_refund s /\ st_logs c = st_logs s /\
  st_preimages c = st_preimages s /\
  forall a, orel H (st_codes s) (get_obj c a) (get_obj s a).
Proof.
  intros E NU CO. unfold copy, copy_with in E. apply copy_fold in E.
  cbn [st_trie st_codes st_refund st_logs st_preimages st_live] in E.
  destruct E as (A & B & C & D & P & L). repeat split; auto.
  intros a. unfold get_obj, load_obj. rewrite L, A. cbn [aget].
  destruct (nmem a (st_dirty s)) eqn:Ed.
  - destruct (aget a (st_live s)) as [o|] eqn:La; cbn [option_map].
    + change (o_deleted (deep_copy o)) with (o_deleted o). destruct (o_deleted o); cbn [orel]; [exact I|].
      repeat split. intros k. apply deep_copy_state. eauto.
    + apply orel_refl.
  - destruct (aget a (st_live s)) as [o|] eqn:La; [|apply orel_refl].
    destruct (NU a o La Ed) as [[Dl Tr]|(Dl & ac & Tr & N1 & N2 & N3 & N4 & N5 & N6)]; rewrite Dl, Tr; cbn [orel]; [exact I|].
    fold (obj_of_acct ac). unfold same_view. repeat split; auto.
    intros k. rewrite N5. reflexivity.
Qed.

Theorem copy_obs : forall s c,
  copy s = Ok c -> no_unmarked s ->
  (forall a o, aget a (st_live s) = Some o -> st_coherent o) ->
  (forall a, account_view H c a = account_view H s a) /\
  (forall a k, get_state c a k = get_state s a k) /\
  get_refund c = get_refund s /\
  (forall th, get_logs c th = get_logs s th) /\
  st_preimages c = st_preimages s.
Proof.
  intros s c E NU CO. destruct (copy_orel s c E NU CO) as (B & C & D & P & R).
  split; [|split; [|split; [|split]]]; auto.
  - intros a. specialize (R a). unfold account_view.
    destruct (get_obj c a) as [o|], (get_obj s a) as [p|]; cbn [orel] in R; try contradiction; [|reflexivity].
    destruct R as (R1 & R2 & R3 & R4 & R5 & R6).
    unfold obj_code. rewrite B. unfold code_of in R4. fold (empty_code_hash H) in R4.
    rewrite R1, R2, R3, R5. f_equal. f_equal. rewrite <- R3. exact R4.
  - intros a k. specialize (R a). unfold get_state.
    destruct (get_obj c a) as [o|], (get_obj s a) as [p|]; cbn [orel] in R; try contradiction; [|reflexivity].
    apply R.
  - intros th. unfold get_logs. rewrite D. reflexivity.
Qed.

End Copy.
