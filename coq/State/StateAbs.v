(* State/StateAbs.v — the abstract state of property C09, independent of journal, dirty set and
   caches: accounts as a map address -> (nonce, balance, code hash, code, self-destructed flag,
   storage map), refund counter, logs per transaction hash, preimages.  Snapshot = copy of the whole
   abstract data, RevertToSnapshot = restore the copy.  The transaction context set by Prepare
   (thash, bhash, txIndex) is not journalled by the code and is not part of what a snapshot saves.
   Definitions only (extracted; run next to the implementation by the harness). *)
From AQ Require Import Lib.Bytes State.StateSpec State.StateModel.
Import ListNotations.
Local Open Scope N_scope.

Record aacct : Type := mkAA {
  c_nonce : N; c_bal : Z; c_ch : bytes; c_code : option bytes; c_suicided : bool; c_store : N -> N }.

Record adata : Type := mkAD {
  ad_acc : N -> option aacct;
  ad_refund : N;
  ad_logs : N -> list logrec;
  ad_logsize : N;
  ad_pre : N -> option bytes }.

Record astate : Type := mkAS {
  as_data : adata;
  as_th : N; as_bh : N; as_ti : N;            (* Prepare *)
  as_snaps : list (N * adata);                (* live snapshots, oldest first *)
  as_next : N }.

Definition upd {A} (f : N -> A) (a : N) (v : A) : N -> A := fun x => if x =? a then v else f x.

Definition set_acc (D : adata) (a : N) (c : aacct) : adata :=
  mkAD (upd (ad_acc D) a (Some c)) (ad_refund D) (ad_logs D) (ad_logsize D) (ad_pre D).
Definition with_data (A : astate) (D : adata) : astate :=
  mkAS D (as_th A) (as_bh A) (as_ti A) (as_snaps A) (as_next A).

Definition c_with_nonce n c := mkAA n (c_bal c) (c_ch c) (c_code c) (c_suicided c) (c_store c).
Definition c_with_bal b c := mkAA (c_nonce c) b (c_ch c) (c_code c) (c_suicided c) (c_store c).
Definition c_with_code h cd c := mkAA (c_nonce c) (c_bal c) h cd (c_suicided c) (c_store c).
Definition c_with_slot k v c := mkAA (c_nonce c) (c_bal c) (c_ch c) (c_code c) (c_suicided c) (upd (c_store c) k v).
Definition c_with_suicided b c := mkAA (c_nonce c) (c_bal c) (c_ch c) (c_code c) b (c_store c).

Section Abs.
Variable H : bytes -> bytes.

Definition fresh_acct : aacct := mkAA 0 0%Z (H []) None false (fun _ => 0).

(* "the account, created empty if it does not exist" — what every setter starts with *)
Definition agon (D : adata) (a : N) : adata * aacct :=
  match ad_acc D a with
  | Some c => (D, c)
  | None => (set_acc D a fresh_acct, fresh_acct)
  end.

Definition acct_empty (c : aacct) : bool := (c_nonce c =? 0) && Z.eqb (c_bal c) 0 && bytes_eqb (c_ch c) (H []).

Fixpoint afind (id : N) (l : list (N * adata)) (i : nat) : option (nat * adata) :=
  match l with
  | [] => None
  | (id', D) :: t => if id' =? id then Some (i, D) else afind id t (S i)
  end.

(* one operation of vm.StateDB on the abstract state; Finalise / Commit are outside this system *)
Definition astep (A : astate) (o : op) : res astate :=
  let D := as_data A in
  match o with
  | OCreate a =>
    let bal := match ad_acc D a with Some c => c_bal c | None => 0%Z end in
    Ok (with_data A (set_acc D a (c_with_bal bal fresh_acct)))
  | OAddBal a v =>
    let '(D1, c) := agon D a in
    Ok (with_data A (if Z.eqb v 0 then D1 else set_acc D1 a (c_with_bal (c_bal c + v)%Z c)))
  | OSubBal a v =>
    let '(D1, c) := agon D a in
    Ok (with_data A (if Z.eqb v 0 then D1 else set_acc D1 a (c_with_bal (c_bal c - v)%Z c)))
  | OSetBal a v => let '(D1, c) := agon D a in Ok (with_data A (set_acc D1 a (c_with_bal v c)))
  | OSetNonce a n => let '(D1, c) := agon D a in Ok (with_data A (set_acc D1 a (c_with_nonce n c)))
  | OSetCode a code => let '(D1, c) := agon D a in Ok (with_data A (set_acc D1 a (c_with_code (H code) (Some code) c)))
  | OSetState a k v => let '(D1, c) := agon D a in Ok (with_data A (set_acc D1 a (c_with_slot k v c)))
  | OSuicide a =>
    match ad_acc D a with
    | Some c => Ok (with_data A (set_acc D a (c_with_bal 0%Z (c_with_suicided true c))))
    | None => Ok (with_data A D)
    end
  | OAddLog d =>
    let l := mkLog d (as_th A) (as_bh A) (as_ti A) (ad_logsize D) in
    Ok (with_data A (mkAD (ad_acc D) (ad_refund D) (upd (ad_logs D) (as_th A) (ad_logs D (as_th A) ++ [l]))
                          ((ad_logsize D + 1) mod two64) (ad_pre D)))
  | OAddRefund g => Ok (with_data A (mkAD (ad_acc D) ((ad_refund D + g) mod two64) (ad_logs D) (ad_logsize D) (ad_pre D)))
  | OAddPreimage h p =>
    match ad_pre D h with
    | Some _ => Ok (with_data A D)
    | None => Ok (with_data A (mkAD (ad_acc D) (ad_refund D) (ad_logs D) (ad_logsize D) (upd (ad_pre D) h (Some p))))
    end
  | OPrepare th bh ti => Ok (mkAS D th bh ti (as_snaps A) (as_next A))
  | OSnapshot => Ok (mkAS D (as_th A) (as_bh A) (as_ti A) (as_snaps A ++ [(as_next A, D)]) (as_next A + 1))
  | ORevert id =>
    match afind id (as_snaps A) 0 with
    | Some (i, D0) => Ok (mkAS D0 (as_th A) (as_bh A) (as_ti A) (firstn i (as_snaps A)) (as_next A))
    | None => Panic                                  (* "revision id cannot be reverted" *)
    end
  | OFinalise _ | OCommit _ => Panic                 (* not part of the abstract system *)
  end.

Definition arun (ops : list op) (A : astate) : res astate := fold_res astep ops A.

(* the abstract state a StateDB denotes (used to start the abstract system) *)
Definition abs_acct (s : state) (o : obj) : aacct :=
  mkAA (o_nonce o) (o_bal o) (o_ch o) (obj_code H s o) (o_suicided o) (obj_get_state o).
Definition abs_data (s : state) : adata :=
  mkAD (fun a => option_map (abs_acct s) (get_obj s a)) (st_refund s) (get_logs s) (st_logsize s)
       (fun h => aget h (st_preimages s)).
Definition abs_state (s : state) : astate :=
  mkAS (abs_data s) (st_thash s) (st_bhash s) (st_txindex s) [] (st_nextrev s).

(* the abstract getters *)
Definition a_view (D : adata) (a : N) : option aview :=
  option_map (fun c => mkView (c_nonce c) (c_bal c) (c_ch c) (c_code c) (c_suicided c)) (ad_acc D a).
Definition a_store (D : adata) (a k : N) : N := match ad_acc D a with Some c => c_store c k | None => 0 end.
Definition a_exist (D : adata) (a : N) : bool := match ad_acc D a with Some _ => true | None => false end.
Definition a_empty (D : adata) (a : N) : bool := match ad_acc D a with Some c => acct_empty c | None => true end.
End Abs.
