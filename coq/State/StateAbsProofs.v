(* State/StateAbsProofs.v — C09 abs_simulation: the journalled model simulates the abstract system
   of State/StateAbs.v step by step on every history without Finalise/Commit. *)
From AQ Require Import Lib.Bytes State.StateSpec State.StateModel State.StateProofs State.StateUndoLemmas
  State.StateRevertProof State.StateAbs.
From Coq Require Import ZifyBool ZifyN ZifyNat.
Import ListNotations.
Local Open Scope N_scope.

Section AbsSim.
Variable H : bytes -> bytes.

Definition vobj (codes : list (bytes * bytes)) (o : obj) : aview :=
  mkView (o_nonce o) (o_bal o) (o_ch o) (code_of H codes o) (o_suicided o).
Definition vacct (c : aacct) : aview := mkView (c_nonce c) (c_bal c) (c_ch c) (c_code c) (c_suicided c).

(* the concrete state reads like the abstract data *)
Definition Rdata (s : state) (D : adata) : Prop :=
  (forall a, account_view H s a = a_view D a) /\ (forall a k, get_state s a k = a_store D a k) /\
  st_refund s = ad_refund D /\ (forall th, get_logs s th = ad_logs D th) /\ st_logsize s = ad_logsize D /\
  (forall h, aget h (st_preimages s) = ad_pre D h).

Lemma view_get s a : account_view H s a = option_map (vobj (st_codes s)) (get_obj s a).
Proof. unfold account_view. destruct (get_obj s a); reflexivity. Qed.
Lemma gs_get s a k : get_state s a k = match get_obj s a with Some o => obj_get_state o k | None => 0 end.
Proof. reflexivity. Qed.

Lemma R_at s D a o : Rdata s D -> get_obj s a = Some o ->
  exists c, ad_acc D a = Some c /\ vacct c = vobj (st_codes s) o /\ forall k, c_store c k = obj_get_state o k.
Proof.
  intros (V & G & _) GO. specialize (V a). rewrite view_get, GO in V. unfold a_view in V.
  destruct (ad_acc D a) as [c|] eqn:E; [|discriminate]. exists c. split; [reflexivity|]. cbn in V. injection V as V1 V2 V3 V4 V5.
  split; [unfold vacct, vobj; congruence|]. intros k. specialize (G a k). rewrite gs_get, GO in G. unfold a_store in G. rewrite E in G. auto.
Qed.
Lemma R_none s D a : Rdata s D -> get_obj s a = None -> ad_acc D a = None.
Proof.
  intros (V & _) GO. specialize (V a). rewrite view_get, GO in V. unfold a_view in V.
  destruct (ad_acc D a); [discriminate|reflexivity].
Qed.

Definition rest5 (s : state) := (st_codes s, st_refund s, st_logs s, st_logsize s, st_preimages s).
Definition ctxof (s : state) := (st_thash s, st_bhash s, st_txindex s).
Lemma rest5_mark s a o : rest5 (mark_and_put s a o) = rest5 s.
Proof. unfold mark_and_put. destruct (o_armed o); reflexivity. Qed.
Lemma ctx_mark s a o : ctxof (mark_and_put s a o) = ctxof s.
Proof. unfold mark_and_put. destruct (o_armed o); reflexivity. Qed.

(* one account changes, the rest of the data does not *)
Lemma R_upd s D s1 a o1 c1 :
  Rdata s D -> rest5 s1 = rest5 s ->
  (forall a', get_obj s1 a' = if a' =? a then Some o1 else get_obj s a') ->
  vobj (st_codes s) o1 = vacct c1 -> (forall k, obj_get_state o1 k = c_store c1 k) ->
  Rdata s1 (set_acc D a c1).
Proof.
  intros (V & G & R & L & LS & P) E5 GO VV SS. unfold rest5 in E5. injection E5 as E1 E2 E3 E4 E5.
  unfold Rdata, get_logs, a_view, a_store, set_acc, upd. cbn [ad_acc ad_refund ad_logs ad_logsize ad_pre].
  rewrite E2, E3, E4, E5. repeat split; auto.
  - intros a'. rewrite view_get, GO, E1. destruct (a' =? a) eqn:E; [cbn; rewrite VV; reflexivity|].
    rewrite <- view_get. apply V.
  - intros a' k. rewrite gs_get, GO. destruct (a' =? a); [apply SS|]. rewrite <- gs_get. apply G.
Qed.

(* nothing a getter reads changes *)
Lemma R_same s D s1 :
  Rdata s D -> rest5 s1 = rest5 s ->
  (forall a', option_map (vobj (st_codes s)) (get_obj s1 a') = option_map (vobj (st_codes s)) (get_obj s a')) ->
  (forall a' k, get_state s1 a' k = get_state s a' k) -> Rdata s1 D.
Proof.
  intros (V & G & R & L & LS & P) E5 VV SS. unfold rest5 in E5. injection E5 as E1 E2 E3 E4 E5.
  unfold Rdata, get_logs. rewrite E2, E3, E4, E5. repeat split; auto.
  - intros a'. rewrite view_get, E1, VV, <- view_get. apply V.
  - intros a' k. rewrite SS. apply G.
Qed.

Lemma vobj_disarm c o : vobj c (disarm o) = vobj c o.
Proof. unfold disarm. destruct (o_armed o); reflexivity. Qed.

(* the idiom of every setter on the abstract side *)
Lemma R_setter s D a o e o' c' :
  Rdata s D -> get_obj s a = Some o -> o_deleted o' = false ->
  vobj (st_codes s) o' = vacct c' -> (forall k, obj_get_state o' k = c_store c' k) ->
  Rdata (mark_and_put (push_journal e s) a o') (set_acc D a c').
Proof.
  intros R GO D' VV SS. apply (R_upd s D _ a (disarm o') c'); auto.
  - rewrite rest5_mark. reflexivity.
  - intros a'. rewrite get_obj_mark, D', get_obj_push. reflexivity.
  - rewrite vobj_disarm. exact VV.
  - intros k. rewrite obj_get_state_disarm. apply SS.
Qed.

Lemma agon_acc D a Dg c : agon H D a = (Dg, c) -> ad_acc Dg a = Some c.
Proof.
  unfold agon. destruct (ad_acc D a) as [c0|] eqn:E; intros [= <- <-]; [exact E|].
  cbn. unfold upd. rewrite N.eqb_refl. reflexivity.
Qed.

Lemma vobj_fresh c : vobj c (fresh_obj H) = vacct (fresh_acct H).
Proof. unfold vobj, vacct, code_of, fresh_obj, fresh_acct, empty_code_hash. cbn. rewrite bytes_eqb_refl. reflexivity. Qed.

Lemma R_gon s D a sg o :
  Rdata s D -> get_or_new H s a = (sg, o) ->
  Rdata sg (fst (agon H D a)) /\ get_obj sg a = Some o /\ ctxof sg = ctxof s /\ st_codes sg = st_codes s.
Proof.
  intros R E. unfold get_or_new in E. destruct (get_obj s a) as [p|] eqn:GO.
  - injection E as <- <-. destruct (R_at _ _ _ _ R GO) as (c & EA & _). unfold agon. rewrite EA. auto.
  - rewrite create_object_eq, GO in E. injection E as <- <-. pose proof (R_none _ _ _ R GO) as EA.
    unfold agon. rewrite EA. cbn [fst]. split; [|split; [|split; reflexivity]].
    + apply (R_upd s D _ a (fresh_obj H)); auto.
      * intros a'. rewrite get_obj_put. reflexivity.
      * apply vobj_fresh.
    + rewrite get_obj_put, N.eqb_refl. reflexivity.
Qed.

(* ---- field-wise correspondences between a state object and an abstract account ---- *)
Lemma vw_nonce cd o c n : vacct c = vobj cd o -> vobj cd (o_with_nonce n o) = vacct (c_with_nonce n c).
Proof. unfold vobj, vacct, code_of. cbn. intros [= E1 E2 E3 E4 E5]. congruence. Qed.
Lemma vw_bal cd o c b : vacct c = vobj cd o -> vobj cd (o_with_bal b o) = vacct (c_with_bal b c).
Proof. unfold vobj, vacct, code_of. cbn. intros [= E1 E2 E3 E4 E5]. congruence. Qed.
Lemma vw_code cd o c h x : vacct c = vobj cd o -> vobj cd (o_with_code h (Some x) true o) = vacct (c_with_code h (Some x) c).
Proof. unfold vobj, vacct, code_of. cbn. intros [= E1 E2 E3 E4 E5]. congruence. Qed.
Lemma vw_slot cd o c k v : vacct c = vobj cd o -> vobj cd (o_with_slot k v o) = vacct (c_with_slot k v c).
Proof. unfold vobj, vacct, code_of. cbn. intros [= E1 E2 E3 E4 E5]. congruence. Qed.
Lemma vw_suicide cd o c : vacct c = vobj cd o ->
  vobj cd (o_with_bal 0%Z (o_with_suicided true o)) = vacct (c_with_bal 0%Z (c_with_suicided true c)).
Proof. unfold vobj, vacct, code_of. cbn. intros [= E1 E2 E3 E4 E5]. congruence. Qed.
Lemma vw_empty cd o c : vacct c = vobj cd o -> obj_empty H o = acct_empty H c.
Proof. unfold vobj, vacct, obj_empty, acct_empty, empty_code_hash. intros [= E1 E2 E3 E4 E5]. congruence. Qed.

(* the abstract step of every journalled mutator mirrors the concrete one *)
Lemma data_step o s s1 A :
  Rdata s (as_data A) -> ctxof s = (as_th A, as_bh A, as_ti A) -> mutator o = true -> step H s o = Ok s1 ->
  exists D1, astep H A o = Ok (with_data A D1) /\ Rdata s1 D1 /\ ctxof s1 = ctxof s.
Proof.
  intros RD CX MU ST. destruct o; try discriminate MU; cbn [step] in ST; injection ST as <-; cbn [astep].
  - (* CreateAccount *) unfold create_account. rewrite create_object_eq. destruct (get_obj s a) as [p|] eqn:GO.
    + destruct (R_at _ _ _ _ RD GO) as (c & E0 & VC & SC). rewrite E0. eexists. split; [reflexivity|]. split; [|rewrite ctx_mark; reflexivity].
      apply (R_upd s _ _ a (disarm (o_with_bal (o_bal p) (fresh_obj H)))); [exact RD| | | |].
      * rewrite rest5_mark. reflexivity.
      * intros a'. rewrite get_obj_mark. cbn [o_deleted o_with_bal fresh_obj o_with_armed o_with_nonce new_object].
        rewrite get_obj_put. destruct (a' =? a); reflexivity.
      * rewrite vobj_disarm. assert (EB : c_bal c = o_bal p) by (unfold vacct, vobj in VC; congruence). rewrite EB.
        apply (vw_bal _ (fresh_obj H) (fresh_acct H)). symmetry. apply vobj_fresh.
      * intros k. rewrite obj_get_state_disarm. reflexivity.
    + rewrite (R_none _ _ _ RD GO). eexists. split; [reflexivity|]. split; [|reflexivity].
      apply (R_upd s _ _ a (fresh_obj H)); [exact RD|reflexivity| | |reflexivity].
      * intros a'. rewrite get_obj_put. reflexivity.
      * apply vobj_fresh.
  - (* AddBalance *) unfold add_balance. destruct (get_or_new H s a) as [sg o] eqn:E.
    destruct (R_gon _ _ _ _ _ RD E) as (Rg & GO & CG & CD). destruct (agon H (as_data A) a) as [Dg c] eqn:EA. cbn [fst] in Rg.
    destruct (R_at _ _ _ _ Rg GO) as (c0 & E0 & VC & SC). rewrite (agon_acc _ _ _ _ EA) in E0. injection E0 as <-.
    pose proof (get_obj_not_deleted _ _ _ GO) as DL.
    destruct (Z.eqb v 0).
    + eexists. split; [reflexivity|]. destruct (obj_empty H o); [|auto].
      unfold obj_touch. destruct (o_armed o); (split; [|rewrite <- CG; reflexivity]).
      * apply (R_same sg); [exact Rg|reflexivity| |].
        -- intros a'. rewrite get_obj_put. cbn [o_deleted o_with_touched o_with_armed]. rewrite DL.
           destruct (a' =? a) eqn:EE; [apply N.eqb_eq in EE; subst; rewrite GO|]; reflexivity.
        -- intros a' k. rewrite !gs_get, get_obj_put. cbn [o_deleted o_with_touched o_with_armed]. rewrite DL.
           destruct (a' =? a) eqn:EE; [apply N.eqb_eq in EE; subst; rewrite GO|]; reflexivity.
      * apply (R_same sg); [exact Rg|reflexivity| |].
        -- intros a'. rewrite get_obj_put. cbn [o_deleted o_with_touched]. rewrite DL.
           destruct (a' =? a) eqn:EE; [apply N.eqb_eq in EE; subst; rewrite GO|]; reflexivity.
        -- intros a' k. rewrite !gs_get, get_obj_put. cbn [o_deleted o_with_touched]. rewrite DL.
           destruct (a' =? a) eqn:EE; [apply N.eqb_eq in EE; subst; rewrite GO|]; reflexivity.
    + eexists. split; [reflexivity|]. split; [|unfold obj_set_balance; rewrite ctx_mark; exact CG].
      assert (EB : c_bal c = o_bal o) by (unfold vacct, vobj in VC; congruence). rewrite EB.
      apply (R_setter sg Dg a o); [exact Rg|exact GO|exact DL|apply vw_bal; exact VC|intros k; symmetry; apply SC].
  - (* SubBalance *) unfold sub_balance. destruct (get_or_new H s a) as [sg o] eqn:E.
    destruct (R_gon _ _ _ _ _ RD E) as (Rg & GO & CG & CD). destruct (agon H (as_data A) a) as [Dg c] eqn:EA. cbn [fst] in Rg.
    destruct (R_at _ _ _ _ Rg GO) as (c0 & E0 & VC & SC). rewrite (agon_acc _ _ _ _ EA) in E0. injection E0 as <-.
    pose proof (get_obj_not_deleted _ _ _ GO) as DL.
    destruct (Z.eqb v 0); [eexists; split; [reflexivity|]; auto|].
    eexists. split; [reflexivity|]. split; [|unfold obj_set_balance; rewrite ctx_mark; exact CG].
    assert (EB : c_bal c = o_bal o) by (unfold vacct, vobj in VC; congruence). rewrite EB.
    apply (R_setter sg Dg a o); [exact Rg|exact GO|exact DL|apply vw_bal; exact VC|intros k; symmetry; apply SC].
  - (* SetBalance *) unfold set_balance. destruct (get_or_new H s a) as [sg o] eqn:E.
    destruct (R_gon _ _ _ _ _ RD E) as (Rg & GO & CG & CD). destruct (agon H (as_data A) a) as [Dg c] eqn:EA. cbn [fst] in Rg.
    destruct (R_at _ _ _ _ Rg GO) as (c0 & E0 & VC & SC). rewrite (agon_acc _ _ _ _ EA) in E0. injection E0 as <-.
    pose proof (get_obj_not_deleted _ _ _ GO) as DL.
    eexists. split; [reflexivity|]. split; [|unfold obj_set_balance; rewrite ctx_mark; exact CG].
    apply (R_setter sg Dg a o); [exact Rg|exact GO|exact DL|apply vw_bal; exact VC|intros k; symmetry; apply SC].
  - (* SetNonce *) unfold set_nonce. destruct (get_or_new H s a) as [sg o] eqn:E.
    destruct (R_gon _ _ _ _ _ RD E) as (Rg & GO & CG & CD). destruct (agon H (as_data A) a) as [Dg c] eqn:EA. cbn [fst] in Rg.
    destruct (R_at _ _ _ _ Rg GO) as (c0 & E0 & VC & SC). rewrite (agon_acc _ _ _ _ EA) in E0. injection E0 as <-.
    pose proof (get_obj_not_deleted _ _ _ GO) as DL.
    eexists. split; [reflexivity|]. split; [|rewrite ctx_mark; exact CG].
    apply (R_setter sg Dg a o); [exact Rg|exact GO|exact DL|apply vw_nonce; exact VC|intros k; symmetry; apply SC].
  - (* SetCode *) unfold set_code. destruct (get_or_new H s a) as [sg o] eqn:E.
    destruct (R_gon _ _ _ _ _ RD E) as (Rg & GO & CG & CD). destruct (agon H (as_data A) a) as [Dg c0] eqn:EA. cbn [fst] in Rg.
    destruct (R_at _ _ _ _ Rg GO) as (c1 & E0 & VC & SC). rewrite (agon_acc _ _ _ _ EA) in E0. injection E0 as <-.
    pose proof (get_obj_not_deleted _ _ _ GO) as DL.
    eexists. split; [reflexivity|]. split; [|rewrite ctx_mark; exact CG].
    apply (R_setter sg Dg a o); [exact Rg|exact GO|exact DL|apply vw_code; exact VC|intros k; symmetry; apply SC].
  - (* SetState *) unfold set_state. destruct (get_or_new H s a) as [sg o] eqn:E.
    destruct (R_gon _ _ _ _ _ RD E) as (Rg & GO & CG & CD). destruct (agon H (as_data A) a) as [Dg c] eqn:EA. cbn [fst] in Rg.
    destruct (R_at _ _ _ _ Rg GO) as (c0 & E0 & VC & SC). rewrite (agon_acc _ _ _ _ EA) in E0. injection E0 as <-.
    pose proof (get_obj_not_deleted _ _ _ GO) as DL.
    eexists. split; [reflexivity|]. split; [|rewrite ctx_mark; exact CG].
    apply (R_setter sg Dg a o); [exact Rg|exact GO|exact DL|apply vw_slot; exact VC|].
    intros k'. rewrite obj_get_state_slot. cbn [c_store c_with_slot]. unfold upd. destruct (k' =? k); [reflexivity|symmetry; apply SC].
  - (* Suicide *) unfold suicide. destruct (get_obj s a) as [o|] eqn:GO; cbn [fst].
    + destruct (R_at _ _ _ _ RD GO) as (c & E0 & VC & SC). rewrite E0. pose proof (get_obj_not_deleted _ _ _ GO) as DL.
      eexists. split; [reflexivity|]. split; [|rewrite ctx_mark; reflexivity].
      apply (R_setter s _ a o); [exact RD|exact GO|exact DL|apply vw_suicide; exact VC|intros k; symmetry; apply SC].
    + rewrite (R_none _ _ _ RD GO). eexists. split; [reflexivity|]. auto.
  - (* AddLog *) unfold ctxof in CX. injection CX as C1 C2 C3. eexists. split; [reflexivity|]. split; [|reflexivity].
    destruct RD as (V & G & R & L & LS & P).
    unfold Rdata, add_log, get_logs, a_view, a_store. cbn [st_refund st_logs st_logsize st_preimages with_logs push_journal with_journal ad_acc ad_refund ad_logs ad_logsize ad_pre].
    repeat split; auto.
    + intros th'. rewrite aget_aset. unfold upd. rewrite <- C1, <- C2, <- C3, <- LS. destruct (th' =? st_thash s) eqn:EE; [|apply L].
      apply N.eqb_eq in EE. subst th'. rewrite <- (L (st_thash s)). unfold get_logs. reflexivity.
    + rewrite LS. reflexivity.
  - (* AddRefund *) eexists. split; [reflexivity|]. split; [|reflexivity]. destruct RD as (V & G & R & L & LS & P).
    unfold Rdata, add_refund, get_logs, a_view, a_store. cbn. repeat split; auto. rewrite R. reflexivity.
  - (* AddPreimage *) destruct RD as (V & G & R & L & LS & P). unfold add_preimage. rewrite <- (P h).
    destruct (aget h (st_preimages s)) eqn:EP.
    + eexists. split; [reflexivity|]. split; [|reflexivity]. repeat split; auto.
    + eexists. split; [reflexivity|]. split; [|reflexivity].
      unfold Rdata, get_logs, a_view, a_store. cbn. repeat split; auto.
      intros h'. rewrite aget_aset. unfold upd. destruct (h' =? h); [reflexivity|apply P].
Qed.

(* ---- the full simulation relation ---- *)
Definition lsz (s : state) : Prop := st_logsize s < two64.

(* a live snapshot: same id on both sides; the abstract copy is what the state read like when the
   snapshot was taken (s0), and rewinding the journal to its index gives back something no getter
   tells from s0 (the invariant T of StateRevertProof) *)
Definition Relem (s : state) (r : N * N) (sn : N * adata) : Prop :=
  fst r = fst sn /\ exists s0, Rdata s0 (snd sn) /\ lsz s0 /\ T H (fst r) (snd r) s0 s.

Definition Rsim (s : state) (A : astate) : Prop :=
  Rdata s (as_data A) /\ ctxof s = (as_th A, as_bh A, as_ti A) /\ st_nextrev s = as_next A /\
  inv s /\ rok s /\ lsz s /\ Forall2 (Relem s) (st_revs s) (as_snaps A).

Lemma undo_ctx_lsz e s s' : undo e s = Ok s' -> ctxof s' = ctxof s /\ (lsz s -> lsz s').
Proof.
  assert (M : two64 <> 0) by (unfold two64; lia).
  intros U. destruct e; cbn [undo] in U; cbv zeta in U;
  repeat match type of U with
         | context [match ?x with _ => _ end] => destruct x eqn:?; try discriminate
         end; injection U as <-; rewrite ?ctx_mark; (split; [reflexivity|]); unfold lsz;
  try (intros L; match goal with |- context [mark_and_put ?s ?a ?o] =>
         pose proof (rest5_mark s a o) as R5; unfold rest5 in R5; injection R5 as _ _ _ R5 _; rewrite R5 end; exact L);
  try (intros L; exact L); try (intros _; cbn; apply N.mod_lt; exact M).
Qed.

Lemma undo_n_ctx_lsz n : forall s s', undo_n n s = Ok s' -> ctxof s' = ctxof s /\ (lsz s -> lsz s').
Proof.
  induction n as [|n IH]; intros s s' U; cbn [undo_n] in U; [injection U as <-; auto|].
  destruct (st_journal s) as [|e j]; [discriminate|].
  destruct (undo e (with_journal j s)) as [s1|] eqn:U1; [|discriminate]. cbn [rbind] in U.
  destruct (undo_ctx_lsz _ _ _ U1) as [C1 L1]. destruct (IH _ _ U) as [C2 L2].
  split; [rewrite C2, C1; reflexivity|auto].
Qed.

Lemma Rdata_sim s1 s0 D : sim H s1 s0 -> lsz s1 -> lsz s0 -> Rdata s0 D -> Rdata s1 D.
Proof.
  intros S L1 L0 (V & G & R & L & LS & P). pose proof (sim_obs H _ _ S) as (OV & OG & _ & _ & OR & OL & OP).
  destruct S as (_ & _ & _ & _ & _ & F & _). unfold lsz in *. rewrite !N.mod_small in F by assumption.
  unfold get_refund in OR. repeat split; try congruence.
  all: try (intros a; rewrite OV; apply V). all: try (intros a k; rewrite OG; apply G).
  all: try (intros th; rewrite OL; apply L). all: try (intros h; rewrite OP; apply P).
Qed.

Lemma astep_lsz A o A1 : mutator o = true -> astep H A o = Ok A1 ->
  ad_logsize (as_data A) < two64 -> ad_logsize (as_data A1) < two64.
Proof.
  assert (M : two64 <> 0) by (unfold two64; lia).
  intros MU ST L. destruct o; try discriminate MU; cbn [astep] in ST;
  repeat match type of ST with
         | context [match ?x with _ => _ end] => destruct x eqn:?; try discriminate
         | context [let '(_, _) := ?x in _] => destruct x eqn:?
         end; injection ST as <-; cbn; try exact L; try (apply N.mod_lt; exact M).
  all: unfold agon in *; repeat match goal with
         | E : context [match ?x with _ => _ end] |- _ => destruct x eqn:?
         end; try match goal with E : (_, _) = (_, _) |- _ => injection E as <- <- end; cbn; exact L.
Qed.

(* snapshots of an aligned pair of lists *)
Lemma afind_aligned (P : N * N -> N * adata -> Prop) :
  (forall r sn, P r sn -> fst r = fst sn) ->
  forall l1 l2 idx id j i0, Forall2 P l1 l2 -> rsorted l1 -> nth_error l1 idx = Some (id, j) ->
  exists D, afind id l2 i0 = Some ((i0 + idx)%nat, D) /\ nth_error l2 idx = Some (id, D).
Proof.
  intros PF. induction l1 as [|[id1 j1] t1 IH]; intros l2 idx id j i0 F RS NT; [destruct idx; discriminate|].
  inversion F as [|r sn t1' t2 Pr Ft]; subst. destruct sn as [id2 D2]. pose proof (PF _ _ Pr) as E. cbn [fst] in E. subst id2.
  destruct RS as [FA RS]. destruct idx as [|idx]; cbn [nth_error afind] in *.
  - injection NT as -> ->. rewrite N.eqb_refl. exists D2. rewrite Nat.add_0_r. auto.
  - assert (NE : id1 =? id = false).
    { rewrite Forall_forall in FA. specialize (FA _ (nth_error_In _ _ NT)). cbn [fst] in FA. lia. }
    rewrite NE. destruct (IH t2 idx id j (S i0) Ft RS NT) as (D & AF & NN). exists D.
    rewrite Nat.add_succ_r. auto.
Qed.

Lemma Forall2_firstn {A B} (P : A -> B -> Prop) k : forall l1 l2, Forall2 P l1 l2 -> Forall2 P (firstn k l1) (firstn k l2).
Proof. induction k as [|k IH]; intros l1 l2 F; cbn; [constructor|]. inversion F; subst; constructor; auto. Qed.

Lemma Forall2_impl' {A B} (P Q : A -> B -> Prop) : (forall a b, P a b -> Q a b) ->
  forall l1 l2, Forall2 P l1 l2 -> Forall2 Q l1 l2.
Proof. intros PQ l1 l2 F. induction F; constructor; auto. Qed.

Lemma mkRsim s A : Rdata s (as_data A) -> ctxof s = (as_th A, as_bh A, as_ti A) -> st_nextrev s = as_next A ->
  inv s -> rok s -> lsz s -> Forall2 (Relem s) (st_revs s) (as_snaps A) -> Rsim s A.
Proof. intros R C N I K L F. split; [exact R|]. split; [exact C|]. split; [exact N|]. split; [exact I|]. split; [exact K|]. split; assumption. Qed.

Lemma Relem_step o s s1 : is_fin o = false -> step H s o = Ok s1 ->
  forall r sn, Relem s r sn -> Relem s1 r sn.
Proof.
  intros NF ST r sn (E & s0 & RD & L0 & TT). split; [exact E|]. exists s0. split; [exact RD|]. split; [exact L0|].
  eapply step_T; eauto.
Qed.

(* the simulation step *)
Lemma sim_step o s s1 A : Rsim s A -> is_fin o = false -> step H s o = Ok s1 ->
  exists A1, astep H A o = Ok A1 /\ Rsim s1 A1.
Proof.
  intros (RD & CX & NX & I & RK & LZ & FA) NF ST.
  destruct (invariants_step H s s1 o I RK NF ST) as [I1 RK1].
  pose proof (Forall2_impl' _ _ (Relem_step o s s1 NF ST) _ _ FA) as FA1.
  destruct (mutator o) eqn:MU.
  - destruct (data_step o s s1 A RD CX MU ST) as (D1 & AS & RD1 & CX1).
    destruct (step_restores H o s s1 I MU ST) as (k & RV & NV & _).
    exists (with_data A D1). split; [exact AS|]. apply mkRsim; auto; cbn [as_data as_th as_bh as_ti as_next as_snaps with_data].
    + rewrite CX1. exact CX.
    + congruence.
    + unfold lsz. destruct RD1 as (_ & _ & _ & _ & LS1 & _). rewrite LS1.
      apply (astep_lsz A o (with_data A D1) MU AS). destruct RD as (_ & _ & _ & _ & LS & _). rewrite <- LS. exact LZ.
    + rewrite RV. exact FA1.
  - destruct o; try discriminate MU; try discriminate NF; cbn [step] in ST; cbn [astep].
    + (* Prepare *) injection ST as <-. eexists. split; [reflexivity|]. apply mkRsim; auto.
    + (* Snapshot *) injection ST as <-. eexists. split; [reflexivity|].
      apply mkRsim; auto; cbn [as_data as_th as_bh as_ti as_next as_snaps snapshot fst st_nextrev st_revs with_revs].
      * congruence.
      * apply Forall2_app; [exact FA1|]. constructor; [|constructor]. split; [cbn; exact NX|]. exists s. cbn [fst snd].
        split; [exact RD|]. split; [exact LZ|].
        destruct RK as [RS B].
        assert (S1 : sim H (with_revs (st_revs s ++ [(st_nextrev s, lenN (st_journal s))]) (st_nextrev s + 1) s) s) by (apply sim_eqv; auto).
        apply mkT; cbn [st_revs st_nextrev st_journal with_revs]; auto; try apply I1; try apply RK1.
        -- lia.
        -- intros n' IN. apply in_app_or in IN. destruct IN as [IN|[EQ|[]]].
           ++ rewrite Forall_forall in B. specialize (B _ IN). cbn [fst] in B. lia.
           ++ injection EQ as <-. split; [reflexivity|].
              cbn [st_journal with_revs].
              replace (N.to_nat (lenN (st_journal s) - lenN (st_journal s))) with 0%nat by lia. cbn [undo_n]. eauto.
    + (* RevertToSnapshot *)
      pose proof ST as ST0. unfold revert_to in ST. destruct RK as [RS B].
      destruct (nth_error (st_revs s) (rev_search id (st_revs s))) as [[id' j']|] eqn:NT; [|discriminate].
      destruct (id' =? id) eqn:EI; [|discriminate]. apply N.eqb_eq in EI. subst id'. cbn [negb] in ST.
      destruct (lenN (st_journal s) <? j') eqn:LJ; [discriminate|].
      destruct (undo_n (N.to_nat (lenN (st_journal s) - j')) s) as [sx|] eqn:UX; [|discriminate].
      cbn [rbind] in ST. injection ST as <-.
      destruct (afind_aligned (Relem s) (fun r sn P => proj1 P) _ _ _ _ _ 0%nat FA RS NT) as (D & AF & NA).
      rewrite AF. cbn [Nat.add]. eexists. split; [reflexivity|].
      destruct (undo_n_meta _ _ _ UX) as (RX & NXX & _). destruct (undo_n_ctx_lsz _ _ _ UX) as [CXX LX].
      rewrite RX, NXX in *.
      (* the element that is being restored *)
      assert (EL : Relem s (id, j') (id, D)).
      { clear - FA NT NA. revert NT NA. generalize (rev_search id (st_revs s)). revert FA. generalize (as_snaps A).
        induction (st_revs s) as [|r t IH]; intros l2 F [|k] N1 N2; cbn in *; try discriminate; inversion F; subst.
        - injection N1 as <-. cbn in N2. injection N2 as <-. assumption.
        - cbn in N2. eapply IH; eauto. }
      destruct EL as (_ & s0 & RD0 & L0 & (_ & _ & _ & TG)). cbn [fst snd] in TG.
      destruct (TG j' (nth_error_In _ _ NT)) as (_ & s' & U' & S').
      rewrite UX in U'. injection U' as <-.
      assert (LSX : lsz sx) by (apply LX; exact LZ).
      assert (IX : inv sx) by (destruct S' as (_ & _ & _ & _ & _ & _ & _ & _ & IX & _); exact IX).
      apply mkRsim; cbn [as_data as_th as_bh as_ti as_next as_snaps]; [| | |exact I1|exact RK1|exact LSX|].
      * apply (Rdata_sim _ s0); [|exact LSX|exact L0|exact RD0].
        eapply sim_trans; [|exact S']. apply sim_eqv; auto.
      * change (ctxof sx = (as_th A, as_bh A, as_ti A)). rewrite CXX. exact CX.
      * cbn [st_nextrev with_revs]. exact NX.
      * cbn [st_revs with_revs]. apply Forall2_firstn. exact FA1.
Qed.

Theorem abs_simulation : forall ops s A s',
  Rsim s A -> forallb (fun o => negb (is_fin o)) ops = true -> run H ops s = Ok s' ->
  exists A', arun H ops A = Ok A' /\ Rsim s' A'.
Proof.
  induction ops as [|o ops IH]; intros s A s' R NF RUN; cbn [run fold_res arun] in *.
  - injection RUN as <-. eauto.
  - cbn [forallb] in NF. apply andb_true_iff in NF. destruct NF as [NF1 NF2].
    destruct (step H s o) as [s1|] eqn:ST; [|discriminate]. cbn [rbind] in RUN.
    assert (NF1' : is_fin o = false) by (destruct (is_fin o); [discriminate|reflexivity]).
    destruct (sim_step o s s1 A R NF1' ST) as (A1 & AS & R1). rewrite AS. cbn [rbind].
    apply (IH s1 A1 s'); auto.
Qed.

(* progress: the journalled model panics only where the abstract system does (a revert to an id
   that is not live) *)
Lemma afind_in id : forall l i k D, afind id l i = Some (k, D) -> In id (map fst l).
Proof.
  induction l as [|[id' D'] t IH]; intros i k D E; cbn [afind] in E; [discriminate|].
  destruct (id' =? id) eqn:EQ; [apply N.eqb_eq in EQ; left; exact EQ|right; eapply IH; eauto].
Qed.

Lemma sim_progress o s A A1 : Rsim s A -> is_fin o = false -> astep H A o = Ok A1 -> exists s1, step H s o = Ok s1.
Proof.
  intros (RD & CX & NX & I & [RS B] & LZ & FA) NF AS.
  destruct o; try discriminate NF; cbn [step]; eauto.
  cbn [astep] in AS. destruct (afind id (as_snaps A) 0) as [[k D]|] eqn:AF; [|discriminate].
  assert (IN : In id (map fst (st_revs s))).
  { replace (map fst (st_revs s)) with (map fst (as_snaps A)); [eapply afind_in; eauto|].
    clear - FA. induction FA as [|r sn l1 l2 (E & _) F IH]; cbn; [reflexivity|]. rewrite E, IH. reflexivity. }
  apply in_map_iff in IN. destruct IN as ([id' n'] & E & IN). cbn [fst] in E. subst id'.
  (* the aligned element carries the rewind *)
  assert (EL : exists sn, Relem s (id, n') sn).
  { clear - FA IN. induction FA as [|r sn l1 l2 P F IH]; [contradiction|]. destruct IN as [<-|IN]; eauto. }
  destruct EL as (sn & _ & s0 & _ & _ & (_ & _ & _ & TG)). cbn [fst snd] in TG.
  destruct (TG n' IN) as (_ & s' & U' & _).
  unfold revert_to. rewrite (rev_search_found _ _ _ RS IN), N.eqb_refl. cbn [negb].
  rewrite Forall_forall in B. specialize (B _ IN). cbn [snd] in B.
  replace (lenN (st_journal s) <? n') with false by lia. rewrite U'. cbn [rbind]. eauto.
Qed.

(* a StateDB without live snapshots denotes its abstract state *)
Lemma Rsim_init s : inv s -> st_revs s = [] -> lsz s -> Rsim s (abs_state H s).
Proof.
  intros I RV L. apply mkRsim; cbn [abs_state as_data as_th as_bh as_ti as_next as_snaps]; auto.
  - unfold Rdata, abs_data, a_view, a_store. cbn [ad_acc ad_refund ad_logs ad_logsize ad_pre]. repeat split; auto.
    + intros a. unfold account_view. destruct (get_obj s a); reflexivity.
    + intros a k. rewrite gs_get. destruct (get_obj s a); reflexivity.
  - split; rewrite RV; [exact Logic.I|constructor].
  - rewrite RV. constructor.
Qed.

(* what the relation says about the getters *)
Lemma Rsim_obs s A : Rsim s A ->
  (forall a, account_view H s a = a_view (as_data A) a) /\ (forall a k, get_state s a k = a_store (as_data A) a k) /\
  (forall a, exist s a = a_exist (as_data A) a) /\ (forall a, is_empty H s a = a_empty H (as_data A) a) /\
  get_refund s = ad_refund (as_data A) /\ (forall th, get_logs s th = ad_logs (as_data A) th) /\
  (forall h, aget h (st_preimages s) = ad_pre (as_data A) h) /\
  map fst (st_revs s) = map fst (as_snaps A).
Proof.
  intros ((V & G & R & L & LS & P) & _ & _ & _ & _ & _ & FA). repeat split; auto.
  - intros a. specialize (V a). rewrite view_get in V. unfold exist, a_exist, a_view in *.
    destruct (get_obj s a), (ad_acc (as_data A) a); cbn in V; try discriminate; reflexivity.
  - intros a. pose proof (V a) as Va. rewrite view_get in Va. unfold is_empty, a_empty, a_view in *.
    destruct (get_obj s a) as [o|] eqn:GO, (ad_acc (as_data A) a) as [c|]; cbn in Va; try discriminate; [|reflexivity].
    injection Va as E1 E2 E3 _ _. unfold obj_empty, acct_empty, empty_code_hash. rewrite E1, E2, E3. reflexivity.
  - induction FA as [|r sn l1 l2 (E & _) F IH]; cbn; [reflexivity|]. rewrite E, IH. reflexivity.
Qed.

(* abs_simulation, closed form: from any StateDB without live snapshots *)
Theorem abs_simulation_obs : forall s ops s',
  inv s -> st_revs s = [] -> st_logsize s < two64 ->
  forallb (fun o => negb (is_fin o)) ops = true -> run H ops s = Ok s' ->
  exists A', arun H ops (abs_state H s) = Ok A' /\
    (forall a, account_view H s' a = a_view (as_data A') a) /\ (forall a k, get_state s' a k = a_store (as_data A') a k) /\
    (forall a, exist s' a = a_exist (as_data A') a) /\ (forall a, is_empty H s' a = a_empty H (as_data A') a) /\
    get_refund s' = ad_refund (as_data A') /\ (forall th, get_logs s' th = ad_logs (as_data A') th) /\
    (forall h, aget h (st_preimages s') = ad_pre (as_data A') h) /\
    map fst (st_revs s') = map fst (as_snaps A') /\
    (forall o A1, is_fin o = false -> astep H A' o = Ok A1 -> exists s1, step H s' o = Ok s1).
Proof.
  intros s ops s' I RV L NF RUN.
  destruct (abs_simulation ops s (abs_state H s) s' (Rsim_init s I RV L) NF RUN) as (A' & AR & R').
  exists A'. split; [exact AR|]. destruct (Rsim_obs _ _ R') as (O1 & O2 & O3 & O4 & O5 & O6 & O7 & O8).
  repeat split; auto. intros o A1 NFo AS. eapply sim_progress; eauto.
Qed.
End AbsSim.
