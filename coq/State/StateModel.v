(* State/StateModel.v — executable, code-shaped model of core/state.StateDB
   (statedb.go, state_object.go, journal.go, database.go) at content level.
   Definitions only (extracted by ExtractState.v); proofs are in StateProofs.v.

   Conventions
   * addresses, storage slots / values and tx hashes are N; balances are Z
     (big.Int, may go negative: StateDB never checks); nonce / refund / logSize
     are uint64 with explicit wrap-around.
   * the account trie and every storage trie are finite maps in canonical sorted
     form (StateSpec.aset/adel); `Account.Root` IS the storage content (root
     equality = content equality is C10's theorem).  The node database is the
     code store `st_codes` (codehash -> code, written only by Commit).
   * Go map iteration (stateObjectsDirty in Finalise/Copy, stateObjects in
     Commit, dirtyStorage in updateTrie) takes the iteration order as an explicit
     list argument; theorems quantify over its permutations.
   * read-through caching is not state: getStateObject inserting a freshly loaded
     *unmodified* object into stateObjects, stateObject.GetState filling
     cachedStorage on a read, stateObject.Code memoising the loaded code and
     getTrie opening the storage trie lazily are represented by "absent =
     load from the trie on demand".  Every write materialises the object.
   * the hash function is a Section variable H (crypto.Keccak256): the model and
     all theorems are generic in it; the driver instantiates it with Lib.Keccak. *)
From AQ Require Import Lib.Bytes State.StateSpec.
Import ListNotations.
Local Open Scope N_scope.

Definition smap := list (N * N).

(* state_object.go: type Account (the RLP leaf of the account trie) *)
Record acct : Type := mkAcct {
  a_nonce : N; a_bal : Z; a_root : smap; a_ch : bytes }.

(* state_object.go: type stateObject.  o_nonce..o_ch = data; o_root doubles as
   the opened storage trie `trie` (equal to data.Root at every operation
   boundary: updateTrie is only called from updateRoot / CommitTrie which set
   Root right after). o_armed = (onDirty != nil). *)
Record obj : Type := mkObj {
  o_nonce : N; o_bal : Z; o_root : smap; o_ch : bytes;
  o_code : option bytes;
  o_cached : smap;        (* cachedStorage, written entries only *)
  o_dirtyst : smap;       (* dirtyStorage *)
  o_dirtycode : bool; o_suicided : bool; o_touched : bool; o_deleted : bool;
  o_armed : bool }.

Record logrec : Type := mkLog {
  lg_data : N; lg_thash : N; lg_bhash : N; lg_txindex : N; lg_index : N }.

(* journal.go: the eleven entry kinds *)
Inductive jentry : Type :=
| JCreate (a : N)
| JReset (a : N) (prev : obj)
| JSuicide (a : N) (prev : bool) (prevbal : Z)
| JBalance (a : N) (prev : Z)
| JNonce (a : N) (prev : N)
| JStorage (a : N) (k : N) (prev : N)
| JCode (a : N) (prevcode : option bytes) (prevhash : bytes)
| JRefund (prev : N)
| JLog (txhash : N)
| JPreimage (h : N)
| JTouch (a : N) (prev : bool) (prevDirty : bool).

(* statedb.go: type StateDB.  st_journal is newest-first; st_revs is in Go order
   (oldest first) as (id, journalIndex). *)
Record state : Type := mkState {
  st_trie : list (N * acct);
  st_codes : list (bytes * bytes);
  st_live : list (N * obj);          (* stateObjects *)
  st_dirty : list N;                 (* stateObjectsDirty *)
  st_refund : N;
  st_thash : N; st_bhash : N; st_txindex : N;
  st_logs : list (N * list logrec);
  st_logsize : N;
  st_preimages : list (N * bytes);
  st_journal : list jentry;
  st_revs : list (N * N);
  st_nextrev : N }.

(* ---- record updates (boilerplate) ---- *)
Definition with_trie t s := mkState t (st_codes s) (st_live s) (st_dirty s) (st_refund s) (st_thash s) (st_bhash s) (st_txindex s) (st_logs s) (st_logsize s) (st_preimages s) (st_journal s) (st_revs s) (st_nextrev s).
Definition with_codes c s := mkState (st_trie s) c (st_live s) (st_dirty s) (st_refund s) (st_thash s) (st_bhash s) (st_txindex s) (st_logs s) (st_logsize s) (st_preimages s) (st_journal s) (st_revs s) (st_nextrev s).
Definition with_live l s := mkState (st_trie s) (st_codes s) l (st_dirty s) (st_refund s) (st_thash s) (st_bhash s) (st_txindex s) (st_logs s) (st_logsize s) (st_preimages s) (st_journal s) (st_revs s) (st_nextrev s).
Definition with_dirty d s := mkState (st_trie s) (st_codes s) (st_live s) d (st_refund s) (st_thash s) (st_bhash s) (st_txindex s) (st_logs s) (st_logsize s) (st_preimages s) (st_journal s) (st_revs s) (st_nextrev s).
Definition with_refund r s := mkState (st_trie s) (st_codes s) (st_live s) (st_dirty s) r (st_thash s) (st_bhash s) (st_txindex s) (st_logs s) (st_logsize s) (st_preimages s) (st_journal s) (st_revs s) (st_nextrev s).
Definition with_tx th bh ti s := mkState (st_trie s) (st_codes s) (st_live s) (st_dirty s) (st_refund s) th bh ti (st_logs s) (st_logsize s) (st_preimages s) (st_journal s) (st_revs s) (st_nextrev s).
Definition with_logs l n s := mkState (st_trie s) (st_codes s) (st_live s) (st_dirty s) (st_refund s) (st_thash s) (st_bhash s) (st_txindex s) l n (st_preimages s) (st_journal s) (st_revs s) (st_nextrev s).
Definition with_preimages p s := mkState (st_trie s) (st_codes s) (st_live s) (st_dirty s) (st_refund s) (st_thash s) (st_bhash s) (st_txindex s) (st_logs s) (st_logsize s) p (st_journal s) (st_revs s) (st_nextrev s).
Definition with_journal j s := mkState (st_trie s) (st_codes s) (st_live s) (st_dirty s) (st_refund s) (st_thash s) (st_bhash s) (st_txindex s) (st_logs s) (st_logsize s) (st_preimages s) j (st_revs s) (st_nextrev s).
Definition with_revs r n s := mkState (st_trie s) (st_codes s) (st_live s) (st_dirty s) (st_refund s) (st_thash s) (st_bhash s) (st_txindex s) (st_logs s) (st_logsize s) (st_preimages s) (st_journal s) r n.

Definition o_with_nonce n o := mkObj n (o_bal o) (o_root o) (o_ch o) (o_code o) (o_cached o) (o_dirtyst o) (o_dirtycode o) (o_suicided o) (o_touched o) (o_deleted o) (o_armed o).
Definition o_with_bal b o := mkObj (o_nonce o) b (o_root o) (o_ch o) (o_code o) (o_cached o) (o_dirtyst o) (o_dirtycode o) (o_suicided o) (o_touched o) (o_deleted o) (o_armed o).
Definition o_with_root r d o := mkObj (o_nonce o) (o_bal o) r (o_ch o) (o_code o) (o_cached o) d (o_dirtycode o) (o_suicided o) (o_touched o) (o_deleted o) (o_armed o).
Definition o_with_code ch c dc o := mkObj (o_nonce o) (o_bal o) (o_root o) ch c (o_cached o) (o_dirtyst o) dc (o_suicided o) (o_touched o) (o_deleted o) (o_armed o).
Definition o_with_slot k v o := mkObj (o_nonce o) (o_bal o) (o_root o) (o_ch o) (o_code o) (aset k v (o_cached o)) (aset k v (o_dirtyst o)) (o_dirtycode o) (o_suicided o) (o_touched o) (o_deleted o) (o_armed o).
Definition o_with_suicided b o := mkObj (o_nonce o) (o_bal o) (o_root o) (o_ch o) (o_code o) (o_cached o) (o_dirtyst o) (o_dirtycode o) b (o_touched o) (o_deleted o) (o_armed o).
Definition o_with_touched b o := mkObj (o_nonce o) (o_bal o) (o_root o) (o_ch o) (o_code o) (o_cached o) (o_dirtyst o) (o_dirtycode o) (o_suicided o) b (o_deleted o) (o_armed o).
Definition o_with_deleted b o := mkObj (o_nonce o) (o_bal o) (o_root o) (o_ch o) (o_code o) (o_cached o) (o_dirtyst o) (o_dirtycode o) (o_suicided o) (o_touched o) b (o_armed o).
Definition o_with_armed b o := mkObj (o_nonce o) (o_bal o) (o_root o) (o_ch o) (o_code o) (o_cached o) (o_dirtyst o) (o_dirtycode o) (o_suicided o) (o_touched o) (o_deleted o) b.
Definition o_with_dirtycode b o := mkObj (o_nonce o) (o_bal o) (o_root o) (o_ch o) (o_code o) (o_cached o) (o_dirtyst o) b (o_suicided o) (o_touched o) (o_deleted o) (o_armed o).

Section Model.
Variable H : bytes -> bytes.    (* crypto.Keccak256 *)

(* state_object.go: emptyCodeHash *)
Definition empty_code_hash : bytes := H [].

(* statedb.go: New *)
Definition new_state (trie : list (N * acct)) (codes : list (bytes * bytes)) : state :=
  mkState trie codes [] [] 0 0 0 0 [] 0 [] [] [] 0.

(* state_object.go: newObject *)
Definition new_object (nonce : N) (bal : Z) (root : smap) (ch : bytes) (armed : bool) : obj :=
  mkObj nonce bal root ch None [] [] false false false false armed.

(* state_object.go: stateObject.empty *)
Definition obj_empty (o : obj) : bool :=
  (o_nonce o =? 0) && (Z.eqb (o_bal o) 0) && bytes_eqb (o_ch o) empty_code_hash.

(* statedb.go: getStateObject, database half: TryGet + rlp decode + newObject
   with onDirty = MarkStateObjectDirty *)
Definition load_obj (s : state) (a : N) : option obj :=
  match aget a (st_trie s) with
  | Some ac => Some (new_object (a_nonce ac) (a_bal ac) (a_root ac) (a_ch ac) true)
  | None => None
  end.

(* statedb.go: getStateObject *)
Definition get_obj (s : state) (a : N) : option obj :=
  match aget a (st_live s) with
  | Some o => if o_deleted o then None else Some o
  | None => load_obj s a
  end.

(* statedb.go: setStateObject *)
Definition put_obj (s : state) (a : N) (o : obj) : state := with_live (aset a o (st_live s)) s.

Definition push_journal (e : jentry) (s : state) : state := with_journal (e :: st_journal s) s.

(* the idiom `if self.onDirty != nil { self.onDirty(addr); self.onDirty = nil }`
   followed by storing the (pointer-mutated) object *)
Definition mark_and_put (s : state) (a : N) (o : obj) : state :=
  if o_armed o
  then put_obj (with_dirty (nadd a (st_dirty s)) s) a (o_with_armed false o)
  else put_obj s a o.

(* statedb.go: createObject *)
Definition create_object (s : state) (a : N) : state * obj * option obj :=
  let prev := get_obj s a in
  let newobj := new_object 0 0 [] empty_code_hash true in
  (* newobj.setNonce(0): marks the address dirty and consumes the callback *)
  let s1 := with_dirty (nadd a (st_dirty s)) s in
  let newobj := o_with_armed false (o_with_nonce 0 newobj) in
  let s2 := push_journal (match prev with None => JCreate a | Some p => JReset a p end) s1 in
  (put_obj s2 a newobj, newobj, prev).

(* statedb.go: GetOrNewStateObject *)
Definition get_or_new (s : state) (a : N) : state * obj :=
  match get_obj s a with
  | Some o => (s, o)
  | None => let '(s', o, _) := create_object s a in (s', o)
  end.

(* statedb.go: CreateAccount *)
Definition create_account (s : state) (a : N) : state :=
  let '(s', newobj, prev) := create_object s a in
  match prev with
  | Some p => mark_and_put s' a (o_with_bal (o_bal p) newobj)   (* new.setBalance(prev.data.Balance) *)
  | None => s'
  end.

(* state_object.go: touch *)
Definition obj_touch (s : state) (a : N) (o : obj) : state :=
  let s1 := push_journal (JTouch a (o_touched o) (negb (o_armed o))) s in
  if o_armed o
  then put_obj (with_dirty (nadd a (st_dirty s1)) s1) a (o_with_touched true (o_with_armed false o))
  else put_obj s1 a (o_with_touched true o).

(* state_object.go: SetBalance = journal + setBalance *)
Definition obj_set_balance (s : state) (a : N) (o : obj) (amount : Z) : state :=
  mark_and_put (push_journal (JBalance a (o_bal o)) s) a (o_with_bal amount o).

(* statedb.go: AddBalance / state_object.go: AddBalance *)
Definition add_balance (s : state) (a : N) (amount : Z) : state :=
  let '(s1, o) := get_or_new s a in
  if Z.eqb amount 0
  then (if obj_empty o then obj_touch s1 a o else s1)
  else obj_set_balance s1 a o (o_bal o + amount)%Z.

(* statedb.go: SubBalance / state_object.go: SubBalance *)
Definition sub_balance (s : state) (a : N) (amount : Z) : state :=
  let '(s1, o) := get_or_new s a in
  if Z.eqb amount 0 then s1 else obj_set_balance s1 a o (o_bal o - amount)%Z.

(* statedb.go: SetBalance *)
Definition set_balance (s : state) (a : N) (amount : Z) : state :=
  let '(s1, o) := get_or_new s a in obj_set_balance s1 a o amount.

(* statedb.go: SetNonce / state_object.go: SetNonce + setNonce *)
Definition set_nonce (s : state) (a : N) (n : N) : state :=
  let '(s1, o) := get_or_new s a in
  mark_and_put (push_journal (JNonce a (o_nonce o)) s1) a (o_with_nonce n o).

(* state_object.go: Code (without the memoisation) ; db.ContractCode = node db lookup *)
Definition obj_code (s : state) (o : obj) : option bytes :=
  match o_code o with
  | Some c => Some c
  | None => if bytes_eqb (o_ch o) empty_code_hash then None else bget (o_ch o) (st_codes s)
  end.

(* statedb.go: SetCode / state_object.go: SetCode + setCode *)
Definition set_code (s : state) (a : N) (code : bytes) : state :=
  let '(s1, o) := get_or_new s a in
  let s2 := push_journal (JCode a (obj_code s1 o) (o_ch o)) s1 in
  mark_and_put s2 a (o_with_code (H code) (Some code) true o).

(* state_object.go: GetState: cachedStorage first, then the storage trie *)
Definition obj_get_state (o : obj) (k : N) : N :=
  match aget k (o_cached o) with
  | Some v => v
  | None => match aget k (o_root o) with Some v => v | None => 0 end
  end.

(* statedb.go: SetState / state_object.go: SetState + setState *)
Definition set_state (s : state) (a : N) (k v : N) : state :=
  let '(s1, o) := get_or_new s a in
  mark_and_put (push_journal (JStorage a k (obj_get_state o k)) s1) a (o_with_slot k v o).

(* statedb.go: Suicide (markSuicided, then balance := 0) *)
Definition suicide (s : state) (a : N) : state * bool :=
  match get_obj s a with
  | None => (s, false)
  | Some o =>
    let s1 := push_journal (JSuicide a (o_suicided o) (o_bal o)) s in
    (mark_and_put s1 a (o_with_bal 0%Z (o_with_suicided true o)), true)
  end.

(* statedb.go: AddLog *)
Definition add_log (s : state) (data : N) : state :=
  let s1 := push_journal (JLog (st_thash s)) s in
  let l := mkLog data (st_thash s) (st_bhash s) (st_txindex s) (st_logsize s) in
  let old := match aget (st_thash s) (st_logs s) with Some x => x | None => [] end in
  with_logs (aset (st_thash s) (old ++ [l]) (st_logs s)) ((st_logsize s + 1) mod two64) s1.

(* statedb.go: AddPreimage *)
Definition add_preimage (s : state) (h : N) (pre : bytes) : state :=
  match aget h (st_preimages s) with
  | Some _ => s
  | None => with_preimages (aset h pre (st_preimages s)) (push_journal (JPreimage h) s)
  end.

(* statedb.go: AddRefund (uint64 addition wraps) *)
Definition add_refund (s : state) (gas : N) : state :=
  with_refund ((st_refund s + gas) mod two64) (push_journal (JRefund (st_refund s)) s).

(* statedb.go: Prepare *)
Definition prepare (s : state) (th bh ti : N) : state := with_tx th bh ti s.

(* statedb.go: Snapshot *)
Definition snapshot (s : state) : state * N :=
  (with_revs (st_revs s ++ [(st_nextrev s, lenN (st_journal s))]) (st_nextrev s + 1) s, st_nextrev s).

(* ---- journal.go: undo, one function per entry kind ---- *)
Definition undo (e : jentry) (s : state) : res state :=
  match e with
  | JCreate a => Ok (with_dirty (ndel a (st_dirty s)) (with_live (adel a (st_live s)) s))
  | JReset a prev => Ok (put_obj s a prev)
  | JSuicide a prev prevbal =>
    match get_obj s a with
    | Some o => Ok (mark_and_put s a (o_with_bal prevbal (o_with_suicided prev o)))
    | None => Ok s
    end
  | JTouch a prev prevDirty =>
    if negb prev && negb (a =? ripemd_addr) then
      match get_obj s a with
      | None => Panic                                   (* nil.touched = ... *)
      | Some o =>
        let s1 := put_obj s a (o_with_touched prev o) in
        Ok (if prevDirty then s1 else with_dirty (ndel a (st_dirty s1)) s1)
      end
    else Ok s
  | JBalance a prev =>
    match get_obj s a with None => Panic | Some o => Ok (mark_and_put s a (o_with_bal prev o)) end
  | JNonce a prev =>
    match get_obj s a with None => Panic | Some o => Ok (mark_and_put s a (o_with_nonce prev o)) end
  | JCode a prevcode prevhash =>
    match get_obj s a with None => Panic | Some o => Ok (mark_and_put s a (o_with_code prevhash prevcode true o)) end
  | JStorage a k prev =>
    match get_obj s a with None => Panic | Some o => Ok (mark_and_put s a (o_with_slot k prev o)) end
  | JRefund prev => Ok (with_refund prev s)
  | JLog th =>
    let logs := match aget th (st_logs s) with Some x => x | None => [] end in
    let size' := (st_logsize s + two64 - 1) mod two64 in          (* s.logSize-- *)
    match logs with
    | [] => Panic                                                   (* logs[:len(logs)-1] with len 0 *)
    | [_] => Ok (with_logs (adel th (st_logs s)) size' s)
    | _ => Ok (with_logs (aset th (removelast logs) (st_logs s)) size' s)
    end
  | JPreimage h => Ok (with_preimages (adel h (st_preimages s)) s)
  end.

(* the loop `for i := len(journal)-1; i >= snapshot; i-- { journal[i].undo(s) }`
   followed by journal = journal[:snapshot]; n = number of entries to undo *)
Fixpoint undo_n (n : nat) (s : state) : res state :=
  match n with
  | O => Ok s
  | S n' =>
    match st_journal s with
    | [] => Panic
    | e :: j => rbind (undo e (with_journal j s)) (undo_n n')
    end
  end.

(* sort.Search over validRevisions (ids are strictly increasing, so the binary
   search returns the first index whose id >= revid) *)
Fixpoint rev_search (revid : N) (l : list (N * N)) : nat :=
  match l with
  | [] => O
  | (id, _) :: t => if revid <=? id then O else S (rev_search revid t)
  end.

(* statedb.go: RevertToSnapshot *)
Definition revert_to (s : state) (revid : N) : res state :=
  let idx := rev_search revid (st_revs s) in
  match nth_error (st_revs s) idx with
  | None => Panic
  | Some (id, jidx) =>
    if negb (id =? revid) then Panic
    else if lenN (st_journal s) <? jidx then Panic   (* journal[:snapshot] beyond len *)
    else rbind (undo_n (N.to_nat (lenN (st_journal s) - jidx)) s)
               (fun s' => Ok (with_revs (firstn idx (st_revs s')) (st_nextrev s') s'))
  end.

(* statedb.go: clearJournalAndRefund *)
Definition clear_journal_and_refund (s : state) : state :=
  with_refund 0 (with_revs [] (st_nextrev s) (with_journal [] s)).

(* state_object.go: updateTrie; `order` = iteration order of dirtyStorage *)
Definition update_trie_with (order : smap) (root : smap) : smap :=
  fold_left (fun t kv => if snd kv =? 0 then adel (fst kv) t else aset (fst kv) (snd kv) t) order root.

(* state_object.go: updateRoot / CommitTrie (content level: the same) *)
Definition obj_update_root (o : obj) : obj := o_with_root (update_trie_with (o_dirtyst o) (o_root o)) [] o.

(* statedb.go: updateStateObject; rlp.EncodeToBytes fails on a negative big.Int -> panic *)
Definition update_state_object (s : state) (a : N) (o : obj) : res state :=
  if (o_bal o <? 0)%Z then Panic
  else Ok (with_trie (aset a (mkAcct (o_nonce o) (o_bal o) (o_root o) (o_ch o)) (st_trie s)) s).

(* statedb.go: deleteStateObject *)
Definition delete_state_object (s : state) (a : N) (o : obj) : state :=
  with_trie (adel a (st_trie s)) (put_obj s a (o_with_deleted true o)).

(* statedb.go: Finalise, loop body *)
Definition finalise_one (del_empty : bool) (s : state) (a : N) : res state :=
  match aget a (st_live s) with
  | None => Panic                                           (* nil stateObject *)
  | Some o =>
    if o_suicided o || (del_empty && obj_empty o)
    then Ok (delete_state_object s a o)
    else let o' := obj_update_root o in update_state_object (put_obj s a o') a o'
  end.

Fixpoint fold_res {A B} (f : A -> B -> res A) (l : list B) (a : A) : res A :=
  match l with [] => Ok a | x :: t => rbind (f a x) (fold_res f t) end.

(* statedb.go: Finalise; `order` = iteration order of stateObjectsDirty *)
Definition finalise_with (order : list N) (del_empty : bool) (s : state) : res state :=
  rbind (fold_res (finalise_one del_empty) order s) (fun s' => Ok (clear_journal_and_refund s')).
Definition finalise (del_empty : bool) (s : state) : res state := finalise_with (st_dirty s) del_empty s.

(* statedb.go: IntermediateRoot: Finalise, then trie.Hash() = the content *)
Definition intermediate_root (del_empty : bool) (s : state) : res (state * list (N * acct)) :=
  rbind (finalise del_empty s) (fun s' => Ok (s', st_trie s')).

(* statedb.go: Commit, loop body over stateObjects *)
Definition commit_one (del_empty : bool) (s : state) (a : N) : res state :=
  match aget a (st_live s) with
  | None => Ok s                                            (* not reached: a ranges over the keys *)
  | Some o =>
    let is_dirty := nmem a (st_dirty s) in
    let r :=
      if o_suicided o || (is_dirty && del_empty && obj_empty o)
      then Ok (delete_state_object s a o)
      else if is_dirty then
        let '(s1, o1) :=
          match o_code o with
          | Some c => if o_dirtycode o then (with_codes (bset (o_ch o) c (st_codes s)) s, o_with_dirtycode false o) else (s, o)
          | None => (s, o)
          end in
        let o2 := obj_update_root o1 in
        update_state_object (put_obj s1 a o2) a o2
      else Ok s in
    rbind r (fun s' => Ok (with_dirty (ndel a (st_dirty s')) s'))
  end.

(* statedb.go: Commit; `order` = iteration order of stateObjects; the deferred
   clearJournalAndRefund also runs when the body panics, but then no state is
   returned *)
Definition commit_with (order : list N) (del_empty : bool) (s : state) : res (state * list (N * acct)) :=
  rbind (fold_res (commit_one del_empty) order s)
        (fun s' => let s'' := clear_journal_and_refund s' in Ok (s'', st_trie s'')).
Definition commit (del_empty : bool) (s : state) := commit_with (akeys (st_live s)) del_empty s.

(* state_object.go: deepCopy (onDirty = the copy's MarkStateObjectDirty) *)
Definition deep_copy (o : obj) : obj :=
  mkObj (o_nonce o) (o_bal o) (o_root o) (o_ch o) (o_code o) (o_dirtyst o) (o_dirtyst o)
        (o_dirtycode o) (o_suicided o) false (o_deleted o) true.

(* statedb.go: Copy; `order` = iteration order of stateObjectsDirty.  thash,
   bhash, txIndex, journal, revisions are not copied. *)
Definition copy_one (src : state) (dst : state) (a : N) : res state :=
  match aget a (st_live src) with
  | None => Panic                                           (* nil.deepCopy *)
  | Some o => Ok (with_dirty (nadd a (st_dirty dst)) (put_obj dst a (deep_copy o)))
  end.
Definition copy_with (order : list N) (s : state) : res state :=
  fold_res (copy_one s) order
    (mkState (st_trie s) (st_codes s) [] [] (st_refund s) 0 0 0 (st_logs s) (st_logsize s) (st_preimages s) [] [] 0).
Definition copy (s : state) : res state := copy_with (st_dirty s) s.

(* ---- getters (vm.StateDB) ---- *)
Definition exist (s : state) (a : N) : bool := match get_obj s a with Some _ => true | None => false end.
Definition is_empty (s : state) (a : N) : bool := match get_obj s a with Some o => obj_empty o | None => true end.
Definition get_balance (s : state) (a : N) : Z := match get_obj s a with Some o => o_bal o | None => 0%Z end.
Definition get_nonce (s : state) (a : N) : N := match get_obj s a with Some o => o_nonce o | None => 0 end.
Definition get_code (s : state) (a : N) : option bytes := match get_obj s a with Some o => obj_code s o | None => None end.
Definition get_code_size (s : state) (a : N) : N :=
  match get_obj s a with
  | None => 0
  | Some o => match o_code o with
              | Some c => lenN c
              | None => match bget (o_ch o) (st_codes s) with Some c => lenN c | None => 0 end
              end
  end.
Definition get_code_hash (s : state) (a : N) : bytes := match get_obj s a with Some o => o_ch o | None => repeat x00 32 end.
Definition get_state (s : state) (a : N) (k : N) : N := match get_obj s a with Some o => obj_get_state o k | None => 0 end.
Definition has_suicided (s : state) (a : N) : bool := match get_obj s a with Some o => o_suicided o | None => false end.
Definition get_refund (s : state) : N := st_refund s.
Definition get_logs (s : state) (th : N) : list logrec := match aget th (st_logs s) with Some l => l | None => [] end.

(* everything a caller can read about one address *)
Definition account_view (s : state) (a : N) : option aview :=
  match get_obj s a with
  | Some o => Some (mkView (o_nonce o) (o_bal o) (o_ch o) (obj_code s o) (o_suicided o))
  | None => None
  end.

(* ---- operation sequences (the histories the theorems quantify over) ---- *)
Inductive op : Type :=
| OCreate (a : N) | OAddBal (a : N) (v : Z) | OSubBal (a : N) (v : Z) | OSetBal (a : N) (v : Z)
| OSetNonce (a : N) (n : N) | OSetCode (a : N) (c : bytes) | OSetState (a k v : N)
| OSuicide (a : N) | OAddLog (d : N) | OAddRefund (g : N) | OAddPreimage (h : N) (p : bytes)
| OPrepare (th bh ti : N) | OSnapshot | ORevert (id : N)
| OFinalise (b : bool) | OCommit (b : bool).

Definition is_fin (o : op) : bool := match o with OFinalise _ | OCommit _ => true | _ => false end.

Definition step (s : state) (o : op) : res state :=
  match o with
  | OCreate a => Ok (create_account s a)
  | OAddBal a v => Ok (add_balance s a v)
  | OSubBal a v => Ok (sub_balance s a v)
  | OSetBal a v => Ok (set_balance s a v)
  | OSetNonce a n => Ok (set_nonce s a n)
  | OSetCode a c => Ok (set_code s a c)
  | OSetState a k v => Ok (set_state s a k v)
  | OSuicide a => Ok (fst (suicide s a))
  | OAddLog d => Ok (add_log s d)
  | OAddRefund g => Ok (add_refund s g)
  | OAddPreimage h p => Ok (add_preimage s h p)
  | OPrepare th bh ti => Ok (prepare s th bh ti)
  | OSnapshot => Ok (fst (snapshot s))
  | ORevert id => revert_to s id
  | OFinalise b => finalise b s
  | OCommit b => rbind (commit b s) (fun p => Ok (fst p))
  end.

Definition run (ops : list op) (s : state) : res state := fold_res step ops s.

End Model.
