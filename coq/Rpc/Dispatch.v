(* Rpc/Dispatch.v — model of how an incoming JSON-RPC request is resolved to a registered
   callback (property C18): which registered method, if any, a request can invoke.

   Code modelled (branch for branch):
     /repo/rpc/json.go    parseRequest (single request: "eth_" -> "aqua_" rewriting, names without
                          '_' get the "btc_" prefix, *_subscribe / *_unsubscribe, split on '_'),
                          parseBatchRequest (batch elements: NO rewriting, same suffix tests, same split)
     /repo/rpc/server.go  readRequest (service lookup, subscription lookup, callback lookup)
   Argument parsing and the call itself (handle) are not modelled: a resolved callback is what CAN
   be invoked.  Definitions only; proofs in RpcProofs.v. *)
From AQ Require Import Lib.Bytes Rpc.Registry.
From Coq Require Strings.String.
Import String.StringSyntax.
Import ListNotations.
Open Scope list_scope.

Fixpoint has_prefix (s pre : bytes) : bool :=
  match pre, s with
  | [], _ => true
  | p :: pt, c :: st => byte_eqb p c && has_prefix st pt
  | _ :: _, [] => false
  end.

Definition underscore : byte := "_"%byte.

Fixpoint count_underscores (s : bytes) : nat :=
  match s with [] => O | c :: t => (if byte_eqb c underscore then 1 else 0) + count_underscores t end.

(* the part before / after the first '_' *)
Fixpoint before_us (s : bytes) : bytes :=
  match s with [] => [] | c :: t => if byte_eqb c underscore then [] else c :: before_us t end.
Fixpoint after_us (s : bytes) : bytes :=
  match s with [] => [] | c :: t => if byte_eqb c underscore then t else after_us t end.

Definition take_front {A} (n : nat) (l : list A) : list A := firstn n l.

Definition p_eth := Eval vm_compute in bs "eth_".
Definition p_aqua := Eval vm_compute in bs "aqua_".
Definition p_btc := Eval vm_compute in bs "btc_".
Definition suf_subscribe := Eval vm_compute in bs "_subscribe".
Definition suf_unsubscribe := Eval vm_compute in bs "_unsubscribe".

(* parseRequest only: eth compatibility and the btc prefix *)
Definition normalise_single (m : bytes) : bytes :=
  let m := if has_prefix m p_eth then p_aqua ++ drop 4 m else m in
  if Nat.eqb (count_underscores m) 0 then p_btc ++ m else m.

Inductive parsed :=
| PInvalid                                  (* invalidRequestError: subscribe without a usable first parameter *)
| PUnsubscribe                              (* isPubSub with the *_unsubscribe method: no callback involved *)
| PNoSuchMethod                             (* methodNotFoundError from the parser: not exactly one '_' *)
| PRequest (service method : bytes) (pubsub : bool).

(* [batch]: element of a JSON array; [meth]: the "method" member; [first_param]: the first element of
   "params" when it is a string (the subscription name), None otherwise *)
Definition parse (batch : bool) (meth : bytes) (first_param : option bytes) : parsed :=
  let m := if batch then meth else normalise_single meth in
  if has_suffix m suf_subscribe then
    match first_param with
    | Some name => PRequest (take_front (List.length m - List.length suf_subscribe) m) name true
    | None => PInvalid
    end
  else if has_suffix m suf_unsubscribe then PUnsubscribe
  else if Nat.eqb (count_underscores m) 1 then PRequest (before_us m) (after_us m) false
  else PNoSuchMethod.

Inductive resolution :=
| RInvalid | RUnsubscribe | RNotFound
| RCallback (e : entry)
| RSubscription (e : entry).

Definition lookup (r : registry) (ns wire : bytes) (sub : bool) : option entry :=
  find (fun e => bytes_eqb (e_ns e) ns && Bool.eqb (e_sub e) sub && bytes_eqb (e_wire e) wire) (r_entries r).

(* readRequest on one parsed request *)
Definition resolve (r : registry) (batch : bool) (meth : bytes) (first_param : option bytes) : resolution :=
  match parse batch meth first_param with
  | PInvalid => RInvalid
  | PUnsubscribe => RUnsubscribe
  | PNoSuchMethod => RNotFound
  | PRequest svc m pubsub =>
    if negb (mem_bytes svc (r_services r)) then RNotFound        (* s.services[r.service] missing *)
    else if pubsub then
      match lookup r svc m true with Some e => RSubscription e | None => RNotFound end
    else
      match lookup r svc m false with Some e => RCallback e | None => RNotFound end
  end.
