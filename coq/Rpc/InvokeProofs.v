(* Rpc/InvokeProofs.v — proofs about the request path (Rpc/Invoke.v): whatever a message gets
   called is a registered entry, hence (RpcProofs) passed RegisterName's filter. *)
From AQ Require Import Lib.Bytes Rpc.Registry Rpc.Dispatch Rpc.Invoke Generated.GenApis Rpc.RpcModel Rpc.RpcProofs.
From Coq Require Strings.String.
Import String.StringSyntax.
Import ListNotations.
Open Scope list_scope.

Lemma run_resolved_invoked argtab q x e :
  run_resolved argtab q x = VInvoked e -> x = RCallback e \/ x = RSubscription e.
Proof.
  destruct x as [| | |e0|e0]; cbn [run_resolved]; try discriminate.
  - destruct (is_nil (argtab e0)); [intro H; inversion H; left; reflexivity|].
    destruct (is_absent (q_params q)); [discriminate|].
    destruct (parse_args (q_params q) (argtab e0)); [intro H; inversion H; left; reflexivity | discriminate].
  - destruct (is_nil (argtab e0)); [intro H; inversion H; right; reflexivity|].
    destruct (parse_args (q_params q) (false :: argtab e0)); [intro H; inversion H; right; reflexivity | discriminate].
Qed.

Lemma run_resolved_registered r argtab q batch e :
  run_resolved argtab q (resolve r batch (q_method q) (first_param_of (q_params q))) = VInvoked e ->
  In e (r_entries r).
Proof.
  intro H. apply run_resolved_invoked in H.
  apply (resolve_only_registered r batch (q_method q) (first_param_of (q_params q)) e). exact H.
Qed.

Theorem invoke_single_registered r argtab q e :
  invoke_single r argtab q = VInvoked e -> In e (r_entries r).
Proof.
  unfold invoke_single. destruct (negb (q_id_ok q)); [discriminate|].
  apply run_resolved_registered.
Qed.

Theorem invoke_batch_registered r argtab qs vs e :
  invoke_batch r argtab qs = Some vs -> In (VInvoked e) vs -> In e (r_entries r).
Proof.
  unfold invoke_batch. destruct (existsb rejects_batch qs); [discriminate|].
  intro H. inversion H. subst vs. clear H. intro Hin.
  apply in_map_iff in Hin. destruct Hin as [q [Hq _]].
  exact (run_resolved_registered _ _ _ _ _ Hq).
Qed.

Lemma invoked_of_in vs e : In e (invoked_of vs) -> In (VInvoked e) vs.
Proof.
  unfold invoked_of. intro H. apply in_flat_map in H. destruct H as [v [Hv He]].
  destruct v; cbn in He; try (destruct He; fail).
  destruct He as [He|[]]. subst. exact Hv.
Qed.

(* invoked(message, registry) is a subset of the registry — any method strings, any params, any ids,
   single or batch, any argument table *)
Theorem invoked_subset_registry r argtab batch qs e :
  In e (invoke_message r argtab batch qs) -> In e (r_entries r).
Proof.
  unfold invoke_message. destruct batch.
  - destruct (invoke_batch r argtab qs) as [vs|] eqn:B; [|intros []].
    intro H. apply invoked_of_in in H. exact (invoke_batch_registered _ _ _ _ _ B H).
  - destruct qs as [|q [|q' qs']]; try (intros []).
    intro H. apply invoked_of_in in H. destruct H as [H|[]].
    exact (invoke_single_registered _ _ _ _ H).
Qed.

(* against ANY registry built by a RegisterName sequence: what gets called was there before, or is a
   method that passed the filter — a protected callback of a non-opted-in caller is never called *)
Theorem invoked_passed_the_filter f caller r0 apis r argtab batch qs e :
  register_all f caller r0 apis = Some r ->
  In e (invoke_message r argtab batch qs) ->
  In e (r_entries r0) \/
  exists a m, In a apis /\ In m (a_methods a) /\ e = mk_entry a m /\
              (m_sub m = true \/ is_protected (m_name m) = false \/ is_allowed f caller = true).
Proof.
  intros H He. apply invoked_subset_registry in He.
  exact (register_all_sound _ _ _ _ _ H _ He).
Qed.

Theorem filtered_never_invoked cs meta f t c apis r argtab batch qs e :
  is_allowed f (caller_of cs t) = false -> is_allowed f (caller_newserver cs) = false ->
  exposed cs meta f t c apis = Some r ->
  In e (invoke_message r argtab batch qs) ->
  e_sub e = true \/ is_protected (e_go e) = false.
Proof.
  intros H1 H2 H He. apply invoked_subset_registry in He.
  exact (no_optin_no_protected _ _ _ _ _ _ _ _ H1 H2 H He).
Qed.

(* the node: on a transport whose flag is off, no message gets a method called that can reach a
   keystore signing entry point, the three sealing methods excepted *)
Theorem no_optin_message_cannot_invoke_signer apis f t c r argtab batch qs e :
  In apis gen_api_sets ->
  flag_of f t = false ->
  gen_exposed f t c apis = Some r ->
  In e (invoke_message r argtab batch qs) ->
  e_signs e = false \/
  In (e_ns e, e_wire e) [ (bs "miner", bs "start"); (bs "aqua", bs "getWork"); (bs "testing", bs "getBlockTemplate") ].
Proof.
  intros Hin Hf H He. apply invoked_subset_registry in He.
  destruct (e_signs e) eqn:Hs; [right | left; reflexivity].
  exact (no_optin_signers_listed apis f t c r e Hin Hf H He Hs).
Qed.

Theorem no_optin_message_cannot_invoke_protected apis f t c r argtab batch qs e :
  flag_of f t = false ->
  gen_exposed f t c apis = Some r ->
  In e (invoke_message r argtab batch qs) ->
  e_sub e = true \/ is_protected (e_go e) = false.
Proof.
  intros Hf H He. apply invoked_subset_registry in He.
  exact (no_optin_no_protected_gen apis f t c r e Hf H He).
Qed.

(* the generated argument table covers every method of every generated API (and the metadata service) *)
Definition has_args (a : api) : bool :=
  forallb (fun m => match lookup_args (a_recv a) (m_name m) gen_arg_ptrs with Some _ => true | None => false end) (a_methods a).
Lemma gen_arg_table_complete :
  forallb (forallb has_args) gen_api_sets && has_args gen_meta_api = true.
Proof. vm_compute. reflexivity. Qed.

(* non-vacuity: concrete messages against the default-environment IPC registry *)
Definition ipc_default : registry :=
  match gen_exposed all_off IPC gen_default_config gen_apis with Some r => r | None => empty_registry end.
Definition ok_elem := mkElem JOtherElem true.
Definition q_getWork := mkReq n_aqua_getWork true JAbsent.
Definition q_eth_getWork_garbage_params := mkReq n_eth_getWork true JScalarOrObject.
Definition q_personal_sign := mkReq n_personal_sign true (JArray [ok_elem; ok_elem; ok_elem]).
Definition q_getBalance_short := mkReq (bs "aqua_getBalance") true (JArray [ok_elem]).
Definition q_getBalance_ok := mkReq (bs "aqua_getBalance") true (JArray [ok_elem; ok_elem]).
Definition q_startRPC_optional := mkReq (bs "admin_startRPC") true (JArray []).
Definition q_startRPC_absent := mkReq (bs "admin_startRPC") true JAbsent.
Definition q_bad_id := mkReq n_aqua_getWork false JAbsent.
Definition names_of (l : list entry) : list bytes := map wire_name l.

Example invoke_examples :
  names_of (invoke_message ipc_default gen_argtab false [q_getWork]) = [n_aqua_getWork] /\
  names_of (invoke_message ipc_default gen_argtab false [q_eth_getWork_garbage_params]) = [n_aqua_getWork] /\
  names_of (invoke_message ipc_default gen_argtab true [q_eth_getWork_garbage_params]) = [] /\
  invoke_single ipc_default gen_argtab q_personal_sign = VNotFound /\
  invoke_single ipc_default gen_argtab q_getBalance_short = VInvalidParams /\
  names_of (invoke_message ipc_default gen_argtab false [q_getBalance_ok]) = [bs "aqua_getBalance"] /\
  names_of (invoke_message ipc_default gen_argtab false [q_startRPC_optional]) = [bs "admin_startRPC"] /\
  invoke_single ipc_default gen_argtab q_startRPC_absent = VInvalidParams /\
  names_of (invoke_message ipc_default gen_argtab true [q_getWork; q_personal_sign; q_getBalance_ok]) = [n_aqua_getWork; bs "aqua_getBalance"] /\
  invoke_batch ipc_default gen_argtab [q_getWork; q_bad_id] = None.
Proof. vm_compute. repeat split; reflexivity. Qed.
