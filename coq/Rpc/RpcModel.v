(* Rpc/RpcModel.v — the model of Registry.v instantiated with the generated tables
   (Generated/GenApis.v).  Definitions only (extracted by ExtractRpc.v). *)
From AQ Require Import Lib.Bytes Rpc.Registry Generated.GenApis.
Import ListNotations.

(* the registry a node with the aqua service serves on transport t; None = start function fails *)
Definition gen_exposed := exposed gen_callers gen_meta_api.

(* for the correspondence check: the m_signs bit of a served method, by namespace / wire name / receiver *)
Definition signs_of (r : registry) (ns wire : bytes) : option bool :=
  match filter (fun e => bytes_eqb (e_ns e) ns && bytes_eqb (e_wire e) wire && negb (e_sub e)) (r_entries r) with
  | e :: _ => Some (e_signs e)
  | [] => None
  end.

(* the argument table of the generated APIs: callback.argTypes as "is pointer" flags, by receiver type
   and Go method name (Generated/GenApis.v gen_arg_ptrs) *)
Fixpoint lookup_args (recv go : bytes) (l : list (bytes * bytes * list bool)) : option (list bool) :=
  match l with
  | [] => None
  | (rc, g, a) :: t => if bytes_eqb rc recv && bytes_eqb g go then Some a else lookup_args recv go t
  end.

Definition gen_argtab (e : entry) : list bool :=
  match lookup_args (e_recv e) (e_go e) gen_arg_ptrs with Some a => a | None => [] end.
