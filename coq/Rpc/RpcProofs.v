(* Rpc/RpcProofs.v — proofs about the RPC signing lock-down model (property C18).
   Part 1: generic lemmas over ANY api list / caller names / flags.
   Part 2: the finite obligations over Generated/GenApis.v (vm_compute + forallb_forall)
           and the instantiated theorems that Properties/C18.v states. *)
From AQ Require Import Lib.Bytes Rpc.Registry Rpc.Dispatch Generated.GenApis Rpc.RpcModel.
From Coq Require Strings.String.
Import String.StringSyntax.
Import ListNotations.
Open Scope list_scope.

(* ------------------------------------------------------------------ *)
(* Part 1: generic                                                     *)
(* ------------------------------------------------------------------ *)

Lemma same_key_true x y :
  same_key x y = true <-> e_ns x = e_ns y /\ e_sub x = e_sub y /\ e_wire x = e_wire y.
Proof.
  unfold same_key. rewrite !andb_true_iff, Bool.eqb_true_iff.
  split.
  - intros [[Hn Hs] Hw].
    destruct (bytes_eqb_spec (e_ns x) (e_ns y)) as [En|]; [|discriminate].
    destruct (bytes_eqb_spec (e_wire x) (e_wire y)) as [Ew|]; [|discriminate].
    auto.
  - intros [Hn [Hs Hw]]. rewrite Hn, Hw, !bytes_eqb_refl. auto.
Qed.

Lemma same_key_refl x : same_key x x = true.
Proof. apply same_key_true; auto. Qed.

Lemma same_key_sym x y : same_key x y = true -> same_key y x = true.
Proof. rewrite !same_key_true. intuition congruence. Qed.

Lemma same_key_trans x y z : same_key x y = true -> same_key y z = true -> same_key x z = true.
Proof. rewrite !same_key_true. intuition congruence. Qed.

Lemma mk_entry_inj a m m' : mk_entry a m = mk_entry a m' -> m = m'.
Proof.
  destruct m as [n s g], m' as [n' s' g']. unfold mk_entry; cbn.
  intro H. injection H as _ Hs Hn Hg. subst. reflexivity.
Qed.

Section Fold.
  Variable a : api.
  Let F := fun (es : list entry) (m : method) => insert (mk_entry a m) es.

  Lemma fold_in : forall ms es x,
    In x (fold_left F ms es) -> In x es \/ exists m, In m ms /\ x = mk_entry a m.
  Proof.
    induction ms as [|m0 ms IH]; cbn [fold_left]; intros es x Hx.
    - left; exact Hx.
    - apply IH in Hx. destruct Hx as [Hx | [m [Hm Hx]]].
      + unfold F, insert in Hx. cbn [In] in Hx. destruct Hx as [Hx | Hx].
        * right. exists m0. split; [left; reflexivity | symmetry; exact Hx].
        * apply filter_In in Hx. left. tauto.
      + right. exists m. split; [right; exact Hm | exact Hx].
  Qed.

  Lemma fold_keeps_slot : forall ms es x,
    (exists e, In e es /\ same_key e x = true) ->
    exists e, In e (fold_left F ms es) /\ same_key e x = true.
  Proof.
    induction ms as [|m0 ms IH]; cbn [fold_left]; intros es x Hex.
    - exact Hex.
    - apply IH. destruct Hex as [e [Hin Hk]].
      destruct (same_key e (mk_entry a m0)) eqn:K.
      + exists (mk_entry a m0). split.
        * unfold F, insert. left. reflexivity.
        * eapply same_key_trans; [apply same_key_sym; exact K | exact Hk].
      + exists e. split.
        * unfold F, insert. right. apply filter_In. split; [exact Hin|]. rewrite K. reflexivity.
        * exact Hk.
  Qed.

  Lemma fold_adds_slot : forall ms es m,
    In m ms -> exists e, In e (fold_left F ms es) /\ same_key e (mk_entry a m) = true.
  Proof.
    induction ms as [|m0 ms IH]; intros es m Hm; [destruct Hm|].
    destruct Hm as [Hm | Hm].
    - subst m0. cbn [fold_left]. apply fold_keeps_slot.
      exists (mk_entry a m). split; [unfold F, insert; left; reflexivity | apply same_key_refl].
    - cbn [fold_left]. apply IH. exact Hm.
  Qed.
End Fold.

Definition stays (allowed : bool) (m : method) : Prop :=
  m_sub m = true \/ is_protected (m_name m) = false \/ allowed = true.

Lemma kept_stays allowed m : kept allowed m = true <-> stays allowed m.
Proof.
  unfold kept, stays. rewrite !orb_true_iff, negb_true_iff. tauto.
Qed.

Lemma register_some f caller r a r' :
  register f caller r a = Some r' ->
  r_entries r' = fold_left (fun es m => insert (mk_entry a m) es)
                           (filter (kept (is_allowed f caller)) (a_methods a)) (r_entries r).
Proof.
  unfold register. intro H.
  destruct (is_nil (a_ns a)); [discriminate|].
  destruct (negb (a_exported a)); [discriminate|].
  destruct (is_nil (a_methods a)); [discriminate|].
  inversion H. reflexivity.
Qed.

(* RegisterName: what is served afterwards is what was served before plus the receiver's
   methods MINUS exactly the protected callbacks when the caller's transport is not opted in *)
Theorem register_removes_exactly_protected f caller r a r' :
  register f caller r a = Some r' ->
  (forall e, In e (r_entries r') ->
     In e (r_entries r) \/
     exists m, In m (a_methods a) /\ e = mk_entry a m /\ stays (is_allowed f caller) m)
  /\ (forall m, In m (a_methods a) -> stays (is_allowed f caller) m ->
        exists e, In e (r_entries r') /\ same_key e (mk_entry a m) = true)
  /\ (forall x, In x (r_entries r) -> exists e, In e (r_entries r') /\ same_key e x = true)
  /\ (forall m, In m (a_methods a) -> m_sub m = false -> is_protected (m_name m) = true ->
        is_allowed f caller = false ->
        In (mk_entry a m) (r_entries r') -> In (mk_entry a m) (r_entries r)).
Proof.
  intro H. apply register_some in H.
  assert (S1 : forall e, In e (r_entries r') ->
     In e (r_entries r) \/
     exists m, In m (a_methods a) /\ e = mk_entry a m /\ stays (is_allowed f caller) m).
  { intros e He. rewrite H in He. apply fold_in in He.
    destruct He as [He | [m [Hm He]]]; [left; exact He|].
    apply filter_In in Hm. destruct Hm as [Hm Hk].
    right. exists m. split; [exact Hm|]. split; [exact He|]. apply kept_stays. exact Hk. }
  split; [exact S1|]. split; [|split].
  - intros m Hm Hs. rewrite H. apply fold_adds_slot.
    apply filter_In. split; [exact Hm|]. apply kept_stays. exact Hs.
  - intros x Hx. rewrite H. apply fold_keeps_slot.
    exists x. split; [exact Hx | apply same_key_refl].
  - intros m Hm Hsub Hprot Hall Hin.
    destruct (S1 _ Hin) as [Hold | [m' [Hm' [Heq Hst]]]]; [exact Hold|].
    apply mk_entry_inj in Heq. subst m'.
    destruct Hst as [Hs | [Hp | Ha]]; congruence.
Qed.

Lemma register_all_sound f caller : forall apis r r',
  register_all f caller r apis = Some r' ->
  forall e, In e (r_entries r') ->
    In e (r_entries r) \/
    exists a m, In a apis /\ In m (a_methods a) /\ e = mk_entry a m /\ stays (is_allowed f caller) m.
Proof.
  induction apis as [|a apis IH]; cbn [register_all]; intros r r' H e He.
  - inversion H. subst. left. exact He.
  - destruct (register f caller r a) as [r1|] eqn:R; [|discriminate].
    destruct (IH _ _ H _ He) as [Hin | [a' [m [Ha' [Hm [Heq Hst]]]]]].
    + destruct (register_removes_exactly_protected _ _ _ _ _ R) as [S1 _].
      destruct (S1 _ Hin) as [Hold | [m [Hm [Heq Hst]]]]; [left; exact Hold|].
      right. exists a, m. split; [left; reflexivity|]. auto.
    + right. exists a', m. split; [right; exact Ha'|]. auto.
Qed.

Lemma new_server_sound f caller meta e :
  In e (r_entries (new_server f caller meta)) ->
  exists m, In m (a_methods meta) /\ e = mk_entry meta m /\ stays (is_allowed f caller) m.
Proof.
  unfold new_server. destruct (register f caller empty_registry meta) as [r|] eqn:R.
  - intro He. destruct (register_removes_exactly_protected _ _ _ _ _ R) as [S1 _].
    destruct (S1 _ He) as [Hold | Hnew]; [destruct Hold | exact Hnew].
  - intro He. destruct He.
Qed.

(* everything served on a transport is a method of the metadata service or of an API that the
   start function of that transport selected, and it passed RegisterName's filter *)
Theorem exposed_sound cs meta f t c apis r e :
  exposed cs meta f t c apis = Some r -> In e (r_entries r) ->
  (exists m, In m (a_methods meta) /\ e = mk_entry meta m /\ stays (is_allowed f (caller_newserver cs)) m)
  \/ (exists a m, In a apis /\ selected t c a = true /\ In m (a_methods a) /\ e = mk_entry a m
                  /\ stays (is_allowed f (caller_of cs t)) m).
Proof.
  unfold exposed. intros H He.
  destruct (register_all_sound _ _ _ _ _ H _ He) as [Hin | [a [m [Ha [Hm [Heq Hst]]]]]].
  - left. apply new_server_sound. exact Hin.
  - right. apply filter_In in Ha. destruct Ha as [Ha Hsel].
    exists a, m. auto.
Qed.

(* completeness: every kept method of every registered API keeps a slot to the end *)
Lemma register_all_complete f caller : forall apis r r',
  register_all f caller r apis = Some r' ->
  (forall x, In x (r_entries r) -> exists e, In e (r_entries r') /\ same_key e x = true)
  /\ (forall a m, In a apis -> In m (a_methods a) -> stays (is_allowed f caller) m ->
        exists e, In e (r_entries r') /\ same_key e (mk_entry a m) = true).
Proof.
  induction apis as [|a apis IH]; cbn [register_all]; intros r r' H.
  - inversion H. subst. split.
    + intros x Hx. exists x. split; [exact Hx | apply same_key_refl].
    + intros a m Ha. destruct Ha.
  - destruct (register f caller r a) as [r1|] eqn:R; [|discriminate].
    destruct (IH _ _ H) as [K1 K2].
    destruct (register_removes_exactly_protected _ _ _ _ _ R) as [_ [S2 [S3 _]]].
    split.
    + intros x Hx. destruct (S3 _ Hx) as [e1 [He1 Hk1]].
      destruct (K1 _ He1) as [e [He Hk]]. exists e. split; [exact He|].
      eapply same_key_trans; eassumption.
    + intros a' m Ha' Hm Hst. destruct Ha' as [Ha' | Ha'].
      * subst a'. destruct (S2 _ Hm Hst) as [e1 [He1 Hk1]].
        destruct (K1 _ He1) as [e [He Hk]]. exists e. split; [exact He|].
        eapply same_key_trans; eassumption.
      * exact (K2 _ _ Ha' Hm Hst).
Qed.

(* whitelist selection is complete: every method of every selected API that passes RegisterName's
   filter is served (under its namespace / wire name; a later API may have overridden the callback) *)
Theorem exposed_complete cs meta f t c apis r a m :
  exposed cs meta f t c apis = Some r ->
  In a apis -> selected t c a = true -> In m (a_methods a) ->
  stays (is_allowed f (caller_of cs t)) m ->
  exists e, In e (r_entries r) /\ same_key e (mk_entry a m) = true.
Proof.
  unfold exposed. intros H Ha Hsel Hm Hst.
  destruct (register_all_complete _ _ _ _ _ H) as [_ K2].
  apply (K2 a m); [apply filter_In; split; assumption | exact Hm | exact Hst].
Qed.

(* the environment matters only through is_allowed of the two callers *)
Lemma register_ext f f' caller r a :
  is_allowed f caller = is_allowed f' caller -> register f caller r a = register f' caller r a.
Proof. intro H. unfold register. rewrite H. reflexivity. Qed.

Lemma register_all_ext f f' caller : forall apis r,
  is_allowed f caller = is_allowed f' caller ->
  register_all f caller r apis = register_all f' caller r apis.
Proof.
  induction apis as [|a apis IH]; cbn [register_all]; intros r H; [reflexivity|].
  rewrite (register_ext f f' caller r a H).
  destruct (register f' caller r a); [apply IH; exact H | reflexivity].
Qed.

Theorem exposed_ext cs meta f f' t c apis :
  is_allowed f (caller_of cs t) = is_allowed f' (caller_of cs t) ->
  is_allowed f (caller_newserver cs) = is_allowed f' (caller_newserver cs) ->
  exposed cs meta f t c apis = exposed cs meta f' t c apis.
Proof.
  intros H1 H2. unfold exposed, new_server.
  rewrite (register_ext f f' _ empty_registry meta H2).
  apply register_all_ext. exact H1.
Qed.

(* without the opt-in for the caller, no protected callback is served — for ANY api list *)
Theorem no_optin_no_protected cs meta f t c apis r e :
  is_allowed f (caller_of cs t) = false -> is_allowed f (caller_newserver cs) = false ->
  exposed cs meta f t c apis = Some r -> In e (r_entries r) ->
  e_sub e = true \/ is_protected (e_go e) = false.
Proof.
  intros H1 H2 H He.
  destruct (exposed_sound _ _ _ _ _ _ _ _ H He) as [[m [_ [Heq Hst]]] | [a [m [_ [_ [_ [Heq Hst]]]]]]];
    subst e; cbn [mk_entry e_sub e_go]; destruct Hst as [Hs | [Hp | Ha]]; auto; congruence.
Qed.

Fixpoint mem_pair (x : bytes * bytes) (l : list (bytes * bytes)) : bool :=
  match l with
  | [] => false
  | y :: t => if bytes_eqb (fst x) (fst y) && bytes_eqb (snd x) (snd y) then true else mem_pair x t
  end.

Lemma mem_pair_In x l : mem_pair x l = true -> In x l.
Proof.
  induction l as [|y l IH]; cbn [mem_pair]; [discriminate|].
  destruct (bytes_eqb_spec (fst x) (fst y)) as [E1|]; cbn [andb].
  - destruct (bytes_eqb_spec (snd x) (snd y)) as [E2|].
    + intros _. left. destruct x, y; cbn in *; congruence.
    + intro H. right. exact (IH H).
  - intro H. right. exact (IH H).
Qed.

(* Methods that reach a keystore signing entry point although their name is not protected
   (namespace, wire name): the three that start the miner, which on a clique chain seals blocks
   with the aquabase key through keystore SignHashAllowed.  Hand-written: a new unprotected
   signer appearing in the tree breaks gen_api_sets_checked. *)
Definition unprotected_signers : list (bytes * bytes) := Eval vm_compute in
  [ (bs "miner", bs "start");                       (* PrivateMinerAPI.Start -> StartMining *)
    (bs "aqua", bs "getWork");                      (* PublicMinerAPI.GetWork: StartMining if not mining *)
    (bs "testing", bs "getBlockTemplate") ].        (* PublicTestingAPI.GetBlockTemplate: StartMining if not mining *)

Definition entry_ok (e : entry) : bool :=
  negb (e_signs e) || mem_pair (e_ns e, e_wire e) unprotected_signers.

Definition api_check (a : api) : bool :=
  forallb (fun m => implb (kept false m) (entry_ok (mk_entry a m))) (a_methods a).


Lemma api_check_spec a m :
  api_check a = true -> In m (a_methods a) -> stays false m ->
  e_signs (mk_entry a m) = true ->
  In (e_ns (mk_entry a m), e_wire (mk_entry a m)) unprotected_signers.
Proof.
  unfold api_check. intros H Hm Hst Hsig.
  rewrite forallb_forall in H. specialize (H _ Hm).
  apply kept_stays in Hst. rewrite Hst in H. cbn [implb] in H.
  unfold entry_ok in H. rewrite Hsig in H. cbn [negb orb] in H.
  apply mem_pair_In. exact H.
Qed.

Section Checked.
  Variable cs : callers.
  Variable meta : api.
  Variable apis : list api.
  Hypothesis Hcallers : forall f t, is_allowed f (caller_of cs t) = flag_of f t.
  Hypothesis Hnewserver : forall f, is_allowed f (caller_newserver cs) = false.
  Hypothesis Hmeta : api_check meta = true.
  Hypothesis Hapis : forallb api_check apis = true.

  Theorem no_optin_signers_listed_generic f t c r e :
    flag_of f t = false ->
    exposed cs meta f t c apis = Some r -> In e (r_entries r) -> e_signs e = true ->
    In (e_ns e, e_wire e) unprotected_signers.
  Proof.
    intros Hf H He Hsig.
    destruct (exposed_sound _ _ _ _ _ _ _ _ H He) as [[m [Hm [Heq Hst]]] | [a [m [Ha [_ [Hm [Heq Hst]]]]]]].
    - rewrite Hnewserver in Hst. subst e.
      exact (api_check_spec _ _ Hmeta Hm Hst Hsig).
    - rewrite Hcallers, Hf in Hst. subst e.
      pose proof Hapis as G. rewrite forallb_forall in G.
      exact (api_check_spec _ _ (G _ Ha) Hm Hst Hsig).
  Qed.

  Theorem no_optin_no_protected_generic f t c r e :
    flag_of f t = false ->
    exposed cs meta f t c apis = Some r -> In e (r_entries r) ->
    e_sub e = true \/ is_protected (e_go e) = false.
  Proof.
    intros Hf. apply no_optin_no_protected.
    - rewrite Hcallers. exact Hf.
    - apply Hnewserver.
  Qed.

  Theorem optin_is_per_transport_generic f f' t c l :
    flag_of f t = flag_of f' t ->
    exposed cs meta f t c l = exposed cs meta f' t c l.
  Proof.
    intro H. apply exposed_ext.
    - rewrite !Hcallers. exact H.
    - rewrite !Hnewserver. reflexivity.
  Qed.
End Checked.

(* ------------------------------------------------------------------ *)
(* Part 2: the generated tables                                        *)
(* ------------------------------------------------------------------ *)

Lemma gen_api_sets_checked : forallb (forallb api_check) gen_api_sets = true.
Proof. vm_compute. reflexivity. Qed.

Lemma gen_apis_checked apis : In apis gen_api_sets -> forallb api_check apis = true.
Proof.
  intro H. pose proof gen_api_sets_checked as G. rewrite forallb_forall in G. exact (G _ H).
Qed.

(* the unprotected signers reach no keystore entry point other than SignHashAllowed (the one handed
   to the clique engine as block sealer by StartMining); everything else that signs has a protected name *)
Definition n_SignHashAllowed := Eval vm_compute in bs "SignHashAllowed".
Definition targets_check (x : bytes * bytes * bytes * list bytes * list bytes) : bool :=
  match x with
  | (ns, wire, _, ts, ts_without_seal) =>
    if mem_pair (ns, wire) unprotected_signers
    then match ts with [t] => bytes_eqb t n_SignHashAllowed | _ => false end
         && is_nil ts_without_seal      (* every call path to a keystore entry point passes through clique.Clique.Seal *)
    else true
  end.
Lemma gen_exceptions_only_seal : forallb targets_check gen_sign_targets = true.
Proof. vm_compute. reflexivity. Qed.

Lemma gen_meta_checked : api_check gen_meta_api = true.
Proof. vm_compute. reflexivity. Qed.

(* the hand-written predicate agrees with rpc.isProtectedMethodName on every method name in the tree *)
Lemma gen_protected_agrees :
  forallb (fun p => Bool.eqb (is_protected (fst p)) (snd p)) gen_protected_table = true.
Proof. vm_compute. reflexivity. Qed.

(* every function that calls RegisterName (static call graph) is one of the five modelled callers *)
Lemma gen_register_callers_modelled :
  forallb (fun c => mem_bytes c [gen_caller_inproc; gen_caller_ipc; gen_caller_http; gen_caller_ws; gen_caller_newserver])
          gen_register_callers = true.
Proof. vm_compute. reflexivity. Qed.

(* RegisterName's suffix tests applied to the real function names select the transport's own flag *)
Lemma gen_callers_allowed f t : is_allowed f (caller_of gen_callers t) = flag_of f t.
Proof. destruct f, t; vm_compute; reflexivity. Qed.

Lemma gen_newserver_allowed f : is_allowed f (caller_newserver gen_callers) = false.
Proof. destruct f; vm_compute; reflexivity. Qed.


Theorem no_optin_signers_listed apis f t c r e :
  In apis gen_api_sets ->
  flag_of f t = false ->
  gen_exposed f t c apis = Some r -> In e (r_entries r) -> e_signs e = true ->
  In (e_ns e, e_wire e) unprotected_signers.
Proof.
  intro Hin.
  exact (no_optin_signers_listed_generic gen_callers gen_meta_api apis
           gen_callers_allowed gen_newserver_allowed gen_meta_checked (gen_apis_checked apis Hin) f t c r e).
Qed.

Theorem default_env_no_signing_partial apis t c r e :
  In apis gen_api_sets ->
  gen_exposed all_off t c apis = Some r -> In e (r_entries r) ->
  e_signs e = false \/
  In (e_ns e, e_wire e) [ (bs "miner", bs "start"); (bs "aqua", bs "getWork"); (bs "testing", bs "getBlockTemplate") ].
Proof.
  intros Hin H He. destruct (e_signs e) eqn:Hs; [right | left; reflexivity].
  apply (no_optin_signers_listed apis all_off t c r e Hin); [destruct t; reflexivity | exact H | exact He | exact Hs].
Qed.

Theorem no_optin_no_protected_gen apis f t c r e :
  flag_of f t = false ->
  gen_exposed f t c apis = Some r -> In e (r_entries r) ->
  e_sub e = true \/ is_protected (e_go e) = false.
Proof.
  exact (no_optin_no_protected_generic gen_callers gen_meta_api apis
           gen_callers_allowed gen_newserver_allowed f t c r e).
Qed.

(* opt-in is per transport: what transport t serves depends on the environment only through t's own flag *)
Theorem optin_is_per_transport f f' t c apis :
  flag_of f t = flag_of f' t ->
  gen_exposed f t c apis = gen_exposed f' t c apis.
Proof.
  exact (optin_is_per_transport_generic gen_callers gen_meta_api
           gen_callers_allowed gen_newserver_allowed f f' t c apis).
Qed.

(* what is served is exactly what the transport's start function selects and RegisterName keeps *)
Theorem gen_exposed_sound apis f t c r e :
  gen_exposed f t c apis = Some r -> In e (r_entries r) ->
  (exists m, In m (a_methods gen_meta_api) /\ e = mk_entry gen_meta_api m)
  \/ (exists a m, In a apis /\ selected t c a = true /\ In m (a_methods a) /\ e = mk_entry a m
                  /\ (m_sub m = true \/ is_protected (m_name m) = false \/ flag_of f t = true)).
Proof.
  intros H He.
  destruct (exposed_sound _ _ _ _ _ _ _ _ H He) as [[m [Hm [Heq _]]] | [a [m [Ha [Hsel [Hm [Heq Hst]]]]]]].
  - left. exists m. auto.
  - right. exists a, m. rewrite gen_callers_allowed in Hst. auto.
Qed.

Theorem gen_exposed_complete apis f t c r a m :
  gen_exposed f t c apis = Some r ->
  In a apis -> selected t c a = true -> In m (a_methods a) ->
  (m_sub m = true \/ is_protected (m_name m) = false \/ flag_of f t = true) ->
  exists e, In e (r_entries r) /\ same_key e (mk_entry a m) = true.
Proof.
  intros H Ha Hsel Hm Hst.
  apply (exposed_complete gen_callers gen_meta_api f t c apis r a m H Ha Hsel Hm).
  unfold stays. rewrite gen_callers_allowed. exact Hst.
Qed.

(* ---------- dispatch: what a request (single or inside a batch) can invoke ---------- *)

Lemma lookup_in r ns w sub e : lookup r ns w sub = Some e -> In e (r_entries r).
Proof. unfold lookup. intro H. apply find_some in H. tauto. Qed.

(* whatever the method string, the first parameter and the batch flag are: only registered entries *)
Theorem resolve_only_registered r batch meth fp e :
  resolve r batch meth fp = RCallback e \/ resolve r batch meth fp = RSubscription e ->
  In e (r_entries r).
Proof.
  unfold resolve. destruct (parse batch meth fp) as [| | |svc m pubsub]; try (intros [H|H]; discriminate).
  destruct (negb (mem_bytes svc (r_services r))); [intros [H|H]; discriminate|].
  destruct pubsub.
  - destruct (lookup r svc m true) as [e0|] eqn:L; intros [H|H]; try discriminate.
    inversion H. subst. exact (lookup_in _ _ _ _ _ L).
  - destruct (lookup r svc m false) as [e0|] eqn:L; intros [H|H]; try discriminate.
    inversion H. subst. exact (lookup_in _ _ _ _ _ L).
Qed.

(* request-level form of the main theorem: on a transport whose flag is off no request — plain,
   eth_-aliased, prefix-less, subscribe, or element of a batch — resolves to a method that can
   reach a keystore signing entry point, the three sealing methods excepted *)
Theorem no_optin_request_cannot_sign apis f t c r batch meth fp e :
  In apis gen_api_sets ->
  flag_of f t = false ->
  gen_exposed f t c apis = Some r ->
  resolve r batch meth fp = RCallback e \/ resolve r batch meth fp = RSubscription e ->
  e_signs e = false \/
  In (e_ns e, e_wire e) [ (bs "miner", bs "start"); (bs "aqua", bs "getWork"); (bs "testing", bs "getBlockTemplate") ].
Proof.
  intros Hin Hf H Hres. pose proof (resolve_only_registered _ _ _ _ _ Hres) as He.
  destruct (e_signs e) eqn:Hs; [right | left; reflexivity].
  exact (no_optin_signers_listed apis f t c r e Hin Hf H He Hs).
Qed.

(* ---------- refutations: concrete served signing methods in the default environment ---------- *)

Definition serves_signing (apis : list api) (f : flags) (t : transport) (c : config) (name : bytes) : bool :=
  match gen_exposed f t c apis with
  | Some r => existsb (fun e => e_signs e && negb (e_sub e) && bytes_eqb (wire_name e) name) (r_entries r)
  | None => false
  end.

Lemma serves_signing_spec apis f t c name :
  serves_signing apis f t c name = true ->
  exists r e, gen_exposed f t c apis = Some r /\ In e (r_entries r) /\ e_signs e = true /\ wire_name e = name.
Proof.
  unfold serves_signing. destruct (gen_exposed f t c apis) as [r|]; [|discriminate].
  intro H. apply existsb_exists in H. destruct H as [e [He Hb]].
  apply andb_true_iff in Hb. destruct Hb as [Hb Hn]. apply andb_true_iff in Hb. destruct Hb as [Hs _].
  exists r, e. split; [reflexivity|]. split; [exact He|]. split; [exact Hs|].
  destruct (bytes_eqb_spec (wire_name e) name); [assumption | discriminate].
Qed.

Definition n_personal_sasT := Eval vm_compute in bs "personal_signAndSendTransaction".
Definition n_aqua_getWork := Eval vm_compute in bs "aqua_getWork".
Definition n_miner_start := Eval vm_compute in bs "miner_start".
Definition n_testing_gbt := Eval vm_compute in bs "testing_getBlockTemplate".
Definition n_personal_sign := Eval vm_compute in bs "personal_sign".
Definition n_aqua_sign := Eval vm_compute in bs "aqua_sign".

Definition cfg_personal : config := Eval vm_compute in mkConfig [bs "personal"] [bs "personal"] false.

(* the full-strength statement is false of the model of the current tree: on a clique chain, in the
   default environment with the default module whitelist, HTTP serves aqua_getWork, which starts the
   miner, i.e. block sealing with the aquabase keystore key *)
Theorem default_env_no_signing_refuted :
  exists apis t c r e, In apis gen_api_sets /\ gen_exposed all_off t c apis = Some r /\ In e (r_entries r)
                       /\ e_signs e = true /\ wire_name e = n_aqua_getWork.
Proof.
  exists gen_apis_clique, HTTP, gen_default_config.
  destruct (serves_signing_spec gen_apis_clique all_off HTTP gen_default_config n_aqua_getWork) as [r [e H]];
    [vm_compute; reflexivity|].
  exists r, e. split; [right; left; reflexivity | exact H].
Qed.

(* all three exceptions are really served in the default environment (IPC, clique chain) *)
Theorem default_env_exceptions_served :
  serves_signing gen_apis_clique all_off IPC gen_default_config n_miner_start = true /\
  serves_signing gen_apis_clique all_off IPC gen_default_config n_aqua_getWork = true /\
  serves_signing gen_apis_clique all_off IPC gen_default_config n_testing_gbt = true /\
  serves_signing gen_apis_clique all_off WS gen_default_config n_aqua_getWork = true /\
  serves_signing gen_apis all_off HTTP gen_default_config n_aqua_getWork = true.
Proof. vm_compute. repeat split; reflexivity. Qed.

(* ---------- non-vacuity / positive side of the opt-in ---------- *)

Definition only_ipc : flags := mkFlags false true false false false.
Definition only_http : flags := mkFlags false false true false false.

Definition count_entries (o : option registry) : N :=
  match o with Some r => lenN (r_entries r) | None => 0 end.

Definition serves (apis : list api) (f : flags) (t : transport) (c : config) (name : bytes) : bool :=
  match gen_exposed f t c apis with
  | Some r => existsb (fun e => bytes_eqb (wire_name e) name) (r_entries r)
  | None => false
  end.

(* all four servers start in the default environment and serve a non-trivial method set, on both chains *)
Example default_env_starts :
  (100 <=? count_entries (gen_exposed all_off InProc gen_default_config gen_apis))%N = true /\
  (100 <=? count_entries (gen_exposed all_off IPC gen_default_config gen_apis_clique))%N = true /\
  (40 <=? count_entries (gen_exposed all_off HTTP gen_default_config gen_apis))%N = true /\
  (40 <=? count_entries (gen_exposed all_off WS gen_default_config gen_apis_clique))%N = true.
Proof. vm_compute. repeat split; reflexivity. Qed.

(* opting in for IPC enables personal_sign / aqua_sign / personal_signAndSendTransaction on IPC and
   nowhere else; in the default environment they are served nowhere *)
Example optin_ipc_enables_ipc_only :
  serves_signing gen_apis only_ipc IPC gen_default_config n_personal_sign = true /\
  serves_signing gen_apis only_ipc IPC gen_default_config n_aqua_sign = true /\
  serves_signing gen_apis only_ipc IPC gen_default_config n_personal_sasT = true /\
  serves gen_apis only_ipc InProc gen_default_config n_personal_sign = false /\
  serves gen_apis only_ipc HTTP cfg_personal n_personal_sign = false /\
  serves gen_apis only_ipc WS cfg_personal n_personal_sasT = false /\
  serves gen_apis all_off IPC gen_default_config n_personal_sign = false /\
  serves gen_apis all_off IPC gen_default_config n_personal_sasT = false /\
  serves gen_apis all_off HTTP cfg_personal n_personal_sasT = false /\
  serves_signing gen_apis_clique only_http HTTP gen_default_config n_aqua_sign = true /\
  serves gen_apis_clique only_http IPC gen_default_config n_aqua_sign = false.
Proof. vm_compute. repeat split; reflexivity. Qed.

(* UNSAFE_RPC_SIGNING alone changes nothing on any transport *)
Example global_flag_is_dead t c apis :
  gen_exposed (mkFlags true false false false false) t c apis = gen_exposed all_off t c apis.
Proof. apply optin_is_per_transport. destruct t; reflexivity. Qed.

Definition only_ipc_flags : flags := mkFlags false true false false false.

(* the eth_ alias exists for single requests only, and leads to the aqua namespace's registry slot *)
Definition n_eth_sign := Eval vm_compute in bs "eth_sign".
Definition n_eth_getWork := Eval vm_compute in bs "eth_getWork".
Definition is_callback_named (x : resolution) (name : bytes) : bool :=
  match x with RCallback e => bytes_eqb (wire_name e) name | _ => false end.
Definition resolve_on (apis : list api) (f : flags) (t : transport) (c : config) (batch : bool) (meth : bytes) : resolution :=
  match gen_exposed f t c apis with Some r => resolve r batch meth None | None => RInvalid end.

Example eth_alias_single_only :
  is_callback_named (resolve_on gen_apis all_off HTTP gen_default_config false n_eth_getWork) n_aqua_getWork = true /\
  resolve_on gen_apis all_off HTTP gen_default_config true n_eth_getWork = RNotFound /\
  resolve_on gen_apis all_off IPC gen_default_config false n_eth_sign = RNotFound /\
  is_callback_named (resolve_on gen_apis only_ipc_flags IPC gen_default_config false n_eth_sign) n_aqua_sign = true /\
  resolve_on gen_apis only_ipc_flags IPC gen_default_config true n_eth_sign = RNotFound /\
  resolve_on gen_apis only_ipc_flags HTTP gen_default_config false n_eth_sign = RNotFound.
Proof. vm_compute. repeat split; reflexivity. Qed.

