(* Rpc/Invoke.v — model of the request path of the RPC server (property C18): from a decoded
   JSON-RPC message to the callback that gets CALLED, if any.

   Code modelled (branch for branch):
     /repo/rpc/json.go    checkReqId (as a boolean of the request), parseRequest / parseBatchRequest
                          (Dispatch.parse, with the subscription name taken from the params the way
                          json.Unmarshal into [1]string does), parsePositionalArguments
     /repo/rpc/server.go  readRequest (per request: lookup, "r.params != nil && len(argTypes) > 0"
                          argument parsing, per-request errors), handle (req.err, unsubscribe,
                          subscribe -> createSubscription calls the method, argument-count check,
                          method.Func.Call), exec / execBatch (every element handled in turn)
   Oracle inputs (not modelled, quantified in the theorems): whether a JSON value decodes into a Go
   argument type ([j_decodes]), and the argument list of each registered callback ([argtab]: one
   bool per argument, true = pointer type = optional).  Not modelled: what the callback does,
   response encoding, the notifier, server shutdown.  Definitions only; proofs in RpcProofs.v. *)
From AQ Require Import Lib.Bytes Rpc.Registry Rpc.Dispatch.
Import ListNotations.
Open Scope list_scope.

(* one element of a "params" array *)
Inductive jkind := JStr (s : bytes) | JNullElem | JOtherElem.
Record jelem := mkElem {
  j_kind : jkind;
  j_decodes : bool   (* oracle: dec.Decode into the Go type at this position succeeds *)
}.

(* the "params" member *)
Inductive jparams :=
| JAbsent                      (* no member / empty RawMessage: rpcRequest.params = nil *)
| JNull                        (* the literal null *)
| JScalarOrObject              (* present, neither an array nor null *)
| JArray (elems : list jelem).

Record request := mkReq {
  q_method : bytes;            (* the "method" member as decoded (UTF-8 bytes) *)
  q_id_ok : bool;              (* checkReqId: the id is a number, a string or null *)
  q_params : jparams
}.

(* json.Unmarshal(payload, &[1]string): the subscription name.  None = error.
   null -> no-op (""), [] -> "", first element null -> "", first element a string -> it. *)
Definition first_param_of (p : jparams) : option bytes :=
  match p with
  | JAbsent => None                       (* len(Payload) == 0: "Unable to parse subscription request" *)
  | JNull => Some []
  | JScalarOrObject => None
  | JArray [] => Some []
  | JArray (e :: _) =>
    match j_kind e with JStr s => Some s | JNullElem => Some [] | JOtherElem => None end
  end.

(* parsePositionalArguments(rawArgs, types): types as "is pointer" flags.  true = parsed. *)
Fixpoint positional (elems : list jelem) (types : list bool) : bool :=
  match elems, types with
  | [], rest => forallb (fun is_ptr => is_ptr) rest      (* missing args must be pointer-typed *)
  | _ :: _, [] => false                                  (* too many arguments *)
  | e :: et, _ :: tys => j_decodes e && positional et tys  (* invalid argument i *)
  end.

Definition parse_args (p : jparams) (types : list bool) : bool :=
  match p with
  | JArray elems => positional elems types
  | _ => false                                           (* non-array args *)
  end.

Inductive verdict :=
| VInvalidRequest      (* the whole message is rejected (invalid id, unusable subscribe params) *)
| VNotFound            (* methodNotFoundError *)
| VInvalidParams       (* invalidParamsError from argument parsing or the argument-count check *)
| VUnsubscribe         (* handled by the notifier; no registered callback is called *)
| VInvoked (e : entry) (* callb.method.Func.Call(...) happens *).

Definition is_absent (p : jparams) : bool := match p with JAbsent => true | _ => false end.

(* readRequest + handle for one request that passed the parser *)
Definition run_resolved (argtab : entry -> list bool) (q : request) (x : resolution) : verdict :=
  match x with
  | RInvalid => VInvalidRequest
  | RUnsubscribe => VUnsubscribe
  | RNotFound => VNotFound
  | RSubscription e =>
    (* argTypes := string :: callb.argTypes; only parsed when len(callb.argTypes) > 0 (params are never nil here) *)
    if is_nil (argtab e) then VInvoked e
    else if parse_args (q_params q) (false :: argtab e) then VInvoked e else VInvalidParams
  | RCallback e =>
    if is_nil (argtab e) then VInvoked e                       (* no argument parsing, count 0 = 0 *)
    else if is_absent (q_params q) then VInvalidParams         (* "expects n parameters, got 0" *)
    else if parse_args (q_params q) (argtab e) then VInvoked e else VInvalidParams
  end.

(* a single (non-batch) message *)
Definition invoke_single (r : registry) (argtab : entry -> list bool) (q : request) : verdict :=
  if negb (q_id_ok q) then VInvalidRequest
  else run_resolved argtab q (resolve r false (q_method q) (first_param_of (q_params q))).

(* a batch: one bad id or one unusable subscribe rejects the whole array (None); otherwise every
   element is resolved and handled on its own *)
Definition rejects_batch (q : request) : bool :=
  negb (q_id_ok q) ||
  match parse true (q_method q) (first_param_of (q_params q)) with PInvalid => true | _ => false end.

Definition invoke_batch (r : registry) (argtab : entry -> list bool) (qs : list request) : option (list verdict) :=
  if existsb rejects_batch qs then None
  else Some (map (fun q => run_resolved argtab q (resolve r true (q_method q) (first_param_of (q_params q)))) qs).

(* everything a message can get called *)
Definition invoked_of (vs : list verdict) : list entry :=
  flat_map (fun v => match v with VInvoked e => [e] | _ => [] end) vs.

Definition invoke_message (r : registry) (argtab : entry -> list bool) (batch : bool) (qs : list request) : list entry :=
  if batch then match invoke_batch r argtab qs with Some vs => invoked_of vs | None => [] end
  else match qs with [q] => invoked_of [invoke_single r argtab q] | _ => [] end.
