(* Extraction of the RPC lock-down model for ocaml/rpc/driver.ml.  ExtrOcamlBasic only. *)
From AQ Require Import Lib.Bytes Lib.ExtractBase Rpc.Registry Rpc.Dispatch Rpc.Invoke Generated.GenApis Rpc.RpcModel.
Require Extraction.
Require Import ExtrOcamlBasic.
Extraction "../ocaml/rpc/model.ml" base_anchor
  gen_exposed gen_apis gen_apis_clique gen_meta_api gen_default_config gen_callers
  exposed register is_allowed is_protected env_bool format_name wire_name modules signs_of
  all_off flag_of register_all new_server resolve parse
  invoke_single invoke_batch invoke_message gen_argtab first_param_of.
