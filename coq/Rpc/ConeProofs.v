(* Rpc/ConeProofs.v — the static reachability part of C18 as a checked artefact.

   Generated/GenApis.v carries the key-use cone of the VTA call graph: every function from which a
   keystore signing entry point is reachable, with the call edges among them (gen_cone_nodes: id and
   kind, gen_cone_edges).  Here Coq itself (not the Go analysis) establishes, by a closure computation
   over that graph plus a generic path lemma, that EVERY call path from an RPC callback without a
   protected name to a signing entry point passes through a gate: clique.Clique.Seal or an RPC callback
   with a protected name.  Trusted: that the emitted graph is the backward slice of a sound call graph
   (edges from outside the cone into it cannot exist by construction of a backward slice). *)
From AQ Require Import Lib.Bytes Rpc.Registry Generated.GenApis.
From Coq Require Strings.String.
Import String.StringSyntax.
Import ListNotations.
Open Scope list_scope.
Open Scope N_scope.

Definition memN (x : N) (l : list N) : bool := existsb (N.eqb x) l.
Definition has_edge (edges : list (N * N)) (u v : N) : bool :=
  existsb (fun e => N.eqb (fst e) u && N.eqb (snd e) v) edges.

Section Graph.
  Variable edges : list (N * N).
  Variable gate : N -> bool.

  (* consecutive nodes are joined by an edge *)
  Fixpoint is_path (p : list N) : bool :=
    match p with
    | a :: ((b :: _) as t) => has_edge edges a b && is_path t
    | _ => true
    end.

  (* S is closed under edges into non-gate nodes *)
  Definition closed (S : list N) : bool :=
    forallb (fun e => implb (memN (fst e) S && negb (gate (snd e))) (memN (snd e) S)) edges.

  Lemma has_edge_in u v : has_edge edges u v = true -> In (u, v) edges.
  Proof.
    unfold has_edge. intro H. apply existsb_exists in H. destruct H as [[a b] [Hin Hb]].
    cbn in Hb. apply andb_true_iff in Hb. destruct Hb as [Ha Hb'].
    apply N.eqb_eq in Ha. apply N.eqb_eq in Hb'. subst. exact Hin.
  Qed.

  (* a path that starts inside a closed set and meets no gate after its first node stays inside *)
  Lemma path_stays S : closed S = true ->
    forall p a, is_path (a :: p) = true -> memN a S = true ->
    existsb gate p = false -> forall x, In x (a :: p) -> memN x S = true.
  Proof.
    intros Hc. induction p as [|b p IH]; intros a Hp Ha Hg x Hx.
    - destruct Hx as [Hx|[]]. subst. exact Ha.
    - cbn [existsb] in Hg. apply orb_false_iff in Hg. destruct Hg as [Hgb Hgp].
      cbn [is_path] in Hp. apply andb_true_iff in Hp. destruct Hp as [He Hp].
      assert (Hb : memN b S = true).
      { unfold closed in Hc. rewrite forallb_forall in Hc.
        specialize (Hc _ (has_edge_in _ _ He)). cbn [fst snd] in Hc.
        rewrite Ha, Hgb in Hc. cbn in Hc. exact Hc. }
      destruct Hx as [Hx|Hx]; [subst; exact Ha|].
      exact (IH b Hp Hb Hgp x Hx).
  Qed.

  (* hence: if a closed set contains the start and no target, every path from the start to a target
     meets a gate after its first node *)
  Theorem paths_meet_a_gate S target :
    closed S = true ->
    (forall x, memN x S = true -> target x = false) ->
    forall p a t, is_path (a :: p) = true -> memN a S = true ->
    In t (a :: p) -> target t = true ->
    existsb gate p = true.
  Proof.
    intros Hc Hnt p a t Hp Ha Ht Htt.
    destruct (existsb gate p) eqn:Hg; [reflexivity|].
    pose proof (path_stays S Hc p a Hp Ha Hg t Ht) as Hin.
    rewrite (Hnt t Hin) in Htt. discriminate.
  Qed.
End Graph.

(* ---------- the generated cone ---------- *)

Definition kind_of (x : N) : N :=
  match find (fun n => N.eqb (fst n) x) gen_cone_nodes with Some n => snd n | None => 0 end.
Definition cone_target (x : N) : bool := N.eqb (kind_of x) 1.
Definition cone_gate (x : N) : bool := N.eqb (kind_of x) 2 || N.eqb (kind_of x) 3.
Definition cone_unprotected_callbacks : list N :=
  map fst (filter (fun n => N.eqb (snd n) 4) gen_cone_nodes).

(* closure of the unprotected callbacks under edges into non-gate nodes, computed by iteration *)
Definition step (S : list N) : list N :=
  fold_left (fun acc e => if memN (fst e) acc && negb (cone_gate (snd e)) && negb (memN (snd e) acc)
                          then snd e :: acc else acc) gen_cone_edges S.
Fixpoint iterate (fuel : nat) (S : list N) : list N :=
  match fuel with O => S | Datatypes.S k => iterate k (step S) end.
Definition cone_reach : list N := iterate (List.length gen_cone_nodes) cone_unprotected_callbacks.

Lemma cone_reach_closed : closed gen_cone_edges cone_gate cone_reach = true.
Proof. vm_compute. reflexivity. Qed.
Lemma cone_reach_has_roots : forallb (fun x => memN x cone_reach) cone_unprotected_callbacks = true.
Proof. vm_compute. reflexivity. Qed.
Lemma cone_reach_no_target : forallb (fun x => negb (cone_target x)) cone_reach = true.
Proof. vm_compute. reflexivity. Qed.

Lemma memN_In x l : memN x l = true -> In x l.
Proof.
  unfold memN. intro H. apply existsb_exists in H. destruct H as [y [Hy He]].
  apply N.eqb_eq in He. subst. exact Hy.
Qed.
Lemma In_memN x l : In x l -> memN x l = true.
Proof. intro H. unfold memN. apply existsb_exists. exists x. split; [exact H | apply N.eqb_refl]. Qed.

(* every call path in the key-use cone from an RPC callback without a protected name to a keystore
   signing entry point passes, after its first node, through clique.Clique.Seal or through an RPC
   callback with a protected name *)
Theorem unprotected_paths_pass_the_gate :
  forall (p : list N) (a t : N),
  In a cone_unprotected_callbacks ->
  is_path gen_cone_edges (a :: p) = true ->
  In t (a :: p) -> cone_target t = true ->
  existsb cone_gate p = true.
Proof.
  intros p a t Ha Hp Ht Htt.
  apply (paths_meet_a_gate gen_cone_edges cone_gate cone_reach cone_target cone_reach_closed) with (a := a) (t := t); auto.
  - intros x Hx. pose proof cone_reach_no_target as G. rewrite forallb_forall in G.
    specialize (G x (memN_In _ _ Hx)). apply negb_true_iff in G. exact G.
  - pose proof cone_reach_has_roots as G. rewrite forallb_forall in G. exact (G a Ha).
Qed.

(* the artefact is what the other tables say it is: the unprotected callbacks in the cone are exactly the
   three sealing methods, every callback that the API tables mark as signing is a cone node, all six
   keystore entry points are targets, and there is one Seal node *)
Definition cone_names_of_kind (k : N) : list bytes :=
  map snd (filter (fun c => N.eqb (kind_of (fst c)) k) gen_cone_callbacks).
Lemma cone_consistent :
  cone_names_of_kind 4 = [bs "miner_start"; bs "aqua_getWork"; bs "testing_getBlockTemplate"] /\
  forallb (fun x => match x with (ns, wire, _, _, _) =>
             existsb (fun c => bytes_eqb (snd c) (ns ++ ("_"%byte :: wire))) gen_cone_callbacks end) gen_sign_targets = true /\
  List.length (filter (fun n => N.eqb (snd n) 1) gen_cone_nodes) = 6%nat /\
  List.length (filter (fun n => N.eqb (snd n) 2) gen_cone_nodes) = 1%nat /\
  forallb (fun e => memN (fst e) (map fst gen_cone_nodes) && memN (snd e) (map fst gen_cone_nodes)) gen_cone_edges = true.
Proof. vm_compute. repeat split; reflexivity. Qed.

(* non-vacuity: a real path miner_start -> ... -> SignHashAllowed exists in the cone and does pass Seal;
   with Seal not counted as a gate the closure would reach a target *)
(* non-vacuity (independent of node numbering): there are unprotected callbacks in the cone, and if Seal is
   not counted as a gate the same closure DOES reach a signing entry point — so paths from them to a
   target exist, and it is Seal that every one of them crosses *)
Definition closure_ignoring_seal : list N :=
  fold_left (fun S _ => fold_left (fun acc e => if memN (fst e) acc && negb (N.eqb (kind_of (snd e)) 3) && negb (memN (snd e) acc)
                                                 then snd e :: acc else acc) gen_cone_edges S)
            gen_cone_nodes cone_unprotected_callbacks.
Example cone_nonvacuous :
  negb (is_nil cone_unprotected_callbacks) = true /\
  existsb cone_target closure_ignoring_seal = true /\
  existsb cone_target cone_reach = false.
Proof. vm_compute. repeat split; reflexivity. Qed.
