(* Rpc/ExposureProofs.v — node-level composition (property C18): which API reaches which transport.
   node.go startHTTP / startWS select by the module whitelist and the per-API Public flag; this file
   characterises the served slots exactly and shows what about a whitelist matters (membership of the
   registered namespaces and emptiness — not order, duplicates, unknown names; matching is exact,
   hence case-sensitive). *)
From AQ Require Import Lib.Bytes Rpc.Registry Generated.GenApis Rpc.RpcModel Rpc.RpcProofs.
From Coq Require Strings.String.
Import String.StringSyntax.
Import ListNotations.
Open Scope list_scope.

(* whitelist[api.Namespace] || (len(whitelist) == 0 && api.Public) *)
Definition whitelisted (mods : list bytes) (a : api) : bool :=
  mem_bytes (a_ns a) mods || (is_nil mods && a_public a).

Lemma selected_http c a : selected HTTP c a = whitelisted (c_http_modules c) a.
Proof. reflexivity. Qed.
Lemma selected_ws c a : selected WS c a = c_ws_expose_all c || whitelisted (c_ws_modules c) a.
Proof. unfold selected, whitelisted. rewrite orb_assoc. reflexivity. Qed.

Definition slot_of (ns wire : bytes) (sub : bool) (e : entry) : Prop :=
  e_ns e = ns /\ e_wire e = wire /\ e_sub e = sub.

Lemma same_key_slot e x : same_key e x = true -> slot_of (e_ns x) (e_wire x) (e_sub x) e.
Proof. rewrite same_key_true. unfold slot_of. tauto. Qed.

(* the metadata service's slots survive every later registration *)
Lemma meta_slots_served cs meta f t c apis r m :
  exposed cs meta f t c apis = Some r ->
  register f (caller_newserver cs) empty_registry meta <> None ->
  In m (a_methods meta) -> stays (is_allowed f (caller_newserver cs)) m ->
  exists e, In e (r_entries r) /\ same_key e (mk_entry meta m) = true.
Proof.
  unfold exposed, new_server. intros H Hreg Hm Hst.
  destruct (register f (caller_newserver cs) empty_registry meta) as [r0|] eqn:R; [|contradiction].
  destruct (register_removes_exactly_protected _ _ _ _ _ R) as [_ [S2 _]].
  destruct (S2 _ Hm Hst) as [e0 [He0 Hk0]].
  destruct (register_all_complete _ _ _ _ _ H) as [K1 _].
  destruct (K1 _ He0) as [e [He Hk]]. exists e. split; [exact He|].
  eapply same_key_trans; eassumption.
Qed.

(* EXACT characterisation of what a transport serves, slot by slot (namespace, wire name, callback or
   subscription): a slot is served iff it belongs to the metadata service or to a method that (1) belongs
   to an API the start function selects and (2) passes RegisterName's filter *)
Theorem served_slots_characterised apis f t c r ns wire sub :
  gen_exposed f t c apis = Some r ->
  ((exists e, In e (r_entries r) /\ slot_of ns wire sub e) <->
   ((exists m, In m (a_methods gen_meta_api) /\ slot_of ns wire sub (mk_entry gen_meta_api m)) \/
    (exists a m, In a apis /\ selected t c a = true /\ In m (a_methods a) /\
                 slot_of ns wire sub (mk_entry a m) /\
                 (m_sub m = true \/ is_protected (m_name m) = false \/ flag_of f t = true)))).
Proof.
  intro H. split.
  - intros [e [He Hs]].
    destruct (gen_exposed_sound apis f t c r e H He) as [[m [Hm Heq]] | [a [m [Ha [Hsel [Hm [Heq Hst]]]]]]].
    + left. exists m. subst e. auto.
    + right. exists a, m. subst e. auto 10.
  - intros [[m [Hm Hs]] | [a [m [Ha [Hsel [Hm [Hs Hst]]]]]]].
    + assert (Hreg : register f (caller_newserver gen_callers) empty_registry gen_meta_api <> None).
      { unfold register. vm_compute. discriminate. }
      assert (Hst : stays (is_allowed f (caller_newserver gen_callers)) m).
      { pose proof gen_meta_checked as G. unfold stays.
        assert (K : forallb (fun m => m_sub m || negb (is_protected (m_name m))) (a_methods gen_meta_api) = true)
          by (vm_compute; reflexivity).
        rewrite forallb_forall in K. specialize (K _ Hm).
        apply orb_true_iff in K. destruct K as [K|K]; [left; exact K | right; left; apply negb_true_iff; exact K]. }
      destruct (meta_slots_served gen_callers gen_meta_api f t c apis r m H Hreg Hm Hst) as [e [He Hk]].
      exists e. split; [exact He|]. apply same_key_slot in Hk.
      unfold slot_of in *. intuition congruence.
    + destruct (gen_exposed_complete apis f t c r a m H Ha Hsel Hm Hst) as [e [He Hk]].
      exists e. split; [exact He|]. apply same_key_slot in Hk.
      unfold slot_of in *. intuition congruence.
Qed.

(* HTTP: served = whitelisted (or Public when the whitelist is empty) and not filtered *)
Corollary http_exposure apis f c r ns wire sub :
  gen_exposed f HTTP c apis = Some r ->
  ((exists e, In e (r_entries r) /\ slot_of ns wire sub e) <->
   ((exists m, In m (a_methods gen_meta_api) /\ slot_of ns wire sub (mk_entry gen_meta_api m)) \/
    (exists a m, In a apis /\ whitelisted (c_http_modules c) a = true /\ In m (a_methods a) /\
                 slot_of ns wire sub (mk_entry a m) /\
                 (m_sub m = true \/ is_protected (m_name m) = false \/ f_http f = true)))).
Proof. exact (served_slots_characterised apis f HTTP c r ns wire sub). Qed.

Corollary ws_exposure apis f c r ns wire sub :
  gen_exposed f WS c apis = Some r ->
  ((exists e, In e (r_entries r) /\ slot_of ns wire sub e) <->
   ((exists m, In m (a_methods gen_meta_api) /\ slot_of ns wire sub (mk_entry gen_meta_api m)) \/
    (exists a m, In a apis /\ (c_ws_expose_all c || whitelisted (c_ws_modules c) a) = true /\ In m (a_methods a) /\
                 slot_of ns wire sub (mk_entry a m) /\
                 (m_sub m = true \/ is_protected (m_name m) = false \/ f_ws f = true)))).
Proof.
  intro H. rewrite (served_slots_characterised apis f WS c r ns wire sub H).
  split; (intros [L | [a [m [Ha [Hsel R]]]]]; [left; exact L | right; exists a, m; split; [exact Ha|]; split; [|exact R]]).
  - rewrite <- selected_ws. exact Hsel.
  - rewrite selected_ws. exact Hsel.
Qed.

(* what matters about the configuration: only which registered namespaces are members and whether the
   lists are empty — order, duplicates and unknown module names are irrelevant *)
Lemma filter_ext_in {A} (p q : A -> bool) l : (forall x, In x l -> p x = q x) -> filter p l = filter q l.
Proof.
  induction l as [|x l IH]; intro H; [reflexivity|]. cbn [filter].
  rewrite (H x (or_introl eq_refl)). rewrite IH; [reflexivity|].
  intros y Hy. apply H. right. exact Hy.
Qed.

Theorem exposure_depends_on_membership apis f t c c' :
  (forall a, In a apis -> mem_bytes (a_ns a) (c_http_modules c) = mem_bytes (a_ns a) (c_http_modules c')) ->
  (forall a, In a apis -> mem_bytes (a_ns a) (c_ws_modules c) = mem_bytes (a_ns a) (c_ws_modules c')) ->
  is_nil (c_http_modules c) = is_nil (c_http_modules c') ->
  is_nil (c_ws_modules c) = is_nil (c_ws_modules c') ->
  c_ws_expose_all c = c_ws_expose_all c' ->
  gen_exposed f t c apis = gen_exposed f t c' apis.
Proof.
  intros Hh Hw Nh Nw He. unfold gen_exposed, exposed.
  rewrite (filter_ext_in (selected t c) (selected t c') apis); [reflexivity|].
  intros a Ha. destruct t; cbn [selected]; try reflexivity.
  - rewrite (Hh a Ha), Nh. reflexivity.
  - rewrite (Hw a Ha), Nw, He. reflexivity.
Qed.

Definition cfg (h w : list bytes) (all : bool) : config := mkConfig h w all.
Definition count_served (o : option registry) : N := match o with Some r => lenN (r_entries r) | None => 0 end.

(* duplicates, order, unknown names: same exposure; case differences and a list of unknown names only:
   nothing but the metadata service (NOT the Public default); empty list: the Public APIs *)
Example whitelist_examples :
  gen_exposed all_off HTTP (cfg [bs "aqua"; bs "net"] [] false) gen_apis
    = gen_exposed all_off HTTP (cfg [bs "net"; bs "nosuch"; bs "aqua"; bs "aqua"; bs ""] [] false) gen_apis /\
  count_served (gen_exposed all_off HTTP (cfg [bs "Aqua"; bs "PERSONAL"; bs " aqua"] [] false) gen_apis) = 1%N /\
  count_served (gen_exposed all_off HTTP (cfg [bs "nosuch"] [] false) gen_apis) = 1%N /\
  (40 <=? count_served (gen_exposed all_off HTTP (cfg [] [] false) gen_apis))%N = true /\
  count_served (gen_exposed all_off WS (cfg [] [bs "nosuch"] true) gen_apis)
    = count_served (gen_exposed all_off IPC (cfg [] [] false) gen_apis).
Proof. vm_compute. repeat split; reflexivity. Qed.
