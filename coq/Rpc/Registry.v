(* Rpc/Registry.v — executable model of the RPC signing lock-down (property C18).

   Code modelled (branch for branch):
     /repo/rpc/server.go      NewServer, RegisterName, isProtectedMethodName, the five
                              allow_* package variables read from the environment
     /repo/rpc/utils.go       formatName
     /repo/common/sense/ext.go EnvBool / boolString
     /repo/node/node.go       startRPC, startInProc, startIPC, startHTTP, startWS
                              (which rpc.API goes to which transport's server)
   Data (which services exist, their method sets as suitableCallbacks sees them, the
   per-method "reaches a keystore signing entry point" bit, the names of the start
   functions) comes from Generated/GenApis.v.

   Names are [bytes] (list byte), not [string]: the extracted model must not
   define a type called string (ocaml/common/vh.ml is compiled under open Model).
   Constants are written as [Eval vm_compute in bs "..."] so that only byte lists
   are extracted.  Definitions only; proofs are in RpcProofs.v. *)
From AQ Require Import Lib.Bytes.
From Coq Require Strings.String.
Import String.StringSyntax.
Delimit Scope string_scope with string.
Import ListNotations.
Open Scope list_scope.

Definition bs (s : String.string) : bytes := String.list_byte_of_string s.
Arguments bs _%string.

(* ---------- small byte-string helpers ---------- *)

Fixpoint drop {A} (n : nat) (l : list A) : list A :=
  match n, l with O, _ => l | S k, [] => [] | S k, _ :: t => drop k t end.

(* strings.HasSuffix *)
Definition has_suffix (s suf : bytes) : bool :=
  if Nat.leb (length suf) (length s)
  then bytes_eqb (drop (length s - length suf) s) suf
  else false.

(* ASCII lower-casing of one byte: 'A'..'Z' -> +32 *)
Definition lower_byte (b : byte) : byte :=
  let n := b2n b in
  if andb (N.leb 65 n) (N.leb n 90) then n2b (n + 32) else b.

(* rpc/utils.go formatName: first rune to lower case (method names are ASCII identifiers;
   the translator refuses to generate anything else) *)
Definition format_name (name : bytes) : bytes :=
  match name with [] => [] | c :: t => lower_byte c :: t end.

(* path/filepath.Base restricted to what RegisterName feeds it (a non-empty function name
   without trailing slash): everything after the last '/' *)
Fixpoint base_acc (cur : bytes) (s : bytes) : bytes :=
  match s with
  | [] => rev cur
  | c :: t => if byte_eqb c "/"%byte then base_acc [] t else base_acc (c :: cur) t
  end.
Definition path_base (s : bytes) : bytes := base_acc [] s.

Fixpoint mem_bytes (x : bytes) (l : list bytes) : bool :=
  match l with [] => false | y :: t => if bytes_eqb x y then true else mem_bytes x t end.

(* ---------- environment -> flags (common/sense/ext.go) ---------- *)

Definition s_true := Eval vm_compute in map bs ["true"; "yes"; "1"; "on"; "enabled"; "enable"]%string.
Definition s_false := Eval vm_compute in map bs ["false"; "no"; "0"; "off"; "disabled"; "disable"]%string.

(* boolString(s, unset, unparsable) *)
Definition bool_string (s : bytes) (unset unparsable : bool) : bool :=
  let l := map lower_byte s in
  match l with
  | [] => unset
  | _ => if mem_bytes l s_true then true
         else if mem_bytes l s_false then false
         else unparsable
  end.

(* EnvBool(name): None = variable not set *)
Definition env_bool (v : option bytes) : bool :=
  match v with None => false | Some x => bool_string x false true end.

(* the five package variables of rpc/server.go *)
Record flags := mkFlags {
  f_all    : bool;   (* allow_all_rpc_signing  UNSAFE_RPC_SIGNING        (read, never used) *)
  f_ipc    : bool;   (* allow_sign_ipc         UNSAFE_ALLOW_SIGN_IPC *)
  f_http   : bool;   (* allow_sign_http        UNSAFE_RPC_SIGNING_HTTP *)
  f_ws     : bool;   (* allow_sign_ws          UNSAFE_RPC_SIGNING_WS *)
  f_inproc : bool    (* allow_sign_inProc      UNSAFE_ALLOW_SIGN_INPROC *)
}.
Definition all_off : flags := mkFlags false false false false false.

Inductive transport := InProc | IPC | HTTP | WS.

Definition flag_of (f : flags) (t : transport) : bool :=
  match t with InProc => f_inproc f | IPC => f_ipc f | HTTP => f_http f | WS => f_ws f end.

Definition transport_eqb (a b : transport) : bool :=
  match a, b with InProc, InProc | IPC, IPC | HTTP, HTTP | WS, WS => true | _, _ => false end.

(* ---------- services ---------- *)

(* one method as suitableCallbacks classifies it *)
Record method := mkMethod {
  m_name  : bytes;   (* Go method name *)
  m_sub   : bool;    (* subscription (isPubSub) rather than callback *)
  m_signs : bool     (* a keystore signing entry point is reachable from it (static call graph) *)
}.

(* one rpc.API entry together with what reflection finds on its Service *)
Record api := mkApi {
  a_ns       : bytes;        (* Namespace *)
  a_recv     : bytes;        (* service type, e.g. *aquaapi.PrivateAccountAPI *)
  a_exported : bool;         (* isExported(type name) *)
  a_public   : bool;         (* Public *)
  a_methods  : list method   (* callbacks and subscriptions found by suitableCallbacks *)
}.

(* one served callback: Server.services[ns].callbacks[wire] (or .subscriptions[wire]) *)
Record entry := mkEntry {
  e_ns    : bytes;
  e_wire  : bytes;   (* formatName(method name) *)
  e_sub   : bool;
  e_go    : bytes;
  e_recv  : bytes;
  e_signs : bool
}.

Record registry := mkReg {
  r_services : list bytes;   (* keys of Server.services, in order of first registration *)
  r_entries  : list entry
}.
Definition empty_registry : registry := mkReg [] [].

Definition mk_entry (a : api) (m : method) : entry :=
  mkEntry (a_ns a) (format_name (m_name m)) (m_sub m) (m_name m) (a_recv a) (m_signs m).

(* same map slot: same service, same map (callbacks / subscriptions), same key *)
Definition same_key (x y : entry) : bool :=
  bytes_eqb (e_ns x) (e_ns y) && Bool.eqb (e_sub x) (e_sub y) && bytes_eqb (e_wire x) (e_wire y).

(* regsvc.callbacks[formatName(name)] = m : add or replace *)
Definition insert (e : entry) (es : list entry) : list entry :=
  e :: filter (fun x => negb (same_key x e)) es.

(* rpc/server.go isProtectedMethodName *)
Definition n_SignTransaction := Eval vm_compute in bs "SignTransaction".
Definition n_Sign := Eval vm_compute in bs "Sign".
Definition n_SendTransaction := Eval vm_compute in bs "SendTransaction".
Definition n_SignAndSendTransaction := Eval vm_compute in bs "SignAndSendTransaction".
Definition is_protected (name : bytes) : bool :=
  bytes_eqb name n_SignTransaction || bytes_eqb name n_Sign || bytes_eqb name n_SendTransaction
  || bytes_eqb name n_SignAndSendTransaction.

Definition suf_startIPC := Eval vm_compute in bs ".startIPC".
Definition suf_startInProc := Eval vm_compute in bs ".startInProc".
Definition suf_startHTTP := Eval vm_compute in bs ".startHTTP".
Definition suf_startWS := Eval vm_compute in bs ".startWS".

(* RegisterName: funcname := filepath.Base(stack.Caller(1).Frame().Function); is_allowed starts
   false and is overwritten by each of the four suffix tests in source order *)
Definition is_allowed (f : flags) (caller : bytes) : bool :=
  let funcname := path_base caller in
  let a := false in
  let a := if has_suffix funcname suf_startIPC then f_ipc f else a in
  let a := if has_suffix funcname suf_startInProc then f_inproc f else a in
  let a := if has_suffix funcname suf_startHTTP then f_http f else a in
  let a := if has_suffix funcname suf_startWS then f_ws f else a in
  a.

(* the loop "for k, m := range methods": a callback stays unless its Go name is protected and
   the caller's transport is not opted in; subscriptions are never filtered *)
Definition kept (allowed : bool) (m : method) : bool :=
  m_sub m || negb (is_protected (m_name m)) || allowed.

Definition is_nil {A} (l : list A) : bool := match l with [] => true | _ => false end.

(* Server.RegisterName(name, rcvr) called from function [caller].  None = error return. *)
Definition register (f : flags) (caller : bytes) (r : registry) (a : api) : option registry :=
  if is_nil (a_ns a) then None                         (* name == "" *)
  else if negb (a_exported a) then None                (* type not exported *)
  else if is_nil (a_methods a) then None               (* no suitable methods/subscriptions *)
  else
    let ms := filter (kept (is_allowed f caller)) (a_methods a) in
    Some (mkReg (if mem_bytes (a_ns a) (r_services r) then r_services r else r_services r ++ [a_ns a])
                (fold_left (fun es m => insert (mk_entry a m) es) ms (r_entries r))).

Fixpoint register_all (f : flags) (caller : bytes) (r : registry) (apis : list api) : option registry :=
  match apis with
  | [] => Some r
  | a :: rest =>
    match register f caller r a with
    | None => None                                     (* the start* function returns the error *)
    | Some r' => register_all f caller r' rest
    end
  end.

(* rpc.NewServer: registers the metadata service; an error is only logged *)
Definition new_server (f : flags) (newserver_caller : bytes) (meta : api) : registry :=
  match register f newserver_caller empty_registry meta with
  | Some r => r
  | None => empty_registry
  end.

(* the part of node.Config that decides which API goes where *)
Record config := mkConfig {
  c_http_modules  : list bytes;   (* HTTPModules *)
  c_ws_modules    : list bytes;   (* WSModules *)
  c_ws_expose_all : bool          (* WSExposeAll *)
}.

(* node.go: startInProc / startIPC register every API; startHTTP those with
   whitelist[ns] || (len(whitelist)==0 && Public); startWS additionally exposeAll *)
Definition selected (t : transport) (c : config) (a : api) : bool :=
  match t with
  | InProc | IPC => true
  | HTTP => mem_bytes (a_ns a) (c_http_modules c) || (is_nil (c_http_modules c) && a_public a)
  | WS => c_ws_expose_all c || mem_bytes (a_ns a) (c_ws_modules c) || (is_nil (c_ws_modules c) && a_public a)
  end.

(* names of the functions that call RegisterName: per transport, and rpc.NewServer *)
Record callers := mkCallers {
  caller_of : transport -> bytes;
  caller_newserver : bytes
}.

(* the registry the node serves on transport [t]; None = the start function failed *)
Definition exposed (cs : callers) (meta : api) (f : flags) (t : transport) (c : config) (apis : list api)
  : option registry :=
  register_all f (caller_of cs t) (new_server f (caller_newserver cs) meta) (filter (selected t c) apis).

(* rpc_modules *)
Definition modules (r : registry) : list bytes := r_services r.

(* "ns_wire" *)
Definition wire_name (e : entry) : bytes := e_ns e ++ ("_"%byte :: e_wire e).
