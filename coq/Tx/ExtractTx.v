(* Extraction of the transaction / supply model for ocaml/tx/driver.ml.  ExtrOcamlBasic only. *)
From AQ Require Import Lib.Bytes Lib.ExtractBase Lib.Keccak Tx.Transition Tx.Supply Tx.Compose.
Require Extraction.
Require Import ExtrOcamlBasic.
Extraction "../ocaml/tx/model.ml" base_anchor keccak256
  get upd supply builtin_cfg intrinsic_gas create_address transition_db apply_transaction
  process block_valid validate_gas_used accumulate_rewards apply_hf4 issuance refund_amount
  add_balance set_nonce
  apply_transaction_e process_e accumulate_rewards_e finalise_e materialise ghosts is_forked
  apply_transaction_i dg_c sg_c code_of_c stor_of_c.
