(* Tx/Supply.v — specification side of C05, written from the property text
   (not from the code): the issuance schedule and the predicates the supply
   theorems are stated with.  Definitions only. *)
From AQ Require Import Lib.Bytes Tx.Transition.
Import ListNotations.
Local Open Scope Z_scope.

(* one AQUA in wei *)
Definition aqua : Z := 1000000000000000000.

(* "(8 + uncleHeight - height)/8 AQUA to each uncle's miner and 1/32 AQUA per
   uncle to the block's miner" *)
Definition uncle_share (height : N) (u : uncle) : Z := (8 + Z.of_N (u_number u) - Z.of_N height) * aqua / 8.
Definition nephew_share : Z := aqua / 32.

Fixpoint uncles_issuance (height : N) (uncles : list uncle) : Z :=
  match uncles with
  | [] => 0
  | u :: t => uncle_share height u + nephew_share + uncles_issuance height t
  end.

(* "1 AQUA to the miner for heights below 42,000,000, plus ..." — the code pays
   nothing at all from 42,000,000 on (the early return precedes the uncle loop);
   the schedule is read the same way. *)
Definition issuance (height : N) (uncles : list uncle) : Z :=
  if (height <? 42000000)%N then aqua + uncles_issuance height uncles else 0.

(* every balance is non-negative *)
Definition nonneg (s : state) : Prop := forall a, 0 <= bal (get a s).

(* states that agree on every account except those listed *)
Definition same_except (l : list addr) (s s' : state) : Prop :=
  forall a, ~ In a l -> get a s' = get a s.
