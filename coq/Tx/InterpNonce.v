(* Tx/InterpNonce.v — an account without code keeps its nonce and is never flagged suicided while code runs
   (over the C07 interpreter AQ.Evm.Interp, imported read-only; every instruction including CREATE), and the
   composition with the transaction model: the nonce clause of C06 with the interpreter inside. *)
From Coq Require Import ZArith NArith List Bool String Lia ZifyBool ZifyN.
From AQ Require Import Lib.Bytes Evm.OpsModel Evm.Interp Evm.InterpProofs Evm.InterpProofsStatic Tx.InterpSupply.
Import ListNotations.
Local Open Scope Z_scope.
Set Default Timeout 300.

Section Quiet.
Variable a : Z.   (* the account without code (the externally owned sender) *)

(* no entry of the account list with key a is flagged suicided, a has no code, a's nonce is n *)
Definition nosui (w : world) : Prop := Forall (fun x => fst x = a -> a_suicided (snd x) = false) (w_accts w).
Definition quiet (n : Z) (w : world) : Prop := get_code w a = [] /\ get_nonce w a = n /\ nosui w.

Lemma Forall_aset_kv (P : Z * account -> Prop) l k v :
  Forall P l -> P (k, v) -> Forall P (aset l k v).
Proof.
  intros Hl Hv. induction l as [|[k0 v0] r IH]; cbn [aset]; [constructor; [exact Hv|constructor]|].
  inversion Hl as [|? ? H0 Hr]; subst. destruct (k0 =? k); constructor; auto.
Qed.

(* putting an account at another key, or one that agrees with a's code / nonce and is not flagged *)
Lemma quiet_put n w x acc : quiet n w ->
  (x <> a \/ (a_code acc = [] /\ a_nonce acc = n /\ a_suicided acc = false)) -> quiet n (put_acct w x acc).
Proof.
  intros (H1 & H2 & H3) Hx. unfold quiet, get_code, get_nonce. rewrite !find_put.
  split; [|split].
  - destruct (a =? x) eqn:E; [|exact H1]. destruct Hx as [Hx | (Hc & _)]; [lia|exact Hc].
  - destruct (a =? x) eqn:E; [|exact H2]. destruct Hx as [Hx | (_ & Hn & _)]; [lia|exact Hn].
  - unfold nosui, put_acct. cbn [w_accts]. apply Forall_aset_kv; [exact H3|]. cbn [fst snd]. intros ->.
    destruct Hx as [Hx | (_ & _ & Hs)]; [congruence|exact Hs].
Qed.

Lemma quiet_get_or_new n w : quiet n w -> n <> 0 -> forall x, x = a ->
  a_code (get_or_new w x) = [] /\ a_nonce (get_or_new w x) = n /\ a_suicided (get_or_new w x) = false.
Proof.
  intros (H1 & H2 & H3) Hn x ->. unfold get_or_new, get_code, get_nonce in *.
  destruct (find_acct w a) as [acc|] eqn:E; [|cbn in H2; congruence].
  split; [exact H1|]. split; [exact H2|].
  unfold nosui in H3. unfold find_acct in E.
  revert E H3. generalize (w_accts w). induction l as [|[k v] r IH]; cbn [aget]; [discriminate|].
  intros E H. inversion H as [|? ? H0 Hr]; subst. destruct (k =? a) eqn:Ek; [|apply IH; assumption].
  injection E as <-. apply H0. cbn. lia.
Qed.

Lemma quiet_add_balance n w x v : quiet n w -> n <> 0 -> quiet n (add_balance w x v).
Proof.
  intros Hq Hn. unfold add_balance. apply quiet_put; [exact Hq|].
  destruct (Z.eq_dec x a) as [E|E]; [right|left; exact E]. cbn [a_code a_nonce a_suicided]. apply (quiet_get_or_new n w Hq Hn x E).
Qed.
Lemma quiet_sub_balance n w x v : quiet n w -> n <> 0 -> quiet n (sub_balance w x v).
Proof.
  intros Hq Hn. unfold sub_balance. apply quiet_put; [exact Hq|].
  destruct (Z.eq_dec x a) as [E|E]; [right|left; exact E]. cbn [a_code a_nonce a_suicided]. apply (quiet_get_or_new n w Hq Hn x E).
Qed.
Lemma quiet_transfer n w x y v : quiet n w -> n <> 0 -> quiet n (transfer w x y v).
Proof. intros. unfold transfer. apply quiet_add_balance; [apply quiet_sub_balance|]; assumption. Qed.
Lemma quiet_set_state n w x k v : quiet n w -> n <> 0 -> quiet n (set_state w x k v).
Proof.
  intros Hq Hn. unfold set_state. apply quiet_put; [exact Hq|].
  destruct (Z.eq_dec x a) as [E|E]; [right|left; exact E]. cbn [a_code a_nonce a_suicided]. apply (quiet_get_or_new n w Hq Hn x E).
Qed.
Lemma quiet_set_nonce n w x k : quiet n w -> x <> a -> quiet n (set_nonce w x k).
Proof. intros Hq Hx. unfold set_nonce. apply quiet_put; [exact Hq|left; exact Hx]. Qed.
Lemma quiet_set_code n w x c : quiet n w -> x <> a -> quiet n (set_code w x c).
Proof. intros Hq Hx. unfold set_code. apply quiet_put; [exact Hq|left; exact Hx]. Qed.
Lemma quiet_create_account n w x : quiet n w -> x <> a -> quiet n (create_account w x).
Proof. intros Hq Hx. unfold create_account. apply quiet_put; [exact Hq|left; exact Hx]. Qed.
Lemma quiet_suicide n w x : quiet n w -> x <> a -> quiet n (suicide w x).
Proof. intros Hq Hx. unfold suicide. destruct (find_acct w x); [apply quiet_put; [exact Hq|left; exact Hx]|exact Hq]. Qed.
Lemma quiet_exist n w : quiet n w -> n <> 0 -> exist w a = true.
Proof.
  intros (_ & H2 & _) Hn. unfold exist, get_nonce in *. destruct (find_acct w a); [reflexivity|cbn in H2; congruence].
Qed.
Lemma quiet_accts n w w' : w_accts w' = w_accts w -> quiet n w -> quiet n w'.
Proof. intros E. unfold quiet, get_code, get_nonce, find_acct, nosui. rewrite E. tauto. Qed.

(* ------------------------------------------------------------------ calls *)

Definition q_ok (n : Z) (o : outcome) : Prop := quiet n (o_world o).
(* the callee: when a is not the executing account (or there is nothing to execute), a stays quiet *)
Definition rec_q (n : Z) (rec : interp_t) : Prop :=
  forall w fr, quiet n w -> (f_self fr <> a \/ f_code fr = []) -> q_ok n (rec w fr).

Variable n : Z.
Hypothesis Hn : n <> 0.

Lemma run_contract_q rec e w ca fr rd : rec_q n rec -> quiet n w -> (f_self fr <> a \/ f_code fr = []) ->
  q_ok n (run_contract rec e w ca fr rd).
Proof.
  intros Hr Hq Hf. unfold run_contract. destruct (is_precompile e ca); [|apply Hr; assumption].
  unfold q_ok. rewrite run_precompile_world. exact Hq.
Qed.
Lemma finish_call_q snap o : q_ok n o -> quiet n snap -> q_ok n (finish_call snap o).
Proof. intros Ho Hs. unfold finish_call. destruct (o_res o); try exact Ho; exact Hs. Qed.

Lemma frame_cond w addr : quiet n w -> (addr <> a \/ get_code w addr = []).
Proof. intros (H1 & _). destruct (Z.eq_dec addr a) as [->|E]; [right; exact H1|left; exact E]. Qed.

Lemma do_call_q rec e w rd tr depth ro caller addr input gas value :
  rec_q n rec -> quiet n w -> q_ok n (do_call rec e w rd tr depth ro caller addr input gas value).
Proof.
  intros Hr Hq. unfold do_call.
  destruct (depth >? CallCreateDepth); [exact Hq|].
  destruct (negb (can_transfer w caller value)); [exact Hq|].
  destruct (_ && _ && _ && _); [exact Hq|].
  set (w1 := if negb (exist w addr) then create_account w addr else w).
  assert (H1 : quiet n w1).
  { subst w1. destruct (exist w addr) eqn:Ee; cbn [negb]; [exact Hq|].
    apply quiet_create_account; [exact Hq|]. intros ->. rewrite (quiet_exist n w Hq Hn) in Ee. discriminate. }
  assert (H2 : quiet n (transfer w1 caller addr value)) by (apply quiet_transfer; assumption).
  apply finish_call_q; [|exact Hq]. apply run_contract_q; [exact Hr|exact H2|].
  cbn [new_frame f_self f_code]. apply frame_cond, H2.
Qed.
Lemma do_callcode_q rec e w rd tr depth ro caller addr input gas value :
  rec_q n rec -> quiet n w -> caller <> a -> q_ok n (do_callcode rec e w rd tr depth ro caller addr input gas value).
Proof.
  intros Hr Hq Hc. unfold do_callcode.
  destruct (depth >? CallCreateDepth); [exact Hq|]. destruct (negb _); [exact Hq|].
  apply finish_call_q; [|exact Hq]. apply run_contract_q; [exact Hr|exact Hq|]. left. exact Hc.
Qed.
Lemma do_delegatecall_q rec e w rd tr depth ro self pc pv addr input gas :
  rec_q n rec -> quiet n w -> self <> a -> q_ok n (do_delegatecall rec e w rd tr depth ro self pc pv addr input gas).
Proof.
  intros Hr Hq Hc. unfold do_delegatecall.
  destruct (depth >? CallCreateDepth); [exact Hq|].
  apply finish_call_q; [|exact Hq]. apply run_contract_q; [exact Hr|exact Hq|]. left. exact Hc.
Qed.
Lemma do_staticcall_q rec e w rd tr depth ro caller addr input gas :
  rec_q n rec -> quiet n w -> q_ok n (do_staticcall rec e w rd tr depth ro caller addr input gas).
Proof.
  intros Hr Hq. unfold do_staticcall.
  destruct (depth >? CallCreateDepth); [exact Hq|].
  assert (E : forall o r, q_ok n o -> q_ok n (set_out_ro o r)) by (intros o r H; exact H).
  cbv zeta. destruct ro; [|apply E];
    (apply finish_call_q; [|exact Hq]; apply run_contract_q; [exact Hr|exact Hq|];
     cbn [new_frame f_self f_code]; apply frame_cond, Hq).
Qed.

Lemma do_create_q rec e w rd tr depth ro caller codeb gas value :
  rec_q n rec -> quiet n w -> caller <> a -> q_ok n (do_create rec e w rd tr depth ro caller codeb gas value).
Proof.
  intros Hr Hq Hc. unfold do_create.
  destruct (depth >? CallCreateDepth); [exact Hq|].
  destruct (negb (can_transfer w caller value)); [exact Hq|].
  set (w0 := set_nonce w caller (wrap64 (get_nonce w caller + 1))).
  assert (H0 : quiet n w0) by (apply quiet_set_nonce; assumption).
  set (addr := create_address caller (get_nonce w caller)).
  destruct (negb (get_nonce w0 addr =? 0) || _) eqn:Ecol; [exact H0|].
  assert (Ha : addr <> a).
  { intros E. apply Bool.orb_false_iff in Ecol. destruct Ecol as (E1 & _). rewrite E in E1.
    destruct H0 as (_ & H02 & _). rewrite H02 in E1. apply Bool.negb_false_iff in E1. lia. }
  set (w1 := create_account w0 addr).
  assert (H1 : quiet n w1) by (apply quiet_create_account; assumption).
  set (w2 := if e_eip158 e then set_nonce w1 addr 1 else w1).
  assert (H2 : quiet n w2) by (subst w2; destruct (e_eip158 e); [apply quiet_set_nonce; assumption|exact H1]).
  assert (H3 : quiet n (transfer w2 caller addr value)) by (apply quiet_transfer; assumption).
  match goal with |- context[run_contract rec e ?w3 addr ?fr rd] =>
    assert (Ho : q_ok n (run_contract rec e w3 addr fr rd)) by (apply run_contract_q; [exact Hr|exact H3|left; exact Ha]);
    set (o := run_contract rec e w3 addr fr rd) in * end.
  destruct (o_res o) eqn:Eres; try exact Ho.
  - (* R_ok *)
    cbn [ret_of].
    destruct (e_eip158 e && (blen ret >? MaxCodeSize)); cbv zeta.
    + cbn. unfold q_ok. cbn [o_world]. exact H0.
    + destruct (o_gas o <? wrap64 (blen ret * CreateDataGas)); cbn; unfold q_ok; cbn [o_world].
      * destruct (e_homestead e); cbn; [exact H0|exact Ho].
      * apply quiet_set_code; [exact Ho|exact Ha].
  - (* R_revert *) cbn [ret_of]. cbv zeta.
    destruct (e_eip158 e && (blen ret >? MaxCodeSize)); destruct (e_homestead e); cbn; unfold q_ok; cbn [o_world]; exact H0.
  - (* R_err *) cbn [ret_of]. cbv zeta.
    destruct (e_eip158 e && (blen ret >? MaxCodeSize)); destruct (e_homestead e); destruct e0; cbn; unfold q_ok; cbn [o_world];
      first [exact H0 | exact Ho].
Qed.

(* ------------------------------------------------------------------ one instruction, the loop *)

Ltac inv_q H :=
  repeat match type of H with
  | match ?t with _ => _ end = _ => destruct t eqn:?; try discriminate
  | (let '(_, _) := ?t in _) = _ => destruct t eqn:?
  | (if ?t then _ else _) = _ => destruct t eqn:?; try discriminate
  | lift_mem _ _ _ _ = _ => unfold lift_mem in H
  end;
  injection H as <- <- _; (split; [assumption|reflexivity]).

Lemma call_return_q w fr rest ro rs o w2 fr2 res :
  call_return w fr rest ro rs o = X_ok w2 fr2 res -> w2 = o_world o /\ f_self fr2 = f_self fr.
Proof.
  intros H. unfold call_return in H.
  destruct (o_res o); try discriminate;
    try (destruct (mem_set _ _ _ _); try discriminate); injection H as <- <- _; split; reflexivity.
Qed.

Lemma exec_q rec e w fr1 x temp w2 fr2 res :
  rec_q n rec -> quiet n w -> f_self fr1 <> a ->
  exec rec e w fr1 x temp = X_ok w2 fr2 res -> quiet n w2 /\ f_self fr2 = f_self fr1.
Proof.
  intros Hr Hq Hs H.
  destruct x; unfold exec in H; try solve [inv_q H].
  - (* sstore *)
    destruct (f_stack fr1) as [|loc [|v r]]; try discriminate. injection H as <- <- _.
    split; [apply quiet_set_state; assumption|reflexivity].
  - (* create *)
    destruct (f_stack fr1) as [|value [|offset [|size r]]]; try discriminate.
    destruct (mem_get _ _ _); try discriminate.
    match type of H with context[do_create ?r0 ?b ?c ?d ?e' ?f ?g ?h ?i ?j ?k] =>
      pose proof (do_create_q r0 b c d e' f g h i j k Hr Hq Hs) as Hc; set (o := do_create r0 b c d e' f g h i j k) in * end.
    destruct (o_res o); try discriminate; injection H as <- <- _; split; try exact Hc; reflexivity.
  - (* call *)
    destruct (f_stack fr1) as [|g0 [|addr [|value0 [|inOff [|inSize [|retOff [|retSize r]]]]]]]; try discriminate.
    destruct (mem_get _ _ _); try discriminate.
    apply call_return_q in H. destruct H as (-> & Hc). split; [|exact Hc]. apply do_call_q; assumption.
  - (* callcode *)
    destruct (f_stack fr1) as [|g0 [|addr [|value0 [|inOff [|inSize [|retOff [|retSize r]]]]]]]; try discriminate.
    destruct (mem_get _ _ _); try discriminate.
    apply call_return_q in H. destruct H as (-> & Hc). split; [|exact Hc]. apply do_callcode_q; assumption.
  - (* delegatecall *)
    destruct (f_stack fr1) as [|g0 [|addr [|inOff [|inSize [|retOff [|retSize r]]]]]]; try discriminate.
    destruct (mem_get _ _ _); try discriminate.
    apply call_return_q in H. destruct H as (-> & Hc). split; [|exact Hc]. apply do_delegatecall_q; assumption.
  - (* staticcall *)
    destruct (f_stack fr1) as [|g0 [|addr [|inOff [|inSize [|retOff [|retSize r]]]]]]; try discriminate.
    destruct (mem_get _ _ _); try discriminate.
    apply call_return_q in H. destruct H as (-> & Hc). split; [|exact Hc]. apply do_staticcall_q; assumption.
  - (* selfdestruct *)
    destruct (f_stack fr1) as [|x1 r]; try discriminate. injection H as <- <- _.
    split; [|reflexivity]. apply quiet_suicide; [|exact Hs]. apply quiet_add_balance; assumption.
  - discriminate H.
Qed.

Lemma step_q rec e w fr :
  rec_q n rec -> quiet n w -> f_self fr <> a ->
  match step rec e w fr with
  | S_next w' fr' => quiet n w' /\ f_self fr' = f_self fr
  | S_done o => q_ok n o
  end.
Proof.
  intros Hr Hq Hs. unfold step.
  destruct (negb _); [exact Hq|].
  destruct (validateStack _ _ _); [|exact Hq|exact Hq].
  destruct (restricted _ _ _ _); [exact Hq|].
  destruct (mem_size_big _ _) as [msb|]; [|exact Hq].
  destruct (match msb with Some b => run_memorySize b | None => Ok 0 end); [|exact Hq|exact Hq].
  destruct (gas_cost _ _ _ _ _) as [g|?|] eqn:Hg; [|exact Hq|exact Hq].
  apply gas_cost_accts in Hg. pose proof (quiet_accts n w (g_world g) Hg Hq) as Hqg.
  destruct (f_gas fr <? g_cost g); [exact Hqg|].
  match goal with |- context[exec rec e (g_world g) ?f1 ?x (g_temp g)] => set (fr1 := f1); set (xx := x) end.
  destruct (exec rec e (g_world g) fr1 xx (g_temp g)) as [w2 fr2 res| er | |] eqn:Hex; try exact Hqg.
  apply exec_q in Hex; [|assumption|assumption|exact Hs]. destruct Hex as (Hq2 & Hs2).
  change (f_self fr1) with (f_self fr) in Hs2.
  match goal with |- context[if ?b then set_rdata fr2 res else fr2] => set (fr3 := if b then set_rdata fr2 res else fr2);
    assert (H3 : f_self fr3 = f_self fr2) by (subst fr3; destruct b; reflexivity) end.
  repeat match goal with |- context[if ?b then _ else _] => destruct b end; try exact Hq2;
    (split; [exact Hq2|cbn [set_pc set_pc_stack f_self]; congruence]).
Qed.

Lemma loop_q fuel e : forall w fr, quiet n w -> f_self fr <> a -> q_ok n (loop fuel e w fr).
Proof.
  induction fuel as [|f IH]; intros w fr Hq Hs; cbn [loop]; [exact Hq|].
  assert (Hr : rec_q n (interp_of (loop f e))).
  { intros w0 fr0 Hq0 [Hs0 | Hc0]; unfold interp_of; destruct (f_code fr0) eqn:E; try exact Hq0; try discriminate.
    apply IH; assumption. }
  pose proof (step_q (interp_of (loop f e)) e w fr Hr Hq Hs) as Hst.
  destruct (step _ e w fr) as [w' fr' | o]; [|exact Hst].
  destruct Hst as (Hq' & Hs'). apply IH; [exact Hq'|rewrite Hs'; exact Hs].
Qed.

Theorem interp_quiet fuel e : rec_q n (interp fuel e).
Proof.
  intros w fr Hq [Hs | Hc]; unfold interp, interp_of; destruct (f_code fr) eqn:E; try exact Hq; try discriminate.
  apply loop_q; assumption.
Qed.

End Quiet.

(* the statement with its premises spelled out *)
Theorem codeless_account_quiet a n fuel e w fr :
  n <> 0 -> get_code w a = [] -> get_nonce w a = n -> nosui a w -> (f_self fr <> a \/ f_code fr = []) ->
  let o := interp fuel e w fr in
  get_code (o_world o) a = [] /\ get_nonce (o_world o) a = n /\ nosui a (o_world o).
Proof. intros Hn H1 H2 H3 Hf. exact (interp_quiet a n Hn fuel e w fr (conj H1 (conj H2 H3)) Hf). Qed.
