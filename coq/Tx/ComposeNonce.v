(* Tx/ComposeNonce.v — the nonce clause of C06 with the interpreter inside: the sender of a transaction is an account
   without code, so no frame executes in it, and Tx/InterpNonce.v shows that the interpreter then neither changes its
   nonce nor flags it suicided.  Composition through Compose.interp_runner. *)
From Coq Require Import ZArith NArith List Bool Lia ZifyBool ZifyN.
From AQ Require Import Lib.Bytes Tx.Transition Tx.Supply Tx.TxProofs Tx.Compose.
From AQ Require Evm.OpsModel Evm.Interp Evm.InterpProofs Evm.InterpProofsStatic Tx.InterpSupply Tx.InterpNonce.
Import ListNotations.
Local Open Scope N_scope.

(* tx_nonce with the two premises about `run` asked only of the call this transaction makes *)
Theorem tx_nonce_at cfg num coinbase run idx s pool cum m r :
  gas_bounded run -> m_gas m < two64 ->
  apply_transaction cfg num coinbase run idx s pool cum m = TxOk r ->
  nonce (get (m_from m) s) < max_u64 ->
  (forall gas1,
     let s1 := sub_balance (m_from m) (Z.of_N (m_gas m * m_price m)) s in
     let o := run (run_input_of idx m s1 gas1) (pre_run_state cfg num m s1) in
     nonce (get (m_from m) (ro_state o)) = nonce (get (m_from m) (pre_run_state cfg num m s1)) /\
     ~ In (m_from m) (ro_suicided o)) ->
  (m_to m = None -> create_address (m_from m) (nonce (get (m_from m) s)) <> m_from m) ->
  nonce (get (m_from m) (x_state r)) = nonce (get (m_from m) s) + 1.
Proof.
  intros Hgas Hlim Happly Hn Hrun Hca.
  destruct (apply_inv _ _ _ _ _ _ _ _ _ _ Happly) as (Ht & Hs & Hc & Hp & Hr).
  destruct (tdb_inv _ _ _ _ _ _ _ _ _ Hgas Hlim Ht) as (e & H1 & H2 & H3 & H4 & H5 & H6 & H7 & H8 & H9 & H10 & H11 & H12 & H13 & H14 & H15 & H16).
  set (s1 := sub_balance (m_from m) (Z.of_N (m_gas m * m_price m)) s) in *.
  assert (Hn1 : nonce (get (m_from m) s1) = nonce (get (m_from m) s)).
  { subst s1. simp_get. reflexivity. }
  assert (Hadd : add64 (nonce (get (m_from m) s)) 1 = nonce (get (m_from m) s) + 1).
  { apply add64_small. unfold max_u64, two64 in *. lia. }
  destruct (exec_phase_cases _ _ _ _ _ _ _ _ H6) as (Hct & [ (Es & Ef & Erf & El & Esu) | Hran ]).
  - rewrite Hs, H11, Esu. cbn [finalise]. rewrite H16, Es. unfold bumped. simp_get.
    destruct (coinbase =? m_from m); cbn [nonce]; rewrite Hn1; exact Hadd.
  - cbv zeta in Hran. destruct Hran as (Est & Esu & _ & _ & _ & _).
    destruct (Hrun (m_gas m - t_intrinsic (x_tdb r))) as (Hrn & Hrs). fold s1 in Hrn, Hrs.
    rewrite Hs, H11, Esu. rewrite get_finalise_notin by exact Hrs.
    rewrite H16, Est. simp_get.
    assert (Hx : nonce (get (m_from m) (ro_state (run (run_input_of idx m s1 (m_gas m - t_intrinsic (x_tdb r))) (pre_run_state cfg num m s1)))) = nonce (get (m_from m) s) + 1).
    { rewrite Hrn. rewrite pre_run_state_from by (rewrite Hn1; exact Hca). rewrite Hn1. exact Hadd. }
    destruct (coinbase =? m_from m); cbn [nonce]; exact Hx.
Qed.

Lemma pre_run_state_code cfg num m s1 :
  (m_to m = None -> create_address (m_from m) (nonce (get (m_from m) s1)) <> m_from m) ->
  code (get (m_from m) (pre_run_state cfg num m s1)) = code (get (m_from m) s1).
Proof.
  intros Hc. unfold pre_run_state, bumped. destruct (m_to m) as [to|].
  - simp_get. destruct (to =? m_from m); reflexivity.
  - specialize (Hc eq_refl). set (ca := create_address _ _) in *.
    destruct (is_forked (c_eip158 cfg) num); simp_get; rewrite ?(neqb _ _ Hc); simp_get; reflexivity.
Qed.

Section Glue.
Variables (fuel : nat) (e : Interp.env).
Variables (code_of : N -> list Z) (stor_of : N -> list (Z * Z)) (dg : list Z -> N) (sg : list (Z * Z) -> N).
Hypothesis code_of_0 : code_of 0 = [].

Lemma aget_conc st A :
  Interp.aget (Interp.w_accts (conc code_of stor_of st)) (Z.of_N A) =
  (fix look (l : state) := match l with [] => None | (k, v) :: t => if k =? A then Some (conc_acct code_of stor_of v) else look t end) st.
Proof.
  unfold conc. cbn [Interp.w_accts]. induction st as [|[k v] t IH]; cbn [map Interp.aget fst snd]; [reflexivity|].
  replace (Z.of_N k =? Z.of_N A)%Z with (k =? A) by (destruct (k =? A) eqn:E; lia). rewrite IH. reflexivity.
Qed.

Lemma conc_getters st A :
  Interp.get_code (conc code_of stor_of st) (Z.of_N A) = code_of (code (get A st)) /\
  Interp.get_nonce (conc code_of stor_of st) (Z.of_N A) = Z.of_N (nonce (get A st)).
Proof.
  unfold Interp.get_code, Interp.get_nonce, Interp.find_acct. rewrite aget_conc.
  induction st as [|[k v] t IH]; cbn [get]; [cbn; rewrite code_of_0; split; reflexivity|].
  destruct (k =? A); [cbn; split; reflexivity|exact IH].
Qed.

Lemma nosui_conc st a : InterpNonce.nosui a (conc code_of stor_of st).
Proof.
  unfold InterpNonce.nosui, conc. cbn [Interp.w_accts]. rewrite Forall_forall. intros x Hx.
  apply in_map_iff in Hx. destruct Hx as (y & <- & _). reflexivity.
Qed.

Lemma abs_nonce w A : A <> 0 -> nonce (get A (abs dg sg w)) = Z.to_N (Interp.get_nonce w (Z.of_N A)).
Proof.
  intros HA. unfold abs, Interp.get_nonce, Interp.find_acct.
  induction (Interp.w_accts w) as [|[k v] t IH]; cbn [map get Interp.aget fst snd]; [reflexivity|].
  replace (k =? Z.of_N A)%Z with (Z.to_N k =? A) by (destruct (Z.to_N k =? A) eqn:E; lia).
  destruct (Z.to_N k =? A); [reflexivity|exact IH].
Qed.

Lemma suicided_of_nosui w A : A <> 0 -> InterpNonce.nosui (Z.of_N A) w -> ~ In A (suicided_of w).
Proof.
  intros HA Hn Hin. unfold suicided_of in Hin. apply in_map_iff in Hin. destruct Hin as (x & Hx & Hf).
  apply filter_In in Hf. destruct Hf as (Hi & Hflag).
  unfold InterpNonce.nosui in Hn. rewrite Forall_forall in Hn. specialize (Hn x Hi).
  rewrite Hn in Hflag; [discriminate|lia].
Qed.

(* the interpreter leaves the nonce of a caller without code alone and does not flag it *)
Theorem interp_runner_caller_quiet ri st :
  let A := ri_caller ri in
  A <> 0 -> code (get A st) = 0 -> nonce (get A st) <> 0 ->
  let o := interp_runner fuel e code_of stor_of dg sg ri st in
  nonce (get A (ro_state o)) = nonce (get A st) /\ ~ In A (ro_suicided o).
Proof.
  cbv zeta. intros HA Hc Hn. unfold interp_runner.
  destruct (ri_create ri); [split; [reflexivity|intros []]|].
  destruct (negb (all_nonneg st)); [split; [reflexivity|intros []]|].
  cbv zeta.
  destruct (conc_getters st (ri_caller ri)) as (G1 & G2). rewrite Hc, code_of_0 in G1.
  assert (Hq : InterpNonce.quiet (Z.of_N (ri_caller ri)) (Z.of_N (nonce (get (ri_caller ri) st))) (conc code_of stor_of st)).
  { split; [exact G1|]. split; [exact G2|apply nosui_conc]. }
  assert (Hn0 : (Z.of_N (nonce (get (ri_caller ri) st)) <> 0)%Z) by lia.
  match goal with |- context[Interp.run_contract ?r0 ?ee ?w ?ad ?fr ?rd] =>
    pose proof (InterpNonce.run_contract_q (Z.of_N (ri_caller ri)) _ r0 ee w ad fr rd
                  (InterpNonce.interp_quiet _ _ Hn0 fuel e) Hq) as Ho;
    set (o := Interp.run_contract r0 ee w ad fr rd) in * end.
  assert (Hf : Interp.f_self (Interp.new_frame (Interp.get_code (conc code_of stor_of st) (Z.of_N (ri_callee ri))) (map b2z (ri_input ri))
                 (Z.of_N (ri_callee ri)) (Z.of_N (ri_caller ri)) (Z.of_N (ri_value ri)) (Z.of_N (ri_gas ri)) false 1 []) <> Z.of_N (ri_caller ri) \/
               Interp.f_code (Interp.new_frame (Interp.get_code (conc code_of stor_of st) (Z.of_N (ri_callee ri))) (map b2z (ri_input ri))
                 (Z.of_N (ri_callee ri)) (Z.of_N (ri_caller ri)) (Z.of_N (ri_value ri)) (Z.of_N (ri_gas ri)) false 1 []) = []).
  { cbn [Interp.new_frame Interp.f_self Interp.f_code]. apply (InterpNonce.frame_cond _ _ _ _ Hq). }
  specialize (Ho Hf). destruct Ho as (_ & Q2 & Q3).
  destruct (Interp.o_res o); cbn [ro_state ro_suicided]; try (split; [reflexivity|intros []]).
  split; [rewrite abs_nonce by exact HA; rewrite Q2; lia|apply suicided_of_nosui; assumption].
Qed.

(* nonce' sender = nonce sender + 1 for a transaction executed by the modelled EVM: no premise on the interpreter *)
Theorem tx_nonce_evm cfg num coinbase idx s pool cum m r :
  InterpProofs.wf_env e -> m_gas m < two64 ->
  apply_transaction cfg num coinbase (interp_runner fuel e code_of stor_of dg sg) idx s pool cum m = TxOk r ->
  nonce (get (m_from m) s) < max_u64 ->
  m_from m <> 0 -> code (get (m_from m) s) = 0 ->
  (m_to m = None -> create_address (m_from m) (nonce (get (m_from m) s)) <> m_from m) ->
  nonce (get (m_from m) (x_state r)) = nonce (get (m_from m) s) + 1.
Proof.
  intros Hwf Hl Ha Hn H0 Hc Hca.
  apply (tx_nonce_at _ _ _ _ _ _ _ _ _ _ (interp_runner_gas_bounded _ _ _ _ _ _ Hwf) Hl Ha Hn); [|exact Hca].
  intros gas1. cbv zeta.
  set (s1 := sub_balance (m_from m) (Z.of_N (m_gas m * m_price m)) s).
  assert (Hn1 : nonce (get (m_from m) s1) = nonce (get (m_from m) s)) by (subst s1; simp_get; reflexivity).
  assert (Hc1 : code (get (m_from m) s1) = 0) by (subst s1; simp_get; exact Hc).
  assert (Hcaller : ri_caller (run_input_of idx m s1 gas1) = m_from m) by (unfold run_input_of; destruct (m_to m); reflexivity).
  assert (Hca1 : m_to m = None -> create_address (m_from m) (nonce (get (m_from m) s1)) <> m_from m) by (rewrite Hn1; exact Hca).
  pose proof (interp_runner_caller_quiet (run_input_of idx m s1 gas1) (pre_run_state cfg num m s1)) as Hq.
  cbv zeta in Hq. rewrite Hcaller in Hq. apply Hq; [exact H0| |].
  - rewrite pre_run_state_code by exact Hca1. exact Hc1.
  - rewrite pre_run_state_from by exact Hca1. rewrite Hn1.
    assert (add64 (nonce (get (m_from m) s)) 1 = nonce (get (m_from m) s) + 1) by (apply add64_small; unfold max_u64, two64 in *; lia).
    lia.
Qed.

End Glue.
