(* Tx/TxProofs.v — lemmas and theorems about Tx/Transition.v for property C06
   (and the state-map / arithmetic lemmas shared with SupplyProofs.v). *)
From AQ Require Import Lib.Bytes Tx.Transition Tx.Supply Generated.GenParamsTx.
From Coq Require Import ZifyBool ZifyN ZifyNat.
Import ListNotations.
Local Open Scope N_scope.

(* ------------------------------------------------------------------ finite map *)

Lemma get_upd a b f s : get a (upd b f s) = if b =? a then f (get b s) else get a s.
Proof.
  induction s as [|[k v] t IH]; cbn [upd get].
  - reflexivity.
  - destruct (k =? b) eqn:Ekb; cbn [get].
    + apply N.eqb_eq in Ekb; subst k. destruct (b =? a) eqn:E; reflexivity.
    + rewrite IH. destruct (k =? a) eqn:Eka; [|reflexivity].
      destruct (b =? a) eqn:Eba; [|reflexivity].
      apply N.eqb_eq in Eka, Eba. subst. rewrite N.eqb_refl in Ekb. discriminate.
Qed.

Lemma get_upd_same a f s : get a (upd a f s) = f (get a s).
Proof. rewrite get_upd, N.eqb_refl. reflexivity. Qed.

Lemma get_upd_other a b f s : a <> b -> get a (upd b f s) = get a s.
Proof. intros H. rewrite get_upd. destruct (b =? a) eqn:E; [apply N.eqb_eq in E; congruence|reflexivity]. Qed.

Lemma supply_upd a f s : supply (upd a f s) = (supply s - bal (get a s) + bal (f (get a s)))%Z.
Proof.
  induction s as [|[k v] t IH]; cbn [upd get supply].
  - cbn. lia.
  - destruct (k =? a) eqn:E; cbn [supply]; [lia|]. rewrite IH. lia.
Qed.

Lemma supply_add_balance a x s : supply (add_balance a x s) = (supply s + x)%Z.
Proof. unfold add_balance. rewrite supply_upd. cbn [bal]. lia. Qed.
Lemma supply_sub_balance a x s : supply (sub_balance a x s) = (supply s - x)%Z.
Proof. unfold sub_balance. rewrite supply_upd. cbn [bal]. lia. Qed.
Lemma supply_set_nonce a n s : supply (set_nonce a n s) = supply s.
Proof. unfold set_nonce. rewrite supply_upd. cbn [bal]. lia. Qed.
Lemma supply_create_account a s : supply (create_account a s) = supply s.
Proof. unfold create_account. rewrite supply_upd. cbn [bal]. lia. Qed.
Lemma supply_set_balance a x s : supply (set_balance a x s) = (supply s - bal (get a s) + x)%Z.
Proof. unfold set_balance. rewrite supply_upd. cbn [bal]. lia. Qed.
Lemma supply_delete_account a s : supply (delete_account a s) = (supply s - bal (get a s))%Z.
Proof. unfold delete_account. rewrite supply_upd. cbn [bal empty_acc]. lia. Qed.

Theorem transfer_conserves_supply s a b v : supply (transfer s a b v) = supply s.
Proof. unfold transfer. rewrite supply_add_balance, supply_sub_balance. lia. Qed.

(* field-wise effect of the setters *)
Lemma get_add_balance a b x s :
  get a (add_balance b x s) = if b =? a then mkAcc (bal (get a s) + x)%Z (nonce (get a s)) (code (get a s)) (stor (get a s)) else get a s.
Proof. unfold add_balance. rewrite get_upd. destruct (b =? a) eqn:E; [apply N.eqb_eq in E; subst; reflexivity|reflexivity]. Qed.
Lemma get_sub_balance a b x s :
  get a (sub_balance b x s) = if b =? a then mkAcc (bal (get a s) - x)%Z (nonce (get a s)) (code (get a s)) (stor (get a s)) else get a s.
Proof. unfold sub_balance. rewrite get_upd. destruct (b =? a) eqn:E; [apply N.eqb_eq in E; subst; reflexivity|reflexivity]. Qed.
Lemma get_set_nonce a b n s :
  get a (set_nonce b n s) = if b =? a then mkAcc (bal (get a s)) n (code (get a s)) (stor (get a s)) else get a s.
Proof. unfold set_nonce. rewrite get_upd. destruct (b =? a) eqn:E; [apply N.eqb_eq in E; subst; reflexivity|reflexivity]. Qed.
Lemma get_set_balance a b x s :
  get a (set_balance b x s) = if b =? a then mkAcc x (nonce (get a s)) (code (get a s)) (stor (get a s)) else get a s.
Proof. unfold set_balance. rewrite get_upd. destruct (b =? a) eqn:E; [apply N.eqb_eq in E; subst; reflexivity|reflexivity]. Qed.
Lemma get_delete_account a b s :
  get a (delete_account b s) = if b =? a then empty_acc else get a s.
Proof. unfold delete_account. rewrite get_upd. reflexivity. Qed.
Lemma get_create_account a b s :
  get a (create_account b s) = if b =? a then mkAcc (bal (get a s)) 0 0 0 else get a s.
Proof. unfold create_account. rewrite get_upd. destruct (b =? a) eqn:E; [apply N.eqb_eq in E; subst; reflexivity|reflexivity]. Qed.

(* ------------------------------------------------------------------ uint64 *)

Lemma two64_pos : 0 < two64. Proof. reflexivity. Qed.

Lemma add64_small a b : a + b < two64 -> add64 a b = a + b.
Proof. intros H. unfold add64. apply N.mod_small; exact H. Qed.

Lemma sub64_small a b : b <= a -> a < two64 -> sub64 a b = a - b.
Proof.
  intros Hba Ha. unfold sub64.
  assert (Hb : b mod two64 = b) by (apply N.mod_small; lia).
  rewrite Hb.
  replace (a + two64 - b) with ((a - b) + 1 * two64) by lia.
  rewrite N.mod_add by (unfold two64; lia).
  apply N.mod_small. lia.
Qed.

Lemma div2_le a : a / 2 <= a.
Proof. apply N.div_le_upper_bound; lia. Qed.

Lemma refund_quotient_is_2 : refund_quotient = 2. Proof. reflexivity. Qed.

Lemma refund_amount_spec initial gl counter :
  gl <= initial -> initial < two64 ->
  refund_amount initial gl counter = N.min counter ((initial - gl) / 2) /\
  refund_amount initial gl counter <= (initial - gl) / 2 /\
  refund_amount initial gl counter <= counter.
Proof.
  intros H1 H2. unfold refund_amount. rewrite sub64_small by assumption. rewrite refund_quotient_is_2.
  destruct (counter <? (initial - gl) / 2) eqn:E; lia.
Qed.

(* ------------------------------------------------------------------ intrinsic gas *)

Lemma count_nonzero_le d : count_nonzero d <= lenN d.
Proof.
  induction d as [|b t IH]; cbn [count_nonzero]; [unfold lenN; cbn; lia|].
  rewrite lenN_cons. destruct (b2n b =? 0); lia.
Qed.

(* the specification of intrinsic gas, from the property text over the generated constants *)
Definition intrinsic_spec (data : bytes) (creation homestead : bool) : N :=
  (if creation && homestead then tx_gas_contract_creation else tx_gas)
  + count_nonzero data * tx_data_non_zero_gas + (lenN data - count_nonzero data) * tx_data_zero_gas.

Lemma div_lt_mul a b c : 0 < b -> (a / b <? c) = false -> c * b <= a.
Proof.
  intros Hb H. apply N.ltb_ge in H.
  transitivity ((a / b) * b); [apply N.mul_le_mono_r; exact H|].
  rewrite N.mul_comm. apply N.mul_div_le. lia.
Qed.

Lemma intrinsic_gas_spec data cr hs g :
  intrinsic_gas data cr hs = IGas g -> g = intrinsic_spec data cr hs /\ g <= max_u64.
Proof.
  unfold intrinsic_gas, intrinsic_spec.
  set (g0 := if cr && hs then tx_gas_contract_creation else tx_gas).
  assert (Hg0 : g0 <= 53000) by (subst g0; destruct (cr && hs); cbv; discriminate).
  destruct (0 <? lenN data) eqn:Elen.
  - change (tx_data_non_zero_gas =? 0) with false. change (tx_data_zero_gas =? 0) with false. cbv iota.
    destruct ((max_u64 - g0) / tx_data_non_zero_gas <? count_nonzero data) eqn:E1; [discriminate|].
    apply div_lt_mul in E1; [|reflexivity].
    assert (Hm : max_u64 = 18446744073709551615) by reflexivity.
    assert (H2 : two64 = 18446744073709551616) by reflexivity.
    rewrite (add64_small g0) by lia.
    destruct ((max_u64 - (g0 + count_nonzero data * tx_data_non_zero_gas)) / tx_data_zero_gas <? lenN data - count_nonzero data) eqn:E2; [discriminate|].
    apply div_lt_mul in E2; [|reflexivity].
    rewrite add64_small by lia.
    intros H; injection H as <-. split; [reflexivity|lia].
  - intros H; injection H as <-.
    assert (Hl : lenN data = 0) by lia.
    pose proof (count_nonzero_le data) as Hc.
    assert (Hm : max_u64 = 18446744073709551615) by reflexivity.
    replace (count_nonzero data) with 0 by lia. rewrite Hl. split; lia.
Qed.

Lemma intrinsic_gas_no_panic data cr hs : intrinsic_gas data cr hs <> IPanic.
Proof.
  unfold intrinsic_gas. destruct (0 <? lenN data); [|discriminate].
  change (tx_data_non_zero_gas =? 0) with false. change (tx_data_zero_gas =? 0) with false. cbv iota.
  repeat match goal with |- context [if ?c then _ else _] => destruct c end; discriminate.
Qed.

(* ------------------------------------------------------------------ the transition *)

Definition is_creation (m : message) : bool := match m_to m with None => true | Some _ => false end.

(* the account a transaction's value goes to *)
Definition recipient (m : message) (s : state) : addr :=
  match m_to m with Some to => to | None => create_address (m_from m) (nonce (get (m_from m) s)) end.

Section WithRun.
Variables (cfg : chain_cfg) (num : N) (coinbase : addr) (run : runner) (idx : N).

(* the only thing the accounting needs from the EVM: it cannot return more gas than it was given *)
Definition gas_bounded : Prop := forall ri st, ro_gas_left (run ri st) <= ri_gas ri.

Lemma evm_call_gas s caller to input gas value r :
  gas_bounded -> evm_call cfg num run idx s caller to true input gas value = ExecDone r -> er_gas_left r <= gas.
Proof.
  intros Hg. unfold evm_call. destruct (negb (can_transfer s caller value)); [discriminate|].
  cbn [negb andb].
  set (o := run _ _). pose proof (Hg (mkRI idx caller to false input gas value) (transfer s caller to value)) as Ho.
  fold o in Ho. cbn [ri_gas] in Ho.
  destruct (ro_status o); intros H; injection H as <-; cbn [er_gas_left]; lia.
Qed.

Lemma evm_create_gas s caller codeb gas value r :
  gas_bounded -> evm_create cfg num run idx s caller codeb gas value = ExecDone r -> er_gas_left r <= gas.
Proof.
  intros Hg. unfold evm_create. destruct (negb (can_transfer s caller value)); [discriminate|].
  match goal with |- context [if ?c then _ else _] => destruct c end.
  - intros H; injection H as <-; cbn [er_gas_left]; lia.
  - match goal with |- context [run ?ri ?st] => pose proof (Hg ri st) as Ho; set (o := run ri st) in * end.
    cbn [ri_gas] in Ho.
    destruct (ro_status o); try destruct (is_forked (c_homestead cfg) num);
      intros H; injection H as <-; cbn [er_gas_left]; lia.
Qed.

Lemma exec_phase_gas s1 m gas1 r :
  gas_bounded -> exec_phase cfg num run idx s1 m gas1 = ExecDone r -> er_gas_left r <= gas1.
Proof.
  intros Hg. unfold exec_phase. destruct (m_to m).
  - apply evm_call_gas; exact Hg.
  - apply evm_create_gas; exact Hg.
Qed.

(* everything TransitionDb establishes when it returns without a consensus error *)
Lemma tdb_inv s pool m t :
  gas_bounded -> m_gas m < two64 ->
  transition_db cfg num coinbase run idx s pool m = TdbOk t ->
  exists r,
    (m_check_nonce m = true -> nonce (get (m_from m) s) = m_nonce m) /\
    (Z.of_N (m_gas m * m_price m) <= bal (get (m_from m) s))%Z /\
    m_gas m <= pool /\
    intrinsic_gas (m_data m) (is_creation m) (is_forked (c_homestead cfg) num) = IGas (t_intrinsic t) /\
    t_intrinsic t <= m_gas m /\
    exec_phase cfg num run idx (sub_balance (m_from m) (Z.of_N (m_gas m * m_price m)) s) m (m_gas m - t_intrinsic t) = ExecDone r /\
    er_gas_left r <= m_gas m - t_intrinsic t /\
    t_gas_left t = er_gas_left r /\ t_failed t = er_failed r /\ t_logs t = er_logs r /\
    t_suicided t = er_suicided r /\ t_created t = er_created r /\
    t_refund t = N.min (er_refund r) ((m_gas m - er_gas_left r) / 2) /\
    t_used t = m_gas m - er_gas_left r - t_refund t /\
    t_pool t = pool - t_used t /\
    t_state t = add_balance coinbase (Z.of_N (t_used t * m_price m))
                  (add_balance (m_from m) (Z.of_N ((m_gas m - t_used t) * m_price m)) (er_state r)).
Proof.
  intros Hg Hm. unfold transition_db.
  destruct (m_check_nonce m && (nonce (get (m_from m) s) <? m_nonce m)) eqn:En1; [discriminate|].
  destruct (m_check_nonce m && (m_nonce m <? nonce (get (m_from m) s))) eqn:En2; [discriminate|].
  destruct (bal (get (m_from m) s) <? Z.of_N (m_gas m * m_price m))%Z eqn:Eb; [discriminate|].
  unfold pool_sub_gas. destruct (pool <? m_gas m) eqn:Ep; [discriminate|].
  fold (is_creation m).
  destruct (intrinsic_gas (m_data m) (is_creation m) (is_forked (c_homestead cfg) num)) as [ig| |] eqn:Ei; try discriminate.
  destruct (m_gas m <? ig) eqn:Eig; [discriminate|].
  destruct (exec_phase cfg num run idx _ m (m_gas m - ig)) as [|r] eqn:Ex; [discriminate|].
  pose proof (exec_phase_gas _ _ _ _ Hg Ex) as Hgl.
  assert (Hgl' : er_gas_left r <= m_gas m) by lia.
  destruct (refund_amount_spec (m_gas m) (er_gas_left r) (er_refund r) Hgl' Hm) as (Hr1 & Hr2 & Hr3).
  set (rf := refund_amount (m_gas m) (er_gas_left r) (er_refund r)) in *.
  pose proof (div2_le (m_gas m - er_gas_left r)) as Hd.
  assert (Hadd : add64 (er_gas_left r) rf = er_gas_left r + rf) by (apply add64_small; lia).
  rewrite Hadd.
  assert (Hsub : sub64 (m_gas m) (er_gas_left r + rf) = m_gas m - (er_gas_left r + rf)) by (apply sub64_small; lia).
  rewrite Hsub.
  unfold pool_add_gas. destruct (max_u64 - (er_gas_left r + rf) <? pool - m_gas m) eqn:Epa; [discriminate|].
  intros H; injection H as <-. cbn [t_intrinsic t_gas_left t_failed t_logs t_suicided t_created t_refund t_used t_pool t_state].
  exists r.
  repeat split; try reflexivity; try lia.
  - exact Ex.
  - replace (m_gas m - (m_gas m - (er_gas_left r + rf))) with (er_gas_left r + rf) by lia. reflexivity.
Qed.


(* the sender's nonce bump (SetNonce in TransitionDb for calls, inside evm.Create for creations) *)
Definition bumped (m : message) (s1 : state) : state :=
  set_nonce (m_from m) (add64 (nonce (get (m_from m) s1)) 1) s1.

(* the state handed to the interpreter: nonce bumped, (new account prepared,) value transferred *)
Definition pre_run_state (m : message) (s1 : state) : state :=
  match m_to m with
  | Some to => transfer (bumped m s1) (m_from m) to (m_value m)
  | None =>
      let caddr := create_address (m_from m) (nonce (get (m_from m) s1)) in
      let sa := create_account caddr (bumped m s1) in
      let sb := if is_forked (c_eip158 cfg) num then set_nonce caddr 1 sa else sa in
      transfer sb (m_from m) caddr (m_value m)
  end.

Definition run_input_of (m : message) (s1 : state) (gas1 : N) : run_input :=
  match m_to m with
  | Some to => mkRI idx (m_from m) to false (m_data m) gas1 (m_value m)
  | None => mkRI idx (m_from m) (create_address (m_from m) (nonce (get (m_from m) s1))) true (m_data m) gas1 (m_value m)
  end.

Lemma can_transfer_set_nonce s a b n v : can_transfer (set_nonce b n s) a v = can_transfer s a v.
Proof.
  unfold can_transfer. rewrite get_set_nonce. destruct (b =? a); reflexivity.
Qed.

Lemma exec_phase_cases s1 m gas1 r :
  exec_phase cfg num run idx s1 m gas1 = ExecDone r ->
  can_transfer s1 (m_from m) (m_value m) = true /\
  ( (er_state r = bumped m s1 /\ er_failed r = true /\ er_refund r = 0 /\ er_logs r = 0 /\ er_suicided r = [])
    \/
    (let o := run (run_input_of m s1 gas1) (pre_run_state m s1) in
     er_state r = ro_state o /\ er_suicided r = ro_suicided o /\ er_refund r = ro_refund o /\ er_logs r = ro_logs o /\
     er_gas_left r = ro_gas_left o /\
     ((ro_status o = RunOk /\ er_failed r = false) \/
      (ro_status o = RunCodeStoreOOG /\ er_failed r = true /\ is_forked (c_homestead cfg) num = false /\ m_to m = None))) ).
Proof.
  unfold exec_phase, pre_run_state, run_input_of, bumped.
  destruct (m_to m) as [to|].
  - unfold evm_call. rewrite can_transfer_set_nonce.
    destruct (can_transfer s1 (m_from m) (m_value m)) eqn:Ec; cbn [negb andb]; [|discriminate].
    set (o := run _ _).
    destruct (ro_status o) eqn:Es; intros H; injection H as <-; cbn; split; try reflexivity.
    + right. repeat split; try reflexivity. left; split; reflexivity.
    + left. repeat split; reflexivity.
    + left. repeat split; reflexivity.
    + left. repeat split; reflexivity.
  - unfold evm_create.
    destruct (can_transfer s1 (m_from m) (m_value m)) eqn:Ec; cbn [negb]; [|discriminate].
    match goal with |- context [if ?c then _ else _] => destruct c end.
    + intros H; injection H as <-; cbn; split; [reflexivity|]. left. repeat split; reflexivity.
    + set (o := run _ _).
      destruct (ro_status o) eqn:Es.
      * intros H; injection H as <-; cbn; split; [reflexivity|].
        right. repeat split; try reflexivity. left; split; reflexivity.
      * intros H; injection H as <-; cbn; split; [reflexivity|]. left. repeat split; reflexivity.
      * intros H; injection H as <-; cbn; split; [reflexivity|]. left. repeat split; reflexivity.
      * destruct (is_forked (c_homestead cfg) num) eqn:Eh; intros H; injection H as <-; cbn; (split; [reflexivity|]).
        -- left. repeat split; reflexivity.
        -- right. repeat split; try reflexivity. right. repeat split; reflexivity.
Qed.

Lemma exec_phase_created s1 m gas1 r :
  exec_phase cfg num run idx s1 m gas1 = ExecDone r ->
  er_created r = match m_to m with Some _ => None | None => Some (create_address (m_from m) (nonce (get (m_from m) s1))) end.
Proof.
  unfold exec_phase. destruct (m_to m).
  - unfold evm_call. destruct (negb _); [discriminate|]. cbn [negb andb].
    destruct (ro_status _); intros H; injection H as <-; reflexivity.
  - unfold evm_create. destruct (negb _); [discriminate|].
    match goal with |- context [if ?c then _ else _] => destruct c end.
    + intros H; injection H as <-; reflexivity.
    + destruct (ro_status _); try destruct (is_forked (c_homestead cfg) num); intros H; injection H as <-; reflexivity.
Qed.

End WithRun.

(* ------------------------------------------------------------------ C06 theorems *)

Lemma fee_split g u p : u <= g -> Z.of_N ((g - u) * p) = (Z.of_N (g * p) - Z.of_N (u * p))%Z.
Proof.
  intros H. rewrite N.mul_sub_distr_r. rewrite N2Z.inj_sub; [lia|]. apply N.mul_le_mono_r; exact H.
Qed.

Lemma get_finalise_notin a l : forall s, ~ In a l -> get a (finalise l s) = get a s.
Proof.
  induction l as [|b t IH]; intros s Hn; cbn [finalise]; [reflexivity|].
  rewrite IH by (intro; apply Hn; right; assumption).
  rewrite get_delete_account. destruct (b =? a) eqn:E; [|reflexivity].
  apply N.eqb_eq in E. exfalso; apply Hn; left; exact E.
Qed.

Lemma get_transfer a s x y v :
  get a (transfer s x y v) =
  let s1 := sub_balance x (Z.of_N v) s in
  if y =? a then mkAcc (bal (get a s1) + Z.of_N v)%Z (nonce (get a s1)) (code (get a s1)) (stor (get a s1)) else get a s1.
Proof. unfold transfer. rewrite get_add_balance. reflexivity. Qed.

Lemma apply_inv cfg num coinbase run idx s pool cum m r :
  apply_transaction cfg num coinbase run idx s pool cum m = TxOk r ->
  transition_db cfg num coinbase run idx s pool m = TdbOk (x_tdb r) /\
  x_state r = finalise (t_suicided (x_tdb r)) (t_state (x_tdb r)) /\
  x_cumulative r = add64 cum (t_used (x_tdb r)) /\ x_pool r = t_pool (x_tdb r) /\
  x_receipt r = mkReceipt (if is_forked (c_byzantium cfg) num then PostStatus (negb (t_failed (x_tdb r))) else PostRoot)
                          (negb (t_failed (x_tdb r))) (add64 cum (t_used (x_tdb r))) (t_used (x_tdb r))
                          (t_created (x_tdb r)) (t_logs (x_tdb r)).
Proof.
  unfold apply_transaction. destruct (transition_db cfg num coinbase run idx s pool m) as [t| |]; try discriminate.
  intros H; injection H as <-. cbn. repeat split; reflexivity.
Qed.

Section C06.
Variables (cfg : chain_cfg) (num : N) (coinbase : addr) (run : runner) (idx : N).
Variables (s : state) (pool cum : N) (m : message) (r : tx_ok).
Hypothesis Hgas : gas_bounded run.
Hypothesis Hlim : m_gas m < two64.
Hypothesis Happly : apply_transaction cfg num coinbase run idx s pool cum m = TxOk r.

Let t := x_tdb r.
Let from := m_from m.
Let price := m_price m.
Let mgval := Z.of_N (m_gas m * m_price m).

Theorem tx_phases :
  exists e,
    (m_check_nonce m = true -> nonce (get from s) = m_nonce m) /\
    (mgval <= bal (get from s))%Z /\ m_gas m <= pool /\
    exec_phase cfg num run idx (sub_balance from mgval s) m (m_gas m - t_intrinsic t) = ExecDone e /\
    t_used t <= m_gas m /\
    x_state r = finalise (er_suicided e)
                  (add_balance coinbase (Z.of_N (t_used t * price))
                     (add_balance from (Z.of_N ((m_gas m - t_used t) * price)) (er_state e))) /\
    x_pool r = pool - t_used t.
Proof.
  destruct (apply_inv _ _ _ _ _ _ _ _ _ _ Happly) as (Ht & Hs & _ & Hp & _).
  destruct (tdb_inv _ _ _ _ _ _ _ _ _ Hgas Hlim Ht) as (e & H1 & H2 & H3 & H4 & H5 & H6 & H7 & H8 & H9 & H10 & H11 & H12 & H13 & H14 & H15 & H16).
  exists e. subst t from price mgval. repeat split; try assumption.
  - rewrite H14. lia.
  - rewrite Hs, H11, H16. reflexivity.
  - rewrite Hp. exact H15.
Qed.

Theorem gas_accounting_tx :
  let consumed := m_gas m - t_gas_left t in
  t_intrinsic t = intrinsic_spec (m_data m) (is_creation m) (is_forked (c_homestead cfg) num) /\
  t_intrinsic t <= consumed /\ consumed <= m_gas m /\
  t_refund t <= consumed / 2 /\ t_used t = consumed - t_refund t /\ t_used t <= m_gas m /\
  r_gas_used (x_receipt r) = t_used t /\
  r_cumulative (x_receipt r) = add64 cum (t_used t) /\ x_cumulative r = add64 cum (t_used t) /\
  x_pool r + t_used t = pool.
Proof.
  destruct (apply_inv _ _ _ _ _ _ _ _ _ _ Happly) as (Ht & Hs & Hc & Hp & Hr).
  destruct (tdb_inv _ _ _ _ _ _ _ _ _ Hgas Hlim Ht) as (e & H1 & H2 & H3 & H4 & H5 & H6 & H7 & H8 & H9 & H10 & H11 & H12 & H13 & H14 & H15 & H16).
  destruct (intrinsic_gas_spec _ _ _ _ H4) as (Hi & _).
  pose proof (div2_le (m_gas m - er_gas_left e)) as Hd.
  subst t. cbv zeta. rewrite Hr. cbn [r_gas_used r_cumulative]. rewrite H8.
  repeat split; try assumption; try lia.
Qed.

Theorem receipt_format :
  r_post (x_receipt r) = (if is_forked (c_byzantium cfg) num then PostStatus (negb (t_failed t)) else PostRoot) /\
  r_status_ok (x_receipt r) = negb (t_failed t).
Proof.
  destruct (apply_inv _ _ _ _ _ _ _ _ _ _ Happly) as (_ & _ & _ & _ & Hr). rewrite Hr. split; reflexivity.
Qed.

Theorem failed_tx_leaves_only_fees :
  is_forked (c_homestead cfg) num = true ->
  t_failed t = true ->
  r_logs (x_receipt r) = 0 /\
  (forall a, a <> from -> a <> coinbase -> get a (x_state r) = get a s) /\
  (forall a, code (get a (x_state r)) = code (get a s) /\ stor (get a (x_state r)) = stor (get a s)) /\
  (coinbase <> from -> nonce (get coinbase (x_state r)) = nonce (get coinbase s)) /\
  nonce (get from (x_state r)) = add64 (nonce (get from s)) 1 /\
  (coinbase <> from -> bal (get from (x_state r)) = (bal (get from s) - Z.of_N (t_used t * price))%Z /\
                       bal (get coinbase (x_state r)) = (bal (get coinbase s) + Z.of_N (t_used t * price))%Z).
Proof.
  intros Hh Hf.
  destruct (apply_inv _ _ _ _ _ _ _ _ _ _ Happly) as (Ht & Hs & Hc & Hp & Hr).
  destruct (tdb_inv _ _ _ _ _ _ _ _ _ Hgas Hlim Ht) as (e & H1 & H2 & H3 & H4 & H5 & H6 & H7 & H8 & H9 & H10 & H11 & H12 & H13 & H14 & H15 & H16).
  destruct (exec_phase_cases _ _ _ _ _ _ _ _ H6) as (Hct & [ (Es & Ef & Erf & El & Esu) | Hran ]).
  2:{ cbv zeta in Hran. destruct Hran as (_ & _ & _ & _ & _ & [ (_ & Hff) | (_ & _ & Hhh & _) ]).
      - subst t. rewrite H9 in Hf. congruence.
      - congruence. }
  assert (Hu : t_used t <= m_gas m) by (subst t; rewrite H14; lia).
  subst t from price. rewrite Hr. cbn [r_logs]. rewrite H10, El.
  rewrite Hs, H11, Esu. cbn [finalise]. rewrite H16, Es. unfold bumped.
  split; [reflexivity|]. split; [|split; [|split; [|split]]].
  - intros a Ha Hb. rewrite !get_add_balance, get_set_nonce, get_sub_balance.
    destruct (coinbase =? a) eqn:E1; [apply N.eqb_eq in E1; congruence|].
    destruct (m_from m =? a) eqn:E2; [apply N.eqb_eq in E2; congruence|]. reflexivity.
  - intros a. rewrite !get_add_balance, get_set_nonce, get_sub_balance.
    destruct (coinbase =? a); destruct (m_from m =? a); cbn; split; reflexivity.
  - intros Hcf. rewrite !get_add_balance, get_set_nonce, get_sub_balance. rewrite N.eqb_refl.
    destruct (m_from m =? coinbase) eqn:E2; [apply N.eqb_eq in E2; congruence|]. reflexivity.
  - rewrite !get_add_balance, get_set_nonce, !get_sub_balance. rewrite !N.eqb_refl.
    destruct (coinbase =? m_from m); cbn; reflexivity.
  - intros Hcf. rewrite !get_add_balance, get_set_nonce, !get_sub_balance. rewrite !N.eqb_refl.
    destruct (coinbase =? m_from m) eqn:E1; [apply N.eqb_eq in E1; congruence|].
    destruct (m_from m =? coinbase) eqn:E2; [apply N.eqb_eq in E2; congruence|].
    repeat (rewrite ?get_add_balance, ?get_set_nonce, ?get_sub_balance, ?E1, ?E2, ?N.eqb_refl).
    cbn [bal]. rewrite (fee_split _ _ _ Hu). split; lia.
Qed.

End C06.

(* ------------------------------------------------------------------ nonce and the balance equation *)

Ltac simp_get :=
  repeat (rewrite ?get_add_balance, ?get_set_nonce, ?get_sub_balance, ?get_create_account, ?get_transfer, ?N.eqb_refl; cbv zeta).

Lemma neqb a b : a <> b -> (a =? b) = false.
Proof. intros H. apply N.eqb_neq. exact H. Qed.

(* balance / nonce of an account other than the recipient in the state handed to the interpreter *)
Lemma pre_run_state_from cfg num m s1 :
  (m_to m = None -> create_address (m_from m) (nonce (get (m_from m) s1)) <> m_from m) ->
  nonce (get (m_from m) (pre_run_state cfg num m s1)) = add64 (nonce (get (m_from m) s1)) 1.
Proof.
  intros Hc. unfold pre_run_state, bumped. destruct (m_to m) as [to|].
  - simp_get. destruct (to =? m_from m); reflexivity.
  - specialize (Hc eq_refl). set (ca := create_address _ _) in *.
    destruct (is_forked (c_eip158 cfg) num); simp_get; rewrite ?(neqb _ _ Hc); simp_get; reflexivity.
Qed.

Lemma pre_run_state_bal cfg num m s1 a :
  a <> recipient m s1 ->
  bal (get a (pre_run_state cfg num m s1)) = (bal (get a s1) - (if (m_from m =? a)%N then Z.of_N (m_value m) else 0))%Z.
Proof.
  unfold pre_run_state, bumped, recipient. destruct (m_to m) as [to|]; intros Hr.
  - simp_get. rewrite (neqb to a) by congruence.
    destruct (m_from m =? a); cbn [bal]; lia.
  - set (ca := create_address _ _) in *.
    destruct (is_forked (c_eip158 cfg) num); simp_get; rewrite ?(neqb ca a) by congruence;
      destruct (m_from m =? a); cbn [bal]; lia.
Qed.

Section C06b.
Variables (cfg : chain_cfg) (num : N) (coinbase : addr) (run : runner) (idx : N).
Variables (s : state) (pool cum : N) (m : message) (r : tx_ok).
Hypothesis Hgas : gas_bounded run.
Hypothesis Hlim : m_gas m < two64.
Hypothesis Happly : apply_transaction cfg num coinbase run idx s pool cum m = TxOk r.

Let t := x_tdb r.
Let from := m_from m.

Theorem tx_nonce :
  nonce (get from s) < max_u64 ->
  (* the interpreter never changes the nonce of the externally owned sender, nor destroys it *)
  (forall ri st, nonce (get (ri_caller ri) (ro_state (run ri st))) = nonce (get (ri_caller ri) st)) ->
  (forall ri st, ~ In (ri_caller ri) (ro_suicided (run ri st))) ->
  (* the address of a created contract is not the sender's (Keccak-256 output vs. a key-derived address) *)
  (m_to m = None -> create_address from (nonce (get from s)) <> from) ->
  nonce (get from (x_state r)) = nonce (get from s) + 1.
Proof.
  intros Hn Hrn Hrs Hca.
  destruct (apply_inv _ _ _ _ _ _ _ _ _ _ Happly) as (Ht & Hs & Hc & Hp & Hr).
  destruct (tdb_inv _ _ _ _ _ _ _ _ _ Hgas Hlim Ht) as (e & H1 & H2 & H3 & H4 & H5 & H6 & H7 & H8 & H9 & H10 & H11 & H12 & H13 & H14 & H15 & H16).
  set (s1 := sub_balance (m_from m) (Z.of_N (m_gas m * m_price m)) s) in *.
  assert (Hn1 : nonce (get (m_from m) s1) = nonce (get (m_from m) s)).
  { subst s1. simp_get. reflexivity. }
  assert (Hadd : add64 (nonce (get (m_from m) s)) 1 = nonce (get (m_from m) s) + 1).
  { apply add64_small. unfold max_u64, two64 in *. subst from. lia. }
  destruct (exec_phase_cases _ _ _ _ _ _ _ _ H6) as (Hct & [ (Es & Ef & Erf & El & Esu) | Hran ]).
  - subst from. rewrite Hs, H11, Esu. cbn [finalise]. rewrite H16, Es. unfold bumped. simp_get.
    destruct (coinbase =? m_from m); cbn [nonce]; rewrite Hn1; exact Hadd.
  - cbv zeta in Hran. destruct Hran as (Est & Esu & _ & _ & _ & _).
    assert (Hcaller : ri_caller (run_input_of idx m s1 (m_gas m - t_intrinsic (x_tdb r))) = m_from m).
    { unfold run_input_of. destruct (m_to m); reflexivity. }
    subst from. rewrite Hs, H11, Esu.
    rewrite get_finalise_notin by (rewrite <- Hcaller at 1; apply Hrs).
    rewrite H16, Est. simp_get.
    assert (Hx : nonce (get (m_from m) (ro_state (run (run_input_of idx m s1 (m_gas m - t_intrinsic (x_tdb r))) (pre_run_state cfg num m s1)))) = nonce (get (m_from m) s) + 1).
    { rewrite <- Hcaller at 1. rewrite Hrn. rewrite Hcaller.
      rewrite pre_run_state_from by (rewrite Hn1; exact Hca). rewrite Hn1. exact Hadd. }
    destruct (coinbase =? m_from m); cbn [nonce]; exact Hx.
Qed.

Theorem tx_balance_equation :
  is_forked (c_homestead cfg) num = true ->
  from <> coinbase -> from <> recipient m s ->
  (* the execution makes no transfer to or from the sender or the coinbase, and destroys neither *)
  (forall ri st a, a = from \/ a = coinbase -> bal (get a (ro_state (run ri st))) = bal (get a st)) ->
  (forall ri st a, a = from \/ a = coinbase -> ~ In a (ro_suicided (run ri st))) ->
  bal (get from (x_state r)) =
    (bal (get from s) - Z.of_N (t_used t * m_price m) - (if t_failed t then 0 else Z.of_N (m_value m)))%Z /\
  (coinbase <> recipient m s ->
   bal (get coinbase (x_state r)) = (bal (get coinbase s) + Z.of_N (t_used t * m_price m))%Z).
Proof.
  intros Hh Hfc Hfr Hrb Hrs.
  destruct (apply_inv _ _ _ _ _ _ _ _ _ _ Happly) as (Ht & Hs & Hc & Hp & Hr).
  destruct (tdb_inv _ _ _ _ _ _ _ _ _ Hgas Hlim Ht) as (e & H1 & H2 & H3 & H4 & H5 & H6 & H7 & H8 & H9 & H10 & H11 & H12 & H13 & H14 & H15 & H16).
  set (s1 := sub_balance (m_from m) (Z.of_N (m_gas m * m_price m)) s) in *.
  assert (Hu : t_used (x_tdb r) <= m_gas m) by (rewrite H14; lia).
  assert (Hrec : recipient m s1 = recipient m s).
  { unfold recipient. destruct (m_to m); [reflexivity|]. subst s1. simp_get. reflexivity. }
  assert (Hb1 : bal (get (m_from m) s1) = (bal (get (m_from m) s) - Z.of_N (m_gas m * m_price m))%Z).
  { subst s1. simp_get. reflexivity. }
  assert (Hb2 : bal (get coinbase s1) = bal (get coinbase s)).
  { subst s1. simp_get. rewrite (neqb (m_from m) coinbase) by exact Hfc. reflexivity. }
  subst t from.
  destruct (exec_phase_cases _ _ _ _ _ _ _ _ H6) as (Hct & [ (Es & Ef & Erf & El & Esu) | Hran ]).
  - rewrite Hs, H11, Esu. cbn [finalise]. rewrite H16, Es, H9, Ef. unfold bumped.
    split; [|intros _]; simp_get; rewrite ?(neqb coinbase (m_from m)) by congruence;
      rewrite ?(neqb (m_from m) coinbase) by congruence; simp_get; cbn [bal];
      rewrite ?Hb1, ?Hb2, ?(fee_split _ _ _ Hu); lia.
  - cbv zeta in Hran. destruct Hran as (Est & Esu & _ & _ & _ & [ (_ & Hff) | (_ & _ & Hhh & _) ]); [|congruence].
    rewrite Hs, H11, Esu, H16, Est, H9, Hff.
    split; [|intros Hcr].
    + rewrite get_finalise_notin by (apply Hrs; left; reflexivity).
      simp_get. rewrite (neqb coinbase (m_from m)) by congruence. cbn [bal].
      rewrite Hrb by (left; reflexivity).
      rewrite pre_run_state_bal by (rewrite Hrec; exact Hfr).
      rewrite N.eqb_refl, Hb1, (fee_split _ _ _ Hu). lia.
    + rewrite get_finalise_notin by (apply Hrs; right; reflexivity).
      simp_get. rewrite (neqb (m_from m) coinbase) by congruence. cbn [bal].
      rewrite Hrb by (right; reflexivity).
      rewrite pre_run_state_bal by (rewrite Hrec; exact Hcr).
      rewrite (neqb (m_from m) coinbase) by congruence. rewrite Hb2. lia.
Qed.

End C06b.

(* ------------------------------------------------------------------ invalid transactions, blocks *)

(* the five ways of the property in which a transaction cannot be included *)
Definition tx_invalid (cfg : chain_cfg) (num : N) (s : state) (pool : N) (m : message) : Prop :=
  (m_check_nonce m = true /\ nonce (get (m_from m) s) <> m_nonce m) \/
  (bal (get (m_from m) s) < Z.of_N (m_gas m * m_price m))%Z \/
  (bal (get (m_from m) s) - Z.of_N (m_gas m * m_price m) < Z.of_N (m_value m))%Z \/
  m_gas m < intrinsic_spec (m_data m) (is_creation m) (is_forked (c_homestead cfg) num) \/
  pool < m_gas m.

Lemma tdb_checks cfg num coinbase run idx s pool m t :
  transition_db cfg num coinbase run idx s pool m = TdbOk t ->
  (m_check_nonce m = true -> nonce (get (m_from m) s) = m_nonce m) /\
  (Z.of_N (m_gas m * m_price m) <= bal (get (m_from m) s))%Z /\
  m_gas m <= pool /\
  intrinsic_spec (m_data m) (is_creation m) (is_forked (c_homestead cfg) num) <= m_gas m /\
  (Z.of_N (m_value m) <= bal (get (m_from m) s) - Z.of_N (m_gas m * m_price m))%Z.
Proof.
  unfold transition_db.
  destruct (m_check_nonce m && (nonce (get (m_from m) s) <? m_nonce m)) eqn:En1; [discriminate|].
  destruct (m_check_nonce m && (m_nonce m <? nonce (get (m_from m) s))) eqn:En2; [discriminate|].
  destruct (bal (get (m_from m) s) <? Z.of_N (m_gas m * m_price m))%Z eqn:Eb; [discriminate|].
  unfold pool_sub_gas. destruct (pool <? m_gas m) eqn:Ep; [discriminate|].
  fold (is_creation m).
  destruct (intrinsic_gas (m_data m) (is_creation m) (is_forked (c_homestead cfg) num)) as [ig| |] eqn:Ei; try discriminate.
  destruct (m_gas m <? ig) eqn:Eig; [discriminate|].
  destruct (exec_phase cfg num run idx _ m (m_gas m - ig)) as [|r] eqn:Ex; [discriminate|].
  intros _.
  destruct (intrinsic_gas_spec _ _ _ _ Ei) as (Hi & _).
  destruct (exec_phase_cases _ _ _ _ _ _ _ _ Ex) as (Hct & _).
  unfold can_transfer in Hct. rewrite get_sub_balance, N.eqb_refl in Hct. cbn [bal] in Hct.
  repeat split; try lia.
Qed.

Theorem invalid_tx_rejected cfg num coinbase run idx s pool cum m :
  tx_invalid cfg num s pool m -> forall r, apply_transaction cfg num coinbase run idx s pool cum m <> TxOk r.
Proof.
  intros Hinv r H. apply apply_inv in H. destruct H as (Ht & _).
  apply tdb_checks in Ht. destruct Ht as (H1 & H2 & H3 & H4 & H5).
  destruct Hinv as [(Hc & Hn) | [Hb | [Hv | [Hi | Hp]]]]; try lia.
Qed.

(* the state, pool and cumulative gas after a prefix of a block's transactions *)
Fixpoint after_txs (cfg : chain_cfg) (num : N) (coinbase : addr) (run : runner) (idx : N)
         (s : state) (pool cum : N) (txs : list message) : option (N * state * N * N) :=
  match txs with
  | [] => Some (idx, s, pool, cum)
  | m :: rest =>
    match apply_transaction cfg num coinbase run idx s pool cum m with
    | TxOk r => after_txs cfg num coinbase run (idx + 1) (x_state r) (x_pool r) (x_cumulative r) rest
    | _ => None
    end
  end.

Lemma process_txs_prefix cfg num coinbase run : forall txs1 idx s pool cum m txs2 acc s' rs used,
  process_txs cfg num coinbase run idx s pool cum (txs1 ++ m :: txs2) acc = BlockOk s' rs used ->
  exists i si pi ci r, after_txs cfg num coinbase run idx s pool cum txs1 = Some (i, si, pi, ci) /\
                       apply_transaction cfg num coinbase run i si pi ci m = TxOk r.
Proof.
  induction txs1 as [|m1 t1 IH]; intros idx s pool cum m txs2 acc s' rs used H; cbn [app process_txs after_txs] in *.
  - destruct (apply_transaction cfg num coinbase run idx s pool cum m) as [r| |] eqn:E; try discriminate.
    exists idx, s, pool, cum, r. split; [reflexivity|exact E].
  - destruct (apply_transaction cfg num coinbase run idx s pool cum m1) as [r| |] eqn:E; try discriminate.
    eapply IH. exact H.
Qed.

Lemma block_valid_process cfg dealloc run s h txs uncles :
  block_valid cfg dealloc run s h txs uncles = true ->
  exists s' rs used, process cfg dealloc run s h txs uncles = BlockOk s' rs used /\ h_gas_used h = used.
Proof.
  unfold block_valid. destruct (process cfg dealloc run s h txs uncles) as [s' rs used| |]; try discriminate.
  unfold validate_gas_used. intros H. apply N.eqb_eq in H. exists s', rs, used. split; [reflexivity|exact H].
Qed.

Theorem invalid_tx_invalidates_block cfg dealloc run s h txs1 m txs2 uncles :
  h_gas_limit h < two64 ->
  block_valid cfg dealloc run s h (txs1 ++ m :: txs2) uncles = true ->
  exists i si pi ci,
    after_txs cfg (h_number h) (h_coinbase h) run 0 (block_start cfg dealloc h s) (h_gas_limit h) 0 txs1 = Some (i, si, pi, ci) /\
    ~ tx_invalid cfg (h_number h) si pi m.
Proof.
  intros Hl Hv. apply block_valid_process in Hv. destruct Hv as (s' & rs & used & Hp & _).
  unfold process in Hp. unfold pool_add_gas in Hp.
  destruct (max_u64 - h_gas_limit h <? 0) eqn:E0; [lia|].
  cbn [N.add] in Hp.
  destruct (process_txs cfg (h_number h) (h_coinbase h) run 0 (block_start cfg dealloc h s) (h_gas_limit h) 0 (txs1 ++ m :: txs2) [])
    as [s3 rs3 u3| |] eqn:Ep; try discriminate.
  apply process_txs_prefix in Ep. destruct Ep as (i & si & pi & ci & r & Ha & Hr).
  exists i, si, pi, ci. split; [exact Ha|].
  intros Hinv. exact (invalid_tx_rejected _ _ _ _ _ _ _ _ _ Hinv r Hr).
Qed.

(* block-level gas accounting *)
Fixpoint sum_gas_used (rs : list receipt) : N :=
  match rs with [] => 0 | r :: t => r_gas_used r + sum_gas_used t end.

(* every receipt's cumulative gas is the running sum *)
Fixpoint cumulative_ok (cum : N) (rs : list receipt) : Prop :=
  match rs with
  | [] => True
  | r :: t => r_cumulative r = cum + r_gas_used r /\ cumulative_ok (cum + r_gas_used r) t
  end.

Lemma process_txs_gas cfg num coinbase run :
  gas_bounded run ->
  forall txs idx s pool cum acc s' rs used,
  Forall (fun m => m_gas m < two64) txs ->
  pool + cum < two64 ->
  process_txs cfg num coinbase run idx s pool cum txs acc = BlockOk s' rs used ->
  exists new, rs = rev acc ++ new /\ cumulative_ok cum new /\ used = cum + sum_gas_used new /\ used <= pool + cum.
Proof.
  intros Hg. induction txs as [|m rest IH]; intros idx s pool cum acc s' rs used Hf Hb H; cbn [process_txs] in H.
  - injection H as <- <- <-. exists []. rewrite app_nil_r. cbn. repeat split; lia.
  - destruct (apply_transaction cfg num coinbase run idx s pool cum m) as [r| |] eqn:E; try discriminate.
    inversion Hf as [|? ? Hm Hrest]; subst.
    destruct (gas_accounting_tx _ _ _ _ _ _ _ _ _ _ Hg Hm E) as (_ & _ & _ & _ & _ & Hu & Hgu & Hcu & Hxc & Hxp).
    assert (Hsmall : add64 cum (t_used (x_tdb r)) = cum + t_used (x_tdb r)) by (apply add64_small; lia).
    rewrite Hsmall in Hcu, Hxc.
    apply IH in H; [|exact Hrest|rewrite Hxc; lia].
    destruct H as (new & Hrs & Hck & Hus & Hle).
    exists (x_receipt r :: new). cbn [rev] in Hrs. rewrite <- app_assoc in Hrs. cbn [app] in Hrs.
    split; [exact Hrs|]. cbn [cumulative_ok sum_gas_used]. rewrite Hgu, Hcu.
    rewrite Hxc in Hck, Hus, Hle.
    repeat split; try assumption; lia.
Qed.

Theorem gas_accounting_block cfg dealloc run s h txs uncles s' rs used :
  gas_bounded run ->
  Forall (fun m => m_gas m < two64) txs -> h_gas_limit h < two64 ->
  process cfg dealloc run s h txs uncles = BlockOk s' rs used ->
  used = sum_gas_used rs /\ cumulative_ok 0 rs /\ used <= h_gas_limit h.
Proof.
  intros Hg Hf Hl Hp. unfold process, pool_add_gas in Hp.
  destruct (max_u64 - h_gas_limit h <? 0) eqn:E0; [lia|]. cbn [N.add] in Hp.
  destruct (process_txs cfg (h_number h) (h_coinbase h) run 0 (block_start cfg dealloc h s) (h_gas_limit h) 0 txs [])
    as [s3 rs3 u3| |] eqn:Ep; try discriminate.
  injection Hp as <- <- <-.
  assert (Hb : h_gas_limit h + 0 < two64) by lia.
  destruct (process_txs_gas _ _ _ _ Hg _ _ _ _ _ _ _ _ _ Hf Hb Ep) as (new & Hrs & Hck & Hus & Hle).
  cbn [rev app] in Hrs. subst rs3. repeat split; [lia|exact Hck|lia].
Qed.

(* ------------------------------------------------------------------ witnesses *)

(* an interpreter that burns `burn` gas (or all of it), reports `counter` as refund and changes nothing *)
Definition simple_run (burn counter : N) : runner :=
  fun ri st => mkRO RunOk (ri_gas ri - burn) counter st 0 [].

Lemma simple_run_gas_bounded burn counter : gas_bounded (simple_run burn counter).
Proof. intros ri st. cbn. lia. Qed.

Definition all_forks : chain_cfg := mkCfg (Some 0) (Some 0) (Some 0) None None.

(* literal reading of "intrinsic gas <= gasUsed" (gasUsed after the refund) is false for a
   storage-clearing transaction: intrinsic 21000, consumed 26000, refund 13000, used 13000 *)
Lemma literal_intrinsic_le_used_refuted :
  exists cfg num coinbase run s pool m r,
    gas_bounded run /\ apply_transaction cfg num coinbase run 0 s pool 0 m = TxOk r /\
    t_used (x_tdb r) < t_intrinsic (x_tdb r).
Proof.
  exists all_forks, 1, 12, (simple_run 5000 15000), [(10, mkAcc 1000000%Z 0 0 0)], 8000000,
         (mkMsg 10 (Some 11) 0 1 26000 0 [] true).
  eexists. split; [apply simple_run_gas_bounded|]. split; [vm_compute; reflexivity|]. vm_compute. reflexivity.
Qed.

(* at nonce 2^64-1 the sender's nonce wraps to 0 instead of growing by one *)
Lemma nonce_wraps_at_max_refuted :
  exists cfg num coinbase run s pool m r,
    gas_bounded run /\ apply_transaction cfg num coinbase run 0 s pool 0 m = TxOk r /\
    nonce (get (m_from m) s) = max_u64 /\ nonce (get (m_from m) (x_state r)) = 0.
Proof.
  exists all_forks, 1, 12, (simple_run 0 0), [(10, mkAcc 1000000%Z max_u64 0 0)], 8000000,
         (mkMsg 10 (Some 11) max_u64 1 21000 0 [] true).
  eexists. split; [apply simple_run_gas_bounded|]. split; [vm_compute; reflexivity|]. split; vm_compute; reflexivity.
Qed.

Lemma lookup_homestead l :
  (forall e, In e l -> c_homestead (cfg_of_tuple (snd e)) = Some 0) ->
  forall id cfg, lookup_cfg id l = Some cfg -> c_homestead cfg = Some 0.
Proof.
  induction l as [|[k t] rest IH]; intros H id cfg; cbn [lookup_cfg]; [discriminate|].
  destruct (k =? id).
  - intros E; injection E as <-. exact (H (k, t) (or_introl eq_refl)).
  - apply IH. intros x Hx. apply H. right. exact Hx.
Qed.

Lemma builtin_homestead id cfg num : builtin_cfg id = Some cfg -> is_forked (c_homestead cfg) num = true.
Proof.
  unfold builtin_cfg. intros E.
  assert (H : forallb (fun e => match c_homestead (cfg_of_tuple (snd e)) with Some 0 => true | _ => false end) chain_cfgs = true)
    by (vm_compute; reflexivity).
  rewrite forallb_forall in H.
  rewrite (lookup_homestead chain_cfgs) with (id := id) (cfg := cfg); [cbn; apply N.leb_le; lia| |exact E].
  intros e He. specialize (H e He). destruct (c_homestead (cfg_of_tuple (snd e))) as [[|p]|]; try discriminate. reflexivity.
Qed.

(* ------------------------------------------------------------------ existence layer (EIP-161) *)

Lemma memN_In a l : memN a l = true <-> In a l.
Proof.
  induction l as [|x t IH]; cbn [memN In]; [split; [discriminate|tauto]|].
  rewrite Bool.orb_true_iff, N.eqb_eq, IH. tauto.
Qed.

(* Finalise(deleteEmptyObjects = true): no account that is dirty and empty, and no suicided one, is left *)
Lemma finalise_e_spec de su sF es a :
  In a (es_exist (finalise_e de su sF es)) ->
  In a (es_exist es) /\
  (In a (es_dirty es) -> ~ In a su /\ (de = true -> is_empty_acc (get a sF) = false)).
Proof.
  unfold finalise_e. cbn [es_exist]. rewrite filter_In. intros (Hin & Hf). split; [exact Hin|].
  intros Hd. apply memN_In in Hd. rewrite Hd in Hf. cbn [andb] in Hf.
  apply Bool.negb_true_iff, Bool.orb_false_iff in Hf. destruct Hf as (H1 & H2). split.
  - intros Hs. apply memN_In in Hs. congruence.
  - intros ->. cbn [andb] in H2. exact H2.
Qed.

Theorem eip161_no_empty_dirty_account_survives cfg num coinbase run erun idx s pool cum m es r a :
  apply_transaction cfg num coinbase run idx s pool cum m = TxOk r ->
  (is_forked (c_byzantium cfg) num = true \/ is_forked (c_eip158 cfg) num = true) ->
  let es' := apply_transaction_e cfg num coinbase run erun idx s pool cum m es in
  In a (es_exist es') -> In a (es_dirty es') ->
  ~ In a (t_suicided (x_tdb r)) /\ is_empty_acc (get a (t_state (x_tdb r))) = false.
Proof.
  intros Happly Hde. cbv zeta. unfold apply_transaction_e. rewrite Happly.
  match goal with |- In a (es_exist (finalise_e ?de ?su ?sF ?e)) -> _ => set (E := e); set (D := de) end.
  intros Hin Hd. destruct (finalise_e_spec D _ _ E a Hin) as (_ & H).
  unfold finalise_e in Hd. cbn [es_dirty] in Hd. destruct (H Hd) as (H1 & H2). split; [exact H1|].
  apply H2. subst D. destruct Hde as [-> | ->]; [reflexivity|]. destruct (is_forked (c_byzantium cfg) num); reflexivity.
Qed.

(* "If execution fails, no other state change survives" is false of the code as far as the EXISTENCE of the
   recipient goes (the content theorem failed_tx_leaves_only_fees holds): *)

(* (a) after EIP-158, a failing call with value to an existing empty account deletes that account:
       balanceChange.undo leaves it in stateObjectsDirty and Finalise(true) removes it *)
Definition failing_run : runner := fun ri st => mkRO RunFail 0 0 st 0 [].
Definition no_erun : erunner := fun _ => mkEO [] [].

Lemma failed_tx_deletes_empty_recipient_refuted :
  exists cfg num coinbase s pool m es r,
    apply_transaction cfg num coinbase failing_run 0 s pool 0 m = TxOk r /\ t_failed (x_tdb r) = true /\
    m_to m = Some 4 /\ In 4 (es_exist es) /\
    ~ In 4 (es_exist (apply_transaction_e cfg num coinbase failing_run no_erun 0 s pool 0 m es)).
Proof.
  exists all_forks, 1, 12, [(10, mkAcc 1000000%Z 0 0 0); (4, empty_acc)], 8000000,
         (mkMsg 10 (Some 4) 0 1 21010 1 [] true), (mkES [10; 4] []).
  eexists. split; [vm_compute; reflexivity|]. split; [vm_compute; reflexivity|]. split; [reflexivity|].
  split; [right; left; reflexivity|]. vm_compute. intros [H|[H|[]]]; discriminate.
Qed.

(* (b) before EIP-158, a failing call to a recipient that does not exist leaves a new empty account:
       st.to() creates it before evm.Call takes its snapshot *)
Lemma failed_tx_creates_empty_recipient_refuted :
  exists cfg num coinbase s pool m es r,
    apply_transaction cfg num coinbase failing_run 0 s pool 0 m = TxOk r /\ t_failed (x_tdb r) = true /\
    m_to m = Some 2 /\ ~ In 2 (es_exist es) /\
    In 2 (es_exist (apply_transaction_e cfg num coinbase failing_run no_erun 0 s pool 0 m es)).
Proof.
  exists (mkCfg (Some 0) None None None None), 1, 12, [(10, mkAcc 1000000%Z 0 0 0)], 8000000,
         (mkMsg 10 (Some 2) 0 1 21010 0 [] true), (mkES [10] []).
  eexists. split; [vm_compute; reflexivity|]. split; [vm_compute; reflexivity|]. split; [reflexivity|].
  split; [intros [H|[]]; discriminate|]. vm_compute. tauto.
Qed.

(* (c) Frontier (no Homestead): a creation whose code deposit runs out of gas is reported as failed but is
       NOT rolled back: the value stays with the new account *)
Definition csoog_run : runner := fun ri st => mkRO RunCodeStoreOOG (ri_gas ri) 0 st 0 [].

Lemma frontier_code_store_oog_refuted :
  exists cfg num coinbase s pool m r,
    is_forked (c_homestead cfg) num = false /\
    apply_transaction cfg num coinbase csoog_run 0 s pool 0 m = TxOk r /\ t_failed (x_tdb r) = true /\
    m_to m = None /\
    bal (get (m_from m) (x_state r)) = (bal (get (m_from m) s) - Z.of_N (t_used (x_tdb r) * m_price m) - Z.of_N (m_value m))%Z /\
    bal (get (recipient m s) (x_state r)) = Z.of_N (m_value m) /\ m_value m = 5.
Proof.
  exists (mkCfg None None None None None), 1, 12, [(10, mkAcc 1000000%Z 0 0 0)], 8000000,
         (mkMsg 10 None 0 1 60000 5 [] true).
  eexists. split; [reflexivity|]. split; [vm_compute; reflexivity|]. repeat split; vm_compute; reflexivity.
Qed.

(* ------------------------------------------------------------------ EIP-158/161: the deletion rule *)

(* after Finalise an account exists iff it existed before and either was not touched (not in the dirty set), or is
   neither flagged suicided nor — where empty accounts are deleted — empty *)
Theorem finalise_e_iff de su sF es a :
  In a (es_exist (finalise_e de su sF es)) <->
  In a (es_exist es) /\
  (~ In a (es_dirty es) \/ (~ In a su /\ (de = true -> is_empty_acc (get a sF) = false))).
Proof.
  unfold finalise_e. cbn [es_exist]. rewrite filter_In. split.
  - intros (Hin & Hf). split; [exact Hin|].
    destruct (memN a (es_dirty es)) eqn:Ed.
    + right. cbn [andb] in Hf. apply Bool.negb_true_iff, Bool.orb_false_iff in Hf. destruct Hf as (H1 & H2). split.
      * intros Hs. apply memN_In in Hs. congruence.
      * intros ->. exact H2.
    + left. intros Hd. apply memN_In in Hd. congruence.
  - intros (Hin & [Hnd | (Hns & He)]); split; try exact Hin.
    + destruct (memN a (es_dirty es)) eqn:Ed; [apply memN_In in Ed; contradiction|reflexivity].
    + apply Bool.negb_true_iff, Bool.andb_false_iff. right. apply Bool.orb_false_iff. split.
      * destruct (memN a su) eqn:Es; [apply memN_In in Es; contradiction|reflexivity].
      * destruct de; [apply He; reflexivity|reflexivity].
Qed.

(* touched-and-empty accounts are deleted where empty accounts are deleted; suicided ones always *)
Corollary finalise_e_deletes de su sF es a :
  In a (es_dirty es) -> (In a su \/ (de = true /\ is_empty_acc (get a sF) = true)) ->
  ~ In a (es_exist (finalise_e de su sF es)).
Proof.
  intros Hd Hc Hin. apply finalise_e_iff in Hin. destruct Hin as (_ & [Hn | (Hns & He)]); [contradiction|].
  destruct Hc as [Hs | (-> & Hem)]; [contradiction|]. rewrite He in Hem by reflexivity. discriminate.
Qed.

Lemma memN_addset a b l : memN a (addset b l) = (a =? b) || memN a l.
Proof.
  unfold addset. destruct (memN b l) eqn:E; [|cbn [memN]; rewrite N.eqb_sym; reflexivity].
  destruct (a =? b) eqn:Eab; [|reflexivity]. apply N.eqb_eq in Eab. subst. rewrite E. reflexivity.
Qed.

(* what counts as a touch: AddBalance of zero to an existing empty account (a zero-value call / transfer, a zero
   SELFDESTRUCT payout, a zero fee to the coinbase) puts it in the dirty set; AddBalance to a missing account creates it *)
Lemma es_add_balance_touch a x s es :
  (x <> 0%Z \/ is_empty_acc (get a s) = true \/ ~ In a (es_exist es)) -> In a (es_dirty (es_add_balance a x s es)).
Proof.
  intros H. unfold es_add_balance. apply memN_In.
  destruct (memN a (es_exist es)) eqn:Ee.
  - destruct (x =? 0)%Z eqn:Ex.
    + destruct (is_empty_acc (get a s)) eqn:Em; [cbn; rewrite memN_addset, N.eqb_refl; reflexivity|].
      destruct H as [H | [H | H]]; [lia|discriminate|apply memN_In in Ee; contradiction].
    + cbn. rewrite memN_addset, N.eqb_refl. reflexivity.
  - cbn. rewrite memN_addset, N.eqb_refl. reflexivity.
Qed.

(* the coinbase of a transaction: if it is empty after the transaction (zero fee to an empty or missing coinbase) it
   does not exist afterwards where empty accounts are deleted — also when it was an existing empty account before *)
Theorem empty_coinbase_deleted cfg num coinbase run erun idx s pool cum m es r :
  apply_transaction cfg num coinbase run idx s pool cum m = TxOk r ->
  (is_forked (c_byzantium cfg) num = true \/ is_forked (c_eip158 cfg) num = true) ->
  is_empty_acc (get coinbase (t_state (x_tdb r))) = true ->
  ~ In coinbase (es_exist (apply_transaction_e cfg num coinbase run erun idx s pool cum m es)).
Proof.
  intros Happly Hde Hem. unfold apply_transaction_e. rewrite Happly.
  match goal with |- ~ In _ (es_exist (finalise_e ?de ?su ?sF ?e)) => set (E := e); set (D := de) end.
  apply finalise_e_deletes.
  - subst E. apply memN_In.
    match goal with |- context[if memN coinbase (es_exist ?c) then _ else _] => set (esC := c) end.
    unfold is_empty_acc in Hem. apply Bool.andb_true_iff in Hem. destruct Hem as (Hem & Hc).
    apply Bool.andb_true_iff in Hem. destruct Hem as (Hb & Hn).
    destruct (memN coinbase (es_exist esC)); [|cbn; rewrite memN_addset, N.eqb_refl; reflexivity].
    destruct (Z.of_N (t_used (x_tdb r) * m_price m) =? 0)%Z eqn:Ef;
      [|cbn; rewrite memN_addset, N.eqb_refl; reflexivity].
    apply Z.eqb_eq in Ef. rewrite Ef, Z.sub_0_r, Hb, Hn, Hc. cbn. rewrite memN_addset, N.eqb_refl. reflexivity.
  - right. split; [|exact Hem]. subst D. destruct Hde as [-> | ->]; [reflexivity|].
    destruct (is_forked (c_byzantium cfg) num); reflexivity.
Qed.
