(* Tx/InterpSupply.v — C05 over the C07 interpreter (AQ.Evm.Interp, imported, not edited):
   the sum of all balances never grows while code runs.

   What is proved (all closed, no axioms):
   * every world operation of Interp (add_balance, sub_balance, transfer, create_account, suicide, set_*,
     add_refund, add_log) changes the sum by exactly the stated amount;
   * evm.Call / CallCode / DelegateCall / StaticCall shells (do_call …) and one instruction (`exec`, `step`)
     keep "all balances non-negative" and do not raise the sum, given that the callee does;
   * [exec_no_inflation]: for EVERY code, fuel, environment with a compiled jump table and every world whose
     balances are non-negative, running a frame (`loop`, `interp`) or a top-level message call (`call_top`)
     leaves the balances non-negative and the sum <= the sum before — for programs in which the CREATE
     instruction is not reachable, stated as: no byte 0xf0 occurs in the code of the frame or of any account.
   What is NOT proved here: the CREATE instruction.  Interp keeps the stack as unbounded integers (Z) and
   `exec E_create` passes the popped value to evm.Create as it is; a negative value would pass CanTransfer
   and create a negative balance.  The Go stack holds *big.Int words that are never negative, but the model
   carries no theorem "every stack entry is >= 0" (it needs well-formedness of memory, calldata, code,
   storage and the precompile oracle as well), so the CREATE case is excluded rather than assumed.
   Consequently this discharges the premise `run_no_inflation` of C05_tx_no_inflation / C05_block_supply
   only for CREATE-free message calls, and only at the level of Interp's own world (Tx.Transition abstracts
   code to a digest, so there is no formal refinement between the two state types). *)
From Coq Require Import ZArith List Bool String Lia ZifyBool.
From AQ Require Import Lib.Bytes Evm.OpsModel Evm.Interp Evm.InterpProofs Evm.InterpProofsStatic.
Import ListNotations.
Local Open Scope Z_scope.
Set Default Timeout 300.

(* ------------------------------------------------------------------ sum of balances, invariants *)

Fixpoint lsupply (l : list (Z * account)) : Z :=
  match l with [] => 0 | (_, a) :: r => a_balance a + lsupply r end.
Definition wsupply (w : world) : Z := lsupply (w_accts w).

(* every entry of the account list has a non-negative balance *)
Definition winv (w : world) : Prop := Forall (fun e => 0 <= a_balance (snd e)) (w_accts w).
(* CREATE (0xf0) occurs nowhere in a code *)
Definition cf (code : list Z) : Prop := ~ In 0xf0 code.
Definition wcf (w : world) : Prop := Forall (fun e => cf (a_code (snd e))) (w_accts w).
Definition INV (w : world) : Prop := winv w /\ wcf w.

Lemma lsupply_aset l k v :
  lsupply (aset l k v) = lsupply l - (match aget l k with Some a => a_balance a | None => 0 end) + a_balance v.
Proof.
  induction l as [|[k0 v0] r IH]; cbn [aset aget lsupply]; [lia|].
  destruct (k0 =? k); cbn [lsupply]; [lia|]. rewrite IH. lia.
Qed.

Lemma Forall_aset (Q : account -> Prop) l k v :
  Forall (fun e => Q (snd e)) l -> Q v -> Forall (fun e : Z * account => Q (snd e)) (aset l k v).
Proof.
  intros Hl Hv. induction l as [|[k0 v0] r IH]; cbn [aset]; [constructor; [exact Hv|constructor]|].
  inversion Hl as [|? ? H0 Hr]; subst. destruct (k0 =? k); constructor; auto.
Qed.

Lemma Forall_aget (Q : account -> Prop) l k a :
  Forall (fun e => Q (snd e)) l -> aget l k = Some a -> Q a.
Proof.
  intros Hl. induction l as [|[k0 v0] r IH]; cbn [aget]; [discriminate|].
  inversion Hl as [|? ? H0 Hr]; subst. destruct (k0 =? k); [intros E; injection E as <-; exact H0|auto].
Qed.

Lemma wsupply_put w a acc : wsupply (put_acct w a acc) = wsupply w - get_balance w a + a_balance acc.
Proof. unfold wsupply, put_acct, get_balance, find_acct. cbn [w_accts]. apply lsupply_aset. Qed.

Lemma winv_put w a acc : winv w -> 0 <= a_balance acc -> winv (put_acct w a acc).
Proof. unfold winv, put_acct. cbn [w_accts]. apply (Forall_aset (fun x => 0 <= a_balance x)). Qed.
Lemma wcf_put w a acc : wcf w -> cf (a_code acc) -> wcf (put_acct w a acc).
Proof. unfold wcf, put_acct. cbn [w_accts]. apply (Forall_aset (fun x => cf (a_code x))). Qed.

Lemma winv_balance w a : winv w -> 0 <= get_balance w a.
Proof.
  intros H. unfold get_balance, find_acct. destruct (aget (w_accts w) a) eqn:E; [|lia].
  exact (Forall_aget (fun x => 0 <= a_balance x) _ _ _ H E).
Qed.
Lemma wcf_code w a : wcf w -> cf (get_code w a).
Proof.
  intros H. unfold get_code, find_acct. destruct (aget (w_accts w) a) eqn:E; [|intros []].
  exact (Forall_aget (fun x => cf (a_code x)) _ _ _ H E).
Qed.

Lemma get_or_new_balance w a : a_balance (get_or_new w a) = get_balance w a.
Proof. unfold get_or_new, get_balance. destruct (find_acct w a); reflexivity. Qed.
Lemma get_or_new_code w a : a_code (get_or_new w a) = get_code w a.
Proof. unfold get_or_new, get_code. destruct (find_acct w a); reflexivity. Qed.

Lemma get_balance_put w a acc a' : get_balance (put_acct w a acc) a' = if a' =? a then a_balance acc else get_balance w a'.
Proof. unfold get_balance. rewrite find_put. destruct (a' =? a); reflexivity. Qed.

(* worlds with the same account list *)
Lemma same_accts w w' : w_accts w' = w_accts w -> (INV w -> INV w') /\ wsupply w' = wsupply w.
Proof. intros E. unfold INV, winv, wcf, wsupply. rewrite E. tauto. Qed.

(* ---- the operations *)
Lemma add_balance_sup w a x : wsupply (add_balance w a x) = wsupply w + x.
Proof. unfold add_balance. rewrite wsupply_put. cbn [a_balance]. rewrite get_or_new_balance. lia. Qed.
Lemma sub_balance_sup w a x : wsupply (sub_balance w a x) = wsupply w - x.
Proof. unfold sub_balance. rewrite wsupply_put. cbn [a_balance]. rewrite get_or_new_balance. lia. Qed.
Lemma add_balance_inv w a x : INV w -> 0 <= get_balance w a + x -> INV (add_balance w a x).
Proof.
  intros [H1 H2] Hx. unfold add_balance. split; [apply winv_put|apply wcf_put]; auto; cbn [a_balance a_code].
  - rewrite get_or_new_balance. exact Hx.
  - rewrite get_or_new_code. apply wcf_code, H2.
Qed.
Lemma sub_balance_inv w a x : INV w -> 0 <= get_balance w a - x -> INV (sub_balance w a x).
Proof.
  intros [H1 H2] Hx. unfold sub_balance. split; [apply winv_put|apply wcf_put]; auto; cbn [a_balance a_code].
  - rewrite get_or_new_balance. exact Hx.
  - rewrite get_or_new_code. apply wcf_code, H2.
Qed.
Lemma get_balance_add w a x a' : get_balance (add_balance w a x) a' = if a' =? a then get_balance w a + x else get_balance w a'.
Proof. unfold add_balance. rewrite get_balance_put. cbn [a_balance]. rewrite get_or_new_balance. reflexivity. Qed.
Lemma get_balance_sub w a x a' : get_balance (sub_balance w a x) a' = if a' =? a then get_balance w a - x else get_balance w a'.
Proof. unfold sub_balance. rewrite get_balance_put. cbn [a_balance]. rewrite get_or_new_balance. reflexivity. Qed.

Lemma transfer_sup w a b v : wsupply (transfer w a b v) = wsupply w.
Proof. unfold transfer. rewrite add_balance_sup, sub_balance_sup. lia. Qed.
Lemma transfer_inv w a b v : INV w -> 0 <= v -> can_transfer w a v = true -> INV (transfer w a b v).
Proof.
  intros Hi Hv Hc. unfold can_transfer in Hc. unfold transfer.
  assert (H1 : INV (sub_balance w a v)) by (apply sub_balance_inv; [exact Hi|lia]).
  apply add_balance_inv; [exact H1|]. pose proof (winv_balance _ b (proj1 H1)). lia.
Qed.

Lemma set_state_sup w a k v : wsupply (set_state w a k v) = wsupply w /\ (INV w -> INV (set_state w a k v)).
Proof.
  unfold set_state. rewrite wsupply_put. cbn [a_balance]. rewrite get_or_new_balance. split; [lia|].
  intros [H1 H2]. split; [apply winv_put|apply wcf_put]; auto; cbn [a_balance a_code].
  - rewrite ?get_or_new_balance. apply winv_balance, H1.
  - rewrite ?get_or_new_code. apply wcf_code, H2.
Qed.
Lemma create_account_sup w a : wsupply (create_account w a) = wsupply w /\ (INV w -> INV (create_account w a)) /\
  forall a', get_balance (create_account w a) a' = get_balance w a'.
Proof.
  unfold create_account. rewrite wsupply_put. cbn [a_balance]. split; [lia|]. split.
  - intros [H1 H2]. split; [apply winv_put|apply wcf_put]; auto; cbn [a_balance a_code]; [apply winv_balance, H1|intros []].
  - intros a'. rewrite get_balance_put. cbn [a_balance]. destruct (a' =? a) eqn:E; [|reflexivity].
    assert (a' = a) by lia. subst. reflexivity.
Qed.
Lemma suicide_sup w a : wsupply (suicide w a) = wsupply w - get_balance w a /\ (INV w -> INV (suicide w a)).
Proof.
  unfold suicide, get_balance. destruct (find_acct w a) as [acc|] eqn:E.
  - rewrite wsupply_put. unfold get_balance. rewrite E. cbn [a_balance]. split; [lia|].
    intros [H1 H2]. split; [apply winv_put|apply wcf_put]; auto; cbn [a_balance a_code]; [lia|].
    exact (Forall_aget (fun x => cf (a_code x)) _ _ _ H2 E).
  - split; [lia|tauto].
Qed.

(* ------------------------------------------------------------------ calls *)

Definition sup_ok (w : world) (o : outcome) : Prop := INV (o_world o) /\ wsupply (o_world o) <= wsupply w.
(* the callee: on a world with non-negative balances and CREATE-free code it does not raise the sum *)
Definition rec_sup (rec : interp_t) : Prop := forall w fr, INV w -> cf (f_code fr) -> sup_ok w (rec w fr).

Lemma mkout_sup w r g rd tr ro : INV w -> sup_ok w (mkout r g w rd tr ro).
Proof. intros H. split; [exact H|cbn; lia]. Qed.

Lemma run_contract_sup rec e w ca fr rd : rec_sup rec -> INV w -> cf (f_code fr) -> sup_ok w (run_contract rec e w ca fr rd).
Proof.
  intros Hr Hi Hc. unfold run_contract. destruct (is_precompile e ca); [|apply Hr; assumption].
  unfold sup_ok. rewrite run_precompile_world. split; [exact Hi|lia].
Qed.

Lemma finish_call_sup w0 snap o : sup_ok w0 o -> INV snap -> wsupply snap <= wsupply w0 -> sup_ok w0 (finish_call snap o).
Proof.
  intros Ho Hs Hl. unfold finish_call. destruct (o_res o); try exact Ho; split; cbn [o_world]; assumption.
Qed.

Lemma sup_ok_trans w0 w1 o : wsupply w1 <= wsupply w0 -> sup_ok w1 o -> sup_ok w0 o.
Proof. intros H [H1 H2]. split; [exact H1|lia]. Qed.

Lemma new_frame_code code input self caller value gas ro depth tr :
  f_code (new_frame code input self caller value gas ro depth tr) = code.
Proof. reflexivity. Qed.

Lemma do_call_sup rec e w rd tr depth ro caller addr input gas value :
  rec_sup rec -> INV w -> 0 <= value -> sup_ok w (do_call rec e w rd tr depth ro caller addr input gas value).
Proof.
  intros Hr Hi Hv. unfold do_call.
  destruct (depth >? CallCreateDepth); [apply mkout_sup, Hi|].
  destruct (can_transfer w caller value) eqn:Hc; cbn [negb]; [|apply mkout_sup, Hi].
  destruct (_ && _ && _ && _); [apply mkout_sup, Hi|].
  set (w1 := if negb (exist w addr) then create_account w addr else w).
  assert (H1 : INV w1 /\ wsupply w1 = wsupply w /\ can_transfer w1 caller value = true).
  { subst w1. destruct (negb (exist w addr)); [|tauto].
    destruct (create_account_sup w addr) as (Ha & Hb & Hg). split; [apply Hb, Hi|]. split; [exact Ha|].
    unfold can_transfer in *. rewrite Hg. exact Hc. }
  destruct H1 as (Hi1 & Hs1 & Hc1).
  set (w2 := transfer w1 caller addr value).
  assert (Hi2 : INV w2) by (apply transfer_inv; assumption).
  assert (Hs2 : wsupply w2 = wsupply w) by (subst w2; rewrite transfer_sup; exact Hs1).
  apply finish_call_sup; [|exact Hi|lia].
  apply (sup_ok_trans w w2); [lia|]. apply run_contract_sup; [exact Hr|exact Hi2|].
  rewrite new_frame_code. apply wcf_code, Hi2.
Qed.

Lemma do_callcode_sup rec e w rd tr depth ro caller addr input gas value :
  rec_sup rec -> INV w -> sup_ok w (do_callcode rec e w rd tr depth ro caller addr input gas value).
Proof.
  intros Hr Hi. unfold do_callcode.
  destruct (depth >? CallCreateDepth); [apply mkout_sup, Hi|].
  destruct (negb _); [apply mkout_sup, Hi|].
  apply finish_call_sup; [|exact Hi|lia]. apply run_contract_sup; [exact Hr|exact Hi|].
  rewrite new_frame_code. apply wcf_code, Hi.
Qed.

Lemma do_delegatecall_sup rec e w rd tr depth ro self pc pv addr input gas :
  rec_sup rec -> INV w -> sup_ok w (do_delegatecall rec e w rd tr depth ro self pc pv addr input gas).
Proof.
  intros Hr Hi. unfold do_delegatecall.
  destruct (depth >? CallCreateDepth); [apply mkout_sup, Hi|].
  apply finish_call_sup; [|exact Hi|lia]. apply run_contract_sup; [exact Hr|exact Hi|].
  rewrite new_frame_code. apply wcf_code, Hi.
Qed.

Lemma do_staticcall_sup rec e w rd tr depth ro caller addr input gas :
  rec_sup rec -> INV w -> sup_ok w (do_staticcall rec e w rd tr depth ro caller addr input gas).
Proof.
  intros Hr Hi. unfold do_staticcall.
  destruct (depth >? CallCreateDepth); [apply mkout_sup, Hi|].
  assert (E : forall o r, sup_ok w o -> sup_ok w (set_out_ro o r)) by (intros o r [A B]; split; assumption).
  cbv zeta. destruct ro; [|apply E];
    (apply finish_call_sup; [|exact Hi|lia]; apply run_contract_sup; [exact Hr|exact Hi|];
     rewrite new_frame_code; apply wcf_code, Hi).
Qed.

Lemma call_return_sup w fr rest ro rs o w2 fr2 res :
  call_return w fr rest ro rs o = X_ok w2 fr2 res -> w2 = o_world o /\ f_code fr2 = f_code fr.
Proof.
  intros H. unfold call_return in H.
  destruct (o_res o); try discriminate;
    try (destruct (mem_set _ _ _ _); try discriminate); injection H as <- <- _; split; reflexivity.
Qed.

Lemma U256_nonneg v : 0 <= U256 v.
Proof. unfold U256. apply Z.land_nonneg. right. unfold tt256m1, tt256. lia. Qed.

(* ------------------------------------------------------------------ one instruction *)

Ltac inv_sup H :=
  repeat match type of H with
  | match ?t with _ => _ end = _ => destruct t eqn:?; try discriminate
  | (let '(_, _) := ?t in _) = _ => destruct t eqn:?
  | (if ?t then _ else _) = _ => destruct t eqn:?; try discriminate
  | lift_mem _ _ _ _ = _ => unfold lift_mem in H
  end;
  injection H as <- <- _; (split; [assumption|split; [lia|reflexivity]]).

(* every instruction but CREATE: balances stay non-negative, the sum does not grow, the frame keeps its code *)
Lemma exec_sup rec e w fr1 x temp w2 fr2 res :
  rec_sup rec -> INV w -> x <> E_create ->
  exec rec e w fr1 x temp = X_ok w2 fr2 res ->
  INV w2 /\ wsupply w2 <= wsupply w /\ f_code fr2 = f_code fr1.
Proof.
  intros Hr Hi Hx H.
  destruct x; unfold exec in H; try solve [inv_sup H]; try congruence.
  - (* sstore *)
    destruct (f_stack fr1) as [|loc [|v r]]; try discriminate. injection H as <- <- _.
    destruct (set_state_sup w (f_self fr1) (hash_of loc) (hash_of v)) as (Hs & Hinv).
    split; [apply Hinv, Hi|]. split; [lia|reflexivity].
  - (* log *)
    destruct (f_stack fr1) as [|a [|b r]]; try discriminate.
    destruct (_ <? n); try discriminate. destruct (mem_get _ _ _); try discriminate. injection H as <- <- _.
    split; [exact Hi|]. split; [unfold wsupply; cbn; lia|reflexivity].
  - (* call *)
    destruct (f_stack fr1) as [|g0 [|addr [|value0 [|inOff [|inSize [|retOff [|retSize r]]]]]]]; try discriminate.
    destruct (mem_get _ _ _); try discriminate.
    apply call_return_sup in H. destruct H as (-> & Hc).
    match goal with |- context[do_call ?a ?b ?c ?d ?e' ?f ?g ?h ?i ?j ?k ?l] =>
      destruct (do_call_sup a b c d e' f g h i j k l Hr Hi (U256_nonneg _)) as (H1 & H2) end.
    split; [exact H1|]. split; [exact H2|exact Hc].
  - (* callcode *)
    destruct (f_stack fr1) as [|g0 [|addr [|value0 [|inOff [|inSize [|retOff [|retSize r]]]]]]]; try discriminate.
    destruct (mem_get _ _ _); try discriminate.
    apply call_return_sup in H. destruct H as (-> & Hc).
    match goal with |- context[do_callcode ?a ?b ?c ?d ?e' ?f ?g ?h ?i ?j ?k ?l] =>
      destruct (do_callcode_sup a b c d e' f g h i j k l Hr Hi) as (H1 & H2) end.
    split; [exact H1|]. split; [exact H2|exact Hc].
  - (* delegatecall *)
    destruct (f_stack fr1) as [|g0 [|addr [|inOff [|inSize [|retOff [|retSize r]]]]]]; try discriminate.
    destruct (mem_get _ _ _); try discriminate.
    apply call_return_sup in H. destruct H as (-> & Hc).
    match goal with |- context[do_delegatecall ?a ?b ?c ?d ?e' ?f ?g ?h ?i ?j ?k ?l ?m] =>
      destruct (do_delegatecall_sup a b c d e' f g h i j k l m Hr Hi) as (H1 & H2) end.
    split; [exact H1|]. split; [exact H2|exact Hc].
  - (* staticcall *)
    destruct (f_stack fr1) as [|g0 [|addr [|inOff [|inSize [|retOff [|retSize r]]]]]]; try discriminate.
    destruct (mem_get _ _ _); try discriminate.
    apply call_return_sup in H. destruct H as (-> & Hc).
    match goal with |- context[do_staticcall ?a ?b ?c ?d ?e' ?f ?g ?h ?i ?j ?k] =>
      destruct (do_staticcall_sup a b c d e' f g h i j k Hr Hi) as (H1 & H2) end.
    split; [exact H1|]. split; [exact H2|exact Hc].
  - (* selfdestruct: the balance goes to the beneficiary, or is burnt when that is the contract itself *)
    destruct (f_stack fr1) as [|a r]; try discriminate. injection H as <- <- _.
    set (self := f_self fr1). set (ben := addr_of a). set (b := get_balance w self).
    assert (Hb : 0 <= b) by (apply winv_balance, Hi).
    assert (Hi1 : INV (add_balance w ben b)).
    { apply add_balance_inv; [exact Hi|]. pose proof (winv_balance w ben (proj1 Hi)). lia. }
    destruct (suicide_sup (add_balance w ben b) self) as (Hs & Hinv).
    split; [apply Hinv, Hi1|]. split; [|reflexivity].
    rewrite Hs, add_balance_sup, get_balance_add. pose proof (winv_balance w ben (proj1 Hi)) as Hben.
    subst b. destruct (self =? ben); lia.
Qed.

(* a gas function changes nothing but the refund counter *)
Lemma gas_cost_accts e w fr g ms r : gas_cost e w fr g ms = Ok r -> w_accts (g_world r) = w_accts w.
Proof.
  intros H.
  assert (Hl : forall x y, lift_pair w x = Ok y -> g_world y = w).
  { intros x y Hx. apply lift_pair_inv in Hx as (c & l & _ & ->). reflexivity. }
  destruct g; cbn [gas_cost] in H;
    try (injection H as <-; reflexivity);
    try (apply Hl in H; rewrite H; reflexivity);
    try (destruct (back (f_stack fr) 1); [|discriminate]; apply Hl in H; rewrite H; reflexivity);
    try (destruct (back (f_stack fr) 2); [|discriminate]; apply Hl in H; rewrite H; reflexivity);
    try (destruct (back (f_stack fr) 3); [|discriminate]; apply Hl in H; rewrite H; reflexivity).
  - destruct (back _ 1); [|discriminate]. destruct (gasExp _ _); try discriminate. injection H as <-. reflexivity.
  - destruct (back _ 0); [|discriminate]. destruct (back _ 1); [|discriminate].
    destruct (_ && _); [injection H as <-; reflexivity|].
    destruct (_ && _); injection H as <-; reflexivity.
  - destruct (back _ 0); [|discriminate]. destruct (back _ 1); [|discriminate]. destruct (back _ 2); [|discriminate].
    destruct (memoryGasCost _ _ _) as [[mg l]|?|]; try discriminate. destruct (SafeAdd _ mg) as [t o]. destruct o; [discriminate|].
    apply call_gas_tail_world in H. rewrite H. reflexivity.
  - destruct (back _ 0); [|discriminate]. destruct (back _ 2); [|discriminate].
    destruct (memoryGasCost _ _ _) as [[mg l]|?|]; try discriminate. destruct (SafeAdd _ mg) as [t o]. destruct o; [discriminate|].
    apply call_gas_tail_world in H. rewrite H. reflexivity.
  - destruct (back _ 0); [|discriminate].
    destruct (memoryGasCost _ _ _) as [[mg l]|?|]; try discriminate. destruct (SafeAdd mg _) as [t o]. destruct o; [discriminate|].
    apply call_gas_tail_world in H. rewrite H. reflexivity.
  - destruct (back _ 0); [|discriminate].
    destruct (memoryGasCost _ _ _) as [[mg l]|?|]; try discriminate. destruct (SafeAdd mg _) as [t o]. destruct o; [discriminate|].
    apply call_gas_tail_world in H. rewrite H. reflexivity.
  - destruct (back _ 0); [|discriminate]. injection H as <-. cbn [g_world]. destruct (negb _); reflexivity.
  - discriminate.
Qed.

(* in every compiled table the CREATE instruction sits at 0xf0 only *)
Definition create_pos_ok (t : list cop) : bool :=
  forallb (fun i => match c_exec (nth i t invalid_cop) with E_create => Nat.eqb i 240 | _ => true end) (seq 0 256).
Lemma create_pos_all : forall s, create_pos_ok (ctbl_of s) = true /\ length (ctbl_of s) = 256%nat.
Proof. intros []; split; vm_compute; reflexivity. Qed.
Lemma e_create_pos s op : c_exec (nth (Z.to_nat op) (ctbl_of s) invalid_cop) = E_create -> op = 0xf0.
Proof.
  intros H. destruct (create_pos_all s) as [Hc Hl].
  destruct (Nat.lt_ge_cases (Z.to_nat op) 256) as [Hlt | Hge].
  - unfold create_pos_ok in Hc. rewrite forallb_forall in Hc.
    specialize (Hc (Z.to_nat op)). rewrite H in Hc.
    assert (Hin : In (Z.to_nat op) (seq 0 256)) by (apply in_seq; lia).
    apply Hc in Hin. apply Nat.eqb_eq in Hin. lia.
  - rewrite nth_overflow in H by lia. discriminate.
Qed.

Lemma get_op_in code pc : get_op code pc = 0xf0 -> In 0xf0 code.
Proof.
  unfold get_op. destruct (pc <? blen code); [|discriminate].
  destruct (nth_in_or_default (Z.to_nat pc) code 0) as [Hin|Hd]; intros E; [rewrite <- E; exact Hin|lia].
Qed.

(* ------------------------------------------------------------------ the loop *)

Lemma step_sup rec e w fr :
  rec_sup rec -> (exists s, e_tbl e = ctbl_of s) -> INV w -> cf (f_code fr) ->
  match step rec e w fr with
  | S_next w' fr' => INV w' /\ wsupply w' <= wsupply w /\ f_code fr' = f_code fr
  | S_done o => sup_ok w o
  end.
Proof.
  intros Hr [s Hs] Hi Hc. unfold step.
  set (op := get_op (f_code fr) (f_pc fr)). set (c := nth (Z.to_nat op) (e_tbl e) invalid_cop).
  assert (Hx : c_exec c <> E_create).
  { intros E. subst c. rewrite Hs in E. apply e_create_pos in E. apply Hc. apply (get_op_in _ (f_pc fr)). exact E. }
  destruct (negb _); [apply mkout_sup, Hi|].
  destruct (validateStack _ _ _); [|apply mkout_sup, Hi|apply mkout_sup, Hi].
  destruct (restricted _ _ _ _); [apply mkout_sup, Hi|].
  destruct (mem_size_big _ _) as [msb|]; [|apply mkout_sup, Hi].
  destruct (match msb with Some b => run_memorySize b | None => Ok 0 end); [|apply mkout_sup, Hi|apply mkout_sup, Hi].
  destruct (gas_cost _ _ _ _ _) as [g|?|] eqn:Hg; [|apply mkout_sup, Hi|apply mkout_sup, Hi].
  apply gas_cost_accts in Hg. destruct (same_accts w (g_world g) Hg) as (Hig & Hsg). specialize (Hig Hi).
  assert (Hm : forall r gg rd tr ro, sup_ok w (mkout r gg (g_world g) rd tr ro)).
  { intros. split; [exact Hig|cbn; lia]. }
  destruct (f_gas fr <? g_cost g); [apply Hm|].
  match goal with |- context[exec rec e (g_world g) ?f1 ?x (g_temp g)] => set (fr1 := f1) end.
  destruct (exec rec e (g_world g) fr1 (c_exec c) (g_temp g)) as [w2 fr2 res| er | |] eqn:Hex; try apply Hm.
  destruct (exec_sup _ _ _ _ _ _ _ _ _ Hr Hig Hx Hex) as (Hi2 & Hs2 & Hc2).
  change (f_code fr1) with (f_code fr) in Hc2.
  match goal with |- context[if ?b then set_rdata fr2 res else fr2] => set (fr3 := if b then set_rdata fr2 res else fr2);
    assert (H3 : f_code fr3 = f_code fr2) by (subst fr3; destruct b; reflexivity) end.
  assert (Ho : forall r gg rd tr ro, sup_ok w (mkout r gg w2 rd tr ro)) by (intros; split; [exact Hi2|cbn; lia]).
  repeat match goal with |- context[if ?b then _ else _] => destruct b end; try apply Ho;
    (split; [exact Hi2|split; [lia|cbn [set_pc set_pc_stack f_code]; congruence]]).
Qed.

Lemma interp_of_sup lp : rec_sup lp -> rec_sup (interp_of lp).
Proof. intros H w fr Hi Hc. unfold interp_of. destruct (f_code fr) eqn:E; [apply mkout_sup, Hi|apply H; [exact Hi|rewrite E; exact Hc]]. Qed.

Lemma loop_sup fuel e : (exists s, e_tbl e = ctbl_of s) -> rec_sup (loop fuel e).
Proof.
  intros He. induction fuel as [|f IH]; intros w fr Hi Hc; cbn [loop]; [apply mkout_sup, Hi|].
  pose proof (step_sup (interp_of (loop f e)) e w fr (interp_of_sup _ IH) He Hi Hc) as Hs.
  destruct (step _ e w fr) as [w' fr' | o]; [|exact Hs].
  destruct Hs as (Hi' & Hs' & Hc'). apply (sup_ok_trans w w'); [exact Hs'|]. apply IH; [exact Hi'|rewrite Hc'; exact Hc].
Qed.

(* for every CREATE-free code and world: running a frame never raises the sum of balances and keeps them >= 0 *)
Theorem exec_no_inflation fuel e w fr :
  (exists s, e_tbl e = ctbl_of s) -> winv w -> wcf w -> cf (f_code fr) ->
  let o := interp fuel e w fr in
  winv (o_world o) /\ wcf (o_world o) /\ wsupply (o_world o) <= wsupply w.
Proof.
  intros He H1 H2 Hc. cbv zeta. unfold interp.
  destruct (interp_of_sup _ (loop_sup fuel e He) w fr (conj H1 H2) Hc) as ((A & B) & C). tauto.
Qed.

(* ... and so does a top-level message call (vm.EVM.Call from TransitionDb) *)
Theorem call_top_no_inflation fuel e w caller addr input gas value :
  (exists s, e_tbl e = ctbl_of s) -> winv w -> wcf w -> 0 <= value ->
  let o := call_top fuel e w caller addr input gas value in
  winv (o_world o) /\ wcf (o_world o) /\ wsupply (o_world o) <= wsupply w.
Proof.
  intros He H1 H2 Hv. cbv zeta. unfold call_top.
  destruct (do_call_sup (interp fuel e) e w [] [] 0 false caller addr input gas value
              (interp_of_sup _ (loop_sup fuel e He)) (conj H1 H2) Hv) as ((A & B) & C). tauto.
Qed.

(* decidable forms of the premises, for concrete worlds *)
Definition cfb (code : list Z) : bool := forallb (fun b => negb (b =? 0xf0)) code.
Definition wcfb (w : world) : bool := forallb (fun e => cfb (a_code (snd e))) (w_accts w).
Definition winvb (w : world) : bool := forallb (fun e => 0 <=? a_balance (snd e)) (w_accts w).
Lemma cfb_cf code : cfb code = true -> cf code.
Proof.
  unfold cfb, cf. rewrite forallb_forall. intros H Hin. specialize (H _ Hin). cbn in H. discriminate.
Qed.
Lemma wcfb_wcf w : wcfb w = true -> wcf w.
Proof.
  unfold wcfb, wcf. rewrite forallb_forall, Forall_forall. intros H x Hx. apply cfb_cf, H, Hx.
Qed.
Lemma winvb_winv w : winvb w = true -> winv w.
Proof.
  unfold winvb, winv. rewrite forallb_forall, Forall_forall. intros H x Hx. specialize (H x Hx). lia.
Qed.

(* ================================================================== exact conservation
   "... and by exactly that amount whenever no contract self-destructs": for programs in which neither CREATE
   (0xf0, excluded for the reason above — here it would also let new code appear) nor SELFDESTRUCT (0xff) is
   reachable, the sum of balances is exactly conserved.  No sign condition on the balances is needed. *)

Definition nf (code : list Z) : Prop := ~ In 0xf0 code /\ ~ In 0xff code.
Definition wnf (w : world) : Prop := Forall (fun e => nf (a_code (snd e))) (w_accts w).

Lemma wnf_put w a acc : wnf w -> nf (a_code acc) -> wnf (put_acct w a acc).
Proof. unfold wnf, put_acct. cbn [w_accts]. apply (Forall_aset (fun x => nf (a_code x))). Qed.
Lemma wnf_code w a : wnf w -> nf (get_code w a).
Proof.
  intros H. unfold get_code, find_acct. destruct (aget (w_accts w) a) eqn:E; [|split; intros []].
  exact (Forall_aget (fun x => nf (a_code x)) _ _ _ H E).
Qed.
Lemma add_balance_nf w a x : wnf w -> wnf (add_balance w a x).
Proof. intros H. unfold add_balance. apply wnf_put; [exact H|]. cbn [a_code]. rewrite get_or_new_code. apply wnf_code, H. Qed.
Lemma sub_balance_nf w a x : wnf w -> wnf (sub_balance w a x).
Proof. intros H. unfold sub_balance. apply wnf_put; [exact H|]. cbn [a_code]. rewrite get_or_new_code. apply wnf_code, H. Qed.
Lemma transfer_nf w a b v : wnf w -> wnf (transfer w a b v).
Proof. intros H. unfold transfer. apply add_balance_nf, sub_balance_nf, H. Qed.
Lemma set_state_nf w a k v : wnf w -> wnf (set_state w a k v).
Proof. intros H. unfold set_state. apply wnf_put; [exact H|]. cbn [a_code]. rewrite get_or_new_code. apply wnf_code, H. Qed.
Lemma create_account_nf w a : wnf w -> wnf (create_account w a).
Proof. intros H. unfold create_account. apply wnf_put; [exact H|]. cbn [a_code]. split; intros []. Qed.
Lemma same_accts_nf w w' : w_accts w' = w_accts w -> (wnf w -> wnf w') /\ wsupply w' = wsupply w.
Proof. intros E. unfold wnf, wsupply. rewrite E. tauto. Qed.

Definition eq_ok (w : world) (o : outcome) : Prop := wnf (o_world o) /\ wsupply (o_world o) = wsupply w.
Definition rec_eq (rec : interp_t) : Prop := forall w fr, wnf w -> nf (f_code fr) -> eq_ok w (rec w fr).

Lemma mkout_eq w r g rd tr ro : wnf w -> eq_ok w (mkout r g w rd tr ro).
Proof. intros H. split; [exact H|reflexivity]. Qed.
Lemma run_contract_eq rec e w ca fr rd : rec_eq rec -> wnf w -> nf (f_code fr) -> eq_ok w (run_contract rec e w ca fr rd).
Proof.
  intros Hr Hi Hc. unfold run_contract. destruct (is_precompile e ca); [|apply Hr; assumption].
  unfold eq_ok. rewrite run_precompile_world. split; [exact Hi|reflexivity].
Qed.
Lemma finish_call_eq w0 snap o : eq_ok w0 o -> wnf snap -> wsupply snap = wsupply w0 -> eq_ok w0 (finish_call snap o).
Proof. intros Ho Hs Hl. unfold finish_call. destruct (o_res o); try exact Ho; split; cbn [o_world]; assumption. Qed.
Lemma eq_ok_trans w0 w1 o : wsupply w1 = wsupply w0 -> eq_ok w1 o -> eq_ok w0 o.
Proof. intros H [H1 H2]. split; [exact H1|lia]. Qed.

Lemma do_call_eq rec e w rd tr depth ro caller addr input gas value :
  rec_eq rec -> wnf w -> eq_ok w (do_call rec e w rd tr depth ro caller addr input gas value).
Proof.
  intros Hr Hi. unfold do_call.
  destruct (depth >? CallCreateDepth); [apply mkout_eq, Hi|].
  destruct (negb (can_transfer w caller value)); [apply mkout_eq, Hi|].
  destruct (_ && _ && _ && _); [apply mkout_eq, Hi|].
  set (w1 := if negb (exist w addr) then create_account w addr else w).
  assert (H1 : wnf w1 /\ wsupply w1 = wsupply w).
  { subst w1. destruct (negb (exist w addr)); [|tauto].
    split; [apply create_account_nf, Hi|apply (create_account_sup w addr)]. }
  destruct H1 as (Hi1 & Hs1).
  set (w2 := transfer w1 caller addr value).
  assert (Hi2 : wnf w2) by (apply transfer_nf, Hi1).
  assert (Hs2 : wsupply w2 = wsupply w) by (subst w2; rewrite transfer_sup; exact Hs1).
  apply finish_call_eq; [|exact Hi|reflexivity].
  apply (eq_ok_trans w w2); [exact Hs2|]. apply run_contract_eq; [exact Hr|exact Hi2|].
  rewrite new_frame_code. apply wnf_code, Hi2.
Qed.
Lemma do_callcode_eq rec e w rd tr depth ro caller addr input gas value :
  rec_eq rec -> wnf w -> eq_ok w (do_callcode rec e w rd tr depth ro caller addr input gas value).
Proof.
  intros Hr Hi. unfold do_callcode.
  destruct (depth >? CallCreateDepth); [apply mkout_eq, Hi|].
  destruct (negb _); [apply mkout_eq, Hi|].
  apply finish_call_eq; [|exact Hi|reflexivity]. apply run_contract_eq; [exact Hr|exact Hi|].
  rewrite new_frame_code. apply wnf_code, Hi.
Qed.
Lemma do_delegatecall_eq rec e w rd tr depth ro self pc pv addr input gas :
  rec_eq rec -> wnf w -> eq_ok w (do_delegatecall rec e w rd tr depth ro self pc pv addr input gas).
Proof.
  intros Hr Hi. unfold do_delegatecall.
  destruct (depth >? CallCreateDepth); [apply mkout_eq, Hi|].
  apply finish_call_eq; [|exact Hi|reflexivity]. apply run_contract_eq; [exact Hr|exact Hi|].
  rewrite new_frame_code. apply wnf_code, Hi.
Qed.
Lemma do_staticcall_eq rec e w rd tr depth ro caller addr input gas :
  rec_eq rec -> wnf w -> eq_ok w (do_staticcall rec e w rd tr depth ro caller addr input gas).
Proof.
  intros Hr Hi. unfold do_staticcall.
  destruct (depth >? CallCreateDepth); [apply mkout_eq, Hi|].
  assert (E : forall o r, eq_ok w o -> eq_ok w (set_out_ro o r)) by (intros o r [A B]; split; assumption).
  cbv zeta. destruct ro; [|apply E];
    (apply finish_call_eq; [|exact Hi|reflexivity]; apply run_contract_eq; [exact Hr|exact Hi|];
     rewrite new_frame_code; apply wnf_code, Hi).
Qed.

Ltac inv_eq H :=
  repeat match type of H with
  | match ?t with _ => _ end = _ => destruct t eqn:?; try discriminate
  | (let '(_, _) := ?t in _) = _ => destruct t eqn:?
  | (if ?t then _ else _) = _ => destruct t eqn:?; try discriminate
  | lift_mem _ _ _ _ = _ => unfold lift_mem in H
  end;
  injection H as <- <- _; (split; [assumption|split; reflexivity]).

Lemma exec_eq rec e w fr1 x temp w2 fr2 res :
  rec_eq rec -> wnf w -> x <> E_create -> x <> E_suicide ->
  exec rec e w fr1 x temp = X_ok w2 fr2 res ->
  wnf w2 /\ wsupply w2 = wsupply w /\ f_code fr2 = f_code fr1.
Proof.
  intros Hr Hi Hx Hx2 H.
  destruct x; unfold exec in H; try solve [inv_eq H]; try congruence.
  - destruct (f_stack fr1) as [|loc [|v r]]; try discriminate. injection H as <- <- _.
    split; [apply set_state_nf, Hi|]. split; [apply (set_state_sup w)|reflexivity].
  - destruct (f_stack fr1) as [|g0 [|addr [|value0 [|inOff [|inSize [|retOff [|retSize r]]]]]]]; try discriminate.
    destruct (mem_get _ _ _); try discriminate.
    apply call_return_sup in H. destruct H as (-> & Hc).
    match goal with |- context[do_call ?a ?b ?c ?d ?e' ?f ?g ?h ?i ?j ?k ?l] =>
      destruct (do_call_eq a b c d e' f g h i j k l Hr Hi) as (H1 & H2) end.
    split; [exact H1|]. split; [exact H2|exact Hc].
  - destruct (f_stack fr1) as [|g0 [|addr [|value0 [|inOff [|inSize [|retOff [|retSize r]]]]]]]; try discriminate.
    destruct (mem_get _ _ _); try discriminate.
    apply call_return_sup in H. destruct H as (-> & Hc).
    match goal with |- context[do_callcode ?a ?b ?c ?d ?e' ?f ?g ?h ?i ?j ?k ?l] =>
      destruct (do_callcode_eq a b c d e' f g h i j k l Hr Hi) as (H1 & H2) end.
    split; [exact H1|]. split; [exact H2|exact Hc].
  - destruct (f_stack fr1) as [|g0 [|addr [|inOff [|inSize [|retOff [|retSize r]]]]]]; try discriminate.
    destruct (mem_get _ _ _); try discriminate.
    apply call_return_sup in H. destruct H as (-> & Hc).
    match goal with |- context[do_delegatecall ?a ?b ?c ?d ?e' ?f ?g ?h ?i ?j ?k ?l ?m] =>
      destruct (do_delegatecall_eq a b c d e' f g h i j k l m Hr Hi) as (H1 & H2) end.
    split; [exact H1|]. split; [exact H2|exact Hc].
  - destruct (f_stack fr1) as [|g0 [|addr [|inOff [|inSize [|retOff [|retSize r]]]]]]; try discriminate.
    destruct (mem_get _ _ _); try discriminate.
    apply call_return_sup in H. destruct H as (-> & Hc).
    match goal with |- context[do_staticcall ?a ?b ?c ?d ?e' ?f ?g ?h ?i ?j ?k] =>
      destruct (do_staticcall_eq a b c d e' f g h i j k Hr Hi) as (H1 & H2) end.
    split; [exact H1|]. split; [exact H2|exact Hc].
Qed.

Definition suicide_pos_ok (t : list cop) : bool :=
  forallb (fun i => match c_exec (nth i t invalid_cop) with E_suicide => Nat.eqb i 255 | _ => true end) (seq 0 256).
Lemma suicide_pos_all : forall s, suicide_pos_ok (ctbl_of s) = true.
Proof. intros []; vm_compute; reflexivity. Qed.
Lemma e_suicide_pos s op : c_exec (nth (Z.to_nat op) (ctbl_of s) invalid_cop) = E_suicide -> op = 0xff.
Proof.
  intros H. pose proof (suicide_pos_all s) as Hc. destruct (create_pos_all s) as [_ Hl].
  destruct (Nat.lt_ge_cases (Z.to_nat op) 256) as [Hlt | Hge].
  - unfold suicide_pos_ok in Hc. rewrite forallb_forall in Hc.
    specialize (Hc (Z.to_nat op)). rewrite H in Hc.
    assert (Hin : In (Z.to_nat op) (seq 0 256)) by (apply in_seq; lia).
    apply Hc in Hin. apply Nat.eqb_eq in Hin. lia.
  - rewrite nth_overflow in H by lia. discriminate.
Qed.
Lemma get_op_in' code pc v : v <> 0 -> get_op code pc = v -> In v code.
Proof.
  intros Hv. unfold get_op. destruct (pc <? blen code); [|congruence].
  destruct (nth_in_or_default (Z.to_nat pc) code 0) as [Hin|Hd]; intros E; [rewrite <- E; exact Hin|congruence].
Qed.

Lemma step_eq rec e w fr :
  rec_eq rec -> (exists s, e_tbl e = ctbl_of s) -> wnf w -> nf (f_code fr) ->
  match step rec e w fr with
  | S_next w' fr' => wnf w' /\ wsupply w' = wsupply w /\ f_code fr' = f_code fr
  | S_done o => eq_ok w o
  end.
Proof.
  intros Hr [s Hs] Hi Hc. unfold step.
  set (op := get_op (f_code fr) (f_pc fr)). set (c := nth (Z.to_nat op) (e_tbl e) invalid_cop).
  assert (Hx : c_exec c <> E_create).
  { intros E. subst c. rewrite Hs in E. apply e_create_pos in E. apply (proj1 Hc). apply (get_op_in' _ (f_pc fr)); [lia|exact E]. }
  assert (Hx2 : c_exec c <> E_suicide).
  { intros E. subst c. rewrite Hs in E. apply e_suicide_pos in E. apply (proj2 Hc). apply (get_op_in' _ (f_pc fr)); [lia|exact E]. }
  destruct (negb _); [apply mkout_eq, Hi|].
  destruct (validateStack _ _ _); [|apply mkout_eq, Hi|apply mkout_eq, Hi].
  destruct (restricted _ _ _ _); [apply mkout_eq, Hi|].
  destruct (mem_size_big _ _) as [msb|]; [|apply mkout_eq, Hi].
  destruct (match msb with Some b => run_memorySize b | None => Ok 0 end); [|apply mkout_eq, Hi|apply mkout_eq, Hi].
  destruct (gas_cost _ _ _ _ _) as [g|?|] eqn:Hg; [|apply mkout_eq, Hi|apply mkout_eq, Hi].
  apply gas_cost_accts in Hg. destruct (same_accts_nf w (g_world g) Hg) as (Hig & Hsg). specialize (Hig Hi).
  assert (Hm : forall r gg rd tr ro, eq_ok w (mkout r gg (g_world g) rd tr ro)).
  { intros. split; [exact Hig|cbn; lia]. }
  destruct (f_gas fr <? g_cost g); [apply Hm|].
  match goal with |- context[exec rec e (g_world g) ?f1 ?x (g_temp g)] => set (fr1 := f1) end.
  destruct (exec rec e (g_world g) fr1 (c_exec c) (g_temp g)) as [w2 fr2 res| er | |] eqn:Hex; try apply Hm.
  destruct (exec_eq _ _ _ _ _ _ _ _ _ Hr Hig Hx Hx2 Hex) as (Hi2 & Hs2 & Hc2).
  change (f_code fr1) with (f_code fr) in Hc2.
  match goal with |- context[if ?b then set_rdata fr2 res else fr2] => set (fr3 := if b then set_rdata fr2 res else fr2);
    assert (H3 : f_code fr3 = f_code fr2) by (subst fr3; destruct b; reflexivity) end.
  assert (Ho : forall r gg rd tr ro, eq_ok w (mkout r gg w2 rd tr ro)) by (intros; split; [exact Hi2|cbn; lia]).
  repeat match goal with |- context[if ?b then _ else _] => destruct b end; try apply Ho;
    (split; [exact Hi2|split; [lia|cbn [set_pc set_pc_stack f_code]; congruence]]).
Qed.

Lemma interp_of_eq lp : rec_eq lp -> rec_eq (interp_of lp).
Proof. intros H w fr Hi Hc. unfold interp_of. destruct (f_code fr) eqn:E; [apply mkout_eq, Hi|apply H; [exact Hi|rewrite E; exact Hc]]. Qed.

Lemma loop_eq fuel e : (exists s, e_tbl e = ctbl_of s) -> rec_eq (loop fuel e).
Proof.
  intros He. induction fuel as [|f IH]; intros w fr Hi Hc; cbn [loop]; [apply mkout_eq, Hi|].
  pose proof (step_eq (interp_of (loop f e)) e w fr (interp_of_eq _ IH) He Hi Hc) as Hs.
  destruct (step _ e w fr) as [w' fr' | o]; [|exact Hs].
  destruct Hs as (Hi' & Hs' & Hc'). apply (eq_ok_trans w w'); [exact Hs'|]. apply IH; [exact Hi'|rewrite Hc'; exact Hc].
Qed.

Theorem call_top_supply_exact fuel e w caller addr input gas value :
  (exists s, e_tbl e = ctbl_of s) -> wnf w ->
  let o := call_top fuel e w caller addr input gas value in
  wnf (o_world o) /\ wsupply (o_world o) = wsupply w.
Proof.
  intros He H1. cbv zeta. unfold call_top.
  exact (do_call_eq (interp fuel e) e w [] [] 0 false caller addr input gas value (interp_of_eq _ (loop_eq fuel e He)) H1).
Qed.

Definition wnfb (w : world) : bool :=
  forallb (fun e => forallb (fun b => negb (b =? 0xf0) && negb (b =? 0xff)) (a_code (snd e))) (w_accts w).
Lemma wnfb_wnf w : wnfb w = true -> wnf w.
Proof.
  unfold wnfb, wnf. rewrite forallb_forall, Forall_forall. intros H x Hx. specialize (H x Hx).
  rewrite forallb_forall in H. split; intros Hin; specialize (H _ Hin); cbn in H; discriminate.
Qed.
