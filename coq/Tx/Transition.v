(* Tx/Transition.v — executable, code-shaped model of the state transition
   (core/state_transition.go, core/state_processor.go, core/gaspool.go,
   core/types/receipt.go NewReceipt, core/block_validator.go ValidateState gas
   check, the depth-0 shells of core/vm/evm.go Call / Create, core/evm.go
   CanTransfer / Transfer).  Definitions only (extracted); proofs in TxProofs.v.

   The EVM interpreter (`run` in core/vm/evm.go and everything below it) is NOT
   modelled here: it is the parameter `run : runner`.  Theorems quantify over it
   with explicit hypotheses; the executable model is driven by an oracle table
   recorded from the real EVM (ocaml/tx/driver.ml).

   Abstractions (listed in props/C06.json):
   * account existence / EIP-161 touch-deletion is not tracked: a state is a
     finite map to (balance, nonce, code digest, storage digest) and a missing
     entry reads as the empty account.  The one branch of evm.Call that reads
     StateDB.Exist takes the answer as an input (`to_exists`); TransitionDb
     always reaches it with an existing recipient (st.to() creates it).
   * balances are Z (big.Int can go negative: SubBalance does not check);
     gas price and value are N (RLP decoding never yields a negative big.Int).
   * uint64 arithmetic that can wrap is written with add64 / sub64. *)
From AQ Require Import Lib.Bytes Lib.Keccak Rlp.RlpSpec Generated.GenParamsTx.
Import ListNotations.
Local Open Scope N_scope.

(* ------------------------------------------------------------------ state *)

Definition addr := N.

Record account := mkAcc { bal : Z; nonce : N; code : N; stor : N }.
Definition empty_acc : account := mkAcc 0%Z 0 0 0.

Definition state := list (addr * account).

(* StateDB.getStateObject + default values of GetBalance / GetNonce / GetCodeHash *)
Fixpoint get (a : addr) (s : state) : account :=
  match s with
  | [] => empty_acc
  | (k, v) :: t => if k =? a then v else get a t
  end.

(* GetOrNewStateObject followed by a setter *)
Fixpoint upd (a : addr) (f : account -> account) (s : state) : state :=
  match s with
  | [] => [(a, f empty_acc)]
  | (k, v) :: t => if k =? a then (k, f v) :: t else (k, v) :: upd a f t
  end.

(* core/state/statedb.go AddBalance / SubBalance / SetBalance / SetNonce *)
Definition add_balance (a : addr) (x : Z) (s : state) : state :=
  upd a (fun c => mkAcc (bal c + x)%Z (nonce c) (code c) (stor c)) s.
Definition sub_balance (a : addr) (x : Z) (s : state) : state :=
  upd a (fun c => mkAcc (bal c - x)%Z (nonce c) (code c) (stor c)) s.
Definition set_balance (a : addr) (x : Z) (s : state) : state :=
  upd a (fun c => mkAcc x (nonce c) (code c) (stor c)) s.
Definition set_nonce (a : addr) (n : N) (s : state) : state :=
  upd a (fun c => mkAcc (bal c) n (code c) (stor c)) s.
(* StateDB.CreateAccount: a fresh object that keeps the previous balance *)
Definition create_account (a : addr) (s : state) : state :=
  upd a (fun c => mkAcc (bal c) 0 0 0) s.
(* StateDB.deleteStateObject (Finalise of a suicided object) *)
Definition delete_account (a : addr) (s : state) : state :=
  upd a (fun _ => empty_acc) s.

(* core/evm.go CanTransfer, Transfer *)
Definition can_transfer (s : state) (a : addr) (amount : N) : bool :=
  (Z.of_N amount <=? bal (get a s))%Z.
Definition transfer (s : state) (sender recipient : addr) (amount : N) : state :=
  add_balance recipient (Z.of_N amount) (sub_balance sender (Z.of_N amount) s).

(* sum of all balances = circulating supply (C05) *)
Fixpoint supply (s : state) : Z :=
  match s with
  | [] => 0%Z
  | (_, v) :: t => (bal v + supply t)%Z
  end.

(* ------------------------------------------------------------------ uint64 *)

Definition two64 : N := 18446744073709551616.
Definition max_u64 : N := 18446744073709551615.
Definition add64 (a b : N) : N := (a + b) mod two64.
Definition sub64 (a b : N) : N := (a + two64 - b mod two64) mod two64.

(* ------------------------------------------------------------------ config *)

Record chain_cfg := mkCfg {
  c_homestead : option N; c_eip158 : option N; c_byzantium : option N;
  c_hf4 : option N; c_hf5 : option N }.

(* params/config.go isForked *)
Definition is_forked (f : option N) (num : N) : bool :=
  match f with Some b => b <=? num | None => false end.

Definition cfg_of_tuple (t : option N * option N * option N * option N * option N) : chain_cfg :=
  let '(h, e, b, f4, f5) := t in mkCfg h e b f4 f5.

Fixpoint lookup_cfg (id : N) (l : list (N * (option N * option N * option N * option N * option N))) : option chain_cfg :=
  match l with
  | [] => None
  | (k, t) :: r => if k =? id then Some (cfg_of_tuple t) else lookup_cfg id r
  end.
Definition builtin_cfg (id : N) : option chain_cfg := lookup_cfg id chain_cfgs.

Fixpoint memN (a : N) (l : list N) : bool :=
  match l with [] => false | x :: t => (x =? a) || memN a t end.

(* core/vm/evm.go Call: precompile set selection *)
Definition is_precompile (cfg : chain_cfg) (num : N) (a : addr) : bool :=
  if is_forked (c_byzantium cfg) num then memN a precompiles_byzantium else memN a precompiles_homestead.

(* ------------------------------------------------------------------ message *)

(* core/state_transition.go Message (types.Message) *)
Record message := mkMsg {
  m_from : addr; m_to : option addr; m_nonce : N; m_price : N; m_gas : N;
  m_value : N; m_data : bytes; m_check_nonce : bool }.

Inductive tx_error :=
| ErrNonceTooHigh | ErrNonceTooLow | ErrInsufficientBalanceForGas | ErrGasLimitReached
| ErrIntrinsicOverflow | ErrIntrinsicGas | ErrInsufficientBalance.

(* core/state_transition.go IntrinsicGas *)
Inductive igas := IGas (g : N) | IErr | IPanic.

Fixpoint count_nonzero (d : bytes) : N :=
  match d with [] => 0 | b :: t => (if b2n b =? 0 then 0 else 1) + count_nonzero t end.

Definition intrinsic_gas (data : bytes) (creation homestead : bool) : igas :=
  let gas := if creation && homestead then tx_gas_contract_creation else tx_gas in
  if 0 <? lenN data then
    let nz := count_nonzero data in
    if tx_data_non_zero_gas =? 0 then IPanic            (* integer divide by zero *)
    else if (max_u64 - gas) / tx_data_non_zero_gas <? nz then IErr
    else
      let gas := add64 gas (nz * tx_data_non_zero_gas) in
      let z := lenN data - nz in
      if tx_data_zero_gas =? 0 then IPanic
      else if (max_u64 - gas) / tx_data_zero_gas <? z then IErr
      else IGas (add64 gas (z * tx_data_zero_gas))
  else IGas gas.

(* ------------------------------------------------------------------ gas pool *)

(* core/gaspool.go *)
Definition pool_sub_gas (gp amount : N) : option N :=
  if gp <? amount then None else Some (gp - amount).
Definition pool_add_gas (gp amount : N) : option N :=          (* None = panic "gas pool pushed above uint64" *)
  if max_u64 - amount <? gp then None else Some (gp + amount).

(* ------------------------------------------------------------------ the EVM as a parameter *)

Inductive run_status := RunOk | RunRevert | RunFail | RunCodeStoreOOG.

Record run_input := mkRI {
  ri_index : N;            (* position of the transaction in its block (selects the oracle record) *)
  ri_caller : addr; ri_callee : addr; ri_create : bool;
  ri_input : bytes; ri_gas : N; ri_value : N }.

(* what `run` (plus, for Create, the code-deposit step) did *)
Record run_output := mkRO {
  ro_status : run_status;
  ro_gas_left : N;         (* contract.Gas after run *)
  ro_refund : N;           (* StateDB.GetRefund() after run *)
  ro_state : state;        (* state after run *)
  ro_logs : N;             (* number of logs emitted *)
  ro_suicided : list addr  (* accounts flagged suicided *) }.

Definition runner := run_input -> state -> run_output.

(* result of the depth-0 Call / Create shell *)
Record exec_result := mkER {
  er_state : state; er_gas_left : N; er_failed : bool; er_refund : N; er_logs : N;
  er_suicided : list addr; er_created : option addr }.

Inductive exec_outcome := ExecInsufficient | ExecDone (r : exec_result).

(* core/vm/evm.go EVM.Call at depth 0 *)
Definition evm_call (cfg : chain_cfg) (num : N) (run : runner) (idx : N) (s : state)
           (caller to : addr) (to_exists : bool) (input : bytes) (gas value : N) : exec_outcome :=
  if negb (can_transfer s caller value) then ExecInsufficient
  else
    let snapshot := s in
    if negb to_exists && negb (is_precompile cfg num to) && is_forked (c_eip158 cfg) num && (value =? 0)
    then ExecDone (mkER s gas false 0 0 [] None)
    else
      let s1 := transfer s caller to value in
      let o := run (mkRI idx caller to false input gas value) s1 in
      match ro_status o with
      | RunOk => ExecDone (mkER (ro_state o) (ro_gas_left o) false (ro_refund o) (ro_logs o) (ro_suicided o) None)
      | RunRevert => ExecDone (mkER snapshot (ro_gas_left o) true 0 0 [] None)
      | _ => ExecDone (mkER snapshot 0 true 0 0 [] None)   (* RevertToSnapshot; contract.UseGas(contract.Gas) *)
      end.

(* crypto.CreateAddress: keccak256(rlp([address, nonce]))[12:] *)
Definition create_address (a : addr) (n : N) : addr :=
  N_of_be (skipn 12 (keccak256 (encode (Lst [Str (be_fixed 20 a); Str (be_of_N n)])))).

(* core/vm/evm.go EVM.Create at depth 0 *)
Definition evm_create (cfg : chain_cfg) (num : N) (run : runner) (idx : N) (s : state)
           (caller : addr) (codeb : bytes) (gas value : N) : exec_outcome :=
  if negb (can_transfer s caller value) then ExecInsufficient
  else
    let n := nonce (get caller s) in
    let s0 := set_nonce caller (add64 n 1) s in
    let caddr := create_address caller n in
    if negb (nonce (get caddr s0) =? 0) || negb (code (get caddr s0) =? 0)
    then ExecDone (mkER s0 0 true 0 0 [] (Some caddr))          (* ErrContractAddressCollision *)
    else
      let snapshot := s0 in
      let s1 := create_account caddr s0 in
      let s2 := if is_forked (c_eip158 cfg) num then set_nonce caddr 1 s1 else s1 in
      let s3 := transfer s2 caller caddr value in
      let o := run (mkRI idx caller caddr true codeb gas value) s3 in
      match ro_status o with
      | RunOk => ExecDone (mkER (ro_state o) (ro_gas_left o) false (ro_refund o) (ro_logs o) (ro_suicided o) (Some caddr))
      | RunRevert => ExecDone (mkER snapshot (ro_gas_left o) true 0 0 [] (Some caddr))
      | RunCodeStoreOOG =>
          if is_forked (c_homestead cfg) num
          then ExecDone (mkER snapshot 0 true 0 0 [] (Some caddr))
          else (* Frontier: the account is kept without code, gas is kept, the error is still reported *)
            ExecDone (mkER (ro_state o) (ro_gas_left o) true (ro_refund o) (ro_logs o) (ro_suicided o) (Some caddr))
      | RunFail => ExecDone (mkER snapshot 0 true 0 0 [] (Some caddr))
      end.

(* ------------------------------------------------------------------ TransitionDb *)

Record tdb_ok := mkTdb {
  t_state : state; t_used : N; t_failed : bool; t_pool : N; t_logs : N;
  t_suicided : list addr; t_created : option addr;
  (* intermediate quantities, exposed for the theorems and the direct oracle *)
  t_intrinsic : N; t_gas_left : N; t_refund : N }.

Inductive tdb_result := TdbOk (r : tdb_ok) | TdbErr (e : tx_error) | TdbPanic.

(* refundGas: refund := gasUsed()/2 capped by the counter *)
Definition refund_amount (initial gas_left counter : N) : N :=
  let r := sub64 initial gas_left / refund_quotient in
  if counter <? r then counter else r.

(* TransitionDb, the `if contractCreation { evm.Create } else { SetNonce; evm.Call }` step *)
Definition exec_phase (cfg : chain_cfg) (num : N) (run : runner) (idx : N) (s1 : state) (m : message) (gas1 : N) : exec_outcome :=
  match m_to m with
  | None => evm_create cfg num run idx s1 (m_from m) (m_data m) gas1 (m_value m)
  | Some to =>
      let s2 := set_nonce (m_from m) (add64 (nonce (get (m_from m) s1)) 1) s1 in
      (* st.to() has just done CreateAccount for a missing recipient, so Call's
         `!evm.StateDB.Exist(addr)` branch is never taken at depth 0: to_exists = true *)
      evm_call cfg num run idx s2 (m_from m) to true (m_data m) gas1 (m_value m)
  end.

(* core/state_transition.go preCheck + buyGas + TransitionDb + refundGas *)
Definition transition_db (cfg : chain_cfg) (num : N) (coinbase : addr) (run : runner) (idx : N)
           (s : state) (pool : N) (m : message) : tdb_result :=
  let from := m_from m in
  (* preCheck *)
  let n := nonce (get from s) in
  if m_check_nonce m && (n <? m_nonce m) then TdbErr ErrNonceTooHigh
  else if m_check_nonce m && (m_nonce m <? n) then TdbErr ErrNonceTooLow
  else
  (* buyGas *)
  let mgval := Z.of_N (m_gas m * m_price m) in
  if (bal (get from s) <? mgval)%Z then TdbErr ErrInsufficientBalanceForGas
  else match pool_sub_gas pool (m_gas m) with
  | None => TdbErr ErrGasLimitReached
  | Some pool1 =>
    let gas0 := m_gas m in                    (* st.gas += msg.Gas(); st.initialGas = msg.Gas() *)
    let s1 := sub_balance from mgval s in
    (* intrinsic gas *)
    let creation := match m_to m with None => true | Some _ => false end in
    match intrinsic_gas (m_data m) creation (is_forked (c_homestead cfg) num) with
    | IPanic => TdbPanic
    | IErr => TdbErr ErrIntrinsicOverflow
    | IGas ig =>
      if gas0 <? ig then TdbErr ErrIntrinsicGas
      else
      let gas1 := gas0 - ig in
      match exec_phase cfg num run idx s1 m gas1 with
      | ExecInsufficient => TdbErr ErrInsufficientBalance
      | ExecDone r =>
        (* refundGas *)
        let refund := refund_amount gas0 (er_gas_left r) (er_refund r) in
        let gas2 := add64 (er_gas_left r) refund in
        let s4 := add_balance from (Z.of_N (gas2 * m_price m)) (er_state r) in
        match pool_add_gas pool1 gas2 with
        | None => TdbPanic
        | Some pool2 =>
          let used := sub64 gas0 gas2 in
          let s5 := add_balance coinbase (Z.of_N (used * m_price m)) s4 in
          TdbOk (mkTdb s5 used (er_failed r) pool2 (er_logs r) (er_suicided r) (er_created r)
                       ig (er_gas_left r) refund)
        end
      end
    end
  end.

(* ------------------------------------------------------------------ ApplyTransaction *)

(* core/types/receipt.go: what statusEncoding() puts in the consensus field *)
Inductive post_field := PostRoot | PostStatus (ok : bool).
(* PostRoot: the field is IntermediateRoot of the state returned with the receipt *)

Record receipt := mkReceipt {
  r_post : post_field; r_status_ok : bool; r_cumulative : N; r_gas_used : N;
  r_contract : option addr; r_logs : N }.

(* StateDB.Finalise: suicided objects are deleted *)
Fixpoint finalise (suicided : list addr) (s : state) : state :=
  match suicided with [] => s | a :: t => finalise t (delete_account a s) end.

Record tx_ok := mkTxOk { x_state : state; x_receipt : receipt; x_pool : N; x_cumulative : N; x_tdb : tdb_ok }.
Inductive tx_result := TxOk (r : tx_ok) | TxErr (e : tx_error) | TxPanic.

(* core/state_processor.go ApplyTransaction (after AsMessage) *)
Definition apply_transaction (cfg : chain_cfg) (num : N) (coinbase : addr) (run : runner) (idx : N)
           (s : state) (pool : N) (cum_used : N) (m : message) : tx_result :=
  match transition_db cfg num coinbase run idx s pool m with
  | TdbErr e => TxErr e
  | TdbPanic => TxPanic
  | TdbOk t =>
    let s' := finalise (t_suicided t) (t_state t) in  (* Finalise(true) / IntermediateRoot(eip158) *)
    let cum := add64 cum_used (t_used t) in
    let post := if is_forked (c_byzantium cfg) num then PostStatus (negb (t_failed t)) else PostRoot in
    TxOk (mkTxOk s' (mkReceipt post (negb (t_failed t)) cum (t_used t) (t_created t) (t_logs t)) (t_pool t) cum t)
  end.

(* ------------------------------------------------------------------ Process *)

Record header := mkHeader { h_number : N; h_coinbase : addr; h_gas_limit : N; h_gas_used : N }.
Record uncle := mkUncle { u_number : N; u_coinbase : addr }.

(* consensus/misc/hf.go ApplyHardFork4 *)
Fixpoint apply_hf4 (dealloc : list addr) (s : state) : state :=
  match dealloc with [] => s | a :: t => apply_hf4 t (set_balance a 0%Z s) end.
(* ApplyHardFork5 calls statedb.Empty(address), which is a predicate: no state change *)
Definition apply_hf5 (dealloc : list addr) (s : state) : state := s.

(* consensus/aquahash/consensus.go accumulateRewards *)
Fixpoint uncle_rewards (num : N) (uncles : list uncle) (s : state) (reward : Z) : state * Z :=
  match uncles with
  | [] => (s, reward)
  | u :: t =>
      let r := (((Z.of_N (u_number u) + uncle_div - Z.of_N num) * block_reward) / uncle_div)%Z in
      let s1 := add_balance (u_coinbase u) r s in
      uncle_rewards num t s1 (reward + block_reward / nephew_div)%Z
  end.
Definition accumulate_rewards (h : header) (uncles : list uncle) (s : state) : state :=
  if h_number h <? max_money then
    let '(s1, reward) := uncle_rewards (h_number h) uncles s block_reward in
    add_balance (h_coinbase h) reward s1
  else s.

Inductive block_result :=
| BlockOk (s : state) (receipts : list receipt) (used : N)
| BlockErr (idx : N) (e : tx_error)
| BlockPanic.

Fixpoint process_txs (cfg : chain_cfg) (num : N) (coinbase : addr) (run : runner) (idx : N)
         (s : state) (pool cum : N) (txs : list message) (acc : list receipt) : block_result :=
  match txs with
  | [] => BlockOk s (rev acc) cum
  | m :: rest =>
    match apply_transaction cfg num coinbase run idx s pool cum m with
    | TxErr e => BlockErr idx e
    | TxPanic => BlockPanic
    | TxOk r => process_txs cfg num coinbase run (idx + 1) (x_state r) (x_pool r) (x_cumulative r) rest (x_receipt r :: acc)
    end
  end.

(* Process: "Mutate the the block and state according to any hard-fork specs" *)
Definition at_fork (f : option N) (num : N) : bool := match f with Some b => b =? num | None => false end.
Definition block_start (cfg : chain_cfg) (dealloc : list addr) (h : header) (s : state) : state :=
  let s1 := if at_fork (c_hf4 cfg) (h_number h) then apply_hf4 dealloc s else s in
  if at_fork (c_hf5 cfg) (h_number h) then apply_hf5 dealloc s1 else s1.

(* core/state_processor.go Process *)
Definition process (cfg : chain_cfg) (dealloc : list addr) (run : runner) (s : state) (h : header)
           (txs : list message) (uncles : list uncle) : block_result :=
  match pool_add_gas 0 (h_gas_limit h) with
  | None => BlockPanic
  | Some pool =>
    match process_txs cfg (h_number h) (h_coinbase h) run 0 (block_start cfg dealloc h s) pool 0 txs [] with
    | BlockOk s3 rs used => BlockOk (accumulate_rewards h uncles s3) rs used
    | e => e
    end
  end.

(* core/block_validator.go ValidateState, first check *)
Definition validate_gas_used (h : header) (used : N) : bool := h_gas_used h =? used.

(* a block is accepted by Process + ValidateState(gas) *)
Definition block_valid (cfg : chain_cfg) (dealloc : list addr) (run : runner) (s : state) (h : header)
           (txs : list message) (uncles : list uncle) : bool :=
  match process cfg dealloc run s h txs uncles with
  | BlockOk _ _ used => validate_gas_used h used
  | _ => false
  end.

(* ================================================================== existence layer
   Which accounts exist (have a state object / a leaf in the account trie) and which
   are in StateDB.stateObjectsDirty.  This is a second, parallel pass over the same
   code paths: the value-level functions above are unchanged; the functions below
   (suffix _e) recompute the same branch conditions and follow only
   GetOrNewStateObject / createObject / touch / journal revert / Finalise.
   core/state/statedb.go (GetOrNewStateObject, createObject, AddBalance, Finalise),
   core/state/state_object.go (touch, AddBalance, SubBalance, empty),
   core/state/journal.go (createObjectChange / resetObjectChange / touchChange / balanceChange undo).
   Not modelled: the one-shot `onDirty` callback of a live object (after a reverted
   touch the object never re-registers as dirty) — property C09's territory. *)

Record estate := mkES { es_exist : list addr; es_dirty : list addr }.

(* state_object.go empty(): nonce == 0 && balance == 0 && no code (storage is not looked at) *)
Definition is_empty_acc (c : account) : bool := (bal c =? 0)%Z && (nonce c =? 0) && (code c =? 0).

Definition addset (a : addr) (l : list addr) : list addr := if memN a l then l else a :: l.
Fixpoint remset (a : addr) (l : list addr) : list addr :=
  match l with [] => [] | x :: t => if x =? a then remset a t else x :: remset a t end.
Definition unionset (l1 l2 : list addr) : list addr := fold_right addset l2 l1.

(* createObject for a missing account (journal: createObjectChange); newobj.setNonce(0) marks it dirty *)
Definition es_create (a : addr) (es : estate) : estate := mkES (addset a (es_exist es)) (addset a (es_dirty es)).
(* a setter on a live object *)
Definition es_mark (a : addr) (es : estate) : estate := mkES (es_exist es) (addset a (es_dirty es)).
Definition es_get_or_new (a : addr) (es : estate) : estate := if memN a (es_exist es) then es else es_create a es.

(* StateDB.AddBalance(a, x); s is the value state before the addition *)
Definition es_add_balance (a : addr) (x : Z) (s : state) (es : estate) : estate :=
  if memN a (es_exist es) then
    if (x =? 0)%Z then (if is_empty_acc (get a s) then es_mark a es (* touch *) else es) else es_mark a es
  else es_create a es.

(* what the interpreter did to existence / dirtiness between CaptureStart and CaptureEnd *)
Record erun_output := mkEO { eo_created : list addr; eo_dirtied : list addr }.
Definition erunner := N -> erun_output.     (* by transaction index *)

Definition ripemd_addr : addr := 3.

(* evm.Call at depth 0, reached from TransitionDb (the recipient exists: st.to()) *)
Definition evm_call_e (cfg : chain_cfg) (num : N) (run : runner) (erun : erunner) (idx : N) (s : state)
           (caller to : addr) (input : bytes) (gas value : N) (es : estate) : estate :=
  if negb (can_transfer s caller value) then es
  else
    let snap := es in
    let es1 := if value =? 0 then es else es_mark caller es in                       (* SubBalance(0) returns early *)
    let es2 := es_add_balance to (Z.of_N value) (sub_balance caller (Z.of_N value) s) es1 in
    let o := run (mkRI idx caller to false input gas value) (transfer s caller to value) in
    let eo := erun idx in
    match ro_status o with
    | RunOk => mkES (unionset (eo_created eo) (es_exist es2)) (unionset (eo_dirtied eo) (es_dirty es2))
    | _ =>
      (* RevertToSnapshot: balanceChange.undo leaves the objects dirty; touchChange.undo un-dirties
         unless the object was dirty before or is the RIPEMD precompile *)
      let d := es_dirty snap in
      let d1 := if value =? 0
                then (if (to =? ripemd_addr) && memN to (es_dirty es2) then addset to d else d)
                else addset caller (addset to d) in
      mkES (es_exist snap) (unionset (eo_dirtied eo) d1)
    end.

(* evm.Create at depth 0 *)
Definition evm_create_e (cfg : chain_cfg) (num : N) (run : runner) (erun : erunner) (idx : N) (s : state)
           (caller : addr) (codeb : bytes) (gas value : N) (es : estate) : estate :=
  if negb (can_transfer s caller value) then es
  else
    let n := nonce (get caller s) in
    let es0 := es_mark caller es in                                                  (* SetNonce(caller) *)
    let s0 := set_nonce caller (add64 n 1) s in
    let caddr := create_address caller n in
    if negb (nonce (get caddr s0) =? 0) || negb (code (get caddr s0) =? 0) then es0
    else
      let snap := es0 in
      let existed := memN caddr (es_exist es0) in
      let es1 := es_create caddr es0 in              (* createObject: new leaf, or reset of an existing one; dirty either way *)
      let es2 := if value =? 0 then es1 else es_mark caller es1 in
      let s1 := create_account caddr s0 in
      let s2 := if is_forked (c_eip158 cfg) num then set_nonce caddr 1 s1 else s1 in
      let s3 := transfer s2 caller caddr value in
      let o := run (mkRI idx caller caddr true codeb gas value) s3 in
      let eo := erun idx in
      let kept := match ro_status o with
                  | RunOk => true
                  | RunCodeStoreOOG => negb (is_forked (c_homestead cfg) num)
                  | _ => false
                  end in
      if kept then mkES (unionset (eo_created eo) (es_exist es2)) (unionset (eo_dirtied eo) (es_dirty es2))
      else
        let d := if value =? 0 then es_dirty snap else addset caller (es_dirty snap) in
        (* createObjectChange.undo deletes the object and its dirty mark; resetObjectChange.undo keeps the mark *)
        let d1 := if existed then addset caddr d else remset caddr d in
        mkES (es_exist snap) (unionset (eo_dirtied eo) d1).

(* StateDB.Finalise(deleteEmptyObjects) over stateObjectsDirty; sF is the value state before it *)
Definition finalise_e (delete_empty : bool) (suicided : list addr) (sF : state) (es : estate) : estate :=
  mkES (filter (fun a => negb (memN a (es_dirty es) &&
                               (memN a suicided || (delete_empty && is_empty_acc (get a sF)))))
               (es_exist es))
       (es_dirty es).      (* the dirty set is only cleared by Commit *)

(* ApplyTransaction, existence side; meaningful when the value side returns TxOk *)
Definition apply_transaction_e (cfg : chain_cfg) (num : N) (coinbase : addr) (run : runner) (erun : erunner) (idx : N)
           (s : state) (pool : N) (cum_used : N) (m : message) (es : estate) : estate :=
  match apply_transaction cfg num coinbase run idx s pool cum_used m with
  | TxOk r =>
    let t := x_tdb r in
    let from := m_from m in
    let mgval := Z.of_N (m_gas m * m_price m) in
    let esA := es_get_or_new from es in                                              (* preCheck: st.from() *)
    let esB := if (mgval =? 0)%Z then esA else es_mark from esA in                    (* buyGas: SubBalance *)
    let s1 := sub_balance from mgval s in
    let gas1 := m_gas m - t_intrinsic t in
    let esC :=
      match m_to m with
      | None => evm_create_e cfg num run erun idx s1 from (m_data m) gas1 (m_value m) esB
      | Some to =>
          let esn := es_mark from esB in                                             (* SetNonce *)
          let s2 := set_nonce from (add64 (nonce (get from s1)) 1) s1 in
          let est := es_get_or_new to esn in                                         (* st.to(): CreateAccount if missing *)
          evm_call_e cfg num run erun idx s2 from to (m_data m) gas1 (m_value m) est
      end in
    (* refundGas: AddBalance(from, remaining): from exists and is already dirty.
       AddBalance(coinbase, fee): the state before it is t_state with the fee taken back *)
    let fee := Z.of_N (t_used t * m_price m) in
    let cb := get coinbase (t_state t) in
    let cb_was_empty := ((bal cb - fee =? 0)%Z && (nonce cb =? 0) && (code cb =? 0)) in
    let esE := if memN coinbase (es_exist esC)
               then (if (fee =? 0)%Z then (if cb_was_empty then es_mark coinbase esC else esC) else es_mark coinbase esC)
               else es_create coinbase esC in
    (* Byzantium: Finalise(true); before: IntermediateRoot(IsEIP158) *)
    let delete_empty := if is_forked (c_byzantium cfg) num then true else is_forked (c_eip158 cfg) num in
    finalise_e delete_empty (t_suicided t) (t_state t) esE
  | _ => es
  end.

Fixpoint process_txs_e (cfg : chain_cfg) (num : N) (coinbase : addr) (run : runner) (erun : erunner) (idx : N)
         (s : state) (pool cum : N) (txs : list message) (es : estate) : estate :=
  match txs with
  | [] => es
  | m :: rest =>
    match apply_transaction cfg num coinbase run idx s pool cum m with
    | TxOk r => process_txs_e cfg num coinbase run erun (idx + 1) (x_state r) (x_pool r) (x_cumulative r) rest
                              (apply_transaction_e cfg num coinbase run erun idx s pool cum m es)
    | _ => es
    end
  end.

(* ApplyHardFork4: `if statedb.Exist(address) { statedb.SetBalance(address, 0) }` *)
Fixpoint apply_hf4_e (dealloc : list addr) (es : estate) : estate :=
  match dealloc with
  | [] => es
  | a :: t => apply_hf4_e t (if memN a (es_exist es) then es_mark a es else es)
  end.

(* accumulateRewards, existence side (threads the value state for the emptiness test of a zero reward) *)
Fixpoint uncle_rewards_e (num : N) (uncles : list uncle) (s : state) (es : estate) : state * estate :=
  match uncles with
  | [] => (s, es)
  | u :: t =>
      let r := (((Z.of_N (u_number u) + uncle_div - Z.of_N num) * block_reward) / uncle_div)%Z in
      uncle_rewards_e num t (add_balance (u_coinbase u) r s) (es_add_balance (u_coinbase u) r s es)
  end.
Definition accumulate_rewards_e (h : header) (uncles : list uncle) (s : state) (es : estate) : estate :=
  if h_number h <? max_money then
    let '(s1, es1) := uncle_rewards_e (h_number h) uncles s es in
    let '(_, reward) := uncle_rewards (h_number h) uncles s block_reward in
    es_add_balance (h_coinbase h) reward s1 es1
  else es.

(* Process + engine.Finalize (header.Root = IntermediateRoot(IsEIP158)), existence side *)
Definition process_e (cfg : chain_cfg) (dealloc : list addr) (run : runner) (erun : erunner) (s : state) (h : header)
           (txs : list message) (uncles : list uncle) (es : estate) : estate :=
  match pool_add_gas 0 (h_gas_limit h), process cfg dealloc run s h txs uncles with
  | Some pool, BlockOk s' _ _ =>
    let es1 := if at_fork (c_hf4 cfg) (h_number h) then apply_hf4_e dealloc es else es in
    let s1 := block_start cfg dealloc h s in
    let es2 := process_txs_e cfg (h_number h) (h_coinbase h) run erun 0 s1 pool 0 txs es1 in
    match process_txs cfg (h_number h) (h_coinbase h) run 0 s1 pool 0 txs [] with
    | BlockOk s3 _ _ =>
      let es3 := accumulate_rewards_e h uncles s3 es2 in
      finalise_e (is_forked (c_eip158 cfg) (h_number h)) [] s' es3
    | _ => es
    end
  | _, _ => es
  end.

(* the observable state: existing accounts with their content *)
Definition materialise (s : state) (es : estate) : state := map (fun a => (a, get a s)) (es_exist es).
(* content outside the existence set would be a modelling error *)
Definition ghosts (s : state) (es : estate) : list addr :=
  map fst (filter (fun e => negb (memN (fst e) (es_exist es)) &&
                            negb (is_empty_acc (snd e) && (stor (snd e) =? 0))) s).
