(* Tx/SupplyProofs.v — property C05: coins are created only by the block reward schedule. *)
From AQ Require Import Lib.Bytes Tx.Transition Tx.Supply Tx.TxProofs Generated.GenParamsTx.
From Coq Require Import ZifyBool ZifyN ZifyNat.
Import ListNotations.
Local Open Scope Z_scope.

(* ------------------------------------------------------------------ rewards *)

Lemma reward_constants :
  block_reward = aqua /\ uncle_div = 8 /\ nephew_div = 32 /\ max_money = 42000000%N.
Proof. repeat split; reflexivity. Qed.

Lemma uncle_rewards_supply num : forall uncles s reward s' reward',
  uncle_rewards num uncles s reward = (s', reward') ->
  supply s' + reward' = supply s + reward + uncles_issuance num uncles.
Proof.
  induction uncles as [|u t IH]; intros s reward s' reward' H; cbn [uncle_rewards uncles_issuance] in *.
  - injection H as <- <-. lia.
  - apply IH in H. rewrite supply_add_balance in H.
    unfold uncle_share, nephew_share.
    change block_reward with aqua in H. change uncle_div with 8 in H. change nephew_div with 32 in H.
    replace (8 + Z.of_N (u_number u) - Z.of_N num) with (Z.of_N (u_number u) + 8 - Z.of_N num) by lia.
    lia.
Qed.

Theorem rewards_are_schedule h uncles s :
  supply (accumulate_rewards h uncles s) = supply s + issuance (h_number h) uncles.
Proof.
  unfold accumulate_rewards, issuance. change max_money with 42000000%N.
  destruct (h_number h <? 42000000)%N; [|lia].
  destruct (uncle_rewards (h_number h) uncles s block_reward) as [s1 reward] eqn:E.
  apply uncle_rewards_supply in E. rewrite supply_add_balance. change block_reward with aqua in E. lia.
Qed.

(* ------------------------------------------------------------------ non-negativity *)

Lemma nonneg_upd a f s : nonneg s -> 0 <= bal (f (get a s)) -> nonneg (upd a f s).
Proof.
  intros Hs Hf b. rewrite get_upd. destruct (a =? b)%N eqn:E; [exact Hf|apply Hs].
Qed.

Lemma nonneg_add_balance a x s : nonneg s -> 0 <= x -> nonneg (add_balance a x s).
Proof. intros Hs Hx. apply nonneg_upd; [exact Hs|]. cbn [bal]. specialize (Hs a). lia. Qed.
Lemma nonneg_sub_balance a x s : nonneg s -> x <= bal (get a s) -> nonneg (sub_balance a x s).
Proof. intros Hs Hx. apply nonneg_upd; [exact Hs|]. cbn [bal]. lia. Qed.
Lemma nonneg_set_nonce a n s : nonneg s -> nonneg (set_nonce a n s).
Proof. intros Hs. apply nonneg_upd; [exact Hs|]. cbn [bal]. apply Hs. Qed.
Lemma nonneg_create_account a s : nonneg s -> nonneg (create_account a s).
Proof. intros Hs. apply nonneg_upd; [exact Hs|]. cbn [bal]. apply Hs. Qed.
Lemma nonneg_set_balance0 a s : nonneg s -> nonneg (set_balance a 0 s).
Proof. intros Hs. apply nonneg_upd; [exact Hs|]. cbn [bal]. lia. Qed.
Lemma nonneg_delete_account a s : nonneg s -> nonneg (delete_account a s).
Proof. intros Hs. apply nonneg_upd; [exact Hs|]. cbn. lia. Qed.
Lemma nonneg_transfer s a b v : nonneg s -> can_transfer s a v = true -> nonneg (transfer s a b v).
Proof.
  intros Hs Hc. unfold transfer. apply nonneg_add_balance; [|lia].
  apply nonneg_sub_balance; [exact Hs|]. unfold can_transfer in Hc. lia.
Qed.

(* ------------------------------------------------------------------ hard fork 4 *)

Theorem hf4_only_lowers dealloc : forall s, nonneg s ->
  supply (apply_hf4 dealloc s) <= supply s /\ nonneg (apply_hf4 dealloc s).
Proof.
  induction dealloc as [|a t IH]; intros s Hs; cbn [apply_hf4]; [split; [lia|exact Hs]|].
  destruct (IH (set_balance a 0 s) (nonneg_set_balance0 a s Hs)) as (H1 & H2).
  split; [|exact H2]. rewrite supply_set_balance in H1. specialize (Hs a). lia.
Qed.

Lemma block_start_supply cfg dealloc h s : nonneg s ->
  supply (block_start cfg dealloc h s) <= supply s /\ nonneg (block_start cfg dealloc h s) /\
  (at_fork (c_hf4 cfg) (h_number h) = false -> block_start cfg dealloc h s = s).
Proof.
  intros Hs. unfold block_start, apply_hf5.
  destruct (at_fork (c_hf4 cfg) (h_number h)).
  - destruct (hf4_only_lowers dealloc s Hs) as (H1 & H2).
    destruct (at_fork (c_hf5 cfg) (h_number h)); (split; [exact H1|split; [exact H2|discriminate]]).
  - destruct (at_fork (c_hf5 cfg) (h_number h)); (split; [lia|split; [exact Hs|reflexivity]]).
Qed.

(* ------------------------------------------------------------------ transactions *)

(* what C05 needs from the interpreter: it keeps balances non-negative and never creates value *)
Definition run_no_inflation (run : runner) : Prop :=
  forall ri st, nonneg st -> nonneg (ro_state (run ri st)) /\ supply (ro_state (run ri st)) <= supply st.
(* ... and conserves it exactly (no SELFDESTRUCT burns anything) *)
Definition run_conserves (run : runner) : Prop :=
  forall ri st, supply (ro_state (run ri st)) = supply st /\ ro_suicided (run ri st) = [].

Lemma finalise_supply l : forall s, nonneg s -> supply (finalise l s) <= supply s /\ nonneg (finalise l s).
Proof.
  induction l as [|a t IH]; intros s Hs; cbn [finalise]; [split; [lia|exact Hs]|].
  destruct (IH _ (nonneg_delete_account a s Hs)) as (H1 & H2). split; [|exact H2].
  rewrite supply_delete_account in H1. specialize (Hs a). lia.
Qed.

Lemma pre_run_state_supply cfg num m s1 :
  nonneg s1 -> can_transfer s1 (m_from m) (m_value m) = true ->
  nonneg (pre_run_state cfg num m s1) /\ supply (pre_run_state cfg num m s1) = supply s1.
Proof.
  intros Hs Hc. unfold pre_run_state, bumped. destruct (m_to m) as [to|].
  - split; [|rewrite transfer_conserves_supply, supply_set_nonce; reflexivity].
    apply nonneg_transfer; [apply nonneg_set_nonce; exact Hs|]. rewrite can_transfer_set_nonce. exact Hc.
  - set (ca := create_address _ _).
    assert (Hct : forall st, bal (get (m_from m) st) = bal (get (m_from m) s1) -> can_transfer st (m_from m) (m_value m) = true).
    { intros st Hb. unfold can_transfer in *. rewrite Hb. exact Hc. }
    destruct (is_forked (c_eip158 cfg) num).
    + split.
      * apply nonneg_transfer; [repeat first [apply nonneg_set_nonce | apply nonneg_create_account]; exact Hs|].
        apply Hct. rewrite get_set_nonce, get_create_account, get_set_nonce.
        destruct (ca =? m_from m)%N; rewrite N.eqb_refl; reflexivity.
      * rewrite transfer_conserves_supply, supply_set_nonce, supply_create_account, supply_set_nonce. reflexivity.
    + split.
      * apply nonneg_transfer; [repeat first [apply nonneg_set_nonce | apply nonneg_create_account]; exact Hs|].
        apply Hct. rewrite get_create_account, get_set_nonce.
        destruct (ca =? m_from m)%N; rewrite N.eqb_refl; reflexivity.
      * rewrite transfer_conserves_supply, supply_create_account, supply_set_nonce. reflexivity.
Qed.

Section C05.
Variables (cfg : chain_cfg) (num : N) (coinbase : addr) (run : runner) (idx : N).
Variables (s : state) (pool cum : N) (m : message) (r : tx_ok).
Hypothesis Hgas : gas_bounded run.
Hypothesis Hlim : (m_gas m < two64)%N.
Hypothesis Happly : apply_transaction cfg num coinbase run idx s pool cum m = TxOk r.
Hypothesis Hnn : nonneg s.

(* shared first half: the state before Finalise *)
Lemma tdb_state_supply :
  exists e,
    t_suicided (x_tdb r) = er_suicided e /\
    x_state r = finalise (er_suicided e) (t_state (x_tdb r)) /\
    supply (t_state (x_tdb r)) = supply (er_state e) + Z.of_N (m_gas m * m_price m) /\
    (nonneg (er_state e) -> nonneg (t_state (x_tdb r))) /\
    nonneg (sub_balance (m_from m) (Z.of_N (m_gas m * m_price m)) s) /\
    exec_phase cfg num run idx (sub_balance (m_from m) (Z.of_N (m_gas m * m_price m)) s) m (m_gas m - t_intrinsic (x_tdb r)) = ExecDone e.
Proof.
  destruct (apply_inv _ _ _ _ _ _ _ _ _ _ Happly) as (Ht & Hs & Hc & Hp & Hr).
  destruct (tdb_inv _ _ _ _ _ _ _ _ _ Hgas Hlim Ht) as (e & H1 & H2 & H3 & H4 & H5 & H6 & H7 & H8 & H9 & H10 & H11 & H12 & H13 & H14 & H15 & H16).
  assert (Hu : (t_used (x_tdb r) <= m_gas m)%N) by (rewrite H14; lia).
  exists e. split; [exact H11|]. split; [rewrite Hs, H11; reflexivity|].
  split; [|split; [|split]].
  - rewrite H16, !supply_add_balance, (fee_split _ _ _ Hu). lia.
  - intros He. rewrite H16. apply nonneg_add_balance; [apply nonneg_add_balance; [exact He|apply N2Z.is_nonneg]|apply N2Z.is_nonneg].
  - apply nonneg_sub_balance; [exact Hnn|exact H2].
  - exact H6.
Qed.

Theorem tx_no_inflation :
  run_no_inflation run -> supply (x_state r) <= supply s /\ nonneg (x_state r).
Proof.
  intros Hrun. destruct tdb_state_supply as (e & Hsu & Hxs & Hsup & Hnnt & Hnn1 & Hex).
  set (s1 := sub_balance (m_from m) (Z.of_N (m_gas m * m_price m)) s) in *.
  assert (Hs1 : supply s1 = supply s - Z.of_N (m_gas m * m_price m)) by (subst s1; apply supply_sub_balance).
  assert (He : nonneg (er_state e) /\ supply (er_state e) <= supply s1).
  { destruct (exec_phase_cases _ _ _ _ _ _ _ _ Hex) as (Hct & [ (Es & _) | Hran ]).
    - rewrite Es. unfold bumped. split; [apply nonneg_set_nonce; exact Hnn1|rewrite supply_set_nonce; lia].
    - cbv zeta in Hran. destruct Hran as (Est & _).
      destruct (pre_run_state_supply cfg num m s1 Hnn1 Hct) as (Hp1 & Hp2).
      destruct (Hrun (run_input_of idx m s1 (m_gas m - t_intrinsic (x_tdb r))) _ Hp1) as (Hr1 & Hr2).
      rewrite Est. split; [exact Hr1|lia]. }
  destruct He as (He1 & He2).
  destruct (finalise_supply (er_suicided e) _ (Hnnt He1)) as (Hf1 & Hf2).
  rewrite Hxs. split; [lia|exact Hf2].
Qed.

Theorem tx_supply_exact :
  run_conserves run -> supply (x_state r) = supply s.
Proof.
  intros Hrun. destruct tdb_state_supply as (e & Hsu & Hxs & Hsup & Hnnt & Hnn1 & Hex).
  set (s1 := sub_balance (m_from m) (Z.of_N (m_gas m * m_price m)) s) in *.
  assert (Hs1 : supply s1 = supply s - Z.of_N (m_gas m * m_price m)) by (subst s1; apply supply_sub_balance).
  destruct (exec_phase_cases _ _ _ _ _ _ _ _ Hex) as (Hct & [ (Es & _ & _ & _ & Esu) | Hran ]).
  - rewrite Hxs, Esu. cbn [finalise]. rewrite Hsup, Es. unfold bumped. rewrite supply_set_nonce. lia.
  - cbv zeta in Hran. destruct Hran as (Est & Esu & _).
    destruct (pre_run_state_supply cfg num m s1 Hnn1 Hct) as (Hp1 & Hp2).
    destruct (Hrun (run_input_of idx m s1 (m_gas m - t_intrinsic (x_tdb r))) (pre_run_state cfg num m s1)) as (Hr1 & Hr2).
    rewrite Hxs, Esu, Hr2. cbn [finalise]. rewrite Hsup, Est, Hr1. lia.
Qed.

End C05.

(* ------------------------------------------------------------------ blocks *)

Lemma process_txs_supply cfg num coinbase run :
  gas_bounded run -> run_no_inflation run ->
  forall txs idx s pool cum acc s' rs used,
  Forall (fun m => (m_gas m < two64)%N) txs -> nonneg s ->
  process_txs cfg num coinbase run idx s pool cum txs acc = BlockOk s' rs used ->
  supply s' <= supply s /\ nonneg s'.
Proof.
  intros Hg Hrun. induction txs as [|m rest IH]; intros idx s pool cum acc s' rs used Hf Hs H; cbn [process_txs] in H.
  - injection H as <- _ _. split; [lia|exact Hs].
  - destruct (apply_transaction cfg num coinbase run idx s pool cum m) as [r| |] eqn:E; try discriminate.
    inversion Hf as [|? ? Hm Hrest]; subst.
    destruct (tx_no_inflation _ _ _ _ _ _ _ _ _ _ Hg Hm E Hs Hrun) as (H1 & H2).
    destruct (IH _ _ _ _ _ _ _ _ Hrest H2 H) as (H3 & H4). split; [lia|exact H4].
Qed.

Lemma process_txs_supply_exact cfg num coinbase run :
  gas_bounded run -> run_no_inflation run -> run_conserves run ->
  forall txs idx s pool cum acc s' rs used,
  Forall (fun m => (m_gas m < two64)%N) txs -> nonneg s ->
  process_txs cfg num coinbase run idx s pool cum txs acc = BlockOk s' rs used ->
  supply s' = supply s.
Proof.
  intros Hg Hrun Hex. induction txs as [|m rest IH]; intros idx s pool cum acc s' rs used Hf Hs H; cbn [process_txs] in H.
  - injection H as <- _ _. reflexivity.
  - destruct (apply_transaction cfg num coinbase run idx s pool cum m) as [r| |] eqn:E; try discriminate.
    inversion Hf as [|? ? Hm Hrest]; subst.
    destruct (tx_no_inflation _ _ _ _ _ _ _ _ _ _ Hg Hm E Hs Hrun) as (H1 & H2).
    rewrite (IH _ _ _ _ _ _ _ _ Hrest H2 H).
    exact (tx_supply_exact _ _ _ _ _ _ _ _ _ _ Hg Hm E Hs Hex).
Qed.

Theorem block_supply cfg dealloc run s h txs uncles s' rs used :
  gas_bounded run -> run_no_inflation run ->
  Forall (fun m => (m_gas m < two64)%N) txs -> nonneg s ->
  process cfg dealloc run s h txs uncles = BlockOk s' rs used ->
  supply s' <= supply s + issuance (h_number h) uncles /\
  (run_conserves run -> at_fork (c_hf4 cfg) (h_number h) = false ->
   supply s' = supply s + issuance (h_number h) uncles).
Proof.
  intros Hg Hrun Hf Hs Hp. unfold process in Hp.
  destruct (pool_add_gas 0 (h_gas_limit h)) as [pool|]; [|discriminate].
  destruct (process_txs cfg (h_number h) (h_coinbase h) run 0 (block_start cfg dealloc h s) pool 0 txs [])
    as [s3 rs3 u3| |] eqn:Ep; try discriminate.
  injection Hp as <- _ _.
  destruct (block_start_supply cfg dealloc h s Hs) as (Hb1 & Hb2 & Hb3).
  destruct (process_txs_supply _ _ _ _ Hg Hrun _ _ _ _ _ _ _ _ _ Hf Hb2 Ep) as (H1 & H2).
  rewrite rewards_are_schedule. split; [lia|].
  intros Hex Hnf. rewrite (process_txs_supply_exact _ _ _ _ Hg Hrun Hex _ _ _ _ _ _ _ _ _ Hf Hb2 Ep).
  rewrite (Hb3 Hnf). reflexivity.
Qed.

(* ------------------------------------------------------------------ one theorem over every block *)

Local Open Scope N_scope.

(* receipts' cumulative gas never decreases *)
Fixpoint cumulative_mono (c : N) (rs : list receipt) : Prop :=
  match rs with [] => True | r :: t => c <= r_cumulative r /\ cumulative_mono (r_cumulative r) t end.

Lemma cumulative_ok_mono c rs : cumulative_ok c rs -> cumulative_mono c rs.
Proof.
  revert c. induction rs as [|r t IH]; intros c H; cbn [cumulative_ok cumulative_mono] in *; [exact I|].
  destruct H as (H1 & H2). split; [lia|]. rewrite H1. apply IH, H2.
Qed.

(* the pool is the block gas limit minus the gas used so far *)
Lemma after_txs_pool cfg num coinbase run : gas_bounded run ->
  forall t1 idx s pool cum i si pi ci,
  Forall (fun m => m_gas m < two64) t1 -> pool + cum < two64 ->
  after_txs cfg num coinbase run idx s pool cum t1 = Some (i, si, pi, ci) -> pi + ci = pool + cum.
Proof.
  intros Hg. induction t1 as [|m rest IH]; intros idx s pool cum i si pi ci Hf Hb H; cbn [after_txs] in H.
  - injection H as <- <- <- <-. reflexivity.
  - destruct (apply_transaction cfg num coinbase run idx s pool cum m) as [r| |] eqn:E; try discriminate.
    inversion Hf as [|? ? Hm Hrest]; subst.
    destruct (gas_accounting_tx _ _ _ _ _ _ _ _ _ _ Hg Hm E) as (_ & _ & _ & _ & _ & Hu & _ & _ & Hxc & Hxp).
    assert (Hsmall : add64 cum (t_used (x_tdb r)) = cum + t_used (x_tdb r)) by (apply add64_small; lia).
    rewrite Hsmall in Hxc. apply IH in H; [|exact Hrest|lia]. lia.
Qed.

Theorem block_accounting cfg dealloc run s h txs uncles s' rs used :
  gas_bounded run -> Forall (fun m => m_gas m < two64) txs -> h_gas_limit h < two64 ->
  process cfg dealloc run s h txs uncles = BlockOk s' rs used ->
  (* gas: the block's gas used is the sum over the receipts, each receipt's cumulative gas is the running sum
     (hence monotone), and the total stays within the block gas limit *)
  used = sum_gas_used rs /\ cumulative_ok 0 rs /\ cumulative_mono 0 rs /\ used <= h_gas_limit h /\ length rs = length txs /\
  (* gas pool: before every transaction the pool holds the limit minus the gas used so far, and the
     transaction's gas limit fits into it (the pool never goes below zero) *)
  (forall t1 m t2, txs = t1 ++ m :: t2 ->
     exists i si pi ci, after_txs cfg (h_number h) (h_coinbase h) run 0 (block_start cfg dealloc h s) (h_gas_limit h) 0 t1 = Some (i, si, pi, ci) /\
                        pi + ci = h_gas_limit h /\ m_gas m <= pi) /\
  (* rewards: applied once, after all transactions, and exactly the schedule *)
  (exists s3, process_txs cfg (h_number h) (h_coinbase h) run 0 (block_start cfg dealloc h s) (h_gas_limit h) 0 txs [] = BlockOk s3 rs used /\
              s' = accumulate_rewards h uncles s3 /\
              supply s' = (supply s3 + issuance (h_number h) uncles)%Z).
Proof.
  intros Hg Hf Hl Hp.
  destruct (gas_accounting_block _ _ _ _ _ _ _ _ _ _ Hg Hf Hl Hp) as (H1 & H2 & H3).
  unfold process, pool_add_gas in Hp.
  destruct (max_u64 - h_gas_limit h <? 0) eqn:E0; [lia|]. cbn [N.add] in Hp.
  destruct (process_txs cfg (h_number h) (h_coinbase h) run 0 (block_start cfg dealloc h s) (h_gas_limit h) 0 txs [])
    as [s3 rs3 u3| |] eqn:Ep; try discriminate.
  injection Hp as <- <- <-.
  split; [exact H1|]. split; [exact H2|]. split; [apply cumulative_ok_mono, H2|]. split; [exact H3|].
  split; [|split].
  - clear - Ep. assert (G : forall txs idx s pool cum acc s3 rs3 u3,
      process_txs cfg (h_number h) (h_coinbase h) run idx s pool cum txs acc = BlockOk s3 rs3 u3 -> length rs3 = (length acc + length txs)%nat).
    { induction txs0 as [|m rest IH]; intros idx s0 pool cum acc s4 rs4 u4 H; cbn [process_txs] in H.
      - injection H as _ <- _. rewrite rev_length. cbn. lia.
      - destruct (apply_transaction _ _ _ _ _ _ _ _ _) as [r| |]; try discriminate. apply IH in H. cbn [length] in *. lia. }
    apply G in Ep. cbn in Ep. exact Ep.
  - intros t1 m t2 ->. destruct (process_txs_prefix _ _ _ _ _ _ _ _ _ _ _ _ _ _ _ Ep) as (i & si & pi & ci & r & Ha & Hr).
    exists i, si, pi, ci. split; [exact Ha|].
    assert (Hf1 : Forall (fun m => m_gas m < two64) t1) by (apply Forall_app in Hf; tauto).
    assert (Hb : h_gas_limit h + 0 < two64) by lia.
    pose proof (after_txs_pool _ _ _ _ Hg _ _ _ _ _ _ _ _ _ Hf1 Hb Ha) as Hpool.
    split; [lia|]. apply apply_inv in Hr. destruct Hr as (Ht & _). apply tdb_checks in Ht. tauto.
  - exists s3. split; [reflexivity|]. split; [reflexivity|]. apply rewards_are_schedule.
Qed.
