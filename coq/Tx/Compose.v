(* Tx/Compose.v — the transaction model (Tx/Transition.v) with its interpreter parameter `run` instantiated
   by the C07 interpreter (AQ.Evm.Interp, imported read-only): a transaction executed by the modelled EVM.

   [interp_runner] is what evm.Call hands to `run` at depth 0 for a message call: the world of the
   transaction model is made concrete (code and storage content are recovered from the digests by the
   parameters code_of / stor_of; dg / sg go back), the callee's code (or precompile) is run by
   Interp.run_contract on a fresh frame of depth 1, and the outcome is mapped back (status, gas left, refund
   counter, logs, accounts flagged suicided, resulting state).
   Scope: message-call transactions.  For a creation request (ri_create = true) the runner is a stub that
   fails without touching the state — evm.Create's code-deposit tail lives inside Interp.do_create and is
   not separable from it; and on a state with a negative balance entry (which no reachable state has) it is
   the same stub, so that the supply premise holds for every argument.
   Theorems: gas_bounded (interp_runner) with no premise but wf_env; run_no_inflation (interp_runner) when no
   code of the code store contains the CREATE byte (the limitation of Tx/InterpSupply.v). *)
From Coq Require Import ZArith NArith List Bool Lia ZifyBool ZifyN.
From AQ Require Import Lib.Bytes Tx.Transition Tx.Supply Tx.TxProofs Tx.SupplyProofs.
From AQ Require Evm.OpsModel Evm.Interp Evm.InterpProofs Evm.InterpProofs2 Evm.InterpProofs3 Tx.InterpSupply.
Import ListNotations.
Local Open Scope N_scope.

Section Compose.
Variables (fuel : nat) (e : Interp.env).
Variables (code_of : N -> list Z) (stor_of : N -> list (Z * Z)) (dg : list Z -> N) (sg : list (Z * Z) -> N).

Definition conc_acct (a : account) : Interp.account :=
  Interp.mk_account (Z.of_N (nonce a)) (bal a) (code_of (code a)) (stor_of (stor a)) false.
Definition conc (st : state) : Interp.world :=
  Interp.mk_world (map (fun x => (Z.of_N (fst x), conc_acct (snd x))) st) [] 0%Z.
Definition abs_acct (a : Interp.account) : account :=
  mkAcc (Interp.a_balance a) (Z.to_N (Interp.a_nonce a)) (dg (Interp.a_code a)) (sg (Interp.a_storage a)).
Definition abs (w : Interp.world) : state :=
  map (fun x => (Z.to_N (fst x), abs_acct (snd x))) (Interp.w_accts w).
Definition suicided_of (w : Interp.world) : list addr :=
  map (fun x => Z.to_N (fst x)) (filter (fun x => Interp.a_suicided (snd x)) (Interp.w_accts w)).
Definition all_nonneg (st : state) : bool := forallb (fun x => (0 <=? bal (snd x))%Z) st.

Definition interp_runner : runner := fun ri st =>
  let stub := mkRO RunFail 0 0 st 0 [] in
  if ri_create ri then stub
  else if negb (all_nonneg st) then stub
  else
    let w := conc st in
    let to := Z.of_N (ri_callee ri) in
    let fr := Interp.new_frame (Interp.get_code w to) (map b2z (ri_input ri)) to (Z.of_N (ri_caller ri))
                               (Z.of_N (ri_value ri)) (Z.of_N (ri_gas ri)) false 1 [] in
    let o := Interp.run_contract (Interp.interp fuel e) e w to fr [] in
    match Interp.o_res o with
    | Interp.R_ok _ =>
        mkRO RunOk (Z.to_N (Interp.o_gas o)) (Z.to_N (Interp.w_refund (Interp.o_world o))) (abs (Interp.o_world o))
             (lenN (Interp.w_logs (Interp.o_world o))) (suicided_of (Interp.o_world o))
    | Interp.R_revert _ => mkRO RunRevert (Z.to_N (Interp.o_gas o)) 0 st 0 []
    | _ => stub
    end.

(* ------------------------------------------------------------------ gas *)

Theorem interp_runner_gas_bounded : InterpProofs.wf_env e -> gas_bounded interp_runner.
Proof.
  intros Hwf ri st. unfold interp_runner.
  destruct (ri_create ri); [cbn; lia|]. destruct (negb (all_nonneg st)); [cbn; lia|].
  cbv zeta.
  match goal with |- context[Interp.run_contract ?r ?ee ?w ?a ?fr ?rd] =>
    pose proof (InterpProofs2.run_contract_good r ee w a fr rd (Z.of_nat fuel) (InterpProofs3.interp_good fuel e Hwf)) as Hg;
    set (o := Interp.run_contract r ee w a fr rd) in * end.
  cbn [Interp.new_frame Interp.f_gas Interp.f_depth Interp.f_trace] in Hg.
  assert (H1 : (0 <= Z.of_N (ri_gas ri))%Z) by lia.
  assert (H2 : (1 <= 1 <= InterpProofs2.DMAX)%Z) by (unfold InterpProofs2.DMAX, Interp.CallCreateDepth; lia).
  destruct (Hg H1 H2) as ((Ha & Hb) & _).
  destruct (Interp.o_res o); cbn [ro_gas_left]; lia.
Qed.

(* ------------------------------------------------------------------ supply *)

Lemma supply_abs w : supply (abs w) = InterpSupply.wsupply w.
Proof.
  unfold abs, InterpSupply.wsupply. induction (Interp.w_accts w) as [|[k a] r IH]; cbn [map supply InterpSupply.lsupply fst snd]; [reflexivity|].
  rewrite IH. reflexivity.
Qed.
Lemma wsupply_conc st : InterpSupply.wsupply (conc st) = supply st.
Proof.
  unfold conc, InterpSupply.wsupply. cbn [Interp.w_accts].
  induction st as [|[k a] r IH]; cbn [map supply InterpSupply.lsupply fst snd]; [reflexivity|]. rewrite IH. reflexivity.
Qed.
Lemma nonneg_abs w : InterpSupply.winv w -> nonneg (abs w).
Proof.
  unfold InterpSupply.winv, abs, nonneg. intros H a.
  induction (Interp.w_accts w) as [|[k x] r IH]; cbn [map get fst snd]; [cbn; lia|].
  inversion H as [|? ? H0 Hr]; subst. destruct (Z.to_N k =? a); [exact H0|apply IH, Hr].
Qed.
Lemma winv_conc st : all_nonneg st = true -> InterpSupply.winv (conc st).
Proof.
  unfold all_nonneg, InterpSupply.winv, conc. cbn [Interp.w_accts]. rewrite forallb_forall, Forall_forall.
  intros H x Hx. apply in_map_iff in Hx. destruct Hx as (y & <- & Hy). cbn [snd conc_acct Interp.a_balance]. specialize (H y Hy). apply Z.leb_le in H. exact H.
Qed.
Lemma wcf_conc st : (forall d, InterpSupply.cf (code_of d)) -> InterpSupply.wcf (conc st).
Proof.
  intros Hc. unfold InterpSupply.wcf, conc. cbn [Interp.w_accts]. rewrite Forall_forall.
  intros x Hx. apply in_map_iff in Hx. destruct Hx as (y & <- & Hy). cbn. apply Hc.
Qed.

Theorem interp_runner_no_inflation :
  InterpProofs.wf_env e -> (forall d, InterpSupply.cf (code_of d)) -> run_no_inflation interp_runner.
Proof.
  intros Hwf Hc ri st Hnn. unfold interp_runner.
  destruct (ri_create ri); [split; [exact Hnn|cbn; lia]|].
  destruct (all_nonneg st) eqn:Ea; cbn [negb]; [|split; [exact Hnn|cbn; lia]].
  cbv zeta.
  pose proof (winv_conc st Ea) as H1. pose proof (wcf_conc st Hc) as H2.
  match goal with |- context[Interp.run_contract ?r ?ee ?w ?a ?fr ?rd] =>
    assert (Hs : InterpSupply.sup_ok w (Interp.run_contract r ee w a fr rd));
    [|set (o := Interp.run_contract r ee w a fr rd) in *] end.
  { apply InterpSupply.run_contract_sup.
    - apply InterpSupply.interp_of_sup, InterpSupply.loop_sup. destruct Hwf as [Ht]. exact Ht.
    - split; assumption.
    - rewrite InterpSupply.new_frame_code. apply InterpSupply.wcf_code, H2. }
  destruct Hs as ((Hi1 & Hi2) & Hle).
  destruct (Interp.o_res o); cbn [ro_state]; try (split; [exact Hnn|lia]).
  split; [apply nonneg_abs, Hi1|]. rewrite supply_abs. rewrite wsupply_conc in Hle. exact Hle.
Qed.

End Compose.

(* ------------------------------------------------------------------ a concrete instance (extracted, tied)
   Digests that determine the content: code = the bytes behind a 0x01 marker, storage = the non-zero slots
   sorted by key, each as 32+32 big-endian bytes, behind a 0x01 marker; 0 = empty. *)

Definition dg_c (codeb : list Z) : N :=
  match codeb with [] => 0 | _ => N_of_be (x01 :: map z2b codeb) end.
Definition code_of_c (n : N) : list Z :=
  if n =? 0 then [] else map b2z (tl (be_of_N n)).

Fixpoint insert_slot (k v : Z) (l : list (Z * Z)) : list (Z * Z) :=
  match l with
  | [] => [(k, v)]
  | (k', v') :: r => if (k <? k')%Z then (k, v) :: l else if (k =? k')%Z then l else (k', v') :: insert_slot k v r
  end.
Definition canon_slots (l : list (Z * Z)) : list (Z * Z) :=
  fold_right (fun kv acc => if (snd kv =? 0)%Z then acc else insert_slot (fst kv) (snd kv) acc) [] l.
Definition sg_c (st : list (Z * Z)) : N :=
  match canon_slots st with
  | [] => 0
  | l => N_of_be (x01 :: flat_map (fun kv => be_fixed 32 (Z.to_N (fst kv)) ++ be_fixed 32 (Z.to_N (snd kv))) l)
  end.
Fixpoint slots_of (fuel : nat) (b : bytes) : list (Z * Z) :=
  match fuel with
  | O => []
  | S f =>
    match b with
    | [] => []
    | _ => (Z.of_N (N_of_be (firstn 32 b)), Z.of_N (N_of_be (firstn 32 (skipn 32 b)))) :: slots_of f (skipn 64 b)
    end
  end.
Definition stor_of_c (n : N) : list (Z * Z) :=
  if n =? 0 then [] else let b := tl (be_of_N n) in slots_of (length b) b.

(* the environment of a mainnet block for Interp (no BLOCKHASH history, no precompile oracle) *)
Definition interp_env (num coinbase origin gasprice : N) (gaslimit time difficulty : Z) : Interp.env :=
  Interp.env_of Interp.mainnet_cfg (Z.of_N num) (Z.of_N origin) (Z.of_N gasprice) (Z.of_N coinbase) gaslimit time difficulty
                (fun _ => 0%Z) (fun _ _ => None) false.

(* core.ApplyTransaction with the EVM of Evm/Interp.v inside (mainnet configuration = built-in id 0) *)
Definition apply_transaction_i (fuel : nat) (cfg : chain_cfg) (num : N) (coinbase : addr) (gaslimit time difficulty : Z)
           (s : state) (pool cum : N) (m : message) : tx_result :=
  apply_transaction cfg num coinbase
    (interp_runner fuel (interp_env num coinbase (m_from m) (m_price m) gaslimit time difficulty) code_of_c stor_of_c dg_c sg_c)
    0 s pool cum m.

(* ------------------------------------------------------------------ closed statements: no interpreter premise *)

Section Closed.
Variables (fuel : nat) (e : Interp.env).
Variables (code_of : N -> list Z) (stor_of : N -> list (Z * Z)) (dg : list Z -> N) (sg : list (Z * Z) -> N).
Let evm := interp_runner fuel e code_of stor_of dg sg.
Hypothesis Hwf : InterpProofs.wf_env e.

Theorem tx_phases_evm cfg num coinbase idx s pool cum m r :
  m_gas m < two64 ->
  apply_transaction cfg num coinbase evm idx s pool cum m = TxOk r ->
  exists x,
    (m_check_nonce m = true -> nonce (get (m_from m) s) = m_nonce m) /\
    (Z.of_N (m_gas m * m_price m) <= bal (get (m_from m) s))%Z /\ m_gas m <= pool /\
    exec_phase cfg num evm idx (sub_balance (m_from m) (Z.of_N (m_gas m * m_price m)) s) m
               (m_gas m - t_intrinsic (x_tdb r)) = ExecDone x /\
    t_used (x_tdb r) <= m_gas m /\
    x_state r = finalise (er_suicided x)
                  (add_balance coinbase (Z.of_N (t_used (x_tdb r) * m_price m))
                     (add_balance (m_from m) (Z.of_N ((m_gas m - t_used (x_tdb r)) * m_price m)) (er_state x))) /\
    x_pool r = pool - t_used (x_tdb r).
Proof. intros Hl Ha. exact (tx_phases _ _ _ _ _ _ _ _ _ _ (interp_runner_gas_bounded _ _ _ _ _ _ Hwf) Hl Ha). Qed.

Theorem gas_accounting_tx_evm cfg num coinbase idx s pool cum m r :
  m_gas m < two64 ->
  apply_transaction cfg num coinbase evm idx s pool cum m = TxOk r ->
  let consumed := m_gas m - t_gas_left (x_tdb r) in
  t_intrinsic (x_tdb r) = intrinsic_spec (m_data m) (is_creation m) (is_forked (c_homestead cfg) num) /\
  t_intrinsic (x_tdb r) <= consumed /\ consumed <= m_gas m /\
  t_refund (x_tdb r) <= consumed / 2 /\ t_used (x_tdb r) = consumed - t_refund (x_tdb r) /\
  t_used (x_tdb r) <= m_gas m /\
  r_gas_used (x_receipt r) = t_used (x_tdb r) /\
  r_cumulative (x_receipt r) = add64 cum (t_used (x_tdb r)) /\ x_cumulative r = add64 cum (t_used (x_tdb r)) /\
  x_pool r + t_used (x_tdb r) = pool.
Proof. intros Hl Ha. exact (gas_accounting_tx _ _ _ _ _ _ _ _ _ _ (interp_runner_gas_bounded _ _ _ _ _ _ Hwf) Hl Ha). Qed.

Theorem gas_accounting_block_evm cfg dealloc s h txs uncles s' rs used :
  Forall (fun m => m_gas m < two64) txs -> h_gas_limit h < two64 ->
  process cfg dealloc evm s h txs uncles = BlockOk s' rs used ->
  used = sum_gas_used rs /\ cumulative_ok 0 rs /\ used <= h_gas_limit h.
Proof. intros. eapply gas_accounting_block; eauto. apply interp_runner_gas_bounded, Hwf. Qed.

Theorem tx_no_inflation_evm cfg num coinbase idx s pool cum m r :
  (forall d, InterpSupply.cf (code_of d)) ->
  (m_gas m < two64) -> nonneg s ->
  apply_transaction cfg num coinbase evm idx s pool cum m = TxOk r ->
  (supply (x_state r) <= supply s)%Z /\ nonneg (x_state r).
Proof.
  intros Hc Hl Hn Ha.
  exact (tx_no_inflation _ _ _ _ _ _ _ _ _ _ (interp_runner_gas_bounded _ _ _ _ _ _ Hwf) Hl Ha Hn
                         (interp_runner_no_inflation _ _ _ _ _ _ Hwf Hc)).
Qed.

Theorem block_supply_evm cfg dealloc s h txs uncles s' rs used :
  (forall d, InterpSupply.cf (code_of d)) ->
  Forall (fun m => m_gas m < two64) txs -> nonneg s ->
  process cfg dealloc evm s h txs uncles = BlockOk s' rs used ->
  (supply s' <= supply s + issuance (h_number h) uncles)%Z.
Proof.
  intros Hc Hf Hn Hp.
  exact (proj1 (block_supply _ _ _ _ _ _ _ _ _ _ (interp_runner_gas_bounded _ _ _ _ _ _ Hwf)
                             (interp_runner_no_inflation _ _ _ _ _ _ Hwf Hc) Hf Hn Hp)).
Qed.

Theorem block_accounting_evm cfg dealloc s h txs uncles s' rs used :
  Forall (fun m => m_gas m < two64) txs -> h_gas_limit h < two64 ->
  process cfg dealloc evm s h txs uncles = BlockOk s' rs used ->
  used = sum_gas_used rs /\ cumulative_ok 0 rs /\ cumulative_mono 0 rs /\ used <= h_gas_limit h /\ length rs = length txs /\
  (forall t1 m t2, txs = t1 ++ m :: t2 ->
     exists i si pi ci, after_txs cfg (h_number h) (h_coinbase h) evm 0 (block_start cfg dealloc h s) (h_gas_limit h) 0 t1 = Some (i, si, pi, ci) /\
                        pi + ci = h_gas_limit h /\ m_gas m <= pi) /\
  (exists s3, process_txs cfg (h_number h) (h_coinbase h) evm 0 (block_start cfg dealloc h s) (h_gas_limit h) 0 txs [] = BlockOk s3 rs used /\
              s' = accumulate_rewards h uncles s3 /\
              supply s' = (supply s3 + issuance (h_number h) uncles)%Z).
Proof. intros. apply block_accounting; auto. apply interp_runner_gas_bounded, Hwf. Qed.

End Closed.

Lemma interp_env_wf num coinbase origin gasprice gaslimit time difficulty :
  InterpProofs.wf_env (interp_env num coinbase origin gasprice gaslimit time difficulty).
Proof. unfold interp_env. apply InterpProofs.env_of_wf. Qed.
