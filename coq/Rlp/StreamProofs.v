(* Rlp/StreamProofs.v — the code-shaped Stream model (Rlp/StreamModel.v) refines the
   item-level specification (Rlp/RlpSpec.v): what the generic walker accepts through
   Kind/List/Bytes/ListEnd is exactly what `decode` accepts; invariants of the state
   machine (list stack, input limit) under every method in every state; Uint and Raw
   against the specification. *)
From AQ Require Import Lib.Bytes Rlp.RlpSpec Rlp.RlpProofs Rlp.StreamModel.
From Coq Require Import ZifyBool ZifyN ZifyNat.
Local Open Scope N_scope.

(* ---------- uint64 arithmetic without wrap-around ---------- *)
Lemma sub64_small a b : b <= a -> a < two64 -> sub64 a b = a - b.
Proof.
  intros H1 H2. unfold sub64. rewrite (N.mod_small b) by lia.
  replace (a + two64 - b) with ((a - b) + 1 * two64) by lia.
  rewrite N.mod_add by (unfold two64; lia). apply N.mod_small. lia.
Qed.
Lemma add64_small a b : a + b < two64 -> add64 a b = a + b.
Proof. intros H. unfold add64. now apply N.mod_small. Qed.

(* ---------- the invariant ---------- *)
(* every list on the stack lies inside the unread part of the list around it: pos of an
   outer list does not yet count the content of the inner one (ListEnd adds it) *)
Fixpoint stack_wf (need : N) (st : list (N * N)) : Prop :=
  match st with
  | [] => True
  | (pos, sz) :: r => pos + need <= sz /\ sz < two64 /\ stack_wf sz r
  end.
(* how many bytes the open lists may still read *)
Fixpoint future (inner : N) (st : list (N * N)) : N :=
  match st with
  | [] => 0
  | (pos, sz) :: r => (sz - pos - inner) + future sz r
  end.
(* what the next value may occupy: the rest of the innermost list, else the input limit *)
Definition avail (s : stream) : option N :=
  match s_stack s with
  | (pos, sz) :: _ => Some (sz - pos)
  | [] => if s_lim s then Some (s_rem s) else None
  end.
Definition cache_ok (s : stream) : Prop :=
  match s_kind s, s_kerr s with
  | Some _, None => s_size s < two64 /\ match avail s with Some a => s_size s <= a | None => True end
  | _, _ => True
  end.
Definition Inv0 (s : stream) : Prop :=
  stack_wf 0 (s_stack s) /\ (s_lim s = true -> future 0 (s_stack s) <= s_rem s).
Definition Inv (s : stream) : Prop := Inv0 s /\ cache_ok s.

Definition adv (n : N) (st : list (N * N)) : list (N * N) :=
  match st with [] => [] | (pos, sz) :: r => (pos + n, sz) :: r end.
Definition room (n : N) (st : list (N * N)) : Prop :=
  match st with [] => True | (pos, sz) :: _ => pos + n <= sz end.

(* s' is s after reading exactly the bytes `pre` *)
Definition reads (s : stream) (pre : bytes) (s' : stream) : Prop :=
  s_in s = pre ++ s_in s' /\ s_stack s' = adv (lenN pre) (s_stack s) /\ room (lenN pre) (s_stack s) /\
  s_lim s' = s_lim s /\
  (s_lim s = true -> lenN pre <= s_rem s) /\
  s_rem s' = (if s_lim s then s_rem s - lenN pre else s_rem s).

Lemma adv_adv a b st : adv b (adv a st) = adv (a + b) st.
Proof. destruct st as [|[p z] r]; cbn; [reflexivity|]. f_equal. f_equal. lia. Qed.

Lemma reads_trans s p s1 q s2 : reads s p s1 -> reads s1 q s2 -> reads s (p ++ q) s2.
Proof.
  intros (A1 & A2 & A3 & A4 & A5 & A6) (B1 & B2 & B3 & B4 & B5 & B6).
  unfold reads. rewrite lenN_app. repeat split.
  - rewrite A1, B1. now rewrite app_assoc.
  - rewrite B2, A2. apply adv_adv.
  - rewrite A2 in B3. destruct (s_stack s) as [|[pz z] r]; cbn in *; lia.
  - congruence.
  - intros L. rewrite A4 in *. specialize (A5 L). specialize (B5 L). rewrite A6, L in B5. lia.
  - rewrite B6, A4, A6. destruct (s_lim s); lia.
Qed.

Lemma stack_wf_adv n st : stack_wf 0 st -> room n st -> stack_wf 0 (adv n st).
Proof. destruct st as [|[p z] r]; cbn; [trivial|]. intros (H1 & H2 & H3) Hr. repeat split; auto; lia. Qed.

Lemma future_adv n st : stack_wf 0 st -> room n st ->
  match st with [] => future 0 (adv n st) = future 0 st | _ => future 0 (adv n st) + n = future 0 st end.
Proof. destruct st as [|[p z] r]; cbn; [trivial|]. intros (H1 & H2 & H3) Hr. lia. Qed.

Lemma reads_Inv0 s p s' : Inv0 s -> reads s p s' -> Inv0 s'.
Proof.
  intros [W B] (A1 & A2 & A3 & A4 & A5 & A6). split.
  - rewrite A2. now apply stack_wf_adv.
  - rewrite A4, A2, A6. intros L. rewrite L in *. specialize (B eq_refl). specialize (A5 eq_refl).
    pose proof (future_adv (lenN p) (s_stack s) W A3) as F.
    destruct (s_stack s) as [|[pz z] r]; [cbn in *; lia|].
    cbn [adv] in *. destruct W as (W1 & W2 & W3). cbn [future] in *. cbn [room] in A3. lia.
Qed.

(* ---------- the readers ---------- *)
Definition room_b (n : N) (st : list (N * N)) : bool :=
  match st with [] => true | (pos, sz) :: _ => pos + n <=? sz end.
Lemma room_b_spec n st : reflect (room n st) (room_b n st).
Proof. destruct st as [|[p z] r]; cbn; [constructor; trivial|]. destruct (p + n <=? z) eqn:E; constructor; lia. Qed.

Definition counted (n : N) (s : stream) : stream :=
  mkS (s_in s) (if s_lim s then s_rem s - n else s_rem s) (s_lim s) None (s_size s) (s_bv s) (s_kerr s)
      (adv n (s_stack s)).

Lemma will_read_eq n s : stack_wf 0 (s_stack s) ->
  will_read n s =
    if room_b n (s_stack s) then
      if s_lim s && (s_rem s <? n)
      then (Some EValueTooLarge, mkS (s_in s) (s_rem s) (s_lim s) None (s_size s) (s_bv s) (s_kerr s) (adv n (s_stack s)))
      else (None, counted n s)
    else (Some EElemTooLarge, set_kind None s).
Proof.
  destruct s as [inp rem lim k sz bv ke st].
  unfold will_read, counted, set_kind, set_stack, set_rem.
  destruct st as [|[p z] r]; cbn -[sub64 add64 N.ltb N.leb N.sub N.add].
  - intros _. destruct lim; cbn [andb]; [destruct (rem <? n)|]; reflexivity.
  - intros (H1 & H2 & H3). rewrite sub64_small by lia.
    destruct (N.leb_spec (p + n) z) as [Hle|Hgt].
    + destruct (N.ltb_spec (z - p) n); [lia|].
      cbn -[sub64 add64 N.ltb N.leb N.sub N.add].
      rewrite add64_small by lia.
      destruct lim; cbn [andb]; [destruct (rem <? n)|]; reflexivity.
    + destruct (N.ltb_spec (z - p) n); [reflexivity|lia].
Qed.

Lemma counted_reads_nil n s : room n (s_stack s) -> (s_lim s = true -> n <= s_rem s) ->
  forall pre rest, s_in s = pre ++ rest -> lenN pre = n -> reads s pre (set_in rest (counted n s)).
Proof.
  intros Hr Hl pre rest Hin Hlen. unfold reads, counted, set_in.
  cbn [s_stack s_lim s_rem s_in]. rewrite Hlen. repeat split; auto.
Qed.

Lemma stack_wf_counted n s : stack_wf 0 (s_stack s) -> room n (s_stack s) -> stack_wf 0 (s_stack (counted n s)).
Proof. intros. unfold counted. cbn [s_stack]. now apply stack_wf_adv. Qed.

(* readByte: success *)
Lemma read_byte_ok s h s' : stack_wf 0 (s_stack s) -> read_byte s = (ROk h, s') ->
  reads s [h] s' /\ s_kind s' = None /\ s_bv s' = s_bv s.
Proof.
  intros W. unfold read_byte. rewrite (will_read_eq 1 s W).
  destruct (room_b_spec 1 (s_stack s)) as [Hr|Hr]; [|discriminate].
  destruct (s_lim s && (s_rem s <? 1)) eqn:El; [discriminate|].
  cbn [s_in counted]. destruct (s_in s) as [|h0 t] eqn:Ein; [discriminate|].
  intros E. injection E as <- <-. split; [|split; reflexivity].
  apply counted_reads_nil; auto.
  intros L. rewrite L in El. cbn [andb] in El. lia.
Qed.

(* readByte on a non-empty reader with room *)
Lemma read_byte_go s h t : stack_wf 0 (s_stack s) -> s_in s = h :: t -> room 1 (s_stack s) ->
  (s_lim s = true -> 1 <= s_rem s) -> read_byte s = (ROk h, set_in t (counted 1 s)).
Proof.
  intros W Ein Hr Hl. unfold read_byte. rewrite (will_read_eq 1 s W).
  destruct (room_b_spec 1 (s_stack s)) as [_|Hn]; [|contradiction].
  destruct (s_lim s) eqn:L; cbn [andb].
  - specialize (Hl eq_refl). destruct (N.ltb_spec (s_rem s) 1); [lia|].
    cbn [s_in counted]. rewrite Ein. reflexivity.
  - cbn [s_in counted]. rewrite Ein. reflexivity.
Qed.

Lemma read_full_ok n s b s' : stack_wf 0 (s_stack s) -> read_full n s = (ROk b, s') ->
  reads s b s' /\ lenN b = n /\ s_kind s' = None /\ s_bv s' = s_bv s.
Proof.
  intros W. unfold read_full. rewrite (will_read_eq n s W).
  destruct (room_b_spec n (s_stack s)) as [Hr|Hr]; [|discriminate].
  destruct (s_lim s && (s_rem s <? n)) eqn:El; [discriminate|].
  cbn [s_in counted]. destruct (takeN n (s_in s)) as [[a r]|] eqn:Et; [|discriminate].
  intros E. injection E as <- <-. apply takeN_spec in Et as [Hin Hlen].
  split; [|split; [exact Hlen|split; reflexivity]].
  apply counted_reads_nil; auto.
  intros L. rewrite L in El. cbn [andb] in El. lia.
Qed.

Lemma read_full_go s a r : stack_wf 0 (s_stack s) -> s_in s = a ++ r -> room (lenN a) (s_stack s) ->
  (s_lim s = true -> lenN a <= s_rem s) -> read_full (lenN a) s = (ROk a, set_in r (counted (lenN a) s)).
Proof.
  intros W Ein Hr Hl. unfold read_full. rewrite (will_read_eq _ s W).
  destruct (room_b_spec (lenN a) (s_stack s)) as [_|Hn]; [|contradiction].
  assert (El : s_lim s && (s_rem s <? lenN a) = false).
  { destruct (s_lim s); cbn [andb]; [|reflexivity]. specialize (Hl eq_refl). lia. }
  rewrite El. cbn [s_in counted]. rewrite Ein, takeN_app. reflexivity.
Qed.

Lemma N_of_be_single b : N_of_be [b] = b2n b.
Proof. unfold N_of_be. cbn [N_of_be_acc]. lia. Qed.

(* readUint(size), 1 <= size: the size bytes read, their value *)
Lemma read_uint_ok sz s n s' : stack_wf 0 (s_stack s) -> 1 <= sz -> read_uint sz s = (ROk n, s') ->
  exists bs, reads s bs s' /\ lenN bs = sz /\ n = N_of_be bs /\ (2 <= sz -> no_lead0 bs = true) /\
             s_kind s' = None /\ s_bv s' = s_bv s.
Proof.
  intros W H1. unfold read_uint. destruct (N.eqb_spec sz 0); [lia|].
  destruct (N.eqb_spec sz 1) as [->|Hne].
  - destruct (read_byte s) as [[b|e] s1] eqn:Eb; [|discriminate].
    intros E. injection E as <- <-. apply read_byte_ok in Eb as (R & K & B); [|exact W].
    exists [b]. split; [exact R|]. split; [reflexivity|]. split; [symmetry; apply N_of_be_single|].
    split; [lia|]. split; assumption.
  - destruct (read_full sz s) as [[bs|e] s1] eqn:Ef; [|discriminate].
    destruct (no_lead0 bs) eqn:Hl; [|discriminate].
    intros E. injection E as <- <-. apply read_full_ok in Ef as (R & L & K & B); [|exact W].
    exists bs. split; [exact R|]. split; [exact L|]. split; [reflexivity|]. split; [intros _; exact Hl|].
    split; assumption.
Qed.

Lemma read_uint_go s bs r : stack_wf 0 (s_stack s) -> s_in s = bs ++ r -> 1 <= lenN bs ->
  room (lenN bs) (s_stack s) -> (s_lim s = true -> lenN bs <= s_rem s) -> no_lead0 bs = true ->
  read_uint (lenN bs) s = (ROk (N_of_be bs), set_in r (counted (lenN bs) s)).
Proof.
  intros W Ein H1 Hr Hl Hz. unfold read_uint. destruct (N.eqb_spec (lenN bs) 0); [lia|].
  destruct (N.eqb_spec (lenN bs) 1) as [E1|Hne].
  - destruct bs as [|b [|c t]]; try (cbn in E1; lia).
    rewrite (read_byte_go s b r W Ein); [|rewrite E1 in Hr; exact Hr|now rewrite E1 in Hl].
    now rewrite N_of_be_single, E1.
  - rewrite (read_full_go s bs r W Ein Hr Hl). now rewrite Hz.
Qed.

(* the header in front of a value of kind k and size n *)
Definition hdr_of (k : skind) (n : N) (bv : byte) : bytes :=
  match k with SByte => [bv] | SString => enc_hdr 128 n | SList => enc_hdr 192 n end.

Lemma reads_set s p s1 s2 :
  s_in s2 = s_in s1 -> s_stack s2 = s_stack s1 -> s_lim s2 = s_lim s1 -> s_rem s2 = s_rem s1 ->
  reads s p s1 -> reads s p s2.
Proof. unfold reads. intros -> -> -> ->. trivial. Qed.
Lemma reads_set_l s0 s p s1 :
  s_in s0 = s_in s -> s_stack s0 = s_stack s -> s_lim s0 = s_lim s -> s_rem s0 = s_rem s ->
  reads s0 p s1 -> reads s p s1.
Proof. unfold reads. intros -> -> -> ->. trivial. Qed.

Lemma long_hdr off h bs n : (off = 128 \/ off = 192) -> b2n h = off + 55 + lenN bs -> lenN bs <= 8 ->
  n = N_of_be bs -> no_lead0 bs = true -> 56 <= n ->
  h :: bs = enc_hdr off n /\ n < two64.
Proof.
  intros Hoff Hh Hl -> Hz H56. split.
  - unfold enc_hdr. destruct (N.ltb_spec (N_of_be bs) 56); [lia|].
    rewrite be_of_N_of_be by exact Hz. rewrite <- Hh, n2b_b2n. reflexivity.
  - pose proof (N_of_be_lt bs). pose proof (pow256_le8 (lenN bs) Hl). lia.
Qed.

(* readKind without error: it has read exactly the canonical header of (kind, size) *)
Lemma read_kind_ok s k n s' : stack_wf 0 (s_stack s) -> read_kind s = ((k, n, None), s') ->
  reads s (hdr_of k n (s_bv s')) s' /\ n < two64 /\ s_kind s' = None /\
  (k = SByte -> n = 0 /\ b2n (s_bv s') < 128).
Proof.
  intros W. unfold read_kind.
  destruct (read_byte s) as [[h|e] s1] eqn:Eb; [|intros E; injection E; discriminate].
  apply read_byte_ok in Eb as (R1 & K1 & _); [|exact W].
  assert (W1 : stack_wf 0 (s_stack (set_bv x00 s1))).
  { cbn [set_bv s_stack]. destruct R1 as (_ & -> & Hr & _). now apply stack_wf_adv. }
  pose proof (b2n_lt h) as Hh.
  destruct (N.ltb_spec (b2n h) 128) as [C1|C1].
  { intros E. injection E as <- <- <-. cbn [hdr_of set_bv s_bv s_kind].
    split; [|split; [unfold two64; lia|split; [exact K1|intros _; split; [reflexivity|exact C1]]]].
    eapply reads_set; [..|exact R1]; reflexivity. }
  destruct (N.ltb_spec (b2n h) 184) as [C2|C2].
  { intros E. injection E as <- <- <-. cbn [hdr_of set_bv s_bv s_kind].
    split; [|split; [unfold two64; lia|split; [exact K1|discriminate]]].
    unfold enc_hdr. destruct (N.ltb_spec (b2n h - 128) 56); [|lia].
    replace (128 + (b2n h - 128)) with (b2n h) by lia. rewrite n2b_b2n.
    eapply reads_set; [..|exact R1]; reflexivity. }
  destruct (N.ltb_spec (b2n h) 192) as [C3|C3].
  { destruct (read_uint (b2n h - 183) (set_bv x00 s1)) as [[m|e] s2] eqn:Eu; [|intros E; injection E; discriminate].
    destruct (N.ltb_spec m 56) as [|H56]; [intros E; injection E; discriminate|].
    intros E. injection E as <- <- <-.
    apply read_uint_ok in Eu as (bs & R2 & L & Hm & Hz & K2 & _); [|exact W1|lia].
    assert (Hnz : no_lead0 bs = true).
    { destruct (N.le_gt_cases 2 (lenN bs)) as [G|G]; [apply Hz; lia|].
      destruct bs as [|b [|c t]]; try (cbn in L, G; lia). rewrite N_of_be_single in Hm.
      cbn [no_lead0]. destruct (N.eqb_spec (b2n b) 0); [lia|reflexivity]. }
    destruct (long_hdr 128 h bs m) as [Hh1 Hh2]; auto; try lia.
    cbn [hdr_of]. rewrite <- Hh1. split; [|split; [exact Hh2|split; [exact K2|discriminate]]].
    change (h :: bs) with ([h] ++ bs). eapply reads_trans; [|exact R2].
    eapply reads_set; [..|exact R1]; reflexivity. }
  destruct (N.ltb_spec (b2n h) 248) as [C4|C4].
  { intros E. injection E as <- <- <-. cbn [hdr_of set_bv s_bv s_kind].
    split; [|split; [unfold two64; lia|split; [exact K1|discriminate]]].
    unfold enc_hdr. destruct (N.ltb_spec (b2n h - 192) 56); [|lia].
    replace (192 + (b2n h - 192)) with (b2n h) by lia. rewrite n2b_b2n.
    eapply reads_set; [..|exact R1]; reflexivity. }
  { destruct (read_uint (b2n h - 247) (set_bv x00 s1)) as [[m|e] s2] eqn:Eu; [|intros E; injection E; discriminate].
    destruct (N.ltb_spec m 56) as [|H56]; [intros E; injection E; discriminate|].
    intros E. injection E as <- <- <-.
    apply read_uint_ok in Eu as (bs & R2 & L & Hm & Hz & K2 & _); [|exact W1|lia].
    assert (Hnz : no_lead0 bs = true).
    { destruct (N.le_gt_cases 2 (lenN bs)) as [G|G]; [apply Hz; lia|].
      destruct bs as [|b [|c t]]; try (cbn in L, G; lia). rewrite N_of_be_single in Hm.
      cbn [no_lead0]. destruct (N.eqb_spec (b2n b) 0); [lia|reflexivity]. }
    destruct (long_hdr 192 h bs m) as [Hh1 Hh2]; auto; try lia.
    cbn [hdr_of]. rewrite <- Hh1. split; [|split; [exact Hh2|split; [exact K2|discriminate]]].
    change (h :: bs) with ([h] ++ bs). eapply reads_trans; [|exact R2].
    eapply reads_set; [..|exact R1]; reflexivity. }
Qed.

Definition within (n : N) (s : stream) : Prop :=
  match avail s with Some a => n <= a | None => True end.

(* Kind() with nothing cached and no error: exactly the canonical header has been read and
   the declared size fits what is left of the enclosing list / the input limit *)
Lemma st_kind_ok s k n s' : Inv0 s -> s_kind s = None -> st_kind s = (SOk (k, n), s') ->
  reads s (hdr_of k n (s_bv s')) s' /\ s_kind s' = Some k /\ s_size s' = n /\ s_kerr s' = None /\
  n < two64 /\ (k = SByte -> n = 0 /\ b2n (s_bv s') < 128) /\ within n s'.
Proof.
  intros [W B] Hk. unfold st_kind. rewrite Hk.
  destruct (match s_stack (set_kerr None s) with (pos, sz) :: _ => pos =? sz | [] => false end); [discriminate|].
  destruct (read_kind (set_kerr None s)) as [[[k1 n1] e1] s1] eqn:Erk.
  destruct e1 as [e1|].
  { unfold kind_result. cbn [s_kerr set_kerr]. discriminate. }
  apply read_kind_ok in Erk as (R & Hn & K1 & Hb); [|exact W].
  apply (reads_set_l _ s) in R; try reflexivity.
  assert (W1 : stack_wf 0 (s_stack s1)) by (apply (reads_Inv0 s _ s1 (conj W B) R)).
  set (s2 := set_kerr None (set_size n1 (set_kind (Some k1) s1))).
  assert (R2 : reads s (hdr_of k1 n1 (s_bv s2)) s2) by (eapply reads_set; [..|exact R]; reflexivity).
  destruct (s_stack s2) as [|[pos sz] rest] eqn:Est.
  - destruct (s_lim s2 && (s_rem s2 <? n1)) eqn:El.
    { unfold kind_result. cbn [s_kerr set_kerr]. discriminate. }
    unfold kind_result. fold s2. replace (s_kerr s2) with (@None serr) by reflexivity.
    assert (Hw : within n1 s2).
    { unfold within, avail. rewrite Est. destruct (s_lim s2); cbn [andb] in El; [lia|trivial]. }
    intros E. injection E as <- <- <-.
    exact (conj R2 (conj eq_refl (conj eq_refl (conj eq_refl (conj Hn (conj Hb Hw)))))).
  - assert (Wt : pos <= sz /\ sz < two64).
    { change (s_stack s2) with (s_stack s1) in Est. rewrite Est in W1. cbn in W1. lia. }
    rewrite sub64_small by lia.
    destruct (N.ltb_spec (sz - pos) n1) as [|Hle].
    { unfold kind_result. cbn [s_kerr set_kerr]. discriminate. }
    unfold kind_result. replace (s_kerr s2) with (@None serr) by reflexivity.
    assert (Hw : within n1 s2) by (unfold within, avail; rewrite Est; exact Hle).
    intros E. injection E as <- <- <-.
    exact (conj R2 (conj eq_refl (conj eq_refl (conj eq_refl (conj Hn (conj Hb Hw)))))).
Qed.

Lemma st_kind_cached s k : s_kind s = Some k -> st_kind s = (kind_result k s, s).
Proof. intros H. unfold st_kind. now rewrite H. Qed.

Lemma Inv_after_kind s k n s' : Inv0 s -> s_kind s = None -> st_kind s = (SOk (k, n), s') -> Inv s'.
Proof.
  intros I Hk E. destruct (st_kind_ok s k n s' I Hk E) as (R & K & Z & Ke & Hn & _ & Wi).
  split; [eapply reads_Inv0; eauto|]. unfold cache_ok. rewrite K, Ke, Z. split; [exact Hn|exact Wi].
Qed.

(* ---------- which errors the readers can produce (in any state) ---------- *)
Definition rd_err (e : serr) : bool :=
  match e with EElemTooLarge | EValueTooLarge | EUnexpectedEOF | ECanonSize | EEOF => true | _ => false end.

Lemma will_read_err n s e s' : will_read n s = (Some e, s') -> rd_err e = true.
Proof.
  unfold will_read. destruct (s_stack (set_kind None s)) as [|[p z] r].
  - destruct (s_lim (set_kind None s)); [destruct (_ <? _)|]; intros E; inversion E; reflexivity.
  - destruct (sub64 z p <? n); [intros E; inversion E; reflexivity|].
    destruct (s_lim _); [destruct (_ <? _)|]; intros E; inversion E; reflexivity.
Qed.
Lemma read_byte_err s e s' : read_byte s = (RErr e, s') -> rd_err e = true.
Proof.
  unfold read_byte. destruct (will_read 1 s) as [[e0|] s0] eqn:Ew.
  - intros E. injection E as <- <-. eapply will_read_err; eauto.
  - destruct (s_in s0); intros E; inversion E; reflexivity.
Qed.
Lemma read_full_err n s e s' : read_full n s = (RErr e, s') -> rd_err e = true.
Proof.
  unfold read_full. destruct (will_read n s) as [[e0|] s0] eqn:Ew.
  - intros E. injection E as <- <-. eapply will_read_err; eauto.
  - destruct (takeN n (s_in s0)) as [[a r]|]; intros E; inversion E; reflexivity.
Qed.
Lemma read_uint_err n s e s' : read_uint n s = (RErr e, s') -> rd_err e = true.
Proof.
  unfold read_uint. destruct (n =? 0); [discriminate|]. destruct (n =? 1).
  - destruct (read_byte s) as [[b|e0] s0] eqn:Eb; [discriminate|].
    intros E. injection E as <- <-. eapply read_byte_err; eauto.
  - destruct (read_full n s) as [[b|e0] s0] eqn:Eb.
    + destruct (no_lead0 b); intros E; inversion E; reflexivity.
    + intros E. injection E as <- <-. eapply read_full_err; eauto.
Qed.
Lemma read_kind_err s k n e s' : read_kind s = ((k, n, Some e), s') -> rd_err e = true.
Proof.
  unfold read_kind. destruct (read_byte s) as [[h|e0] s0] eqn:Eb.
  - destruct (b2n h <? 128); [discriminate|]. destruct (b2n h <? 184); [discriminate|].
    destruct (b2n h <? 192).
    { destruct (read_uint _ _) as [[m|e1] s1] eqn:Eu.
      - destruct (m <? 56); intros E; inversion E; reflexivity.
      - intros E. injection E as <- <- <- <-. eapply read_uint_err; eauto. }
    destruct (b2n h <? 248); [discriminate|].
    destruct (read_uint _ _) as [[m|e1] s1] eqn:Eu.
    + destruct (m <? 56); intros E; inversion E; reflexivity.
    + intros E. injection E as <- <- <- <-. eapply read_uint_err; eauto.
  - apply read_byte_err in Eb. intros E. injection E as _ _ <- _.
    destruct (s_stack s0); destruct e0; try discriminate; reflexivity.
Qed.

Definition at_eol (s : stream) : bool :=
  match s_stack s with (pos, sz) :: _ => pos =? sz | [] => false end.

(* Kind() on a fresh header: every error other than EOL comes from the readers or the two
   size checks; EOL means: positioned at the end of the innermost list, nothing read *)
Lemma st_kind_fresh_err s e s' : s_kind s = None -> st_kind s = (SErr e, s') ->
  (e = EEOL /\ at_eol s = true /\ s' = set_kerr None s) \/ (rd_err e = true /\ at_eol s = false).
Proof.
  intros Hk. unfold st_kind. rewrite Hk. fold (at_eol (set_kerr None s)).
  change (at_eol (set_kerr None s)) with (at_eol s).
  destruct (at_eol s) eqn:Ea.
  { intros E. injection E as <- <-. left. auto. }
  destruct (read_kind (set_kerr None s)) as [[[k1 n1] e1] s1] eqn:Erk.
  destruct e1 as [e1|].
  - unfold kind_result. cbn [s_kerr set_kerr]. intros E. injection E as <- <-.
    right. split; [eapply read_kind_err; eauto|reflexivity].
  - set (s2 := set_kerr None (set_size n1 (set_kind (Some k1) s1))).
    destruct (s_stack s2) as [|[pos sz] rest].
    + destruct (s_lim s2 && (s_rem s2 <? n1)); unfold kind_result; cbn [s_kerr set_kerr];
        intros E; inversion E. right. split; reflexivity.
    + destruct (sub64 sz pos <? n1); unfold kind_result; cbn [s_kerr set_kerr];
        intros E; inversion E. right. split; reflexivity.
Qed.

Lemma room_le a b st : a <= b -> room b st -> room a st.
Proof. destruct st as [|[p z] r]; cbn; [trivial|lia]. Qed.

(* ---------- readContent ---------- *)
Lemma content_len p n : p <= 9 -> n < two64 -> (add64 p n <? p) = false -> add64 p n - p = n.
Proof.
  intros Hp Hn Hge. unfold add64 in *. destruct (N.lt_ge_cases (p + n) two64) as [Hs|Hw].
  - rewrite N.mod_small by lia. lia.
  - exfalso. assert (E : (p + n) mod two64 = p + n - two64).
    { replace (p + n) with ((p + n - two64) + 1 * two64) at 1 by lia.
      rewrite N.mod_add by (unfold two64; lia). apply N.mod_small. unfold two64 in *. lia. }
    rewrite E in Hge. lia.
Qed.

Lemma reads_refl s : stack_wf 0 (s_stack s) -> reads s [] s.
Proof.
  intros W. unfold reads. cbn [app lenN length N.of_nat].
  assert (Hrem : s_rem s = (if s_lim s then s_rem s - 0 else s_rem s)) by (destruct (s_lim s); lia).
  destruct (s_stack s) as [|[p z] r] eqn:Es; cbn [adv room].
  - repeat split; auto; lia.
  - cbn [stack_wf] in W. replace (p + 0) with p by lia. repeat split; auto; lia.
Qed.

Lemma reads_wf s p s' : stack_wf 0 (s_stack s) -> reads s p s' -> stack_wf 0 (s_stack s').
Proof. intros W (_ & -> & Hr & _). now apply stack_wf_adv. Qed.

Definition chunk (prefix rd sz : N) : N := N.min (N.max max_unchecked_alloc (prefix + rd)) (sz - rd).
Lemma chunk_bounds prefix rd sz : rd < sz -> 1 <= chunk prefix rd sz <= sz - rd.
Proof. unfold chunk, max_unchecked_alloc. lia. Qed.

Lemma read_chunks_S f p rd sz s acc : read_chunks (S f) p rd sz s acc =
  if rd <? sz then
    match read_full (chunk p rd sz) s with
    | (RErr e, s) => (RErr e, s)
    | (ROk b, s) => read_chunks f p (rd + chunk p rd sz) sz s (acc ++ b)
    end
  else (ROk acc, s).
Proof. reflexivity. Qed.

Lemma read_chunks_ok f : forall p rd sz s acc b s', stack_wf 0 (s_stack s) -> rd <= sz ->
  read_chunks f p rd sz s acc = (ROk b, s') ->
  exists c, b = acc ++ c /\ reads s c s' /\ lenN c = sz - rd /\ (rd < sz -> s_kind s' = None).
Proof.
  induction f as [|f IH]; intros p rd sz s acc b s' W Hle; [discriminate|]. rewrite read_chunks_S.
  destruct (N.ltb_spec rd sz) as [Hlt|Hge].
  - pose proof (chunk_bounds p rd sz Hlt) as Hc. set (n := chunk p rd sz) in *.
    destruct (read_full n s) as [[b0|e] s1] eqn:Ef; [|discriminate].
    apply read_full_ok in Ef as (R1 & L1 & K1 & _); [|exact W].
    intros E. destruct (IH p (rd + n) sz s1 (acc ++ b0) b s' (reads_wf _ _ _ W R1) ltac:(lia) E) as (c & -> & R2 & L2 & K2).
    exists (b0 ++ c). split; [now rewrite app_assoc|]. split; [eapply reads_trans; eauto|].
    split; [rewrite lenN_app; lia|]. intros _.
    destruct (N.lt_ge_cases (rd + n) sz) as [G|G]; [now apply K2|].
    (* the last chunk: the recursive call returned at once *)
    destruct f as [|f']; [discriminate|]. rewrite read_chunks_S in E.
    destruct (N.ltb_spec (rd + n) sz); [lia|]. injection E as _ <-. exact K1.
  - intros E. injection E as <- <-. exists []. rewrite app_nil_r. split; [reflexivity|].
    split; [now apply reads_refl|]. split; [cbn; lia|lia].
Qed.

Lemma read_chunks_go f : forall p rd sz s acc a r, stack_wf 0 (s_stack s) -> s_in s = a ++ r ->
  rd <= sz -> lenN a = sz - rd -> room (lenN a) (s_stack s) -> (s_lim s = true -> lenN a <= s_rem s) ->
  (length a < f)%nat -> exists s', read_chunks f p rd sz s acc = (ROk (acc ++ a), s').
Proof.
  induction f as [|f IH]; intros p rd sz s acc a r W Ein Hle La Hr Hl Hf; [lia|]. rewrite read_chunks_S.
  destruct (N.ltb_spec rd sz) as [Hlt|Hge].
  - pose proof (chunk_bounds p rd sz Hlt) as Hc. set (n := chunk p rd sz) in *.
    set (a1 := firstn (N.to_nat n) a). set (a2 := skipn (N.to_nat n) a).
    assert (Ea : a = a1 ++ a2) by (symmetry; apply firstn_skipn).
    assert (L1 : lenN a1 = n).
    { unfold a1, lenN in *. rewrite firstn_length. lia. }
    assert (L2 : lenN a = n + lenN a2) by (rewrite Ea at 1; rewrite lenN_app; lia).
    rewrite <- L1.
    rewrite (read_full_go s a1 (a2 ++ r) W).
    + destruct (IH p (rd + lenN a1) sz (set_in (a2 ++ r) (counted (lenN a1) s)) (acc ++ a1) a2 r) as (s' & E).
      * cbn [set_in s_stack]. apply stack_wf_counted; [exact W|]. eapply room_le; [|exact Hr]. lia.
      * reflexivity.
      * lia.
      * lia.
      * cbn [set_in s_stack counted]. destruct (s_stack s) as [|[pz z] rr]; cbn [adv room] in *; [trivial|lia].
      * cbn [set_in s_lim s_rem counted]. intros L. specialize (Hl L). rewrite L. lia.
      * unfold lenN in *. rewrite Ea, app_length in Hf. lia.
      * exists s'. rewrite E. rewrite <- app_assoc, <- Ea. reflexivity.
    + rewrite Ein, Ea at 1. now rewrite <- app_assoc.
    + eapply room_le; [|exact Hr]. lia.
    + intros L. specialize (Hl L). lia.
  - assert (a = []) by (destruct a; [reflexivity|cbn in La; lia]). subst a. rewrite app_nil_r.
    eexists. reflexivity.
Qed.

Lemma read_chunks_err f : forall p rd sz s acc e s', read_chunks f p rd sz s acc = (RErr e, s') -> rd_err e = true.
Proof.
  induction f as [|f IH]; intros p rd sz s acc e s'; [intros E; inversion E; reflexivity|]. rewrite read_chunks_S.
  destruct (rd <? sz); [|discriminate].
  destruct (read_full _ s) as [[b0|e0] s1] eqn:Ef.
  - apply IH.
  - intros E. injection E as <- <-. eapply read_full_err; eauto.
Qed.

(* readContent without error: exactly `sz` content bytes have been read *)
Lemma read_content_ok p sz s b s' : stack_wf 0 (s_stack s) -> p <= 9 -> sz < two64 ->
  read_content p sz s = (SOk b, s') -> reads s b s' /\ lenN b = sz /\ s_kind s' = None.
Proof.
  intros W Hp Hsz. unfold read_content.
  destruct (s_lim s || (sz <=? max_unchecked_alloc)) eqn:Eb.
  - cbv zeta. destruct (max_alloc <? add64 p sz); [discriminate|].
    destruct (add64 p sz <? p) eqn:Ege; [discriminate|]. rewrite (content_len p sz Hp Hsz Ege).
    destruct (read_full sz s) as [[b0|e] s1] eqn:Ef; [|discriminate].
    intros E. injection E as <- <-. apply read_full_ok in Ef as (R & L & K & _); auto.
  - destruct (read_chunks _ p 0 sz s []) as [[b0|e] s1] eqn:Ec; [|discriminate].
    intros E. injection E as <- <-.
    apply read_chunks_ok in Ec as (c & -> & R & L & K); [|exact W|lia].
    cbn [app]. apply orb_false_elim in Eb as [_ Eb]. unfold max_unchecked_alloc in Eb.
    split; [exact R|]. split; [lia|]. apply K. lia.
Qed.

(* readContent when the content is there and fits *)
Lemma read_content_go p s a r : stack_wf 0 (s_stack s) -> s_in s = a ++ r -> p <= 9 ->
  room (lenN a) (s_stack s) -> (s_lim s = true -> lenN a <= s_rem s) ->
  (s_lim s = true -> p + lenN a <= max_alloc) ->
  exists s', read_content p (lenN a) s = (SOk a, s').
Proof.
  intros W Ein Hp Hr Hl Hmax. unfold read_content.
  destruct (s_lim s || (lenN a <=? max_unchecked_alloc)) eqn:Eb.
  - assert (Hb : p + lenN a <= max_alloc).
    { destruct (s_lim s); [auto|]. cbn [orb] in Eb. unfold max_unchecked_alloc, max_alloc in *. lia. }
    cbv zeta. rewrite add64_small by (unfold max_alloc, two64 in *; lia).
    destruct (N.ltb_spec max_alloc (p + lenN a)); [lia|]. destruct (N.ltb_spec (p + lenN a) p); [lia|].
    replace (p + lenN a - p) with (lenN a) by lia.
    rewrite (read_full_go s a r W Ein Hr Hl). eexists. reflexivity.
  - destruct (read_chunks_go (S (length (s_in s))) p 0 (lenN a) s [] a r W Ein) as (s' & E); auto; try lia.
    + rewrite Ein, app_length. lia.
    + rewrite E. cbn [app]. eexists. reflexivity.
Qed.

Lemma read_content_err p sz s e s' : read_content p sz s = (SErr e, s') -> rd_err e = true.
Proof.
  unfold read_content. destruct (s_lim s || (sz <=? max_unchecked_alloc)).
  - cbv zeta. destruct (max_alloc <? _); [discriminate|]. destruct (_ <? p); [discriminate|].
    destruct (read_full _ s) as [[b0|e0] s1] eqn:Ef; [discriminate|].
    intros E. injection E as <- <-. eapply read_full_err; eauto.
  - destruct (read_chunks _ p 0 sz s []) as [[b0|e0] s1] eqn:Ec; [discriminate|].
    intros E. injection E as <- <-. eapply read_chunks_err; eauto.
Qed.

(* without an input limit readContent cannot panic: the exact allocation is at most
   64 KiB + header, everything larger grows with the data *)
Lemma read_content_unlimited_no_panic p sz s : s_lim s = false -> p <= 9 -> fst (read_content p sz s) <> SPanic.
Proof.
  intros L Hp. unfold read_content. rewrite L. cbn [orb].
  destruct (N.leb_spec sz max_unchecked_alloc) as [Hs|Hs].
  - cbv zeta. unfold max_unchecked_alloc in Hs. rewrite add64_small by (unfold two64; lia).
    destruct (N.ltb_spec max_alloc (p + sz)); [unfold max_alloc in *; lia|].
    destruct (N.ltb_spec (p + sz) p); [lia|].
    destruct (read_full _ s) as [[b0|e0] s1]; discriminate.
  - destruct (read_chunks _ p 0 sz s []) as [[b0|e0] s1]; discriminate.
Qed.

(* ---------- the walker ---------- *)
(* the element loop of walk, named *)
Fixpoint wloop (w : stream -> option (sres item * stream)) (m : nat) (s : stream) (acc : list item)
  : option (sres item * stream) :=
  match m with
  | O => None
  | S m' =>
    match w s with
    | None => None
    | Some (SErr EEOL, s) =>
        match st_list_end s with
        | (SOk _, s) => Some (SOk (Lst (rev acc)), s)
        | (SErr e, s) => Some (SErr e, s)
        | (SPanic, s) => Some (SPanic, s)
        end
    | Some (SErr e, s) => Some (SErr e, s)
    | Some (SPanic, s) => Some (SPanic, s)
    | Some (SOk x, s) => wloop w m' s (x :: acc)
    end
  end.

Lemma walk_S f s : walk (S f) s =
  match st_kind s with
  | (SErr e, s) => Some (SErr e, s)
  | (SPanic, s) => Some (SPanic, s)
  | (SOk (SList, _), s) =>
      match st_list s with
      | (SErr e, s) => Some (SErr e, s)
      | (SPanic, s) => Some (SPanic, s)
      | (SOk _, s) => wloop (walk f) f s []
      end
  | (SOk _, s) =>
      match st_bytes s with
      | (SOk b, s) => Some (SOk (Str b), s)
      | (SErr e, s) => Some (SErr e, s)
      | (SPanic, s) => Some (SPanic, s)
      end
  end.
Proof.
  cbn [walk]. destruct (st_kind s) as [[[k n]|e|] s1]; try reflexivity.
  destruct k; try reflexivity. destruct (st_list s1) as [[n2|e|] s2]; try reflexivity.
  generalize (@nil item). generalize s2. induction f as [|m IH] at 2 4; intros s3 acc; [reflexivity|].
  cbn [wloop]. destruct (walk f s3) as [[[x|e|] s4]|]; try reflexivity. apply IH.
Qed.

Lemma st_list_end_err s e s' : st_list_end s = (SErr e, s') -> e <> EEOL.
Proof.
  unfold st_list_end. destruct (s_stack s) as [|[p z] r]; [intros E; inversion E; discriminate|].
  destruct (negb (p =? z)); intros E; inversion E; discriminate.
Qed.

Lemma wloop_not_eol w m : forall s acc s', wloop w m s acc <> Some (SErr EEOL, s').
Proof.
  induction m as [|m IH]; intros s acc s'; cbn [wloop]; [discriminate|].
  destruct (w s) as [[[x|e|] s1]|]; try discriminate; [apply IH|].
  destruct e; try discriminate.
  destruct (st_list_end s1) as [[u|e|] s2] eqn:El; try discriminate.
  intros E. injection E as -> _. now apply st_list_end_err in El.
Qed.

Lemma kind_result_ok k s : s_kerr s = None -> kind_result k s = SOk (k, s_size s).
Proof. unfold kind_result. now intros ->. Qed.

(* Bytes / List right after a successful Kind *)
Lemma st_bytes_err_not_eol s k : s_kind s = Some k -> s_kerr s = None -> forall s', st_bytes s <> (SErr EEOL, s').
Proof.
  intros K Ke s'. unfold st_bytes. rewrite (st_kind_cached s k K), (kind_result_ok k s Ke).
  destruct k; try discriminate.
  destruct (read_content 0 (s_size s) s) as [[b|e|] s1] eqn:Ef.
  - destruct ((s_size s =? 1) && is_single_low b); discriminate.
  - apply read_content_err in Ef. intros E. injection E as -> _. discriminate.
  - discriminate.
Qed.

Lemma walk_eol f s s' : s_kind s = None -> walk f s = Some (SErr EEOL, s') ->
  at_eol s = true /\ s' = set_kerr None s.
Proof.
  intros Hk. destruct f as [|f]; [discriminate|]. rewrite walk_S.
  destruct (st_kind s) as [[[k n]|e|] s1] eqn:Ek; try discriminate.
  - (* Kind succeeded: no later step reports EOL *)
    assert (K1 : s_kind s1 = Some k /\ s_kerr s1 = None).
    { revert Ek. unfold st_kind. rewrite Hk.
      destruct (match s_stack (set_kerr None s) with (pos, sz) :: _ => pos =? sz | [] => false end); [discriminate|].
      destruct (read_kind (set_kerr None s)) as [[[k1 n1] e1] s0].
      destruct e1 as [e1|]; [unfold kind_result; cbn [s_kerr set_kerr]; discriminate|].
      set (s2 := set_kerr None (set_size n1 (set_kind (Some k1) s0))).
      destruct (s_stack s2) as [|[pos sz] rest].
      - destruct (s_lim s2 && (s_rem s2 <? n1)); unfold kind_result; cbn [s_kerr set_kerr];
          intros E; inversion E; subst. split; reflexivity.
      - destruct (sub64 sz pos <? n1); unfold kind_result; cbn [s_kerr set_kerr];
          intros E; inversion E; subst. split; reflexivity. }
    destruct K1 as [K1 Ke1].
    destruct k.
    + destruct (st_bytes s1) as [[b|e|] s2] eqn:Eb; try discriminate.
      intros E. injection E as -> <-. exfalso. eapply st_bytes_err_not_eol; eauto.
    + destruct (st_bytes s1) as [[b|e|] s2] eqn:Eb; try discriminate.
      intros E. injection E as -> <-. exfalso. eapply st_bytes_err_not_eol; eauto.
    + unfold st_list. rewrite (st_kind_cached s1 _ K1), (kind_result_ok _ s1 Ke1).
      intros E. exfalso. eapply wloop_not_eol; eauto.
  - intros E. injection E as -> <-.
    destruct (st_kind_fresh_err s _ s1 Hk Ek) as [(_ & A & B)|(A & _)]; [auto|discriminate].
Qed.

Definition pushed (n : N) (s : stream) : stream :=
  set_size 0 (set_kind None (set_stack ((0, n) :: s_stack s) s)).

Lemma Inv0_push n s : Inv0 s -> n < two64 -> within n s -> Inv0 (pushed n s).
Proof.
  intros [W B] Hn Hw. unfold Inv0, pushed, within, avail in *.
  cbn [s_stack s_lim s_rem set_size set_kind set_stack].
  destruct (s_stack s) as [|[p z] r].
  - split; [cbn; lia|]. intros L. rewrite L in Hw. cbn. lia.
  - cbn [stack_wf] in W. destruct W as (W1 & W2 & W3). split.
    + cbn [stack_wf]. repeat split; try lia. exact W3.
    + intros L. specialize (B L). cbn [future] in *. lia.
Qed.

(* ListEnd at the end of the innermost list *)
Lemma st_list_end_ok s u s' : stack_wf 0 (s_stack s) -> st_list_end s = (SOk u, s') ->
  exists n rest, s_stack s = (n, n) :: rest /\ s_stack s' = adv n rest /\ room n rest /\
    s_in s' = s_in s /\ s_lim s' = s_lim s /\ s_rem s' = s_rem s /\ s_kind s' = None.
Proof.
  intros W. unfold st_list_end. destruct (s_stack s) as [|[p z] r] eqn:Es; [discriminate|].
  destruct (N.eqb_spec p z) as [->|]; cbn [negb]; [|discriminate].
  intros E. injection E as _ <-. exists z, r. cbn [s_stack s_in s_lim s_rem s_kind set_size set_kind set_stack].
  cbn [stack_wf] in W. destruct W as (W1 & W2 & W3).
  destruct r as [|[p2 z2] r2]; cbn [adv room]; repeat split; auto.
  - cbn [stack_wf] in W3. rewrite add64_small by lia. reflexivity.
  - cbn [stack_wf] in W3. lia.
Qed.

Lemma fits_list_app_one l y : fits_list (y :: l) = fits y && fits_list l.
Proof. reflexivity. Qed.

Lemma encode_Str_byte b : b2n b < 128 -> encode (Str [b]) = [b].
Proof. intros H. rewrite encode_Str. unfold enc, is_single_low. destruct (N.ltb_spec (b2n b) 128); [reflexivity|lia]. Qed.

(* SOUNDNESS: what the walker accepts is the canonical encoding of what it returns, read
   from the front of the reader, and the stream is advanced by exactly that encoding *)
Lemma walk_sound f : forall s x s', Inv0 s -> s_kind s = None -> walk f s = Some (SOk x, s') ->
  reads s (encode x) s' /\ fits x = true /\ s_kind s' = None.
Proof.
  induction f as [|f IH]; intros s x s' I Hk; [discriminate|]. rewrite walk_S.
  destruct (st_kind s) as [[[k n]|e|] s1] eqn:Ek; try discriminate.
  destruct (st_kind_ok s k n s1 I Hk Ek) as (R & K & Z & Ke & Hn & Hb & Wi).
  assert (I1 : Inv0 s1) by (eapply reads_Inv0; eauto).
  assert (Hbytes : k <> SList ->
    match st_bytes s1 with
    | (SOk b, s2) => Some (SOk (Str b), s2)
    | (SErr e, s2) => Some (SErr e, s2)
    | (SPanic, s2) => Some (SPanic, s2)
    end = Some (SOk x, s') -> reads s (encode x) s' /\ fits x = true /\ s_kind s' = None).
  { intros Hnl. unfold st_bytes. rewrite (st_kind_cached s1 k K), (kind_result_ok k s1 Ke), Z.
    destruct k; [| |contradiction].
    - intros E. injection E as <- <-. destruct (Hb eq_refl) as [-> Hlow].
      cbn [hdr_of] in R. rewrite encode_Str_byte by exact Hlow. split; [|split; reflexivity].
      eapply reads_set; [..|exact R]; reflexivity.
    - destruct (read_content 0 n s1) as [[b|e|] s2] eqn:Ef; try discriminate.
      destruct (N.eqb_spec n 1) as [E1|E1]; cbn [andb].
      + destruct (is_single_low b) eqn:Esl; [discriminate|].
        intros E. injection E as <- <-. apply read_content_ok in Ef as (R2 & L & K2); [|apply I1|lia|exact Hn].
        rewrite encode_Str. unfold enc. rewrite Esl, L. split; [|split; [cbn [fits]; lia|exact K2]].
        eapply reads_trans; eauto.
      + intros E. injection E as <- <-. apply read_content_ok in Ef as (R2 & L & K2); [|apply I1|lia|exact Hn].
        rewrite encode_Str. unfold enc.
        destruct (is_single_low b) eqn:Esl.
        { apply is_single_low_len in Esl as (c & -> & _). cbn in L. lia. }
        rewrite L. split; [|split; [cbn [fits]; lia|exact K2]].
        eapply reads_trans; eauto. }
  destruct k; [apply Hbytes; discriminate|apply Hbytes; discriminate|]. clear Hbytes.
  unfold st_list. rewrite (st_kind_cached s1 _ K), (kind_result_ok _ s1 Ke), Z.
  fold (pushed n s1).
  assert (I2 : Inv0 (pushed n s1)) by (apply Inv0_push; auto).
  (* the element loop *)
  assert (Hloop : forall m sa acc y sb, Inv0 sa -> s_kind sa = None ->
            wloop (walk f) m sa acc = Some (SOk y, sb) ->
            exists l sc, y = Lst (rev acc ++ l) /\ reads sa (encode_list l) sc /\ at_eol sc = true /\
                         st_list_end (set_kerr None sc) = (SOk tt, sb) /\ fits_list l = true).
  { induction m as [|m IHm]; intros sa acc y sb Ia Ka; cbn [wloop]; [discriminate|].
    destruct (walk f sa) as [[[x0|e|] s3]|] eqn:Ew; try discriminate.
    - intros E. destruct (IH sa x0 s3 Ia Ka Ew) as (R3 & F3 & K3).
      destruct (IHm s3 (x0 :: acc) y sb (reads_Inv0 _ _ _ Ia R3) K3 E) as (l & sc & -> & Rl & Al & El & Fl).
      exists (x0 :: l), sc. cbn [rev]. rewrite <- app_assoc. cbn [app].
      split; [reflexivity|]. split; [rewrite encode_list_cons; eapply reads_trans; eauto|].
      split; [exact Al|]. split; [exact El|]. rewrite fits_list_app_one, F3, Fl. reflexivity.
    - destruct e; try discriminate.
      destruct (walk_eol f sa s3 Ka Ew) as [Ae ->].
      destruct (st_list_end (set_kerr None sa)) as [[[]|e|] s4] eqn:El; try discriminate.
      intros E. injection E as <- <-. exists [], sa. rewrite app_nil_r.
      split; [reflexivity|]. split; [|auto].
      unfold reads. cbn [encode_list flat_map app lenN length N.of_nat].
      assert (Hrem : s_rem sa = (if s_lim sa then s_rem sa - 0 else s_rem sa)) by (destruct (s_lim sa); lia).
      unfold at_eol in Ae.
      destruct (s_stack sa) as [|[p z] r]; cbn [adv room].
      + repeat split; auto; lia.
      + replace (p + 0) with p by lia. repeat split; auto; lia. }
  intros E. destruct (Hloop f (pushed n s1) [] x s' I2 eq_refl E) as (l & sc & -> & Rl & Al & El & Fl).
  cbn [rev app].
  assert (Isc : Inv0 sc) by (eapply reads_Inv0; eauto).
  destruct (st_list_end_ok (set_kerr None sc) tt s' (proj1 Isc) El) as (z & rest & Es & Es' & Hr & Ein & Elim & Erem & Ekind).
  cbn [set_kerr s_stack s_in s_lim s_rem] in Es, Ein, Elim, Erem.
  destruct Rl as (A1 & A2 & A3 & A4 & A5 & A6).
  cbn [pushed s_stack s_in s_lim s_rem set_size set_kind set_stack adv room] in A1, A2, A3, A4, A5, A6.
  rewrite Es in A2. injection A2 as Hz Hrest. subst rest.
  assert (Hlen : lenN (encode_list l) = n) by lia. subst z.
  rewrite encode_Lst, fits_Lst, Fl. unfold enc. rewrite Hlen.
  split; [|split; [cbn [andb]; lia|exact Ekind]].
  cbn [hdr_of] in R. eapply reads_trans; [exact R|].
  unfold reads. rewrite Ein, Es', Elim, Erem, A4, A6. repeat split; auto.
Qed.

(* ---------- completeness: the walker accepts every encoding ---------- *)
Lemma read_kind_go_byte s bv rest : stack_wf 0 (s_stack s) -> s_in s = bv :: rest -> b2n bv < 128 ->
  room 1 (s_stack s) -> (s_lim s = true -> 1 <= s_rem s) ->
  exists s1, read_kind s = ((SByte, 0, None), s1).
Proof.
  intros W Ein Hb Hr Hl. unfold read_kind. rewrite (read_byte_go s bv rest W Ein Hr Hl).
  destruct (N.ltb_spec (b2n bv) 128); [|lia]. eexists. reflexivity.
Qed.


Lemma read_kind_go_hdr s off k n rest : stack_wf 0 (s_stack s) ->
  ((off = 128 /\ k = SString) \/ (off = 192 /\ k = SList)) -> n < two64 ->
  s_in s = enc_hdr off n ++ rest -> room (lenN (enc_hdr off n)) (s_stack s) ->
  (s_lim s = true -> lenN (enc_hdr off n) <= s_rem s) ->
  exists s1, read_kind s = ((k, n, None), s1).
Proof.
  intros W Hoff Hn Ein Hr Hl. unfold enc_hdr in *.
  destruct (N.ltb_spec n 56) as [Hs|Hlg].
  - cbn [app] in Ein. change (lenN [n2b (off + n)]) with 1 in Hr, Hl.
    unfold read_kind. rewrite (read_byte_go s _ rest W Ein Hr Hl).
    assert (Hb : b2n (n2b (off + n)) = off + n) by (apply b2n_n2b; lia). rewrite Hb.
    destruct Hoff as [[-> ->]|[-> ->]].
    + destruct (N.ltb_spec (128 + n) 128); [lia|]. destruct (N.ltb_spec (128 + n) 184); [|lia].
      replace (128 + n - 128) with n by lia. eexists. reflexivity.
    + destruct (N.ltb_spec (192 + n) 128); [lia|]. destruct (N.ltb_spec (192 + n) 184); [lia|].
      destruct (N.ltb_spec (192 + n) 192); [lia|]. destruct (N.ltb_spec (192 + n) 248); [|lia].
      replace (192 + n - 192) with n by lia. eexists. reflexivity.
  - destruct (be_len_bounds n Hlg Hn) as [B1 B2]. set (be := be_of_N n) in *.
    cbn [app] in Ein. rewrite lenN_cons in Hr, Hl.
    unfold read_kind.
    assert (Hr1 : room 1 (s_stack s)) by (eapply room_le; [|exact Hr]; lia).
    assert (Hl1 : s_lim s = true -> 1 <= s_rem s) by (intros L; specialize (Hl L); lia).
    rewrite (read_byte_go s _ (be ++ rest) W Ein Hr1 Hl1).
    assert (Hb : b2n (n2b (off + 55 + lenN be)) = off + 55 + lenN be) by (apply b2n_n2b; lia). rewrite Hb.
    set (s1 := set_bv x00 (set_in (be ++ rest) (counted 1 s))).
    assert (W1 : stack_wf 0 (s_stack s1)).
    { cbn [s1 set_bv set_in s_stack]. apply stack_wf_counted; [exact W|]. eapply room_le; [|exact Hr]. lia. }
    assert (Hu : read_uint (lenN be) s1 = (ROk (N_of_be be), set_in rest (counted (lenN be) s1))).
    { apply read_uint_go; auto; try lia.
      - cbn [s1 set_bv set_in s_stack counted]. destruct (s_stack s) as [|[p z] r]; cbn [adv room] in *; [trivial|lia].
      - cbn [s1 set_bv set_in s_lim s_rem counted]. intros L. specialize (Hl L). rewrite L. lia.
      - apply be_of_N_no_lead0. }
    replace (N_of_be be) with n in Hu by (unfold be; now rewrite N_of_be_of_N).
    destruct Hoff as [[-> ->]|[-> ->]].
    + destruct (N.ltb_spec (128 + 55 + lenN be) 128); [lia|]. destruct (N.ltb_spec (128 + 55 + lenN be) 184); [lia|].
      destruct (N.ltb_spec (128 + 55 + lenN be) 192); [|lia].
      replace (128 + 55 + lenN be - 183) with (lenN be) by lia. fold s1. rewrite Hu.
      destruct (N.ltb_spec n 56); [lia|]. eexists. reflexivity.
    + destruct (N.ltb_spec (192 + 55 + lenN be) 128); [lia|]. destruct (N.ltb_spec (192 + 55 + lenN be) 184); [lia|].
      destruct (N.ltb_spec (192 + 55 + lenN be) 192); [lia|]. destruct (N.ltb_spec (192 + 55 + lenN be) 248); [lia|].
      replace (192 + 55 + lenN be - 247) with (lenN be) by lia. fold s1. rewrite Hu.
      destruct (N.ltb_spec n 56); [lia|]. eexists. reflexivity.
Qed.

Lemma st_kind_go s k n s1 : Inv0 s -> s_kind s = None ->
  read_kind (set_kerr None s) = ((k, n, None), s1) ->
  1 <= lenN (hdr_of k n (s_bv s1)) ->
  room (lenN (hdr_of k n (s_bv s1)) + n) (s_stack s) ->
  (s_lim s = true -> lenN (hdr_of k n (s_bv s1)) + n <= s_rem s) ->
  exists s2, st_kind s = (SOk (k, n), s2).
Proof.
  intros [W B] Hk Erk H1 Hr Hl. unfold st_kind. rewrite Hk.
  assert (Ea : match s_stack (set_kerr None s) with (pos, sz) :: _ => pos =? sz | [] => false end = false).
  { cbn [set_kerr s_stack]. destruct (s_stack s) as [|[p z] r]; [reflexivity|]. cbn [room] in Hr. lia. }
  rewrite Ea, Erk.
  apply read_kind_ok in Erk as (R & Hn & K1 & Hb); [|exact W].
  destruct R as (A1 & A2 & A3 & A4 & A5 & A6).
  cbn [set_kerr s_stack s_in s_lim s_rem] in A1, A2, A3, A4, A5, A6.
  set (s2 := set_kerr None (set_size n (set_kind (Some k) s1))).
  change (s_stack s2) with (s_stack s1). change (s_lim s2) with (s_lim s1). change (s_rem s2) with (s_rem s1).
  rewrite A2, A4, A6.
  destruct (s_stack s) as [|[p z] r]; cbn [adv].
  - destruct (s_lim s) eqn:L; cbn [andb].
    + specialize (Hl eq_refl). destruct (N.ltb_spec (s_rem s - lenN (hdr_of k n (s_bv s1))) n); [lia|].
      eexists. unfold kind_result. cbn [s2 s_kerr set_kerr s_size set_size set_kind]. reflexivity.
    + eexists. unfold kind_result. cbn [s2 s_kerr set_kerr s_size set_size set_kind]. reflexivity.
  - cbn [room stack_wf] in *. rewrite sub64_small by lia.
    destruct (N.ltb_spec (z - (p + lenN (hdr_of k n (s_bv s1)))) n); [lia|].
    eexists. unfold kind_result. cbn [s2 s_kerr set_kerr s_size set_size set_kind]. reflexivity.
Qed.

Lemma length_le_encode_list l : (length l <= length (encode_list l))%nat.
Proof.
  induction l as [|y t IH]; [cbn; lia|]. rewrite encode_list_cons, app_length.
  pose proof (encode_length_pos y). cbn [length]. lia.
Qed.

Lemma lenN_length {A} (l : list A) : lenN l = N.of_nat (length l). Proof. reflexivity. Qed.

Lemma walk_complete : forall x, fits x = true ->
  forall lim : bool, (lim = true -> lenN (encode x) <= max_alloc) ->
  forall f s r, s_lim s = lim -> Inv0 s -> s_kind s = None -> s_in s = encode x ++ r ->
    room (lenN (encode x)) (s_stack s) -> (s_lim s = true -> lenN (encode x) <= s_rem s) ->
    (length (encode x) < f)%nat ->
    exists s', walk f s = Some (SOk x, s').
Proof.
  induction x as [b|l IH] using item_ind'; intros Hfit lim Hmax f s r Elim I Hk Ein Hr Hl Hf.
  - (* a string *)
    destruct f as [|f]; [lia|]. rewrite walk_S. rewrite encode_Str in *. unfold enc in *.
    destruct (is_single_low b) eqn:Esl.
    + destruct (is_single_low_len b Esl) as (c & -> & Hc). cbn [app] in Ein.
      change (lenN [c]) with 1 in Hr, Hl.
      destruct (read_kind_go_byte (set_kerr None s) c r (proj1 I) Ein Hc Hr Hl) as (s1 & Erk).
      destruct (st_kind_go s SByte 0 s1 I Hk Erk) as (s2 & Ek); cbn [hdr_of]; change (lenN [s_bv s1]) with 1; try lia.
      { eapply room_le; [|exact Hr]. lia. }
      rewrite Ek. destruct (st_kind_ok s _ _ s2 I Hk Ek) as (R & K & Z & Ke & _ & _ & _).
      unfold st_bytes. rewrite (st_kind_cached s2 _ K), (kind_result_ok _ s2 Ke).
      destruct R as (A1 & _). cbn [hdr_of app] in A1. rewrite Ein in A1. injection A1 as -> _.
      eexists. reflexivity.
    + cbn [fits] in Hfit. rewrite lenN_app in Hr, Hl, Hmax.
      destruct (read_kind_go_hdr (set_kerr None s) 128 SString (lenN b) (b ++ r) (proj1 I)) as (s1 & Erk); auto; try lia.
      { cbn [set_kerr s_in]. rewrite Ein. now rewrite app_assoc. }
      { cbn [set_kerr s_stack]. eapply room_le; [|exact Hr]. lia. }
      { cbn [set_kerr s_lim s_rem]. intros L. specialize (Hl L). lia. }
      assert (H1 : 1 <= lenN (enc_hdr 128 (lenN b))).
      { unfold enc_hdr. destruct (lenN b <? 56); rewrite ?lenN_cons; lia. }
      destruct (st_kind_go s SString (lenN b) s1 I Hk Erk) as (s2 & Ek); cbn [hdr_of]; auto.
      rewrite Ek. destruct (st_kind_ok s _ _ s2 I Hk Ek) as (R & K & Z & Ke & _ & _ & _).
      assert (I2 : Inv0 s2) by (eapply reads_Inv0; eauto).
      unfold st_bytes. rewrite (st_kind_cached s2 _ K), (kind_result_ok _ s2 Ke), Z.
      destruct R as (A1 & A2 & A3 & A4 & A5 & A6). cbn [hdr_of] in *.
      rewrite Ein, <- app_assoc in A1. apply app_inv_head in A1.
      destruct (read_content_go 0 s2 b r (proj1 I2) (eq_sym A1)) as (s3 & Erc).
      * lia.
      * rewrite A2. destruct (s_stack s) as [|[p z] rr]; cbn [adv room] in *; [trivial|lia].
      * rewrite A4, A6. intros L. rewrite L. specialize (Hl L). lia.
      * rewrite A4, Elim. intros L. specialize (Hmax L). lia.
      * rewrite Erc, Esl, andb_false_r. eexists. reflexivity.
  - (* a list *)
    destruct f as [|f]; [lia|]. rewrite walk_S. rewrite encode_Lst in *. unfold enc in *.
    rewrite fits_Lst in Hfit. apply andb_prop in Hfit as [Hfl Hlen].
    set (n := lenN (encode_list l)) in *. rewrite lenN_app in Hr, Hl, Hmax. fold n in Hr, Hl, Hmax.
    destruct (read_kind_go_hdr (set_kerr None s) 192 SList n (encode_list l ++ r) (proj1 I)) as (s1 & Erk); auto; try lia.
    { cbn [set_kerr s_in]. rewrite Ein. now rewrite app_assoc. }
    { cbn [set_kerr s_stack]. eapply room_le; [|exact Hr]. lia. }
    { cbn [set_kerr s_lim s_rem]. intros L. specialize (Hl L). lia. }
    assert (H1 : 1 <= lenN (enc_hdr 192 n)).
    { unfold enc_hdr. destruct (n <? 56); rewrite ?lenN_cons; lia. }
    destruct (st_kind_go s SList n s1 I Hk Erk) as (s2 & Ek); cbn [hdr_of]; auto.
    rewrite Ek. destruct (st_kind_ok s _ _ s2 I Hk Ek) as (R & K & Z & Ke & Hn & _ & Wi).
    assert (I2 : Inv0 s2) by (eapply reads_Inv0; eauto).
    unfold st_list. rewrite (st_kind_cached s2 _ K), (kind_result_ok _ s2 Ke), Z. fold (pushed n s2).
    assert (I3 : Inv0 (pushed n s2)) by (apply Inv0_push; auto).
    destruct R as (A1 & A2 & A3 & A4 & A5 & A6). cbn [hdr_of] in *.
    rewrite Ein, <- app_assoc in A1. apply app_inv_head in A1.
    assert (Hfuel : (length (encode_list l) < f)%nat).
    { rewrite app_length in Hf. assert (1 <= length (enc_hdr 192 n))%nat; [|lia].
      unfold lenN in H1. lia. }
    (* the element loop *)
    assert (Hloop : forall l', Forall (fun x => fits x = true ->
                forall lim : bool, (lim = true -> lenN (encode x) <= max_alloc) ->
                forall f s r, s_lim s = lim -> Inv0 s -> s_kind s = None -> s_in s = encode x ++ r ->
                room (lenN (encode x)) (s_stack s) -> (s_lim s = true -> lenN (encode x) <= s_rem s) ->
                (length (encode x) < f)%nat -> exists s', walk f s = Some (SOk x, s')) l' ->
              fits_list l' = true -> (lim = true -> lenN (encode_list l') <= max_alloc) ->
              forall m sa acc pos sz rest, s_lim sa = lim -> Inv0 sa -> s_kind sa = None -> s_in sa = encode_list l' ++ r ->
                s_stack sa = (pos, sz) :: rest -> pos + lenN (encode_list l') = sz ->
                (s_lim sa = true -> lenN (encode_list l') <= s_rem sa) ->
                (length l' < m)%nat -> (length (encode_list l') < f)%nat ->
                exists sb, wloop (walk f) m sa acc = Some (SOk (Lst (rev acc ++ l')), sb)).
    { induction l' as [|y t IHt]; intros HF Hft Hmx m sa acc pos sz rest Ela Ia Ka Eia Esa Hpos Hla Hm Hfu.
      - destruct m as [|m]; [cbn in Hm; lia|]. cbn [wloop].
        destruct f as [|f0]; [lia|]. rewrite walk_S. unfold st_kind. rewrite Ka.
        cbn [set_kerr s_stack]. rewrite Esa. cbn in Hpos.
        destruct (N.eqb_spec pos sz) as [_|]; [|lia].
        unfold st_list_end. cbn [set_kerr s_stack]. rewrite Esa.
        destruct (N.eqb_spec pos sz) as [_|]; [|lia]. cbn [negb]. rewrite app_nil_r. eexists. reflexivity.
      - destruct m as [|m]; [cbn in Hm; lia|]. cbn [wloop].
        inversion HF as [|y' t' Hy Ht]; subst y' t'.
        rewrite fits_list_app_one in Hft. apply andb_prop in Hft as [Hfy Hft].
        rewrite encode_list_cons in *. rewrite lenN_app in *. rewrite app_length in Hfu.
        destruct (Hy Hfy lim ltac:(intros L; specialize (Hmx L); lia) f sa (encode_list t ++ r) Ela Ia Ka) as (s3 & Ew).
        + rewrite Eia. now rewrite app_assoc.
        + rewrite Esa. cbn [room]. lia.
        + intros L. specialize (Hla L). lia.
        + lia.
        + rewrite Ew. destruct (walk_sound f sa y s3 Ia Ka Ew) as (R3 & _ & K3).
          assert (I3' : Inv0 s3) by (eapply reads_Inv0; eauto).
          destruct R3 as (C1 & C2 & C3 & C4 & C5 & C6).
          rewrite Eia, <- app_assoc in C1. apply app_inv_head in C1.
          rewrite Esa in C2. cbn [adv] in C2.
          destruct (IHt Ht Hft ltac:(intros L; specialize (Hmx L); lia) m s3 (y :: acc) _ _ _ ltac:(congruence) I3' K3 (eq_sym C1) C2) as (sb & Eb); try lia.
          * rewrite C4, C6. intros L. rewrite L. specialize (Hla L). lia.
          * cbn [length] in Hm. lia.
          * exists sb. rewrite Eb. cbn [rev]. rewrite <- app_assoc. reflexivity. }
    destruct (Hloop l IH Hfl ltac:(intros L; specialize (Hmax L); lia) f (pushed n s2) [] 0 n (s_stack s2)) as (sb & Eb); auto; try lia.
    + cbn [pushed s_lim set_size set_kind set_stack]. congruence.
    + cbn [pushed s_lim s_rem set_size set_kind set_stack]. rewrite A4, A6. intros L. rewrite L. specialize (Hl L). lia.
    + pose proof (length_le_encode_list l). lia.
    + exists sb. exact Eb.
Qed.

(* ---------- (a) REFINEMENT: the Stream walker = the specification decoder ---------- *)
Lemma new_stream_limited b : new_stream b (lenN b) true = mkS b (lenN b) true None 0 x00 None [].
Proof. unfold new_stream. destruct (0 <? lenN b); reflexivity. Qed.
Lemma new_stream_auto b : new_stream b 0 true = mkS b (lenN b) true None 0 x00 None [].
Proof. reflexivity. Qed.
Lemma new_stream_unlimited b : new_stream b 0 false = mkS b 0 false None 0 x00 None [].
Proof. reflexivity. Qed.

Lemma fresh_refines b rem lim x r : (lim = true -> rem = lenN b) ->
  let s0 := mkS b rem lim None 0 x00 None [] in
  ((exists s', walk (walk_fuel b) s0 = Some (SOk x, s') /\ s_in s' = r) -> decode b = Some (x, r)) /\
  ((lim = true -> lenN b <= max_alloc) -> decode b = Some (x, r) ->
     exists s', walk (walk_fuel b) s0 = Some (SOk x, s') /\ s_in s' = r).
Proof.
  intros Hrem s0.
  assert (I0 : Inv0 s0) by (split; cbn; [trivial|lia]).
  split.
  - intros (s' & Ew & <-). destruct (walk_sound _ s0 x s' I0 eq_refl Ew) as ((A1 & _) & Hf & _).
    cbn [s0 s_in] in A1. rewrite A1. now apply decode_encode.
  - intros Hmax Hd. apply decode_canonical in Hd as [Eb Hf].
    assert (Hlen : lenN (encode x) <= lenN b) by (rewrite Eb, lenN_app; lia).
    destruct (walk_complete x Hf lim ltac:(intros L; specialize (Hmax L); lia) (walk_fuel b) s0 r eq_refl I0 eq_refl Eb) as (s' & Ew).
    + cbn. trivial.
    + cbn [s0 s_lim s_rem]. intros L. rewrite (Hrem L). exact Hlen.
    + unfold walk_fuel. unfold lenN in Hlen. lia.
    + exists s'. split; [exact Ew|].
      destruct (walk_sound _ s0 x s' I0 eq_refl Ew) as ((A1 & _) & _ & _).
      cbn [s0 s_in] in A1. rewrite Eb in A1. now apply app_inv_head in A1.
Qed.

(* No input limit (a reader of unknown length): the walker over a fresh Stream returns
   (x, leftover r) exactly when the specification decoder does — no premise: since the fix
   a810c36 a declared size is never allocated before the data has arrived. *)
Theorem stream_refines_decode_unlimited b x r :
  stream_walk b 0 false = Some (SOk x, r) <-> decode b = Some (x, r).
Proof.
  unfold stream_walk. rewrite new_stream_unlimited.
  destruct (fresh_refines b 0 false x r ltac:(discriminate)) as [S C]. split.
  - intros E. apply S. destruct (walk _ _) as [[q s]|]; [|discriminate]. injection E as -> <-. eauto.
  - intros Hd. destruct (C ltac:(discriminate) Hd) as (s' & -> & <-). reflexivity.
Qed.

(* Input limit = length of the input, given explicitly or discovered from a bytes.Reader:
   the same, for inputs up to Go's maximal allocation (2^48 bytes; the single exact
   make([]byte, size) of a limited stream panics beyond). *)
Theorem stream_refines_decode b x r : lenN b <= max_alloc ->
  (stream_walk b (lenN b) true = Some (SOk x, r) <-> decode b = Some (x, r)) /\
  (stream_walk b 0 true = Some (SOk x, r) <-> decode b = Some (x, r)) /\
  (stream_walk b 0 false = Some (SOk x, r) <-> decode b = Some (x, r)).
Proof.
  intros Hmax.
  assert (G : (match walk (walk_fuel b) (mkS b (lenN b) true None 0 x00 None []) with
               | None => None | Some (q, s) => Some (q, s_in s) end = Some (SOk x, r)
               <-> decode b = Some (x, r))).
  { destruct (fresh_refines b (lenN b) true x r ltac:(reflexivity)) as [S C]. split.
    - intros E. apply S. destruct (walk _ _) as [[q s]|]; [|discriminate]. injection E as -> <-. eauto.
    - intros Hd. destruct (C ltac:(intros _; exact Hmax) Hd) as (s' & -> & <-). reflexivity. }
  split; [|split]; [| |apply stream_refines_decode_unlimited];
    unfold stream_walk; rewrite ?new_stream_limited, ?new_stream_auto; exact G.
Qed.

(* soundness needs no size bound and holds for every input limit and reader kind: whatever
   the walker accepts is the canonical encoding of the value it returns, then the leftover *)
Theorem stream_walk_canonical b lim br x r :
  stream_walk b lim br = Some (SOk x, r) -> b = encode x ++ r /\ fits x = true.
Proof.
  unfold stream_walk.
  assert (E0 : exists rem l, new_stream b lim br = mkS b rem l None 0 x00 None []).
  { unfold new_stream. destruct (0 <? lim); [eauto|]. destruct br; eauto. }
  destruct E0 as (rem & l & ->).
  destruct (walk _ _) as [[q s]|] eqn:Ew; [|discriminate]. intros E. injection E as -> <-.
  assert (I0 : Inv0 (mkS b rem l None 0 x00 None [])) by (split; cbn; [trivial|lia]).
  destruct (walk_sound _ _ x s I0 eq_refl Ew) as ((A1 & _) & Hf & _). auto.
Qed.

(* ---------- (b) INVARIANT: every method, in every state (cached kind, sticky error,
   inside or outside lists, after errors), keeps the list stack well formed, never lets a
   declared size exceed what the enclosing list / the input limit leaves, and never makes
   `remaining` smaller than what the open lists may still read ---------- *)
Lemma Inv0_will_read n s : Inv0 s -> Inv0 (snd (will_read n s)) /\ s_kind (snd (will_read n s)) = None.
Proof.
  intros [W B]. rewrite (will_read_eq n s W).
  destruct (room_b_spec n (s_stack s)) as [Hr|Hr]; [|split; [split; assumption|reflexivity]].
  pose proof (future_adv n (s_stack s) W Hr) as F.
  destruct (s_lim s && (s_rem s <? n)) eqn:El; cbn [snd].
  - split; [|reflexivity]. split; cbn [s_stack s_lim s_rem]; [now apply stack_wf_adv|].
    intros L. specialize (B L). destruct (s_stack s) as [|[p z] r]; cbn [adv] in *; lia.
  - split; [|reflexivity]. unfold counted. split; cbn [s_stack s_lim s_rem]; [now apply stack_wf_adv|].
    intros L. specialize (B L). rewrite L in *. cbn [andb] in El.
    destruct (s_stack s) as [|[p z] r]; cbn [adv] in *; [cbn; lia|]. cbn [future] in *. lia.
Qed.

Definition keeps {A} (f : stream -> A * stream) : Prop :=
  forall s, Inv0 s -> Inv0 (snd (f s)) /\ s_kind (snd (f s)) = None.

Lemma keeps_read_byte : keeps read_byte.
Proof.
  intros s I. unfold read_byte. destruct (Inv0_will_read 1 s I) as [I1 K1].
  destruct (will_read 1 s) as [[e|] s1]; cbn [snd] in *; [auto|].
  destruct (s_in s1); cbn [snd]; auto.
Qed.
Lemma keeps_read_full n : keeps (read_full n).
Proof.
  intros s I. unfold read_full. destruct (Inv0_will_read n s I) as [I1 K1].
  destruct (will_read n s) as [[e|] s1]; cbn [snd] in *; [auto|].
  destruct (takeN n (s_in s1)) as [[a r]|]; cbn [snd]; auto.
Qed.
Lemma keeps_read_uint n : 1 <= n -> keeps (read_uint n).
Proof.
  intros H1 s I. unfold read_uint. destruct (N.eqb_spec n 0); [lia|].
  destruct (n =? 1).
  - pose proof (keeps_read_byte s I) as H. destruct (read_byte s) as [[b|e] s1]; exact H.
  - pose proof (keeps_read_full n s I) as H. destruct (read_full n s) as [[b|e] s1]; [|exact H].
    destruct (no_lead0 b); exact H.
Qed.
Lemma Inv0_read_kind s : Inv0 s -> Inv0 (snd (read_kind s)).
Proof.
  intros I. unfold read_kind. pose proof (keeps_read_byte s I) as [H K].
  destruct (read_byte s) as [[b|e] s1]; cbn [snd] in *; [|exact H].
  assert (H0 : Inv0 (set_bv x00 s1)) by exact H.
  destruct (b2n b <? 128); [exact H|]. destruct (N.ltb_spec (b2n b) 184); [exact H|].
  destruct (b2n b <? 192).
  { pose proof (keeps_read_uint (b2n b - 183) ltac:(lia) _ H0) as [Hu _].
    destruct (read_uint _ _) as [[m|e] s2]; exact Hu. }
  destruct (N.ltb_spec (b2n b) 248); [exact H|].
  pose proof (keeps_read_uint (b2n b - 247) ltac:(lia) _ H0) as [Hu _].
  destruct (read_uint _ _) as [[m|e] s2]; exact Hu.
Qed.

Lemma Inv_st_kind s : Inv s -> Inv (snd (st_kind s)).
Proof.
  intros [I C]. destruct (s_kind s) as [k|] eqn:Hk.
  - rewrite (st_kind_cached s k Hk). split; assumption.
  - destruct (st_kind s) as [[[k n]|e|] s1] eqn:Ek; cbn [snd].
    + eapply Inv_after_kind; eauto.
    + (* an error: the cached error is sticky, or EOL with nothing cached *)
      revert Ek. unfold st_kind. rewrite Hk.
      destruct (match s_stack (set_kerr None s) with (pos, sz) :: _ => pos =? sz | [] => false end).
      { intros E. injection E as _ <-. split; [exact I|]. unfold cache_ok. cbn [set_kerr s_kind]. now rewrite Hk. }
      pose proof (Inv0_read_kind (set_kerr None s) I) as I1.
      destruct (read_kind (set_kerr None s)) as [[[k1 n1] e1] s0]. cbn [snd] in I1.
      set (s2 := set_kerr e1 (set_size n1 (set_kind (Some k1) s0))).
      assert (Hgen : forall s3, s_stack s3 = s_stack s0 -> s_lim s3 = s_lim s0 -> s_rem s3 = s_rem s0 ->
                s_kind s3 = Some k1 -> kind_result k1 s3 = SErr e -> Inv s3).
      { intros s3 E1 E2 E3 E4 E5. split; [unfold Inv0; rewrite E1, E2, E3; exact I1|].
        unfold cache_ok. rewrite E4. unfold kind_result in E5. destruct (s_kerr s3); [trivial|discriminate]. }
      destruct e1 as [e1|].
      * intros E; apply (f_equal fst) in E as E1; apply (f_equal snd) in E; cbn [fst snd] in E, E1; subst s1; apply Hgen; auto.
      * destruct (s_stack s2) as [|[pos sz] rest].
        -- destruct (s_lim s2 && (s_rem s2 <? n1)); intros E; apply (f_equal fst) in E as E1; apply (f_equal snd) in E; cbn [fst snd] in E, E1; subst s1; apply Hgen; auto.
        -- destruct (sub64 sz pos <? n1); intros E; apply (f_equal fst) in E as E1; apply (f_equal snd) in E; cbn [fst snd] in E, E1; subst s1; apply Hgen; auto.
    + (* Kind never panics *)
      exfalso. revert Ek. unfold st_kind. rewrite Hk.
      destruct (match s_stack (set_kerr None s) with (pos, sz) :: _ => pos =? sz | [] => false end); [discriminate|].
      destruct (read_kind (set_kerr None s)) as [[[k1 n1] e1] s0].
      unfold kind_result. destruct e1; [cbn [s_kerr set_kerr]; discriminate|].
      set (s2 := set_kerr None (set_size n1 (set_kind (Some k1) s0))).
      destruct (s_stack s2) as [|[pos sz] rest].
      * destruct (s_lim s2 && (s_rem s2 <? n1)); cbn [s_kerr set_kerr]; discriminate.
      * destruct (sub64 sz pos <? n1); cbn [s_kerr set_kerr]; discriminate.
Qed.

Lemma Inv_fresh s : Inv0 s -> s_kind s = None -> Inv s.
Proof. intros I K. split; [exact I|]. unfold cache_ok. now rewrite K. Qed.

Lemma st_kind_result s k n s1 : Inv s -> st_kind s = (SOk (k, n), s1) ->
  Inv s1 /\ s_kind s1 = Some k /\ s_kerr s1 = None /\ s_size s1 = n.
Proof.
  intros I E. pose proof (Inv_st_kind s I) as I1. rewrite E in I1. cbn [snd] in I1. split; [exact I1|].
  destruct (s_kind s) as [k0|] eqn:Hk.
  - rewrite (st_kind_cached s k0 Hk) in E. unfold kind_result in E.
    destruct (s_kerr s) eqn:Ke; [discriminate|]. injection E as -> <- <-. auto.
  - destruct (st_kind_ok s k n s1 (proj1 I) Hk E) as (_ & K & Z & Ke & _). auto.
Qed.

Lemma Inv_set_kind_None s : Inv s -> Inv (set_kind None s).
Proof. intros [I _]. apply Inv_fresh; [exact I|reflexivity]. Qed.

Lemma Inv_st_list s : Inv s -> Inv (snd (st_list s)).
Proof.
  intros I. unfold st_list. pose proof (Inv_st_kind s I) as I1.
  destruct (st_kind s) as [[[k n]|e|] s1] eqn:Ek; cbn [snd] in *; try exact I1.
  destruct (st_kind_result s k n s1 I Ek) as (_ & K & Ke & Z).
  destruct k; cbn [snd]; try exact I1.
  destruct I1 as [I0 C]. unfold cache_ok in C. rewrite K, Ke, Z in C. destruct C as [Hn Hw].
  apply Inv_fresh; [|reflexivity]. apply (Inv0_push n s1 I0 Hn Hw).
Qed.

Lemma Inv_st_list_end s : Inv s -> Inv (snd (st_list_end s)).
Proof.
  intros I. unfold st_list_end. destruct (s_stack s) as [|[p z] rest] eqn:Es; [exact I|].
  destruct (N.eqb_spec p z) as [->|]; cbn [negb snd]; [|exact I].
  apply Inv_fresh; [|reflexivity]. destruct I as [[W B] _]. rewrite Es in W, B.
  cbn [stack_wf] in W. destruct W as (W1 & W2 & W3).
  split; cbn [s_stack s_lim s_rem set_size set_kind set_stack].
  - destruct rest as [|[p2 z2] r]; [exact I|]. cbn [stack_wf] in *. rewrite add64_small by lia.
    repeat split; try lia. apply W3.
  - intros L. specialize (B L). cbn [future] in B.
    destruct rest as [|[p2 z2] r]; [cbn; lia|]. cbn [stack_wf future] in *. rewrite add64_small by lia. lia.
Qed.

Lemma Inv_read_chunks f : forall p rd sz s acc, Inv s -> Inv (snd (read_chunks f p rd sz s acc)).
Proof.
  induction f as [|f IH]; intros p rd sz s acc I; [exact I|]. rewrite read_chunks_S.
  destruct (rd <? sz); [|exact I].
  destruct (keeps_read_full (chunk p rd sz) s (proj1 I)) as [H K].
  destruct (read_full _ s) as [[b0|e0] s1]; cbn [snd] in *.
  - apply IH. now apply Inv_fresh.
  - now apply Inv_fresh.
Qed.

Lemma Inv_read_content p sz s : Inv s -> Inv (snd (read_content p sz s)).
Proof.
  intros I. unfold read_content. destruct (s_lim s || (sz <=? max_unchecked_alloc)).
  - cbv zeta. destruct (max_alloc <? _); [exact I|]. destruct (_ <? p); [exact I|].
    destruct (keeps_read_full (add64 p sz - p) s (proj1 I)) as [H K].
    destruct (read_full _ s) as [[b0|e0] s1]; cbn [snd] in *; now apply Inv_fresh.
  - pose proof (Inv_read_chunks (S (length (s_in s))) p 0 sz s [] I) as H.
    destruct (read_chunks _ p 0 sz s []) as [[b0|e0] s1]; exact H.
Qed.

Lemma Inv_st_bytes s : Inv s -> Inv (snd (st_bytes s)).
Proof.
  intros I. unfold st_bytes. pose proof (Inv_st_kind s I) as I1.
  destruct (st_kind s) as [[[k n]|e|] s1] eqn:Ek; cbn [snd] in *; try exact I1.
  destruct k; cbn [snd]; try exact I1.
  - now apply Inv_set_kind_None.
  - pose proof (Inv_read_content 0 n s1 I1) as H.
    destruct (read_content 0 n s1) as [[b|e|] s2]; cbn [snd] in *; try exact H.
    destruct ((n =? 1) && is_single_low b); exact H.
Qed.

Lemma Inv_st_raw s : Inv s -> Inv (snd (st_raw s)).
Proof.
  intros I. unfold st_raw. pose proof (Inv_st_kind s I) as I1.
  destruct (st_kind s) as [[[k n]|e|] s1] eqn:Ek; cbn [snd] in *; try exact I1.
  pose proof (Inv_read_content (headsize n) n s1 I1) as H.
  destruct k; [now apply Inv_set_kind_None| |];
    destruct (read_content (headsize n) n s1) as [[b|e|] s2]; exact H.
Qed.

Lemma Inv_st_uint bits s : Inv s -> Inv (snd (st_uint bits s)).
Proof.
  intros I. unfold st_uint. pose proof (Inv_st_kind s I) as I1.
  destruct (st_kind s) as [[[k n]|e|] s1] eqn:Ek; cbn [snd] in *; try exact I1.
  destruct k; cbn [snd]; try exact I1.
  - destruct (b2n (s_bv s1) =? 0); cbn [snd]; [exact I1|now apply Inv_set_kind_None].
  - destruct (bits / 8 <? n); [exact I1|]. destruct (8 <? n mod 256); [exact I1|].
    assert (H : Inv (snd (read_uint (n mod 256) s1))).
    { destruct (N.eq_dec (n mod 256) 0) as [E0|E0].
      - rewrite E0. cbn [read_uint N.eqb snd]. now apply Inv_set_kind_None.
      - destruct (keeps_read_uint (n mod 256) ltac:(lia) s1 (proj1 I1)). now apply Inv_fresh. }
    destruct (read_uint (n mod 256) s1) as [[v|e] s2]; cbn [snd] in *.
    + destruct ((0 <? n) && (v <? 128)); exact H.
    + destruct e; exact H.
Qed.

Lemma Inv_st_bool s : Inv s -> Inv (snd (st_bool s)).
Proof.
  intros I. unfold st_bool. pose proof (Inv_st_uint 8 s I) as H.
  destruct (st_uint 8 s) as [[v|e|] s1]; cbn [snd] in *; try exact H.
  destruct (v =? 0); [exact H|]. destruct (v =? 1); exact H.
Qed.

(* every operation of the interface, in every reachable or unreachable state *)
Theorem stream_invariant o s : Inv s -> Inv (snd (st_op o s)).
Proof.
  intros I. destruct o; cbn [st_op].
  - pose proof (Inv_st_kind s I) as H. destruct (st_kind s) as [[a|e|] s1]; exact H.
  - pose proof (Inv_st_list s I) as H. destruct (st_list s) as [[a|e|] s1]; exact H.
  - pose proof (Inv_st_list_end s I) as H. destruct (st_list_end s) as [[a|e|] s1]; exact H.
  - pose proof (Inv_st_bytes s I) as H. destruct (st_bytes s) as [[a|e|] s1]; exact H.
  - pose proof (Inv_st_raw s I) as H. destruct (st_raw s) as [[a|e|] s1]; exact H.
  - pose proof (Inv_st_uint bits s I) as H. destruct (st_uint bits s) as [[a|e|] s1]; exact H.
  - pose proof (Inv_st_bool s I) as H. destruct (st_bool s) as [[a|e|] s1]; exact H.
Qed.

Lemma new_stream_Inv b lim br : Inv (new_stream b lim br).
Proof.
  unfold new_stream. destruct (0 <? lim); [|destruct br]; (apply Inv_fresh; [split; cbn; [trivial|lia]|reflexivity]).
Qed.

(* the "bounded" half, as a statement about what Kind() hands out: in every state that
   satisfies the invariant, a size returned without error fits the rest of the innermost
   open list, or (at top level of a limited stream) the remaining input limit, and is below
   2^64; Bytes()/Raw() allocate exactly that size (+ header) *)
Theorem stream_kind_bounded s k n s1 : Inv s -> st_kind s = (SOk (k, n), s1) ->
  n < two64 /\ within n s1 /\ Inv s1.
Proof.
  intros I E. destruct (st_kind_result s k n s1 I E) as (I1 & K & Ke & Z).
  destruct I1 as [I0 C]. pose proof C as C'. unfold cache_ok in C. rewrite K, Ke, Z in C.
  destruct C as [Hn Hw]. exact (conj Hn (conj Hw (conj I0 C'))).
Qed.

(* ---------- (c) Raw and Uint against the specification ---------- *)
(* Raw() on a fresh header returns exactly the bytes it consumed: header ++ content *)
Lemma headsize_le n : n < two64 -> headsize n <= 9.
Proof.
  intros Hn. unfold headsize. destruct (N.ltb_spec n 56); [lia|]. pose proof (be_len_bounds n ltac:(lia) Hn). lia.
Qed.

Theorem stream_raw_exact s raw s' : Inv0 s -> s_kind s = None -> st_raw s = (SOk raw, s') ->
  reads s raw s' /\ s_kind s' = None.
Proof.
  intros I Hk. unfold st_raw.
  destruct (st_kind s) as [[[k n]|e|] s1] eqn:Ek; try discriminate.
  destruct (st_kind_ok s k n s1 I Hk Ek) as (R & K & Z & Ke & Hn & Hb & Wi).
  assert (I1 : Inv0 s1) by (eapply reads_Inv0; eauto).
  assert (G : forall off, hdr_of k n (s_bv s1) = enc_hdr off n ->
    match read_content (headsize n) n s1 with
    | (SErr e, s) => (SErr e, s)
    | (SPanic, s) => (SPanic, s)
    | (SOk b, s) => (SOk (enc_hdr off n ++ b), s)
    end = (SOk raw, s') -> reads s raw s' /\ s_kind s' = None).
  { intros off Hh. destruct (read_content (headsize n) n s1) as [[b|e|] s2] eqn:Ef; try discriminate.
    intros E. injection E as <- <-.
    apply read_content_ok in Ef as (R2 & L & K2); [|apply I1|now apply headsize_le|exact Hn].
    rewrite <- Hh. split; [eapply reads_trans; eauto|exact K2]. }
  destruct k.
  - intros E. injection E as <- <-. split; [|reflexivity]. cbn [hdr_of] in R.
    eapply reads_set; [..|exact R]; reflexivity.
  - apply G. reflexivity.
  - apply G. reflexivity.
Qed.

Definition item_parts (x : item) : kind * bytes :=
  match x with Str c => (KStr, c) | Lst l => (KLst, encode_list l) end.
Lemma encode_parts x : encode x = enc (fst (item_parts x)) (snd (item_parts x)).
Proof. destruct x; reflexivity. Qed.
Lemma fits_parts x : fits x = true -> lenN (snd (item_parts x)) < two64.
Proof.
  destruct x as [c|l]; cbn [item_parts snd fits].
  - lia.
  - intros H. change (fits (Lst l) = true) in H. rewrite fits_Lst in H. apply andb_prop in H as [_ H]. lia.
Qed.

(* ... and when the walker accepts the value at the same position, Raw() returned its
   canonical encoding *)
Theorem stream_raw_is_encode f s raw s' x s'' : Inv0 s -> s_kind s = None ->
  st_raw s = (SOk raw, s') -> walk f s = Some (SOk x, s'') -> raw = encode x.
Proof.
  intros I Hk Er Ew.
  destruct (walk_sound f s x s'' I Hk Ew) as ((B1 & _) & Hf & _).
  pose proof (fits_parts x Hf) as Hlen. rewrite encode_parts in *.
  destruct (item_parts x) as [kx cx]. cbn [fst snd] in *.
  pose proof (split_enc kx cx (s_in s'') Hlen) as Hs. rewrite <- B1 in Hs.
  destruct (stream_raw_exact s raw s' I Hk Er) as ((C1 & _) & _).
  revert Er. unfold st_raw.
  destruct (st_kind s) as [[[k n]|e|] s1] eqn:Ek; try discriminate.
  destruct (st_kind_ok s k n s1 I Hk Ek) as (R & K & Z & Ke & Hn & Hb & Wi).
  assert (I1 : Inv0 s1) by (eapply reads_Inv0; eauto).
  assert (G : forall off kk, ((off = 128 /\ kk = KStr) \/ (off = 192 /\ kk = KLst)) ->
    match read_content (headsize n) n s1 with
    | (SErr e, s) => (SErr e, s)
    | (SPanic, s) => (SPanic, s)
    | (SOk b, s) => (SOk (enc_hdr off n ++ b), s)
    end = (SOk raw, s') -> raw = enc kx cx).
  { intros off kk Hoff.
    destruct (read_content (headsize n) n s1) as [[b|e|] s2] eqn:Ef; try discriminate.
    intros E. injection E as <- <-.
    apply read_content_ok in Ef as (_ & L & _); [|apply I1|now apply headsize_le|exact Hn].
    destruct Hoff as [[-> ->]|[-> ->]].
    - destruct (is_single_low b) eqn:Esl.
      + exfalso. apply is_single_low_len in Esl as (c & -> & Hc). cbn in L.
        assert (Ein : s_in s = x81 :: [c] ++ s_in s2) by (rewrite C1, <- L; reflexivity).
        rewrite Ein in Hs. rewrite split_short_str in Hs by (change (b2n x81) with 129; lia).
        change (b2n x81 - 128) with (lenN [c]) in Hs. rewrite takeN_app in Hs.
        cbn [is_single_low] in Hs. destruct (N.ltb_spec (b2n c) 128); [discriminate|lia].
      + assert (E : enc_hdr 128 n ++ b = enc KStr b) by (unfold enc; now rewrite Esl, L).
        rewrite E in *. rewrite C1, split_enc in Hs by lia. now injection Hs as <- <- _.
    - assert (E : enc_hdr 192 n ++ b = enc KLst b) by (unfold enc; now rewrite L).
      rewrite E in *. rewrite C1, split_enc in Hs by lia. now injection Hs as <- <- _. }
  destruct k.
  - intros E. injection E as <- <-. destruct (Hb eq_refl) as [_ Hlow].
    cbn [app] in C1. rewrite C1, split_byte in Hs by exact Hlow.
    injection Hs as <- <- _. unfold enc, is_single_low. destruct (N.ltb_spec (b2n (s_bv s1)) 128); [reflexivity|lia].
  - apply (G 128 KStr); auto.
  - apply (G 192 KLst); auto.
Qed.

(* Uint with maxbits in {8,...,64}: a returned number is item_to_uint of the next value, which
   is a canonically encoded string, and exactly that encoding has been consumed *)
Theorem stream_uint_sound bits s v s' : Inv0 s -> s_kind s = None -> 8 <= bits <= 64 ->
  st_uint bits s = (SOk v, s') ->
  exists x, reads s (encode x) s' /\ item_to_uint bits x = Some v /\ fits x = true /\ s_kind s' = None.
Proof.
  intros I Hk Hbits. unfold st_uint.
  destruct (st_kind s) as [[[k n]|e|] s1] eqn:Ek; try discriminate.
  destruct (st_kind_ok s k n s1 I Hk Ek) as (R & K & Z & Ke & Hn & Hb & Wi).
  assert (I1 : Inv0 s1) by (eapply reads_Inv0; eauto).
  destruct k; [| |discriminate].
  - destruct (N.eqb_spec (b2n (s_bv s1)) 0) as [|Hnz]; [discriminate|].
    intros E. injection E as <- <-. destruct (Hb eq_refl) as [_ Hlow].
    exists (Str [s_bv s1]). rewrite encode_Str_byte by exact Hlow. cbn [hdr_of] in R.
    split; [eapply reads_set; [..|exact R]; reflexivity|]. split; [|split; reflexivity].
    cbn [item_to_uint no_lead0]. rewrite N_of_be_single.
    destruct (N.eqb_spec (b2n (s_bv s1)) 0); [contradiction|]. cbn [negb andb].
    change (lenN [s_bv s1]) with 1. destruct (N.eqb_spec bits 0); [lia|]. cbn [orb].
    destruct (N.leb_spec (1 * 8) bits); [reflexivity|lia].
  - destruct (N.ltb_spec (bits / 8) n) as [|Hle]; [discriminate|].
    assert (Hb8 : bits / 8 <= 8) by (apply N.div_le_upper_bound; lia).
    rewrite N.mod_small by lia. destruct (N.ltb_spec 8 n); [lia|].
    assert (Hn8 : n * 8 <= bits).
    { pose proof (N.mul_div_le bits 8 ltac:(lia)). nia. }
    cbn [hdr_of] in R.
    destruct (N.eq_dec n 0) as [->|Hn0].
    + cbn [read_uint N.eqb N.ltb N.compare andb]. intros E. injection E as <- <-.
      exists (Str []). split; [|split; [|split; reflexivity]].
      * rewrite encode_Str. unfold enc. cbn [is_single_low lenN length N.of_nat]. rewrite app_nil_r.
        eapply reads_set; [..|exact R]; reflexivity.
      * cbn [item_to_uint no_lead0 andb lenN length N.of_nat]. destruct (N.eqb_spec bits 0); [lia|]. cbn [orb].
        destruct (N.leb_spec (0 * 8) bits); [reflexivity|lia].
    + destruct (read_uint n s1) as [[v0|e] s2] eqn:Eu; [|destruct e; discriminate].
      destruct (N.ltb_spec 0 n); [|lia]. cbn [andb].
      destruct (N.ltb_spec v0 128) as [|H128]; [discriminate|].
      intros E. injection E as <- <-.
      apply read_uint_ok in Eu as (bs & R2 & L & Hv & Hz & K2 & _); [|apply I1|lia].
      assert (Hnz : no_lead0 bs = true /\ is_single_low bs = false).
      { destruct (N.le_gt_cases 2 (lenN bs)) as [G|G].
        - split; [apply Hz; lia|]. destruct bs as [|a [|c t]]; try reflexivity. cbn in G. lia.
        - destruct bs as [|a [|c t]]; try (cbn in L, G; lia). rewrite N_of_be_single in Hv.
          cbn [no_lead0 is_single_low]. split.
          + destruct (N.eqb_spec (b2n a) 0); [lia|reflexivity].
          + destruct (N.ltb_spec (b2n a) 128); [lia|reflexivity]. }
      destruct Hnz as [Hnz Hsl].
      exists (Str bs). rewrite encode_Str. unfold enc. rewrite Hsl, L.
      split; [eapply reads_trans; eauto|]. split; [|split; [cbn [fits]; unfold two64; lia|exact K2]].
      cbn [item_to_uint]. rewrite Hnz, L. cbn [andb]. destruct (N.eqb_spec bits 0); [lia|]. cbn [orb].
      destruct (N.leb_spec (n * 8) bits); [now rewrite Hv|lia].
Qed.

(* ---------- the fuel of the chunk loop is never exhausted ---------- *)
Lemma will_read_in n s : s_in (snd (will_read n s)) = s_in s.
Proof.
  unfold will_read. destruct (s_stack (set_kind None s)) as [|[p z] r].
  - destruct (s_lim (set_kind None s)); [destruct (_ <? _)|]; reflexivity.
  - destruct (sub64 z p <? n); [reflexivity|].
    destruct (s_lim _); [destruct (_ <? _)|]; reflexivity.
Qed.
Lemma read_full_len n s b s1 : read_full n s = (ROk b, s1) ->
  length (s_in s) = (length b + length (s_in s1))%nat /\ lenN b = n.
Proof.
  unfold read_full. pose proof (will_read_in n s) as Hin.
  destruct (will_read n s) as [[e|] s0]; [discriminate|]. cbn [snd] in Hin.
  destruct (takeN n (s_in s0)) as [[a r]|] eqn:Et; [|discriminate].
  intros E. injection E as <- <-. apply takeN_spec in Et as [Ea La]. cbn [set_in s_in].
  rewrite <- Hin, Ea, app_length. auto.
Qed.
(* any two fuels above the unread input length give the same result: the O branch of
   read_chunks is not reached from read_content *)
Lemma read_chunks_fuel f1 : forall f2 p rd sz s acc,
  (length (s_in s) < f1)%nat -> (length (s_in s) < f2)%nat ->
  read_chunks f1 p rd sz s acc = read_chunks f2 p rd sz s acc.
Proof.
  induction f1 as [|f1 IH]; intros f2 p rd sz s acc H1 H2; [lia|]. destruct f2 as [|f2]; [lia|].
  rewrite !read_chunks_S. destruct (N.ltb_spec rd sz) as [Hlt|]; [|reflexivity].
  destruct (read_full (chunk p rd sz) s) as [[b|e] s1] eqn:Ef; [|reflexivity].
  apply read_full_len in Ef as [Hlen Lb]. pose proof (chunk_bounds p rd sz Hlt). unfold lenN in Lb.
  apply IH; lia.
Qed.

(* ---------- without an input limit no operation panics (fix a810c36) ---------- *)
Lemma st_kind_no_panic s : fst (st_kind s) <> SPanic.
Proof.
  unfold st_kind. destruct (s_kind s) as [k|].
  - cbn [fst]. unfold kind_result. destruct (s_kerr s); discriminate.
  - destruct (match s_stack (set_kerr None s) with (pos, sz) :: _ => pos =? sz | [] => false end); [discriminate|].
    destruct (read_kind (set_kerr None s)) as [[[k1 n1] e1] s0].
    unfold kind_result. destruct e1; [cbn [fst s_kerr set_kerr]; discriminate|].
    set (s2 := set_kerr None (set_size n1 (set_kind (Some k1) s0))).
    destruct (s_stack s2) as [|[pos sz] rest].
    + destruct (s_lim s2 && (s_rem s2 <? n1)); cbn [fst s_kerr set_kerr]; discriminate.
    + destruct (sub64 sz pos <? n1); cbn [fst s_kerr set_kerr]; discriminate.
Qed.

Lemma st_kind_lim s k n s1 : Inv s -> st_kind s = (SOk (k, n), s1) -> s_lim s1 = s_lim s.
Proof.
  intros I E. destruct (s_kind s) as [k0|] eqn:Hk.
  - rewrite (st_kind_cached s k0 Hk) in E. now injection E as _ <-.
  - destruct (st_kind_ok s k n s1 (proj1 I) Hk E) as ((_ & _ & _ & A4 & _) & _). exact A4.
Qed.

Theorem stream_unlimited_no_panic o s : Inv s -> s_lim s = false ->
  (forall bits, o = OpUint bits -> bits <= 64) -> fst (st_op o s) <> SPanic.
Proof.
  intros I L Hbits.
  assert (Hu : forall bits, bits <= 64 -> fst (st_uint bits s) <> SPanic).
  { intros bits Hb. unfold st_uint. pose proof (st_kind_no_panic s) as Hk.
    destruct (st_kind s) as [[[k n]|e|] s1]; cbn [fst] in *; try discriminate; [|contradiction].
    destruct k; try discriminate.
    - destruct (b2n (s_bv s1) =? 0); discriminate.
    - destruct (N.ltb_spec (bits / 8) n); [discriminate|].
      assert (bits / 8 <= 8) by (apply N.div_le_upper_bound; lia).
      rewrite N.mod_small by lia. destruct (N.ltb_spec 8 n); [lia|].
      destruct (read_uint n s1) as [[v|e] s2]; [destruct ((0 <? n) && (v <? 128))|destruct e]; discriminate. }
  destruct o; cbn [st_op].
  - pose proof (st_kind_no_panic s) as Hk. destruct (st_kind s) as [[a|e|] s1]; cbn [lift fst] in *; try discriminate; contradiction.
  - unfold st_list. pose proof (st_kind_no_panic s) as Hk.
    destruct (st_kind s) as [[[k n]|e|] s1]; cbn [lift fst] in *; try discriminate; [|contradiction].
    destruct k; discriminate.
  - unfold st_list_end. destruct (s_stack s) as [|[p z] r]; [discriminate|]. destruct (negb (p =? z)); discriminate.
  - unfold st_bytes. pose proof (st_kind_no_panic s) as Hk.
    destruct (st_kind s) as [[[k n]|e|] s1] eqn:Ek; cbn [lift fst] in *; try discriminate; [|contradiction].
    destruct k; try discriminate.
    pose proof (read_content_unlimited_no_panic 0 n s1 ltac:(rewrite (st_kind_lim s _ _ s1 I Ek); exact L) ltac:(lia)) as Hp.
    destruct (read_content 0 n s1) as [[b|e|] s2]; cbn [fst] in *; try discriminate; [|contradiction].
    destruct ((n =? 1) && is_single_low b); discriminate.
  - unfold st_raw. pose proof (st_kind_no_panic s) as Hk.
    destruct (st_kind s) as [[[k n]|e|] s1] eqn:Ek; cbn [lift fst] in *; try discriminate; [|contradiction].
    destruct (st_kind_result s k n s1 I Ek) as ([_ C] & K & Ke & Z). unfold cache_ok in C. rewrite K, Ke, Z in C.
    pose proof (read_content_unlimited_no_panic (headsize n) n s1 ltac:(rewrite (st_kind_lim s _ _ s1 I Ek); exact L)
                  (headsize_le n (proj1 C))) as Hp.
    destruct k; [discriminate| |];
      destruct (read_content (headsize n) n s1) as [[b|e|] s2]; cbn [fst] in *; try discriminate; contradiction.
  - specialize (Hu bits (Hbits bits eq_refl)). destruct (st_uint bits s) as [[a|e|] s1]; cbn [lift fst] in *; try discriminate; contradiction.
  - unfold st_bool. specialize (Hu 8 ltac:(lia)).
    destruct (st_uint 8 s) as [[v|e|] s1]; cbn [lift fst] in *; try discriminate; [|contradiction].
    destruct (v =? 0); [discriminate|]. destruct (v =? 1); discriminate.
Qed.
