(* Rlp/RlpProofs.v — round trip and canonicity of the item-level codec. *)
From AQ Require Import Lib.Bytes Rlp.RlpSpec.
From Coq Require Import ZifyBool ZifyN ZifyNat.
Local Open Scope N_scope.

Lemma two64_eq : two64 = 256 ^ 8. Proof. reflexivity. Qed.

Lemma item_ind' (P : item -> Prop) :
  (forall s, P (Str s)) -> (forall l, Forall P l -> P (Lst l)) -> forall x, P x.
Proof.
  intros HS HL. fix IH 1. intros [s|l]; [apply HS|apply HL].
  induction l as [|y t IHl]; constructor; [apply IH|exact IHl].
Qed.

Lemma encode_Lst l : encode (Lst l) = enc KLst (encode_list l).
Proof.
  reflexivity.
Qed.
Lemma encode_Str s : encode (Str s) = enc KStr s.
Proof. reflexivity. Qed.

Definition fits_list (l : list item) : bool := forallb fits l.
Lemma fits_Lst l : fits (Lst l) = fits_list l && (lenN (encode_list l) <? two64).
Proof.
  reflexivity.
Qed.

Lemma encode_list_cons y t : encode_list (y :: t) = encode y ++ encode_list t.
Proof. reflexivity. Qed.

Lemma is_single_low_len s : is_single_low s = true -> exists c, s = [c] /\ b2n c < 128.
Proof.
  destruct s as [|c [|d s]]; simpl; try discriminate.
  intros H. exists c. split; [reflexivity|lia].
Qed.

Lemma be_len_bounds n : 56 <= n -> n < two64 -> 1 <= lenN (be_of_N n) <= 8.
Proof.
  intros H56 H64. split.
  - destruct (be_of_N_spec n) as (_ & _ & Hnz).
    destruct Hnz as (h & t & E & _); [lia|]. rewrite E, lenN_cons. lia.
  - apply be_of_N_len_le. rewrite <- two64_eq. exact H64.
Qed.

(* ---- split on each header range ---- *)
Lemma split_byte h t : b2n h < 128 -> split (h :: t) = Some (KStr, [h], t).
Proof. intros H. unfold split. destruct (N.ltb_spec (b2n h) 128); [reflexivity|lia]. Qed.

Lemma split_short_str h t : 128 <= b2n h -> b2n h < 184 ->
  split (h :: t) = match takeN (b2n h - 128) t with
                   | None => None
                   | Some (s, rest) => if is_single_low s then None else Some (KStr, s, rest)
                   end.
Proof.
  intros H1 H2. unfold split.
  destruct (N.ltb_spec (b2n h) 128); [lia|]. destruct (N.ltb_spec (b2n h) 184); [reflexivity|lia].
Qed.

Lemma split_long_str h t : 184 <= b2n h -> b2n h < 192 ->
  split (h :: t) = match dec_size (b2n h - 183) t with
                   | None => None
                   | Some (n, t') =>
                     match takeN n t' with None => None | Some (s, rest) => Some (KStr, s, rest) end
                   end.
Proof.
  intros H1 H2. unfold split.
  destruct (N.ltb_spec (b2n h) 128); [lia|]. destruct (N.ltb_spec (b2n h) 184); [lia|].
  destruct (N.ltb_spec (b2n h) 192); [reflexivity|lia].
Qed.

Lemma split_short_list h t : 192 <= b2n h -> b2n h < 248 ->
  split (h :: t) = match takeN (b2n h - 192) t with
                   | None => None
                   | Some (pl, rest) => Some (KLst, pl, rest)
                   end.
Proof.
  intros H1 H2. unfold split.
  destruct (N.ltb_spec (b2n h) 128); [lia|]. destruct (N.ltb_spec (b2n h) 184); [lia|].
  destruct (N.ltb_spec (b2n h) 192); [lia|]. destruct (N.ltb_spec (b2n h) 248); [reflexivity|lia].
Qed.

Lemma split_long_list h t : 248 <= b2n h ->
  split (h :: t) = match dec_size (b2n h - 247) t with
                   | None => None
                   | Some (n, t') =>
                     match takeN n t' with None => None | Some (pl, rest) => Some (KLst, pl, rest) end
                   end.
Proof.
  intros H1. unfold split.
  destruct (N.ltb_spec (b2n h) 128); [lia|]. destruct (N.ltb_spec (b2n h) 184); [lia|].
  destruct (N.ltb_spec (b2n h) 192); [lia|]. destruct (N.ltb_spec (b2n h) 248); [lia|reflexivity].
Qed.

Lemma dec_size_enc n r : 56 <= n -> n < two64 ->
  dec_size (lenN (be_of_N n)) (be_of_N n ++ r) = Some (n, r).
Proof.
  intros H56 H64. unfold dec_size. rewrite takeN_app.
  rewrite be_of_N_no_lead0, N_of_be_of_N. cbn [andb].
  destruct (N.leb_spec 56 n); [reflexivity|lia].
Qed.

Lemma dec_size_spec ll t n t' : dec_size ll t = Some (n, t') ->
  exists sz, t = sz ++ t' /\ lenN sz = ll /\ be_of_N n = sz /\ 56 <= n /\ n < 256 ^ ll.
Proof.
  unfold dec_size. destruct (takeN ll t) as [[sz rest]|] eqn:E; [|discriminate].
  destruct (no_lead0 sz) eqn:Hl; cbn [andb]; [|discriminate].
  destruct (N.leb_spec 56 (N_of_be sz)) as [H56|]; [|discriminate].
  intros Heq. injection Heq as <- <-.
  apply takeN_spec in E as [-> Hlen]. exists sz. repeat split; auto.
  - now apply be_of_N_of_be.
  - rewrite <- Hlen. apply N_of_be_lt.
Qed.

(* ---- (A) split inverts enc ---- *)
Lemma split_enc k c r :
  lenN c < two64 -> split (enc k c ++ r) = Some (k, c, r).
Proof.
  intros H64. destruct k; unfold enc.
  - destruct (is_single_low c) eqn:Es.
    + apply is_single_low_len in Es as (x & -> & Hx). cbn [app]. now apply split_byte.
    + unfold enc_hdr. destruct (N.ltb_spec (lenN c) 56) as [Hs|Hl].
      * cbn [app]. assert (Hb : b2n (n2b (128 + lenN c)) = 128 + lenN c) by (apply b2n_n2b; lia).
        rewrite split_short_str by (rewrite Hb; lia).
        rewrite Hb. replace (128 + lenN c - 128) with (lenN c) by lia.
        rewrite takeN_app. now rewrite Es.
      * destruct (be_len_bounds (lenN c) Hl H64) as [B1 B2].
        cbn [app]. set (be := be_of_N (lenN c)) in *.
        assert (Hb : b2n (n2b (128 + 55 + lenN be)) = 128 + 55 + lenN be) by (apply b2n_n2b; lia).
        rewrite split_long_str by (rewrite Hb; lia).
        rewrite Hb. replace (128 + 55 + lenN be - 183) with (lenN be) by lia.
        rewrite <- app_assoc. subst be. rewrite dec_size_enc by assumption.
        now rewrite takeN_app.
  - unfold enc_hdr. destruct (N.ltb_spec (lenN c) 56) as [Hs|Hl].
    + cbn [app]. assert (Hb : b2n (n2b (192 + lenN c)) = 192 + lenN c) by (apply b2n_n2b; lia).
      rewrite split_short_list by (rewrite Hb; lia).
      rewrite Hb. replace (192 + lenN c - 192) with (lenN c) by lia.
      now rewrite takeN_app.
    + destruct (be_len_bounds (lenN c) Hl H64) as [B1 B2].
      cbn [app]. set (be := be_of_N (lenN c)) in *.
      assert (Hb : b2n (n2b (192 + 55 + lenN be)) = 192 + 55 + lenN be) by (apply b2n_n2b; lia).
      rewrite split_long_list by (rewrite Hb; lia).
      rewrite Hb. replace (192 + 55 + lenN be - 247) with (lenN be) by lia.
      rewrite <- app_assoc. subst be. rewrite dec_size_enc by assumption.
      now rewrite takeN_app.
Qed.

(* ---- (B) whatever split accepts is the canonical encoding ---- *)
Lemma pow256_le8 ll : ll <= 8 -> 256 ^ ll <= two64.
Proof. intros H. rewrite two64_eq. apply N.pow_le_mono_r; lia. Qed.

Lemma split_canon b k c r :
  split b = Some (k, c, r) -> b = enc k c ++ r /\ lenN c < two64.
Proof.
  destruct b as [|h t]; [discriminate|].
  pose proof (b2n_lt h) as Hh.
  destruct (N.lt_ge_cases (b2n h) 128) as [C1|C1].
  { rewrite split_byte by assumption. intros E. injection E as <- <- <-.
    unfold enc, is_single_low. destruct (N.ltb_spec (b2n h) 128); [|lia].
    split; [reflexivity|]. cbv. reflexivity. }
  destruct (N.lt_ge_cases (b2n h) 184) as [C2|C2].
  { rewrite split_short_str by assumption.
    destruct (takeN (b2n h - 128) t) as [[s rest]|] eqn:E; [|discriminate].
    destruct (is_single_low s) eqn:Es; [discriminate|].
    intros Eq. injection Eq as <- <- <-.
    apply takeN_spec in E as [-> Hlen]. unfold enc. rewrite Es. unfold enc_hdr.
    destruct (N.ltb_spec (lenN s) 56); [|lia].
    rewrite Hlen. replace (128 + (b2n h - 128)) with (b2n h) by lia. rewrite n2b_b2n.
    split; [reflexivity|]. unfold two64. lia. }
  destruct (N.lt_ge_cases (b2n h) 192) as [C3|C3].
  { rewrite split_long_str by assumption.
    destruct (dec_size (b2n h - 183) t) as [[n t']|] eqn:E; [|discriminate].
    destruct (takeN n t') as [[s rest]|] eqn:E2; [|discriminate].
    intros Eq. injection Eq as <- <- <-.
    apply dec_size_spec in E as (sz & -> & Hll & Hbe & H56 & Hlt).
    apply takeN_spec in E2 as [-> Hlen]. unfold enc.
    destruct (is_single_low s) eqn:Es.
    { apply is_single_low_len in Es as (x & -> & _). cbn in Hlen. lia. }
    unfold enc_hdr. rewrite Hlen. destruct (N.ltb_spec n 56); [lia|].
    rewrite Hbe, Hll. replace (128 + 55 + (b2n h - 183)) with (b2n h) by lia. rewrite n2b_b2n.
    split; [cbn [app]; now rewrite <- app_assoc|].
    pose proof (pow256_le8 (b2n h - 183)). lia. }
  destruct (N.lt_ge_cases (b2n h) 248) as [C4|C4].
  { rewrite split_short_list by assumption.
    destruct (takeN (b2n h - 192) t) as [[pl rest]|] eqn:E; [|discriminate].
    intros Eq. injection Eq as <- <- <-.
    apply takeN_spec in E as [-> Hlen]. unfold enc, enc_hdr.
    destruct (N.ltb_spec (lenN pl) 56); [|lia].
    rewrite Hlen. replace (192 + (b2n h - 192)) with (b2n h) by lia. rewrite n2b_b2n.
    split; [reflexivity|]. unfold two64. lia. }
  { rewrite split_long_list by assumption.
    destruct (dec_size (b2n h - 247) t) as [[n t']|] eqn:E; [|discriminate].
    destruct (takeN n t') as [[pl rest]|] eqn:E2; [|discriminate].
    intros Eq. injection Eq as <- <- <-.
    apply dec_size_spec in E as (sz & -> & Hll & Hbe & H56 & Hlt).
    apply takeN_spec in E2 as [-> Hlen]. unfold enc, enc_hdr.
    rewrite Hlen. destruct (N.ltb_spec n 56); [lia|].
    rewrite Hbe, Hll. replace (192 + 55 + (b2n h - 247)) with (b2n h) by lia. rewrite n2b_b2n.
    split; [cbn [app]; now rewrite <- app_assoc|].
    pose proof (pow256_le8 (b2n h - 247)). lia. }
Qed.

Lemma enc_nonempty k c : exists h t, enc k c = h :: t.
Proof.
  destruct k; unfold enc, enc_hdr.
  - destruct (is_single_low c) eqn:E.
    + apply is_single_low_len in E as (x & -> & _). eauto.
    + destruct (lenN c <? 56); cbn [app]; eauto.
  - destruct (lenN c <? 56); cbn [app]; eauto.
Qed.
Lemma encode_nonempty x : exists h t, encode x = h :: t.
Proof. destruct x; [rewrite encode_Str|rewrite encode_Lst]; apply enc_nonempty. Qed.
Lemma encode_length_pos x : (1 <= length (encode x))%nat.
Proof. destruct (encode_nonempty x) as (h & t & ->). simpl. lia. Qed.

Lemma enc_KLst_length c : (1 + length c <= length (enc KLst c))%nat.
Proof. unfold enc, enc_hdr. destruct (lenN c <? 56); rewrite app_length; simpl; lia. Qed.

(* ---- round trip ---- *)
Lemma decode_f_encode : forall x, fits x = true ->
  forall f r, (2 * length (encode x) <= f)%nat -> decode_f f (encode x ++ r) = Some (x, r).
Proof.
  induction x as [s|l IH] using item_ind'; intros Hfit f r Hf.
  - pose proof (encode_length_pos (Str s)). destruct f as [|f]; [lia|].
    cbn [decode_f]. rewrite encode_Str, split_enc; [reflexivity|].
    cbn [fits] in Hfit. lia.
  - rewrite fits_Lst in Hfit. apply andb_prop in Hfit as [Hfl Hlen].
    rewrite encode_Lst in *. pose proof (enc_KLst_length (encode_list l)) as Hlen2.
    destruct f as [|f]; [lia|]. cbn [decode_f].
    rewrite split_enc by lia.
    assert (Hlist : forall f', (2 * length (encode_list l) + 1 <= f')%nat ->
                               decode_list_f f' (encode_list l) = Some l).
    { clear Hf Hlen Hlen2 f r. unfold fits_list in Hfl.
      induction IH as [|y t Hy Ht IHt]; intros f' Hf'.
      - destruct f' as [|f']; [lia|]. reflexivity.
      - cbn [forallb] in Hfl. apply andb_prop in Hfl as [Hfy Hft].
        rewrite encode_list_cons in *. rewrite app_length in Hf'.
        pose proof (encode_length_pos y).
        destruct f' as [|f']; [lia|]. cbn [decode_list_f].
        remember (encode y ++ encode_list t) as bb eqn:Ebb.
        destruct bb as [|h0 t0].
        { exfalso. apply (f_equal (@length _)) in Ebb. rewrite app_length in Ebb. simpl in Ebb. lia. }
        rewrite Ebb. rewrite (Hy Hfy) by lia. rewrite (IHt Hft) by lia. reflexivity. }
    rewrite Hlist by lia. reflexivity.
Qed.

Theorem decode_encode x r : fits x = true -> decode (encode x ++ r) = Some (x, r).
Proof.
  intros H. unfold decode, fuel_for. apply decode_f_encode; [exact H|].
  rewrite app_length. lia.
Qed.

Theorem decode_exact_encode x : fits x = true -> decode_exact (encode x) = Some x.
Proof.
  intros H. unfold decode_exact. rewrite <- (app_nil_r (encode x)) at 1.
  now rewrite decode_encode.
Qed.

(* ---- canonicity ---- *)
Lemma decode_f_canon : forall f,
  (forall b x r, decode_f f b = Some (x, r) -> b = encode x ++ r /\ fits x = true) /\
  (forall b l, decode_list_f f b = Some l -> b = encode_list l /\ fits_list l = true).
Proof.
  induction f as [|f [IHd IHl]]; split.
  - discriminate.
  - discriminate.
  - intros b x r. cbn [decode_f].
    destruct (split b) as [[[k c] rest]|] eqn:Es; [|discriminate].
    apply split_canon in Es as [-> Hlen]. destruct k.
    + intros E. injection E as <- <-. rewrite encode_Str. split; [reflexivity|].
      cbn [fits]. lia.
    + destruct (decode_list_f f c) as [l|] eqn:El; [|discriminate].
      intros E. injection E as <- <-. apply IHl in El as [-> Hfl].
      rewrite encode_Lst, fits_Lst, Hfl. split; [reflexivity|]. cbn [andb]. lia.
  - intros b l. cbn [decode_list_f]. destruct b as [|h t].
    + intros E. injection E as <-. split; reflexivity.
    + destruct (decode_f f (h :: t)) as [[x rest]|] eqn:Ed; [|discriminate].
      destruct (decode_list_f f rest) as [l'|] eqn:El; [|discriminate].
      intros E. injection E as <-.
      apply IHd in Ed as [-> Hfx]. apply IHl in El as [-> Hfl].
      split; [reflexivity|]. unfold fits_list in *. cbn [forallb]. now rewrite Hfx, Hfl.
Qed.

Theorem decode_canonical b x r : decode b = Some (x, r) -> b = encode x ++ r /\ fits x = true.
Proof. unfold decode. apply decode_f_canon. Qed.

Theorem decode_exact_canonical b x : decode_exact b = Some x -> b = encode x.
Proof.
  unfold decode_exact. destruct (decode b) as [[y [|h t]]|] eqn:E; try discriminate.
  intros Eq. injection Eq as <-. apply decode_canonical in E as [-> _]. now rewrite app_nil_r.
Qed.

(* one accepted encoding per value *)
Corollary decode_injective b1 b2 x :
  decode_exact b1 = Some x -> decode_exact b2 = Some x -> b1 = b2.
Proof. intros H1 H2. apply decode_exact_canonical in H1, H2. congruence. Qed.

(* integers: minimal big-endian, round trip and canonical *)
Theorem uint_roundtrip n : n < two64 ->
  option_map (fun x => item_to_uint 64 x) (decode_exact (encode_uint n)) = Some (Some n).
Proof.
  intros Hn. unfold encode_uint.
  assert (Hlen : lenN (be_of_N n) <= 8) by (apply be_of_N_len_le; rewrite <- two64_eq; exact Hn).
  rewrite decode_exact_encode.
  - cbn [option_map item_to_uint]. rewrite be_of_N_no_lead0, N_of_be_of_N.
    destruct (N.leb_spec (lenN (be_of_N n) * 8) 64); [reflexivity|lia].
  - cbn [fits]. unfold two64. lia.
Qed.

Theorem uint_canonical bits b x n :
  decode_exact b = Some x -> item_to_uint bits x = Some n -> b = encode_uint n.
Proof.
  intros Hd Hu. apply decode_exact_canonical in Hd as ->.
  destruct x as [s|l]; [|discriminate]. cbn [item_to_uint] in Hu.
  destruct (no_lead0 s) eqn:E; cbn [andb] in Hu; [|discriminate].
  destruct ((bits =? 0) || (lenN s * 8 <=? bits)); [|discriminate].
  injection Hu as <-. unfold encode_uint. now rewrite be_of_N_of_be.
Qed.

(* ---- boundedness: every buffer the decoder hands out is a sub-string of the input.
   In the Go Stream a buffer is allocated (make([]byte, size)) only after Kind()
   has checked size <= remaining input; in the model that is takeN succeeding. *)
Fixpoint item_bytes (x : item) : N :=
  match x with
  | Str s => lenN s
  | Lst l => (fix go (l : list item) : N := match l with [] => 0 | y :: t => item_bytes y + go t end) l
  end.

Lemma enc_len_ge k c : lenN c <= lenN (enc k c).
Proof.
  destruct k; unfold enc, enc_hdr.
  - destruct (is_single_low c); [lia|]. destruct (lenN c <? 56); rewrite lenN_app; lia.
  - destruct (lenN c <? 56); rewrite lenN_app; lia.
Qed.

Theorem split_bounded b k c r : split b = Some (k, c, r) -> lenN c + lenN r <= lenN b.
Proof.
  intros H. apply split_canon in H as [-> _]. rewrite lenN_app. pose proof (enc_len_ge k c). lia.
Qed.

Lemma item_bytes_le_encode x : item_bytes x <= lenN (encode x).
Proof.
  induction x as [s|l IH] using item_ind'.
  - rewrite encode_Str. cbn [item_bytes]. apply enc_len_ge.
  - rewrite encode_Lst.
    assert (Hs : item_bytes (Lst l) <= lenN (encode_list l));
      [|pose proof (enc_len_ge KLst (encode_list l)); lia].
    induction IH as [|y t Hy _ IHt]; [cbn; lia|].
    change (item_bytes (Lst (y :: t))) with (item_bytes y + item_bytes (Lst t)).
    rewrite encode_list_cons, lenN_app. lia.
Qed.

(* the total size of all strings in a decoded value never exceeds the input length *)
Theorem decode_bounded b x r : decode b = Some (x, r) -> item_bytes x + lenN r <= lenN b.
Proof.
  intros H. apply decode_canonical in H as [-> _]. rewrite lenN_app.
  pose proof (item_bytes_le_encode x). lia.
Qed.
