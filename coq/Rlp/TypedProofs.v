(* Rlp/TypedProofs.v — typed round trip and canonicity. *)
From AQ Require Import Lib.Bytes Rlp.RlpSpec Rlp.RlpProofs Rlp.Typed.
From Coq Require Import ZifyBool ZifyN ZifyNat.
Local Open Scope N_scope.

Lemma ty_ind' (P : ty -> Prop) :
  (forall b, P (TUint b)) -> P TBig -> P TBool -> P TBytes -> (forall n, P (TByteArr n)) ->
  (forall t, P t -> P (TSlice t)) -> (forall n t, P t -> P (TArr n t)) ->
  (forall fs tail, Forall P fs -> match tail with Some te => P te | None => True end -> P (TStruct fs tail)) ->
  (forall t, P t -> P (TPtr t)) -> (forall t, P t -> P (TNilPtr t)) -> P TIface -> P TStatus ->
  forall t, P t.
Proof.
  intros HU HB HBo HBy HBa HS HA HSt HP HN HI HSta. fix IH 1. intros t.
  destruct t as [b| | | |n|t|n t|fs tail|t|t| |].
  - apply HU. - apply HB. - apply HBo. - apply HBy. - apply HBa.
  - apply HS, IH. - apply HA, IH.
  - apply HSt.
    + induction fs as [|f fs IHfs]; constructor; [apply IH|exact IHfs].
    + destruct tail as [te|]; [apply IH|exact I].
  - apply HP, IH. - apply HN, IH. - apply HI. - apply HSta.
Qed.

Lemma to_item_struct fs tail l :
  to_item (TStruct fs tail) (VList l) = option_map Lst (fields_to_items to_item tail fs l).
Proof. reflexivity. Qed.
Lemma interp_struct fs tail l :
  interp (TStruct fs tail) (Lst l) = option_map VList (items_to_fields interp tail fs l).
Proof. reflexivity. Qed.

Lemma pow256 k : 256 ^ k = 2 ^ (8 * k).
Proof. rewrite N.pow_mul_r. reflexivity. Qed.

Lemma map_opt_inv {A B} (f : A -> option B) (g : B -> option A) l l' :
  Forall (fun a => forall b, f a = Some b -> g b = Some a) l ->
  map_opt f l = Some l' -> map_opt g l' = Some l.
Proof.
  intros HF. revert l'. induction HF as [|a l Ha HF IH]; intros l' E; cbn [map_opt] in E.
  - injection E as <-. reflexivity.
  - destruct (f a) as [b|] eqn:Ea; [|discriminate].
    destruct (map_opt f l) as [bt|] eqn:Et; [|discriminate].
    injection E as <-. cbn [map_opt]. rewrite (Ha b eq_refl), (IH bt eq_refl). reflexivity.
Qed.

Lemma map_opt_length {A B} (f : A -> option B) l l' : map_opt f l = Some l' -> length l' = length l.
Proof.
  revert l'. induction l as [|a l IH]; intros l' E; cbn [map_opt] in E.
  - injection E as <-. reflexivity.
  - destruct (f a); [|discriminate]. destruct (map_opt f l) as [bt|]; [|discriminate].
    injection E as <-. simpl. f_equal. now apply IH.
Qed.

(* ---- unsigned integers ---- *)
Lemma uint_canon bits s n : 0 < bits ->
  item_to_uint bits (Str s) = Some n -> n < 2 ^ bits /\ be_of_N n = s.
Proof.
  intros Hb. cbn [item_to_uint]. destruct (no_lead0 s) eqn:Hl; cbn [andb]; [|discriminate].
  destruct (N.eqb_spec bits 0) as [|_]; [lia|]. cbn [orb].
  destruct (N.leb_spec (lenN s * 8) bits) as [Hle|]; [|discriminate].
  intros E. injection E as <-. split; [|now apply be_of_N_of_be].
  pose proof (N_of_be_lt s) as Hlt. rewrite pow256 in Hlt.
  assert (2 ^ (8 * lenN s) <= 2 ^ bits) by (apply N.pow_le_mono_r; lia). lia.
Qed.

Lemma uint_round bits n : 0 < bits -> bits mod 8 = 0 -> n < 2 ^ bits ->
  item_to_uint bits (Str (be_of_N n)) = Some n.
Proof.
  intros Hb Hm Hn. cbn [item_to_uint]. rewrite be_of_N_no_lead0, N_of_be_of_N. cbn [andb].
  assert (Hlen : lenN (be_of_N n) <= bits / 8).
  { apply be_of_N_len_le. rewrite pow256.
    replace (8 * (bits / 8)) with bits; [exact Hn|].
    pose proof (N.div_mod bits 8). lia. }
  destruct (N.leb_spec (lenN (be_of_N n) * 8) bits) as [|Hgt].
  - now rewrite orb_true_r.
  - exfalso. pose proof (N.div_mod bits 8). lia.
Qed.

Lemma big_canon s n : item_to_uint 0 (Str s) = Some n -> be_of_N n = s.
Proof.
  cbn [item_to_uint]. destruct (no_lead0 s) eqn:Hl; cbn [andb]; [|discriminate].
  cbn [N.eqb orb]. intros E. injection E as <-. now apply be_of_N_of_be.
Qed.
Lemma big_round n : item_to_uint 0 (Str (be_of_N n)) = Some n.
Proof. cbn [item_to_uint]. now rewrite be_of_N_no_lead0, N_of_be_of_N. Qed.

Lemma item_to_uint_str bits x n : item_to_uint bits x = Some n -> exists s, x = Str s.
Proof. destruct x; [eauto|discriminate]. Qed.

(* ---- nil-tagged pointers ---- *)
Lemma never_empty_item t v x : never_empty t = true -> to_item t v = Some x ->
  x <> Str [] /\ x <> Lst [].
Proof.
  destruct t as [b| | | |n|t|n t|fs tail|t|t| |]; try discriminate; intros Hne E.
  - cbn [never_empty] in Hne. cbn [to_item] in E. destruct v; try discriminate.
    destruct (N.eqb_spec (lenN s) n); [|discriminate]. injection E as <-.
    split; [|discriminate]. intros Eq. injection Eq as ->. cbn in *. lia.
  - cbn [never_empty] in Hne. cbn [to_item] in E. destruct v; try discriminate.
    destruct (N.eqb_spec (lenN l) n) as [El|]; [|discriminate].
    destruct (map_opt (to_item t) l) as [il|] eqn:Em; [|discriminate].
    injection E as <-. split; [discriminate|]. intros Eq. injection Eq as ->.
    apply map_opt_length in Em. destruct l; [cbn in *; lia|discriminate].
  - destruct fs as [|f fs]; [discriminate|]. destruct v; try discriminate.
    rewrite to_item_struct in E. cbn [fields_to_items] in E.
    destruct l as [|y l]; [discriminate|].
    destruct (to_item f y); [|discriminate].
    destruct (fields_to_items to_item tail fs l); [|discriminate].
    injection E as <-. split; discriminate.
Qed.

Lemma never_empty_val t x v : never_empty t = true -> interp t x = Some v -> v <> VNil.
Proof.
  destruct t as [b| | | |n|t|n t|fs tail|t|t| |]; try discriminate; intros _ E.
  - cbn [interp] in E. destruct x; [|discriminate]. destruct (lenN s =? n); [|discriminate].
    injection E as <-. discriminate.
  - cbn [interp] in E. destruct x; [discriminate|]. destruct (lenN l =? n); [|discriminate].
    destruct (map_opt (interp t) l); [|discriminate]. injection E as <-. discriminate.
  - destruct x; [discriminate|]. rewrite interp_struct in E.
    destruct (items_to_fields interp tail fs l); [|discriminate]. injection E as <-. discriminate.
Qed.

(* ---- canonicity: what interp accepts, to_item maps back ---- *)
Theorem typed_canonical : forall t, wf t = true ->
  forall x v, interp t x = Some v -> to_item t v = Some x.
Proof.
  induction t as [b| | | |n|t IH|n t IH|fs tail IHfs IHtail|t IH|t IH| |] using ty_ind';
    intros Hwf x v E.
  - cbn [wf] in Hwf. apply andb_prop in Hwf as [Hb _]. cbn [interp] in E.
    destruct (item_to_uint b x) as [n|] eqn:Eu; [|discriminate]. injection E as <-.
    destruct (item_to_uint_str _ _ _ Eu) as (s & ->).
    apply uint_canon in Eu as [Hlt Hbe]; [|lia]. cbn [to_item].
    destruct (N.ltb_spec n (2 ^ b)); [|lia]. now rewrite Hbe.
  - cbn [interp] in E. destruct (item_to_uint 0 x) as [n|] eqn:Eu; [|discriminate]. injection E as <-.
    destruct (item_to_uint_str _ _ _ Eu) as (s & ->). apply big_canon in Eu. cbn [to_item]. now rewrite Eu.
  - cbn [interp] in E. destruct (item_to_uint 8 x) as [n|] eqn:Eu; [|discriminate].
    destruct (item_to_uint_str _ _ _ Eu) as (s & ->).
    apply uint_canon in Eu as [_ Hbe]; [|lia].
    destruct n as [|[p|p|]]; try discriminate; injection E as <-; cbn [to_item]; now rewrite <- Hbe.
  - cbn [interp] in E. destruct x; [|discriminate]. injection E as <-. reflexivity.
  - cbn [interp] in E. destruct x; [|discriminate].
    destruct (lenN s =? n) eqn:El; [|discriminate]. injection E as <-. cbn [to_item]. now rewrite El.
  - cbn [interp] in E. destruct x as [|l]; [discriminate|].
    destruct (map_opt (interp t) l) as [vl|] eqn:Em; [|discriminate]. injection E as <-.
    cbn [to_item]. rewrite (map_opt_inv (interp t) (to_item t) l vl); [reflexivity| |exact Em].
    apply Forall_forall. intros a _ b0 Hab. now apply IH.
  - cbn [interp] in E. destruct x as [|l]; [discriminate|].
    destruct (N.eqb_spec (lenN l) n) as [El|]; [|discriminate].
    destruct (map_opt (interp t) l) as [vl|] eqn:Em; [|discriminate]. injection E as <-.
    cbn [to_item]. pose proof (map_opt_length _ _ _ Em) as Hlen.
    assert (Hl : lenN vl = n) by (unfold lenN in *; lia).
    destruct (N.eqb_spec (lenN vl) n); [|contradiction].
    rewrite (map_opt_inv (interp t) (to_item t) l vl); [reflexivity| |exact Em].
    apply Forall_forall. intros a _ b0 Hab. now apply IH.
  - destruct x as [|l]; [discriminate|]. rewrite interp_struct in E.
    destruct (items_to_fields interp tail fs l) as [vl|] eqn:Ef; [|discriminate]. injection E as <-.
    rewrite to_item_struct.
    cbn [wf] in Hwf. apply andb_prop in Hwf as [Hwfs Hwt].
    assert (H : fields_to_items to_item tail fs vl = Some l); [|now rewrite H].
    revert l vl Ef. induction IHfs as [|f fs Hf _ IHl]; intros l vl Ef.
    + cbn [items_to_fields] in Ef. cbn [fields_to_items]. destruct tail as [te|].
      * destruct (map_opt (interp te) l) as [tl|] eqn:Em; [|discriminate]. injection Ef as <-.
        apply (map_opt_inv (interp te) (to_item te) l tl); [|exact Em].
        apply Forall_forall. intros a _ b0 Hab. now apply IHtail.
      * destruct l; [|discriminate]. injection Ef as <-. reflexivity.
    + cbn [forallb] in Hwfs. apply andb_prop in Hwfs as [Hwf1 Hwfs].
      cbn [items_to_fields] in Ef. destruct l as [|y l]; [discriminate|].
      destruct (interp f y) as [a|] eqn:Ea; [|discriminate].
      destruct (items_to_fields interp tail fs l) as [bl|] eqn:Eb; [|discriminate].
      injection Ef as <-. cbn [fields_to_items]. rewrite (Hf Hwf1 _ _ Ea), (IHl Hwfs _ _ Eb). reflexivity.
  - cbn [wf] in Hwf. cbn [interp to_item] in *. now apply IH.
  - cbn [wf] in Hwf. apply andb_prop in Hwf as [Hwf Hne]. cbn [interp] in E. cbn [to_item].
    destruct x as [[|c s]|[|y l]].
    + destruct (nil_is_list t) eqn:Ek; [discriminate|]. injection E as <-. unfold nil_item. now rewrite Ek.
    + pose proof (never_empty_val _ _ _ Hne E) as Hv. apply IH in E; [|exact Hwf].
      destruct v; try exact E. contradiction.
    + destruct (nil_is_list t) eqn:Ek; [|discriminate]. injection E as <-. unfold nil_item. now rewrite Ek.
    + pose proof (never_empty_val _ _ _ Hne E) as Hv. apply IH in E; [|exact Hwf].
      destruct v; try exact E. contradiction.
  - cbn [interp] in E. injection E as <-. reflexivity.
  - cbn [interp] in E. destruct x; [|discriminate].
    destruct (status_ok s) eqn:Es; [|discriminate]. injection E as <-. cbn [to_item]. now rewrite Es.
Qed.

(* ---- round trip: interp inverts to_item ---- *)
Theorem typed_roundtrip : forall t, wf t = true ->
  forall v x, to_item t v = Some x -> interp t x = Some v.
Proof.
  induction t as [b| | | |n|t IH|n t IH|fs tail IHfs IHtail|t IH|t IH| |] using ty_ind';
    intros Hwf v x E.
  - cbn [wf] in Hwf. apply andb_prop in Hwf as [Hb Hm]. cbn [to_item] in E.
    destruct v as [n| | | | |]; try discriminate.
    destruct (N.ltb_spec n (2 ^ b)) as [Hlt|]; [|discriminate]. injection E as <-.
    cbn [interp]. rewrite uint_round; [reflexivity|lia|lia|exact Hlt].
  - cbn [to_item] in E. destruct v as [n| | | | |]; try discriminate. injection E as <-.
    cbn [interp]. now rewrite big_round.
  - cbn [to_item] in E. destruct v as [|b0| | | |]; try discriminate. injection E as <-.
    destruct b0; reflexivity.
  - cbn [to_item] in E. destruct v; try discriminate. injection E as <-. reflexivity.
  - cbn [to_item] in E. destruct v; try discriminate.
    destruct (lenN s =? n) eqn:El; [|discriminate]. injection E as <-. cbn [interp]. now rewrite El.
  - cbn [to_item] in E. destruct v as [| | |l| |]; try discriminate.
    destruct (map_opt (to_item t) l) as [il|] eqn:Em; [|discriminate]. injection E as <-.
    cbn [interp]. rewrite (map_opt_inv (to_item t) (interp t) l il); [reflexivity| |exact Em].
    apply Forall_forall. intros a _ b0 Hab. now apply IH.
  - cbn [to_item] in E. destruct v as [| | |l| |]; try discriminate.
    destruct (N.eqb_spec (lenN l) n) as [El|]; [|discriminate].
    destruct (map_opt (to_item t) l) as [il|] eqn:Em; [|discriminate]. injection E as <-.
    cbn [interp]. pose proof (map_opt_length _ _ _ Em) as Hlen.
    assert (Hl : lenN il = n) by (unfold lenN in *; lia).
    destruct (N.eqb_spec (lenN il) n); [|contradiction].
    rewrite (map_opt_inv (to_item t) (interp t) l il); [reflexivity| |exact Em].
    apply Forall_forall. intros a _ b0 Hab. now apply IH.
  - destruct v as [| | |l| |]; try discriminate. rewrite to_item_struct in E.
    destruct (fields_to_items to_item tail fs l) as [il|] eqn:Ef; [|discriminate]. injection E as <-.
    rewrite interp_struct.
    cbn [wf] in Hwf. apply andb_prop in Hwf as [Hwfs Hwt].
    assert (H : items_to_fields interp tail fs il = Some l); [|now rewrite H].
    revert l il Ef. induction IHfs as [|f fs Hf _ IHl]; intros l il Ef.
    + cbn [fields_to_items] in Ef. cbn [items_to_fields]. destruct tail as [te|].
      * destruct l as [|[| | |tl| |] [|? ?]]; try discriminate.
        rewrite (map_opt_inv (to_item te) (interp te) tl il); [reflexivity| |exact Ef].
        apply Forall_forall. intros a _ b0 Hab. now apply IHtail.
      * destruct l; [|discriminate]. injection Ef as <-. reflexivity.
    + cbn [forallb] in Hwfs. apply andb_prop in Hwfs as [Hwf1 Hwfs].
      cbn [fields_to_items] in Ef. destruct l as [|y l]; [discriminate|].
      destruct (to_item f y) as [a|] eqn:Ea; [|discriminate].
      destruct (fields_to_items to_item tail fs l) as [bl|] eqn:Eb; [|discriminate].
      injection Ef as <-. cbn [items_to_fields]. rewrite (Hf Hwf1 _ _ Ea), (IHl Hwfs _ _ Eb). reflexivity.
  - cbn [wf] in Hwf. cbn [interp to_item] in *. now apply IH.
  - cbn [wf] in Hwf. apply andb_prop in Hwf as [Hwf Hne]. cbn [to_item] in E. cbn [interp].
    assert (Hnonnil : to_item t v = Some x -> interp (TNilPtr t) x = Some v).
    { intros E'. destruct (never_empty_item _ _ _ Hne E') as [H1 H2].
      cbn [interp]. destruct x as [[|c s]|[|y l]]; try contradiction; now apply IH. }
    destruct v; try (now apply Hnonnil).
    injection E as <-. unfold nil_item. destruct (nil_is_list t); reflexivity.
  - cbn [to_item] in E. destruct v; try discriminate. injection E as <-. reflexivity.
  - cbn [to_item] in E. destruct v; try discriminate.
    destruct (status_ok s) eqn:Es; [|discriminate]. injection E as <-. cbn [interp]. now rewrite Es.
Qed.

(* ---- the typed codec on bytes ---- *)
Theorem typed_bytes_roundtrip t v x : wf t = true -> to_item t v = Some x -> fits x = true ->
  dec_typed t (encode x) = Some v.
Proof.
  intros Hwf E Hf. unfold dec_typed. rewrite decode_exact_encode by exact Hf.
  now apply typed_roundtrip.
Qed.

Theorem typed_bytes_canonical t b v : wf t = true -> dec_typed t b = Some v -> enc_typed t v = Some b.
Proof.
  intros Hwf. unfold dec_typed, enc_typed.
  destruct (decode_exact b) as [x|] eqn:Ed; [|discriminate].
  intros E. apply typed_canonical in E; [|exact Hwf]. rewrite E. cbn [option_map].
  apply decode_exact_canonical in Ed. now rewrite Ed.
Qed.

(* two byte strings accepted as the same typed value are equal: one encoding per value *)
Corollary typed_one_encoding t b1 b2 v : wf t = true ->
  dec_typed t b1 = Some v -> dec_typed t b2 = Some v -> b1 = b2.
Proof.
  intros Hwf H1 H2. apply typed_bytes_canonical in H1, H2; try exact Hwf. congruence.
Qed.
