(* Rlp/TypedGen.v — the typed codec instantiated at the generated descriptors
   (coq/Generated/GenRlpTypes.v, rewritten from /repo on every run). Definitions only. *)
From AQ Require Import Lib.Bytes Rlp.RlpSpec Rlp.Typed Generated.GenRlpTypes.

Fixpoint lookup_ty (name : bytes) (l : list (bytes * ty)) : option ty :=
  match l with
  | [] => None
  | (n, t) :: r => if bytes_eqb n name then Some t else lookup_ty name r
  end.

(* decode b as the named type and re-encode the result:
   None = unknown type; Some None = rejected; Some (Some b') = accepted, re-encodes to b' *)
Definition typed_recode (name b : bytes) : option (option bytes) :=
  match lookup_ty name rlp_types with
  | None => None
  | Some t => match dec_typed t b with
              | None => Some None
              | Some v => Some (enc_typed t v)
              end
  end.

Definition all_wf : bool := forallb (fun p => wf (snd p)) rlp_types.
