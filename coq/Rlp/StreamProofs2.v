(* Rlp/StreamProofs2.v — Stream.Uint (rlp/decode.go uint(maxbits)) against the item-level
   specification, both directions: StreamProofs.stream_uint_sound says that a returned value
   is `item_to_uint` of a canonically encoded string exactly consumed; here the converse
   (whenever the unread input starts with such an encoding and it fits the enclosing list
   and the input limit, Uint returns its value), the characterisation of the error case
   and the absence of the uintbuf index panic for maxbits <= 64. *)
From AQ Require Import Lib.Bytes Rlp.RlpSpec Rlp.RlpProofs Rlp.StreamModel Rlp.StreamProofs.
From Coq Require Import ZifyBool ZifyN ZifyNat.
Local Open Scope N_scope.
Set Default Timeout 120.

(* the next value of the stream is the canonical encoding of x, it lies inside the innermost
   open list and inside the input limit, and x is an unsigned integer of at most `bits` bits *)
Definition uint_next (bits : N) (s : stream) (x : item) (v : N) : Prop :=
  item_to_uint bits x = Some v /\
  (exists r, s_in s = encode x ++ r) /\
  room (lenN (encode x)) (s_stack s) /\
  (s_lim s = true -> lenN (encode x) <= s_rem s).

Lemma N_of_be_not_low b : no_lead0 b = true -> is_single_low b = false -> 1 <= lenN b ->
  128 <= N_of_be b.
Proof.
  intros Hz Hs Hl. destruct b as [|h t]; [cbn in Hl; lia|].
  cbn [no_lead0] in Hz. destruct (N.eqb_spec (b2n h) 0) as [|Hh]; [discriminate|].
  destruct t as [|c t].
  - rewrite N_of_be_single. cbn [is_single_low] in Hs. destruct (N.ltb_spec (b2n h) 128); [discriminate|lia].
  - pose proof (N_of_be_head_lower h (c :: t) Hh) as H.
    assert (256 ^ 1 <= 256 ^ lenN (c :: t)).
    { apply N.pow_le_mono_r; [lia|]. rewrite lenN_cons. lia. }
    lia.
Qed.

(* completeness: the converse of stream_uint_sound *)
Lemma stream_uint_complete bits s x v : Inv0 s -> s_kind s = None -> 8 <= bits <= 64 ->
  uint_next bits s x v -> exists s', st_uint bits s = (SOk v, s').
Proof.
  intros I Hk Hbits (Hu & (r & Ein) & Hr & Hl).
  destruct x as [b|l]; [|discriminate]. cbn [item_to_uint] in Hu.
  destruct (no_lead0 b) eqn:Hz; [|discriminate]. cbn [andb] in Hu.
  destruct (N.eqb_spec bits 0); [lia|]. cbn [orb] in Hu.
  destruct (N.leb_spec (lenN b * 8) bits) as [Hlen|]; [|discriminate]. injection Hu as <-.
  rewrite encode_Str in *. unfold enc in *.
  destruct (is_single_low b) eqn:Esl.
  - destruct (is_single_low_len b Esl) as (c & -> & Hc). cbn [app] in Ein.
    change (lenN [c]) with 1 in Hr, Hl.
    destruct (read_kind_go_byte (set_kerr None s) c r (proj1 I) Ein Hc Hr Hl) as (s1 & Erk).
    destruct (st_kind_go s SByte 0 s1 I Hk Erk) as (s2 & Ek); cbn [hdr_of]; change (lenN [s_bv s1]) with 1; try lia.
    { eapply room_le; [|exact Hr]. lia. }
    destruct (st_kind_ok s _ _ s2 I Hk Ek) as (R & K & Z & Ke & _ & _ & _).
    destruct R as (A1 & _). cbn [hdr_of app] in A1. rewrite Ein in A1. injection A1 as Hc2 _.
    unfold st_uint. rewrite Ek, <- Hc2.
    cbn [no_lead0] in Hz. destruct (N.eqb_spec (b2n c) 0); [discriminate|].
    rewrite N_of_be_single. eexists. reflexivity.
  - assert (Hn8 : lenN b <= 8) by lia.
    rewrite lenN_app in Hr, Hl.
    destruct (read_kind_go_hdr (set_kerr None s) 128 SString (lenN b) (b ++ r) (proj1 I)) as (s1 & Erk); auto.
    { unfold two64. lia. }
    { cbn [set_kerr s_in]. rewrite Ein. now rewrite <- app_assoc. }
    { cbn [set_kerr s_stack]. eapply room_le; [|exact Hr]. lia. }
    { cbn [set_kerr s_lim s_rem]. intros L. specialize (Hl L). lia. }
    assert (H1 : 1 <= lenN (enc_hdr 128 (lenN b))).
    { unfold enc_hdr. destruct (lenN b <? 56); rewrite ?lenN_cons; lia. }
    destruct (st_kind_go s SString (lenN b) s1 I Hk Erk) as (s2 & Ek); cbn [hdr_of]; auto.
    destruct (st_kind_ok s _ _ s2 I Hk Ek) as (R & K & Z & Ke & _ & _ & _).
    assert (I2 : Inv0 s2) by (eapply reads_Inv0; eauto).
    destruct R as (A1 & A2 & A3 & A4 & A5 & A6). cbn [hdr_of] in *.
    rewrite Ein, <- app_assoc in A1. apply app_inv_head in A1.
    unfold st_uint. rewrite Ek.
    assert (Hdiv : lenN b <= bits / 8) by (apply N.div_le_lower_bound; lia).
    destruct (N.ltb_spec (bits / 8) (lenN b)); [lia|].
    rewrite N.mod_small by lia. destruct (N.ltb_spec 8 (lenN b)); [lia|].
    destruct (N.eq_dec (lenN b) 0) as [E0|Hn0].
    + destruct b as [|h t]; [|cbn in E0; lia].
      change (lenN (@nil byte)) with 0. cbn [read_uint N.eqb N.ltb N.compare andb].
      eexists. reflexivity.
    + rewrite (read_uint_go s2 b r (proj1 I2) (eq_sym A1)); [| lia | | | exact Hz].
      * pose proof (N_of_be_not_low b Hz Esl ltac:(lia)).
        destruct (N.ltb_spec (N_of_be b) 128); [lia|]. rewrite Bool.andb_false_r.
        eexists. reflexivity.
      * rewrite A2. destruct (s_stack s) as [|[p z] rr]; cbn [adv room] in *; [trivial|lia].
      * rewrite A4, A6. intros L. rewrite L. specialize (Hl L). lia.
Qed.

(* Uint with maxbits <= 64 never reaches the uintbuf index panic, in any state *)
Lemma st_uint_no_panic bits s : bits <= 64 -> fst (st_uint bits s) <> SPanic.
Proof.
  intros Hb. unfold st_uint. pose proof (st_kind_no_panic s) as Hk.
  destruct (st_kind s) as [[[k n]|e|] s1]; cbn [fst] in *; [|discriminate|congruence].
  destruct k; cbn [fst].
  - destruct (b2n (s_bv s1) =? 0); discriminate.
  - destruct (N.ltb_spec (bits / 8) n); [discriminate|].
    assert (bits / 8 <= 8) by (apply N.div_le_upper_bound; lia).
    rewrite N.mod_small by lia. destruct (N.ltb_spec 8 n); [lia|].
    destruct (read_uint n s1) as [[v0|e] s2]; [|destruct e; discriminate].
    destruct ((0 <? n) && (v0 <? 128)); discriminate.
  - discriminate.
Qed.

Lemma reads_uint_next bits s x v s' : reads s (encode x) s' -> item_to_uint bits x = Some v ->
  uint_next bits s x v.
Proof.
  intros (A1 & A2 & A3 & A4 & A5 & A6) Hu. split; [exact Hu|]. split; [eexists; exact A1|]. split; assumption.
Qed.

(* Uint at a value position, 8 <= maxbits <= 64:
   - it returns v iff the unread input starts with the canonical encoding of an integer string
     x of value v that fits the enclosing list and the limit;
   - then exactly `encode x` is consumed and the next header is re-armed;
   - it returns an error iff there is no such x;
   - it does not panic. *)
Theorem stream_uint bits s : Inv0 s -> s_kind s = None -> 8 <= bits <= 64 ->
  (forall v, (exists s', st_uint bits s = (SOk v, s')) <-> (exists x, uint_next bits s x v)) /\
  (forall v s', st_uint bits s = (SOk v, s') ->
     exists x, uint_next bits s x v /\ reads s (encode x) s' /\ fits x = true /\ s_kind s' = None) /\
  ((exists e s', st_uint bits s = (SErr e, s')) <-> ~ (exists x v, uint_next bits s x v)) /\
  fst (st_uint bits s) <> SPanic.
Proof.
  intros I Hk Hb.
  assert (S1 : forall v s', st_uint bits s = (SOk v, s') ->
     exists x, uint_next bits s x v /\ reads s (encode x) s' /\ fits x = true /\ s_kind s' = None).
  { intros v s' E. destruct (stream_uint_sound bits s v s' I Hk Hb E) as (x & R & Hu & Hf & K).
    exists x. split; [eapply reads_uint_next; eauto|]. auto. }
  assert (NP : fst (st_uint bits s) <> SPanic) by (apply st_uint_no_panic; lia).
  split; [|split; [exact S1|split; [|exact NP]]].
  - intros v. split.
    + intros (s' & E). destruct (S1 v s' E) as (x & Hx & _). now exists x.
    + intros (x & Hx). eapply stream_uint_complete; eauto.
  - split.
    + intros (e & s' & E) (x & v & Hx).
      destruct (stream_uint_complete bits s x v I Hk Hb Hx) as (s2 & E2). congruence.
    + intros Hno. destruct (st_uint bits s) as [[v|e|] s'] eqn:E.
      * exfalso. apply Hno. destruct (S1 v s' eq_refl) as (x & Hx & _). now exists x, v.
      * now exists e, s'.
      * exfalso. now apply NP.
Qed.

(* non-vacuity (stated as C11_stream_uint_example): inside a list, after a first element, a
   2-byte integer followed by another element *)
Lemma stream_uint_example :
  let s0 := new_stream [xc5; x05; x82; x01; x00; x80] 0 true in
  let s1 := snd (st_uint 8 (snd (st_list s0))) in
  Inv0 s1 /\ s_kind s1 = None /\
  uint_next 16 s1 (Str [x01; x00]) 256 /\
  fst (st_uint 16 s1) = SOk 256 /\ s_in (snd (st_uint 16 s1)) = [x80] /\
  fst (st_uint 8 s1) = SErr EUintOverflow /\
  (forall x v, ~ uint_next 8 s1 x v) /\
  fst (st_uint 64 (new_stream [x82; x00; x01] 0 true)) = SErr ECanonInt /\
  fst (st_uint 64 (new_stream [xc0] 0 true)) = SErr EExpectedString.
Proof.
  cbv zeta. split; [|split; [reflexivity|split; [|split; [reflexivity|split; [reflexivity|split; [reflexivity|split; [|split; reflexivity]]]]]]].
  - vm_compute. repeat split; intros; try discriminate.
  - split; [reflexivity|]. split; [exists [x80]; reflexivity|]. split; vm_compute; intros; discriminate.
  - intros x v Hx.
    assert (I : Inv0 (snd (st_uint 8 (snd (st_list (new_stream [xc5; x05; x82; x01; x00; x80] 0 true)))))).
    { vm_compute. repeat split; intros; try discriminate. }
    destruct (stream_uint 8 _ I eq_refl ltac:(lia)) as (_ & _ & (H & _) & _).
    apply H; [|now exists x, v]. eexists _, _. vm_compute. reflexivity.
Qed.
