(* Rlp/StreamModel.v — code-shaped model of rlp.Stream (rlp/decode.go), the
   piecemeal decoder every hand-written DecodeRLP method and every generated
   decoder runs on.  One Gallina function per Go method, branch for branch; the
   Go struct fields are the record fields.  Definitions only: this file is
   extracted (Rlp/ExtractRlp.v) and compared with the real Stream op by op
   (harness/cmd/c11 section "stream").  Proofs: Rlp/StreamProofs.v.

   Conventions.
   * The io.Reader is a byte slice (bytes.Reader or a ByteReader wrapper around
     one): `s_in` is what the reader has not handed out yet.  Read/ReadByte at
     the end of the slice give io.EOF, which readFull/readByte turn into
     io.ErrUnexpectedEOF.
   * uint64 fields are N; every place where Go arithmetic could wrap is written
     with add64/sub64.
   * `s.kind` is an int in Go: -1 ("read the next header") is None here.
   * `s.stack` grows at the end in Go; here the top of the stack (innermost
     list) is the head of the list.
   * A Go run-time panic (make with an impossible length, slice bounds, index out
     of range) is the explicit result Panic. *)
From AQ Require Import Lib.Bytes Rlp.RlpSpec.
Local Open Scope N_scope.

(* decode.go:576-597 error values (compared by identity in the harness) + io.EOF /
   io.ErrUnexpectedEOF + the one fmt.Errorf of Bool *)
Inductive serr :=
| EEOL | EExpectedString | EExpectedList | ECanonInt | ECanonSize
| EElemTooLarge | EValueTooLarge | ENotInList | ENotAtEOL | EUintOverflow
| EEOF | EUnexpectedEOF | EInvalidBool.

(* result of an exported method *)
Inductive sres (A : Type) := SOk (a : A) | SErr (e : serr) | SPanic.
Arguments SOk {A} a. Arguments SErr {A} e. Arguments SPanic {A}.
(* result of the internal readers (value, error) — they cannot panic *)
Inductive rres (A : Type) := ROk (a : A) | RErr (e : serr).
Arguments ROk {A} a. Arguments RErr {A} e.

(* decode.go:555-561 Kind: Byte = 0, String = 1, List = 2 *)
Inductive skind := SByte | SString | SList.

(* decode.go:618-635 type Stream, type listpos{pos,size} *)
Record stream := mkS {
  s_in    : bytes;            (* r: unread bytes of the underlying reader *)
  s_rem   : N;                (* remaining *)
  s_lim   : bool;             (* limited *)
  s_kind  : option skind;     (* kind; None = -1 *)
  s_size  : N;                (* size *)
  s_bv    : byte;             (* byteval *)
  s_kerr  : option serr;      (* kinderr; None = nil *)
  s_stack : list (N * N)      (* stack of (pos, size); head = top *)
}.

Definition set_in v s := mkS v (s_rem s) (s_lim s) (s_kind s) (s_size s) (s_bv s) (s_kerr s) (s_stack s).
Definition set_rem v s := mkS (s_in s) v (s_lim s) (s_kind s) (s_size s) (s_bv s) (s_kerr s) (s_stack s).
Definition set_kind v s := mkS (s_in s) (s_rem s) (s_lim s) v (s_size s) (s_bv s) (s_kerr s) (s_stack s).
Definition set_size v s := mkS (s_in s) (s_rem s) (s_lim s) (s_kind s) v (s_bv s) (s_kerr s) (s_stack s).
Definition set_bv v s := mkS (s_in s) (s_rem s) (s_lim s) (s_kind s) (s_size s) v (s_kerr s) (s_stack s).
Definition set_kerr v s := mkS (s_in s) (s_rem s) (s_lim s) (s_kind s) (s_size s) (s_bv s) v (s_stack s).
Definition set_stack v s := mkS (s_in s) (s_rem s) (s_lim s) (s_kind s) (s_size s) (s_bv s) (s_kerr s) v.

Definition add64 (a b : N) : N := (a + b) mod two64.
Definition sub64 (a b : N) : N := (a + two64 - b mod two64) mod two64.

(* runtime.makeslice on linux/amd64: a []byte longer than maxAlloc = 2^48 (or with the
   sign bit set) panics "makeslice: len out of range".  After the fix a810c36 only the
   exact-allocation branch of readContent can reach it (see read_content). *)
Definition max_alloc : N := 281474976710656.

(* decode.go:654-660 NewStream + 849-885 Reset.  `bytes_reader` says whether r is a
   *bytes.Reader / *strings.Reader (then a zero inputLimit is replaced by r.Len()). *)
Definition new_stream (b : bytes) (input_limit : N) (bytes_reader : bool) : stream :=
  if 0 <? input_limit then mkS b input_limit true None 0 x00 None []
  else if bytes_reader then mkS b (lenN b) true None 0 x00 None []
  else mkS b 0 false None 0 x00 None [].

(* decode.go:1076-1094 willRead *)
Definition will_read (n : N) (s : stream) : option serr * stream :=
  let s := set_kind None s in
  let '(e, s) :=
    match s_stack s with
    | (pos, sz) :: rest =>
        if sub64 sz pos <? n then (Some EElemTooLarge, s)
        else (None, set_stack ((add64 pos n, sz) :: rest) s)
    | [] => (None, s)
    end in
  match e with
  | Some _ => (e, s)
  | None =>
      if s_lim s then
        if s_rem s <? n then (Some EValueTooLarge, s)
        else (None, set_rem (s_rem s - n) s)
      else (None, s)
  end.

(* decode.go:1065-1074 readByte *)
Definition read_byte (s : stream) : rres byte * stream :=
  match will_read 1 s with
  | (Some e, s) => (RErr e, s)
  | (None, s) =>
      match s_in s with
      | [] => (RErr EUnexpectedEOF, s)
      | h :: t => (ROk h, set_in t s)
      end
  end.

(* decode.go:1015-1028 readFull: a short reader is drained before io.EOF shows up *)
Definition read_full (n : N) (s : stream) : rres bytes * stream :=
  match will_read n s with
  | (Some e, s) => (RErr e, s)
  | (None, s) =>
      match takeN n (s_in s) with
      | Some (a, r) => (ROk a, set_in r s)
      | None => (RErr EUnexpectedEOF, set_in [] s)
      end
  end.

(* decode.go:989-1013 readUint(size byte) for size <= 8.  Callers: readKind passes
   b-0xB7 / b-0xF7 (1..8); uint() passes byte(size) and is guarded in st_uint below
   (for size > 8 `start := int(8 - size)` wraps as a byte and the zeroing loop indexes
   uintbuf out of range before anything is read). *)
Definition read_uint (sz : N) (s : stream) : rres N * stream :=
  if sz =? 0 then (ROk 0, set_kind None s)
  else if sz =? 1 then
    match read_byte s with
    | (ROk b, s) => (ROk (b2n b), s)
    | (RErr e, s) => (RErr e, s)
    end
  else
    match read_full sz s with
    | (ROk bs, s) => if no_lead0 bs then (ROk (N_of_be bs), s) else (RErr ECanonSize, s)
    | (RErr e, s) => (RErr e, s)
    end.

(* decode.go:927-987 readKind: (kind, size, err) *)
Definition read_kind (s : stream) : (skind * N * option serr) * stream :=
  match read_byte s with
  | (ROk b, s) =>
      let s := set_bv x00 s in
      let p := b2n b in
      if p <? 128 then ((SByte, 0, None), set_bv b s)
      else if p <? 184 then ((SString, p - 128, None), s)
      else if p <? 192 then
        match read_uint (p - 183) s with
        | (ROk n, s) => ((SString, n, if n <? 56 then Some ECanonSize else None), s)
        | (RErr e, s) => ((SString, 0, Some e), s)
        end
      else if p <? 248 then ((SList, p - 192, None), s)
      else
        match read_uint (p - 247) s with
        | (ROk n, s) => ((SList, n, if n <? 56 then Some ECanonSize else None), s)
        | (RErr e, s) => ((SList, 0, Some e), s)
        end
  | (RErr e, s) =>
      (* at toplevel io.ErrUnexpectedEOF and ErrValueTooLarge become io.EOF *)
      let e := match s_stack s with
               | [] => match e with EUnexpectedEOF => EEOF | EValueTooLarge => EEOF | _ => e end
               | _ => e
               end in
      ((SByte, 0, Some e), s)
  end.

(* what Kind() returns: (s.kind, s.size, s.kinderr) with a non-nil error first *)
Definition kind_result (k : skind) (s : stream) : sres (skind * N) :=
  match s_kerr s with
  | Some e => SErr e
  | None => SOk (k, s_size s)
  end.

(* decode.go:894-925 Kind *)
Definition st_kind (s : stream) : sres (skind * N) * stream :=
  match s_kind s with
  | Some k => (kind_result k s, s)
  | None =>
      let s := set_kerr None s in
      let at_eol := match s_stack s with (pos, sz) :: _ => pos =? sz | [] => false end in
      if at_eol then (SErr EEOL, s)
      else
        let '((k, n, e), s) := read_kind s in
        let s := set_kerr e (set_size n (set_kind (Some k) s)) in
        let s :=
          match e with
          | Some _ => s
          | None =>
              match s_stack s with
              | [] => if s_lim s && (s_rem s <? n) then set_kerr (Some EValueTooLarge) s else s
              | (pos, sz) :: _ => if sub64 sz pos <? n then set_kerr (Some EElemTooLarge) s else s
              end
          end in
        (kind_result k s, s)
  end.

(* decode.go:1032 maxUncheckedAlloc *)
Definition max_unchecked_alloc : N := 65536.

(* decode.go:1046-1062 readContent, the growing branch (no input limit and size > maxUncheckedAlloc):
   one readFull — hence one willRead — per chunk; chunk = max(64 KiB, len(buf)) capped by
   what is left, len(buf) = prefix + read.  `acc` is buf[prefix:].  Every completed chunk
   has taken at least one byte from the reader, so fuel = (unread input length) + 1 is never
   exhausted (StreamProofs.read_chunks_fuel); the O branch exists only for the fixpoint.
   The appended make([]byte, n) has n <= max(64 KiB, prefix + bytes already read): no
   Panic is modelled for it. *)
Fixpoint read_chunks (fuel : nat) (prefix rd sz : N) (s : stream) (acc : bytes) {struct fuel}
  : rres bytes * stream :=
  match fuel with
  | O => (RErr EUnexpectedEOF, s)
  | S f =>
    if rd <? sz then
      let n := N.min (N.max max_unchecked_alloc (prefix + rd)) (sz - rd) in
      match read_full n s with
      | (RErr e, s) => (RErr e, s)
      | (ROk b, s) => read_chunks f prefix (rd + n) sz s (acc ++ b)
      end
    else (ROk acc, s)
  end.

(* decode.go:1038-1045 readContent(prefix, size): the content bytes buf[prefix:] (the callers put the
   header into buf[:prefix]).  With an input limit, or for sizes up to 64 KiB, one exact
   allocation: make([]byte, uint64(prefix)+size) — Panic beyond max_alloc, and after
   wrap-around buf[prefix:] is out of range; both need a caller-supplied limit above 2^48. *)
Definition read_content (prefix sz : N) (s : stream) : sres bytes * stream :=
  if s_lim s || (sz <=? max_unchecked_alloc) then
    let total := add64 prefix sz in
    if max_alloc <? total then (SPanic, s)
    else if total <? prefix then (SPanic, s)
    else
      match read_full (total - prefix) s with
      | (RErr e, s) => (SErr e, s)
      | (ROk b, s) => (SOk b, s)
      end
  else
    match read_chunks (S (length (s_in s))) prefix 0 sz s [] with
    | (RErr e, s) => (SErr e, s)
    | (ROk b, s) => (SOk b, s)
    end.

(* decode.go:673-695 Bytes *)
Definition st_bytes (s : stream) : sres bytes * stream :=
  match st_kind s with
  | (SErr e, s) => (SErr e, s)
  | (SPanic, s) => (SPanic, s)
  | (SOk (SByte, _), s) => (SOk [s_bv s], set_kind None s)
  | (SOk (SString, n), s) =>
      match read_content 0 n s with
      | (SErr e, s) => (SErr e, s)
      | (SPanic, s) => (SPanic, s)
      | (SOk b, s) => if (n =? 1) && is_single_low b then (SErr ECanonSize, s) else (SOk b, s)
      end
  | (SOk (SList, _), s) => (SErr EExpectedString, s)
  end.

(* encode.go:141-159 headsize / puthead: the header written in front of `size` content
   bytes; for size < 2^64 this is RlpSpec.enc_hdr *)
Definition headsize (n : N) : N := if n <? 56 then 1 else 1 + lenN (be_of_N n).

(* decode.go:697-720 Raw *)
Definition st_raw (s : stream) : sres bytes * stream :=
  match st_kind s with
  | (SErr e, s) => (SErr e, s)
  | (SPanic, s) => (SPanic, s)
  | (SOk (SByte, _), s) => (SOk [s_bv s], set_kind None s)
  | (SOk (k, n), s) =>
      match read_content (headsize n) n s with
      | (SErr e, s) => (SErr e, s)
      | (SPanic, s) => (SPanic, s)
      | (SOk b, s) => (SOk (enc_hdr (match k with SList => 192 | _ => 128 end) n ++ b), s)
      end
  end.

(* decode.go:724-762 Uint / uint(maxbits) *)
Definition st_uint (bits : N) (s : stream) : sres N * stream :=
  match st_kind s with
  | (SErr e, s) => (SErr e, s)
  | (SPanic, s) => (SPanic, s)
  | (SOk (SByte, _), s) =>
      if b2n (s_bv s) =? 0 then (SErr ECanonInt, s)
      else (SOk (b2n (s_bv s)), set_kind None s)
  | (SOk (SString, n), s) =>
      if bits / 8 <? n then (SErr EUintOverflow, s)
      else
        let sz := n mod 256 in                     (* byte(size) *)
        if 8 <? sz then (SPanic, s)                (* readUint: uintbuf index out of range *)
        else
          match read_uint sz s with
          | (RErr ECanonSize, s) => (SErr ECanonInt, s)
          | (RErr e, s) => (SErr e, s)
          | (ROk v, s) => if (0 <? n) && (v <? 128) then (SErr ECanonSize, s) else (SOk v, s)
          end
  | (SOk (SList, _), s) => (SErr EExpectedString, s)
  end.

(* decode.go:764-777 Bool *)
Definition st_bool (s : stream) : sres bool * stream :=
  match st_uint 8 s with
  | (SErr e, s) => (SErr e, s)
  | (SPanic, s) => (SPanic, s)
  | (SOk v, s) =>
      if v =? 0 then (SOk false, s)
      else if v =? 1 then (SOk true, s)
      else (SErr EInvalidBool, s)
  end.

(* decode.go:782-794 List *)
Definition st_list (s : stream) : sres N * stream :=
  match st_kind s with
  | (SErr e, s) => (SErr e, s)
  | (SPanic, s) => (SPanic, s)
  | (SOk (SList, n), s) =>
      (SOk n, set_size 0 (set_kind None (set_stack ((0, n) :: s_stack s) s)))
  | (SOk _, s) => (SErr EExpectedList, s)
  end.

(* decode.go:798-813 ListEnd *)
Definition st_list_end (s : stream) : sres unit * stream :=
  match s_stack s with
  | [] => (SErr ENotInList, s)
  | (pos, sz) :: rest =>
      if negb (pos =? sz) then (SErr ENotAtEOL, s)
      else
        let rest' := match rest with
                     | (p2, s2) :: r => (add64 p2 sz, s2) :: r
                     | [] => []
                     end in
        (SOk tt, set_size 0 (set_kind None (set_stack rest' s)))
  end.

(* ---- the generic walker: the way decodeInterface (decode.go:513-537) and every
   hand-written DecodeRLP use the Stream: Kind; a list is List, elements until EOL,
   ListEnd; anything else is Bytes.  Same shape as streamWalk in harness/cmd/c11.
   None = out of fuel (StreamProofs.walk_fuel_suffices: never with fuel > input length). *)
Fixpoint walk (fuel : nat) (s : stream) {struct fuel} : option (sres item * stream) :=
  match fuel with
  | O => None
  | S f =>
    match st_kind s with
    | (SErr e, s) => Some (SErr e, s)
    | (SPanic, s) => Some (SPanic, s)
    | (SOk (SList, _), s) =>
        match st_list s with
        | (SErr e, s) => Some (SErr e, s)
        | (SPanic, s) => Some (SPanic, s)
        | (SOk _, s) =>
            (fix loop (m : nat) (s : stream) (acc : list item) {struct m}
               : option (sres item * stream) :=
               match m with
               | O => None
               | S m' =>
                 match walk f s with
                 | None => None
                 | Some (SErr EEOL, s) =>
                     match st_list_end s with
                     | (SOk _, s) => Some (SOk (Lst (rev acc)), s)
                     | (SErr e, s) => Some (SErr e, s)
                     | (SPanic, s) => Some (SPanic, s)
                     end
                 | Some (SErr e, s) => Some (SErr e, s)
                 | Some (SPanic, s) => Some (SPanic, s)
                 | Some (SOk x, s) => loop m' s (x :: acc)
                 end
               end) f s []
        end
    | (SOk _, s) =>
        match st_bytes s with
        | (SOk b, s) => Some (SOk (Str b), s)
        | (SErr e, s) => Some (SErr e, s)
        | (SPanic, s) => Some (SPanic, s)
        end
    end
  end.

Definition walk_fuel (b : bytes) : nat := S (length b).

(* streamWalk of the harness: one value from a fresh Stream over b; the leftover is
   what the reader still holds *)
Definition stream_walk (b : bytes) (input_limit : N) (bytes_reader : bool) : option (sres item * bytes) :=
  match walk (walk_fuel b) (new_stream b input_limit bytes_reader) with
  | None => None
  | Some (r, s) => Some (r, s_in s)
  end.

(* one operation of the op-sequence interface of the driver *)
Inductive sop := OpKind | OpList | OpListEnd | OpBytes | OpRaw | OpUint (bits : N) | OpBool.
Inductive sval := RvKind (k : skind) (n : N) | RvNum (n : N) | RvBytes (b : bytes) | RvBool (b : bool) | RvUnit.

Definition lift {A} (f : A -> sval) (r : sres A * stream) : sres sval * stream :=
  match r with
  | (SOk a, s) => (SOk (f a), s)
  | (SErr e, s) => (SErr e, s)
  | (SPanic, s) => (SPanic, s)
  end.

Definition st_op (o : sop) (s : stream) : sres sval * stream :=
  match o with
  | OpKind => lift (fun kn => RvKind (fst kn) (snd kn)) (st_kind s)
  | OpList => lift RvNum (st_list s)
  | OpListEnd => lift (fun _ => RvUnit) (st_list_end s)
  | OpBytes => lift RvBytes (st_bytes s)
  | OpRaw => lift RvBytes (st_raw s)
  | OpUint bits => lift RvNum (st_uint bits s)
  | OpBool => lift RvBool (st_bool s)
  end.
