(* Rlp/RlpSpec.v — RLP at the item level: the Yellow Paper (appendix B) encoder
   and a strict decoder.  `split` has the shape of rlp/raw.go Split (readKind +
   readSize with their canonical-size checks); `decode` is what
   rlp.DecodeBytes(b, new(interface{})) computes (rlp/decode.go decodeInterface
   over Stream.Kind/List/Bytes).  No proofs in this file: it is extracted. *)
From AQ Require Import Lib.Bytes.
Local Open Scope N_scope.

Inductive item := Str (s : bytes) | Lst (l : list item).
Inductive kind := KStr | KLst.

Definition two64 : N := 18446744073709551616.

(* header for a payload of n bytes; off = 128 (string) or 192 (list) *)
Definition enc_hdr (off n : N) : bytes :=
  if n <? 56 then [n2b (off + n)]
  else let be := be_of_N n in n2b (off + 55 + lenN be) :: be.

Definition is_single_low (s : bytes) : bool :=
  match s with [c] => b2n c <? 128 | _ => false end.

Definition enc (k : kind) (content : bytes) : bytes :=
  match k with
  | KStr => if is_single_low content then content else enc_hdr 128 (lenN content) ++ content
  | KLst => enc_hdr 192 (lenN content) ++ content
  end.

Fixpoint encode (x : item) : bytes :=
  match x with
  | Str s => enc KStr s
  | Lst l => enc KLst ((fix go (l : list item) : bytes :=
                          match l with [] => [] | y :: t => encode y ++ go t end) l)
  end.
Definition encode_list (l : list item) : bytes := flat_map encode l.

(* every size that must be written in a header fits 64 bits (Go: uint64 sizes) *)
Fixpoint fits (x : item) : bool :=
  match x with
  | Str s => lenN s <? two64
  | Lst l => (fix go (l : list item) : bool :=
                match l with [] => true | y :: t => fits y && go t end) l
             && (lenN (encode_list l) <? two64)
  end.

(* size field of the long form: lenlen bytes, big endian, no leading zero, >= 56 *)
Definition dec_size (lenlen : N) (t : bytes) : option (N * bytes) :=
  match takeN lenlen t with
  | None => None
  | Some (sz, rest) =>
      if no_lead0 sz && (56 <=? N_of_be sz) then Some (N_of_be sz, rest) else None
  end.

(* raw.go Split: kind, content, rest — or error *)
Definition split (b : bytes) : option (kind * bytes * bytes) :=
  match b with
  | [] => None
  | h :: t =>
    let p := b2n h in
    if p <? 128 then Some (KStr, [h], t)
    else if p <? 184 then
      match takeN (p - 128) t with
      | None => None
      | Some (s, rest) => if is_single_low s then None else Some (KStr, s, rest)
      end
    else if p <? 192 then
      match dec_size (p - 183) t with
      | None => None
      | Some (n, t') =>
        match takeN n t' with None => None | Some (s, rest) => Some (KStr, s, rest) end
      end
    else if p <? 248 then
      match takeN (p - 192) t with
      | None => None
      | Some (pl, rest) => Some (KLst, pl, rest)
      end
    else
      match dec_size (p - 247) t with
      | None => None
      | Some (n, t') =>
        match takeN n t' with None => None | Some (pl, rest) => Some (KLst, pl, rest) end
      end
  end.

Fixpoint decode_f (fuel : nat) (b : bytes) {struct fuel} : option (item * bytes) :=
  match fuel with
  | O => None
  | S f =>
    match split b with
    | None => None
    | Some (KStr, s, rest) => Some (Str s, rest)
    | Some (KLst, pl, rest) =>
      match decode_list_f f pl with None => None | Some l => Some (Lst l, rest) end
    end
  end
with decode_list_f (fuel : nat) (b : bytes) {struct fuel} : option (list item) :=
  match fuel with
  | O => None
  | S f =>
    match b with
    | [] => Some []
    | _ => match decode_f f b with
           | None => None
           | Some (x, rest) =>
             match decode_list_f f rest with None => None | Some l => Some (x :: l) end
           end
    end
  end.

Definition fuel_for (b : bytes) : nat := 2 * length b + 1.
(* first value of the input and the remaining bytes *)
Definition decode (b : bytes) : option (item * bytes) := decode_f (fuel_for b) b.
(* rlp.DecodeBytes: exactly one value, no trailing bytes *)
Definition decode_exact (b : bytes) : option item :=
  match decode b with Some (x, []) => Some x | _ => None end.

(* raw.go CountValues *)
Fixpoint count_values_f (fuel : nat) (b : bytes) : option N :=
  match fuel with
  | O => None
  | S f => match b with
           | [] => Some 0
           | _ => match split b with
                  | None => None
                  | Some (_, _, rest) => match count_values_f f rest with None => None | Some n => Some (1 + n) end
                  end
           end
  end.
Definition count_values (b : bytes) : option N := count_values_f (S (length b)) b.

(* unsigned integers: rlp integers are the minimal big-endian string *)
Definition encode_uint (n : N) : bytes := encode (Str (be_of_N n)).
(* Stream.uint(maxbits) / decodeBigInt: string kind, no leading zero; bits = 0 means unbounded *)
Definition item_to_uint (bits : N) (x : item) : option N :=
  match x with
  | Str s => if no_lead0 s && ((bits =? 0) || (lenN s * 8 <=? bits)) then Some (N_of_be s) else None
  | Lst _ => None
  end.
