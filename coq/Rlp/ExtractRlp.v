(* Extraction of the RLP model for ocaml/rlp/driver.ml.  ExtrOcamlBasic only. *)
From AQ Require Import Lib.Bytes Lib.ExtractBase Lib.Keccak Rlp.RlpSpec Rlp.Typed Rlp.TypedGen Rlp.StreamModel.
Require Extraction.
Require Import ExtrOcamlBasic.
Extraction "../ocaml/rlp/model.ml" base_anchor keccak256
  encode decode decode_exact split count_values fits encode_uint item_to_uint
  typed_recode all_wf
  new_stream st_op stream_walk s_in.
