(* Rlp/Typed.v — typed RLP: Go values of RLP-serialisable types as an
   interpretation of items.  `interp` follows rlp/decode.go makeDecoder case by
   case (decodeUint/Stream.uint, decodeBigInt, decodeBool, decodeByteSlice/String,
   decodeByteArray, decodeListSlice, decodeListArray, makeStructDecoder with the
   "tail" tag, makePtrDecoder, makeOptionalPtrDecoder (rlp:"nil"), decodeInterface);
   `to_item` follows rlp/encode.go makeWriter.  The typed decoder of the Go code
   works on the byte stream; for types without RawValue fields every byte of the
   input is visited by exactly one of these decoders, so
   DecodeBytes(b, &v : T) = interp T (decode_exact b).  Definitions only. *)
From AQ Require Import Lib.Bytes Rlp.RlpSpec.
Local Open Scope N_scope.

Inductive ty :=
| TUint (bits : N)              (* uint8 .. uint64 *)
| TBig                          (* *big.Int / big.Int *)
| TBool
| TBytes                        (* []byte, string *)
| TByteArr (n : N)              (* [n]byte: Hash, Address, Bloom, BlockNonce *)
| TSlice (t : ty)
| TArr (n : N) (t : ty)
| TStruct (fs : list ty) (tail : option ty)   (* exported, non-ignored fields in order; optional rlp:"tail" element type *)
| TPtr (t : ty)                 (* pointer without tag: decodes as its element *)
| TNilPtr (t : ty)              (* rlp:"nil" *)
| TIface                        (* interface{} *)
| TStatus.                      (* receipt PostStateOrStatus: []byte constrained by Receipt.setStatus *)

Inductive val :=
| VNum (n : N) | VBool (b : bool) | VStr (s : bytes) | VList (l : list val) | VNil | VItem (x : item).

(* core/types/receipt.go setStatus: 0x01, empty, or a 32-byte root *)
Definition status_ok (s : bytes) : bool :=
  bytes_eqb s [x01] || (lenN s =? 0) || (lenN s =? 32).

Fixpoint map_opt {A B} (f : A -> option B) (l : list A) : option (list B) :=
  match l with
  | [] => Some []
  | a :: t => match f a, map_opt f t with Some b, Some bt => Some (b :: bt) | _, _ => None end
  end.

(* the kind of the empty value that encodes a nil pointer (encode.go makePtrWriter;
   decode.go makeOptionalPtrDecoder after the fix: commit "fix: rlp nil-tagged pointer ...") *)
Definition nil_is_list (t : ty) : bool :=
  match t with TStruct _ _ | TArr _ _ | TSlice _ | TIface => true | _ => false end.
Definition nil_item (t : ty) : item := if nil_is_list t then Lst [] else Str [].

Section FieldsToItems.
Variable f : ty -> val -> option item.
Variable tail : option ty.
Fixpoint fields_to_items (fs : list ty) (l : list val) {struct fs} : option (list item) :=
  match fs with
  | [] => match tail, l with
          | None, [] => Some []
          | Some te, [VList tl] => map_opt (f te) tl
          | _, _ => None
          end
  | ft :: fs' => match l with
                 | [] => None
                 | x :: l' => match f ft x, fields_to_items fs' l' with
                              | Some a, Some b => Some (a :: b) | _, _ => None end
                 end
  end.
End FieldsToItems.

Fixpoint to_item (t : ty) (v : val) {struct t} : option item :=
  match t with
  | TUint bits => match v with VNum n => if n <? 2 ^ bits then Some (Str (be_of_N n)) else None | _ => None end
  | TBig => match v with VNum n => Some (Str (be_of_N n)) | _ => None end
  | TBool => match v with VBool b => Some (Str (if b then [x01] else [])) | _ => None end
  | TBytes => match v with VStr s => Some (Str s) | _ => None end
  | TByteArr n => match v with VStr s => if lenN s =? n then Some (Str s) else None | _ => None end
  | TSlice t' => match v with VList l => option_map Lst (map_opt (to_item t') l) | _ => None end
  | TArr n t' => match v with
                 | VList l => if lenN l =? n then option_map Lst (map_opt (to_item t') l) else None
                 | _ => None end
  | TStruct fs tail =>
      match v with
      | VList l => option_map Lst
          ((fix go (fs : list ty) (l : list val) {struct fs} : option (list item) :=
              match fs with
              | [] => match tail, l with
                      | None, [] => Some []
                      | Some te, [VList tl] => map_opt (to_item te) tl
                      | _, _ => None
                      end
              | ft :: fs' => match l with
                             | [] => None
                             | x :: l' => match to_item ft x, go fs' l' with
                                          | Some a, Some b => Some (a :: b) | _, _ => None end
                             end
              end) fs l)
      | _ => None
      end
  | TPtr t' => to_item t' v
  | TNilPtr t' => match v with VNil => Some (nil_item t') | _ => to_item t' v end
  | TIface => match v with VItem x => Some x | _ => None end
  | TStatus => match v with VStr s => if status_ok s then Some (Str s) else None | _ => None end
  end.

Section ItemsToFields.
Variable f : ty -> item -> option val.
Variable tail : option ty.
Fixpoint items_to_fields (fs : list ty) (l : list item) {struct fs} : option (list val) :=
  match fs with
  | [] => match tail with
          | None => match l with [] => Some [] | _ => None end      (* "input list has too many elements" *)
          | Some te => match map_opt (f te) l with Some tl => Some [VList tl] | None => None end
          end
  | ft :: fs' => match l with
                 | [] => None                                        (* "too few elements" *)
                 | y :: l' => match f ft y, items_to_fields fs' l' with
                              | Some a, Some b => Some (a :: b) | _, _ => None end
                 end
  end.
End ItemsToFields.

Fixpoint interp (t : ty) (x : item) {struct t} : option val :=
  match t with
  | TUint bits => option_map VNum (item_to_uint bits x)
  | TBig => option_map VNum (item_to_uint 0 x)
  | TBool => match item_to_uint 8 x with
             | Some 0 => Some (VBool false) | Some 1 => Some (VBool true) | _ => None end
  | TBytes => match x with Str s => Some (VStr s) | Lst _ => None end
  | TByteArr n => match x with Str s => if lenN s =? n then Some (VStr s) else None | Lst _ => None end
  | TSlice t' => match x with Lst l => option_map VList (map_opt (interp t') l) | Str _ => None end
  | TArr n t' => match x with
                 | Lst l => if lenN l =? n then option_map VList (map_opt (interp t') l) else None
                 | Str _ => None end
  | TStruct fs tail =>
      match x with
      | Lst l => option_map VList
          ((fix go (fs : list ty) (l : list item) {struct fs} : option (list val) :=
              match fs with
              | [] => match tail with
                      | None => match l with [] => Some [] | _ => None end
                      | Some te => match map_opt (interp te) l with Some tl => Some [VList tl] | None => None end
                      end
              | ft :: fs' => match l with
                             | [] => None
                             | y :: l' => match interp ft y, go fs' l' with
                                          | Some a, Some b => Some (a :: b) | _, _ => None end
                             end
              end) fs l)
      | Str _ => None
      end
  | TPtr t' => interp t' x
  | TNilPtr t' => match x with
                  | Str [] => if nil_is_list t' then None else Some VNil
                  | Lst [] => if nil_is_list t' then Some VNil else None
                  | _ => interp t' x
                  end
  | TIface => Some (VItem x)
  | TStatus => match x with Str s => if status_ok s then Some (VStr s) else None | Lst _ => None end
  end.

(* types the theorems cover: positive integer widths, and a nil-tagged pointer
   only to an element whose encodings are never empty (as in every use in the
   code base: *common.Address) *)
Definition never_empty (t : ty) : bool :=
  match t with
  | TByteArr n => 0 <? n
  | TArr n _ => 0 <? n
  | TStruct (_ :: _) _ => true
  | _ => false
  end.
Fixpoint wf (t : ty) : bool :=
  match t with
  | TUint bits => (0 <? bits) && (bits mod 8 =? 0)
  | TBig | TBool | TBytes | TByteArr _ | TIface | TStatus => true
  | TSlice t' | TArr _ t' | TPtr t' => wf t'
  | TStruct fs tail => forallb wf fs && match tail with None => true | Some te => wf te end
  | TNilPtr t' => wf t' && never_empty t'
  end.

(* typed codec on bytes *)
Definition enc_typed (t : ty) (v : val) : option bytes := option_map encode (to_item t v).
Definition dec_typed (t : ty) (b : bytes) : option val :=
  match decode_exact b with Some x => interp t x | None => None end.
