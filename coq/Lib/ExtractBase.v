(* Every ExtractXxx.v extracts base_anchor first so that the base inductives
   (nat, positive, N, Z, byte) are present in every Model for ocaml/common/vh.ml. *)
From AQ Require Import Lib.Bytes.
Definition base_anchor := (b2z, z2b, n2b, b2n, Z.add, N.add, Nat.add, Z.of_N, Z.to_N, N.of_nat, N.to_nat).
