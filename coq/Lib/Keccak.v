(* Lib/Keccak.v — Keccak-256 (the pre-NIST padding used by Ethereum/Aquachain:
   crypto.Keccak256) as an executable Gallina function.  Theorems never depend
   on its internals (they take H as a Section variable); it exists so that model
   hashes, roots, bloom bits and addresses are directly comparable with the
   implementation.  It is validated against crypto.Keccak256 on every run. *)
From AQ Require Import Lib.Bytes.
Local Open Scope N_scope.

Definition mask64 : N := 18446744073709551615.
Definition rotl64 (x n : N) : N :=
  if n =? 0 then x else N.land (N.lor (N.shiftl x n) (N.shiftr x (64 - n))) mask64.

Definition nthN (l : list N) (i : nat) : N := nth i l 0.
Definition idx5 : list nat := [0;1;2;3;4]%nat.
Definition idx25 : list nat := seq 0 25.

Definition round_consts : list N :=
 [ 0x0000000000000001; 0x0000000000008082; 0x800000000000808A; 0x8000000080008000;
   0x000000000000808B; 0x0000000080000001; 0x8000000080008081; 0x8000000000008009;
   0x000000000000008A; 0x0000000000000088; 0x0000000080008009; 0x000000008000000A;
   0x000000008000808B; 0x800000000000008B; 0x8000000000008089; 0x8000000000008003;
   0x8000000000008002; 0x8000000000000080; 0x000000000000800A; 0x800000008000000A;
   0x8000000080008081; 0x8000000000008080; 0x0000000080000001; 0x8000000080008008 ].

(* rotation offsets r[x][y], stored at index x + 5*y *)
Definition rho_off : list N :=
 [ 0;  1; 62; 28; 27;
  36; 44;  6; 55; 20;
   3; 10; 43; 25; 39;
  41; 45; 15; 21;  8;
  18;  2; 61; 56; 14 ].

Definition theta (a : list N) : list N :=
  let c := map (fun x => N.lxor (nthN a x) (N.lxor (nthN a (x+5)) (N.lxor (nthN a (x+10))
                          (N.lxor (nthN a (x+15)) (nthN a (x+20)))))) idx5 in
  let d := map (fun x => N.lxor (nthN c ((x+4) mod 5)) (rotl64 (nthN c ((x+1) mod 5)) 1)) idx5 in
  map (fun i => N.lxor (nthN a i) (nthN d (i mod 5))) idx25.

(* B[x' + 5y'] = rot(A[x + 5x'], r[x][x']) with x = (x' + 3y') mod 5 *)
Definition rho_pi (a : list N) : list N :=
  map (fun j => let x' := (j mod 5)%nat in let y' := (j / 5)%nat in
                let x := ((x' + 3*y') mod 5)%nat in
                let src := (x + 5*x')%nat in
                rotl64 (nthN a src) (nthN rho_off src)) idx25.

Definition chi (b : list N) : list N :=
  map (fun i => let x := (i mod 5)%nat in let y := (i / 5)%nat in
                N.lxor (nthN b i)
                  (N.ldiff (nthN b (((x+2) mod 5) + 5*y)) (nthN b (((x+1) mod 5) + 5*y)))) idx25.

Definition iota (rc : N) (a : list N) : list N :=
  match a with [] => [] | h :: t => N.lxor h rc :: t end.

Definition keccak_round (a : list N) (rc : N) : list N := iota rc (chi (rho_pi (theta a))).
Definition keccak_f (a : list N) : list N := fold_left keccak_round round_consts a.

Definition rate : nat := 136.

(* split into chunks of n (last may be short; never for padded input) *)
Fixpoint chunks_fuel (fuel n : nat) (l : bytes) : list bytes :=
  match fuel with
  | O => []
  | S f => match l with [] => [] | _ => firstn n l :: chunks_fuel f n (skipn n l) end
  end.
Definition chunks (n : nat) (l : bytes) : list bytes := chunks_fuel (S (length l)) n l.

Definition pad101 (m : bytes) : bytes :=
  let q := (rate - (length m mod rate))%nat in
  if Nat.eqb q 1 then m ++ [x81]
  else m ++ [x01] ++ repeat x00 (q - 2) ++ [x80].

Definition lanes_of_block (blk : bytes) : list N := map N_of_le (chunks 8 blk).

Fixpoint xor_into (st : list N) (ls : list N) : list N :=
  match st, ls with
  | s :: st', l :: ls' => N.lxor s l :: xor_into st' ls'
  | _, [] => st
  | [], _ => []
  end.

Definition absorb (st : list N) (blk : bytes) : list N := keccak_f (xor_into st (lanes_of_block blk)).

Definition keccak256 (m : bytes) : bytes :=
  let st := fold_left absorb (chunks rate (pad101 m)) (repeat 0 25) in
  flat_map (le_fixed 8) (firstn 4 st).

Lemma keccak256_length m : length (keccak256 m) = 32%nat.
Proof.
  unfold keccak256.
  assert (H : forall st, length st = 25%nat -> length (flat_map (le_fixed 8) (firstn 4 st)) = 32%nat).
  { intros st Hl. do 25 (destruct st as [|? st]; [discriminate|]). reflexivity. }
  apply H.
  assert (Hk : forall st blk, length (absorb st blk) = 25%nat).
  { intros st blk. unfold absorb, keccak_f.
    assert (Hr : forall a rc, length (keccak_round a rc) = 25%nat).
    { intros a rc. unfold keccak_round, iota, chi.
      destruct (map _ idx25) as [|h t] eqn:E; [discriminate E|].
      change (length (h :: t)) with (length (N.lxor h rc :: t)).
      assert (L : length (h :: t) = 25%nat) by (rewrite <- E, map_length; reflexivity).
      simpl in *. lia. }
    generalize (xor_into st (lanes_of_block blk)) as a.
    assert (Hf : forall rcs a, rcs <> [] -> length (fold_left keccak_round rcs a) = 25%nat).
    { induction rcs as [|rc rcs IH]; intros a Hne; [congruence|].
      simpl. destruct rcs as [|rc' rcs']; [exact (Hr a rc)|]. apply IH. discriminate. }
    intros a. apply Hf. discriminate. }
  generalize (chunks rate (pad101 m)) as bl.
  assert (Hf : forall bl st, length st = 25%nat -> length (fold_left absorb bl st) = 25%nat).
  { induction bl as [|b bl IH]; intros st Hl; simpl; [assumption|]. apply IH, Hk. }
  intros bl. apply Hf. reflexivity.
Qed.

(* test vectors: "" and "abc" *)
Definition hex_c5d2 : bytes :=
 [xc5;xd2;x46;x01;x86;xf7;x23;x3c;x92;x7e;x7d;xb2;xdc;xc7;x03;xc0;
  xe5;x00;xb6;x53;xca;x82;x27;x3b;x7b;xfa;xd8;x04;x5d;x85;xa4;x70].
Example keccak256_empty : keccak256 [] = hex_c5d2.
Proof. vm_compute. reflexivity. Qed.
Example keccak256_abc : keccak256 [x61;x62;x63] =
 [x4e;x03;x65;x7a;xea;x45;xa9;x4f;xc7;xd4;x7b;xa8;x26;xc8;xd6;x67;
  xc0;xd1;xe6;xe3;x3a;x64;xa0;x36;xec;x44;xf5;x8f;xa1;x2d;x6c;x45].
Proof. vm_compute. reflexivity. Qed.
