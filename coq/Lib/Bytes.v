(* Lib/Bytes.v — byte strings, big-endian naturals.  Shared by every model.
   Bytes are Coq.Init.Byte.byte (256 constructors): no well-formedness side
   conditions appear in any theorem. *)
From Coq Require Export List ZArith NArith Lia Bool Arith.
From Coq Require Export Strings.Byte.
From Coq Require Import ZifyBool ZifyN ZifyNat.
Export ListNotations.
Local Open Scope N_scope.

Definition bytes := list byte.

Definition b2n (b : byte) : N := Byte.to_N b.
Definition n2b (n : N) : byte :=
  match Byte.of_N (n mod 256) with Some b => b | None => x00 end.
Definition b2z (b : byte) : Z := Z.of_N (b2n b).
Definition z2b (z : Z) : byte := n2b (Z.to_N (z mod 256)).

Lemma b2n_lt b : b2n b < 256.
Proof. unfold b2n. pose proof (Byte.to_N_bounded b). lia. Qed.

Lemma n2b_b2n b : n2b (b2n b) = b.
Proof.
  unfold n2b, b2n. rewrite N.mod_small by (pose proof (Byte.to_N_bounded b); lia).
  now rewrite Byte.of_to_N.
Qed.

Lemma b2n_n2b n : n < 256 -> b2n (n2b n) = n.
Proof.
  intros Hn. unfold n2b, b2n. rewrite N.mod_small by lia.
  destruct (Byte.of_N n) eqn:E.
  - now apply Byte.to_of_N.
  - apply Byte.of_N_None_iff in E. lia.
Qed.

Lemma b2n_n2b_mod n : b2n (n2b n) = n mod 256.
Proof.
  assert (H : n2b n = n2b (n mod 256)).
  { unfold n2b. now rewrite N.mod_mod by lia. }
  rewrite H. apply b2n_n2b. apply N.mod_lt. lia.
Qed.

Lemma b2n_inj a b : b2n a = b2n b -> a = b.
Proof. intros H. rewrite <- (n2b_b2n a), <- (n2b_b2n b). now rewrite H. Qed.

Definition byte_eqb (a b : byte) : bool := N.eqb (b2n a) (b2n b).
Lemma byte_eqb_spec a b : reflect (a = b) (byte_eqb a b).
Proof.
  unfold byte_eqb. destruct (N.eqb_spec (b2n a) (b2n b)) as [E|E]; constructor.
  - now apply b2n_inj.
  - intros ->. now apply E.
Qed.

Fixpoint bytes_eqb (a b : bytes) : bool :=
  match a, b with
  | [], [] => true
  | x :: a', y :: b' => byte_eqb x y && bytes_eqb a' b'
  | _, _ => false
  end.
Lemma bytes_eqb_spec a b : reflect (a = b) (bytes_eqb a b).
Proof.
  revert b. induction a as [|x a IH]; intros [|y b]; simpl; try (constructor; congruence).
  destruct (byte_eqb_spec x y) as [->|Hn]; simpl.
  - destruct (IH b) as [->|Hn]; constructor; congruence.
  - constructor. congruence.
Qed.
Lemma bytes_eqb_refl a : bytes_eqb a a = true.
Proof. destruct (bytes_eqb_spec a a); congruence. Qed.

(* ---- lengths as N ---- *)
Definition lenN {A} (l : list A) : N := N.of_nat (length l).
Lemma lenN_app {A} (a b : list A) : lenN (a ++ b) = lenN a + lenN b.
Proof. unfold lenN. rewrite app_length. lia. Qed.
Lemma lenN_cons {A} (x : A) l : lenN (x :: l) = 1 + lenN l.
Proof. unfold lenN. cbn [length]. lia. Qed.
Lemma lenN_nil {A} : lenN (@nil A) = 0.
Proof. reflexivity. Qed.

(* take n bytes or fail (Go: a bounds-checked read of exactly n bytes) *)
Definition takeN {A} (n : N) (l : list A) : option (list A * list A) :=
  if n <=? lenN l then Some (firstn (N.to_nat n) l, skipn (N.to_nat n) l) else None.

Lemma takeN_app {A} (a r : list A) : takeN (lenN a) (a ++ r) = Some (a, r).
Proof.
  unfold takeN. rewrite lenN_app.
  destruct (N.leb_spec (lenN a) (lenN a + lenN r)); [|lia].
  unfold lenN. rewrite Nat2N.id.
  rewrite firstn_app, skipn_app, Nat.sub_diag, firstn_all, skipn_all. simpl.
  now rewrite app_nil_r.
Qed.

Lemma takeN_spec {A} n (l a r : list A) :
  takeN n l = Some (a, r) -> l = a ++ r /\ lenN a = n.
Proof.
  unfold takeN. destruct (N.leb_spec n (lenN l)) as [H|H]; [|discriminate].
  intros E. injection E as <- <-. split.
  - now rewrite firstn_skipn.
  - unfold lenN in *. rewrite firstn_length. lia.
Qed.

(* ---- big-endian naturals, minimal form ---- *)
Fixpoint N_of_be_acc (acc : N) (bs : bytes) : N :=
  match bs with [] => acc | b :: t => N_of_be_acc (acc * 256 + b2n b) t end.
Definition N_of_be (bs : bytes) : N := N_of_be_acc 0 bs.

Fixpoint be_fuel (fuel : nat) (n : N) (acc : bytes) : bytes :=
  match fuel with
  | O => acc
  | S f => if n =? 0 then acc else be_fuel f (n / 256) (n2b (n mod 256) :: acc)
  end.
(* minimal big-endian: 0 -> [], no leading zero byte *)
Definition be_of_N (n : N) : bytes := be_fuel (N.to_nat (N.size n)) n [].

Lemma N_of_be_acc_app acc a b : N_of_be_acc acc (a ++ b) = N_of_be_acc (N_of_be_acc acc a) b.
Proof. revert acc. induction a as [|x a IH]; intros acc; simpl; [reflexivity|apply IH]. Qed.

Lemma N_of_be_acc_lin acc bs :
  N_of_be_acc acc bs = acc * 256 ^ lenN bs + N_of_be_acc 0 bs.
Proof.
  revert acc. induction bs as [|b t IH]; intros acc.
  - cbn. lia.
  - cbn [N_of_be_acc]. rewrite ?N.mul_0_l, ?N.add_0_l.
    rewrite (IH (acc * 256 + b2n b)), (IH (b2n b)), lenN_cons.
    replace (1 + lenN t) with (N.succ (lenN t)) by lia. rewrite N.pow_succ_r'. lia.
Qed.

Lemma be_fuel_spec f : forall n acc,
  n < 2 ^ N.of_nat f ->
  exists pre, be_fuel f n acc = pre ++ acc /\ N_of_be pre = n /\
              (n = 0 -> pre = []) /\ (n <> 0 -> exists h t, pre = h :: t /\ b2n h <> 0).
Proof.
  induction f as [|f IH]; intros n acc Hn.
  - simpl in *. assert (n = 0) by lia. subst. exists []. repeat split; try reflexivity.
    intros H; lia.
  - cbn [be_fuel]. destruct (N.eqb_spec n 0) as [->|Hnz].
    + exists []. repeat split; try reflexivity. intros H; lia.
    + assert (Hlt : n / 256 < 2 ^ N.of_nat f).
      { rewrite Nat2N.inj_succ, N.pow_succ_r' in Hn.
        apply N.div_lt_upper_bound; [lia|].
        assert (1 <= 2 ^ N.of_nat f) by (apply N.neq_0_lt_0 in Hnz; pose proof (N.pow_nonzero 2 (N.of_nat f)); lia).
        lia. }
      destruct (IH (n / 256) (n2b (n mod 256) :: acc) Hlt) as (pre & E & Hv & Hz & Hnzp).
      exists (pre ++ [n2b (n mod 256)]). split; [|split; [|split]].
      * rewrite E. now rewrite <- app_assoc.
      * unfold N_of_be in *. rewrite N_of_be_acc_app. rewrite Hv. simpl.
        rewrite b2n_n2b by (apply N.mod_lt; lia).
        pose proof (N.div_mod n 256). lia.
      * intros; lia.
      * intros _. destruct (N.eqb_spec (n / 256) 0) as [Hq|Hq].
        -- rewrite (Hz Hq). simpl. exists (n2b (n mod 256)), []. split; [reflexivity|].
           rewrite b2n_n2b by (apply N.mod_lt; lia).
           pose proof (N.div_mod n 256). lia.
        -- destruct (Hnzp Hq) as (h & t & -> & Hh). exists h, (t ++ [n2b (n mod 256)]).
           split; [reflexivity|assumption].
Qed.

Lemma N_size_bound n : n < 2 ^ N.of_nat (N.to_nat (N.size n)).
Proof.
  rewrite N2Nat.id. destruct n as [|p]; [simpl; lia|].
  apply N.size_gt.
Qed.

Lemma be_of_N_spec n :
  N_of_be (be_of_N n) = n /\ (n = 0 -> be_of_N n = []) /\
  (n <> 0 -> exists h t, be_of_N n = h :: t /\ b2n h <> 0).
Proof.
  unfold be_of_N. destruct (be_fuel_spec _ n [] (N_size_bound n)) as (pre & E & Hv & Hz & Hnz).
  rewrite E, app_nil_r. auto.
Qed.

Lemma N_of_be_of_N n : N_of_be (be_of_N n) = n.
Proof. apply be_of_N_spec. Qed.

Lemma be_of_N_0 : be_of_N 0 = [].
Proof. reflexivity. Qed.

Lemma N_of_be_lt bs : N_of_be bs < 256 ^ lenN bs.
Proof.
  unfold N_of_be. induction bs as [|b t IH] using rev_ind.
  - cbn. lia.
  - rewrite N_of_be_acc_app. simpl. rewrite lenN_app.
    change (lenN [b]) with 1. rewrite N.pow_add_r. pose proof (b2n_lt b). simpl (256 ^ 1). lia.
Qed.

(* no leading zero byte *)
Definition no_lead0 (bs : bytes) : bool :=
  match bs with [] => true | h :: _ => negb (b2n h =? 0) end.

Lemma be_of_N_no_lead0 n : no_lead0 (be_of_N n) = true.
Proof.
  destruct (be_of_N_spec n) as (_ & Hz & Hnz).
  destruct (N.eq_dec n 0) as [E|E].
  - now rewrite (Hz E).
  - destruct (Hnz E) as (h & t & -> & Hh). simpl. destruct (N.eqb_spec (b2n h) 0); [contradiction|reflexivity].
Qed.

(* minimal big-endian is injective on its value: uniqueness of the no-leading-zero form *)
Lemma N_of_be_head_lower h t : b2n h <> 0 -> 256 ^ lenN t <= N_of_be (h :: t).
Proof.
  intros Hh. unfold N_of_be. simpl. rewrite N_of_be_acc_lin.
  assert (1 <= b2n h) by lia. nia.
Qed.

Lemma be_unique_aux : forall (k : nat) (a b : bytes),
  length a = k -> no_lead0 a = true -> no_lead0 b = true -> N_of_be a = N_of_be b -> a = b.
Proof.
  (* compare lengths via the bounds, then positional equality *)
  assert (Hsame : forall a b : bytes, length a = length b -> N_of_be a = N_of_be b -> a = b).
  { induction a as [|x a IH] using rev_ind; intros b Hl Hv.
    - destruct b; [reflexivity|discriminate].
    - destruct b as [|y b _] using rev_ind; [rewrite app_length in Hl; simpl in Hl; lia|].
      unfold N_of_be in Hv. rewrite !N_of_be_acc_app in Hv. simpl in Hv.
      rewrite !app_length in Hl. simpl in Hl.
      pose proof (b2n_lt x). pose proof (b2n_lt y).
      assert (N_of_be_acc 0 a = N_of_be_acc 0 b /\ b2n x = b2n y) as [H1 H2] by lia.
      f_equal; [apply IH; [lia|exact H1]|f_equal; now apply b2n_inj]. }
  intros k a b _ Ha Hb Hv.
  destruct (Nat.lt_trichotomy (length a) (length b)) as [Hl|[Hl|Hl]].
  - exfalso. destruct b as [|h t]; [simpl in Hl; lia|].
    simpl in Hb. destruct (N.eqb_spec (b2n h) 0) as [|Hh]; [discriminate|].
    pose proof (N_of_be_head_lower h t Hh). pose proof (N_of_be_lt a).
    assert (256 ^ lenN a <= 256 ^ lenN t).
    { apply N.pow_le_mono_r; [lia|]. unfold lenN. simpl in Hl. lia. }
    lia.
  - now apply Hsame.
  - exfalso. destruct a as [|h t]; [simpl in Hl; lia|].
    simpl in Ha. destruct (N.eqb_spec (b2n h) 0) as [|Hh]; [discriminate|].
    pose proof (N_of_be_head_lower h t Hh). pose proof (N_of_be_lt b).
    assert (256 ^ lenN b <= 256 ^ lenN t).
    { apply N.pow_le_mono_r; [lia|]. unfold lenN. simpl in Hl. lia. }
    lia.
Qed.

Lemma be_of_N_of_be bs : no_lead0 bs = true -> be_of_N (N_of_be bs) = bs.
Proof.
  intros H. apply (be_unique_aux (length (be_of_N (N_of_be bs)))); auto.
  - apply be_of_N_no_lead0.
  - apply N_of_be_of_N.
Qed.

(* length of the minimal form against the magnitude *)
Lemma be_of_N_len_le n k : n < 256 ^ k -> lenN (be_of_N n) <= k.
Proof.
  intros Hn. destruct (be_of_N_spec n) as (Hv & Hz & Hnz).
  destruct (N.eq_dec n 0) as [E|E]; [rewrite (Hz E), lenN_nil; lia|].
  destruct (Hnz E) as (h & t & Ebe & Hh).
  pose proof (N_of_be_head_lower h t Hh) as Hlow. rewrite <- Ebe, Hv in Hlow.
  rewrite Ebe, lenN_cons.
  destruct (N.le_gt_cases (1 + lenN t) k) as [|Hgt]; [assumption|exfalso].
  assert (256 ^ k <= 256 ^ lenN t) by (apply N.pow_le_mono_r; lia). lia.
Qed.

(* fixed-width big-endian (left padded), e.g. 32-byte words, uint64 *)
Fixpoint be_fixed (w : nat) (n : N) : bytes :=
  match w with O => [] | S w' => be_fixed w' (n / 256) ++ [n2b (n mod 256)] end.
Lemma be_fixed_length w n : length (be_fixed w n) = w.
Proof. revert n. induction w as [|w IH]; intros n; simpl; [reflexivity|]. rewrite app_length, IH. simpl. lia. Qed.
Lemma N_of_be_fixed w : forall n, n < 256 ^ N.of_nat w -> N_of_be (be_fixed w n) = n.
Proof.
  induction w as [|w IH]; intros n Hn.
  - change (256 ^ N.of_nat 0) with 1 in Hn. cbn. lia.
  - cbn [be_fixed]. unfold N_of_be. rewrite N_of_be_acc_app. simpl.
    fold (N_of_be (be_fixed w (n / 256))). rewrite IH.
    + rewrite b2n_n2b by (apply N.mod_lt; lia). pose proof (N.div_mod n 256). lia.
    + rewrite Nat2N.inj_succ, N.pow_succ_r' in Hn. apply N.div_lt_upper_bound; lia.
Qed.

(* little-endian fixed width (seal seeds, keccak lanes) *)
Fixpoint le_fixed (w : nat) (n : N) : bytes :=
  match w with O => [] | S w' => n2b (n mod 256) :: le_fixed w' (n / 256) end.
Fixpoint N_of_le (bs : bytes) : N :=
  match bs with [] => 0 | b :: t => b2n b + 256 * N_of_le t end.
Lemma le_fixed_length w n : length (le_fixed w n) = w.
Proof. revert n. induction w as [|w IH]; intros n; simpl; [reflexivity|now rewrite IH]. Qed.
Lemma N_of_le_fixed w : forall n, n < 256 ^ N.of_nat w -> N_of_le (le_fixed w n) = n.
Proof.
  induction w as [|w IH]; intros n Hn.
  - change (256 ^ N.of_nat 0) with 1 in Hn. cbn. lia.
  - cbn [le_fixed N_of_le]. rewrite IH.
    + rewrite b2n_n2b by (apply N.mod_lt; lia). pose proof (N.div_mod n 256). lia.
    + rewrite Nat2N.inj_succ, N.pow_succ_r' in Hn. apply N.div_lt_upper_bound; lia.
Qed.

Definition zeros (n : nat) : bytes := repeat x00 n.
(* left-pad to w bytes (common.LeftPadBytes / BigToHash: keeps the low w bytes) *)
Definition left_pad (w : nat) (bs : bytes) : bytes :=
  if Nat.leb (length bs) w then zeros (w - length bs) ++ bs else skipn (length bs - w) bs.
(* right-pad (common.RightPadBytes) *)
Definition right_pad (w : nat) (bs : bytes) : bytes :=
  if Nat.leb (length bs) w then bs ++ zeros (w - length bs) else bs.
