(* Chain/ChainReopen.v — close/reopen inside the C02 histories: the LastBlock
   pointer always names the in-memory head, so loadLastState finds the same head
   again; the store invariant, the head and its total difficulty survive. *)
From Coq Require Import NArith List Bool Lia ZifyBool ZifyN ZifyNat.
From AQ Require Import Chain.Store Chain.ChainSpec Chain.ChainProofs Chain.Crash Chain.CrashProofs.
Import ListNotations.
Local Open Scope N_scope.

Definition hb (d : disk) : N := head_ptr d KHeadBlock.
(* the persistent head pointer names the in-memory head block *)
Definition PtrOK (s : st) : Prop := hb (dsk s) = s_hash (cur_block s) /\ s_hash (cur_block s) <> 0.

Definition bop_other (kv : key * option value) : Prop := fst kv <> KHeadBlock.
Lemma hb_put_other : forall d k v, k <> KHeadBlock -> hb (put k v d) = hb d.
Proof. intros d k v H. unfold hb, head_ptr. rewrite get_put. destruct (key_eq_dec KHeadBlock k); [congruence|reflexivity]. Qed.
Lemma hb_del_other : forall d k, k <> KHeadBlock -> hb (del k d) = hb d.
Proof. intros d k H. unfold hb, head_ptr. rewrite get_del. destruct (key_eq_dec KHeadBlock k); [congruence|reflexivity]. Qed.
Lemma hb_batch_other : forall l d, (forall kv, In kv l -> fst kv <> KHeadBlock) -> hb (fold_left apply_bop l d) = hb d.
Proof.
  induction l as [|[k ov] l IH]; intros d H; cbn [fold_left]; [reflexivity|].
  rewrite IH by (intros; apply H; right; assumption).
  unfold apply_bop; cbn [fst snd]. specialize (H (k, ov) (or_introl eq_refl)). cbn [fst] in H.
  destruct ov; [apply hb_put_other|apply hb_del_other]; exact H.
Qed.

Lemma bc_insert_hb : forall b s, hb (dsk (bc_insert b s)) = s_hash b.
Proof.
  intros b s. unfold bc_insert.
  destruct (negb (canon (dsk s) (s_num b) =? s_hash b)); cbn [dsk emit set_cur_block set_cur_header set_cur_fast apply_wop];
    rewrite ?hb_put_other by discriminate; unfold hb, head_ptr; rewrite get_put;
    (destruct (key_eq_dec KHeadBlock KHeadBlock); [reflexivity|congruence]).
Qed.

Lemma reorg_fail_unchanged : forall fuel o n s, fst (reorg fuel o n s) <> SOk -> snd (reorg fuel o n s) = s.
Proof.
  intros fuel o n s. unfold reorg.
  destruct (s_num n <? s_num o).
  - destruct (walk fuel (dsk s) (Some o) (s_num n) []) as [[[x|] oc]|]; cbn [fst snd]; try reflexivity.
    destruct (lockstep fuel (dsk s) x n oc []); cbn [fst snd]; try reflexivity. congruence.
  - destruct (walk fuel (dsk s) (Some n) (s_num o) []) as [[[x|] nc]|]; cbn [fst snd]; try reflexivity.
    destruct (lockstep fuel (dsk s) o x [] nc); cbn [fst snd]; try reflexivity. congruence.
Qed.

Lemma ptr_mem : forall s s', dsk s' = dsk s -> cur_block s' = cur_block s -> PtrOK s -> PtrOK s'.
Proof. intros s s' Ed Ec H. unfold PtrOK in *. rewrite Ed, Ec. exact H. Qed.
Lemma ptr_same : forall s s', hb (dsk s') = hb (dsk s) -> cur_block s' = cur_block s -> PtrOK s -> PtrOK s'.
Proof. intros s s' Ed Ec H. unfold PtrOK in *. rewrite Ed, Ec. exact H. Qed.

Lemma wbws_ptr : forall b s, h_hash (b_hdr b) <> 0 -> PtrOK s -> PtrOK (snd (write_block_with_state b s)).
Proof.
  intros b s Hnz P. unfold write_block_with_state.
  set (hd := b_hdr b). set (txs := b_txs b). set (h := h_hash hd).
  destruct (td_of (dsk s) (h_parent hd)) as [ptd|]; [|exact P].
  cbv zeta. set (ext := h_diff hd + ptd).
  set (s1 := emit (Put (KState (h_root hd)) VUnit) (emit (Put (KTd h) (VNum ext)) s)).
  assert (P1 : PtrOK s1).
  { apply (ptr_same s); [|reflexivity|exact P]. unfold s1. cbn [dsk emit apply_wop]. rewrite !hb_put_other by discriminate. reflexivity. }
  destruct (td_of (dsk s) (s_hash (cur_block s))) as [ltd|]; [|exact P1].
  assert (Hside : forall s1', dsk s1' = dsk s1 -> cur_block s1' = cur_block s1 ->
            PtrOK (emit (Batch ([(KBody h, Some (VTxs txs)); (KHashNum h, Some (VNum (h_number hd))); (KHeader h, Some (VHeader hd))]
                               ++ [(KReceipts h, Some (VTxs txs))])) s1')).
  { intros s1' Ed Ec. apply (ptr_same s1); [|exact Ec|exact P1]. cbn [dsk emit apply_wop]. rewrite hb_batch_other.
    - rewrite Ed. reflexivity.
    - intros kv Hkv. cbn [app In] in Hkv. repeat (destruct Hkv as [<-|Hkv]; [discriminate|]). contradiction. }
  assert (Hmain : forall s1', dsk s1' = dsk s1 -> cur_block s1' = cur_block s1 ->
            PtrOK (snd (let r := if h_parent hd =? s_hash (cur_block s) then (SOk, s1')
                               else reorg (reorg_fuel s1' (h_number hd)) (cur_block s) (to_s b) s1' in
                      match r with
                      | (SOk, s0) =>
                        (SOk, bc_insert (to_s b)
                           (emit (Batch (([(KBody h, Some (VTxs txs)); (KHashNum h, Some (VNum (h_number hd))); (KHeader h, Some (VHeader hd))]
                               ++ [(KReceipts h, Some (VTxs txs))])
                               ++ map (fun kv : key * value => (fst kv, Some (snd kv))) (lookup_puts h (h_number hd) 0 txs))) s0))
                      | other => other
                      end))).
  { intros s1' Ed Ec. cbv zeta.
    assert (P1' : PtrOK s1') by (eapply ptr_mem; eassumption).
    set (r := if h_parent hd =? s_hash (cur_block s) then (SOk, s1')
              else reorg (reorg_fuel s1' (h_number hd)) (cur_block s) (to_s b) s1').
    assert (Hr : fst r <> SOk -> snd r = s1').
    { unfold r. destruct (h_parent hd =? s_hash (cur_block s)); [reflexivity|apply reorg_fail_unchanged]. }
    destruct r as [e s3]. cbn [fst snd] in Hr.
    destruct e; cbn [snd]; try (rewrite Hr by discriminate; exact P1').
    unfold PtrOK. rewrite bc_insert_hb, bc_insert_cur. split; [reflexivity|exact Hnz]. }
  destruct (ltd <? ext).
  { apply (Hmain s1); reflexivity. }
  destruct (ext =? ltd).
  2:{ cbn [snd]. apply (Hside s1); reflexivity. }
  destruct (h_number hd <? s_num (cur_block s)).
  { apply (Hmain s1); reflexivity. }
  destruct (h_number hd =? s_num (cur_block s)).
  2:{ cbn [snd]. apply (Hside s1); reflexivity. }
  destruct (coins s1) as [|c rest] eqn:Ec; [exact P1|].
  destruct c.
  - apply (Hmain (set_coins rest s1)); reflexivity.
  - cbn [snd]. apply (Hside (set_coins rest s1)); reflexivity.
Qed.

Lemma wbwos_ptr : forall b td s, PtrOK s -> PtrOK (write_block_without_state b td s).
Proof.
  intros b td s P. apply (ptr_same s); [|reflexivity|exact P]. unfold write_block_without_state. cbn [dsk emit apply_wop].
  rewrite !hb_put_other by discriminate. reflexivity.
Qed.

Lemma ic_loop_ptr : forall chain prev idx s, (forall b, In b chain -> h_hash (b_hdr b) <> 0) -> PtrOK s -> PtrOK (snd (ic_loop prev idx chain s)).
Proof.
  induction chain as [|b rest IH]; intros prev idx s Hnz P; [exact P|].
  assert (Hb : h_hash (b_hdr b) <> 0) by (apply Hnz; left; reflexivity).
  assert (IH' : forall prev idx s, PtrOK s -> PtrOK (snd (ic_loop prev idx rest s))) by (intros; apply IH; [intros; apply Hnz; right; assumption|assumption]).
  rewrite ic_loop_cons.
  assert (Hproc : PtrOK (snd (ic_process prev idx b s (ic_loop (Some b) (idx + 1) rest)))).
  { unfold ic_process.
    destruct (match prev with Some p => Some (h_root (b_hdr p)) | None => option_map s_root (block_of (dsk s) (h_parent (b_hdr b))) end); [|exact P].
    destruct (negb (has_state (dsk s) n)); [exact P|].
    destruct (negb (b_valid b)); [exact P|].
    pose proof (wbws_ptr b s Hb P) as Hw.
    destruct (write_block_with_state b s) as [e s']. cbn [snd] in Hw.
    destruct e; try exact Hw. apply IH'. exact Hw. }
  destruct (validate_body (dsk s) (b_hdr b)).
  - destruct (h_number (b_hdr b) <=? s_num (cur_block s)); [apply IH'; exact P|exact Hproc].
  - exact P.
  - destruct (td_of (dsk s) (s_hash (cur_block s))); [|exact P].
    destruct (td_of (dsk s) (h_parent (b_hdr b))); [|exact P].
    cbv zeta. destruct (_ <? _); [|exact P]. apply IH', wbwos_ptr, P.
  - exact Hproc.
Qed.

Lemma cp_sub : forall l p x, In x (contiguous_prefix p l) -> In x l.
Proof.
  induction l as [|y l IHl]; intros p x Hx; cbn [contiguous_prefix] in Hx; [contradiction|].
  destruct ((h_number (b_hdr y) =? h_number (b_hdr p) + 1) && (h_parent (b_hdr y) =? h_hash (b_hdr p))); [|contradiction].
  destruct Hx as [<-|Hx]; [left; reflexivity|right; eapply IHl; exact Hx].
Qed.

Lemma insert_chain_ptr : forall chain cs s, (forall b, In b chain -> h_hash (b_hdr b) <> 0) -> PtrOK s -> PtrOK (snd (insert_chain chain cs s)).
Proof.
  intros chain cs s Hnz P. unfold insert_chain. destruct chain as [|b r]; [exact P|].
  apply ic_loop_ptr; [|exact P].
  intros x [<-|Hx]; [apply Hnz; left; reflexivity|apply Hnz; right; eapply cp_sub; exact Hx].
Qed.

(* the number index names the head at the head's own height *)
Definition CanonHead (s : st) : Prop := canon (dsk s) (s_num (cur_block s)) = s_hash (cur_block s).

Lemma cn_put_other : forall d k v n, (forall m, k <> KCanon m) -> canon (put k v d) n = canon d n.
Proof. intros d k v n H. unfold canon. rewrite get_put. destruct (key_eq_dec (KCanon n) k) as [E|]; [exfalso; apply (H n); symmetry; exact E|reflexivity]. Qed.
Lemma cn_del_other : forall d k n, (forall m, k <> KCanon m) -> canon (del k d) n = canon d n.
Proof. intros d k n H. unfold canon. rewrite get_del. destruct (key_eq_dec (KCanon n) k) as [E|]; [exfalso; apply (H n); symmetry; exact E|reflexivity]. Qed.
Lemma cn_batch_other : forall l d n, (forall kv, In kv l -> forall m, fst kv <> KCanon m) -> canon (fold_left apply_bop l d) n = canon d n.
Proof.
  induction l as [|[k ov] l IH]; intros d n H; cbn [fold_left]; [reflexivity|].
  rewrite IH by (intros; apply H; right; assumption).
  unfold apply_bop; cbn [fst snd]. pose proof (H (k, ov) (or_introl eq_refl)) as Hk. cbn [fst] in Hk.
  destruct ov; [apply cn_put_other|apply cn_del_other]; exact Hk.
Qed.
Lemma bc_insert_cn : forall b s, canon (dsk (bc_insert b s)) (s_num b) = s_hash b.
Proof.
  intros b s. unfold bc_insert.
  destruct (negb (canon (dsk s) (s_num b) =? s_hash b)); cbn [dsk emit set_cur_block set_cur_header set_cur_fast apply_wop];
    rewrite ?cn_put_other by (intro; discriminate); unfold canon; rewrite get_put;
    (destruct (key_eq_dec (KCanon (s_num b)) (KCanon (s_num b))); [reflexivity|congruence]).
Qed.
Lemma ch_mem : forall s s', dsk s' = dsk s -> cur_block s' = cur_block s -> CanonHead s -> CanonHead s'.
Proof. intros s s' Ed Ec H. unfold CanonHead in *. rewrite Ed, Ec. exact H. Qed.
Lemma ch_same : forall s s', (forall n, canon (dsk s') n = canon (dsk s) n) -> cur_block s' = cur_block s -> CanonHead s -> CanonHead s'.
Proof. intros s s' Ed Ec H. unfold CanonHead in *. rewrite Ed, Ec. exact H. Qed.

Lemma wbws_ch : forall b s, CanonHead s -> CanonHead (snd (write_block_with_state b s)).
Proof.
  intros b s P. unfold write_block_with_state.
  set (hd := b_hdr b). set (txs := b_txs b). set (h := h_hash hd).
  destruct (td_of (dsk s) (h_parent hd)) as [ptd|]; [|exact P].
  cbv zeta. set (ext := h_diff hd + ptd).
  set (s1 := emit (Put (KState (h_root hd)) VUnit) (emit (Put (KTd h) (VNum ext)) s)).
  assert (P1 : CanonHead s1).
  { apply (ch_same s); [|reflexivity|exact P]. intro n0. unfold s1. cbn [dsk emit apply_wop]. rewrite !cn_put_other by (intro; discriminate). reflexivity. }
  destruct (td_of (dsk s) (s_hash (cur_block s))) as [ltd|]; [|exact P1].
  assert (Hside : forall s1', dsk s1' = dsk s1 -> cur_block s1' = cur_block s1 ->
            CanonHead (emit (Batch ([(KBody h, Some (VTxs txs)); (KHashNum h, Some (VNum (h_number hd))); (KHeader h, Some (VHeader hd))]
                               ++ [(KReceipts h, Some (VTxs txs))])) s1')).
  { intros s1' Ed Ec. apply (ch_same s1); [|exact Ec|exact P1]. intro n0. cbn [dsk emit apply_wop]. rewrite cn_batch_other.
    - rewrite Ed. reflexivity.
    - intros kv Hkv. cbn [app In] in Hkv. repeat (destruct Hkv as [<-|Hkv]; [intro; discriminate|]). contradiction. }
  assert (Hmain : forall s1', dsk s1' = dsk s1 -> cur_block s1' = cur_block s1 ->
            CanonHead (snd (let r := if h_parent hd =? s_hash (cur_block s) then (SOk, s1')
                               else reorg (reorg_fuel s1' (h_number hd)) (cur_block s) (to_s b) s1' in
                      match r with
                      | (SOk, s0) =>
                        (SOk, bc_insert (to_s b)
                           (emit (Batch (([(KBody h, Some (VTxs txs)); (KHashNum h, Some (VNum (h_number hd))); (KHeader h, Some (VHeader hd))]
                               ++ [(KReceipts h, Some (VTxs txs))])
                               ++ map (fun kv : key * value => (fst kv, Some (snd kv))) (lookup_puts h (h_number hd) 0 txs))) s0))
                      | other => other
                      end))).
  { intros s1' Ed Ec. cbv zeta.
    assert (P1' : CanonHead s1') by (eapply ch_mem; eassumption).
    set (r := if h_parent hd =? s_hash (cur_block s) then (SOk, s1')
              else reorg (reorg_fuel s1' (h_number hd)) (cur_block s) (to_s b) s1').
    assert (Hr : fst r <> SOk -> snd r = s1').
    { unfold r. destruct (h_parent hd =? s_hash (cur_block s)); [reflexivity|apply reorg_fail_unchanged]. }
    destruct r as [e s3]. cbn [fst snd] in Hr.
    destruct e; cbn [snd]; try (rewrite Hr by discriminate; exact P1').
    unfold CanonHead. rewrite bc_insert_cur. apply bc_insert_cn. }
  destruct (ltd <? ext).
  { apply (Hmain s1); reflexivity. }
  destruct (ext =? ltd).
  2:{ cbn [snd]. apply (Hside s1); reflexivity. }
  destruct (h_number hd <? s_num (cur_block s)).
  { apply (Hmain s1); reflexivity. }
  destruct (h_number hd =? s_num (cur_block s)).
  2:{ cbn [snd]. apply (Hside s1); reflexivity. }
  destruct (coins s1) as [|c rest] eqn:Ec; [exact P1|].
  destruct c.
  - apply (Hmain (set_coins rest s1)); reflexivity.
  - cbn [snd]. apply (Hside (set_coins rest s1)); reflexivity.
Qed.

Lemma wbwos_ch : forall b td s, CanonHead s -> CanonHead (write_block_without_state b td s).
Proof.
  intros b td s P. apply (ch_same s); [|reflexivity|exact P]. intro n0. unfold write_block_without_state. cbn [dsk emit apply_wop].
  rewrite !cn_put_other by (intro; discriminate). reflexivity.
Qed.

Lemma ic_loop_ch : forall chain prev idx s, CanonHead s -> CanonHead (snd (ic_loop prev idx chain s)).
Proof.
  induction chain as [|b rest IH]; intros prev idx s P; [exact P|].
  assert (IH' : forall prev idx s, CanonHead s -> CanonHead (snd (ic_loop prev idx rest s))) by (intros; apply IH; assumption).
  rewrite ic_loop_cons.
  assert (Hproc : CanonHead (snd (ic_process prev idx b s (ic_loop (Some b) (idx + 1) rest)))).
  { unfold ic_process.
    destruct (match prev with Some p => Some (h_root (b_hdr p)) | None => option_map s_root (block_of (dsk s) (h_parent (b_hdr b))) end); [|exact P].
    destruct (negb (has_state (dsk s) n)); [exact P|].
    destruct (negb (b_valid b)); [exact P|].
    pose proof (wbws_ch b s P) as Hw.
    destruct (write_block_with_state b s) as [e s']. cbn [snd] in Hw.
    destruct e; try exact Hw. apply IH'. exact Hw. }
  destruct (validate_body (dsk s) (b_hdr b)).
  - destruct (h_number (b_hdr b) <=? s_num (cur_block s)); [apply IH'; exact P|exact Hproc].
  - exact P.
  - destruct (td_of (dsk s) (s_hash (cur_block s))); [|exact P].
    destruct (td_of (dsk s) (h_parent (b_hdr b))); [|exact P].
    cbv zeta. destruct (_ <? _); [|exact P]. apply IH', wbwos_ch, P.
  - exact Hproc.
Qed.

Lemma insert_chain_ch : forall chain cs s, CanonHead s -> CanonHead (snd (insert_chain chain cs s)).
Proof.
  intros chain cs s P. unfold insert_chain. destruct chain as [|b r]; [exact P|].
  apply ic_loop_ch. exact P.
Qed.

Section Reopen.
Variable U : N -> sblock.
Variable g : header.
Hypothesis Ug : U (h_hash g) = (g, []).
Hypothesis g0 : h_number g = 0.
Variable d0 : disk.
Notation TOK := (TraceOK block_data_complete d0).

(* close + reopen: loadLastState finds the same head again *)
Lemma reopen_good : forall s, Inv U g s -> PtrOK s -> TOK s ->
  Inv U g (snd (reopen s)) /\ PtrOK (snd (reopen s)) /\ TOK (snd (reopen s)) /\
  head_td (snd (reopen s)) = head_td s /\
  (forall k, header_of (dsk (snd (reopen s))) k = header_of (dsk s) k) /\
  cur_block (snd (reopen s)) = cur_block s /\
  (forall n, canon (dsk (snd (reopen s))) n = canon (dsk s) n).
Proof.
  intros s I [Ph Pnz] T.
  assert (Triv : Inv U g s /\ PtrOK s /\ TOK s /\ head_td s = head_td s /\ (forall k, header_of (dsk s) k = header_of (dsk s) k)
                 /\ cur_block s = cur_block s /\ (forall n, canon (dsk s) n = canon (dsk s) n))
    by (split; [exact I|split; [split; assumption|split; [exact T|split; [reflexivity|split; [intro; reflexivity|split; [reflexivity|intro; reflexivity]]]]]]).
  unfold reopen.
  destruct (header_of (dsk s) (canon (dsk s) 0)) as [gh|]; [|exact Triv].
  destruct (block_of (dsk s) (canon (dsk s) 0)) as [g'|]; [|exact Triv].
  set (ch0 := let hb0 := head_ptr (dsk s) KHeadBlock in
              if hb0 =? 0 then gh else match header_by_hash (dsk s) hb0 with Some x => x | None => gh end).
  set (s2 := set_cur_fast g' (set_cur_block g' (set_cur_header ch0 (set_genesis g' (set_coins [] s))))).
  assert (Ed2 : dsk s2 = dsk s) by reflexivity.
  unfold load_last_state. rewrite Ed2.
  fold (hb (dsk s)). rewrite Ph.
  assert (E0 : (s_hash (cur_block s) =? 0) = false) by lia. rewrite E0.
  (* the head block is found again through its hash->number record *)
  pose proof (inv_cur _ _ _ I) as Hcur.
  assert (Hhd : header_of (dsk s) (s_hash (cur_block s)) = Some (fst (cur_block s))).
  { unfold block_of in Hcur. destruct (header_of (dsk s) (s_hash (cur_block s))) as [x|]; [|discriminate].
    destruct (body_of (dsk s) (s_hash (cur_block s))) as [l|]; [|discriminate]. injection Hcur as <-. reflexivity. }
  destruct (trace_P _ _ _ T _ _ Hhd) as (_ & _ & Hst & Hnum).
  assert (Ebh : block_by_hash (dsk s) (s_hash (cur_block s)) = Some (cur_block s)).
  { unfold block_by_hash. destruct (number_of (dsk s) (s_hash (cur_block s))); [exact Hcur|congruence]. }
  rewrite Ebh. unfold s_root. rewrite Hst. cbn [negb].
  set (ch := if hb (dsk s) =? 0 then fst (cur_block s)
             else match header_by_hash (dsk s) (head_ptr (dsk s) KHeadHeader) with Some x => x | None => fst (cur_block s) end).
  cbn [snd].
  (* the result: s plus one LastHeader write, same head *)
  match goal with |- Inv U g ?r /\ _ => set (s' := r) end.
  assert (Ec' : cur_block s' = cur_block s) by reflexivity.
  assert (Ed' : exists v, dsk s' = put KHeadHeader v (dsk s)) by (eexists; reflexivity).
  destruct Ed' as [v Ed'].
  assert (Hsc : same_core (dsk s) (dsk s')) by (rewrite Ed'; apply same_core_put; reflexivity).
  assert (Ehd' : head_td s' = head_td s) by (unfold head_td, td_or0; rewrite Ec', (sc_td _ _ _ Hsc); reflexivity).
  split; [|split; [|split; [|split; [exact Ehd'|split; [intro k; apply (sc_header _ _ _ Hsc)|split; [exact Ec'|intro n; rewrite Ed'; apply cn_put_other; intro; discriminate]]]]]].
  - constructor.
    + apply (invD_same_core U g _ _ Hsc (inv_d _ _ _ I)).
    + rewrite Ec', (sc_block _ _ _ Hsc). exact Hcur.
    + intros k Hk. rewrite Ehd'. rewrite (sc_header _ _ _ Hsc) in Hk. unfold td_or0. rewrite (sc_td _ _ _ Hsc). apply (inv_heavy _ _ _ I _ Hk).
  - unfold PtrOK. rewrite Ec', Ed', hb_put_other by discriminate. split; assumption.
  - unfold s'.
    eapply trace_mem; [reflexivity|reflexivity|].
    eapply trace_mem; [reflexivity|reflexivity|].
    apply (trace_put_noncore _ bdc_core); [reflexivity|].
    eapply trace_mem; [| |exact T]; reflexivity.
Qed.

(* histories of InsertChain calls and close/reopen *)
Definition imports_and_reopens (ops : list op) : Prop :=
  forall o, In o ops -> (exists c cs, o = OpInsert c cs) \/ o = OpReopen.

Definition J (s : st) : Prop := Inv U g s /\ PtrOK s /\ TOK s.

Lemma run_J : forall ops s,
  imports_and_reopens ops -> (forall b, In b (blocks_of ops) -> wf_block U b /\ h_hash (b_hdr b) <> 0) ->
  J s -> J (run ops s) /\ head_td s <= head_td (run ops s) /\
         (forall k, header_of (dsk s) k <> None -> header_of (dsk (run ops s)) k <> None).
Proof.
  induction ops as [|o ops IH]; intros s Hio W Js.
  - split; [exact Js|split; [cbn; lia|auto]].
  - assert (Hio' : imports_and_reopens ops) by (intros o' Ho'; apply Hio; right; exact Ho').
    unfold run. cbn [fold_left]. fold (run ops (snd (step o s))).
    destruct Js as (I & P & T).
    destruct (Hio o (or_introl eq_refl)) as [(c & cs & ->)| ->].
    + assert (Estep : snd (step (OpInsert c cs) s) = snd (insert_chain c cs s))
        by (cbn [step]; destruct (insert_chain c cs s) as [[e i] s']; reflexivity).
      rewrite Estep.
      assert (Wc : forall b, In b c -> wf_block U b /\ h_hash (b_hdr b) <> 0).
      { intros b Hb. apply W. unfold blocks_of. cbn [flat_map blocks_of_op]. apply in_or_app. left. exact Hb. }
      destruct (insert_chain_good U g Ug g0 c cs s I (fun b Hb => proj1 (Wc b Hb))) as (I1 & L1 & M1).
      pose proof (insert_chain_ptr c cs s (fun b Hb => proj2 (Wc b Hb)) P) as P1.
      pose proof (insert_chain_trace U g Ug g0 d0 c cs s I T (fun b Hb => proj1 (Wc b Hb))) as T1.
      destruct (IH (snd (insert_chain c cs s)) Hio') as (J2 & L2 & M2).
      * intros b Hb. apply W. unfold blocks_of. cbn [flat_map]. apply in_or_app. right. exact Hb.
      * split; [exact I1|split; [exact P1|exact T1]].
      * split; [exact J2|split; [lia|auto]].
    + cbn [step].
      destruct (reopen_good s I P T) as (I1 & P1 & T1 & E1 & H1 & _ & _).
      destruct (IH (snd (reopen s)) Hio') as (J2 & L2 & M2).
      * intros b Hb. apply W. unfold blocks_of. cbn [flat_map blocks_of_op app]. exact Hb.
      * split; [exact I1|split; [exact P1|exact T1]].
      * split; [exact J2|split; [lia|]]. intros k Hk. apply M2. rewrite H1. exact Hk.
Qed.

Lemma run_canon_head : forall ops s,
  imports_and_reopens ops -> (forall b, In b (blocks_of ops) -> wf_block U b /\ h_hash (b_hdr b) <> 0) ->
  J s -> CanonHead s -> CanonHead (run ops s).
Proof.
  induction ops as [|o ops IH]; intros s Hio W Js C; [exact C|].
  assert (Hio' : imports_and_reopens ops) by (intros o' Ho'; apply Hio; right; exact Ho').
  assert (Wo : forall b, In b (blocks_of [o]) -> wf_block U b /\ h_hash (b_hdr b) <> 0).
  { intros b Hb. apply W. unfold blocks_of in *. cbn [flat_map] in *. apply in_or_app. left. rewrite app_nil_r in Hb. exact Hb. }
  assert (W' : forall b, In b (blocks_of ops) -> wf_block U b /\ h_hash (b_hdr b) <> 0).
  { intros b Hb. apply W. unfold blocks_of in *. cbn [flat_map]. apply in_or_app. right. exact Hb. }
  destruct (run_J [o] s) as (J1 & _ & _); [intros o' [<-|[]]; apply Hio; left; reflexivity|exact Wo|exact Js|].
  change (run (o :: ops) s) with (run ops (run [o] s)).
  apply IH; auto.
  unfold run. cbn [fold_left].
  destruct (Hio o (or_introl eq_refl)) as [(c & cs & ->)| ->].
  - assert (Estep : snd (step (OpInsert c cs) s) = snd (insert_chain c cs s))
      by (cbn [step]; destruct (insert_chain c cs s) as [[e i] s']; reflexivity).
    rewrite Estep. apply insert_chain_ch. exact C.
  - cbn [step]. destruct Js as (I & P & T).
    destruct (reopen_good s I P T) as (_ & _ & _ & _ & _ & Ec & En).
    unfold CanonHead. rewrite Ec, En. exact C.
Qed.

Hypothesis gnz : h_hash g <> 0.
Hypothesis Ed0 : d0 = genesis_disk g.

Lemma J_pre_open : J (pre_open g).
Proof.
  split; [apply (inv_pre_open U g Ug g0)|split; [|apply (tok_pre_open U g Ug g0 d0 Ed0)]].
  unfold PtrOK. cbn [dsk pre_open cur_block]. split; [reflexivity|exact gnz].
Qed.

(* C02 with close/reopen anywhere in the history *)
Theorem c02_with_reopen : forall ops1 ops2,
  imports_and_reopens (ops1 ++ ops2) ->
  (forall b, In b (blocks_of (ops1 ++ ops2)) -> wf_block U b /\ h_hash (b_hdr b) <> 0) ->
  let s1 := run ops1 (pre_open g) in
  let s := run (ops1 ++ ops2) (pre_open g) in
  head_td s1 <= head_td s /\
  (forall h hd, header_of (dsk s) h = Some hd -> h <> h_hash g ->
     exists t pt, td_of (dsk s) h = Some t /\ td_of (dsk s) (h_parent hd) = Some pt /\ t = pt + h_diff hd) /\
  block_of (dsk s) (s_hash (cur_block s)) = Some (cur_block s) /\
  hb (dsk s) = s_hash (cur_block s) /\
  (forall h t, header_of (dsk s) h <> None -> td_of (dsk s) h = Some t -> t <= head_td s) /\
  (forall k, block_data_complete (crash_disk d0 (log_of s) k)).
Proof.
  intros ops1 ops2 Hio W s1 s.
  assert (E : s = run ops2 s1) by (unfold s, s1, run; apply fold_left_app).
  assert (H1 : imports_and_reopens ops1) by (intros o Ho; apply Hio; apply in_or_app; left; exact Ho).
  assert (H2 : imports_and_reopens ops2) by (intros o Ho; apply Hio; apply in_or_app; right; exact Ho).
  assert (W1 : forall b, In b (blocks_of ops1) -> wf_block U b /\ h_hash (b_hdr b) <> 0).
  { intros b Hb. apply W. unfold blocks_of in *. rewrite flat_map_app. apply in_or_app. left. exact Hb. }
  assert (W2 : forall b, In b (blocks_of ops2) -> wf_block U b /\ h_hash (b_hdr b) <> 0).
  { intros b Hb. apply W. unfold blocks_of in *. rewrite flat_map_app. apply in_or_app. right. exact Hb. }
  destruct (run_J ops1 (pre_open g) H1 W1 J_pre_open) as (J1 & _ & _). fold s1 in J1.
  destruct (run_J ops2 s1 H2 W2 J1) as ((I & P & T) & L & _). rewrite <- E in I, P, T, L.
  split; [exact L|]. split.
  - intros h hd Hh Ne. destruct (d_cons_h _ _ _ (inv_d _ _ _ I) _ _ Hh) as [-> _].
    assert (Hh' : header_of (dsk s) h <> None) by (rewrite Hh; discriminate).
    destruct (d_stored _ _ _ (inv_d _ _ _ I) _ Hh' Ne) as (_ & _ & _ & _ & X). exact X.
  - split; [apply (inv_cur _ _ _ I)|]. split; [apply P|]. split.
    + intros h t Hh Ht. pose proof (inv_heavy _ _ _ I _ Hh) as Lh. unfold td_or0 in Lh. rewrite Ht in Lh. exact Lh.
    + apply T.
Qed.

(* C04 (D) for histories with close/reopen *)
Theorem every_prefix_with_reopen : forall ops,
  imports_and_reopens ops ->
  (forall b, In b (blocks_of ops) -> wf_block U b /\ h_hash (b_hdr b) <> 0) ->
  forall k, block_data_complete (crash_disk d0 (log_of (run ops (pre_open g))) k).
Proof. intros ops Hio W. apply (c02_with_reopen [] ops Hio W). Qed.

(* the number index and the LastBlock pointer both name the head, after any history of
   imports and restarts: the top clause of canon_below *)
Theorem head_named : forall ops,
  imports_and_reopens ops ->
  (forall b, In b (blocks_of ops) -> wf_block U b /\ h_hash (b_hdr b) <> 0) ->
  let s := run ops (pre_open g) in
  canon (dsk s) (s_num (cur_block s)) = s_hash (cur_block s) /\ hb (dsk s) = s_hash (cur_block s).
Proof.
  intros ops Hio W s.
  assert (C0 : CanonHead (pre_open g)).
  { unfold CanonHead. cbn [dsk pre_open cur_block]. unfold s_num, s_hash; cbn [fst]. rewrite g0. reflexivity. }
  split; [apply (run_canon_head ops (pre_open g) Hio W J_pre_open C0)|].
  destruct (run_J ops (pre_open g) Hio W J_pre_open) as ((_ & P & _) & _ & _). apply P.
Qed.

End Reopen.
