(* Chain/CrashProofs.v — lemmas for property C04 over Chain/Store.v + Chain/Crash.v. *)
From Coq Require Import NArith PeanoNat List Bool Lia ZifyBool ZifyN ZifyNat.
From AQ Require Import Chain.Store Chain.ChainSpec Chain.ChainProofs Chain.ChainWitness Chain.Crash.
Import ListNotations.
Local Open Scope N_scope.

(* ---------------------------------------------------------------- a replayed log: the last write to a key wins *)

Definition val_of (acc : option (option value)) (d0 : disk) (k : key) : option value :=
  match acc with Some ov => ov | None => get d0 k end.

Lemma last_in_batch_spec : forall k d0 b d acc,
  val_of acc d0 k = get d k ->
  val_of (last_in_batch k b acc) d0 k = get (fold_left apply_bop b d) k.
Proof.
  intros k d0. induction b as [|[k' ov] r IH]; intros d acc H; cbn [last_in_batch fold_left]; [exact H|].
  apply IH. unfold bop_ptr, apply_bop; cbn [fst snd].
  destruct ov as [v|].
  - rewrite get_put. destruct (key_eq_dec k' k) as [->|N1].
    + destruct (key_eq_dec k k); [reflexivity|congruence].
    + destruct (key_eq_dec k k'); [congruence|exact H].
  - rewrite get_del. destruct (key_eq_dec k' k) as [->|N1].
    + destruct (key_eq_dec k k); [reflexivity|congruence].
    + destruct (key_eq_dec k k'); [congruence|exact H].
Qed.

Lemma last_write_spec : forall k d0 l d acc,
  val_of acc d0 k = get d k ->
  val_of (last_write k l acc) d0 k = get (replay l d) k.
Proof.
  intros k d0. induction l as [|w r IH]; intros d acc H; cbn [last_write replay fold_left]; [exact H|].
  apply IH. destruct w as [k' v|k'|b]; cbn [apply_wop].
  - rewrite get_put. destruct (key_eq_dec k' k) as [->|N1].
    + destruct (key_eq_dec k k); [reflexivity|congruence].
    + destruct (key_eq_dec k k'); [congruence|exact H].
  - rewrite get_del. destruct (key_eq_dec k' k) as [->|N1].
    + destruct (key_eq_dec k k); [reflexivity|congruence].
    + destruct (key_eq_dec k k'); [congruence|exact H].
  - apply last_in_batch_spec. exact H.
Qed.

(* the head pointer a crash leaves behind is the last value written to LastBlock
   within the surviving prefix (or the initial one) *)
Theorem crash_head_pointer : forall d0 l n,
  get (crash_disk d0 l n) KHeadBlock = val_of (last_write KHeadBlock (firstn n l) None) d0 KHeadBlock.
Proof. intros. unfold crash_disk. symmetry. apply last_write_spec. reflexivity. Qed.

(* ---------------------------------------------------------------- what a successful open returns *)

Lemma repair_spec : forall fuel d b x, repair fuel d b = Some (Some x) ->
  has_state d (s_root x) = true /\ (forall b0, b = Some b0 -> has_state d (s_root b0) = true -> x = b0).
Proof.
  induction fuel as [|f IH]; intros d b x H; cbn [repair] in H; [discriminate|].
  destruct b as [y|]; [|discriminate].
  destruct (has_state d (s_root y)) eqn:E.
  - injection H as <-. split; [exact E|]. intros b0 [= <-] _. reflexivity.
  - destruct (IH _ _ _ H) as [A _]. split; [exact A|]. intros b0 [= <-] Hs. congruence.
Qed.

(* a successful NewBlockChain makes its head the block stored under the
   LastBlock pointer - or, when that block has no state, an ancestor that has -
   and the head always has its state *)
Theorem open_db_head : forall d s, open_db d = (SOk, s) ->
  exists cb0, block_by_hash d (head_ptr d KHeadBlock) = Some cb0 /\
              has_state d (s_root (cur_block s)) = true /\
              (has_state d (s_root cb0) = true -> cur_block s = cb0).
Proof.
  intros d s H. unfold open_db in H.
  destruct (header_of d (canon d 0)); [|discriminate].
  destruct (block_of d (canon d 0)) as [g|]; [|discriminate].
  unfold load_last_state_full in H. cbn [dsk] in H.
  assert (Hreset : forall s0, fst (reset_fresh s0) <> SOk).
  { intro s0. unfold reset_fresh. destruct (sh_loop _ _ _ _) as [[? ?]|]; cbn [fst]; discriminate. }
  destruct (head_ptr d KHeadBlock =? 0).
  { exfalso. eapply Hreset. rewrite H. reflexivity. }
  destruct (block_by_hash d (head_ptr d KHeadBlock)) as [cb0|] eqn:E0.
  2:{ exfalso. eapply Hreset. rewrite H. reflexivity. }
  destruct (repair _ d (Some cb0)) as [[cb|]|] eqn:Er; try discriminate.
  destruct (repair_spec _ _ _ _ Er) as [A B].
  injection H as <-. exists cb0. split; [reflexivity|]. cbn [cur_block set_cur_fast set_cur_header emit set_cur_block].
  split; [exact A|]. intro Hs. apply (B cb0 eq_refl Hs).
Qed.

(* ---------------------------------------------------------------- the crash windows of the unchanged code (closed witnesses) *)

(* the import of the shorter, heavier block 5 (history ops_shorter_heavier):
   34 writes; reorg -> insert writes LastBlock = 5 as write 26 while block 5's
   header and body are only flushed by write 32 (the batch).  A crash after
   26..31 writes leaves LastBlock naming a block that is not on disk:
   loadLastState -> Reset -> SetHead -> CurrentBlock() on a never-stored value. *)
Definition is_panic (x : status) : bool := match x with SPanic => true | _ => false end.
Definition is_ok (x : status) : bool := match x with SOk => true | _ => false end.
Lemma crash_window_head_pointer :
  let l := log_of (run ops_shorter_heavier (init_state wg)) in
  length l = 34%nat /\
  nth_error l 25 = Some (Put KHeadBlock (VHash 5)) /\
  forallb (fun k => let d := crash_disk (genesis_disk wg) l k in
                    (head_ptr d KHeadBlock =? 5) && (match block_by_hash d 5 with None => true | Some _ => false end)
                    && is_panic (fst (open_db d))) [26; 27; 28; 29; 30; 31]%nat = true /\
  is_ok (fst (open_db (crash_disk (genesis_disk wg) l 32))) = true.
Proof. vm_compute. repeat split; reflexivity. Qed.

(* insert writes the number->hash entry before the head pointer: after 25
   writes the database opens fine with head 4 (height 3), but height 1 already
   names block 5 of the other branch instead of the head's ancestor 2 *)
Lemma crash_window_canon_before_head :
  let l := log_of (run ops_shorter_heavier (init_state wg)) in
  let r := open_db (crash_disk (genesis_disk wg) l 25) in
  fst r = SOk /\ s_hash (cur_block (snd r)) = 4 /\ s_num (cur_block (snd r)) = 3 /\
  ancestor_at (dsk (snd r)) 4 1 = Some 2 /\ canon (dsk (snd r)) 1 = 5.
Proof. vm_compute. repeat split; reflexivity. Qed.

(* a crash-free close/reopen agrees with Store.reopen, and every prefix of a
   plain extension history reopens on the last head written *)
Lemma crash_prefixes_of_extension_fine :
  let l := log_of (run ops_longer (init_state wg)) in
  forallb (fun k => let r := open_db (crash_disk (genesis_disk wg) l k) in
                    match fst r with
                    | SOk => (s_hash (cur_block (snd r)) =? head_ptr (crash_disk (genesis_disk wg) l k) KHeadBlock)
                             && (canon (dsk (snd r)) (s_num (cur_block (snd r))) =? s_hash (cur_block (snd r)))
                    | _ => false
                    end) (seq 0 (S (length l))) = true.
Proof. vm_compute. reflexivity. Qed.

(* ---------------------------------------------------------------- invariants of EVERY crash prefix *)

Section Trace.
Variable P : disk -> Prop.
Hypothesis Pcore : forall d d', same_core d d' -> P d -> P d'.
Variable d0 : disk.

Definition Pfx (l : list wop) : Prop := forall k, P (crash_disk d0 l k).
Definition TraceOK (s : st) : Prop := dsk s = replay (log_of s) d0 /\ Pfx (log_of s).

Lemma trace_P : forall s, TraceOK s -> P (dsk s).
Proof.
  intros s [E H]. rewrite E. specialize (H (length (log_of s))). unfold crash_disk in H.
  rewrite firstn_all in H. exact H.
Qed.

Lemma trace_emit : forall w s, TraceOK s -> P (dsk (emit w s)) -> TraceOK (emit w s).
Proof.
  intros w s [E H] Hp.
  assert (E' : dsk (emit w s) = replay (log_of (emit w s)) d0).
  { rewrite emit_dsk, emit_log. unfold replay. rewrite fold_left_app. cbn [fold_left]. unfold replay in E. rewrite <- E. reflexivity. }
  split; [exact E'|].
  intro k. unfold crash_disk. rewrite emit_log, firstn_app.
  destruct (Compare_dec.le_gt_dec k (length (log_of s))) as [Hle|Hgt].
  - replace (k - length (log_of s))%nat with 0%nat by lia. cbn [firstn]. rewrite app_nil_r. apply H.
  - rewrite firstn_all2 by lia.
    destruct (k - length (log_of s))%nat as [|m] eqn:Em; [lia|]. cbn [firstn]. rewrite firstn_nil.
    rewrite <- emit_log, <- E'. exact Hp.
Qed.

Lemma trace_mem : forall s s', dsk s' = dsk s -> wlog s' = wlog s -> TraceOK s -> TraceOK s'.
Proof. intros s s' Ed El [E H]. unfold TraceOK, log_of in *. rewrite Ed, El. split; assumption. Qed.

Lemma trace_put_noncore : forall k v s, core_key k = false -> TraceOK s -> TraceOK (emit (Put k v) s).
Proof. intros k v s Hk T. apply trace_emit; [exact T|]. rewrite emit_dsk. cbn [apply_wop]. eapply Pcore; [apply same_core_put; exact Hk|apply trace_P; exact T]. Qed.
Lemma trace_del_noncore : forall k s, core_key k = false -> TraceOK s -> TraceOK (emit (Del k) s).
Proof. intros k s Hk T. apply trace_emit; [exact T|]. rewrite emit_dsk. cbn [apply_wop]. eapply Pcore; [apply same_core_del; exact Hk|apply trace_P; exact T]. Qed.

Lemma trace_bc_insert : forall b s, TraceOK s -> TraceOK (bc_insert b s).
Proof.
  intros b s T. unfold bc_insert.
  assert (T2 : TraceOK (set_cur_block b (emit (Put KHeadBlock (VHash (s_hash b))) (emit (Put (KCanon (s_num b)) (VHash (s_hash b))) s)))).
  { eapply trace_mem; [reflexivity|reflexivity|]. repeat (apply trace_put_noncore; [reflexivity|]). exact T. }
  destruct (negb (canon (dsk s) (s_num b) =? s_hash b)); [|exact T2].
  eapply trace_mem; [reflexivity|reflexivity|]. apply trace_put_noncore; [reflexivity|].
  eapply trace_mem; [reflexivity|reflexivity|]. apply trace_put_noncore; [reflexivity|]. exact T2.
Qed.

Lemma trace_fold_puts : forall l s, (forall kv, In kv l -> core_key (fst kv) = false) -> TraceOK s ->
  TraceOK (fold_left (fun s kv => emit (Put (fst kv) (snd kv)) s) l s).
Proof.
  induction l as [|kv l IH]; intros s H T; cbn [fold_left]; [exact T|].
  apply IH; [intros; apply H; right; assumption|]. apply trace_put_noncore; [apply H; left; reflexivity|exact T].
Qed.

Lemma trace_write_lookups : forall b s, TraceOK s -> TraceOK (write_lookups_direct b s).
Proof. intros b s T. unfold write_lookups_direct. apply trace_fold_puts; [|exact T]. intros kv H. eapply lookup_puts_noncore; exact H. Qed.

Lemma trace_fold_insert : forall l s, TraceOK s -> TraceOK (fold_left (fun s b => write_lookups_direct b (bc_insert b s)) l s).
Proof. induction l as [|b l IH]; intros s T; cbn [fold_left]; [exact T|]. apply IH, trace_write_lookups, trace_bc_insert, T. Qed.

Lemma trace_fold_del : forall l s, TraceOK s -> TraceOK (fold_left (fun s t => emit (Del (KLookup t)) s) l s).
Proof. induction l as [|t l IH]; intros s T; cbn [fold_left]; [exact T|]. apply IH, trace_del_noncore; [reflexivity|exact T]. Qed.

Lemma trace_reorg : forall fuel o n s, TraceOK s -> TraceOK (snd (reorg fuel o n s)).
Proof.
  intros fuel o n s T. unfold reorg.
  destruct (s_num n <? s_num o).
  - destruct (walk fuel (dsk s) (Some o) (s_num n) []) as [[[x|] oc]|]; cbn [snd]; try exact T.
    destruct (lockstep fuel (dsk s) x n oc []); cbn [snd]; try exact T.
    apply trace_fold_del, trace_fold_insert, T.
  - destruct (walk fuel (dsk s) (Some n) (s_num o) []) as [[[x|] nc]|]; cbn [snd]; try exact T.
    destruct (lockstep fuel (dsk s) o x [] nc); cbn [snd]; try exact T.
    apply trace_fold_del, trace_fold_insert, T.
Qed.

End Trace.

(* ---------------------------------------------------------------- block data is complete at every crash prefix *)

Lemma number_of_put : forall d k v h, number_of (put k v d) h =
  match k, v with KHashNum h', VNum x => if N.eq_dec h h' then Some x else number_of d h
  | KHashNum h', _ => if N.eq_dec h h' then None else number_of d h | _, _ => number_of d h end.
Proof.
  intros d k v h. unfold number_of. rewrite get_put.
  destruct (key_eq_dec (KHashNum h) k) as [<-|Ne].
  - destruct (N.eq_dec h h); [|congruence]. destruct v; reflexivity.
  - destruct k; try reflexivity. destruct (N.eq_dec h h0); [subst; congruence|]. destruct v; reflexivity.
Qed.
Lemma sc_number : forall d d' h, same_core d d' -> number_of d' h = number_of d h.
Proof. intros d d' h H. unfold number_of. rewrite (H (KHashNum h)); reflexivity. Qed.

Lemma bdc_core : forall d d', same_core d d' -> block_data_complete d -> block_data_complete d'.
Proof.
  intros d d' H B h hd Hh. rewrite (sc_header _ _ _ H) in Hh. destruct (B h hd Hh) as (A1 & A2 & A3 & A4).
  rewrite (sc_body _ _ _ H), (sc_td _ _ _ H), (sc_state _ _ _ H), (sc_number _ _ _ H). auto.
Qed.

Lemma bdc_put_td : forall d h t, block_data_complete d -> block_data_complete (put (KTd h) (VNum t) d).
Proof.
  intros d h t B k hd Hk. rewrite header_of_put in Hk. destruct (B k hd Hk) as (A1 & A2 & A3 & A4).
  rewrite body_of_put, td_of_put, has_state_put, number_of_put. repeat split; auto.
  destruct (N.eq_dec k h); [discriminate|exact A2].
Qed.
Lemma bdc_put_state : forall d r, block_data_complete d -> block_data_complete (put (KState r) VUnit d).
Proof.
  intros d r B k hd Hk. rewrite header_of_put in Hk. destruct (B k hd Hk) as (A1 & A2 & A3 & A4).
  rewrite body_of_put, td_of_put, has_state_put, number_of_put. repeat split; auto.
  destruct (N.eq_dec (h_root hd) r); [reflexivity|exact A3].
Qed.
Lemma bdc_d_block : forall d hd txs, block_data_complete d ->
  td_of d (h_hash hd) <> None -> has_state d (h_root hd) = true -> block_data_complete (d_block d hd txs).
Proof.
  intros d hd txs B Ht Hs k x Hk. destruct (d_block_reads d hd txs) as (Eh & Eb & Et & Es).
  assert (En : number_of (d_block d hd txs) k = if N.eq_dec k (h_hash hd) then Some (h_number hd) else number_of d k)
    by (unfold d_block; rewrite !number_of_put; reflexivity).
  rewrite Eh in Hk. rewrite Eb, Et, Es, En.
  destruct (N.eq_dec k (h_hash hd)) as [->|Nk].
  - injection Hk as <-. repeat split; [discriminate|exact Ht|exact Hs|discriminate].
  - apply (B k x Hk).
Qed.

Section TraceChain.
Variable d0 : disk.
Notation TOK := (TraceOK block_data_complete d0).

Lemma wbws_trace : forall b s, TOK s -> TOK (snd (write_block_with_state b s)).
Proof.
  intros b s T. unfold write_block_with_state.
  set (hd := b_hdr b). set (txs := b_txs b). set (h := h_hash hd).
  destruct (td_of (dsk s) (h_parent hd)) as [ptd|]; [|exact T].
  cbv zeta. set (ext := h_diff hd + ptd).
  set (s1 := emit (Put (KState (h_root hd)) VUnit) (emit (Put (KTd h) (VNum ext)) s)).
  assert (T1 : TOK s1).
  { unfold s1. apply (trace_emit _ bdc_core); [apply (trace_emit _ bdc_core); [exact T|]|].
    - rewrite emit_dsk. cbn [apply_wop]. apply bdc_put_td, (trace_P _ _ _ T).
    - rewrite !emit_dsk. cbn [apply_wop]. apply bdc_put_state, bdc_put_td, (trace_P _ _ _ T). }
  assert (Htd1 : td_of (dsk s1) h <> None).
  { unfold s1. rewrite !emit_dsk. cbn [apply_wop]. rewrite !td_of_put. destruct (N.eq_dec h h); [discriminate|congruence]. }
  assert (Hst1 : has_state (dsk s1) (h_root hd) = true).
  { unfold s1. rewrite !emit_dsk. cbn [apply_wop]. rewrite has_state_put. destruct (N.eq_dec (h_root hd) (h_root hd)); [reflexivity|congruence]. }
  destruct (td_of (dsk s) (s_hash (cur_block s))) as [ltd|]; [|exact T1].
  (* every continuation starts from a state that only differs from s1 in memory *)
  assert (Hside : forall s1', dsk s1' = dsk s1 -> wlog s1' = wlog s1 ->
            TOK (emit (Batch ([(KBody h, Some (VTxs txs)); (KHashNum h, Some (VNum (h_number hd))); (KHeader h, Some (VHeader hd))]
                               ++ [(KReceipts h, Some (VTxs txs))])) s1')).
  { intros s1' Ed El. assert (T' : TOK s1') by (eapply trace_mem; eassumption).
    apply (trace_emit _ bdc_core); [exact T'|]. rewrite emit_dsk. cbn [apply_wop app fold_left]. rewrite Ed.
    change (block_data_complete (d_block (dsk s1) hd txs)).
    apply bdc_d_block; [apply (trace_P _ _ _ T1)|exact Htd1|exact Hst1]. }
  assert (Hmain : forall s1', dsk s1' = dsk s1 -> wlog s1' = wlog s1 ->
            TOK (snd (let r := if h_parent hd =? s_hash (cur_block s) then (SOk, s1')
                               else reorg (reorg_fuel s1' (h_number hd)) (cur_block s) (to_s b) s1' in
                      match r with
                      | (SOk, s0) =>
                        (SOk, bc_insert (to_s b)
                           (emit (Batch (([(KBody h, Some (VTxs txs)); (KHashNum h, Some (VNum (h_number hd))); (KHeader h, Some (VHeader hd))]
                               ++ [(KReceipts h, Some (VTxs txs))])
                               ++ map (fun kv : key * value => (fst kv, Some (snd kv))) (lookup_puts h (h_number hd) 0 txs))) s0))
                      | other => other
                      end))).
  { intros s1' Ed El. assert (T' : TOK s1') by (eapply trace_mem; eassumption).
    cbv zeta.
    set (r := if h_parent hd =? s_hash (cur_block s) then (SOk, s1')
              else reorg (reorg_fuel s1' (h_number hd)) (cur_block s) (to_s b) s1').
    assert (Tr : TOK (snd r) /\ same_core (dsk s1) (dsk (snd r))).
    { unfold r. destruct (h_parent hd =? s_hash (cur_block s)); cbn [snd].
      - split; [exact T'|rewrite Ed; apply same_core_refl].
      - split; [apply trace_reorg; [exact bdc_core|exact T']|rewrite <- Ed; apply reorg_core]. }
    destruct r as [e s3]. cbn [snd] in Tr. destruct Tr as [T3 H3].
    destruct e; cbn [snd]; try exact T3.
    apply trace_bc_insert; [exact bdc_core|].
    apply (trace_emit _ bdc_core); [exact T3|]. rewrite emit_dsk. cbn [apply_wop]. rewrite fold_left_app.
    eapply bdc_core; [apply fold_bop_lookups_core; intros kv Hkv; eapply lookup_puts_noncore; exact Hkv|].
    change (block_data_complete (d_block (dsk s3) hd txs)).
    apply bdc_d_block; [apply (trace_P _ _ _ T3)|rewrite (sc_td _ _ _ H3); exact Htd1|rewrite (sc_state _ _ _ H3); exact Hst1]. }
  destruct (ltd <? ext).
  { apply (Hmain s1); reflexivity. }
  destruct (ext =? ltd).
  2:{ cbn [snd]. apply (Hside s1); reflexivity. }
  destruct (h_number hd <? s_num (cur_block s)).
  { apply (Hmain s1); reflexivity. }
  destruct (h_number hd =? s_num (cur_block s)).
  2:{ cbn [snd]. apply (Hside s1); reflexivity. }
  destruct (coins s1) as [|c rest] eqn:Ec; [exact T1|].
  destruct c.
  - apply (Hmain (set_coins rest s1)); reflexivity.
  - cbn [snd]. apply (Hside (set_coins rest s1)); reflexivity.
Qed.

End TraceChain.

Section TraceHist.
Variable U : N -> sblock.
Variable g : header.
Hypothesis Ug : U (h_hash g) = (g, []).
Hypothesis g0 : h_number g = 0.
Variable d0 : disk.
Notation TOK := (TraceOK block_data_complete d0).

(* under the store invariant a stored body comes with header and state:
   the "pruned ancestor" branch (which writes a block without state) is dead *)
Lemma no_pruned : forall s p, Inv U g s ->
  has_block_and_state (dsk s) p = false -> has_block (dsk s) p = true -> False.
Proof.
  intros s p I Ep Eb. unfold has_block in Eb.
  destruct (body_of (dsk s) p) as [l|] eqn:El; [|discriminate].
  destruct (d_cons_b _ _ _ (inv_d _ _ _ I) _ _ El) as [_ Hh].
  unfold has_block_and_state, block_of in Ep. rewrite El in Ep.
  destruct (header_of (dsk s) p) as [ph|] eqn:Eph; [|congruence].
  destruct (d_cons_h _ _ _ (inv_d _ _ _ I) _ _ Eph) as [Ephd _].
  unfold s_root in Ep; cbn [fst] in Ep.
  destruct (N.eq_dec p (h_hash g)) as [Eg|Ng].
  - rewrite Eg, (d_gen_hdr _ _ _ (inv_d _ _ _ I)) in Eph. injection Eph as <-.
    rewrite (d_gen_state _ _ _ (inv_d _ _ _ I)) in Ep. discriminate.
  - assert (Hh2 : header_of (dsk s) p <> None) by congruence.
    destruct (d_stored _ _ _ (inv_d _ _ _ I) _ Hh2 Ng) as (_ & Hs & _).
    rewrite <- Ephd in Hs. rewrite Hs in Ep. discriminate.
Qed.

Lemma parent_header_of_known : forall s b, Inv U g s -> wf_block U b ->
  has_block_and_state (dsk s) (h_hash (b_hdr b)) = true -> header_of (dsk s) (h_parent (b_hdr b)) <> None.
Proof.
  intros s b I [HU Hnum] Ek. destruct (has_bas_header _ _ Ek) as [Hh _].
  assert (Hfst : fst (U (h_hash (b_hdr b))) = b_hdr b) by (rewrite <- HU; reflexivity).
  assert (Ne : h_hash (b_hdr b) <> h_hash g).
  { intro E. rewrite E, Ug in Hfst. cbn [fst] in Hfst. rewrite <- Hfst in Hnum. lia. }
  destruct (d_stored _ _ _ (inv_d _ _ _ I) _ Hh Ne) as (_ & _ & Hp & _).
  rewrite Hfst in Hp. exact Hp.
Qed.

Lemma ic_process_trace : forall prev idx b s cont,
  Inv U g s -> TOK s -> wf_block U b -> header_of (dsk s) (h_parent (b_hdr b)) <> None ->
  (forall s', Inv U g s' -> TOK s' -> TOK (snd (cont s'))) ->
  TOK (snd (ic_process prev idx b s cont)).
Proof.
  intros prev idx b s cont I T W Hp Hc. unfold ic_process.
  destruct (match prev with Some p => Some (h_root (b_hdr p)) | None => option_map s_root (block_of (dsk s) (h_parent (b_hdr b))) end); [|exact T].
  destruct (negb (has_state (dsk s) n)); [exact T|].
  destruct (negb (b_valid b)); [exact T|].
  pose proof (wbws_inv U g Ug g0 b s I W Hp) as [Hw _].
  pose proof (wbws_trace d0 b s T) as Ht.
  destruct (write_block_with_state b s) as [e s']. cbn [snd] in Hw, Ht.
  destruct e; try exact Ht. apply Hc; assumption.
Qed.

Lemma ic_loop_trace : forall chain prev idx s,
  Inv U g s -> TOK s -> (forall b, In b chain -> wf_block U b) ->
  TOK (snd (ic_loop prev idx chain s)).
Proof.
  induction chain as [|b rest IH]; intros prev idx s I T W; [exact T|].
  assert (Wb : wf_block U b) by (apply W; left; reflexivity).
  assert (Wr : forall b', In b' rest -> wf_block U b') by (intros; apply W; right; assumption).
  assert (Hcont : forall s', Inv U g s' -> TOK s' -> TOK (snd (ic_loop (Some b) (idx + 1) rest s')))
    by (intros s' I' T'; apply IH; assumption).
  rewrite ic_loop_cons. unfold validate_body.
  destruct (has_block_and_state (dsk s) (h_hash (b_hdr b))) eqn:Ek.
  - destruct (h_number (b_hdr b) <=? s_num (cur_block s)); [apply Hcont; assumption|].
    apply ic_process_trace; auto. apply parent_header_of_known; assumption.
  - destruct (has_block_and_state (dsk s) (h_parent (b_hdr b))) eqn:Ep; cbn [negb].
    + apply ic_process_trace; auto. apply (has_bas_header _ _ Ep).
    + destruct (has_block (dsk s) (h_parent (b_hdr b))) eqn:Eb; cbn [negb]; [|exact T].
      exfalso. eapply no_pruned; eassumption.
Qed.

Lemma insert_chain_trace : forall c cs s, Inv U g s -> TOK s -> (forall b, In b c -> wf_block U b) ->
  TOK (snd (insert_chain c cs s)).
Proof.
  intros c cs s I T Wc. unfold insert_chain. destruct c as [|b r]; [exact T|].
  apply ic_loop_trace.
  - destruct I as [A B C]. constructor; assumption.
  - eapply trace_mem; [| |exact T]; reflexivity.
  - assert (Hsub : forall l p x, In x (contiguous_prefix p l) -> In x l).
    { induction l as [|y l IHl]; intros p x Hx; cbn [contiguous_prefix] in Hx; [contradiction|].
      destruct ((h_number (b_hdr y) =? h_number (b_hdr p) + 1) && (h_parent (b_hdr y) =? h_hash (b_hdr p))); [|contradiction].
      destruct Hx as [<-|Hx]; [left; reflexivity|right; eapply IHl; exact Hx]. }
    intros x [<-|Hx]; [apply Wc; left; reflexivity|apply Wc; right; eapply Hsub; exact Hx].
Qed.

Lemma tok_pre_open : d0 = genesis_disk g -> TOK (pre_open g).
Proof.
  intro Ed0.
  split; [rewrite Ed0; reflexivity|]. intro k. unfold crash_disk. cbn [log_of wlog pre_open rev]. rewrite firstn_nil. cbn [replay fold_left].
  rewrite Ed0. pose proof (inv_d _ _ _ (inv_pre_open U g Ug g0)) as ID. cbn [dsk pre_open] in ID.
  intros h hd Hh. destruct (d_cons_h _ _ _ ID _ _ Hh) as [Ehd _].
  assert (Hh' : header_of (genesis_disk g) h <> None) by congruence.
  assert (Hn : number_of (genesis_disk g) h <> None).
  { assert (Ehg : header_of (genesis_disk g) h = if N.eq_dec h (h_hash g) then Some g else None)
      by (unfold genesis_disk, replay; cbn [fold_left apply_wop]; rewrite !header_of_put; reflexivity).
    rewrite Ehg in Hh. destruct (N.eq_dec h (h_hash g)) as [->|]; [|discriminate].
    unfold genesis_disk, replay; cbn [fold_left apply_wop]. rewrite !number_of_put.
    destruct (N.eq_dec (h_hash g) (h_hash g)); [discriminate|congruence]. }
  split; [apply (hdr_body U g _ _ ID Hh')|].
  destruct (N.eq_dec h (h_hash g)) as [->|Ne].
  - rewrite (d_gen_hdr _ _ _ ID) in Hh. injection Hh as <-. rewrite (d_gen_td _ _ _ ID), (d_gen_state _ _ _ ID). split; [discriminate|split; [reflexivity|exact Hn]].
  - destruct (d_stored _ _ _ ID _ Hh' Ne) as (_ & Hs & _ & _ & t & pt & Ht & _). rewrite Ht, Ehd. split; [discriminate|split; [exact Hs|exact Hn]].
Qed.

(* every crash prefix of an import-only history has complete block data: a
   header on disk always has its body, its total difficulty, the state of its
   root and its hash->number record on disk (the state commit and the TD
   precede the block batch) *)
Theorem block_data_complete_every_prefix : forall ops,
  inserts_only ops -> (forall b, In b (blocks_of ops) -> wf_block U b) ->
  d0 = genesis_disk g ->
  forall k, block_data_complete (crash_disk d0 (log_of (run ops (pre_open g))) k).
Proof.
  intros ops Hio W Ed0.
  assert (Gen : forall ops s, inserts_only ops -> (forall b, In b (blocks_of ops) -> wf_block U b) ->
                Inv U g s -> TOK s -> TOK (run ops s)).
  { clear ops Hio W. induction ops as [|o ops IH]; intros s Hio W I T; [exact T|].
    destruct (Hio o (or_introl eq_refl)) as (c & cs & ->).
    unfold run. cbn [fold_left]. fold (run ops (snd (step (OpInsert c cs) s))).
    assert (Estep : snd (step (OpInsert c cs) s) = snd (insert_chain c cs s))
      by (cbn [step]; destruct (insert_chain c cs s) as [[e i] s']; reflexivity).
    rewrite Estep.
    assert (Wc : forall b, In b c -> wf_block U b).
    { intros b Hb. apply W. unfold blocks_of. cbn [flat_map blocks_of_op]. apply in_or_app. left. exact Hb. }
    destruct (insert_chain_good U g Ug g0 c cs s I Wc) as (I1 & _ & _).
    apply IH; auto.
    - intros o' Ho'. apply Hio. right. exact Ho'.
    - intros b Hb. apply W. unfold blocks_of. cbn [flat_map]. apply in_or_app. right. exact Hb.
    - apply insert_chain_trace; assumption. }
  destruct (Gen ops (pre_open g) Hio W (inv_pre_open U g Ug g0) (tok_pre_open Ed0)) as [_ H]. exact H.
Qed.

End TraceHist.
