(* Chain/ChainProofs.v — lemmas about Chain/Store.v for properties C02 / C03. *)
From Coq Require Import NArith List Bool Lia ZifyBool ZifyN ZifyNat.
From AQ Require Import Chain.Store Chain.ChainSpec.
Import ListNotations.
Local Open Scope N_scope.

(* ---------------------------------------------------------------- the disk as a map *)

Lemma get_put : forall d k v k', get (put k v d) k' = if key_eq_dec k' k then Some v else get d k'.
Proof. reflexivity. Qed.

Lemma get_del : forall d k k', get (del k d) k' = if key_eq_dec k' k then None else get d k'.
Proof.
  induction d as [|[k0 v0] r IH]; intros k k'; cbn [del get].
  - destruct (key_eq_dec k' k); reflexivity.
  - destruct (key_eq_dec k k0) as [E|E].
    + subst k0. rewrite IH. destruct (key_eq_dec k' k); reflexivity.
    + cbn [get]. rewrite IH. destruct (key_eq_dec k' k0) as [E1|E1]; [subst k0|]; destruct (key_eq_dec k' k); congruence.
Qed.

(* the log replays to the disk: every mutation goes through [emit] *)
Lemma emit_dsk : forall w s, dsk (emit w s) = apply_wop (dsk s) w. Proof. reflexivity. Qed.
Lemma emit_log : forall w s, log_of (emit w s) = log_of s ++ [w]. Proof. reflexivity. Qed.

(* core keys: the records that carry block data (as opposed to the index: number->hash, heads, lookups) *)
Definition core_key (k : key) : bool :=
  match k with
  | KHeader _ | KBody _ | KTd _ | KState _ | KHashNum _ | KReceipts _ => true
  | _ => false
  end.
Definition same_core (d d' : disk) : Prop := forall k, core_key k = true -> get d' k = get d k.

Lemma same_core_refl : forall d, same_core d d. Proof. intros d k _; reflexivity. Qed.
Lemma same_core_trans : forall a b c, same_core a b -> same_core b c -> same_core a c.
Proof. intros a b c H1 H2 k Hk. rewrite (H2 k Hk). apply H1, Hk. Qed.

Lemma same_core_put : forall d k v, core_key k = false -> same_core d (put k v d).
Proof. intros d k v Hk k' Hk'. rewrite get_put. destruct (key_eq_dec k' k); [subst; congruence|reflexivity]. Qed.
Lemma same_core_del : forall d k, core_key k = false -> same_core d (del k d).
Proof. intros d k Hk k' Hk'. rewrite get_del. destruct (key_eq_dec k' k); [subst; congruence|reflexivity]. Qed.

Lemma sc_header : forall d d' h, same_core d d' -> header_of d' h = header_of d h.
Proof. intros d d' h H. unfold header_of. rewrite (H (KHeader h)); reflexivity. Qed.
Lemma sc_body : forall d d' h, same_core d d' -> body_of d' h = body_of d h.
Proof. intros d d' h H. unfold body_of. rewrite (H (KBody h)); reflexivity. Qed.
Lemma sc_td : forall d d' h, same_core d d' -> td_of d' h = td_of d h.
Proof. intros d d' h H. unfold td_of. rewrite (H (KTd h)); reflexivity. Qed.
Lemma sc_state : forall d d' r, same_core d d' -> has_state d' r = has_state d r.
Proof. intros d d' h H. unfold has_state. rewrite (H (KState h)); reflexivity. Qed.
Lemma sc_block : forall d d' h, same_core d d' -> block_of d' h = block_of d h.
Proof. intros d d' h H. unfold block_of. rewrite (sc_header _ _ _ H), (sc_body _ _ _ H). reflexivity. Qed.

(* ---------------------------------------------------------------- frame: insert / lookups / reorg only touch the index *)

Lemma bc_insert_core : forall b s, same_core (dsk s) (dsk (bc_insert b s)).
Proof.
  intros b s. unfold bc_insert.
  destruct (negb (canon (dsk s) (s_num b) =? s_hash b)); cbn [dsk emit set_cur_block set_cur_header set_cur_fast apply_wop];
    repeat (eapply same_core_trans; [|apply same_core_put; reflexivity]); apply same_core_refl.
Qed.
Lemma bc_insert_cur : forall b s, cur_block (bc_insert b s) = b.
Proof. intros b s. unfold bc_insert. destruct (negb _); reflexivity. Qed.

Lemma fold_emit_put_core : forall l s, (forall kv, In kv l -> core_key (fst kv) = false) ->
  same_core (dsk s) (dsk (fold_left (fun s kv => emit (Put (fst kv) (snd kv)) s) l s))
  /\ cur_block (fold_left (fun s kv => emit (Put (fst kv) (snd kv)) s) l s) = cur_block s.
Proof.
  induction l as [|kv l IH]; intros s H; cbn [fold_left].
  - split; [apply same_core_refl|reflexivity].
  - destruct (IH (emit (Put (fst kv) (snd kv)) s)) as [A B]; [intros; apply H; right; assumption|].
    split; [|rewrite B; reflexivity].
    eapply same_core_trans; [|exact A]. apply same_core_put. apply H. left; reflexivity.
Qed.

Lemma lookup_puts_noncore : forall txs h n i kv, In kv (lookup_puts h n i txs) -> core_key (fst kv) = false.
Proof. induction txs as [|t r IH]; intros h n i kv H; cbn [lookup_puts] in H; [contradiction|]. destruct H as [<-|H]; [reflexivity|eapply IH; exact H]. Qed.

Lemma write_lookups_core : forall b s, same_core (dsk s) (dsk (write_lookups_direct b s)) /\ cur_block (write_lookups_direct b s) = cur_block s.
Proof. intros b s. unfold write_lookups_direct. apply fold_emit_put_core. intros kv H. eapply lookup_puts_noncore; exact H. Qed.

Lemma fold_insert_core : forall l s,
  same_core (dsk s) (dsk (fold_left (fun s b => write_lookups_direct b (bc_insert b s)) l s)).
Proof.
  induction l as [|b l IH]; intros s; cbn [fold_left]; [apply same_core_refl|].
  eapply same_core_trans; [|apply IH].
  eapply same_core_trans; [apply bc_insert_core|apply write_lookups_core].
Qed.

Lemma fold_del_lookup_core : forall l s,
  same_core (dsk s) (dsk (fold_left (fun s t => emit (Del (KLookup t)) s) l s)).
Proof.
  induction l as [|t l IH]; intros s; cbn [fold_left]; [apply same_core_refl|].
  eapply same_core_trans; [|apply IH]. cbn [dsk emit apply_wop]. apply same_core_del; reflexivity.
Qed.

Lemma reorg_core : forall fuel o n s, same_core (dsk s) (dsk (snd (reorg fuel o n s))).
Proof.
  intros fuel o n s. unfold reorg.
  destruct (s_num n <? s_num o).
  - destruct (walk fuel (dsk s) (Some o) (s_num n) []) as [[[x|] oc]|]; cbn [snd]; try apply same_core_refl.
    destruct (lockstep fuel (dsk s) x n oc []); cbn [snd]; try apply same_core_refl.
    eapply same_core_trans; [apply fold_insert_core|apply fold_del_lookup_core].
  - destruct (walk fuel (dsk s) (Some n) (s_num o) []) as [[[x|] nc]|]; cbn [snd]; try apply same_core_refl.
    destruct (lockstep fuel (dsk s) o x [] nc); cbn [snd]; try apply same_core_refl.
    eapply same_core_trans; [apply fold_insert_core|apply fold_del_lookup_core].
Qed.

(* the coin oracle is only consumed by the tie-break itself *)
Lemma bc_insert_coins : forall b s, coins (bc_insert b s) = coins s.
Proof. intros b s. unfold bc_insert. destruct (negb _); reflexivity. Qed.
Lemma fold_emit_put_coins : forall l s, coins (fold_left (fun s kv => emit (Put (fst kv) (snd kv)) s) l s) = coins s.
Proof. induction l as [|kv l IH]; intros s; cbn [fold_left]; [reflexivity|]. rewrite IH. reflexivity. Qed.
Lemma fold_insert_coins : forall l s, coins (fold_left (fun s b => write_lookups_direct b (bc_insert b s)) l s) = coins s.
Proof.
  induction l as [|b l IH]; intros s; cbn [fold_left]; [reflexivity|].
  rewrite IH. unfold write_lookups_direct. rewrite fold_emit_put_coins. apply bc_insert_coins.
Qed.
Lemma fold_del_coins : forall l s, coins (fold_left (fun s t => emit (Del (KLookup t)) s) l s) = coins s.
Proof. induction l as [|t l IH]; intros s; cbn [fold_left]; [reflexivity|]. rewrite IH. reflexivity. Qed.
Lemma reorg_coins : forall fuel o n s, coins (snd (reorg fuel o n s)) = coins s.
Proof.
  intros fuel o n s. unfold reorg.
  destruct (s_num n <? s_num o).
  - destruct (walk fuel (dsk s) (Some o) (s_num n) []) as [[[x|] oc]|]; cbn [snd]; try reflexivity.
    destruct (lockstep fuel (dsk s) x n oc []); cbn [snd]; try reflexivity.
    rewrite fold_del_coins. apply fold_insert_coins.
  - destruct (walk fuel (dsk s) (Some n) (s_num o) []) as [[[x|] nc]|]; cbn [snd]; try reflexivity.
    destruct (lockstep fuel (dsk s) o x [] nc); cbn [snd]; try reflexivity.
    rewrite fold_del_coins. apply fold_insert_coins.
Qed.

(* ---------------------------------------------------------------- reorg succeeds on grounded blocks *)

Section Grounded.
Variable g : header.

(* a block whose stored ancestry goes down to the genesis block, one number at a time *)
Inductive grounded (d : disk) : sblock -> Prop :=
| gr_gen : forall x, s_hash x = h_hash g -> s_num x = 0 -> grounded d x
| gr_step : forall x p, block_of d (s_parent x) = Some p -> s_num x = s_num p + 1 -> grounded d p -> grounded d x.

Lemma walk_grounded : forall d x, grounded d x -> forall fuel target acc,
  target <= s_num x -> (N.to_nat (s_num x - target) < fuel)%nat ->
  exists y acc', walk fuel d (Some x) target acc = Some (Some y, acc') /\ grounded d y /\ s_num y = target.
Proof.
  intros d x G. induction G as [x Hh Hn|x p Hp Hn G IH]; intros fuel target acc Hle Hf.
  - destruct fuel as [|f]; [lia|]. cbn [walk].
    assert (E : (s_num x =? target) = true) by lia. rewrite E.
    exists x, acc. repeat split; [apply gr_gen; assumption|lia].
  - destruct fuel as [|f]; [lia|]. cbn [walk].
    destruct (s_num x =? target) eqn:E.
    + exists x, acc. repeat split; [eapply gr_step; eassumption|lia].
    + rewrite Hp. apply IH; lia.
Qed.

Lemma lockstep_grounded : forall d o, grounded d o -> forall n, grounded d n -> s_num o = s_num n ->
  forall fuel oc nc, (N.to_nat (s_num o) < fuel)%nat -> exists oc' nc', lockstep fuel d o n oc nc = LOk oc' nc'.
Proof.
  intros d o G. induction G as [o Hh Hn|o p Hp Hn G IH]; intros n Gn En fuel oc nc Hf.
  - destruct fuel as [|f]; [lia|]. cbn [lockstep].
    inversion Gn as [x Hh' Hn'|x p' Hp' Hn' G']; subst x.
    + assert (E : (s_hash o =? s_hash n) = true) by lia. rewrite E. eauto.
    + lia.
  - destruct fuel as [|f]; [lia|]. cbn [lockstep].
    destruct (s_hash o =? s_hash n); [eauto|].
    inversion Gn as [x Hh' Hn'|x p' Hp' Hn' G']; subst x; [lia|].
    rewrite Hp, Hp'. apply IH; [assumption|lia|lia].
Qed.

Lemma reorg_ok : forall fuel o n s, grounded (dsk s) o -> grounded (dsk s) n ->
  (N.to_nat (N.max (s_num o) (s_num n)) + 1 < fuel)%nat ->
  fst (reorg fuel o n s) = SOk.
Proof.
  intros fuel o n s Go Gn Hf. unfold reorg.
  destruct (s_num n <? s_num o) eqn:C.
  - destruct (walk_grounded _ _ Go fuel (s_num n) []) as (y & acc' & W & Gy & Ny); [lia|lia|].
    rewrite W.
    destruct (lockstep_grounded _ _ Gy _ Gn Ny fuel acc' []) as (oc' & nc' & L); [lia|].
    rewrite L. reflexivity.
  - destruct (walk_grounded _ _ Gn fuel (s_num o) []) as (y & acc' & W & Gy & Ny); [lia|lia|].
    rewrite W.
    destruct (lockstep_grounded _ _ Go _ Gy (eq_sym Ny) fuel [] acc') as (oc' & nc' & L); [lia|].
    rewrite L. reflexivity.
Qed.

Lemma grounded_same_core : forall d d' x, same_core d d' -> grounded d x -> grounded d' x.
Proof.
  intros d d' x H G. induction G as [x Hh Hn|x p Hp Hn G IH]; [apply gr_gen; assumption|].
  eapply gr_step; [rewrite (sc_block _ _ _ H); exact Hp|assumption|assumption].
Qed.

End Grounded.

(* ---------------------------------------------------------------- the store invariant of import-only histories *)

Section Inv.
Variable U : N -> sblock.
Variable g : header.
Hypothesis Ug : U (h_hash g) = (g, []).
Hypothesis g0 : h_number g = 0.

Record InvD (d : disk) : Prop := {
  d_gen_hdr : header_of d (h_hash g) = Some g;
  d_gen_body : body_of d (h_hash g) = Some [];
  d_gen_td : td_of d (h_hash g) = Some (h_diff g);
  d_gen_state : has_state d (h_root g) = true;
  d_cons_h : forall h hd, header_of d h = Some hd -> hd = fst (U h) /\ h_hash hd = h;
  d_cons_b : forall h l, body_of d h = Some l -> l = snd (U h) /\ header_of d h <> None;
  d_stored : forall h, header_of d h <> None -> h <> h_hash g ->
     body_of d h <> None /\ has_state d (h_root (fst (U h))) = true /\
     header_of d (h_parent (fst (U h))) <> None /\
     h_number (fst (U h)) = h_number (fst (U (h_parent (fst (U h))))) + 1 /\
     exists t pt, td_of d h = Some t /\ td_of d (h_parent (fst (U h))) = Some pt /\ t = pt + h_diff (fst (U h))
}.

Lemma invD_same_core : forall d d', same_core d d' -> InvD d -> InvD d'.
Proof.
  intros d d' H I.
  pose proof (fun h => sc_header _ _ h H) as Eh. pose proof (fun h => sc_body _ _ h H) as Eb.
  pose proof (fun h => sc_td _ _ h H) as Et. pose proof (fun h => sc_state _ _ h H) as Es.
  destruct I as [A B C D E F G]. constructor; intros; rewrite ?Eh, ?Eb, ?Et, ?Es in *; auto.
Qed.

Lemma hdr_body : forall d h, InvD d -> header_of d h <> None -> body_of d h <> None.
Proof.
  intros d h I Hh. destruct (N.eq_dec h (h_hash g)) as [->|Ne].
  - rewrite (d_gen_body _ I). discriminate.
  - apply (d_stored _ I h Hh Ne).
Qed.

Lemma stored_grounded : forall d, InvD d -> forall n h x, block_of d h = Some x -> s_num x = n -> grounded g d x.
Proof.
  intros d I n. induction n as [|n IH] using N.peano_ind; intros h x Hx Hn.
  - unfold block_of in Hx. destruct (header_of d h) as [hd|] eqn:Eh; [|discriminate].
    destruct (body_of d h) as [l|] eqn:Eb; [|discriminate]. injection Hx as <-.
    destruct (d_cons_h _ I _ _ Eh) as [Ehd Ehh].
    destruct (N.eq_dec h (h_hash g)) as [->|Ne].
    + apply gr_gen; [exact Ehh|exact Hn].
    + exfalso. assert (Hh : header_of d h <> None) by congruence.
      destruct (d_stored _ I h Hh Ne) as (_ & _ & _ & Hnum & _).
      unfold s_num in Hn. cbn [fst] in Hn. rewrite Ehd in Hn. lia.
  - unfold block_of in Hx. destruct (header_of d h) as [hd|] eqn:Eh; [|discriminate].
    destruct (body_of d h) as [l|] eqn:Eb; [|discriminate]. injection Hx as <-.
    destruct (d_cons_h _ I _ _ Eh) as [Ehd Ehh].
    destruct (N.eq_dec h (h_hash g)) as [->|Ne].
    + exfalso. rewrite (d_gen_hdr _ I) in Eh. injection Eh as <-. unfold s_num in Hn; cbn [fst] in Hn. lia.
    + assert (Hh : header_of d h <> None) by congruence.
      destruct (d_stored _ I h Hh Ne) as (_ & _ & Hp & Hnum & _).
      pose proof (hdr_body _ _ I Hp) as Hpb.
      destruct (header_of d (h_parent (fst (U h)))) as [ph|] eqn:Eph; [|congruence].
      destruct (body_of d (h_parent (fst (U h)))) as [pl|] eqn:Epb; [|congruence].
      destruct (d_cons_h _ I _ _ Eph) as [Ephd _].
      assert (Hblk : block_of d (h_parent (fst (U h))) = Some (ph, pl)) by (unfold block_of; rewrite Eph, Epb; reflexivity).
      apply gr_step with (p := (ph, pl)).
      * unfold s_parent; cbn [fst]. rewrite Ehd. exact Hblk.
      * unfold s_num; cbn [fst]. rewrite Ehd, Ephd. exact Hnum.
      * apply (IH _ _ Hblk). unfold s_num in *; cbn [fst] in *. rewrite Ehd in Hn. rewrite Ephd. lia.
Qed.

(* typed reads after a put *)
Lemma header_of_put : forall d k v h, header_of (put k v d) h =
  match k, v with KHeader h', VHeader x => if N.eq_dec h h' then Some x else header_of d h
  | KHeader h', _ => if N.eq_dec h h' then None else header_of d h | _, _ => header_of d h end.
Proof.
  intros d k v h. unfold header_of. rewrite get_put.
  destruct (key_eq_dec (KHeader h) k) as [<-|Ne].
  - destruct (N.eq_dec h h); [|congruence]. destruct v; reflexivity.
  - destruct k; try reflexivity. destruct (N.eq_dec h h0); [subst; congruence|]. destruct v; reflexivity.
Qed.
Lemma body_of_put : forall d k v h, body_of (put k v d) h =
  match k, v with KBody h', VTxs x => if N.eq_dec h h' then Some x else body_of d h
  | KBody h', _ => if N.eq_dec h h' then None else body_of d h | _, _ => body_of d h end.
Proof.
  intros d k v h. unfold body_of. rewrite get_put.
  destruct (key_eq_dec (KBody h) k) as [<-|Ne].
  - destruct (N.eq_dec h h); [|congruence]. destruct v; reflexivity.
  - destruct k; try reflexivity. destruct (N.eq_dec h h0); [subst; congruence|]. destruct v; reflexivity.
Qed.
Lemma td_of_put : forall d k v h, td_of (put k v d) h =
  match k, v with KTd h', VNum x => if N.eq_dec h h' then Some x else td_of d h
  | KTd h', _ => if N.eq_dec h h' then None else td_of d h | _, _ => td_of d h end.
Proof.
  intros d k v h. unfold td_of. rewrite get_put.
  destruct (key_eq_dec (KTd h) k) as [<-|Ne].
  - destruct (N.eq_dec h h); [|congruence]. destruct v; reflexivity.
  - destruct k; try reflexivity. destruct (N.eq_dec h h0); [subst; congruence|]. destruct v; reflexivity.
Qed.
Lemma has_state_put : forall d k v r, has_state (put k v d) r =
  match k with KState r' => if N.eq_dec r r' then true else has_state d r | _ => has_state d r end.
Proof.
  intros d k v r. unfold has_state. rewrite get_put.
  destruct (key_eq_dec (KState r) k) as [<-|Ne].
  - destruct (N.eq_dec r r); [reflexivity|congruence].
  - destruct k; try reflexivity. destruct (N.eq_dec r r0); [subst; congruence|reflexivity].
Qed.


(* step 1 of WriteBlockWithState: the TD record and the state commit *)
Definition d_td_state (d : disk) (h ext r : N) : disk := put (KState r) VUnit (put (KTd h) (VNum ext) d).

Lemma invD_td_state : forall d h hd txs ptd,
  InvD d -> (hd, txs) = U h -> h <> h_hash g ->
  td_of d (h_parent hd) = Some ptd ->
  let d1 := d_td_state d h (h_diff hd + ptd) (h_root hd) in
  InvD d1 /\ (forall k, header_of d1 k = header_of d k) /\ (forall k, body_of d1 k = body_of d k) /\
  (forall k, k <> h -> td_of d1 k = td_of d k) /\ td_of d1 h = Some (h_diff hd + ptd) /\
  has_state d1 (h_root hd) = true /\
  (forall k, header_of d k <> None -> td_of d1 k = td_of d k).
Proof.
  intros d h hd txs ptd I HU Ne Hptd d1.
  assert (Eh : forall k, header_of d1 k = header_of d k) by (intro k; unfold d1, d_td_state; rewrite !header_of_put; reflexivity).
  assert (Eb : forall k, body_of d1 k = body_of d k) by (intro k; unfold d1, d_td_state; rewrite !body_of_put; reflexivity).
  assert (Et : forall k, td_of d1 k = if N.eq_dec k h then Some (h_diff hd + ptd) else td_of d k)
    by (intro k; unfold d1, d_td_state; rewrite !td_of_put; reflexivity).
  assert (Es : forall r, has_state d r = true -> has_state d1 r = true)
    by (intros r Hr; unfold d1, d_td_state; rewrite !has_state_put; destruct (N.eq_dec r (h_root hd)); auto).
  assert (Hfst : fst (U h) = hd) by (rewrite <- HU; reflexivity).
  assert (Ekeep : forall k, header_of d k <> None -> td_of d1 k = td_of d k).
  { intros k Hk. rewrite Et. destruct (N.eq_dec k h) as [->|]; [|reflexivity].
    destruct (d_stored _ I h Hk Ne) as (_ & _ & _ & _ & t & pt & Ht & Hpt & Hsum).
    rewrite Hfst in Hpt, Hsum. rewrite Hptd in Hpt. injection Hpt as <-. rewrite Ht. f_equal. lia. }
  split; [|split; [exact Eh|split; [exact Eb|split; [|split; [|split; [|exact Ekeep]]]]]].
  - destruct I as [A B C D E F G]. constructor; intros; rewrite ?Eh, ?Eb in *; auto.
    + rewrite Et. destruct (N.eq_dec (h_hash g) h); [congruence|exact C].
    + destruct (G h0 H H0) as (G1 & G2 & G3 & G4 & t & pt & Ht & Hpt & Hsum).
      repeat split; auto. exists t, pt. repeat split; auto.
      * rewrite Ekeep; assumption.
      * rewrite Ekeep; assumption.
  - intros k Hk. rewrite Et. destruct (N.eq_dec k h); [contradiction|reflexivity].
  - rewrite Et. destruct (N.eq_dec h h); [reflexivity|congruence].
  - unfold d1, d_td_state. rewrite has_state_put. destruct (N.eq_dec (h_root hd) (h_root hd)); [reflexivity|congruence].
Qed.

(* step 2: the four block records of the batch (body, hash->number, header, receipts) *)
Definition d_block (d : disk) (hd : header) (txs : list N) : disk :=
  put (KReceipts (h_hash hd)) (VTxs txs) (put (KHeader (h_hash hd)) (VHeader hd)
    (put (KHashNum (h_hash hd)) (VNum (h_number hd)) (put (KBody (h_hash hd)) (VTxs txs) d))).

Lemma d_block_reads : forall d hd txs,
  (forall k, header_of (d_block d hd txs) k = if N.eq_dec k (h_hash hd) then Some hd else header_of d k) /\
  (forall k, body_of (d_block d hd txs) k = if N.eq_dec k (h_hash hd) then Some txs else body_of d k) /\
  (forall k, td_of (d_block d hd txs) k = td_of d k) /\
  (forall r, has_state (d_block d hd txs) r = has_state d r).
Proof.
  intros d hd txs. unfold d_block. split; [|split; [|split]]; intro k.
  - rewrite !header_of_put. reflexivity.
  - rewrite !body_of_put. reflexivity.
  - rewrite !td_of_put. reflexivity.
  - rewrite !has_state_put. reflexivity.
Qed.

Lemma invD_add_block : forall d hd txs pt,
  InvD d -> (hd, txs) = U (h_hash hd) -> h_hash hd <> h_hash g ->
  header_of d (h_parent hd) <> None ->
  h_number hd = h_number (fst (U (h_parent hd))) + 1 ->
  td_of d (h_parent hd) = Some pt -> td_of d (h_hash hd) = Some (h_diff hd + pt) ->
  has_state d (h_root hd) = true ->
  InvD (d_block d hd txs).
Proof.
  intros d hd txs pt I HU Ne Hp Hnum Hpt Htd Hst.
  destruct (d_block_reads d hd txs) as (Eh & Eb & Et & Es).
  assert (Hfst : fst (U (h_hash hd)) = hd) by (rewrite <- HU; reflexivity).
  assert (Hsnd : snd (U (h_hash hd)) = txs) by (rewrite <- HU; reflexivity).
  destruct I as [A B C D E F G]. constructor; intros; rewrite ?Eh, ?Eb, ?Et, ?Es in *.
  - destruct (N.eq_dec (h_hash g) (h_hash hd)); [congruence|exact A].
  - destruct (N.eq_dec (h_hash g) (h_hash hd)); [congruence|exact B].
  - exact C.
  - exact D.
  - destruct (N.eq_dec h (h_hash hd)) as [->|]; [|auto]. injection H as <-. split; [symmetry; exact Hfst|reflexivity].
  - destruct (N.eq_dec h (h_hash hd)) as [->|]; [|auto]. injection H as <-. split; [symmetry; exact Hsnd|discriminate].
  - destruct (N.eq_dec h (h_hash hd)) as [->|Nh].
    + rewrite Hfst. repeat split; auto; try discriminate.
      * destruct (N.eq_dec (h_parent hd) (h_hash hd)); [discriminate|exact Hp].
      * exists (h_diff hd + pt), pt. repeat split; auto. lia.
    + destruct (G h H H0) as (G1 & G2 & G3 & G4 & G5). repeat split; auto.
      destruct (N.eq_dec (h_parent (fst (U h))) (h_hash hd)); [discriminate|exact G3].
Qed.

Lemma fold_bop_lookups_core : forall l d,
  (forall kv, In kv l -> core_key (fst kv) = false) ->
  same_core d (fold_left apply_bop (map (fun kv : key * value => (fst kv, Some (snd kv))) l) d).
Proof.
  induction l as [|kv l IH]; intros d H; cbn [map fold_left]; [apply same_core_refl|].
  eapply same_core_trans; [|apply IH; intros; apply H; right; assumption].
  unfold apply_bop; cbn [fst snd]. apply same_core_put. apply H; left; reflexivity.
Qed.

End Inv.

(* ---------------------------------------------------------------- WriteBlockWithState keeps the invariant *)

Section Step.
Variable U : N -> sblock.
Variable g : header.
Hypothesis Ug : U (h_hash g) = (g, []).
Hypothesis g0 : h_number g = 0.

Record Inv (s : st) : Prop := {
  inv_d : InvD U g (dsk s);
  inv_cur : block_of (dsk s) (s_hash (cur_block s)) = Some (cur_block s);
  inv_heavy : forall h, header_of (dsk s) h <> None -> td_or0 (dsk s) h <= head_td s
}.

Lemma block_of_d_block : forall d hd txs, InvD U g d -> (hd, txs) = U (h_hash hd) ->
  block_of (d_block d hd txs) (h_hash hd) = Some (hd, txs) /\
  forall k x, block_of d k = Some x -> block_of (d_block d hd txs) k = Some x.
Proof.
  intros d hd txs I HU. destruct (d_block_reads d hd txs) as (Eh & Eb & _ & _).
  split.
  - unfold block_of. rewrite Eh, Eb. destruct (N.eq_dec (h_hash hd) (h_hash hd)); [reflexivity|congruence].
  - intros k x Hx. unfold block_of in *. rewrite Eh, Eb.
    destruct (N.eq_dec k (h_hash hd)) as [->|]; [|exact Hx].
    destruct (header_of d (h_hash hd)) as [hd'|] eqn:E1; [|discriminate].
    destruct (body_of d (h_hash hd)) as [l'|] eqn:E2; [|discriminate].
    injection Hx as <-.
    destruct (d_cons_h _ _ _ I _ _ E1) as [-> _]. destruct (d_cons_b _ _ _ I _ _ E2) as [-> _].
    rewrite <- HU. reflexivity.
Qed.

Lemma cur_has_header : forall s, Inv s -> header_of (dsk s) (s_hash (cur_block s)) <> None.
Proof.
  intros s I. pose proof (inv_cur _ I) as H. unfold block_of in H.
  destruct (header_of (dsk s) (s_hash (cur_block s))); [discriminate|].
  discriminate.
Qed.

Lemma hdr_td : forall d h, InvD U g d -> header_of d h <> None -> td_of d h <> None.
Proof.
  intros d h I Hh. destruct (N.eq_dec h (h_hash g)) as [->|Ne].
  - rewrite (d_gen_td _ _ _ I). discriminate.
  - destruct (d_stored _ _ _ I h Hh Ne) as (_ & _ & _ & _ & t & pt & Ht & _). rewrite Ht. discriminate.
Qed.

(* everything WriteBlockWithState guarantees for a well-formed block whose parent is stored *)
Definition wb_post (s : st) (b : block) (r : R) : Prop :=
  Inv (snd r) /\ head_td s <= head_td (snd r) /\
  (forall k, header_of (dsk s) k <> None -> header_of (dsk (snd r)) k <> None) /\
  (fst r = SOk -> header_of (dsk (snd r)) (h_hash (b_hdr b)) <> None) /\
  (fst r = SOk \/ (fst r = SNoCoin /\ coins s = [])) /\
  (length (coins s) <= S (length (coins (snd r))))%nat.

Lemma wbws_full : forall b s, Inv s -> wf_block U b -> header_of (dsk s) (h_parent (b_hdr b)) <> None ->
  wb_post s b (write_block_with_state b s).
Proof.
  intros b s I [HU Hnum] Hp. unfold wb_post.
  pose proof (hdr_td _ _ (inv_d _ I) Hp) as Hptd.
  pose proof (hdr_td _ _ (inv_d _ I) (cur_has_header _ I)) as Hltd.
  set (hd := b_hdr b) in *. set (txs := b_txs b) in *. set (h := h_hash hd) in *.
  assert (HU' : (hd, txs) = U (h_hash hd)) by exact HU.
  assert (Ne : h <> h_hash g).
  { intro E. unfold h in E. rewrite E, Ug in HU'. injection HU' as Ehd _. rewrite Ehd in Hnum. lia. }
  unfold write_block_with_state. fold hd. fold h. fold txs.
  destruct (td_of (dsk s) (h_parent hd)) as [ptd|] eqn:Eptd; [|congruence].
  cbv zeta.
  set (ext := h_diff hd + ptd).
  set (s1 := emit (Put (KState (h_root hd)) VUnit) (emit (Put (KTd h) (VNum ext)) s)).
  assert (Ed1 : dsk s1 = d_td_state (dsk s) h ext (h_root hd)) by reflexivity.
  assert (Ec1 : cur_block s1 = cur_block s) by reflexivity.
  destruct (invD_td_state U g g0 (dsk s) h hd txs ptd (inv_d _ I) HU' Ne Eptd) as (I1 & Eh & Eb & Etn & Eth & Est & Ekeep).
  fold ext in I1, Eh, Eb, Etn, Eth, Est, Ekeep. rewrite <- Ed1 in I1, Eh, Eb, Etn, Eth, Est, Ekeep.
  assert (Eblk : forall k, block_of (dsk s1) k = block_of (dsk s) k) by (intro k; unfold block_of; rewrite Eh, Eb; reflexivity).
  assert (Ehead1 : head_td s1 = head_td s).
  { unfold head_td, td_or0. rewrite Ec1, (Ekeep _ (cur_has_header _ I)). reflexivity. }
  assert (Inv1 : Inv s1).
  { constructor; [exact I1|rewrite Ec1, Eblk; apply (inv_cur _ I)|].
    intros k Hk. rewrite Eh in Hk. rewrite Ehead1. unfold td_or0. rewrite (Ekeep _ Hk). apply (inv_heavy _ I _ Hk). }
  destruct (td_of (dsk s) (s_hash (cur_block s))) as [ltd|] eqn:Eltd; [|congruence].
  assert (Eltd' : head_td s = ltd) by (unfold head_td, td_or0; rewrite Eltd; reflexivity).
  (* facts needed by invD_add_block on any disk that is same_core with dsk s1 *)
  assert (Hadd : forall d3, same_core (dsk s1) d3 -> InvD U g (d_block d3 hd txs) /\ InvD U g d3).
  { intros d3 H3. pose proof (invD_same_core U g _ _ H3 I1) as I3. split; [|exact I3].
    apply (invD_add_block U g Ug g0 d3 hd txs ptd I3 HU' Ne).
    - rewrite (sc_header _ _ _ H3), Eh. exact Hp.
    - exact Hnum.
    - rewrite (sc_td _ _ _ H3), (Ekeep _ Hp). exact Eptd.
    - rewrite (sc_td _ _ _ H3). exact Eth.
    - rewrite (sc_state _ _ _ H3). exact Est. }
  remember (if ltd <? ext then Some (true, s1)
            else if ext =? ltd then
              if h_number hd <? s_num (cur_block s) then Some (true, s1)
              else if h_number hd =? s_num (cur_block s) then
                match coins s1 with [] => None | c :: rest => Some (c, set_coins rest s1) end
              else Some (false, s1)
            else Some (false, s1)) as dec eqn:Edec.
  assert (Hdec : (dec = None /\ coins s1 = []) \/ exists c s1', dec = Some (c, s1') /\ dsk s1' = dsk s1 /\ cur_block s1' = cur_block s1 /\
                 (c = true -> ltd <= ext) /\ (c = false -> ext <= ltd) /\ (length (coins s1) <= S (length (coins s1')))%nat).
  { subst dec. destruct (ltd <? ext) eqn:C1.
    - right. exists true, s1. repeat split; auto; try discriminate; intros; lia.
    - destruct (ext =? ltd) eqn:C2.
      + destruct (h_number hd <? s_num (cur_block s)).
        * right. exists true, s1. repeat split; auto; try discriminate; intros; lia.
        * destruct (h_number hd =? s_num (cur_block s)).
          -- destruct (coins s1) as [|c rest] eqn:Ecs; [left; split; reflexivity|].
             right. exists c, (set_coins rest s1). repeat split; auto; try (intros; lia); cbn [coins set_coins length]; lia.
          -- right. exists false, s1. repeat split; auto; try discriminate; intros; lia.
      + right. exists false, s1. repeat split; auto; try discriminate; intros; lia. }
  clear Edec.
  assert (Ehk1 : forall k, header_of (dsk s) k <> None -> header_of (dsk s1) k <> None) by (intros k Hk; rewrite Eh; exact Hk).
  destruct Hdec as [[-> Ecn]|(c & s1' & -> & Ed' & Ec' & Ht & Hf & Hcl)].
  { cbn [fst snd]. split; [exact Inv1|]. split; [lia|]. split; [exact Ehk1|]. split; [discriminate|].
    split; [right; split; [reflexivity|exact Ecn]|]. change (coins s1) with (coins s). lia. }
  change (coins s1) with (coins s) in Hcl.
  destruct c.
  - (* the block becomes the head *)
    specialize (Ht eq_refl).
    set (r := if h_parent hd =? s_hash (cur_block s) then (SOk, s1')
              else reorg (reorg_fuel s1' (h_number hd)) (cur_block s) (to_s b) s1').
    assert (Hr : exists s3, r = (SOk, s3) /\ same_core (dsk s1) (dsk s3) /\ coins s3 = coins s1').
    { unfold r. destruct (h_parent hd =? s_hash (cur_block s)).
      - exists s1'. split; [reflexivity|split; [rewrite Ed'; apply same_core_refl|reflexivity]].
      - exists (snd (reorg (reorg_fuel s1' (h_number hd)) (cur_block s) (to_s b) s1')).
        split; [|split; [rewrite <- Ed'; apply reorg_core|apply reorg_coins]].
        rewrite (surjective_pairing (reorg _ _ _ _)). f_equal.
        apply (reorg_ok g).
        + rewrite Ed'. eapply (stored_grounded U g g0 _ I1); [|reflexivity].
          rewrite Eblk. apply (inv_cur _ I).
        + rewrite Ed'.
          assert (Hp1 : header_of (dsk s1) (h_parent hd) <> None) by (rewrite Eh; exact Hp).
          pose proof (hdr_body U g _ _ I1 Hp1) as Hpb.
          destruct (header_of (dsk s1) (h_parent hd)) as [ph|] eqn:Eph; [|congruence].
          destruct (body_of (dsk s1) (h_parent hd)) as [pl|] eqn:Epb; [|congruence].
          destruct (d_cons_h _ _ _ I1 _ _ Eph) as [Ephd _].
          assert (Hblk : block_of (dsk s1) (h_parent hd) = Some (ph, pl)) by (unfold block_of; rewrite Eph, Epb; reflexivity).
          apply gr_step with (p := (ph, pl)).
          * exact Hblk.
          * unfold s_num, to_s; cbn [fst]. fold hd. rewrite Ephd. exact Hnum.
          * eapply (stored_grounded U g g0 _ I1); [exact Hblk|reflexivity].
        + unfold reorg_fuel. rewrite Ec', Ec1. change (s_num (to_s b)) with (h_number hd). lia. }
    destruct Hr as (s3 & -> & H3 & Ec3).
    destruct (Hadd _ H3) as [I4 I3].
    set (lk := map (fun kv : key * value => (fst kv, Some (snd kv))) (lookup_puts h (h_number hd) 0 txs)).
    set (s4 := emit (Batch (([(KBody h, Some (VTxs txs)); (KHashNum h, Some (VNum (h_number hd))); (KHeader h, Some (VHeader hd))]
                              ++ [(KReceipts h, Some (VTxs txs))]) ++ lk)) s3).
    assert (E4 : same_core (d_block (dsk s3) hd txs) (dsk s4)).
    { unfold s4. cbn [dsk emit apply_wop]. rewrite fold_left_app.
      apply fold_bop_lookups_core. intros kv Hkv. eapply lookup_puts_noncore; exact Hkv. }
    assert (E5 : same_core (d_block (dsk s3) hd txs) (dsk (bc_insert (to_s b) s4)))
      by (eapply same_core_trans; [exact E4|apply bc_insert_core]).
    cbn [snd].
    destruct (d_block_reads (dsk s3) hd txs) as (Rh & Rb & Rt & Rs).
    destruct (block_of_d_block (dsk s3) hd txs I3 HU') as [Bh _].
    assert (Etd5 : forall k, td_of (dsk (bc_insert (to_s b) s4)) k = td_of (dsk s1) k)
      by (intro k; rewrite (sc_td _ _ _ E5), Rt, (sc_td _ _ _ H3); reflexivity).
    assert (Ehd5 : head_td (bc_insert (to_s b) s4) = ext).
    { unfold head_td, td_or0. rewrite bc_insert_cur, Etd5. unfold s_hash, to_s; cbn [fst]. fold hd. fold h. rewrite Eth. reflexivity. }
    assert (Ehd5k : forall k, header_of (dsk (bc_insert (to_s b) s4)) k = if N.eq_dec k (h_hash hd) then Some hd else header_of (dsk s) k)
      by (intro k; rewrite (sc_header _ _ _ E5), Rh, (sc_header _ _ _ H3), Eh; reflexivity).
    cbn [fst].
    split; [|split; [lia|split; [|split; [|split; [left; reflexivity|]]]]].
    2:{ intros k Hk. rewrite Ehd5k. destruct (N.eq_dec k (h_hash hd)); [discriminate|exact Hk]. }
    2:{ intros _. rewrite Ehd5k. match goal with |- context [N.eq_dec ?a ?b] => destruct (N.eq_dec a b) as [|n] end; [discriminate|]. exfalso; apply n; reflexivity. }
    2:{ rewrite bc_insert_coins. unfold s4. cbn [coins emit].
        rewrite Ec3. exact Hcl. }
    constructor.
    + apply (invD_same_core U g _ _ E5 I4).
    + rewrite bc_insert_cur, (sc_block _ _ _ E5). exact Bh.
    + intros k Hk. rewrite Ehd5. rewrite (sc_header _ _ _ E5), Rh in Hk. unfold td_or0. rewrite Etd5.
      destruct (N.eq_dec k (h_hash hd)) as [->|Nk].
      * fold h. rewrite Eth. lia.
      * rewrite (sc_header _ _ _ H3), Eh in Hk. rewrite (Etn _ Nk).
        pose proof (inv_heavy _ I _ Hk) as Hle. unfold td_or0 in Hle. lia.
  - (* the block stays on a side chain *)
    specialize (Hf eq_refl). cbn [snd].
    set (s2 := emit (Batch ([(KBody h, Some (VTxs txs)); (KHashNum h, Some (VNum (h_number hd))); (KHeader h, Some (VHeader hd))]
                              ++ [(KReceipts h, Some (VTxs txs))])) s1').
    assert (E2 : dsk s2 = d_block (dsk s1) hd txs) by (unfold s2; cbn [dsk emit apply_wop app fold_left]; rewrite Ed'; reflexivity).
    assert (Ec2 : cur_block s2 = cur_block s) by (unfold s2; cbn [cur_block emit]; rewrite Ec', Ec1; reflexivity).
    destruct (Hadd _ (same_core_refl _)) as [I4 _].
    destruct (d_block_reads (dsk s1) hd txs) as (Rh & Rb & Rt & Rs).
    destruct (block_of_d_block (dsk s1) hd txs I1 HU') as [_ Bk].
    assert (Ehd2 : head_td s2 = head_td s).
    { unfold head_td, td_or0. rewrite Ec2, E2, Rt. fold (td_or0 (dsk s1) (s_hash (cur_block s))).
      rewrite <- Ec1. exact Ehead1. }
    assert (Ehd2k : forall k, header_of (dsk s2) k = if N.eq_dec k (h_hash hd) then Some hd else header_of (dsk s) k)
      by (intro k; rewrite E2, Rh, Eh; reflexivity).
    cbn [fst].
    split; [|split; [lia|split; [|split; [|split; [left; reflexivity|]]]]].
    2:{ intros k Hk. rewrite Ehd2k. destruct (N.eq_dec k (h_hash hd)); [discriminate|exact Hk]. }
    2:{ intros _. rewrite Ehd2k. match goal with |- context [N.eq_dec ?a ?b] => destruct (N.eq_dec a b) as [|n] end; [discriminate|]. exfalso; apply n; reflexivity. }
    2:{ unfold s2. cbn [coins emit]. exact Hcl. }
    constructor.
    + rewrite E2. exact I4.
    + rewrite Ec2, E2. apply Bk. rewrite Eblk. apply (inv_cur _ I).
    + intros k Hk. rewrite Ehd2. rewrite E2, Rh in Hk. unfold td_or0. rewrite E2, Rt.
      destruct (N.eq_dec k (h_hash hd)) as [->|Nk].
      * fold h. rewrite Eth. lia.
      * rewrite Eh in Hk. rewrite (Etn _ Nk).
        pose proof (inv_heavy _ I _ Hk) as Hle. unfold td_or0 in Hle. lia.
Qed.

Lemma wbws_inv : forall b s, Inv s -> wf_block U b -> header_of (dsk s) (h_parent (b_hdr b)) <> None ->
  Inv (snd (write_block_with_state b s)) /\ head_td s <= head_td (snd (write_block_with_state b s)).
Proof. intros b s I W Hp. destruct (wbws_full b s I W Hp) as (A & B & _). split; assumption. Qed.

End Step.

(* ---------------------------------------------------------------- InsertChain keeps the invariant; histories *)

Section Hist.
Variable U : N -> sblock.
Variable g : header.
Hypothesis Ug : U (h_hash g) = (g, []).
Hypothesis g0 : h_number g = 0.

Definition ic_process (prev : option block) (idx : N) (b : block) (s : st) (cont : st -> status * N * st) : status * N * st :=
  match (match prev with
         | Some p => Some (h_root (b_hdr p))
         | None => option_map s_root (block_of (dsk s) (h_parent (b_hdr b)))
         end) with
  | None => (SPanic, idx, s)
  | Some r =>
    if negb (has_state (dsk s) r) then (SErr ErrStateMissing, idx, s)
    else if negb (b_valid b) then (SErr ErrInvalidBlock, idx, s)
    else match write_block_with_state b s with
         | (SOk, s) => cont s
         | (e, s) => (e, idx, s)
         end
  end.

Lemma ic_loop_cons : forall prev idx b rest s,
  ic_loop prev idx (b :: rest) s =
  match validate_body (dsk s) (b_hdr b) with
  | VKnown =>
    if h_number (b_hdr b) <=? s_num (cur_block s) then ic_loop (Some b) (idx + 1) rest s
    else ic_process prev idx b s (ic_loop (Some b) (idx + 1) rest)
  | VUnknownAncestor => (SErr ErrUnknownAncestor, idx, s)
  | VPruned =>
    match td_of (dsk s) (s_hash (cur_block s)), td_of (dsk s) (h_parent (b_hdr b)) with
    | Some ltd, Some ptd =>
      let ext := ptd + h_diff (b_hdr b) in
      if ext <? ltd then ic_loop (Some b) (idx + 1) rest (write_block_without_state b ext s)
      else (SUnmodelled, idx, s)
    | _, _ => (SPanic, idx, s)
    end
  | VFine => ic_process prev idx b s (ic_loop (Some b) (idx + 1) rest)
  end.
Proof. reflexivity. Qed.

Definition good (s s' : st) : Prop :=
  Inv U g s' /\ head_td s <= head_td s' /\ (forall k, header_of (dsk s) k <> None -> header_of (dsk s') k <> None).

Lemma ic_process_good : forall prev idx b s cont,
  Inv U g s -> wf_block U b -> header_of (dsk s) (h_parent (b_hdr b)) <> None ->
  (forall s', good s s' -> good s (snd (cont s'))) ->
  good s (snd (ic_process prev idx b s cont)).
Proof.
  intros prev idx b s cont I W Hp Hc. unfold ic_process.
  assert (G0 : good s s) by (split; [exact I|split; [lia|auto]]).
  destruct (match prev with Some p => Some (h_root (b_hdr p)) | None => option_map s_root (block_of (dsk s) (h_parent (b_hdr b))) end); [|exact G0].
  destruct (negb (has_state (dsk s) n)); [exact G0|].
  destruct (negb (b_valid b)); [exact G0|].
  pose proof (wbws_full U g Ug g0 b s I W Hp) as (Hw1 & Hw2 & Hw3 & _).
  assert (Hw : good s (snd (write_block_with_state b s))) by (split; [exact Hw1|split; [exact Hw2|exact Hw3]]).
  destruct (write_block_with_state b s) as [e s']. cbn [snd] in Hw.
  destruct e; try exact Hw. apply Hc. exact Hw.
Qed.

Lemma has_bas_header : forall d h, has_block_and_state d h = true -> header_of d h <> None /\ body_of d h <> None.
Proof.
  intros d h H. unfold has_block_and_state, block_of in H.
  destruct (header_of d h); [|discriminate]. destruct (body_of d h); [|discriminate]. split; discriminate.
Qed.

Lemma ic_loop_good : forall chain prev idx s,
  Inv U g s -> (forall b, In b chain -> wf_block U b) ->
  good s (snd (ic_loop prev idx chain s)).
Proof.
  induction chain as [|b rest IH]; intros prev idx s I W.
  - cbn [ic_loop snd]. split; [exact I|split; [lia|auto]].
  - assert (Wb : wf_block U b) by (apply W; left; reflexivity).
    assert (Wr : forall b', In b' rest -> wf_block U b') by (intros; apply W; right; assumption).
    assert (G0 : good s s) by (split; [exact I|split; [lia|auto]]).
    assert (Hcont : forall s', good s s' -> good s (snd (ic_loop (Some b) (idx + 1) rest s'))).
    { intros s' (I' & L' & M'). destruct (IH (Some b) (idx + 1) s' I' Wr) as (I'' & L'' & M''). split; [exact I''|split; [lia|auto]]. }
    rewrite ic_loop_cons. unfold validate_body.
    destruct (has_block_and_state (dsk s) (h_hash (b_hdr b))) eqn:Ek.
    + (* known *)
      destruct (h_number (b_hdr b) <=? s_num (cur_block s)); [apply Hcont; exact G0|].
      apply ic_process_good; auto.
      destruct (has_bas_header _ _ Ek) as [Hh _].
      destruct Wb as [HU Hnum].
      assert (Hfst : fst (U (h_hash (b_hdr b))) = b_hdr b) by (rewrite <- HU; reflexivity).
      assert (Ne : h_hash (b_hdr b) <> h_hash g).
      { intro E. rewrite E, Ug in Hfst. cbn [fst] in Hfst. rewrite <- Hfst in Hnum. lia. }
      destruct (d_stored _ _ _ (inv_d _ _ _ I) _ Hh Ne) as (_ & _ & Hp & _).
      rewrite Hfst in Hp. exact Hp.
    + destruct (has_block_and_state (dsk s) (h_parent (b_hdr b))) eqn:Ep; cbn [negb].
      * apply ic_process_good; auto. apply (has_bas_header _ _ Ep).
      * destruct (has_block (dsk s) (h_parent (b_hdr b))) eqn:Eb; cbn [negb]; [|exact G0].
        (* "pruned ancestor" cannot happen: a stored body comes with its header and state *)
        exfalso. unfold has_block in Eb.
        destruct (body_of (dsk s) (h_parent (b_hdr b))) as [l|] eqn:El; [|discriminate].
        destruct (d_cons_b _ _ _ (inv_d _ _ _ I) _ _ El) as [_ Hh].
        unfold has_block_and_state, block_of in Ep. rewrite El in Ep.
        destruct (header_of (dsk s) (h_parent (b_hdr b))) as [ph|] eqn:Eph; [|congruence].
        destruct (d_cons_h _ _ _ (inv_d _ _ _ I) _ _ Eph) as [Ephd _].
        unfold s_root in Ep; cbn [fst] in Ep.
        destruct (N.eq_dec (h_parent (b_hdr b)) (h_hash g)) as [Eg|Ng].
        -- rewrite Eg, (d_gen_hdr _ _ _ (inv_d _ _ _ I)) in Eph. injection Eph as <-.
           rewrite (d_gen_state _ _ _ (inv_d _ _ _ I)) in Ep. discriminate.
        -- assert (Hh2 : header_of (dsk s) (h_parent (b_hdr b)) <> None) by congruence.
           destruct (d_stored _ _ _ (inv_d _ _ _ I) _ Hh2 Ng) as (_ & Hs & _).
           rewrite <- Ephd in Hs. rewrite Hs in Ep. discriminate.
Qed.

Lemma insert_chain_good : forall chain cs s,
  Inv U g s -> (forall b, In b chain -> wf_block U b) -> good s (snd (insert_chain chain cs s)).
Proof.
  intros chain cs s I W. unfold insert_chain. destruct chain as [|b r]; [split; [exact I|split; [cbn [snd]; lia|auto]]|].
  assert (Is : Inv U g (set_coins cs s)) by (destruct I as [A B C]; constructor; assumption).
  assert (Hsub : forall l p x, In x (contiguous_prefix p l) -> In x l).
  { induction l as [|y l IHl]; intros p x Hx; cbn [contiguous_prefix] in Hx; [contradiction|].
    destruct ((h_number (b_hdr y) =? h_number (b_hdr p) + 1) && (h_parent (b_hdr y) =? h_hash (b_hdr p))); [|contradiction].
    destruct Hx as [<-|Hx]; [left; reflexivity|right; eapply IHl; exact Hx]. }
  destruct (ic_loop_good (b :: contiguous_prefix b r) None 0 (set_coins cs s) Is) as (I' & L' & M').
  - intros x [<-|Hx]; [apply W; left; reflexivity|apply W; right; eapply Hsub; exact Hx].
  - split; [exact I'|split; [exact L'|exact M']].
Qed.

(* histories made of InsertChain calls only *)
Definition inserts_only (ops : list op) : Prop := forall o, In o ops -> exists c cs, o = OpInsert c cs.

Lemma run_good : forall ops s,
  inserts_only ops -> (forall b, In b (blocks_of ops) -> wf_block U b) -> Inv U g s -> good s (run ops s).
Proof.
  induction ops as [|o ops IH]; intros s Hio W I.
  - split; [exact I|split; [cbn; lia|auto]].
  - destruct (Hio o (or_introl eq_refl)) as (c & cs & ->).
    unfold run. cbn [fold_left]. fold (run ops (snd (step (OpInsert c cs) s))).
    assert (Estep : snd (step (OpInsert c cs) s) = snd (insert_chain c cs s)).
    { cbn [step]. destruct (insert_chain c cs s) as [[e i] s']. reflexivity. }
    rewrite Estep.
    destruct (insert_chain_good c cs s I) as (I1 & L1 & M1).
    { intros b Hb. apply W. unfold blocks_of. cbn [flat_map blocks_of_op]. apply in_or_app. left. exact Hb. }
    destruct (IH (snd (insert_chain c cs s))) as (I2 & L2 & M2); auto.
    + intros o' Ho'. apply Hio. right. exact Ho'.
    + intros b Hb. apply W. unfold blocks_of. cbn [flat_map]. apply in_or_app. right. exact Hb.
    + split; [exact I2|split; [lia|auto]].
Qed.

(* the database right after Genesis.Commit satisfies the invariant *)
Lemma inv_pre_open : Inv U g (pre_open g).
Proof.
  assert (Eh : forall k, header_of (genesis_disk g) k = if N.eq_dec k (h_hash g) then Some g else None)
    by (intro k; unfold genesis_disk, replay; cbn [fold_left apply_wop]; rewrite !header_of_put; reflexivity).
  assert (Eb : forall k, body_of (genesis_disk g) k = if N.eq_dec k (h_hash g) then Some [] else None)
    by (intro k; unfold genesis_disk, replay; cbn [fold_left apply_wop]; rewrite !body_of_put; reflexivity).
  assert (Et : forall k, td_of (genesis_disk g) k = if N.eq_dec k (h_hash g) then Some (h_diff g) else None)
    by (intro k; unfold genesis_disk, replay; cbn [fold_left apply_wop]; rewrite !td_of_put; reflexivity).
  assert (Es : has_state (genesis_disk g) (h_root g) = true).
  { unfold genesis_disk, replay; cbn [fold_left apply_wop]. rewrite !has_state_put.
    destruct (N.eq_dec (h_root g) (h_root g)); [reflexivity|congruence]. }
  assert (Rg : forall A (x y : A), (if N.eq_dec (h_hash g) (h_hash g) then x else y) = x)
    by (intros; destruct (N.eq_dec (h_hash g) (h_hash g)); [reflexivity|congruence]).
  constructor.
  - cbn [dsk pre_open]. constructor; intros; rewrite ?Eh, ?Eb, ?Et, ?Rg in *; auto.
    + destruct (N.eq_dec h (h_hash g)) as [->|]; [|discriminate]. injection H as <-. rewrite Ug. split; reflexivity.
    + destruct (N.eq_dec h (h_hash g)) as [->|]; [|discriminate]. injection H as <-. rewrite Ug. split; [reflexivity|discriminate].
    + destruct (N.eq_dec h (h_hash g)); [contradiction|congruence].
  - cbn [dsk pre_open cur_block]. unfold block_of, s_hash; cbn [fst]. rewrite Eh, Eb, !Rg. reflexivity.
  - intros k Hk. cbn [dsk pre_open] in *. rewrite Eh in Hk. destruct (N.eq_dec k (h_hash g)) as [->|]; [|congruence].
    unfold head_td. cbn [dsk pre_open cur_block]. unfold s_hash; cbn [fst]. lia.
Qed.

(* ---- the C02 statements *)

Theorem td_additive : forall ops,
  inserts_only ops -> (forall b, In b (blocks_of ops) -> wf_block U b) ->
  let d := dsk (run ops (pre_open g)) in
  forall h hd, header_of d h = Some hd -> h <> h_hash g ->
    exists t pt, td_of d h = Some t /\ td_of d (h_parent hd) = Some pt /\ t = pt + h_diff hd.
Proof.
  intros ops Hio W d h hd Hh Ne.
  destruct (run_good ops (pre_open g) Hio W inv_pre_open) as (I & _ & _).
  destruct (d_cons_h _ _ _ (inv_d _ _ _ I) _ _ Hh) as [-> _].
  assert (Hh' : header_of d h <> None) by (rewrite Hh; discriminate).
  destruct (d_stored _ _ _ (inv_d _ _ _ I) _ Hh' Ne) as (_ & _ & _ & _ & X). exact X.
Qed.

Theorem head_td_monotone : forall ops1 ops2,
  inserts_only (ops1 ++ ops2) -> (forall b, In b (blocks_of (ops1 ++ ops2)) -> wf_block U b) ->
  head_td (run ops1 (pre_open g)) <= head_td (run (ops1 ++ ops2) (pre_open g)).
Proof.
  intros ops1 ops2 Hio W.
  assert (E : run (ops1 ++ ops2) (pre_open g) = run ops2 (run ops1 (pre_open g))) by (unfold run; apply fold_left_app).
  rewrite E.
  assert (H1 : inserts_only ops1) by (intros o Ho; apply Hio; apply in_or_app; left; exact Ho).
  assert (H2 : inserts_only ops2) by (intros o Ho; apply Hio; apply in_or_app; right; exact Ho).
  assert (W1 : forall b, In b (blocks_of ops1) -> wf_block U b).
  { intros b Hb. apply W. unfold blocks_of in *. rewrite flat_map_app. apply in_or_app. left. exact Hb. }
  assert (W2 : forall b, In b (blocks_of ops2) -> wf_block U b).
  { intros b Hb. apply W. unfold blocks_of in *. rewrite flat_map_app. apply in_or_app. right. exact Hb. }
  destruct (run_good ops1 (pre_open g) H1 W1 inv_pre_open) as (I1 & _ & _).
  destruct (run_good ops2 _ H2 W2 I1) as (_ & L & _). exact L.
Qed.

(* the head is a stored block with its state, every stored block has its state
   and a stored parent one number below (so it is fully validated, as are all
   its ancestors), and no stored block is heavier than the head *)
Theorem head_heaviest : forall ops,
  inserts_only ops -> (forall b, In b (blocks_of ops) -> wf_block U b) ->
  let s := run ops (pre_open g) in
  block_of (dsk s) (s_hash (cur_block s)) = Some (cur_block s) /\
  has_state (dsk s) (s_root (cur_block s)) = true /\
  (forall h x, block_of (dsk s) h = Some x -> has_state (dsk s) (s_root x) = true /\ grounded g (dsk s) x) /\
  (forall h t, header_of (dsk s) h <> None -> td_of (dsk s) h = Some t -> t <= head_td s).
Proof.
  intros ops Hio W s.
  destruct (run_good ops (pre_open g) Hio W inv_pre_open) as (I & _ & _). fold s in I.
  assert (Hst : forall h x, block_of (dsk s) h = Some x -> has_state (dsk s) (s_root x) = true /\ grounded g (dsk s) x).
  { intros h x Hx. split; [|eapply (stored_grounded U g g0 _ (inv_d _ _ _ I)); [exact Hx|reflexivity]].
    unfold block_of in Hx. destruct (header_of (dsk s) h) as [hd|] eqn:Eh; [|discriminate].
    destruct (body_of (dsk s) h); [|discriminate]. injection Hx as <-. unfold s_root; cbn [fst].
    destruct (d_cons_h _ _ _ (inv_d _ _ _ I) _ _ Eh) as [Ehd _].
    destruct (N.eq_dec h (h_hash g)) as [->|Ne].
    - rewrite (d_gen_hdr _ _ _ (inv_d _ _ _ I)) in Eh. injection Eh as <-. apply (d_gen_state _ _ _ (inv_d _ _ _ I)).
    - assert (Hh : header_of (dsk s) h <> None) by congruence.
      destruct (d_stored _ _ _ (inv_d _ _ _ I) _ Hh Ne) as (_ & Hs & _). rewrite Ehd. exact Hs. }
  split; [apply (inv_cur _ _ _ I)|]. split; [apply (Hst _ _ (inv_cur _ _ _ I))|]. split; [exact Hst|].
  intros h t Hh Ht. pose proof (inv_heavy _ _ _ I _ Hh) as L. unfold td_or0 in L. rewrite Ht in L. exact L.
Qed.

End Hist.
