(* Chain/ChainAccept.v — acceptance completeness for property C02: a batch of
   valid, well-formed, linked blocks whose first parent is stored is stored
   entirely (the import cannot end in an error for it), and stays stored. *)
From Coq Require Import NArith List Bool Lia ZifyBool ZifyN ZifyNat.
From AQ Require Import Chain.Store Chain.ChainSpec Chain.ChainProofs.
Import ListNotations.
Local Open Scope N_scope.

Section Accept.
Variable U : N -> sblock.
Variable g : header.
Hypothesis Ug : U (h_hash g) = (g, []).
Hypothesis g0 : h_number g = 0.

Fixpoint linked (parent : N) (l : list block) : Prop :=
  match l with
  | [] => True
  | b :: r => h_parent (b_hdr b) = parent /\ linked (h_hash (b_hdr b)) r
  end.

Lemma cp_linked : forall l p, contiguous_prefix p l = l -> linked (h_hash (b_hdr p)) l.
Proof.
  induction l as [|y l IH]; intros p H; cbn [linked]; [exact I|].
  cbn [contiguous_prefix] in H.
  destruct ((h_number (b_hdr y) =? h_number (b_hdr p) + 1) && (h_parent (b_hdr y) =? h_hash (b_hdr p))) eqn:C; [|discriminate].
  injection H as H. split; [lia|apply IH; exact H].
Qed.

Definition prev_ok (s : st) (prev : option block) : Prop :=
  match prev with
  | None => True
  | Some p => has_state (dsk s) (h_root (b_hdr p)) = true
  end.

(* a stored header comes with body and state: HasBlockAndState holds *)
Lemma stored_bas : forall s p, Inv U g s -> header_of (dsk s) p <> None ->
  has_block_and_state (dsk s) p = true /\
  (forall x, block_of (dsk s) p = Some x -> has_state (dsk s) (s_root x) = true).
Proof.
  intros s p I Hp.
  pose proof (hdr_body U g _ _ (inv_d _ _ _ I) Hp) as Hb.
  destruct (header_of (dsk s) p) as [ph|] eqn:Eph; [|congruence].
  destruct (body_of (dsk s) p) as [pl|] eqn:Epb; [|congruence].
  destruct (d_cons_h _ _ _ (inv_d _ _ _ I) _ _ Eph) as [Ephd _].
  assert (Hs : has_state (dsk s) (h_root ph) = true).
  { destruct (N.eq_dec p (h_hash g)) as [Eg|Ng].
    - rewrite Eg, (d_gen_hdr _ _ _ (inv_d _ _ _ I)) in Eph. injection Eph as <-. apply (d_gen_state _ _ _ (inv_d _ _ _ I)).
    - assert (Hh2 : header_of (dsk s) p <> None) by congruence.
      destruct (d_stored _ _ _ (inv_d _ _ _ I) _ Hh2 Ng) as (_ & Hs & _). rewrite Ephd. exact Hs. }
  unfold has_block_and_state, block_of. rewrite Eph, Epb. unfold s_root; cbn [fst].
  split; [exact Hs|]. intros x [= <-]. exact Hs.
Qed.

Lemma stored_state_of_block : forall s b, Inv U g s -> wf_block U b ->
  header_of (dsk s) (h_hash (b_hdr b)) <> None -> has_state (dsk s) (h_root (b_hdr b)) = true.
Proof.
  intros s b I [HU _] Hh.
  destruct (header_of (dsk s) (h_hash (b_hdr b))) as [hd|] eqn:E; [|congruence].
  destruct (d_cons_h _ _ _ (inv_d _ _ _ I) _ _ E) as [Ehd _].
  assert (Hfst : fst (U (h_hash (b_hdr b))) = b_hdr b) by (rewrite <- HU; reflexivity).
  assert (Hblk : exists l, block_of (dsk s) (h_hash (b_hdr b)) = Some (hd, l)).
  { assert (Hh' : header_of (dsk s) (h_hash (b_hdr b)) <> None) by congruence.
    pose proof (hdr_body U g _ _ (inv_d _ _ _ I) Hh') as Hb.
    destruct (body_of (dsk s) (h_hash (b_hdr b))) as [l|] eqn:El; [|congruence].
    exists l. unfold block_of. rewrite E, El. reflexivity. }
  destruct Hblk as [l Hblk].
  assert (Hh' : header_of (dsk s) (h_hash (b_hdr b)) <> None) by congruence.
  destruct (stored_bas s _ I Hh') as [_ Hx]. specialize (Hx _ Hblk). unfold s_root in Hx; cbn [fst] in Hx.
  rewrite Ehd, Hfst in Hx. exact Hx.
Qed.

Lemma ic_loop_accepts : forall pre rest prev idx s,
  Inv U g s ->
  (forall b, In b (pre ++ rest) -> wf_block U b) ->
  (forall b, In b pre -> b_valid b = true) ->
  (forall b r, pre = b :: r -> header_of (dsk s) (h_parent (b_hdr b)) <> None /\ linked (h_hash (b_hdr b)) r) ->
  prev_ok s prev ->
  (length pre <= length (coins s))%nat ->
  forall b, In b pre -> header_of (dsk (snd (ic_loop prev idx (pre ++ rest) s))) (h_hash (b_hdr b)) <> None.
Proof.
  induction pre as [|b pre IH]; intros rest prev idx s I W V Hlink Hprev Hc x Hx; [contradiction|].
  destruct (Hlink b pre eq_refl) as [Hp Hl].
  assert (Wb : wf_block U b) by (apply W; left; reflexivity).
  assert (Wr : forall b', In b' (pre ++ rest) -> wf_block U b') by (intros; apply W; right; assumption).
  assert (Vr : forall b', In b' pre -> b_valid b' = true) by (intros; apply V; right; assumption).
  (* what the continuation gives, from any good successor state in which b is stored *)
  assert (Hcont : forall s', Inv U g s' -> header_of (dsk s') (h_hash (b_hdr b)) <> None ->
            (forall k, header_of (dsk s) k <> None -> header_of (dsk s') k <> None) ->
            (length pre <= length (coins s'))%nat ->
            header_of (dsk (snd (ic_loop (Some b) (idx + 1) (pre ++ rest) s'))) (h_hash (b_hdr x)) <> None).
  { intros s' I' Hb' M' Hc'.
    destruct Hx as [<-|Hx].
    - destruct (ic_loop_good U g Ug g0 (pre ++ rest) (Some b) (idx + 1) s' I' Wr) as (_ & _ & M). apply M. exact Hb'.
    - apply IH; auto.
      + intros b1 r1 E. subst pre. cbn [linked] in Hl. destruct Hl as [Hl1 Hl2]. rewrite Hl1. split; [exact Hb'|exact Hl2].
      + cbn [prev_ok]. apply stored_state_of_block; assumption. }
  cbn [app]. rewrite ic_loop_cons. unfold validate_body.
  destruct (stored_bas s _ I Hp) as [Hpbas Hpst].
  rewrite Hpbas. cbn [negb].
  assert (Hproc : header_of (dsk (snd (ic_process prev idx b s (ic_loop (Some b) (idx + 1) (pre ++ rest))))) (h_hash (b_hdr x)) <> None).
  { unfold ic_process.
    assert (Hroot : exists r, (match prev with Some p => Some (h_root (b_hdr p)) | None => option_map s_root (block_of (dsk s) (h_parent (b_hdr b))) end) = Some r
                              /\ has_state (dsk s) r = true).
    { destruct prev as [p|].
      - exists (h_root (b_hdr p)). split; [reflexivity|exact Hprev].
      - unfold has_block_and_state in Hpbas. destruct (block_of (dsk s) (h_parent (b_hdr b))) as [pb|] eqn:Epb; [|discriminate].
        exists (s_root pb). split; [reflexivity|exact Hpbas]. }
    destruct Hroot as (r & -> & Hr). rewrite Hr. cbn [negb].
    rewrite (V b (or_introl eq_refl)). cbn [negb].
    pose proof (wbws_full U g Ug g0 b s I Wb Hp) as (W1 & W2 & W3 & W4 & W5 & W6).
    destruct (write_block_with_state b s) as [e s']. cbn [fst snd] in *.
    destruct W5 as [->|[-> Ecn]].
    - apply Hcont; auto. cbn [length] in Hc. lia.
    - exfalso. rewrite Ecn in Hc. cbn [length] in Hc. lia. }
  destruct (has_block_and_state (dsk s) (h_hash (b_hdr b))) eqn:Ek; [|exact Hproc].
  destruct (h_number (b_hdr b) <=? s_num (cur_block s)); [|exact Hproc].
  apply Hcont; auto.
  - apply (has_bas_header _ _ Ek).
  - cbn [length] in Hc. lia.
Qed.

(* a valid linked batch on a stored parent is accepted entirely, stays stored under
   further imports, and is therefore never heavier than the head *)
Theorem valid_batch_accepted : forall ops1 b0 r cs ops2,
  inserts_only (ops1 ++ OpInsert (b0 :: r) cs :: ops2) ->
  (forall b, In b (blocks_of (ops1 ++ OpInsert (b0 :: r) cs :: ops2)) -> wf_block U b) ->
  header_of (dsk (run ops1 (pre_open g))) (h_parent (b_hdr b0)) <> None ->
  contiguous_prefix b0 r = r ->
  (forall b, In b (b0 :: r) -> b_valid b = true) ->
  (length (b0 :: r) <= length cs)%nat ->
  let s := run (ops1 ++ OpInsert (b0 :: r) cs :: ops2) (pre_open g) in
  forall b, In b (b0 :: r) ->
    header_of (dsk s) (h_hash (b_hdr b)) <> None /\ td_or0 (dsk s) (h_hash (b_hdr b)) <= head_td s.
Proof.
  intros ops1 b0 r cs ops2 Hio W Hp Hcp V Hc s b Hb.
  assert (E : s = run ops2 (snd (insert_chain (b0 :: r) cs (run ops1 (pre_open g))))).
  { unfold s, run. rewrite fold_left_app. cbn [fold_left step].
    destruct (insert_chain (b0 :: r) cs (fold_left (fun s o => snd (step o s)) ops1 (pre_open g))) as [[e i] s']. reflexivity. }
  assert (H1 : inserts_only ops1) by (intros o Ho; apply Hio; apply in_or_app; left; exact Ho).
  assert (H2 : inserts_only ops2) by (intros o Ho; apply Hio; apply in_or_app; right; right; exact Ho).
  assert (Wall : forall x, In x (blocks_of ops1) \/ In x (b0 :: r) \/ In x (blocks_of ops2) -> wf_block U x).
  { intros x Hx. apply W. unfold blocks_of in *. rewrite flat_map_app. cbn [flat_map blocks_of_op].
    apply in_or_app. destruct Hx as [Hx|[Hx|Hx]]; [left; exact Hx|right; apply in_or_app; left; exact Hx|right; apply in_or_app; right; exact Hx]. }
  destruct (run_good U g Ug g0 ops1 (pre_open g) H1 (fun x Hx => Wall x (or_introl Hx)) (inv_pre_open U g Ug g0)) as (I1 & _ & _).
  set (s1 := run ops1 (pre_open g)) in *.
  assert (Is : Inv U g (set_coins cs s1)) by (destruct I1 as [A B C]; constructor; assumption).
  assert (Hst : header_of (dsk (snd (insert_chain (b0 :: r) cs s1))) (h_hash (b_hdr b)) <> None).
  { unfold insert_chain. rewrite Hcp.
    replace (b0 :: r) with ((b0 :: r) ++ []) at 1 by apply app_nil_r.
    apply ic_loop_accepts; auto.
    - intros x Hx. rewrite app_nil_r in Hx. apply Wall. right. left. exact Hx.
    - intros b1 r1 [= <- <-]. split; [exact Hp|apply cp_linked; exact Hcp].
    - exact I. }
  destruct (insert_chain_good U g Ug g0 (b0 :: r) cs s1 I1 (fun x Hx => Wall x (or_intror (or_introl Hx)))) as (I2 & _ & _).
  destruct (run_good U g Ug g0 ops2 _ H2 (fun x Hx => Wall x (or_intror (or_intror Hx))) I2) as (I3 & _ & M3).
  rewrite <- E in I3, M3.
  split; [apply M3; exact Hst|apply (inv_heavy _ _ _ I3); apply M3; exact Hst].
Qed.

End Accept.
