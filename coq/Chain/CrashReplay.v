(* Chain/CrashReplay.v — property C04, clause "feeding the original blocks again
   converges to the same head as a crash-free run".

   Layer 1 (semantic convergence, [replay_converges]): take a history [ops] of
   InsertChain calls whose batches are well-formed, valid, linked, supplied with
   enough coins and PARENT-CLOSED ([closed_hist]: the parent of the first block
   of a batch is the genesis block or a block of an earlier batch).  Run it
   once crash-free from the genesis database (sA) and once from ANY state s0
   that satisfies the store + canonical-chain invariant [K] and stores only
   blocks of the history (sB).  Then both databases store exactly the same
   blocks with the same total difficulties, the head total difficulty is the
   same, and - when the heaviest stored block of the crash-free run is unique -
   the head block and the whole number index up to it are the same.
   WITHOUT the unique-heaviest premise the head hash may legitimately differ:
   on a total-difficulty tie between blocks of equal number the code flips a
   coin (mrand.Float64() < 0.5), and which of the tied blocks was "first"
   differs between the two runs.

   Layer 2 (from a crash prefix to s0): [open_db] on a crash disk does NOT
   always return a state satisfying [K] - two confirmed defects of the code
   (CrashProofs.crash_window_head_pointer: panic; crash_window_canon_before_head:
   canon_below false).  [replay_converges_after_crash] therefore carries the
   premise [K U g s0]; [open_boundary] + [replay_converges_at_boundary] discharge
   it for the crash points at operation boundaries. *)
From Coq Require Import NArith PeanoNat List Bool Lia ZifyBool ZifyN ZifyNat.
From AQ Require Import Chain.Store Chain.ChainSpec Chain.ChainProofs Chain.ChainAccept
  Chain.Crash Chain.CrashProofs Chain.ChainReopen Chain.ChainCanon.
Import ListNotations.
Local Open Scope N_scope.

(* ---------------------------------------------------------------- only delivered blocks become stored *)

(* WriteBlockWithState touches no header record except the block's own *)
Lemma wbws_hdr_frame : forall b s k, k <> h_hash (b_hdr b) ->
  header_of (dsk (snd (write_block_with_state b s))) k = header_of (dsk s) k.
Proof.
  intros b s k Hk. unfold write_block_with_state.
  set (hd := b_hdr b) in *. set (txs := b_txs b). set (h := h_hash hd) in *.
  destruct (td_of (dsk s) (h_parent hd)) as [ptd|]; [|reflexivity].
  cbv zeta. set (ext := h_diff hd + ptd).
  set (s1 := emit (Put (KState (h_root hd)) VUnit) (emit (Put (KTd h) (VNum ext)) s)).
  assert (E1 : header_of (dsk s1) k = header_of (dsk s) k).
  { unfold s1. rewrite !emit_dsk. cbn [apply_wop]. rewrite !header_of_put. reflexivity. }
  destruct (td_of (dsk s) (s_hash (cur_block s))) as [ltd|]; [|exact E1].
  assert (Hblk : forall d, header_of (d_block d hd txs) k = header_of d k).
  { intro d. destruct (d_block_reads d hd txs) as (Eh & _). rewrite Eh.
    destruct (N.eq_dec k (h_hash hd)) as [E|]; [exfalso; apply Hk; exact E|reflexivity]. }
  assert (Hside : forall s1', dsk s1' = dsk s1 ->
            header_of (dsk (emit (Batch ([(KBody h, Some (VTxs txs)); (KHashNum h, Some (VNum (h_number hd))); (KHeader h, Some (VHeader hd))]
                               ++ [(KReceipts h, Some (VTxs txs))])) s1')) k = header_of (dsk s) k).
  { intros s1' Ed. rewrite emit_dsk. cbn [apply_wop app fold_left]. rewrite Ed.
    change (header_of (d_block (dsk s1) hd txs) k = header_of (dsk s) k). rewrite Hblk. exact E1. }
  assert (Hmain : forall s1', dsk s1' = dsk s1 ->
            header_of (dsk (snd (let r := if h_parent hd =? s_hash (cur_block s) then (SOk, s1')
                               else reorg (reorg_fuel s1' (h_number hd)) (cur_block s) (to_s b) s1' in
                      match r with
                      | (SOk, s0) =>
                        (SOk, bc_insert (to_s b)
                           (emit (Batch (([(KBody h, Some (VTxs txs)); (KHashNum h, Some (VNum (h_number hd))); (KHeader h, Some (VHeader hd))]
                               ++ [(KReceipts h, Some (VTxs txs))])
                               ++ map (fun kv : key * value => (fst kv, Some (snd kv))) (lookup_puts h (h_number hd) 0 txs))) s0))
                      | other => other
                      end))) k = header_of (dsk s) k).
  { intros s1' Ed. cbv zeta.
    set (r := if h_parent hd =? s_hash (cur_block s) then (SOk, s1')
              else reorg (reorg_fuel s1' (h_number hd)) (cur_block s) (to_s b) s1').
    assert (Hr : same_core (dsk s1) (dsk (snd r))).
    { unfold r. destruct (h_parent hd =? s_hash (cur_block s)); cbn [snd].
      - rewrite Ed. apply same_core_refl.
      - rewrite <- Ed. apply reorg_core. }
    destruct r as [e s3]. cbn [snd] in Hr.
    assert (E3 : header_of (dsk s3) k = header_of (dsk s) k) by (rewrite (sc_header _ _ _ Hr); exact E1).
    destruct e; cbn [snd]; try exact E3.
    rewrite (sc_header _ _ _ (bc_insert_core _ _)).
    rewrite emit_dsk. cbn [apply_wop]. rewrite fold_left_app.
    rewrite (sc_header _ _ _ (fold_bop_lookups_core _ _ (fun kv Hkv => lookup_puts_noncore _ _ _ _ _ Hkv))).
    change (header_of (d_block (dsk s3) hd txs) k = header_of (dsk s) k). rewrite Hblk. exact E3. }
  destruct (ltd <? ext).
  { apply (Hmain s1); reflexivity. }
  destruct (ext =? ltd).
  2:{ cbn [snd]. apply (Hside s1); reflexivity. }
  destruct (h_number hd <? s_num (cur_block s)).
  { apply (Hmain s1); reflexivity. }
  destruct (h_number hd =? s_num (cur_block s)).
  2:{ cbn [snd]. apply (Hside s1); reflexivity. }
  destruct (coins s1) as [|c rest] eqn:Ec; [exact E1|].
  destruct c.
  - apply (Hmain (set_coins rest s1)); reflexivity.
  - cbn [snd]. apply (Hside (set_coins rest s1)); reflexivity.
Qed.

Lemma wbwos_hdr_frame : forall b td s k, k <> h_hash (b_hdr b) ->
  header_of (dsk (write_block_without_state b td s)) k = header_of (dsk s) k.
Proof.
  intros b td s k Hk. unfold write_block_without_state. rewrite !emit_dsk. cbn [apply_wop].
  rewrite !header_of_put. destruct (N.eq_dec k (h_hash (b_hdr b))) as [E|]; [exfalso; apply Hk; exact E|reflexivity].
Qed.

Lemma ic_loop_hdr_frame : forall chain prev idx s k,
  (forall b, In b chain -> h_hash (b_hdr b) <> k) ->
  header_of (dsk (snd (ic_loop prev idx chain s))) k = header_of (dsk s) k.
Proof.
  induction chain as [|b rest IH]; intros prev idx s k Hk; [reflexivity|].
  assert (Hb : k <> h_hash (b_hdr b)) by (intro E; apply (Hk b (or_introl eq_refl)); symmetry; exact E).
  assert (IH' : forall prev idx s, header_of (dsk (snd (ic_loop prev idx rest s))) k = header_of (dsk s) k)
    by (intros; apply IH; intros; apply Hk; right; assumption).
  rewrite ic_loop_cons.
  assert (Hproc : header_of (dsk (snd (ic_process prev idx b s (ic_loop (Some b) (idx + 1) rest)))) k = header_of (dsk s) k).
  { unfold ic_process.
    destruct (match prev with Some p => Some (h_root (b_hdr p)) | None => option_map s_root (block_of (dsk s) (h_parent (b_hdr b))) end); [|reflexivity].
    destruct (negb (has_state (dsk s) n)); [reflexivity|].
    destruct (negb (b_valid b)); [reflexivity|].
    pose proof (wbws_hdr_frame b s k Hb) as Hw.
    destruct (write_block_with_state b s) as [e s']. cbn [snd] in Hw.
    destruct e; try exact Hw. rewrite IH'. exact Hw. }
  destruct (validate_body (dsk s) (b_hdr b)).
  - destruct (h_number (b_hdr b) <=? s_num (cur_block s)); [apply IH'|exact Hproc].
  - reflexivity.
  - destruct (td_of (dsk s) (s_hash (cur_block s))); [|reflexivity].
    destruct (td_of (dsk s) (h_parent (b_hdr b))); [|reflexivity].
    cbv zeta. destruct (_ <? _); [|reflexivity]. rewrite IH'. apply wbwos_hdr_frame. exact Hb.
  - exact Hproc.
Qed.

Lemma insert_chain_hdr_frame : forall chain cs s k,
  (forall b, In b chain -> h_hash (b_hdr b) <> k) ->
  header_of (dsk (snd (insert_chain chain cs s))) k = header_of (dsk s) k.
Proof.
  intros chain cs s k Hk. unfold insert_chain. destruct chain as [|b r]; [reflexivity|].
  rewrite ic_loop_hdr_frame; [reflexivity|].
  intros x [<-|Hx]; [apply Hk; left; reflexivity|apply Hk; right; eapply cp_sub; exact Hx].
Qed.

Lemma step_insert_snd : forall c cs s, snd (step (OpInsert c cs) s) = snd (insert_chain c cs s).
Proof. intros c cs s. cbn [step]. destruct (insert_chain c cs s) as [[e i] s']. reflexivity. Qed.

Lemma run_cons : forall o ops s, run (o :: ops) s = run ops (snd (step o s)).
Proof. reflexivity. Qed.

Lemma blocks_of_cons : forall o ops, blocks_of (o :: ops) = blocks_of_op o ++ blocks_of ops.
Proof. reflexivity. Qed.

Lemma run_hdr_frame : forall ops s k, inserts_only ops ->
  (forall b, In b (blocks_of ops) -> h_hash (b_hdr b) <> k) ->
  header_of (dsk (run ops s)) k = header_of (dsk s) k.
Proof.
  induction ops as [|o ops IH]; intros s k Hio Hk; [reflexivity|].
  destruct (Hio o (or_introl eq_refl)) as (c & cs & ->).
  rewrite run_cons, step_insert_snd, IH.
  - apply insert_chain_hdr_frame. intros b Hb. apply Hk. rewrite blocks_of_cons. apply in_or_app. left. exact Hb.
  - intros o' Ho'. apply Hio. right. exact Ho'.
  - intros b Hb. apply Hk. rewrite blocks_of_cons. apply in_or_app. right. exact Hb.
Qed.

(* a header stored after an import-only history was stored before it or is a delivered block *)
Lemma run_stored_only : forall ops s k, inserts_only ops ->
  header_of (dsk (run ops s)) k <> None ->
  header_of (dsk s) k <> None \/ exists b, In b (blocks_of ops) /\ h_hash (b_hdr b) = k.
Proof.
  intros ops s k Hio Hk.
  destruct (in_dec N.eq_dec k (map (fun b => h_hash (b_hdr b)) (blocks_of ops))) as [Hin|Hout].
  - right. apply in_map_iff in Hin. destruct Hin as (b & Eb & Hb). exists b. split; assumption.
  - left. rewrite <- (run_hdr_frame ops s k Hio); [exact Hk|].
    intros b Hb E. apply Hout. apply in_map_iff. exists b. split; assumption.
Qed.

(* ---------------------------------------------------------------- parent-closed histories are stored entirely *)

Definition hashes (l : list block) : list N := map (fun b => h_hash (b_hdr b)) l.

Section Closed.
Variable U : N -> sblock.
Variable g : header.
Hypothesis Ug : U (h_hash g) = (g, []).
Hypothesis g0 : h_number g = 0.

(* clauses (i)-(iv) of a delivered batch *)
Definition good_batch (b0 : block) (r : list block) (cs : list bool) : Prop :=
  (forall b, In b (b0 :: r) -> wf_block U b) /\
  (forall b, In b (b0 :: r) -> b_valid b = true) /\
  contiguous_prefix b0 r = r /\
  (length (b0 :: r) <= length cs)%nat.

(* clause (v): every operation is an InsertChain of a good batch whose first parent is
   [known]: named by the start list or delivered by an earlier batch *)
Fixpoint closed_hist (known : list N) (ops : list op) : Prop :=
  match ops with
  | [] => True
  | o :: rest =>
    match o with
    | OpInsert (b0 :: r) cs =>
      good_batch b0 r cs /\ In (h_parent (b_hdr b0)) known /\ closed_hist (hashes (b0 :: r) ++ known) rest
    | _ => False
    end
  end.

Lemma closed_inserts_only : forall ops known, closed_hist known ops -> inserts_only ops.
Proof.
  induction ops as [|o ops IH]; intros known H o' Ho'; [contradiction|].
  cbn [closed_hist] in H. destruct o as [c cs| | | |]; try contradiction.
  destruct c as [|b0 r]; [contradiction|]. destruct H as (_ & _ & H).
  destruct Ho' as [<-|Ho']; [eexists; eexists; reflexivity|eapply IH; eassumption].
Qed.

Lemma closed_wf : forall ops known, closed_hist known ops -> forall b, In b (blocks_of ops) -> wf_block U b.
Proof.
  induction ops as [|o ops IH]; intros known H b Hb; [contradiction|].
  cbn [closed_hist] in H. destruct o as [c cs| | | |]; try contradiction.
  destruct c as [|b0 r]; [contradiction|]. destruct H as ((W & _) & _ & H).
  rewrite blocks_of_cons in Hb. apply in_app_or in Hb. destruct Hb as [Hb|Hb]; [apply W; exact Hb|eapply IH; eassumption].
Qed.

(* one good batch on a stored parent: stored entirely *)
Lemma insert_chain_accepts : forall b0 r cs s, Inv U g s -> good_batch b0 r cs ->
  header_of (dsk s) (h_parent (b_hdr b0)) <> None ->
  forall b, In b (b0 :: r) -> header_of (dsk (snd (insert_chain (b0 :: r) cs s))) (h_hash (b_hdr b)) <> None.
Proof.
  intros b0 r cs s I (W & V & Hcp & Hc) Hp b Hb.
  assert (Is : Inv U g (set_coins cs s)) by (destruct I as [A B C]; constructor; assumption).
  unfold insert_chain. rewrite Hcp.
  replace (b0 :: r) with ((b0 :: r) ++ []) at 1 by apply app_nil_r.
  apply (ic_loop_accepts U g Ug g0); auto.
  - intros x Hx. rewrite app_nil_r in Hx. apply W. exact Hx.
  - intros b1 r1 [= <- <-]. split; [exact Hp|apply (cp_linked g g0); exact Hcp].
  - exact Logic.I.
Qed.

Lemma run_stores_all : forall ops known s, Inv U g s ->
  (forall h, In h known -> header_of (dsk s) h <> None) ->
  closed_hist known ops ->
  forall b, In b (blocks_of ops) -> header_of (dsk (run ops s)) (h_hash (b_hdr b)) <> None.
Proof.
  induction ops as [|o ops IH]; intros known s I Hkn H b Hb; [contradiction|].
  pose proof (closed_inserts_only _ _ H) as Hio. pose proof (closed_wf _ _ H) as Hwf.
  cbn [closed_hist] in H. destruct o as [c cs| | | |]; try contradiction.
  destruct c as [|b0 r]; [contradiction|]. destruct H as (G & Hp & H).
  rewrite run_cons, step_insert_snd.
  assert (Wc : forall x, In x (b0 :: r) -> wf_block U x) by apply G.
  destruct (insert_chain_good U g Ug g0 (b0 :: r) cs s I Wc) as (I1 & _ & M1).
  pose proof (insert_chain_accepts b0 r cs s I G (Hkn _ Hp)) as Hacc.
  set (s1 := snd (insert_chain (b0 :: r) cs s)) in *.
  rewrite blocks_of_cons in Hb. apply in_app_or in Hb. destruct Hb as [Hb|Hb].
  - destruct (run_good U g Ug g0 ops s1) as (_ & _ & M2); auto.
    + intros o' Ho'. apply Hio. right. exact Ho'.
    + intros x Hx. apply Hwf. rewrite blocks_of_cons. apply in_or_app. right. exact Hx.
  - apply (IH (hashes (b0 :: r) ++ known) s1 I1); auto.
    intros h Hh. apply in_app_or in Hh. destruct Hh as [Hh|Hh].
    + unfold hashes in Hh. apply in_map_iff in Hh. destruct Hh as (x & <- & Hx). apply Hacc. exact Hx.
    + apply M1. apply Hkn. exact Hh.
Qed.

End Closed.

(* ---------------------------------------------------------------- two stores over the same universe *)

Section Two.
Variable U : N -> sblock.
Variable g : header.

(* the total difficulty of a stored block is determined by U: TD additivity along the stored ancestry *)
Lemma invD_td_unique : forall dA dB, InvD U g dA -> InvD U g dB ->
  forall n h, h_number (fst (U h)) = n ->
  header_of dA h <> None -> header_of dB h <> None -> td_of dA h = td_of dB h.
Proof.
  intros dA dB IA IB n. induction n as [|n IH] using N.peano_ind; intros h Hn HA HB.
  - destruct (N.eq_dec h (h_hash g)) as [->|Ne].
    + rewrite (d_gen_td _ _ _ IA), (d_gen_td _ _ _ IB). reflexivity.
    + exfalso. destruct (d_stored _ _ _ IA h HA Ne) as (_ & _ & _ & Hnum & _). clear - Hn Hnum. lia.
  - destruct (N.eq_dec h (h_hash g)) as [->|Ne].
    + rewrite (d_gen_td _ _ _ IA), (d_gen_td _ _ _ IB). reflexivity.
    + destruct (d_stored _ _ _ IA h HA Ne) as (_ & _ & HpA & Hnum & tA & ptA & HtA & HptA & EA).
      destruct (d_stored _ _ _ IB h HB Ne) as (_ & _ & HpB & _ & tB & ptB & HtB & HptB & EB).
      assert (Hpn : h_number (fst (U (h_parent (fst (U h))))) = n) by (clear - Hn Hnum; lia).
      pose proof (IH _ Hpn HpA HpB) as Ep. rewrite HptA, HptB in Ep. injection Ep as Ep.
      rewrite HtA, HtB, EA, EB, Ep. reflexivity.
Qed.

Lemma invD_hdr_agree : forall dA dB, InvD U g dA -> InvD U g dB ->
  (forall h, header_of dA h <> None <-> header_of dB h <> None) ->
  forall h, header_of dA h = header_of dB h.
Proof.
  intros dA dB IA IB S h.
  destruct (header_of dA h) as [x|] eqn:EA; destruct (header_of dB h) as [y|] eqn:EB.
  - destruct (d_cons_h _ _ _ IA _ _ EA) as [-> _]. destruct (d_cons_h _ _ _ IB _ _ EB) as [-> _]. reflexivity.
  - exfalso. assert (HA : header_of dA h <> None) by congruence. apply (proj1 (S h)) in HA. congruence.
  - exfalso. assert (HB : header_of dB h <> None) by congruence. apply (proj2 (S h)) in HB. congruence.
  - reflexivity.
Qed.

Lemma anc_agree : forall dA dB, (forall h, header_of dA h = header_of dB h) ->
  forall k h, anc dA k h = anc dB k h.
Proof.
  intros dA dB E. induction k as [|k IH]; intro h; cbn [anc]; [reflexivity|].
  rewrite E. destruct (header_of dB h); [apply IH|reflexivity].
Qed.

Lemma ancestor_at_agree : forall dA dB, (forall h, header_of dA h = header_of dB h) ->
  forall h n, ancestor_at dA h n = ancestor_at dB h n.
Proof.
  intros dA dB E h n. unfold ancestor_at. rewrite E. destruct (header_of dB h) as [x|]; [|reflexivity].
  destruct (n <=? h_number x); [apply anc_agree; exact E|reflexivity].
Qed.

(* the in-memory head block is U's block of its hash *)
Lemma inv_cur_U : forall s, Inv U g s -> cur_block s = U (s_hash (cur_block s)).
Proof.
  intros s I. pose proof (inv_cur _ _ _ I) as H. unfold block_of in H.
  destruct (header_of (dsk s) (s_hash (cur_block s))) as [x|] eqn:Eh; [|discriminate].
  destruct (body_of (dsk s) (s_hash (cur_block s))) as [l|] eqn:Eb; [|discriminate].
  destruct (d_cons_h _ _ _ (inv_d _ _ _ I) _ _ Eh) as [Ex _]. destruct (d_cons_b _ _ _ (inv_d _ _ _ I) _ _ Eb) as [El _].
  injection H as H. transitivity (x, l); [symmetry; exact H|]. rewrite Ex, El. symmetry. apply surjective_pairing.
Qed.

(* two states over the same universe that store the same blocks: same TDs, same head TD, and -
   if the heaviest stored block is unique - the same head and the same number index below it *)
Lemma same_td_of : forall sA sB, Inv U g sA -> Inv U g sB ->
  forall h, header_of (dsk sA) h <> None -> header_of (dsk sB) h <> None -> td_of (dsk sA) h = td_of (dsk sB) h.
Proof. intros sA sB IA IB h HA HB. apply (invD_td_unique _ _ (inv_d _ _ _ IA) (inv_d _ _ _ IB) _ h eq_refl HA HB). Qed.

Lemma same_head_td : forall sA sB, Inv U g sA -> Inv U g sB ->
  (forall h, header_of (dsk sA) h <> None <-> header_of (dsk sB) h <> None) ->
  head_td sA = head_td sB.
Proof.
  intros sA sB IA IB S.
  pose proof (cur_has_header _ _ _ IA) as HcA. pose proof (cur_has_header _ _ _ IB) as HcB.
  pose proof (proj1 (S _) HcA) as HcAB. pose proof (proj2 (S _) HcB) as HcBA.
  pose proof (inv_heavy _ _ _ IB _ HcAB) as L1. pose proof (inv_heavy _ _ _ IA _ HcBA) as L2.
  unfold head_td in *. unfold td_or0 in *.
  rewrite <- (same_td_of sA sB IA IB _ HcA HcAB) in L1.
  rewrite (same_td_of sA sB IA IB _ HcBA HcB) in L2.
  clear - L1 L2. lia.
Qed.

Lemma same_head : forall sA sB, Inv U g sA -> Inv U g sB -> CC sA -> CC sB ->
  (forall h, header_of (dsk sA) h <> None <-> header_of (dsk sB) h <> None) ->
  (forall h, header_of (dsk sA) h <> None -> td_or0 (dsk sA) h = head_td sA -> h = s_hash (cur_block sA)) ->
  cur_block sB = cur_block sA /\
  forall n, n <= s_num (cur_block sA) -> canon (dsk sB) n = canon (dsk sA) n.
Proof.
  intros sA sB IA IB CA CB S Uq.
  pose proof (same_head_td sA sB IA IB S) as Etd.
  pose proof (cur_has_header _ _ _ IB) as HcB. pose proof (proj2 (S _) HcB) as HcBA.
  assert (Eh : s_hash (cur_block sB) = s_hash (cur_block sA)).
  { apply Uq; [exact HcBA|]. rewrite Etd. unfold head_td, td_or0.
    rewrite (same_td_of sA sB IA IB _ HcBA HcB). reflexivity. }
  assert (Ec : cur_block sB = cur_block sA) by (rewrite (inv_cur_U _ IB), (inv_cur_U _ IA), Eh; reflexivity).
  split; [exact Ec|]. intros n Hn.
  pose proof (invD_hdr_agree _ _ (inv_d _ _ _ IA) (inv_d _ _ _ IB) S) as EH.
  pose proof (CC_canon_below _ CA n Hn) as PA.
  assert (Hn' : n <= s_num (cur_block sB)) by (rewrite Ec; exact Hn).
  pose proof (CC_canon_below _ CB n Hn') as PB.
  rewrite Ec, <- (ancestor_at_agree _ _ EH), PA in PB. injection PB as PB. symmetry. exact PB.
Qed.

End Two.

(* ---------------------------------------------------------------- Layer 1: semantic convergence *)

Section Replay.
Variable U : N -> sblock.
Variable g : header.
Hypothesis Ug : U (h_hash g) = (g, []).
Hypothesis g0 : h_number g = 0.

(* the blocks of the history (and the genesis block) *)
Definition of_history (ops : list op) (h : N) : Prop :=
  h = h_hash g \/ exists b, In b (blocks_of ops) /\ h_hash (b_hdr b) = h.
(* every block stored in s belongs to the history *)
Definition within (ops : list op) (s : st) : Prop :=
  forall h, header_of (dsk s) h <> None -> of_history ops h.

Lemma within_pre_open : forall ops, within ops (pre_open g).
Proof.
  intros ops h Hh. left. cbn [dsk pre_open] in Hh. unfold genesis_disk, replay in Hh. cbn [fold_left apply_wop] in Hh.
  rewrite !header_of_put in Hh. destruct (N.eq_dec h (h_hash g)) as [E|]; [exact E|exfalso; apply Hh; reflexivity].
Qed.

(* after a parent-closed history, from any good state holding only blocks of the history:
   the store is exactly genesis + the blocks of the history *)
Lemma stored_char : forall ops s, Inv U g s -> closed_hist U [h_hash g] ops -> within ops s ->
  forall h, header_of (dsk (run ops s)) h <> None <-> of_history ops h.
Proof.
  intros ops s I Hcl Hw h.
  pose proof (closed_inserts_only U _ _ Hcl) as Hio. pose proof (closed_wf U _ _ Hcl) as Hwf.
  split.
  - intro Hh. destruct (run_stored_only ops s h Hio Hh) as [H0|H1]; [apply Hw; exact H0|right; exact H1].
  - intros [->|(b & Hb & <-)].
    + destruct (run_good U g Ug g0 ops s Hio Hwf I) as (_ & _ & M). apply M.
      rewrite (d_gen_hdr _ _ _ (inv_d _ _ _ I)). discriminate.
    + apply (run_stores_all U g Ug g0 ops [h_hash g] s I); auto.
      intros k [<-|[]]. rewrite (d_gen_hdr _ _ _ (inv_d _ _ _ I)). discriminate.
Qed.

Section Runs.
Variable ops : list op.
Variable s0 : st.
Hypothesis Hcl : closed_hist U [h_hash g] ops.
Hypothesis K0 : K U g s0.
Hypothesis Hw0 : within ops s0.

Let sA := run ops (pre_open g).
Let sB := run ops s0.

Lemma replay_KA : K U g sA.
Proof. apply (run_K U g Ug g0); [apply (closed_inserts_only U _ _ Hcl)|apply (closed_wf U _ _ Hcl)|apply (K_pre_open U g Ug g0)]. Qed.
Lemma replay_KB : K U g sB.
Proof. apply (run_K U g Ug g0); [apply (closed_inserts_only U _ _ Hcl)|apply (closed_wf U _ _ Hcl)|exact K0]. Qed.

(* (1) both runs store exactly the same blocks: genesis + the history *)
Lemma same_stored : forall h, header_of (dsk sA) h <> None <-> header_of (dsk sB) h <> None.
Proof.
  intro h. unfold sA, sB.
  rewrite (stored_char ops (pre_open g) (inv_pre_open U g Ug g0) Hcl (within_pre_open ops) h).
  rewrite (stored_char ops s0 (proj1 K0) Hcl Hw0 h). reflexivity.
Qed.

(* (2) with the same total difficulties *)
Lemma same_td : forall h, header_of (dsk sA) h <> None -> td_of (dsk sA) h = td_of (dsk sB) h.
Proof.
  intros h Hh. apply (same_td_of U g sA sB (proj1 replay_KA) (proj1 replay_KB) h Hh). apply same_stored. exact Hh.
Qed.

(* (3) the same head total difficulty *)
Lemma same_head_td_runs : head_td sA = head_td sB.
Proof. apply (same_head_td U g sA sB (proj1 replay_KA) (proj1 replay_KB) same_stored). Qed.

(* (4) under UNIQUE HEAVIEST: the same head block, the same number index up to the head *)
Lemma same_head_runs :
  (forall h, header_of (dsk sA) h <> None -> td_or0 (dsk sA) h = head_td sA -> h = s_hash (cur_block sA)) ->
  cur_block sB = cur_block sA /\
  forall n, n <= s_num (cur_block sA) -> canon (dsk sB) n = canon (dsk sA) n.
Proof.
  intro Uq. destruct replay_KA as (IA & CA & _). destruct replay_KB as (IB & CB & _).
  apply (same_head U g sA sB IA IB CA CB same_stored Uq).
Qed.

End Runs.

(* C04, clause "feeding the original blocks again converges".  The unique-heaviest premise is
   needed for the head HASH only: on a total-difficulty tie the head is chosen by a coin. *)
Theorem replay_converges : forall ops s0,
  closed_hist U [h_hash g] ops -> K U g s0 -> within ops s0 ->
  let sA := run ops (pre_open g) in
  let sB := run ops s0 in
  (forall h, header_of (dsk sA) h <> None <-> header_of (dsk sB) h <> None) /\
  (forall h, header_of (dsk sA) h <> None -> td_of (dsk sA) h = td_of (dsk sB) h) /\
  head_td sA = head_td sB /\
  ((forall h, header_of (dsk sA) h <> None -> td_or0 (dsk sA) h = head_td sA -> h = s_hash (cur_block sA)) ->
   s_hash (cur_block sB) = s_hash (cur_block sA) /\
   forall n, n <= s_num (cur_block sA) -> canon (dsk sB) n = canon (dsk sA) n).
Proof.
  intros ops s0 Hcl K0 Hw0 sA sB.
  split; [apply (same_stored ops s0 Hcl K0 Hw0)|].
  split; [apply (same_td ops s0 Hcl K0 Hw0)|].
  split; [apply (same_head_td_runs ops s0 Hcl K0 Hw0)|].
  intro Uq. destruct (same_head_runs ops s0 Hcl K0 Hw0 Uq) as [Ec En].
  split; [fold sA sB in Ec; rewrite Ec; reflexivity|exact En].
Qed.

End Replay.

(* ---------------------------------------------------------------- Layer 2: from a crash prefix to s0 *)

Section AfterCrash.
Variable U : N -> sblock.
Variable g : header.
Hypothesis Ug : U (h_hash g) = (g, []).
Hypothesis g0 : h_number g = 0.

(* Layer 1 instantiated at the state NewBlockChain returns on a crash disk.  The premise
   [K U g s0] excludes the two confirmed crash windows (head pointer before the block batch:
   open_db panics, so there is no s0; number index before the head pointer: CC s0 is false). *)
Theorem replay_converges_after_crash : forall ops d0 l k s0,
  closed_hist U [h_hash g] ops ->
  open_db (crash_disk d0 l k) = (SOk, s0) ->
  K U g s0 -> within g ops s0 ->
  let sA := run ops (pre_open g) in
  let sB := run ops s0 in
  (forall h, header_of (dsk sA) h <> None <-> header_of (dsk sB) h <> None) /\
  (forall h, header_of (dsk sA) h <> None -> td_of (dsk sA) h = td_of (dsk sB) h) /\
  head_td sA = head_td sB /\
  ((forall h, header_of (dsk sA) h <> None -> td_or0 (dsk sA) h = head_td sA -> h = s_hash (cur_block sA)) ->
   s_hash (cur_block sB) = s_hash (cur_block sA) /\
   forall n, n <= s_num (cur_block sA) -> canon (dsk sB) n = canon (dsk sA) n).
Proof. intros ops d0 l k s0 Hcl _ K0 Hw0. apply (replay_converges U g Ug g0 ops s0 Hcl K0 Hw0). Qed.

(* [K] only looks at the disk and the head block, and is insensitive to the LastHeader pointer *)
Lemma K_frame : forall s s' v, K U g s -> cur_block s' = cur_block s -> dsk s' = put KHeadHeader v (dsk s) -> K U g s'.
Proof.
  intros s s' v (I & C & R & L) Ec Ed.
  assert (Hsc : same_core (dsk s) (dsk s')) by (rewrite Ed; apply same_core_put; reflexivity).
  assert (En : forall n, canon (dsk s') n = canon (dsk s) n) by (intro n; rewrite Ed; apply cn_put_other; intro; discriminate).
  assert (Ehd : head_td s' = head_td s) by (unfold head_td, td_or0; rewrite Ec, (sc_td _ _ _ Hsc); reflexivity).
  split; [|split; [|split]].
  - constructor.
    + apply (invD_same_core U g _ _ Hsc (inv_d _ _ _ I)).
    + rewrite Ec, (sc_block _ _ _ Hsc). apply (inv_cur _ _ _ I).
    + intros k Hk. rewrite Ehd. rewrite (sc_header _ _ _ Hsc) in Hk. unfold td_or0. rewrite (sc_td _ _ _ Hsc). apply (inv_heavy _ _ _ I _ Hk).
  - unfold CC. rewrite Ec. eapply cc_frame; [exact C| |intros; apply En].
    intros k x Hk. rewrite (sc_header _ _ _ Hsc). exact Hk.
  - intros h Hh. rewrite (sc_header _ _ _ Hsc) in Hh. rewrite Ed, receipts_of_put_other by (intro; discriminate). apply R. exact Hh.
  - unfold LS. rewrite Ec. eapply LSd_frame; [exact L| |exact En|].
    + intro t. rewrite Ed. apply lk_put_other. intro; discriminate.
    + intros k l Hk. rewrite (sc_body _ _ _ Hsc). exact Hk.
Qed.

(* NewBlockChain on the database of a state whose LastBlock pointer names its head and whose
   block data is complete: succeeds, finds the same head, writes only LastHeader; K survives *)
Lemma open_db_K : forall s, K U g s -> PtrOK s -> block_data_complete (dsk s) ->
  exists s' v, open_db (dsk s) = (SOk, s') /\ cur_block s' = cur_block s /\
               dsk s' = put KHeadHeader v (dsk s) /\ K U g s'.
Proof.
  intros s Ks [Ph Pnz] B. pose proof Ks as (I & C & _).
  assert (H0 : header_of (dsk s) (canon (dsk s) 0) <> None) by (apply (cc_stored _ _ _ C 0); clear; lia).
  pose proof (hdr_body U g _ _ (inv_d _ _ _ I) H0) as Hb0.
  pose proof (inv_cur _ _ _ I) as Hcur.
  assert (Hhd : header_of (dsk s) (s_hash (cur_block s)) = Some (fst (cur_block s))).
  { unfold block_of in Hcur. destruct (header_of (dsk s) (s_hash (cur_block s))) as [x|]; [|discriminate].
    destruct (body_of (dsk s) (s_hash (cur_block s))) as [l|]; [|discriminate]. injection Hcur as <-. reflexivity. }
  destruct (B _ _ Hhd) as (_ & _ & Hst & Hnum).
  assert (Ebh : block_by_hash (dsk s) (s_hash (cur_block s)) = Some (cur_block s)).
  { unfold block_by_hash. destruct (number_of (dsk s) (s_hash (cur_block s))); [exact Hcur|congruence]. }
  assert (E0 : (s_hash (cur_block s) =? 0) = false) by (clear - Pnz; lia).
  assert (Eblk : exists g', block_of (dsk s) (canon (dsk s) 0) = Some g').
  { unfold block_of. destruct (header_of (dsk s) (canon (dsk s) 0)) as [gh|]; [|congruence].
    destruct (body_of (dsk s) (canon (dsk s) 0)) as [gl|]; [eexists; reflexivity|congruence]. }
  destruct Eblk as [g' Eblk].
  unfold open_db. rewrite Eblk.
  destruct (header_of (dsk s) (canon (dsk s) 0)) as [gh|]; [|congruence].
  unfold load_last_state_full. cbn [dsk].
  fold (hb (dsk s)). rewrite Ph, E0, Ebh.
  cbn [repair]. fold (s_root (cur_block s)) in Hst. rewrite Hst.
  eexists. eexists. split; [reflexivity|].
  split; [reflexivity|]. split; [reflexivity|].
  eapply K_frame; [exact Ks|reflexivity|reflexivity].
Qed.

End AfterCrash.

(* ---------------------------------------------------------------- the write log only grows *)

Definition lext (s s' : st) : Prop := exists l, wlog s' = l ++ wlog s.

Lemma lext_refl : forall s, lext s s. Proof. intro s. exists []. reflexivity. Qed.
Lemma lext_trans : forall a b c, lext a b -> lext b c -> lext a c.
Proof. intros a b c [l1 E1] [l2 E2]. exists (l2 ++ l1). rewrite E2, E1. apply app_assoc. Qed.
Lemma lext_emit : forall w s, lext s (emit w s). Proof. intros w s. exists [w]. reflexivity. Qed.
Lemma lext_mem : forall s s', wlog s' = wlog s -> lext s s'. Proof. intros s s' E. exists []. exact E. Qed.

Lemma lext_fold : forall (A : Type) (f : st -> A -> st), (forall s a, lext s (f s a)) ->
  forall l s, lext s (fold_left f l s).
Proof.
  intros A f Hf. induction l as [|a l IH]; intro s; cbn [fold_left]; [apply lext_refl|].
  eapply lext_trans; [apply Hf|apply IH].
Qed.

Lemma bc_insert_lext : forall b s, lext s (bc_insert b s).
Proof. intros b s. unfold bc_insert. destruct (negb _); [eexists [_; _; _; _]|eexists [_; _]]; reflexivity. Qed.

Lemma write_lookups_lext : forall b s, lext s (write_lookups_direct b s).
Proof. intros b s. unfold write_lookups_direct. apply lext_fold. intros s' kv. apply lext_emit. Qed.

Lemma reorg_lext : forall fuel o n s, lext s (snd (reorg fuel o n s)).
Proof.
  intros fuel o n s. unfold reorg.
  assert (Hins : forall l s', lext s' (fold_left (fun s b => write_lookups_direct b (bc_insert b s)) l s')).
  { intro l. apply lext_fold. intros s' b. eapply lext_trans; [apply bc_insert_lext|apply write_lookups_lext]. }
  assert (Hdel : forall l s', lext s' (fold_left (fun s t => emit (Del (KLookup t)) s) l s')).
  { intro l. apply lext_fold. intros s' t. apply lext_emit. }
  destruct (s_num n <? s_num o).
  - destruct (walk fuel (dsk s) (Some o) (s_num n) []) as [[[x|] oc]|]; cbn [snd]; try apply lext_refl.
    destruct (lockstep fuel (dsk s) x n oc []); cbn [snd]; try apply lext_refl.
    eapply lext_trans; [apply Hins|apply Hdel].
  - destruct (walk fuel (dsk s) (Some n) (s_num o) []) as [[[x|] nc]|]; cbn [snd]; try apply lext_refl.
    destruct (lockstep fuel (dsk s) o x [] nc); cbn [snd]; try apply lext_refl.
    eapply lext_trans; [apply Hins|apply Hdel].
Qed.

Lemma wbws_lext : forall b s, lext s (snd (write_block_with_state b s)).
Proof.
  intros b s. unfold write_block_with_state.
  set (hd := b_hdr b). set (txs := b_txs b). set (h := h_hash hd).
  destruct (td_of (dsk s) (h_parent hd)) as [ptd|]; [|apply lext_refl].
  cbv zeta. set (ext := h_diff hd + ptd).
  set (s1 := emit (Put (KState (h_root hd)) VUnit) (emit (Put (KTd h) (VNum ext)) s)).
  assert (L1 : lext s s1) by (eexists [_; _]; reflexivity).
  destruct (td_of (dsk s) (s_hash (cur_block s))) as [ltd|]; [|exact L1].
  assert (Hside : forall s1', wlog s1' = wlog s1 ->
            lext s (emit (Batch ([(KBody h, Some (VTxs txs)); (KHashNum h, Some (VNum (h_number hd))); (KHeader h, Some (VHeader hd))]
                               ++ [(KReceipts h, Some (VTxs txs))])) s1')).
  { intros s1' El. eapply lext_trans; [exact L1|]. eapply lext_trans; [apply (lext_mem s1 s1' El)|apply lext_emit]. }
  assert (Hmain : forall s1', wlog s1' = wlog s1 ->
            lext s (snd (let r := if h_parent hd =? s_hash (cur_block s) then (SOk, s1')
                               else reorg (reorg_fuel s1' (h_number hd)) (cur_block s) (to_s b) s1' in
                      match r with
                      | (SOk, s0) =>
                        (SOk, bc_insert (to_s b)
                           (emit (Batch (([(KBody h, Some (VTxs txs)); (KHashNum h, Some (VNum (h_number hd))); (KHeader h, Some (VHeader hd))]
                               ++ [(KReceipts h, Some (VTxs txs))])
                               ++ map (fun kv : key * value => (fst kv, Some (snd kv))) (lookup_puts h (h_number hd) 0 txs))) s0))
                      | other => other
                      end))).
  { intros s1' El. cbv zeta.
    assert (L1' : lext s s1') by (eapply lext_trans; [exact L1|apply (lext_mem s1 s1' El)]).
    set (r := if h_parent hd =? s_hash (cur_block s) then (SOk, s1')
              else reorg (reorg_fuel s1' (h_number hd)) (cur_block s) (to_s b) s1').
    assert (Hr : lext s (snd r)).
    { unfold r. destruct (h_parent hd =? s_hash (cur_block s)); cbn [snd]; [exact L1'|].
      eapply lext_trans; [exact L1'|apply reorg_lext]. }
    destruct r as [e s3]. cbn [snd] in Hr.
    destruct e; cbn [snd]; try exact Hr.
    eapply lext_trans; [exact Hr|]. eapply lext_trans; [apply lext_emit|apply bc_insert_lext]. }
  destruct (ltd <? ext).
  { apply (Hmain s1); reflexivity. }
  destruct (ext =? ltd).
  2:{ cbn [snd]. apply (Hside s1); reflexivity. }
  destruct (h_number hd <? s_num (cur_block s)).
  { apply (Hmain s1); reflexivity. }
  destruct (h_number hd =? s_num (cur_block s)).
  2:{ cbn [snd]. apply (Hside s1); reflexivity. }
  destruct (coins s1) as [|c rest] eqn:Ec; [exact L1|].
  destruct c.
  - apply (Hmain (set_coins rest s1)); reflexivity.
  - cbn [snd]. apply (Hside (set_coins rest s1)); reflexivity.
Qed.

Lemma wbwos_lext : forall b td s, lext s (write_block_without_state b td s).
Proof. intros b td s. eexists [_; _; _; _]. reflexivity. Qed.

Lemma ic_loop_lext : forall chain prev idx s, lext s (snd (ic_loop prev idx chain s)).
Proof.
  induction chain as [|b rest IH]; intros prev idx s; [apply lext_refl|].
  rewrite ic_loop_cons.
  assert (Hproc : lext s (snd (ic_process prev idx b s (ic_loop (Some b) (idx + 1) rest)))).
  { unfold ic_process.
    destruct (match prev with Some p => Some (h_root (b_hdr p)) | None => option_map s_root (block_of (dsk s) (h_parent (b_hdr b))) end); [|apply lext_refl].
    destruct (negb (has_state (dsk s) n)); [apply lext_refl|].
    destruct (negb (b_valid b)); [apply lext_refl|].
    pose proof (wbws_lext b s) as Hw.
    destruct (write_block_with_state b s) as [e s']. cbn [snd] in Hw.
    destruct e; try exact Hw. eapply lext_trans; [exact Hw|apply IH]. }
  destruct (validate_body (dsk s) (b_hdr b)).
  - destruct (h_number (b_hdr b) <=? s_num (cur_block s)); [apply IH|exact Hproc].
  - apply lext_refl.
  - destruct (td_of (dsk s) (s_hash (cur_block s))); [|apply lext_refl].
    destruct (td_of (dsk s) (h_parent (b_hdr b))); [|apply lext_refl].
    cbv zeta. destruct (_ <? _); [|apply lext_refl]. eapply lext_trans; [apply wbwos_lext|apply IH].
  - exact Hproc.
Qed.

Lemma insert_chain_lext : forall chain cs s, lext s (snd (insert_chain chain cs s)).
Proof.
  intros chain cs s. unfold insert_chain. destruct chain as [|b r]; [apply lext_refl|].
  eapply lext_trans; [apply (lext_mem s (set_coins cs s)); reflexivity|apply ic_loop_lext].
Qed.

Lemma run_lext : forall ops s, inserts_only ops -> lext s (run ops s).
Proof.
  induction ops as [|o ops IH]; intros s Hio; [apply lext_refl|].
  destruct (Hio o (or_introl eq_refl)) as (c & cs & ->).
  rewrite run_cons, step_insert_snd. eapply lext_trans; [apply insert_chain_lext|apply IH].
  intros o' Ho'. apply Hio. right. exact Ho'.
Qed.

(* the log of a prefix history is a prefix of the log of the whole history *)
Lemma log_prefix : forall ops1 ops2 s, inserts_only ops2 ->
  firstn (length (log_of (run ops1 s))) (log_of (run (ops1 ++ ops2) s)) = log_of (run ops1 s).
Proof.
  intros ops1 ops2 s Hio.
  assert (E : run (ops1 ++ ops2) s = run ops2 (run ops1 s)) by (unfold run; apply fold_left_app).
  rewrite E. destruct (run_lext ops2 (run ops1 s) Hio) as [l El].
  unfold log_of. rewrite El, rev_app_distr, firstn_app, firstn_all, Nat.sub_diag. cbn [firstn]. apply app_nil_r.
Qed.


(* ---------------------------------------------------------------- crash points at operation boundaries *)

Section Boundary.
Variable U : N -> sblock.
Variable g : header.
Hypothesis Ug : U (h_hash g) = (g, []).
Hypothesis g0 : h_number g = 0.
Hypothesis gnz : h_hash g <> 0.

Lemma closed_firstn : forall ops known j, closed_hist U known ops -> closed_hist U known (firstn j ops).
Proof.
  induction ops as [|o ops IH]; intros known j H; [destruct j; exact Logic.I|].
  destruct j as [|j]; [exact Logic.I|]. cbn [firstn closed_hist] in *.
  destruct o as [c cs| | | |]; try contradiction. destruct c as [|b0 r]; [contradiction|].
  destruct H as (G & Hp & H). split; [exact G|split; [exact Hp|apply IH; exact H]].
Qed.

Lemma closed_skipn_inserts : forall ops known j, closed_hist U known ops -> inserts_only (skipn j ops).
Proof.
  intros ops known j H o Ho. apply (closed_inserts_only U _ _ H).
  rewrite <- (firstn_skipn j ops). apply in_or_app. right. exact Ho.
Qed.

Lemma blocks_of_firstn : forall ops j b, In b (blocks_of (firstn j ops)) -> In b (blocks_of ops).
Proof.
  intros ops j b Hb. rewrite <- (firstn_skipn j ops). unfold blocks_of in *. rewrite flat_map_app. apply in_or_app. left. exact Hb.
Qed.

(* a crash exactly between two InsertChain calls of the crash-free run (after the j-th):
   the disk is the j-th intermediate state's, NewBlockChain succeeds on it with that state's head,
   and the state it returns satisfies K and holds only blocks of the history *)
Theorem open_at_boundary : forall ops j,
  closed_hist U [h_hash g] ops ->
  (forall b, In b (blocks_of ops) -> h_hash (b_hdr b) <> 0) ->
  let sj := run (firstn j ops) (pre_open g) in
  let d := crash_disk (genesis_disk g) (log_of (run ops (pre_open g))) (length (log_of sj)) in
  d = dsk sj /\
  exists s0 v, open_db d = (SOk, s0) /\ cur_block s0 = cur_block sj /\ dsk s0 = put KHeadHeader v (dsk sj) /\
               K U g s0 /\ within g ops s0.
Proof.
  intros ops j Hcl Hnz sj d.
  pose proof (closed_firstn ops _ j Hcl) as Hclj.
  pose proof (closed_inserts_only U _ _ Hclj) as Hioj. pose proof (closed_wf U _ _ Hclj) as Hwfj.
  assert (HJ : J U g (genesis_disk g) sj).
  { apply (run_J U g Ug g0 (genesis_disk g) (firstn j ops) (pre_open g)).
    - intros o Ho. left. apply Hioj. exact Ho.
    - intros b Hb. split; [apply Hwfj; exact Hb|apply Hnz; eapply blocks_of_firstn; exact Hb].
    - apply (J_pre_open U g Ug g0 (genesis_disk g) gnz eq_refl). }
  destruct HJ as (Ij & Pj & Tj).
  assert (Kj : K U g sj) by (apply (run_K U g Ug g0); [exact Hioj|exact Hwfj|apply (K_pre_open U g Ug g0)]).
  assert (Ed : d = dsk sj).
  { unfold d, crash_disk. rewrite <- (firstn_skipn j ops) at 1.
    unfold sj. rewrite (log_prefix (firstn j ops) (skipn j ops) (pre_open g) (closed_skipn_inserts ops _ j Hcl)).
    symmetry. apply (proj1 Tj). }
  split; [exact Ed|]. rewrite Ed.
  destruct (open_db_K U g sj Kj Pj (trace_P _ _ _ Tj)) as (s0 & v & Eo & Ec & Ed0 & K0).
  exists s0, v. split; [exact Eo|split; [exact Ec|split; [exact Ed0|split; [exact K0|]]]].
  intros h Hh. rewrite Ed0, header_of_put in Hh.
  destruct (proj1 (stored_char U g Ug g0 (firstn j ops) (pre_open g) (inv_pre_open U g Ug g0) Hclj (within_pre_open g _) h) Hh) as [E|(b & Hb & E)].
  - left. exact E.
  - right. exists b. split; [eapply blocks_of_firstn; exact Hb|exact E].
Qed.

(* convergence with NO premise on the reopened state, for crash points at operation boundaries *)
Theorem replay_converges_at_boundary : forall ops j,
  closed_hist U [h_hash g] ops ->
  (forall b, In b (blocks_of ops) -> h_hash (b_hdr b) <> 0) ->
  let sA := run ops (pre_open g) in
  let k := length (log_of (run (firstn j ops) (pre_open g))) in
  let r := open_db (crash_disk (genesis_disk g) (log_of sA) k) in
  let sB := run ops (snd r) in
  fst r = SOk /\
  (forall h, header_of (dsk sA) h <> None <-> header_of (dsk sB) h <> None) /\
  (forall h, header_of (dsk sA) h <> None -> td_of (dsk sA) h = td_of (dsk sB) h) /\
  head_td sA = head_td sB /\
  ((forall h, header_of (dsk sA) h <> None -> td_or0 (dsk sA) h = head_td sA -> h = s_hash (cur_block sA)) ->
   s_hash (cur_block sB) = s_hash (cur_block sA) /\
   forall n, n <= s_num (cur_block sA) -> canon (dsk sB) n = canon (dsk sA) n).
Proof.
  intros ops j Hcl Hnz sA k r sB.
  destruct (open_at_boundary ops j Hcl Hnz) as (_ & s0 & v & Eo & _ & _ & K0 & Hw0).
  fold sA in Eo. fold k in Eo. fold r in Eo.
  assert (Es : snd r = s0) by (rewrite Eo; reflexivity).
  split; [rewrite Eo; reflexivity|].
  unfold sB. rewrite Es. apply (replay_converges U g Ug g0 ops s0 Hcl K0 Hw0).
Qed.

End Boundary.

Print Assumptions replay_converges.
Print Assumptions replay_converges_after_crash.
Print Assumptions replay_converges_at_boundary.
