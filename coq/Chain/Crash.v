(* Chain/Crash.v — model additions for property C04: opening a chain on an
   arbitrary database (core.NewBlockChain = NewHeaderChain + GetBlockByNumber(0)
   + loadLastState INCLUDING the Reset and repair paths that Store.reopen
   leaves unmodelled), and crash prefixes of the write log.  Definitions only.

   A crash between two database writes leaves the disk [replay (firstn k log) d0]
   (batches are atomic: one [wop]).  The process then restarts: [open_db]. *)
From Coq Require Import NArith List Bool.
From AQ Require Import Chain.Store.
Import ListNotations.
Local Open Scope N_scope.

(* core/blockchain.go repair: walk back until a block with state is found.
   GetBlock = nil makes the next head.Root() a nil dereference. *)
Fixpoint repair (fuel : nat) (d : disk) (b : option sblock) : option (option sblock) :=
  match fuel with
  | O => None
  | S f =>
    match b with
    | None => Some None                                   (* Panic *)
    | Some x => if has_state d (s_root x) then Some (Some x)
                else repair f d (block_of d (s_parent x))
    end
  end.

(* Reset() on a freshly constructed BlockChain (called from loadLastState
   inside NewBlockChain): ResetWithGenesisBlock -> SetHead(0) runs
   HeaderChain.SetHead(0, delFn) (deleting from the current header down, then
   the numbers, then LastHeader), and then evaluates bc.CurrentBlock(), i.e.
   bc.currentBlock.Load().( *types.Block ) on an atomic.Value that was never
   stored: "interface conversion: interface {} is nil, not *types.Block". *)
Definition reset_fresh (s : st) : R :=
  let height := h_number (cur_header s) in
  match sh_loop (S (S (N.to_nat height))) 0 (Some (cur_header s)) s with
  | None => (SFuel, s)
  | Some (hdr, s) =>
    let s := del_canon_down (N.to_nat height) height s in
    let ch := match hdr with Some x => x | None => fst (genesis s) end in
    let s := set_cur_header ch s in
    let s := emit (Put KHeadHeader (VHash (h_hash ch))) s in
    (SPanic, s)
  end.

(* loadLastState with every path *)
Definition load_last_state_full (s : st) : R :=
  let d := dsk s in
  let head := head_ptr d KHeadBlock in
  if head =? 0 then reset_fresh s
  else match block_by_hash d head with
  | None => reset_fresh s
  | Some cb0 =>
    match repair (S (S (N.to_nat (s_num cb0)))) d (Some cb0) with
    | None => (SFuel, s)
    | Some None => (SPanic, s)
    | Some (Some cb) =>
      let s := set_cur_block cb s in
      let hh := head_ptr d KHeadHeader in
      let ch := if hh =? 0 then fst cb
                else match header_by_hash d hh with Some x => x | None => fst cb end in
      let s := emit (Put KHeadHeader (VHash (h_hash ch))) s in
      let s := set_cur_header ch s in
      let hf := head_ptr d KHeadFast in
      let cf := if hf =? 0 then cb
                else match block_by_hash d hf with Some x => x | None => cb end in
      (SOk, set_cur_fast cf s)
    end
  end.

(* core.NewBlockChain on database d *)
Definition open_db (d : disk) : R :=
  let dummy : header := mkH 0 0 0 0 0 in
  let s0 := mkSt d [] (dummy, []) dummy (dummy, []) (dummy, []) [] in
  match header_of d (canon d 0) with
  | None => (SErr ErrNoGenesis, s0)
  | Some gh =>
    match block_of d (canon d 0) with
    | None => (SErr ErrNoGenesis, s0)
    | Some g =>
      let hb := head_ptr d KHeadBlock in
      let ch := if hb =? 0 then gh else match header_by_hash d hb with Some x => x | None => gh end in
      load_last_state_full (mkSt d [] g ch g g [])
    end
  end.

(* the disk a crash after exactly k writes leaves behind *)
Definition crash_disk (d0 : disk) (l : list wop) (k : nat) : disk := replay (firstn k l) d0.

(* the last value written to a pointer key by a log (None: never written) *)
Definition bop_ptr (k : key) (kv : key * option value) : option (option value) :=
  if key_eq_dec (fst kv) k then Some (snd kv) else None.
Fixpoint last_in_batch (k : key) (l : list (key * option value)) (acc : option (option value)) : option (option value) :=
  match l with
  | [] => acc
  | kv :: r => last_in_batch k r (match bop_ptr k kv with Some x => Some x | None => acc end)
  end.
Fixpoint last_write (k : key) (l : list wop) (acc : option (option value)) : option (option value) :=
  match l with
  | [] => acc
  | w :: r =>
    last_write k r
      (match w with
       | Put k' v => if key_eq_dec k' k then Some (Some v) else acc
       | Del k' => if key_eq_dec k' k then Some None else acc
       | Batch b => last_in_batch k b acc
       end)
  end.

(* crash-consistency of block data: a stored header comes with its body, its
   total difficulty, the state of its root and its hash->number record *)
Definition block_data_complete (d : disk) : Prop :=
  forall h hd, header_of d h = Some hd ->
    body_of d h <> None /\ td_of d h <> None /\ has_state d (h_root hd) = true /\ number_of d h <> None.

(* what C04 asks of a reopened database *)
Definition head_pointer_resolves (d : disk) : Prop :=
  head_ptr d KHeadBlock <> 0 /\ block_by_hash d (head_ptr d KHeadBlock) <> None.
Definition canon_names_head (s : st) : Prop :=
  canon (dsk s) (s_num (cur_block s)) = s_hash (cur_block s).
