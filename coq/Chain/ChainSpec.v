(* Chain/ChainSpec.v — declarative vocabulary of properties C02 / C03 over the
   model of Chain/Store.v.  Definitions only. *)
From Coq Require Import NArith List Bool.
From AQ Require Import Chain.Store.
Import ListNotations.
Local Open Scope N_scope.

(* third component of the triple an import returns *)
Definition st_of {A B : Type} (x : A * B * st) : st := snd x.

(* the stored total difficulty of the head block (0 if absent) *)
Definition td_or0 (d : disk) (h : N) : N := match td_of d h with Some t => t | None => 0 end.
Definition head_td (s : st) : N := td_or0 (dsk s) (s_hash (cur_block s)).

(* a block is stored: header and body on disk *)
Definition stored (d : disk) (h : N) : Prop := block_of d h <> None.

(* [anc d k h]: the hash reached from h by following k stored parent links *)
Fixpoint anc (d : disk) (k : nat) (h : N) : option N :=
  match k with
  | O => Some h
  | S k' => match header_of d h with Some x => anc d k' (h_parent x) | None => None end
  end.
(* the ancestor of stored block h at height n (n <= number h) *)
Definition ancestor_at (d : disk) (h : N) (n : N) : option N :=
  match header_of d h with
  | Some x => if n <=? h_number x then anc d (N.to_nat (h_number x - n)) h else None
  | None => None
  end.

(* C03, clause by clause, for the block head *)
Definition canon_below (s : st) : Prop :=
  forall n, n <= s_num (cur_block s) -> ancestor_at (dsk s) (s_hash (cur_block s)) n = Some (canon (dsk s) n).
Definition canon_above_empty (s : st) : Prop :=
  forall n, s_num (cur_block s) < n -> canon (dsk s) n = 0.
Definition canon_data_present (s : st) : Prop :=
  forall n, n <= s_num (cur_block s) ->
    let h := canon (dsk s) n in
    header_of (dsk s) h <> None /\ body_of (dsk s) h <> None /\ receipts_of (dsk s) h <> None /\ td_of (dsk s) h <> None.
(* a transaction lookup resolves iff the transaction sits in a canonical block, at that position *)
Definition canonical (s : st) (h : N) : Prop :=
  exists n, n <= s_num (cur_block s) /\ canon (dsk s) n = h /\ h <> 0.
Definition lookup_exact (s : st) : Prop :=
  forall t h n i,
    lookup_of (dsk s) t = Some (h, n, i) <->
    (canonical s h /\ n <= s_num (cur_block s) /\ canon (dsk s) n = h /\
     exists l, body_of (dsk s) h = Some l /\ nth_error l (N.to_nat i) = Some t).
Definition CanonOK (s : st) : Prop :=
  canon_below s /\ canon_above_empty s /\ canon_data_present s /\ lookup_exact s.

(* histories *)
Definition is_insert (o : op) : bool := match o with OpInsert _ _ => true | OpReopen => true | _ => false end.
Definition blocks_of_op (o : op) : list block := match o with OpInsert c _ => c | _ => [] end.
Definition blocks_of (ops : list op) : list block := flat_map blocks_of_op ops.

(* well-formed block universe: [U] gives THE block (header, transactions) of
   each hash (no two delivered blocks share a hash), the genesis block is U's
   and has number 0, and every delivered block is one above its parent *)
Definition wf_block (U : N -> sblock) (b : block) : Prop :=
  to_s b = U (h_hash (b_hdr b)) /\
  h_number (b_hdr b) = h_number (fst (U (h_parent (b_hdr b)))) + 1.
Definition wf_universe (U : N -> sblock) (g : header) (bs : list block) : Prop :=
  U (h_hash g) = (g, []) /\ h_number g = 0 /\
  forall b, In b bs -> wf_block U b.
