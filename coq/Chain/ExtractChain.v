(* Extraction of the chain-store model for ocaml/chain/driver.ml.  ExtrOcamlBasic only. *)
From AQ Require Import Lib.Bytes Lib.ExtractBase Chain.Store Chain.Crash.
Require Extraction.
Require Import ExtrOcamlBasic.
Extraction "../ocaml/chain/model.ml" base_anchor
  init_state insert_chain insert_header_chain set_head reopen rollback step run
  canon number_of header_of body_of receipts_of td_of lookup_of has_state head_ptr
  get_transaction get_receipt log_of replay apply_wop
  genesis_disk open_db crash_disk.
