(* Chain/ChainAllOpsWitness.v — non-vacuity of the premises of ChainAllOps.sound_all_ops and of
   CrashReplay.replay_converges: a concrete universe and histories (all five operations; a
   parent-closed history with a unique heaviest block). *)
From Coq Require Import NArith List Bool Lia.
From AQ Require Import Chain.Store Chain.ChainSpec Chain.ChainProofs Chain.ChainWitness Chain.ChainAllOps Chain.ChainCanon Chain.CrashReplay.
Import ListNotations.
Local Open Scope N_scope.

(* the universe of the witness blocks of ChainWitness.v: 2-3-4 on genesis 1, 5 and 6 on the side *)
Definition Uw (h : N) : sblock :=
  match h with
  | 2 => to_s w2 | 3 => to_s w3 | 4 => to_s w4 | 5 => to_s w5 | 6 => to_s w6
  | _ => (wg, [])
  end.
Definition utdw (h : N) : N :=
  match h with 1 => 100 | 2 => 200 | 3 => 300 | 4 => 400 | 5 => 500 | 6 => 350 | _ => 0 end.

(* every operation kind once: import, side block, SetHead, re-import, Rollback, header import, restart *)
Definition ops_all : list op :=
  [OpInsert [w2; w3; w4] []; OpInsert [w6] []; OpSetHead 2; OpInsert [w4] []; OpRollback [4];
   OpHeaders [b_hdr w5] []; OpReopen; OpInsert [w5] []].

Lemma ops_all_wf : wf_ops Uw utdw ops_all /\
  Uw (h_hash wg) = (wg, []) /\ h_number wg = 0 /\ utdw (h_hash wg) = h_diff wg /\ h_parent wg = 0.
Proof.
  split; [|repeat split].
  split.
  - intros b Hb. cbn in Hb.
    repeat (destruct Hb as [<-|Hb]; [split; [reflexivity|repeat split; try reflexivity; vm_compute; reflexivity]|]). contradiction.
  - intros hd Hh. cbn in Hh.
    repeat (destruct Hh as [<-|Hh]; [repeat split; try reflexivity; vm_compute; reflexivity|]). contradiction.
Qed.

(* what the history leaves behind (so the example is not about an empty database) *)
Lemma ops_all_result :
  let s := run ops_all (init_state wg) in
  s_hash (cur_block s) = 5 /\ td_of (dsk s) 6 = Some 350 /\ canon (dsk s) 1 = 5 /\ lookup_of (dsk s) 7 = Some (5, 1, 0).
Proof. vm_compute. repeat split; reflexivity. Qed.

(* a parent-closed history of valid batches with a unique heaviest block, for replay_converges *)
Definition ops_closed : list op := [OpInsert [w2; w3] [true; true]; OpInsert [w4] [true]; OpInsert [w6] [true]].
Lemma ops_closed_ok : closed_hist Uw [h_hash wg] ops_closed.
Proof.
  cbn [ops_closed closed_hist].
  assert (W : forall b, In b [w2; w3; w4; w6] -> wf_block Uw b).
  { intros b Hb. repeat (destruct Hb as [<-|Hb]; [split; reflexivity|]). contradiction. }
  unfold good_batch. repeat apply conj; try reflexivity; try (cbn; lia); try exact I;
    try (intros b Hb; apply W; cbn in Hb |- *; tauto);
    try (intros b Hb; cbn in Hb; repeat (destruct Hb as [<-|Hb]; [reflexivity|]); contradiction);
    try (cbn; tauto).
Qed.
