(* Chain/ChainCanon.v — the canon_below clause of C03 for import-only histories:
   the number index below the head names exactly the stored ancestors of the head.
   The heart is a characterisation of the number->hash entries reorg rewrites. *)
From Coq Require Import NArith List Bool Lia ZifyBool ZifyN ZifyNat.
From AQ Require Import Chain.Store Chain.ChainSpec Chain.ChainProofs Chain.Crash Chain.CrashProofs Chain.ChainReopen.
Import ListNotations.
Local Open Scope N_scope.

(* ---------------------------------------------------------------- the canonical chain below a hash *)

(* [cc d n h]: the header stored under h has number n, the number index names h at n,
   and so on along the stored parent links down to number 0 *)
Inductive cc (d : disk) : N -> N -> Prop :=
| cc_base : forall h x, header_of d h = Some x -> h_number x = 0 -> canon d 0 = h -> cc d 0 h
| cc_step : forall n m h x, header_of d h = Some x -> h_number x = n -> canon d n = h ->
    n = m + 1 -> cc d m (h_parent x) -> cc d n h.

Lemma cc_top : forall d n h, cc d n h -> canon d n = h.
Proof. intros d n h C. destruct C as [h x Hh Hn Hc|n m h x Hh Hn Hc Hm C]; exact Hc. Qed.

Lemma cc_hdr : forall d n h, cc d n h -> exists x, header_of d h = Some x /\ h_number x = n.
Proof. intros d n h C. destruct C as [h x Hh Hn Hc|n m h x Hh Hn Hc Hm C]; exists x; split; assumption. Qed.

Lemma cc_anc : forall d n h, cc d n h -> forall j, (j <= N.to_nat n)%nat -> anc d j h = Some (canon d (n - N.of_nat j)).
Proof.
  intros d n h C. induction C as [h x Hh Hn Hc|n m h x Hh Hn Hc Hm C IH]; intros j Hj.
  - assert (j = O) by lia. subst j. cbn [anc]. replace (0 - N.of_nat 0) with 0 by lia. rewrite Hc. reflexivity.
  - destruct j as [|j]; cbn [anc].
    + replace (n - N.of_nat 0) with n by lia. rewrite Hc. reflexivity.
    + rewrite Hh. rewrite IH by lia. f_equal. f_equal. lia.
Qed.

Lemma cc_ancestor_at : forall d n h, cc d n h -> forall k, k <= n -> ancestor_at d h k = Some (canon d k).
Proof.
  intros d n h C k Hk. destruct (cc_hdr _ _ _ C) as (x & Hx & Hn).
  unfold ancestor_at. rewrite Hx, Hn.
  assert (E : (k <=? n) = true) by lia. rewrite E.
  rewrite (cc_anc _ _ _ C) by lia. f_equal. f_equal. lia.
Qed.

(* frame: stored headers survive, the number index agrees up to n *)
Lemma cc_frame : forall d d' n h, cc d n h ->
  (forall k x, header_of d k = Some x -> header_of d' k = Some x) ->
  (forall m, m <= n -> canon d' m = canon d m) ->
  cc d' n h.
Proof.
  intros d d' n h C. induction C as [h x Hh Hn Hc|n m h x Hh Hn Hc Hm C IH]; intros HH HC.
  - eapply cc_base; [apply HH; exact Hh|exact Hn|]. rewrite HC by lia. exact Hc.
  - eapply cc_step; [apply HH; exact Hh|exact Hn| |exact Hm|].
    + rewrite HC by lia. exact Hc.
    + apply IH; [exact HH|]. intros k Hk. apply HC. lia.
Qed.

(* ---------------------------------------------------------------- stored parent paths *)

(* [path d x l y]: following GetBlock(parent) from the in-memory block x visits the
   blocks of l (x first, numbers decreasing by one) and arrives at y (not in l) *)
Inductive path (d : disk) : sblock -> list sblock -> sblock -> Prop :=
| path_nil : forall x, path d x [] x
| path_cons : forall x p l y, block_of d (s_parent x) = Some p -> s_hash p = s_parent x ->
    s_num x = s_num p + 1 -> path d p l y -> path d x (x :: l) y.

Lemma path_app : forall d x l1 y, path d x l1 y -> forall l2 z, path d y l2 z -> path d x (l1 ++ l2) z.
Proof.
  intros d x l1 y P. induction P as [x|x p l y Hp Hh Hn P IH]; intros l2 z Q; cbn [app]; [exact Q|].
  eapply path_cons; [exact Hp|exact Hh|exact Hn|apply IH; exact Q].
Qed.

Lemma path_bounds : forall d x l y, path d x l y ->
  s_num y <= s_num x /\ forall z, In z l -> s_num y < s_num z /\ s_num z <= s_num x.
Proof.
  intros d x l y P. induction P as [x|x p l y Hp Hh Hn P [IH1 IH2]].
  - split; [lia|intros z []].
  - split; [lia|]. intros z [<-|Hz]; [lia|]. destruct (IH2 z Hz). lia.
Qed.

Lemma path_nodup : forall d x l y, path d x l y -> NoDup (map s_num l).
Proof.
  intros d x l y P. induction P as [x|x p l y Hp Hh Hn P IH]; cbn [map]; constructor; [|exact IH].
  intro Hin. apply in_map_iff in Hin. destruct Hin as (z & Ez & Hz).
  destruct (path_bounds _ _ _ _ P) as [_ B]. destruct (B z Hz). lia.
Qed.

Lemma block_of_header : forall d h p, block_of d h = Some p -> header_of d h = Some (fst p).
Proof.
  intros d h p H. unfold block_of in H. destruct (header_of d h) as [x|]; [|discriminate].
  destruct (body_of d h); [|discriminate]. injection H as <-. reflexivity.
Qed.

(* walking down a path from a canonical block stays canonical *)
Lemma cc_path_down : forall d o l a, path d o l a -> header_of d (s_hash o) = Some (fst o) ->
  cc d (s_num o) (s_hash o) -> cc d (s_num a) (s_hash a).
Proof.
  intros d o l a P. induction P as [x|x p l y Hp Hh Hn P IH]; intros Hx C; [exact C|].
  apply IH.
  - rewrite Hh. apply block_of_header. exact Hp.
  - inversion C as [h x0 Hh0 Hn0 Hc0 E1 E2|n m h x0 Hh0 Hn0 Hc0 Hm C' E1 E2]; [lia|].
    rewrite Hx in Hh0. injection Hh0 as <-.
    replace (s_num p) with m by lia. rewrite Hh. exact C'.
Qed.

(* building the canonical chain upwards along a path *)
Lemma cc_path_up : forall d x l y, path d x l y -> forall d',
  (forall k hd, header_of d k = Some hd -> header_of d' k = Some hd) ->
  header_of d' (s_hash x) = Some (fst x) ->
  (forall z, In z l -> canon d' (s_num z) = s_hash z) ->
  cc d' (s_num y) (s_hash y) -> cc d' (s_num x) (s_hash x).
Proof.
  intros d x l y P. induction P as [x|x p l y Hp Hh Hn P IH]; intros d' HH Hx HC C; [exact C|].
  eapply cc_step; [exact Hx|reflexivity|apply HC; left; reflexivity|exact Hn|].
  change (h_parent (fst x)) with (s_parent x). rewrite <- Hh.
  apply IH; [exact HH| |intros z Hz; apply HC; right; exact Hz|exact C].
  rewrite Hh. apply HH. apply block_of_header. exact Hp.
Qed.

Lemma cc_finish : forall d d' x l y, path d x l y -> cc d (s_num y) (s_hash y) ->
  (forall k hd, header_of d k = Some hd -> header_of d' k = Some hd) ->
  header_of d' (s_hash x) = Some (fst x) ->
  (forall z, In z l -> canon d' (s_num z) = s_hash z) ->
  (forall m, m <= s_num y -> canon d' m = canon d m) ->
  cc d' (s_num x) (s_hash x).
Proof.
  intros d d' x l y P C HH Hx HC HM.
  eapply cc_path_up; [exact P|exact HH|exact Hx|exact HC|].
  eapply cc_frame; [exact C|exact HH|exact HM].
Qed.

(* ---------------------------------------------------------------- what insert / reorg write to the number index *)

Lemma bc_insert_canon : forall b s m,
  canon (dsk (bc_insert b s)) m = if m =? s_num b then s_hash b else canon (dsk s) m.
Proof.
  intros b s m. destruct (m =? s_num b) eqn:E.
  - assert (m = s_num b) by lia. subst m. apply bc_insert_cn.
  - unfold bc_insert.
    assert (Hk : canon (put (KCanon (s_num b)) (VHash (s_hash b)) (dsk s)) m = canon (dsk s) m).
    { unfold canon. rewrite get_put. destruct (key_eq_dec (KCanon m) (KCanon (s_num b))) as [Ek|]; [|reflexivity].
      injection Ek as Ek. lia. }
    destruct (negb (canon (dsk s) (s_num b) =? s_hash b)); cbn [dsk emit set_cur_block set_cur_header set_cur_fast apply_wop];
      rewrite ?cn_put_other by (intro; discriminate); exact Hk.
Qed.

Lemma fold_emit_put_canon : forall l s m, (forall kv, In kv l -> forall k, fst kv <> KCanon k) ->
  canon (dsk (fold_left (fun s kv => emit (Put (fst kv) (snd kv)) s) l s)) m = canon (dsk s) m.
Proof.
  induction l as [|kv l IH]; intros s m H; cbn [fold_left]; [reflexivity|].
  rewrite IH by (intros; apply H; right; assumption).
  cbn [dsk emit apply_wop]. apply cn_put_other. apply H. left; reflexivity.
Qed.

Lemma lookup_puts_keys : forall txs h n i kv, In kv (lookup_puts h n i txs) -> forall k, fst kv <> KCanon k.
Proof.
  induction txs as [|t r IH]; intros h n i kv H; cbn [lookup_puts] in H; [contradiction|].
  destruct H as [<-|H]; [intro; discriminate|eapply IH; exact H].
Qed.

Lemma write_lookups_canon : forall b s m, canon (dsk (write_lookups_direct b s)) m = canon (dsk s) m.
Proof. intros b s m. unfold write_lookups_direct. apply fold_emit_put_canon. intros kv H. eapply lookup_puts_keys; exact H. Qed.

Lemma fold_del_lookup_canon : forall l s m,
  canon (dsk (fold_left (fun s t => emit (Del (KLookup t)) s) l s)) m = canon (dsk s) m.
Proof.
  induction l as [|t l IH]; intros s m; cbn [fold_left]; [reflexivity|].
  rewrite IH. cbn [dsk emit apply_wop]. apply cn_del_other. intro; discriminate.
Qed.

Definition ins_fold (l : list sblock) (s : st) : st :=
  fold_left (fun s b => write_lookups_direct b (bc_insert b s)) l s.

Lemma ins_fold_other : forall l s m, (forall z, In z l -> s_num z <> m) ->
  canon (dsk (ins_fold l s)) m = canon (dsk s) m.
Proof.
  induction l as [|b l IH]; intros s m H; unfold ins_fold; cbn [fold_left]; [reflexivity|].
  fold (ins_fold l (write_lookups_direct b (bc_insert b s))).
  rewrite IH by (intros; apply H; right; assumption).
  rewrite write_lookups_canon, bc_insert_canon.
  assert (Hb : s_num b <> m) by (apply H; left; reflexivity).
  assert (E : (m =? s_num b) = false) by lia. rewrite E. reflexivity.
Qed.

Lemma ins_fold_in : forall l s, NoDup (map s_num l) -> forall z, In z l ->
  canon (dsk (ins_fold l s)) (s_num z) = s_hash z.
Proof.
  induction l as [|b l IH]; intros s ND z Hz; [contradiction|].
  unfold ins_fold; cbn [fold_left]. fold (ins_fold l (write_lookups_direct b (bc_insert b s))).
  cbn [map] in ND. inversion ND as [|a l' Hnin ND']; subst a l'.
  destruct Hz as [<-|Hz].
  - rewrite ins_fold_other.
    + rewrite write_lookups_canon. apply bc_insert_cn.
    + intros z Hz E. apply Hnin. rewrite <- E. apply in_map. exact Hz.
  - apply IH; assumption.
Qed.

(* ---------------------------------------------------------------- what insert / reorg write to the lookup entries *)

Lemma lk_put_other : forall d k v t, (forall x, k <> KLookup x) -> lookup_of (put k v d) t = lookup_of d t.
Proof.
  intros d k v t H. unfold lookup_of. rewrite get_put.
  destruct (key_eq_dec (KLookup t) k) as [E|]; [exfalso; apply (H t); symmetry; exact E|reflexivity].
Qed.
Lemma lk_del_other : forall d k t, (forall x, k <> KLookup x) -> lookup_of (del k d) t = lookup_of d t.
Proof.
  intros d k t H. unfold lookup_of. rewrite get_del.
  destruct (key_eq_dec (KLookup t) k) as [E|]; [exfalso; apply (H t); symmetry; exact E|reflexivity].
Qed.
Lemma lk_put_same : forall d t0 h n i t,
  lookup_of (put (KLookup t0) (VLookup h n i) d) t = if N.eq_dec t t0 then Some (h, n, i) else lookup_of d t.
Proof.
  intros d t0 h n i t. unfold lookup_of. rewrite get_put.
  destruct (key_eq_dec (KLookup t) (KLookup t0)) as [E|Ne]; destruct (N.eq_dec t t0) as [E'|Ne']; try reflexivity.
  - injection E as E. contradiction.
  - subst t0. congruence.
Qed.
Lemma lk_del_same : forall d t0 t, lookup_of (del (KLookup t0) d) t = if N.eq_dec t t0 then None else lookup_of d t.
Proof.
  intros d t0 t. unfold lookup_of. rewrite get_del.
  destruct (key_eq_dec (KLookup t) (KLookup t0)) as [E|Ne]; destruct (N.eq_dec t t0) as [E'|Ne']; try reflexivity.
  - injection E as E. contradiction.
  - subst t0. congruence.
Qed.
Lemma lk_batch_other : forall l d t, (forall kv, In kv l -> forall x, fst kv <> KLookup x) ->
  lookup_of (fold_left apply_bop l d) t = lookup_of d t.
Proof.
  induction l as [|[k ov] l IH]; intros d t H; cbn [fold_left]; [reflexivity|].
  rewrite IH by (intros; apply H; right; assumption).
  unfold apply_bop; cbn [fst snd]. pose proof (H (k, ov) (or_introl eq_refl)) as Hk. cbn [fst] in Hk.
  destruct ov; [apply lk_put_other|apply lk_del_other]; exact Hk.
Qed.

Definition put_all (l : list (key * value)) (d : disk) : disk := fold_left (fun d kv => put (fst kv) (snd kv) d) l d.

Lemma lookup_puts_spec : forall txs h n i0 d t e, lookup_of (put_all (lookup_puts h n i0 txs) d) t = Some e ->
  (lookup_of d t = Some e /\ ~ In t txs) \/ exists j, e = (h, n, i0 + N.of_nat j) /\ nth_error txs j = Some t.
Proof.
  induction txs as [|t0 r IH]; intros h n i0 d t e H; unfold put_all in H; cbn [lookup_puts fold_left] in H.
  - left. split; [exact H|intros []].
  - cbn [fst snd] in H. fold (put_all (lookup_puts h n (i0 + 1) r) (put (KLookup t0) (VLookup h n i0) d)) in H.
    apply IH in H. destruct H as [[H Hn]|(j & E & Hj)].
    + rewrite lk_put_same in H. destruct (N.eq_dec t t0) as [->|Ne].
      * right. exists O. injection H as <-. split; [f_equal; lia|reflexivity].
      * left. split; [exact H|]. intros [E|Hin]; [congruence|contradiction].
    + right. exists (S j). split; [rewrite E; f_equal; lia|exact Hj].
Qed.

Lemma fold_emit_put_dsk : forall l s, dsk (fold_left (fun s kv => emit (Put (fst kv) (snd kv)) s) l s) = put_all l (dsk s).
Proof. induction l as [|kv l IH]; intros s; cbn [fold_left]; [reflexivity|]. rewrite IH. reflexivity. Qed.

Lemma fold_bop_put_all : forall l d, fold_left apply_bop (map (fun kv : key * value => (fst kv, Some (snd kv))) l) d = put_all l d.
Proof. induction l as [|kv l IH]; intros d; cbn [map fold_left]; [reflexivity|]. rewrite IH. reflexivity. Qed.

Lemma bc_insert_lookup : forall b s t, lookup_of (dsk (bc_insert b s)) t = lookup_of (dsk s) t.
Proof.
  intros b s t. unfold bc_insert.
  destruct (negb (canon (dsk s) (s_num b) =? s_hash b)); cbn [dsk emit set_cur_block set_cur_header set_cur_fast apply_wop];
    rewrite !lk_put_other by (intro; discriminate); reflexivity.
Qed.

Lemma write_lookups_lookup : forall b s t e, lookup_of (dsk (write_lookups_direct b s)) t = Some e ->
  (lookup_of (dsk s) t = Some e /\ ~ In t (s_txs b)) \/
  exists j, e = (s_hash b, s_num b, N.of_nat j) /\ nth_error (s_txs b) j = Some t.
Proof.
  intros b s t e H. unfold write_lookups_direct in H. rewrite fold_emit_put_dsk in H.
  apply lookup_puts_spec in H. destruct H as [H|(j & E & Hj)]; [left; exact H|].
  right. exists j. split; [rewrite E; f_equal|exact Hj].
Qed.

Lemma ins_fold_lookup : forall l s t e, lookup_of (dsk (ins_fold l s)) t = Some e ->
  (lookup_of (dsk s) t = Some e /\ ~ In t (flat_map s_txs l)) \/
  exists z j, In z l /\ e = (s_hash z, s_num z, N.of_nat j) /\ nth_error (s_txs z) j = Some t.
Proof.
  induction l as [|b l IH]; intros s t e H.
  - left. split; [exact H|intros []].
  - unfold ins_fold in H; cbn [fold_left] in H. fold (ins_fold l (write_lookups_direct b (bc_insert b s))) in H.
    apply IH in H. destruct H as [[H Hn]|(z & j & Hz & E & Hj)].
    + apply write_lookups_lookup in H. destruct H as [[H Hn']|(j & E & Hj)].
      * left. rewrite bc_insert_lookup in H. split; [exact H|]. cbn [flat_map]. intro Hin. apply in_app_or in Hin. tauto.
      * right. exists b, j. split; [left; reflexivity|split; assumption].
    + right. exists z, j. split; [right; exact Hz|split; assumption].
Qed.

Lemma fold_del_lookup_lookup : forall l s t e,
  lookup_of (dsk (fold_left (fun s t => emit (Del (KLookup t)) s) l s)) t = Some e ->
  lookup_of (dsk s) t = Some e /\ ~ In t l.
Proof.
  induction l as [|t0 l IH]; intros s t e H; cbn [fold_left] in H; [split; [exact H|intros []]|].
  apply IH in H. destruct H as [H Hn]. cbn [dsk emit apply_wop] in H. rewrite lk_del_same in H.
  destruct (N.eq_dec t t0) as [->|Ne]; [discriminate|]. split; [exact H|]. intros [E|Hin]; [congruence|contradiction].
Qed.

Lemma memN_in : forall t l, memN t l = true <-> In t l.
Proof.
  intros t l. unfold memN. rewrite existsb_exists. split.
  - intros (x & Hx & E). assert (t = x) by lia. subst x. exact Hx.
  - intro H. exists t. split; [exact H|lia].
Qed.

Lemma block_of_body : forall d h p, block_of d h = Some p -> body_of d h = Some (snd p).
Proof.
  intros d h p H. unfold block_of in H. destruct (header_of d h) as [x|]; [|discriminate].
  destruct (body_of d h); [|discriminate]. injection H as <-. reflexivity.
Qed.

(* the blocks of a path are stored (given the first one is) *)
Lemma path_stored : forall d x l y, path d x l y -> block_of d (s_hash x) = Some x ->
  forall z, In z l -> block_of d (s_hash z) = Some z.
Proof.
  intros d x l y P. induction P as [x|x p l y Hp Hh Hn P IH]; intros Hx z Hz; [contradiction|].
  destruct Hz as [<-|Hz]; [exact Hx|]. apply IH; [rewrite Hh; exact Hp|exact Hz].
Qed.

(* a canonical number above the end of a path down from a canonical block names a block of the path *)
Lemma cc_path_member : forall d o l a, path d o l a -> header_of d (s_hash o) = Some (fst o) ->
  cc d (s_num o) (s_hash o) -> forall n, s_num a < n -> n <= s_num o ->
  exists z, In z l /\ s_num z = n /\ s_hash z = canon d n.
Proof.
  intros d o l a P. induction P as [x|x p l y Hp Hh Hn P IH]; intros Hx C n H1 H2; [lia|].
  destruct (N.eq_dec n (s_num x)) as [->|Nn].
  - exists x. split; [left; reflexivity|split; [reflexivity|]]. symmetry. apply (cc_top _ _ _ C).
  - destruct (IH) with (n := n) as (z & Hz & Ez1 & Ez2); [| |exact H1|lia|].
    + rewrite Hh. apply block_of_header. exact Hp.
    + inversion C as [h x0 Hh0 Hn0 Hc0 E1 E2|n' m h x0 Hh0 Hn0 Hc0 Hm C' E1 E2]; [lia|].
      rewrite Hx in Hh0. injection Hh0 as <-.
      replace (s_num p) with m by lia. rewrite Hh. exact C'.
    + exists z. split; [right; exact Hz|split; assumption].
Qed.

(* ---------------------------------------------------------------- walk / lockstep produce paths *)

Section Paths.
Variable U : N -> sblock.
Variable g : header.

Lemma block_of_hash : forall d h p, InvD U g d -> block_of d h = Some p -> s_hash p = h.
Proof.
  intros d h p I H. pose proof (block_of_header _ _ _ H) as Hh.
  destruct (d_cons_h _ _ _ I _ _ Hh) as [_ E]. exact E.
Qed.

Lemma walk_path : forall d, InvD U g d -> forall x, grounded g d x -> forall fuel target acc,
  target <= s_num x -> (N.to_nat (s_num x - target) < fuel)%nat ->
  exists y l, walk fuel d (Some x) target acc = Some (Some y, acc ++ l) /\ grounded g d y /\ s_num y = target /\ path d x l y.
Proof.
  intros d I x G. induction G as [x Hh Hn|x p Hp Hn G IH]; intros fuel target acc Hle Hf.
  - destruct fuel as [|f]; [lia|]. cbn [walk].
    assert (E : (s_num x =? target) = true) by lia. rewrite E.
    exists x, []. rewrite app_nil_r. repeat split; [apply gr_gen; assumption|lia|apply path_nil].
  - destruct fuel as [|f]; [lia|]. cbn [walk].
    destruct (s_num x =? target) eqn:E.
    + exists x, []. rewrite app_nil_r. repeat split; [eapply gr_step; eassumption|lia|apply path_nil].
    + rewrite Hp. destruct (IH f target (acc ++ [x])) as (y & l & W & Gy & Ny & P); [lia|lia|].
      exists y, (x :: l). rewrite W. rewrite <- app_assoc. cbn [app].
      repeat split; [exact Gy|exact Ny|].
      eapply path_cons; [exact Hp|eapply block_of_hash; eassumption|exact Hn|exact P].
Qed.

Lemma lockstep_path : forall d, InvD U g d -> forall o, grounded g d o -> forall n, grounded g d n -> s_num o = s_num n ->
  forall fuel oc nc, (N.to_nat (s_num o) < fuel)%nat ->
  exists lo ln ao an, lockstep fuel d o n oc nc = LOk (oc ++ lo) (nc ++ ln) /\
    path d o lo ao /\ path d n ln an /\ s_hash ao = s_hash an /\ s_num ao = s_num an.
Proof.
  intros d I o G. induction G as [o Hh Hn|o p Hp Hn G IH]; intros n Gn En fuel oc nc Hf.
  - destruct fuel as [|f]; [lia|]. cbn [lockstep].
    inversion Gn as [x Hh' Hn'|x p' Hp' Hn' G']; subst x.
    + assert (E : (s_hash o =? s_hash n) = true) by lia. rewrite E.
      exists [], [], o, n. rewrite !app_nil_r. repeat split; try apply path_nil; lia.
    + lia.
  - destruct fuel as [|f]; [lia|]. cbn [lockstep].
    destruct (s_hash o =? s_hash n) eqn:E.
    + exists [], [], o, n. rewrite !app_nil_r. repeat split; try apply path_nil; lia.
    + inversion Gn as [x Hh' Hn'|x p' Hp' Hn' G']; subst x; [lia|].
      rewrite Hp, Hp'.
      destruct (IH p' G' ltac:(lia) f (oc ++ [o]) (nc ++ [n])) as (lo & ln & ao & an & L & Po & Pn & Eh & Enum); [lia|].
      exists (o :: lo), (n :: ln), ao, an. rewrite L, <- !app_assoc. cbn [app].
      repeat split; [| |exact Eh|exact Enum].
      * eapply path_cons; [exact Hp|eapply block_of_hash; eassumption|exact Hn|exact Po].
      * eapply path_cons; [exact Hp'|eapply block_of_hash; eassumption|exact Hn'|exact Pn].
Qed.

(* the number->hash entries reorg rewrites: exactly those of the new branch above the
   common ancestor *)
Lemma reorg_canon : forall fuel o n s, InvD U g (dsk s) -> grounded g (dsk s) o -> grounded g (dsk s) n ->
  (N.to_nat (N.max (s_num o) (s_num n)) + 1 < fuel)%nat ->
  fst (reorg fuel o n s) = SOk /\
  exists lo ln ao an,
    path (dsk s) o lo ao /\ path (dsk s) n ln an /\ s_hash ao = s_hash an /\ s_num ao = s_num an /\
    (forall z, In z ln -> canon (dsk (snd (reorg fuel o n s))) (s_num z) = s_hash z) /\
    (forall m, (forall z, In z ln -> s_num z <> m) -> canon (dsk (snd (reorg fuel o n s))) m = canon (dsk s) m) /\
    (forall t e, lookup_of (dsk (snd (reorg fuel o n s))) t = Some e ->
       (exists z j, In z ln /\ e = (s_hash z, s_num z, N.of_nat j) /\ nth_error (s_txs z) j = Some t) \/
       (lookup_of (dsk s) t = Some e /\ ~ In t (flat_map s_txs lo))).
Proof.
  intros fuel o n s I Go Gn Hf. unfold reorg.
  assert (Fin : forall lo ln ao an oc nc, oc = lo -> nc = ln ->
            path (dsk s) o lo ao -> path (dsk s) n ln an -> s_hash ao = s_hash an -> s_num ao = s_num an ->
            let s' := fold_left (fun s t => emit (Del (KLookup t)) s)
                        (filter (fun t => negb (memN t (flat_map s_txs (rev nc)))) (flat_map s_txs oc)) (ins_fold (rev nc) s) in
            exists lo ln ao an,
              path (dsk s) o lo ao /\ path (dsk s) n ln an /\ s_hash ao = s_hash an /\ s_num ao = s_num an /\
              (forall z, In z ln -> canon (dsk s') (s_num z) = s_hash z) /\
              (forall m, (forall z, In z ln -> s_num z <> m) -> canon (dsk s') m = canon (dsk s) m) /\
              (forall t e, lookup_of (dsk s') t = Some e ->
                 (exists z j, In z ln /\ e = (s_hash z, s_num z, N.of_nat j) /\ nth_error (s_txs z) j = Some t) \/
                 (lookup_of (dsk s) t = Some e /\ ~ In t (flat_map s_txs lo)))).
  { intros lo ln ao an oc nc -> -> Po Pn Eh En s'. exists lo, ln, ao, an.
    split; [exact Po|split; [exact Pn|split; [exact Eh|split; [exact En|split; [|split]]]]].
    - intros z Hz. unfold s'. rewrite fold_del_lookup_canon. apply ins_fold_in.
      + rewrite map_rev. apply NoDup_rev. eapply path_nodup; exact Pn.
      + apply in_rev. rewrite rev_involutive. exact Hz.
    - intros m Hm. unfold s'. rewrite fold_del_lookup_canon. apply ins_fold_other.
      intros z Hz. apply Hm. apply in_rev. exact Hz.
    - intros t e H. unfold s' in H. apply fold_del_lookup_lookup in H. destruct H as [H Hnd].
      apply ins_fold_lookup in H. destruct H as [[H Hna]|(z & j & Hz & E & Hj)].
      + right. split; [exact H|]. intro Hin. apply Hnd. apply filter_In. split; [exact Hin|].
        destruct (memN t (flat_map s_txs (rev ln))) eqn:Em; [|reflexivity].
        exfalso. apply Hna. apply memN_in. exact Em.
      + left. exists z, j. split; [apply in_rev; exact Hz|split; assumption]. }
  destruct (s_num n <? s_num o) eqn:C.
  - destruct (walk_path _ I _ Go fuel (s_num n) []) as (y & l1 & W & Gy & Ny & P1); [lia|lia|].
    rewrite W.
    destruct (lockstep_path _ I _ Gy _ Gn Ny fuel ([] ++ l1) []) as (lo & ln & ao & an & L & Po & Pn & Eh & En); [lia|].
    rewrite L. cbn [fst snd]. split; [reflexivity|].
    apply (Fin (l1 ++ lo) ln ao an); [reflexivity|reflexivity|eapply path_app; eassumption|exact Pn|exact Eh|exact En].
  - destruct (walk_path _ I _ Gn fuel (s_num o) []) as (y & l1 & W & Gy & Ny & P1); [lia|lia|].
    rewrite W.
    destruct (lockstep_path _ I _ Go _ Gy (eq_sym Ny) fuel [] ([] ++ l1)) as (lo & ln & ao & an & L & Po & Pn & Eh & En); [lia|].
    rewrite L. cbn [fst snd]. split; [reflexivity|].
    apply (Fin lo (l1 ++ ln) ao an); [reflexivity|reflexivity|exact Po|eapply path_app; eassumption|exact Eh|exact En].
Qed.

End Paths.

(* ---------------------------------------------------------------- WriteBlockWithState keeps the canonical chain *)

Lemma side_batch_canon : forall h hd txs d m,
  canon (fold_left apply_bop ([(KBody h, Some (VTxs txs)); (KHashNum h, Some (VNum (h_number hd))); (KHeader h, Some (VHeader hd))]
                               ++ [(KReceipts h, Some (VTxs txs))]) d) m = canon d m.
Proof.
  intros h hd txs d m. apply cn_batch_other.
  intros kv Hkv. cbn [app In] in Hkv. repeat (destruct Hkv as [<-|Hkv]; [intro; discriminate|]). contradiction.
Qed.

Lemma main_batch_canon : forall h hd txs d m,
  canon (fold_left apply_bop (([(KBody h, Some (VTxs txs)); (KHashNum h, Some (VNum (h_number hd))); (KHeader h, Some (VHeader hd))]
                               ++ [(KReceipts h, Some (VTxs txs))])
                               ++ map (fun kv : key * value => (fst kv, Some (snd kv))) (lookup_puts h (h_number hd) 0 txs)) d) m = canon d m.
Proof.
  intros h hd txs d m. apply cn_batch_other.
  intros kv Hkv. apply in_app_or in Hkv. destruct Hkv as [Hkv|Hkv].
  - cbn [app In] in Hkv. repeat (destruct Hkv as [<-|Hkv]; [intro; discriminate|]). contradiction.
  - apply in_map_iff in Hkv. destruct Hkv as (kv0 & <- & Hin). cbn [fst]. eapply lookup_puts_keys; exact Hin.
Qed.

Lemma side_batch_lookup : forall h hd txs d t,
  lookup_of (fold_left apply_bop ([(KBody h, Some (VTxs txs)); (KHashNum h, Some (VNum (h_number hd))); (KHeader h, Some (VHeader hd))]
                               ++ [(KReceipts h, Some (VTxs txs))]) d) t = lookup_of d t.
Proof.
  intros h hd txs d t. apply lk_batch_other.
  intros kv Hkv. cbn [app In] in Hkv. repeat (destruct Hkv as [<-|Hkv]; [intro; discriminate|]). contradiction.
Qed.

(* every lookup entry points into the canonical chain, at the right position *)
Definition LSd (d : disk) (top : N) : Prop := forall t h n i, lookup_of d t = Some (h, n, i) ->
  n <= top /\ canon d n = h /\ exists l, body_of d h = Some l /\ nth_error l (N.to_nat i) = Some t.
Definition LS (s : st) : Prop := LSd (dsk s) (s_num (cur_block s)).

Lemma LSd_frame : forall d d' top, LSd d top -> (forall t, lookup_of d' t = lookup_of d t) ->
  (forall m, canon d' m = canon d m) -> (forall k l, body_of d k = Some l -> body_of d' k = Some l) -> LSd d' top.
Proof.
  intros d d' top L El Ec Eb t h n i H. rewrite El in H. destruct (L _ _ _ _ H) as (A & B & l & C & D).
  split; [exact A|split; [rewrite Ec; exact B|exists l; split; [apply Eb; exact C|exact D]]].
Qed.

Section Step.
Variable U : N -> sblock.
Variable g : header.
Hypothesis Ug : U (h_hash g) = (g, []).
Hypothesis g0 : h_number g = 0.

(* the number index names the stored ancestry of the head, all the way down *)
Definition CC (s : st) : Prop := cc (dsk s) (s_num (cur_block s)) (s_hash (cur_block s)).

Lemma CC_canon_below : forall s, CC s -> canon_below s.
Proof. intros s C n Hn. eapply cc_ancestor_at; [exact C|exact Hn]. Qed.

Lemma wbws_cc : forall b s, Inv U g s -> wf_block U b -> header_of (dsk s) (h_parent (b_hdr b)) <> None ->
  CC s -> CC (snd (write_block_with_state b s)).
Proof.
  intros b s I [HU Hnum] Hp P.
  pose proof (hdr_td U g _ _ (inv_d _ _ _ I) Hp) as Hptd.
  set (hd := b_hdr b) in *. set (txs := b_txs b) in *. set (h := h_hash hd) in *.
  assert (HU' : (hd, txs) = U (h_hash hd)) by exact HU.
  assert (Hfst : fst (U (h_hash hd)) = hd) by (rewrite <- HU'; reflexivity).
  assert (Ne : h <> h_hash g).
  { intro E. unfold h in E. rewrite E, Ug in HU'. injection HU' as Ehd _. rewrite Ehd in Hnum. lia. }
  unfold write_block_with_state. fold hd. fold h. fold txs.
  destruct (td_of (dsk s) (h_parent hd)) as [ptd|] eqn:Eptd; [|congruence].
  cbv zeta. set (ext := h_diff hd + ptd).
  set (s1 := emit (Put (KState (h_root hd)) VUnit) (emit (Put (KTd h) (VNum ext)) s)).
  assert (Ed1 : dsk s1 = d_td_state (dsk s) h ext (h_root hd)) by reflexivity.
  assert (Ec1 : cur_block s1 = cur_block s) by reflexivity.
  destruct (invD_td_state U g g0 (dsk s) h hd txs ptd (inv_d _ _ _ I) HU' Ne Eptd) as (I1 & Eh & Eb & _).
  fold ext in I1, Eh, Eb. rewrite <- Ed1 in I1, Eh, Eb.
  assert (Eblk : forall k, block_of (dsk s1) k = block_of (dsk s) k) by (intro k; unfold block_of; rewrite Eh, Eb; reflexivity).
  assert (Ecn1 : forall m, canon (dsk s1) m = canon (dsk s) m).
  { intro m. unfold s1. cbn [dsk emit apply_wop]. rewrite !cn_put_other by (intro; discriminate). reflexivity. }
  assert (P1 : cc (dsk s1) (s_num (cur_block s)) (s_hash (cur_block s))).
  { eapply cc_frame; [exact P| |intros; apply Ecn1]. intros k x Hk. rewrite Eh. exact Hk. }
  assert (Hcur1 : block_of (dsk s1) (s_hash (cur_block s)) = Some (cur_block s)) by (rewrite Eblk; apply (inv_cur _ _ _ I)).
  assert (Hcurh : header_of (dsk s1) (s_hash (cur_block s)) = Some (fst (cur_block s))) by (apply block_of_header; exact Hcur1).
  (* stored headers survive the block records of the batch *)
  assert (Hhdr : forall d3, same_core (dsk s1) d3 -> forall k x, header_of (dsk s1) k = Some x -> header_of (d_block d3 hd txs) k = Some x).
  { intros d3 H3 k x Hk. destruct (d_block_reads d3 hd txs) as (Rh & _). rewrite Rh, (sc_header _ _ _ H3).
    destruct (N.eq_dec k (h_hash hd)) as [->|]; [|exact Hk].
    destruct (d_cons_h _ _ _ I1 _ _ Hk) as [-> _]. rewrite Hfst. reflexivity. }
  destruct (td_of (dsk s) (s_hash (cur_block s))) as [ltd|]; [|exact P1].
  assert (Hside : forall s1', dsk s1' = dsk s1 -> cur_block s1' = cur_block s1 ->
            CC (emit (Batch ([(KBody h, Some (VTxs txs)); (KHashNum h, Some (VNum (h_number hd))); (KHeader h, Some (VHeader hd))]
                               ++ [(KReceipts h, Some (VTxs txs))])) s1')).
  { intros s1' Ed Ec. unfold CC. cbn [cur_block emit]. rewrite Ec, Ec1.
    eapply cc_frame; [exact P1| |].
    - cbn [dsk emit apply_wop]. rewrite Ed. apply (Hhdr _ (same_core_refl _)).
    - intros m _. cbn [dsk emit apply_wop]. rewrite side_batch_canon, Ed. reflexivity. }
  assert (Hmain : forall s1', dsk s1' = dsk s1 -> cur_block s1' = cur_block s1 ->
            CC (snd (let r := if h_parent hd =? s_hash (cur_block s) then (SOk, s1')
                               else reorg (reorg_fuel s1' (h_number hd)) (cur_block s) (to_s b) s1' in
                      match r with
                      | (SOk, s0) =>
                        (SOk, bc_insert (to_s b)
                           (emit (Batch (([(KBody h, Some (VTxs txs)); (KHashNum h, Some (VNum (h_number hd))); (KHeader h, Some (VHeader hd))]
                               ++ [(KReceipts h, Some (VTxs txs))])
                               ++ map (fun kv : key * value => (fst kv, Some (snd kv))) (lookup_puts h (h_number hd) 0 txs))) s0))
                      | other => other
                      end))).
  { intros s1' Ed Ec. cbv zeta.
    (* common tail: batch + insert on a state whose core records are those of s1 *)
    assert (Tail : forall s3, same_core (dsk s1) (dsk s3) ->
              let s5 := bc_insert (to_s b)
                           (emit (Batch (([(KBody h, Some (VTxs txs)); (KHashNum h, Some (VNum (h_number hd))); (KHeader h, Some (VHeader hd))]
                               ++ [(KReceipts h, Some (VTxs txs))])
                               ++ map (fun kv : key * value => (fst kv, Some (snd kv))) (lookup_puts h (h_number hd) 0 txs))) s3) in
              (forall k x, header_of (dsk s1) k = Some x -> header_of (dsk s5) k = Some x) /\
              header_of (dsk s5) (s_hash (to_s b)) = Some (fst (to_s b)) /\
              (forall m, canon (dsk s5) m = if m =? s_num (to_s b) then s_hash (to_s b) else canon (dsk s3) m)).
    { intros s3 H3 s5.
      set (s4 := emit (Batch (([(KBody h, Some (VTxs txs)); (KHashNum h, Some (VNum (h_number hd))); (KHeader h, Some (VHeader hd))]
                               ++ [(KReceipts h, Some (VTxs txs))])
                               ++ map (fun kv : key * value => (fst kv, Some (snd kv))) (lookup_puts h (h_number hd) 0 txs))) s3) in *.
      assert (E4 : same_core (d_block (dsk s3) hd txs) (dsk s4)).
      { unfold s4. cbn [dsk emit apply_wop]. rewrite fold_left_app.
        apply fold_bop_lookups_core. intros kv Hkv. eapply lookup_puts_noncore; exact Hkv. }
      assert (E5 : same_core (d_block (dsk s3) hd txs) (dsk s5))
        by (eapply same_core_trans; [exact E4|apply bc_insert_core]).
      split; [|split].
      - intros k x Hk. rewrite (sc_header _ _ _ E5). apply (Hhdr _ H3). exact Hk.
      - rewrite (sc_header _ _ _ E5). destruct (d_block_reads (dsk s3) hd txs) as (Rh & _). rewrite Rh.
        change (s_hash (to_s b)) with (h_hash hd). destruct (N.eq_dec (h_hash hd) (h_hash hd)); [reflexivity|congruence].
      - intro m. unfold s5. rewrite bc_insert_canon. destruct (m =? s_num (to_s b)); [reflexivity|].
        unfold s4. cbn [dsk emit apply_wop]. apply main_batch_canon. }
    destruct (h_parent hd =? s_hash (cur_block s)) eqn:Epar.
    - (* the block extends the head *)
      cbn [snd]. destruct (Tail s1') as (T1 & T2 & T3); [rewrite Ed; apply same_core_refl|].
      unfold CC. rewrite bc_insert_cur.
      assert (Epar' : h_parent hd = s_hash (cur_block s)) by lia.
      assert (Enum : s_num (to_s b) = s_num (cur_block s) + 1).
      { change (s_num (to_s b)) with (h_number hd). rewrite Hnum. fold hd. rewrite Epar'.
        destruct (d_cons_h _ _ _ I1 _ _ Hcurh) as [Ef _]. unfold s_num. rewrite Ef. reflexivity. }
      apply cc_finish with (d := dsk s1) (l := [to_s b]) (y := cur_block s).
      + eapply path_cons; [| | |apply path_nil].
        * change (s_parent (to_s b)) with (h_parent hd). rewrite Epar'. exact Hcur1.
        * change (s_parent (to_s b)) with (h_parent hd). symmetry. exact Epar'.
        * exact Enum.
      + exact P1.
      + exact T1.
      + exact T2.
      + intros z [<-|[]]. rewrite T3. assert (E : (s_num (to_s b) =? s_num (to_s b)) = true) by lia. rewrite E. reflexivity.
      + intros m Hm. rewrite T3. assert (E : (m =? s_num (to_s b)) = false) by lia. rewrite E, Ed. reflexivity.
    - (* reorganisation *)
      assert (Go : grounded g (dsk s1') (cur_block s)).
      { rewrite Ed. eapply (stored_grounded U g g0 _ I1); [exact Hcur1|reflexivity]. }
      assert (Gn : grounded g (dsk s1') (to_s b)).
      { rewrite Ed.
        assert (Hp1 : header_of (dsk s1) (h_parent hd) <> None) by (rewrite Eh; exact Hp).
        pose proof (hdr_body U g _ _ I1 Hp1) as Hpb.
        destruct (header_of (dsk s1) (h_parent hd)) as [ph|] eqn:Eph; [|congruence].
        destruct (body_of (dsk s1) (h_parent hd)) as [pl|] eqn:Epb; [|congruence].
        destruct (d_cons_h _ _ _ I1 _ _ Eph) as [Ephd _].
        assert (Hblk : block_of (dsk s1) (h_parent hd) = Some (ph, pl)) by (unfold block_of; rewrite Eph, Epb; reflexivity).
        apply gr_step with (p := (ph, pl)).
        * exact Hblk.
        * unfold s_num, to_s; cbn [fst]. fold hd. rewrite Ephd. exact Hnum.
        * eapply (stored_grounded U g g0 _ I1); [exact Hblk|reflexivity]. }
      assert (I1' : InvD U g (dsk s1')) by (rewrite Ed; exact I1).
      destruct (reorg_canon U g (reorg_fuel s1' (h_number hd)) (cur_block s) (to_s b) s1' I1' Go Gn)
        as (Hok & lo & ln & ao & an & Po & Pn & Ehh & Enn & Cz & Cm & _).
      { unfold reorg_fuel. rewrite Ec, Ec1. change (s_num (to_s b)) with (h_number hd). lia. }
      pose proof (reorg_core (reorg_fuel s1' (h_number hd)) (cur_block s) (to_s b) s1') as H3.
      rewrite (surjective_pairing (reorg (reorg_fuel s1' (h_number hd)) (cur_block s) (to_s b) s1')), Hok.
      set (s3 := snd (reorg (reorg_fuel s1' (h_number hd)) (cur_block s) (to_s b) s1')) in *.
      cbn [snd]. rewrite Ed in H3, Po, Pn, Cm.
      destruct (Tail s3 H3) as (T1 & T2 & T3).
      unfold CC. rewrite bc_insert_cur.
      assert (Ca : cc (dsk s1) (s_num an) (s_hash an)).
      { rewrite <- Enn, <- Ehh. eapply cc_path_down; [exact Po|exact Hcurh|exact P1]. }
      assert (Cb : canon (dsk s3) (s_num (to_s b)) = s_hash (to_s b)).
      { destruct ln as [|z ln'].
        - inversion Pn as [x Ex1 Ex2 Ex3|]; subst x. rewrite <- Ex3 in Ca.
          rewrite Cm by (intros z []). apply (cc_top _ _ _ Ca).
        - inversion Pn as [|x p l y Hp' Hh' Hn' Pn' Ex1 Ex2 Ex3]; subst. apply Cz. left; reflexivity. }
      assert (C5 : forall m, canon (dsk (bc_insert (to_s b)
                           (emit (Batch (([(KBody h, Some (VTxs txs)); (KHashNum h, Some (VNum (h_number hd))); (KHeader h, Some (VHeader hd))]
                               ++ [(KReceipts h, Some (VTxs txs))])
                               ++ map (fun kv : key * value => (fst kv, Some (snd kv))) (lookup_puts h (h_number hd) 0 txs))) s3))) m
                           = canon (dsk s3) m).
      { intro m. rewrite T3. destruct (m =? s_num (to_s b)) eqn:E; [|reflexivity].
        assert (m = s_num (to_s b)) by lia. subst m. symmetry. exact Cb. }
      apply cc_finish with (d := dsk s1) (l := ln) (y := an).
      + exact Pn.
      + exact Ca.
      + exact T1.
      + exact T2.
      + intros z Hz. rewrite C5. apply Cz. exact Hz.
      + intros m Hm. rewrite C5. apply Cm. intros z Hz E.
        destruct (path_bounds _ _ _ _ Pn) as [_ B]. destruct (B z Hz). lia. }
  destruct (ltd <? ext).
  { apply (Hmain s1); reflexivity. }
  destruct (ext =? ltd).
  2:{ cbn [snd]. apply (Hside s1); reflexivity. }
  destruct (h_number hd <? s_num (cur_block s)).
  { apply (Hmain s1); reflexivity. }
  destruct (h_number hd =? s_num (cur_block s)).
  2:{ cbn [snd]. apply (Hside s1); reflexivity. }
  destruct (coins s1) as [|c rest] eqn:Ecs; [exact P1|].
  destruct c.
  - apply (Hmain (set_coins rest s1)); reflexivity.
  - cbn [snd]. apply (Hside (set_coins rest s1)); reflexivity.
Qed.

Lemma wbws_ls : forall b s, Inv U g s -> wf_block U b -> header_of (dsk s) (h_parent (b_hdr b)) <> None ->
  CC s -> LS s -> LS (snd (write_block_with_state b s)).
Proof.
  intros b s I [HU Hnum] Hp P L.
  pose proof (hdr_td U g _ _ (inv_d _ _ _ I) Hp) as Hptd.
  set (hd := b_hdr b) in *. set (txs := b_txs b) in *. set (h := h_hash hd) in *.
  assert (HU' : (hd, txs) = U (h_hash hd)) by exact HU.
  assert (Hfst : fst (U (h_hash hd)) = hd) by (rewrite <- HU'; reflexivity).
  assert (Hsnd : snd (U (h_hash hd)) = txs) by (rewrite <- HU'; reflexivity).
  assert (Ne : h <> h_hash g).
  { intro E. unfold h in E. rewrite E, Ug in HU'. injection HU' as Ehd _. rewrite Ehd in Hnum. lia. }
  unfold write_block_with_state. fold hd. fold h. fold txs.
  destruct (td_of (dsk s) (h_parent hd)) as [ptd|] eqn:Eptd; [|congruence].
  cbv zeta. set (ext := h_diff hd + ptd).
  set (s1 := emit (Put (KState (h_root hd)) VUnit) (emit (Put (KTd h) (VNum ext)) s)).
  assert (Ed1 : dsk s1 = d_td_state (dsk s) h ext (h_root hd)) by reflexivity.
  assert (Ec1 : cur_block s1 = cur_block s) by reflexivity.
  destruct (invD_td_state U g g0 (dsk s) h hd txs ptd (inv_d _ _ _ I) HU' Ne Eptd) as (I1 & Eh & Eb & _).
  fold ext in I1, Eh, Eb. rewrite <- Ed1 in I1, Eh, Eb.
  assert (Eblk : forall k, block_of (dsk s1) k = block_of (dsk s) k) by (intro k; unfold block_of; rewrite Eh, Eb; reflexivity).
  assert (Ecn1 : forall m, canon (dsk s1) m = canon (dsk s) m).
  { intro m. unfold s1. cbn [dsk emit apply_wop]. rewrite !cn_put_other by (intro; discriminate). reflexivity. }
  assert (Elk1 : forall t, lookup_of (dsk s1) t = lookup_of (dsk s) t).
  { intro t. unfold s1. cbn [dsk emit apply_wop]. rewrite !lk_put_other by (intro; discriminate). reflexivity. }
  assert (P1 : cc (dsk s1) (s_num (cur_block s)) (s_hash (cur_block s))).
  { eapply cc_frame; [exact P| |intros; apply Ecn1]. intros k x Hk. rewrite Eh. exact Hk. }
  assert (L1 : LSd (dsk s1) (s_num (cur_block s))).
  { eapply LSd_frame; [exact L|exact Elk1|exact Ecn1|]. intros k l Hk. rewrite Eb. exact Hk. }
  assert (Hcur1 : block_of (dsk s1) (s_hash (cur_block s)) = Some (cur_block s)) by (rewrite Eblk; apply (inv_cur _ _ _ I)).
  assert (Hcurh : header_of (dsk s1) (s_hash (cur_block s)) = Some (fst (cur_block s))) by (apply block_of_header; exact Hcur1).
  (* stored bodies survive the block records of the batch *)
  assert (Hbody : forall d3, same_core (dsk s1) d3 -> forall k l, body_of (dsk s1) k = Some l -> body_of (d_block d3 hd txs) k = Some l).
  { intros d3 H3 k l Hk. destruct (d_block_reads d3 hd txs) as (_ & Rb & _). rewrite Rb, (sc_body _ _ _ H3).
    destruct (N.eq_dec k (h_hash hd)) as [->|]; [|exact Hk].
    destruct (d_cons_b _ _ _ I1 _ _ Hk) as [-> _]. rewrite Hsnd. reflexivity. }
  destruct (td_of (dsk s) (s_hash (cur_block s))) as [ltd|]; [|exact L1].
  assert (Hside : forall s1', dsk s1' = dsk s1 -> cur_block s1' = cur_block s1 ->
            LS (emit (Batch ([(KBody h, Some (VTxs txs)); (KHashNum h, Some (VNum (h_number hd))); (KHeader h, Some (VHeader hd))]
                               ++ [(KReceipts h, Some (VTxs txs))])) s1')).
  { intros s1' Ed Ec. unfold LS. cbn [cur_block emit]. rewrite Ec, Ec1.
    eapply LSd_frame; [exact L1| | |].
    - intro t. cbn [dsk emit apply_wop]. rewrite side_batch_lookup, Ed. reflexivity.
    - intro m. cbn [dsk emit apply_wop]. rewrite side_batch_canon, Ed. reflexivity.
    - cbn [dsk emit apply_wop]. rewrite Ed. apply (Hbody _ (same_core_refl _)). }
  assert (Hmain : forall s1', dsk s1' = dsk s1 -> cur_block s1' = cur_block s1 ->
            LS (snd (let r := if h_parent hd =? s_hash (cur_block s) then (SOk, s1')
                               else reorg (reorg_fuel s1' (h_number hd)) (cur_block s) (to_s b) s1' in
                      match r with
                      | (SOk, s0) =>
                        (SOk, bc_insert (to_s b)
                           (emit (Batch (([(KBody h, Some (VTxs txs)); (KHashNum h, Some (VNum (h_number hd))); (KHeader h, Some (VHeader hd))]
                               ++ [(KReceipts h, Some (VTxs txs))])
                               ++ map (fun kv : key * value => (fst kv, Some (snd kv))) (lookup_puts h (h_number hd) 0 txs))) s0))
                      | other => other
                      end))).
  { intros s1' Ed Ec. cbv zeta.
    assert (Tail : forall s3, same_core (dsk s1) (dsk s3) ->
              let s5 := bc_insert (to_s b)
                           (emit (Batch (([(KBody h, Some (VTxs txs)); (KHashNum h, Some (VNum (h_number hd))); (KHeader h, Some (VHeader hd))]
                               ++ [(KReceipts h, Some (VTxs txs))])
                               ++ map (fun kv : key * value => (fst kv, Some (snd kv))) (lookup_puts h (h_number hd) 0 txs))) s3) in
              (forall m, canon (dsk s5) m = if m =? s_num (to_s b) then s_hash (to_s b) else canon (dsk s3) m) /\
              (forall k l, body_of (dsk s1) k = Some l -> body_of (dsk s5) k = Some l) /\
              body_of (dsk s5) h = Some txs /\
              ((forall t h' n i, lookup_of (dsk s3) t = Some (h', n, i) ->
                  n <= s_num (to_s b) /\ canon (dsk s5) n = h' /\
                  exists l, body_of (dsk s5) h' = Some l /\ nth_error l (N.to_nat i) = Some t) ->
               LSd (dsk s5) (s_num (to_s b)))).
    { intros s3 H3 s5.
      set (s4 := emit (Batch (([(KBody h, Some (VTxs txs)); (KHashNum h, Some (VNum (h_number hd))); (KHeader h, Some (VHeader hd))]
                               ++ [(KReceipts h, Some (VTxs txs))])
                               ++ map (fun kv : key * value => (fst kv, Some (snd kv))) (lookup_puts h (h_number hd) 0 txs))) s3) in *.
      assert (E4 : same_core (d_block (dsk s3) hd txs) (dsk s4)).
      { unfold s4. cbn [dsk emit apply_wop]. rewrite fold_left_app.
        apply fold_bop_lookups_core. intros kv Hkv. eapply lookup_puts_noncore; exact Hkv. }
      assert (E5 : same_core (d_block (dsk s3) hd txs) (dsk s5))
        by (eapply same_core_trans; [exact E4|apply bc_insert_core]).
      assert (T3 : forall m, canon (dsk s5) m = if m =? s_num (to_s b) then s_hash (to_s b) else canon (dsk s3) m).
      { intro m. unfold s5. rewrite bc_insert_canon. destruct (m =? s_num (to_s b)); [reflexivity|].
        unfold s4. cbn [dsk emit apply_wop]. apply main_batch_canon. }
      assert (T6 : body_of (dsk s5) h = Some txs).
      { rewrite (sc_body _ _ _ E5). destruct (d_block_reads (dsk s3) hd txs) as (_ & Rb & _). rewrite Rb.
        unfold h. destruct (N.eq_dec (h_hash hd) (h_hash hd)); [reflexivity|congruence]. }
      split; [exact T3|split; [|split; [exact T6|]]].
      - intros k l Hk. rewrite (sc_body _ _ _ E5). apply (Hbody _ H3). exact Hk.
      - intros Q t h' n i H.
        unfold s5 in H. rewrite bc_insert_lookup in H. unfold s4 in H. cbn [dsk emit apply_wop] in H.
        rewrite fold_left_app, fold_bop_put_all in H. apply lookup_puts_spec in H.
        destruct H as [[H _]|(j & E & Hj)].
        + rewrite side_batch_lookup in H. apply Q. exact H.
        + injection E as -> -> ->. split; [change (s_num (to_s b)) with (h_number hd); lia|split].
          * rewrite T3. change (s_num (to_s b)) with (h_number hd). rewrite N.eqb_refl. reflexivity.
          * exists txs. split; [exact T6|]. rewrite Nat2N.id. exact Hj. }
    destruct (h_parent hd =? s_hash (cur_block s)) eqn:Epar.
    - (* the block extends the head *)
      cbn [snd]. destruct (Tail s1') as (T3 & T5 & T6 & Close); [rewrite Ed; apply same_core_refl|].
      unfold LS. rewrite bc_insert_cur.
      assert (Epar' : h_parent hd = s_hash (cur_block s)) by lia.
      assert (Enum : s_num (to_s b) = s_num (cur_block s) + 1).
      { change (s_num (to_s b)) with (h_number hd). rewrite Hnum. fold hd. rewrite Epar'.
        destruct (d_cons_h _ _ _ I1 _ _ Hcurh) as [Ef _]. unfold s_num. rewrite Ef. reflexivity. }
      apply Close. intros t h' n i H. rewrite Ed in H.
      destruct (L1 _ _ _ _ H) as (A & B & l & C & D).
      split; [lia|split].
      + rewrite T3. assert (E : (n =? s_num (to_s b)) = false) by lia. rewrite E, Ed. exact B.
      + exists l. split; [apply T5; exact C|exact D].
    - (* reorganisation *)
      assert (Go : grounded g (dsk s1') (cur_block s)).
      { rewrite Ed. eapply (stored_grounded U g g0 _ I1); [exact Hcur1|reflexivity]. }
      assert (Gn : grounded g (dsk s1') (to_s b)).
      { rewrite Ed.
        assert (Hp1 : header_of (dsk s1) (h_parent hd) <> None) by (rewrite Eh; exact Hp).
        pose proof (hdr_body U g _ _ I1 Hp1) as Hpb.
        destruct (header_of (dsk s1) (h_parent hd)) as [ph|] eqn:Eph; [|congruence].
        destruct (body_of (dsk s1) (h_parent hd)) as [pl|] eqn:Epb; [|congruence].
        destruct (d_cons_h _ _ _ I1 _ _ Eph) as [Ephd _].
        assert (Hblk : block_of (dsk s1) (h_parent hd) = Some (ph, pl)) by (unfold block_of; rewrite Eph, Epb; reflexivity).
        apply gr_step with (p := (ph, pl)).
        * exact Hblk.
        * unfold s_num, to_s; cbn [fst]. fold hd. rewrite Ephd. exact Hnum.
        * eapply (stored_grounded U g g0 _ I1); [exact Hblk|reflexivity]. }
      assert (I1' : InvD U g (dsk s1')) by (rewrite Ed; exact I1).
      destruct (reorg_canon U g (reorg_fuel s1' (h_number hd)) (cur_block s) (to_s b) s1' I1' Go Gn)
        as (Hok & lo & ln & ao & an & Po & Pn & Ehh & Enn & Cz & Cm & Lk).
      { unfold reorg_fuel. rewrite Ec, Ec1. change (s_num (to_s b)) with (h_number hd). lia. }
      pose proof (reorg_core (reorg_fuel s1' (h_number hd)) (cur_block s) (to_s b) s1') as H3.
      rewrite (surjective_pairing (reorg (reorg_fuel s1' (h_number hd)) (cur_block s) (to_s b) s1')), Hok.
      set (s3 := snd (reorg (reorg_fuel s1' (h_number hd)) (cur_block s) (to_s b) s1')) in *.
      cbn [snd]. rewrite Ed in H3, Po, Pn, Cm, Lk.
      destruct (Tail s3 H3) as (T3 & T5 & T6 & Close).
      unfold LS. rewrite bc_insert_cur.
      assert (Ca : cc (dsk s1) (s_num an) (s_hash an)).
      { rewrite <- Enn, <- Ehh. eapply cc_path_down; [exact Po|exact Hcurh|exact P1]. }
      assert (Cb : canon (dsk s3) (s_num (to_s b)) = s_hash (to_s b)).
      { destruct ln as [|z ln'].
        - inversion Pn as [x Ex1 Ex2 Ex3|]; subst x. rewrite <- Ex3 in Ca.
          rewrite Cm by (intros z []). apply (cc_top _ _ _ Ca).
        - inversion Pn as [|x p l y Hp' Hh' Hn' Pn' Ex1 Ex2 Ex3]; subst. apply Cz. left; reflexivity. }
      assert (C5 : forall m, canon (dsk (bc_insert (to_s b)
                           (emit (Batch (([(KBody h, Some (VTxs txs)); (KHashNum h, Some (VNum (h_number hd))); (KHeader h, Some (VHeader hd))]
                               ++ [(KReceipts h, Some (VTxs txs))])
                               ++ map (fun kv : key * value => (fst kv, Some (snd kv))) (lookup_puts h (h_number hd) 0 txs))) s3))) m
                           = canon (dsk s3) m).
      { intro m. rewrite T3. destruct (m =? s_num (to_s b)) eqn:E; [|reflexivity].
        assert (m = s_num (to_s b)) by lia. subst m. symmetry. exact Cb. }
      destruct (path_bounds _ _ _ _ Pn) as [Bn1 Bn2].
      apply Close. intros t h' n i H.
      destruct (Lk _ _ H) as [(z & j & Hz & E & Hj)|[H1 Hnl]].
      + (* an entry written for a block of the new branch *)
        injection E as -> -> ->. destruct (Bn2 z Hz) as [Bz1 Bz2].
        split; [exact Bz2|split; [rewrite C5; apply Cz; exact Hz|]].
        rewrite Nat2N.id. exists (s_txs z). split; [|exact Hj].
        destruct ln as [|z0 ln']; [contradiction|].
        inversion Pn as [|x p l y Hp' Hh' Hn' Pn' Ex1 Ex2 Ex3]; subst.
        destruct Hz as [<-|Hz]; [exact T6|].
        apply T5. apply block_of_body.
        apply (path_stored _ _ _ _ Pn'); [rewrite Hh'; exact Hp'|exact Hz].
      + (* an older entry that survived: it sits at or below the common ancestor *)
        destruct (L1 _ _ _ _ H1) as (A & B & l & C & D).
        assert (Hle : n <= s_num ao).
        { destruct (N.le_gt_cases n (s_num ao)) as [Hle|Hgt]; [exact Hle|exfalso].
          destruct (cc_path_member _ _ _ _ Po Hcurh P1 n Hgt A) as (z & Hz & Ez1 & Ez2).
          pose proof (path_stored _ _ _ _ Po Hcur1 z Hz) as Hzb.
          apply block_of_body in Hzb. rewrite Ez2, B, C in Hzb. injection Hzb as ->.
          apply Hnl. apply in_flat_map. exists z. split; [exact Hz|]. eapply nth_error_In. exact D. }
        split; [lia|split].
        * rewrite C5, Cm; [exact B|]. intros z Hz Ez. destruct (Bn2 z Hz). lia.
        * exists l. split; [apply T5; exact C|exact D]. }
  destruct (ltd <? ext).
  { apply (Hmain s1); reflexivity. }
  destruct (ext =? ltd).
  2:{ cbn [snd]. apply (Hside s1); reflexivity. }
  destruct (h_number hd <? s_num (cur_block s)).
  { apply (Hmain s1); reflexivity. }
  destruct (h_number hd =? s_num (cur_block s)).
  2:{ cbn [snd]. apply (Hside s1); reflexivity. }
  destruct (coins s1) as [|c rest] eqn:Ecs; [exact L1|].
  destruct c.
  - apply (Hmain (set_coins rest s1)); reflexivity.
  - cbn [snd]. apply (Hside (set_coins rest s1)); reflexivity.
Qed.

End Step.

(* ---------------------------------------------------------------- receipts come with headers *)

Definition HR (d : disk) : Prop := forall h, header_of d h <> None -> receipts_of d h <> None.

Lemma sc_receipts : forall d d' h, same_core d d' -> receipts_of d' h = receipts_of d h.
Proof. intros d d' h H. unfold receipts_of. rewrite (H (KReceipts h)); reflexivity. Qed.

Lemma HR_core : forall d d', same_core d d' -> HR d -> HR d'.
Proof. intros d d' H R h Hh. rewrite (sc_header _ _ _ H) in Hh. rewrite (sc_receipts _ _ _ H). apply R. exact Hh. Qed.

Lemma receipts_of_put_other : forall d k v h, (forall x, k <> KReceipts x) -> receipts_of (put k v d) h = receipts_of d h.
Proof.
  intros d k v h H. unfold receipts_of. rewrite get_put.
  destruct (key_eq_dec (KReceipts h) k) as [E|]; [exfalso; apply (H h); symmetry; exact E|reflexivity].
Qed.

Lemma HR_td_state : forall d h ext r, HR d -> HR (d_td_state d h ext r).
Proof.
  intros d h ext r R k Hk. unfold d_td_state in *. rewrite !header_of_put in Hk.
  rewrite !receipts_of_put_other by (intro; discriminate). apply R. exact Hk.
Qed.

Lemma HR_d_block : forall d hd txs, HR d -> HR (d_block d hd txs).
Proof.
  intros d hd txs R k Hk. destruct (d_block_reads d hd txs) as (Rh & _). rewrite Rh in Hk.
  unfold d_block. unfold receipts_of. rewrite get_put.
  destruct (key_eq_dec (KReceipts k) (KReceipts (h_hash hd))) as [E|Ne]; [discriminate|].
  fold (receipts_of (put (KHeader (h_hash hd)) (VHeader hd)
          (put (KHashNum (h_hash hd)) (VNum (h_number hd)) (put (KBody (h_hash hd)) (VTxs txs) d))) k).
  rewrite !receipts_of_put_other by (intro; discriminate).
  destruct (N.eq_dec k (h_hash hd)) as [->|]; [congruence|]. apply R. exact Hk.
Qed.

Lemma wbws_hr : forall b s, HR (dsk s) -> HR (dsk (snd (write_block_with_state b s))).
Proof.
  intros b s P. unfold write_block_with_state.
  set (hd := b_hdr b). set (txs := b_txs b). set (h := h_hash hd).
  destruct (td_of (dsk s) (h_parent hd)) as [ptd|]; [|exact P].
  cbv zeta. set (ext := h_diff hd + ptd).
  set (s1 := emit (Put (KState (h_root hd)) VUnit) (emit (Put (KTd h) (VNum ext)) s)).
  assert (P1 : HR (dsk s1)) by (apply (HR_td_state (dsk s) h ext (h_root hd)); exact P).
  destruct (td_of (dsk s) (s_hash (cur_block s))) as [ltd|]; [|exact P1].
  assert (Hside : forall s1', dsk s1' = dsk s1 ->
            HR (dsk (emit (Batch ([(KBody h, Some (VTxs txs)); (KHashNum h, Some (VNum (h_number hd))); (KHeader h, Some (VHeader hd))]
                               ++ [(KReceipts h, Some (VTxs txs))])) s1'))).
  { intros s1' Ed. cbn [dsk emit apply_wop app fold_left]. rewrite Ed. apply (HR_d_block (dsk s1) hd txs P1). }
  assert (Hmain : forall s1', dsk s1' = dsk s1 ->
            HR (dsk (snd (let r := if h_parent hd =? s_hash (cur_block s) then (SOk, s1')
                               else reorg (reorg_fuel s1' (h_number hd)) (cur_block s) (to_s b) s1' in
                      match r with
                      | (SOk, s0) =>
                        (SOk, bc_insert (to_s b)
                           (emit (Batch (([(KBody h, Some (VTxs txs)); (KHashNum h, Some (VNum (h_number hd))); (KHeader h, Some (VHeader hd))]
                               ++ [(KReceipts h, Some (VTxs txs))])
                               ++ map (fun kv : key * value => (fst kv, Some (snd kv))) (lookup_puts h (h_number hd) 0 txs))) s0))
                      | other => other
                      end)))).
  { intros s1' Ed. cbv zeta.
    set (r := if h_parent hd =? s_hash (cur_block s) then (SOk, s1')
              else reorg (reorg_fuel s1' (h_number hd)) (cur_block s) (to_s b) s1').
    assert (Hr : same_core (dsk s1) (dsk (snd r))).
    { unfold r. destruct (h_parent hd =? s_hash (cur_block s)); [cbn [snd]; rewrite Ed; apply same_core_refl|rewrite <- Ed; apply reorg_core]. }
    destruct r as [e s3]. cbn [snd] in Hr.
    pose proof (HR_core _ _ Hr P1) as P3.
    destruct e; cbn [snd]; try exact P3.
    eapply HR_core; [apply bc_insert_core|].
    cbn [dsk emit apply_wop]. rewrite fold_left_app.
    eapply HR_core; [apply fold_bop_lookups_core; intros kv Hkv; eapply lookup_puts_noncore; exact Hkv|].
    apply (HR_d_block (dsk s3) hd txs P3). }
  destruct (ltd <? ext).
  { apply (Hmain s1); reflexivity. }
  destruct (ext =? ltd).
  2:{ cbn [snd]. apply (Hside s1); reflexivity. }
  destruct (h_number hd <? s_num (cur_block s)).
  { apply (Hmain s1); reflexivity. }
  destruct (h_number hd =? s_num (cur_block s)).
  2:{ cbn [snd]. apply (Hside s1); reflexivity. }
  destruct (coins s1) as [|c rest] eqn:Ecs; [exact P1|].
  destruct c.
  - apply (Hmain (set_coins rest s1)); reflexivity.
  - cbn [snd]. apply (Hside (set_coins rest s1)); reflexivity.
Qed.

Lemma cc_stored : forall d n h, cc d n h -> forall k, k <= n -> header_of d (canon d k) <> None.
Proof.
  intros d n h C. induction C as [h x Hh Hn Hc|n m h x Hh Hn Hc Hm C IH]; intros k Hk.
  - assert (k = 0) by lia. subst k. rewrite Hc, Hh. discriminate.
  - destruct (N.eq_dec k n) as [->|Nk]; [rewrite Hc, Hh; discriminate|apply IH; lia].
Qed.

(* ---------------------------------------------------------------- InsertChain and histories *)

Section Hist.
Variable U : N -> sblock.
Variable g : header.
Hypothesis Ug : U (h_hash g) = (g, []).
Hypothesis g0 : h_number g = 0.

(* the store invariant together with the canonical chain of the head *)
Definition K (s : st) : Prop := Inv U g s /\ CC s /\ HR (dsk s) /\ LS s.

Lemma wbws_K : forall b s, K s -> wf_block U b -> header_of (dsk s) (h_parent (b_hdr b)) <> None ->
  K (snd (write_block_with_state b s)).
Proof.
  intros b s (I & C & R & L) W Hp. split; [|split; [|split]].
  - apply (wbws_full U g Ug g0 b s I W Hp).
  - apply (wbws_cc U g Ug g0 b s I W Hp C).
  - apply wbws_hr. exact R.
  - apply (wbws_ls U g Ug g0 b s I W Hp C L).
Qed.

Lemma ic_process_K : forall prev idx b s cont,
  K s -> wf_block U b -> header_of (dsk s) (h_parent (b_hdr b)) <> None ->
  (forall s', K s' -> K (snd (cont s'))) ->
  K (snd (ic_process prev idx b s cont)).
Proof.
  intros prev idx b s cont Ks W Hp Hc. unfold ic_process.
  destruct (match prev with Some p => Some (h_root (b_hdr p)) | None => option_map s_root (block_of (dsk s) (h_parent (b_hdr b))) end); [|exact Ks].
  destruct (negb (has_state (dsk s) n)); [exact Ks|].
  destruct (negb (b_valid b)); [exact Ks|].
  pose proof (wbws_K b s Ks W Hp) as Hw.
  destruct (write_block_with_state b s) as [e s']. cbn [snd] in Hw.
  destruct e; try exact Hw. apply Hc. exact Hw.
Qed.

Lemma ic_loop_K : forall chain prev idx s,
  K s -> (forall b, In b chain -> wf_block U b) -> K (snd (ic_loop prev idx chain s)).
Proof.
  induction chain as [|b rest IH]; intros prev idx s Ks W; [exact Ks|].
  assert (Wb : wf_block U b) by (apply W; left; reflexivity).
  assert (Wr : forall b', In b' rest -> wf_block U b') by (intros; apply W; right; assumption).
  assert (Hcont : forall s', K s' -> K (snd (ic_loop (Some b) (idx + 1) rest s'))) by (intros s' Ks'; apply IH; assumption).
  pose proof (proj1 Ks) as I.
  rewrite ic_loop_cons. unfold validate_body.
  destruct (has_block_and_state (dsk s) (h_hash (b_hdr b))) eqn:Ek.
  - destruct (h_number (b_hdr b) <=? s_num (cur_block s)); [apply Hcont; exact Ks|].
    apply ic_process_K; auto.
    destruct (has_bas_header _ _ Ek) as [Hh _].
    destruct Wb as [HU Hnum].
    assert (Hfst : fst (U (h_hash (b_hdr b))) = b_hdr b) by (rewrite <- HU; reflexivity).
    assert (Ne : h_hash (b_hdr b) <> h_hash g).
    { intro E. rewrite E, Ug in Hfst. cbn [fst] in Hfst. rewrite <- Hfst in Hnum. lia. }
    destruct (d_stored _ _ _ (inv_d _ _ _ I) _ Hh Ne) as (_ & _ & Hp & _).
    rewrite Hfst in Hp. exact Hp.
  - destruct (has_block_and_state (dsk s) (h_parent (b_hdr b))) eqn:Ep; cbn [negb].
    + apply ic_process_K; auto. apply (has_bas_header _ _ Ep).
    + destruct (has_block (dsk s) (h_parent (b_hdr b))) eqn:Eb; cbn [negb]; [|exact Ks].
      exfalso. unfold has_block in Eb.
      destruct (body_of (dsk s) (h_parent (b_hdr b))) as [l|] eqn:El; [|discriminate].
      destruct (d_cons_b _ _ _ (inv_d _ _ _ I) _ _ El) as [_ Hh].
      unfold has_block_and_state, block_of in Ep. rewrite El in Ep.
      destruct (header_of (dsk s) (h_parent (b_hdr b))) as [ph|] eqn:Eph; [|congruence].
      destruct (d_cons_h _ _ _ (inv_d _ _ _ I) _ _ Eph) as [Ephd _].
      unfold s_root in Ep; cbn [fst] in Ep.
      destruct (N.eq_dec (h_parent (b_hdr b)) (h_hash g)) as [Eg|Ng].
      * rewrite Eg, (d_gen_hdr _ _ _ (inv_d _ _ _ I)) in Eph. injection Eph as <-.
        rewrite (d_gen_state _ _ _ (inv_d _ _ _ I)) in Ep. discriminate.
      * assert (Hh2 : header_of (dsk s) (h_parent (b_hdr b)) <> None) by congruence.
        destruct (d_stored _ _ _ (inv_d _ _ _ I) _ Hh2 Ng) as (_ & Hs & _).
        rewrite <- Ephd in Hs. rewrite Hs in Ep. discriminate.
Qed.

Lemma insert_chain_K : forall chain cs s,
  K s -> (forall b, In b chain -> wf_block U b) -> K (snd (insert_chain chain cs s)).
Proof.
  intros chain cs s Ks W. unfold insert_chain. destruct chain as [|b r]; [exact Ks|].
  apply ic_loop_K.
  - destruct Ks as ([A B C] & D & E). split; [constructor; assumption|split; [exact D|exact E]].
  - intros x [<-|Hx]; [apply W; left; reflexivity|apply W; right; eapply cp_sub; exact Hx].
Qed.

Lemma run_K : forall ops s,
  inserts_only ops -> (forall b, In b (blocks_of ops) -> wf_block U b) -> K s -> K (run ops s).
Proof.
  induction ops as [|o ops IH]; intros s Hio W Ks; [exact Ks|].
  destruct (Hio o (or_introl eq_refl)) as (c & cs & ->).
  unfold run. cbn [fold_left]. fold (run ops (snd (step (OpInsert c cs) s))).
  assert (Estep : snd (step (OpInsert c cs) s) = snd (insert_chain c cs s)).
  { cbn [step]. destruct (insert_chain c cs s) as [[e i] s']. reflexivity. }
  rewrite Estep. apply IH.
  - intros o' Ho'. apply Hio. right. exact Ho'.
  - intros b Hb. apply W. unfold blocks_of. cbn [flat_map]. apply in_or_app. right. exact Hb.
  - apply insert_chain_K; [exact Ks|].
    intros b Hb. apply W. unfold blocks_of. cbn [flat_map blocks_of_op]. apply in_or_app. left. exact Hb.
Qed.

Lemma K_pre_open : K (pre_open g).
Proof.
  split; [apply (inv_pre_open U g Ug g0)|split; [|split]].
  - unfold CC. cbn [dsk pre_open cur_block]. unfold s_num, s_hash; cbn [fst]. rewrite g0.
    eapply cc_base with (x := g); [|exact g0|reflexivity].
    apply (d_gen_hdr _ _ _ (inv_d _ _ _ (inv_pre_open U g Ug g0))).
  - intros h Hh. cbn [dsk pre_open] in *. unfold genesis_disk, replay in *. cbn [fold_left apply_wop] in *.
    rewrite !header_of_put in Hh. destruct (N.eq_dec h (h_hash g)) as [->|]; [|exfalso; apply Hh; reflexivity].
    rewrite !receipts_of_put_other by (intro; discriminate).
    unfold receipts_of. rewrite get_put. destruct (key_eq_dec (KReceipts (h_hash g)) (KReceipts (h_hash g))); [discriminate|congruence].
  - intros t h n i H. exfalso. cbn [dsk pre_open] in H. unfold genesis_disk, replay in H. cbn [fold_left apply_wop] in H.
    rewrite !lk_put_other in H by (intro; discriminate). discriminate.
Qed.

Lemma K_data_present : forall s, K s -> canon_data_present s.
Proof.
  intros s (I & C & R & _) n Hn. cbv zeta.
  pose proof (cc_stored _ _ _ C n Hn) as Hh.
  split; [exact Hh|split; [|split]].
  - apply (hdr_body U g _ _ (inv_d _ _ _ I) Hh).
  - apply R. exact Hh.
  - apply (hdr_td U g _ _ (inv_d _ _ _ I) Hh).
Qed.

(* the chain below the head, as a chain: usable for further clauses *)
Theorem canon_chain_imports : forall ops,
  inserts_only ops -> (forall b, In b (blocks_of ops) -> wf_block U b) ->
  let s := run ops (pre_open g) in
  cc (dsk s) (s_num (cur_block s)) (s_hash (cur_block s)).
Proof. intros ops Hio W. apply (run_K ops (pre_open g) Hio W K_pre_open). Qed.

(* C03, clause canon_below, for import-only histories *)
Theorem canon_below_imports : forall ops,
  inserts_only ops -> (forall b, In b (blocks_of ops) -> wf_block U b) ->
  canon_below (run ops (pre_open g)).
Proof. intros ops Hio W. apply CC_canon_below. apply (canon_chain_imports ops Hio W). Qed.

(* C03, clause canon_data_present, for import-only histories *)
Theorem canon_data_present_imports : forall ops,
  inserts_only ops -> (forall b, In b (blocks_of ops) -> wf_block U b) ->
  canon_data_present (run ops (pre_open g)).
Proof. intros ops Hio W. apply K_data_present. apply (run_K ops (pre_open g) Hio W K_pre_open). Qed.

(* C03, clause lookup_exact, left to right, for import-only histories: every lookup entry
   names a canonical block at or below the head and the position of the transaction in its body *)
Theorem lookup_sound_imports : forall ops,
  inserts_only ops -> (forall b, In b (blocks_of ops) -> wf_block U b) ->
  let s := run ops (pre_open g) in
  forall t h n i, lookup_of (dsk s) t = Some (h, n, i) ->
    n <= s_num (cur_block s) /\ canon (dsk s) n = h /\
    exists l, body_of (dsk s) h = Some l /\ nth_error l (N.to_nat i) = Some t.
Proof. intros ops Hio W. apply (run_K ops (pre_open g) Hio W K_pre_open). Qed.

End Hist.

(* ---------------------------------------------------------------- close / reopen inside the history *)

Lemma reopen_dsk : forall s, dsk (snd (reopen s)) = dsk s \/ exists v, dsk (snd (reopen s)) = put KHeadHeader v (dsk s).
Proof.
  intro s. unfold reopen.
  destruct (header_of (dsk s) (canon (dsk s) 0)) as [gh|]; [|left; reflexivity].
  destruct (block_of (dsk s) (canon (dsk s) 0)) as [g'|]; [|left; reflexivity].
  unfold load_last_state. cbn [dsk set_cur_fast set_cur_block set_cur_header set_genesis set_coins].
  destruct (head_ptr (dsk s) KHeadBlock =? 0); [left; reflexivity|].
  destruct (block_by_hash (dsk s) (head_ptr (dsk s) KHeadBlock)) as [cb|]; [|left; reflexivity].
  destruct (negb (has_state (dsk s) (s_root cb))); [left; reflexivity|].
  right. eexists. reflexivity.
Qed.

Section Reopen.
Variable U : N -> sblock.
Variable g : header.
Hypothesis Ug : U (h_hash g) = (g, []).
Hypothesis g0 : h_number g = 0.
Variable d0 : disk.

Lemma run_K_reopen : forall ops s,
  imports_and_reopens ops -> (forall b, In b (blocks_of ops) -> wf_block U b /\ h_hash (b_hdr b) <> 0) ->
  J U g d0 s -> K U g s -> K U g (run ops s).
Proof.
  induction ops as [|o ops IH]; intros s Hio W Js C; [exact C|].
  assert (Hio' : imports_and_reopens ops) by (intros o' Ho'; apply Hio; right; exact Ho').
  assert (Wo : forall b, In b (blocks_of [o]) -> wf_block U b /\ h_hash (b_hdr b) <> 0).
  { intros b Hb. apply W. unfold blocks_of in *. cbn [flat_map] in *. apply in_or_app. left. rewrite app_nil_r in Hb. exact Hb. }
  assert (W' : forall b, In b (blocks_of ops) -> wf_block U b /\ h_hash (b_hdr b) <> 0).
  { intros b Hb. apply W. unfold blocks_of in *. cbn [flat_map]. apply in_or_app. right. exact Hb. }
  destruct (run_J U g Ug g0 d0 [o] s) as (J1 & _ & _); [intros o' [<-|[]]; apply Hio; left; reflexivity|exact Wo|exact Js|].
  change (run (o :: ops) s) with (run ops (run [o] s)).
  apply IH; auto.
  unfold run. cbn [fold_left].
  destruct Js as (I & P & T).
  destruct (Hio o (or_introl eq_refl)) as [(c & cs & ->)| ->].
  - assert (Estep : snd (step (OpInsert c cs) s) = snd (insert_chain c cs s))
      by (cbn [step]; destruct (insert_chain c cs s) as [[e i] s']; reflexivity).
    rewrite Estep. apply (insert_chain_K U g Ug g0 c cs s C).
    intros b Hb. apply Wo. unfold blocks_of. cbn [flat_map blocks_of_op]. rewrite app_nil_r. exact Hb.
  - cbn [step]. destruct C as (_ & C & R & L).
    destruct (reopen_good U g g0 d0 s I P T) as (I' & _ & _ & _ & Eh & Ec & En).
    split; [exact I'|split; [|split]].
    + unfold CC. rewrite Ec. eapply cc_frame; [exact C| |intros; apply En].
      intros k x Hk. rewrite Eh. exact Hk.
    + intros h Hh. rewrite Eh in Hh.
      destruct (reopen_dsk s) as [E|[v E]]; rewrite E; [apply R; exact Hh|].
      rewrite receipts_of_put_other by (intro; discriminate). apply R. exact Hh.
    + unfold LS. rewrite Ec. eapply LSd_frame; [exact L| |exact En|].
      * intro t. destruct (reopen_dsk s) as [E|[v E]]; rewrite E; [reflexivity|]. apply lk_put_other. intro; discriminate.
      * intros k l Hk. destruct (reopen_dsk s) as [E|[v E]]; rewrite E; [exact Hk|]. rewrite body_of_put. exact Hk.
Qed.

Hypothesis gnz : h_hash g <> 0.
Hypothesis Ed0 : d0 = genesis_disk g.

(* C03, clause canon_below, for histories of imports and restarts *)
Theorem canon_below_with_reopen : forall ops,
  imports_and_reopens ops ->
  (forall b, In b (blocks_of ops) -> wf_block U b /\ h_hash (b_hdr b) <> 0) ->
  canon_below (run ops (pre_open g)).
Proof.
  intros ops Hio W. apply CC_canon_below.
  apply (run_K_reopen ops (pre_open g) Hio W (J_pre_open U g Ug g0 d0 gnz Ed0) (K_pre_open U g Ug g0)).
Qed.

(* C03, clause canon_data_present, for histories of imports and restarts *)
Theorem canon_data_present_with_reopen : forall ops,
  imports_and_reopens ops ->
  (forall b, In b (blocks_of ops) -> wf_block U b /\ h_hash (b_hdr b) <> 0) ->
  canon_data_present (run ops (pre_open g)).
Proof.
  intros ops Hio W.
  apply (K_data_present U g).
  apply (run_K_reopen ops (pre_open g) Hio W (J_pre_open U g Ug g0 d0 gnz Ed0) (K_pre_open U g Ug g0)).
Qed.

(* C03, clause lookup_exact, left to right, for histories of imports and restarts *)
Theorem lookup_sound_with_reopen : forall ops,
  imports_and_reopens ops ->
  (forall b, In b (blocks_of ops) -> wf_block U b /\ h_hash (b_hdr b) <> 0) ->
  let s := run ops (pre_open g) in
  forall t h n i, lookup_of (dsk s) t = Some (h, n, i) ->
    n <= s_num (cur_block s) /\ canon (dsk s) n = h /\
    exists l, body_of (dsk s) h = Some l /\ nth_error l (N.to_nat i) = Some t.
Proof.
  intros ops Hio W.
  apply (run_K_reopen ops (pre_open g) Hio W (J_pre_open U g Ug g0 d0 gnz Ed0) (K_pre_open U g Ug g0)).
Qed.

End Reopen.

Print Assumptions canon_below_imports.
Print Assumptions canon_data_present_imports.
Print Assumptions canon_below_with_reopen.
Print Assumptions canon_data_present_with_reopen.
Print Assumptions lookup_sound_imports.
Print Assumptions lookup_sound_with_reopen.
