(* Chain/Store.v — executable model of the chain database and of the fork
   choice / reorg / rewind code of core/blockchain.go, core/headerchain.go and
   core/database_util.go (shared by C02, C03 and C04).  Definitions only.

   Abstractions (all named in props/C02.json):
   * a hash is an [N]; 0 is common.Hash{}.  The harness maps real hashes,
     state roots and transaction hashes to small ids.  Records of the database
     whose real key is (number, hash) are keyed by hash only: the model assumes
     a hash determines its number (true of every block GenerateChain makes).
   * body+state validation (ValidateBody roots, Process, ValidateState) is the
     oracle field [b_valid] of the incoming block; header verification is the
     full-fake engine (accepts everything).
   * archive mode only (CacheConfig.Disabled): every processed block's state is
     committed (record [KState root], standing for the trie-node and preimage
     batches of trie.Database.Commit).  Pruning (triegc, lastWrite, gcproc) is
     not modelled; the branches that need it answer [SUnmodelled].
   * the LRU caches (header/td/number/block/body) are transparent; future
     blocks, BadHashes, procInterrupt and events are not modelled.
   EVERY database mutation goes through [emit], which applies the write to
   the disk and appends it to the write log, so disk = fold of the log. *)
From Coq Require Import NArith List Bool.
Import ListNotations.
Local Open Scope N_scope.

(* ---------------------------------------------------------------- data *)

Record header := mkH { h_hash : N; h_parent : N; h_number : N; h_diff : N; h_root : N }.
(* an incoming block: header, transaction ids, validation oracle *)
Record block := mkB { b_hdr : header; b_txs : list N; b_valid : bool }.
(* a block as read back from the database: header + body *)
Definition sblock : Type := header * list N.

Definition s_hash (b : sblock) := h_hash (fst b).
Definition s_parent (b : sblock) := h_parent (fst b).
Definition s_num (b : sblock) := h_number (fst b).
Definition s_root (b : sblock) := h_root (fst b).
Definition s_txs (b : sblock) : list N := snd b.
Definition to_s (b : block) : sblock := (b_hdr b, b_txs b).

(* core/database_util.go key schema *)
Inductive key :=
| KCanon (n : N)      (* "h" num "n"        -> hash      *)
| KHashNum (h : N)    (* "H" hash           -> num       *)
| KHeader (h : N)     (* "h" num hash       -> header    *)
| KBody (h : N)       (* "b" num hash       -> body      *)
| KReceipts (h : N)   (* "r" num hash       -> receipts  *)
| KTd (h : N)         (* "h" num hash "t"   -> td        *)
| KLookup (t : N)     (* "l" txhash         -> (block hash, number, index) *)
| KState (r : N)      (* trie nodes + preimages of state root r *)
| KHeadBlock          (* "LastBlock"  *)
| KHeadHeader         (* "LastHeader" *)
| KHeadFast.          (* "LastFast"   *)

Inductive value :=
| VHash (h : N) | VNum (n : N) | VHeader (hd : header) | VTxs (l : list N)
| VLookup (h n i : N) | VUnit.

(* one database write as the Go code issues it: a direct Put, a direct Delete,
   or the flush of a batch (Some v = Put, None = Delete inside the batch) *)
Inductive wop :=
| Put (k : key) (v : value)
| Del (k : key)
| Batch (l : list (key * option value)).

Definition key_eq_dec : forall a b : key, {a = b} + {a <> b}.
Proof. decide equality; apply N.eq_dec. Defined.

(* the disk: an association list, newest binding first *)
Definition disk := list (key * value).

Fixpoint get (d : disk) (k : key) : option value :=
  match d with
  | [] => None
  | (k', v) :: r => if key_eq_dec k k' then Some v else get r k
  end.
Definition put (k : key) (v : value) (d : disk) : disk := (k, v) :: d.
Fixpoint del (k : key) (d : disk) : disk :=
  match d with
  | [] => []
  | (k', v) :: r => if key_eq_dec k k' then del k r else (k', v) :: del k r
  end.

Definition apply_bop (d : disk) (kv : key * option value) : disk :=
  match snd kv with Some v => put (fst kv) v d | None => del (fst kv) d end.
Definition apply_wop (d : disk) (w : wop) : disk :=
  match w with
  | Put k v => put k v d
  | Del k => del k d
  | Batch l => fold_left apply_bop l d
  end.
Definition replay (l : list wop) (d : disk) : disk := fold_left apply_wop l d.

(* ---------------------------------------------------------------- state *)

Record st := mkSt {
  dsk : disk;
  wlog : list wop;          (* newest first; [log_of] gives program order *)
  cur_block : sblock;       (* bc.currentBlock *)
  cur_header : header;      (* hc.currentHeader *)
  cur_fast : sblock;        (* bc.currentFastBlock *)
  genesis : sblock;         (* bc.genesisBlock / hc.genesisHeader *)
  coins : list bool         (* outcomes of mrand.Float64() < 0.5, in call order *)
}.
Definition log_of (s : st) : list wop := rev (wlog s).

Definition emit (w : wop) (s : st) : st :=
  mkSt (apply_wop (dsk s) w) (w :: wlog s) (cur_block s) (cur_header s) (cur_fast s) (genesis s) (coins s).
Definition set_cur_block (b : sblock) (s : st) : st :=
  mkSt (dsk s) (wlog s) b (cur_header s) (cur_fast s) (genesis s) (coins s).
Definition set_cur_header (h : header) (s : st) : st :=
  mkSt (dsk s) (wlog s) (cur_block s) h (cur_fast s) (genesis s) (coins s).
Definition set_cur_fast (b : sblock) (s : st) : st :=
  mkSt (dsk s) (wlog s) (cur_block s) (cur_header s) b (genesis s) (coins s).
Definition set_genesis (b : sblock) (s : st) : st :=
  mkSt (dsk s) (wlog s) (cur_block s) (cur_header s) (cur_fast s) b (coins s).
Definition set_coins (c : list bool) (s : st) : st :=
  mkSt (dsk s) (wlog s) (cur_block s) (cur_header s) (cur_fast s) (genesis s) c.

Inductive err :=
| ErrUnknownAncestor | ErrInvalidBlock | ErrStateMissing
| ErrInvalidOldChain | ErrInvalidNewChain | ErrNonContiguous | ErrEmptyChain | ErrNoGenesis.

Inductive status :=
| SOk
| SErr (e : err)
| SPanic          (* Go nil dereference / index out of range *)
| SFuel           (* a loop ran out of model fuel *)
| SNoCoin         (* the coin oracle list was too short *)
| SUnmodelled.    (* a branch outside the modelled fragment (pruning, Reset, repair) *)

Definition R : Type := status * st.

(* ---------------------------------------------------------------- typed reads (the Get functions of core/database_util.go) *)

(* GetCanonicalHash *)
Definition canon (d : disk) (n : N) : N :=
  match get d (KCanon n) with Some (VHash h) => h | _ => 0 end.
(* GetBlockNumber (missingNumber = None) *)
Definition number_of (d : disk) (h : N) : option N :=
  match get d (KHashNum h) with Some (VNum n) => Some n | _ => None end.
(* GetHeader(hash, number) / hc.GetHeader *)
Definition header_of (d : disk) (h : N) : option header :=
  match get d (KHeader h) with Some (VHeader x) => Some x | _ => None end.
(* GetBody *)
Definition body_of (d : disk) (h : N) : option (list N) :=
  match get d (KBody h) with Some (VTxs l) => Some l | _ => None end.
(* GetBlockReceipts (one receipt per transaction; identified by the tx id) *)
Definition receipts_of (d : disk) (h : N) : option (list N) :=
  match get d (KReceipts h) with Some (VTxs l) => Some l | _ => None end.
(* GetTd *)
Definition td_of (d : disk) (h : N) : option N :=
  match get d (KTd h) with Some (VNum n) => Some n | _ => None end.
(* GetTxLookupEntry *)
Definition lookup_of (d : disk) (t : N) : option (N * N * N) :=
  match get d (KLookup t) with Some (VLookup h n i) => Some (h, n, i) | _ => None end.
(* state.New(root) succeeds / bc.HasState *)
Definition has_state (d : disk) (r : N) : bool :=
  match get d (KState r) with Some _ => true | None => false end.
(* GetHeadBlockHash / GetHeadHeaderHash / GetHeadFastBlockHash *)
Definition head_ptr (d : disk) (k : key) : N :=
  match get d k with Some (VHash h) => h | _ => 0 end.
(* GetBlock(hash, number) / bc.GetBlock : header and body both needed *)
Definition block_of (d : disk) (h : N) : option sblock :=
  match header_of d h, body_of d h with
  | Some x, Some l => Some (x, l)
  | _, _ => None
  end.
(* hc.GetHeaderByHash / bc.GetBlockByHash : go through the hash->number record *)
Definition header_by_hash (d : disk) (h : N) : option header :=
  match number_of d h with Some _ => header_of d h | None => None end.
Definition block_by_hash (d : disk) (h : N) : option sblock :=
  match number_of d h with Some _ => block_of d h | None => None end.
(* bc.HasBlock : the body key exists (a body record always decodes: only
   WriteBody writes under that key, so presence = body_of succeeds) *)
Definition has_block (d : disk) (h : N) : bool :=
  match body_of d h with Some _ => true | None => false end.
(* hc.HasHeader : the header key exists *)
Definition has_header (d : disk) (h : N) : bool :=
  match get d (KHeader h) with Some _ => true | None => false end.
(* bc.HasBlockAndState *)
Definition has_block_and_state (d : disk) (h : N) : bool :=
  match block_of d h with Some b => has_state d (s_root b) | None => false end.

(* core.GetTransaction: lookup entry, then the body at that index *)
Definition get_transaction (d : disk) (t : N) : option (N * N * N) :=
  match lookup_of d t with
  | None => None
  | Some (h, n, i) =>
    match body_of d h with
    | None => None
    | Some l => if N.of_nat (length l) <=? i then None else Some (h, n, i)
    end
  end.
(* core.GetReceipt: lookup entry, then the receipts at that index *)
Definition get_receipt (d : disk) (t : N) : option (N * N * N) :=
  match lookup_of d t with
  | None => None
  | Some (h, n, i) =>
    match receipts_of d h with
    | None => None
    | Some l => if N.of_nat (length l) <=? i then None else Some (h, n, i)
    end
  end.

Definition two64 : N := 18446744073709551616.
(* uint64 x-1 with wrap-around *)
Definition dec64 (x : N) : N := (x + two64 - 1) mod two64.
Definition inc64 (x : N) : N := (x + 1) mod two64.

(* ---------------------------------------------------------------- BlockChain.insert *)

(* core/blockchain.go insert: number->hash, LastBlock, and (if the height was
   not already assigned to this block) LastHeader + LastFast; all direct writes. *)
Definition bc_insert (b : sblock) (s : st) : st :=
  let update := negb (canon (dsk s) (s_num b) =? s_hash b) in
  let s := emit (Put (KCanon (s_num b)) (VHash (s_hash b))) s in
  let s := emit (Put KHeadBlock (VHash (s_hash b))) s in
  let s := set_cur_block b s in
  if update then
    (* hc.SetCurrentHeader: WriteHeadHeaderHash, then the memory pointer *)
    let s := emit (Put KHeadHeader (VHash (s_hash b))) s in
    let s := set_cur_header (fst b) s in
    let s := emit (Put KHeadFast (VHash (s_hash b))) s in
    set_cur_fast b s
  else s.

(* core/database_util.go WriteTxLookupEntries as a list of puts *)
Fixpoint lookup_puts (h n : N) (i : N) (txs : list N) : list (key * value) :=
  match txs with
  | [] => []
  | t :: r => (KLookup t, VLookup h n i) :: lookup_puts h n (i + 1) r
  end.
Definition write_lookups_direct (b : sblock) (s : st) : st :=
  fold_left (fun s kv => emit (Put (fst kv) (snd kv)) s) (lookup_puts (s_hash b) (s_num b) 0 (s_txs b)) s.

(* ---------------------------------------------------------------- BlockChain.reorg *)

(* the two "reduce whoever is higher" loops: walk down through GetBlock until
   the target number (or nil) *)
Fixpoint walk (fuel : nat) (d : disk) (b : option sblock) (target : N) (acc : list sblock)
  : option (option sblock * list sblock) :=
  match fuel with
  | O => None
  | S f =>
    match b with
    | None => Some (None, acc)
    | Some x => if s_num x =? target then Some (Some x, acc)
                else walk f d (block_of d (s_parent x)) target (acc ++ [x])
    end
  end.

Inductive lres := LFuel | LErr (e : err) | LOk (oldc newc : list sblock).
(* the lock-step loop down to the common ancestor *)
Fixpoint lockstep (fuel : nat) (d : disk) (o n : sblock) (oldc newc : list sblock) : lres :=
  match fuel with
  | O => LFuel
  | S f =>
    if s_hash o =? s_hash n then LOk oldc newc
    else
      let oldc := oldc ++ [o] in
      let newc := newc ++ [n] in
      match block_of d (s_parent o) with
      | None => LErr ErrInvalidOldChain
      | Some o' =>
        match block_of d (s_parent n) with
        | None => LErr ErrInvalidNewChain
        | Some n' => lockstep f d o' n' oldc newc
        end
      end
  end.

Definition memN (x : N) (l : list N) : bool := existsb (N.eqb x) l.

(* core/blockchain.go reorg.  All writes are direct (they happen while the
   incoming block's own data still sits in WriteBlockWithState's batch). *)
Definition reorg (fuel : nat) (oldB newB : sblock) (s : st) : R :=
  let d := dsk s in
  let p1 :=
    if s_num newB <? s_num oldB then
      match walk fuel d (Some oldB) (s_num newB) [] with
      | None => None
      | Some (o, oc) => Some (o, Some newB, oc, [])
      end
    else
      match walk fuel d (Some newB) (s_num oldB) [] with
      | None => None
      | Some (n, nc) => Some (Some oldB, n, [], nc)
      end in
  match p1 with
  | None => (SFuel, s)
  | Some (None, _, _, _) => (SErr ErrInvalidOldChain, s)
  | Some (Some _, None, _, _) => (SErr ErrInvalidNewChain, s)
  | Some (Some o, Some n, oc, nc) =>
    match lockstep fuel d o n oc nc with
    | LFuel => (SFuel, s)
    | LErr e => (SErr e, s)
    | LOk oc nc =>
      (* insert the new chain oldest first, each followed by its lookup entries *)
      let s := fold_left (fun s b => write_lookups_direct b (bc_insert b s)) (rev nc) s in
      let deleted := flat_map s_txs oc in
      let added := flat_map s_txs (rev nc) in
      (* types.TxDifference(deletedTxs, addedTxs) then DeleteTxLookupEntry *)
      let diff := filter (fun t => negb (memN t added)) deleted in
      (SOk, fold_left (fun s t => emit (Del (KLookup t)) s) diff s)
    end
  end.

(* ---------------------------------------------------------------- WriteBlockWithState *)

Definition reorg_fuel (s : st) (n : N) : nat := S (S (N.to_nat (N.max (s_num (cur_block s)) n))).

(* core/blockchain.go WriteBlockWithState (archive mode).  TD: direct write.
   body, hash->number, header, receipts, lookups: one batch flushed late.
   state: trie.Database.Commit's own batches (KState).  reorg and insert:
   direct writes, reorg BEFORE the batch flush, insert after it. *)
Definition write_block_with_state (b : block) (s : st) : R :=
  let hd := b_hdr b in
  let h := h_hash hd in
  match td_of (dsk s) (h_parent hd) with
  | None => (SErr ErrUnknownAncestor, s)
  | Some ptd =>
    let cur := cur_block s in
    let localTd := td_of (dsk s) (s_hash cur) in
    let externTd := h_diff hd + ptd in
    let s := emit (Put (KTd h) (VNum externTd)) s in
    let batch := [(KBody h, Some (VTxs (b_txs b))); (KHashNum h, Some (VNum (h_number hd))); (KHeader h, Some (VHeader hd))] in
    let s := emit (Put (KState (h_root hd)) VUnit) s in
    let batch := batch ++ [(KReceipts h, Some (VTxs (b_txs b)))] in
    match localTd with
    | None => (SPanic, s)              (* externTd.Cmp(nil) *)
    | Some ltd =>
      (* reorg := externTd > localTd; on a tie: lower number wins, equal number flips a coin *)
      let decision : option (bool * st) :=
        if ltd <? externTd then Some (true, s)
        else if externTd =? ltd then
          if h_number hd <? s_num cur then Some (true, s)
          else if h_number hd =? s_num cur then
            match coins s with
            | [] => None
            | c :: rest => Some (c, set_coins rest s)
            end
          else Some (false, s)
        else Some (false, s) in
      match decision with
      | None => (SNoCoin, s)
      | Some (false, s) => (SOk, emit (Batch batch) s)
      | Some (true, s) =>
        let r := if h_parent hd =? s_hash cur then (SOk, s)
                 else reorg (reorg_fuel s (h_number hd)) cur (to_s b) s in
        match r with
        | (SOk, s) =>
          let batch := batch ++ map (fun kv => (fst kv, Some (snd kv))) (lookup_puts h (h_number hd) 0 (b_txs b)) in
          let s := emit (Batch batch) s in
          (SOk, bc_insert (to_s b) s)
        | other => other               (* error: the batch is dropped, TD and state stay *)
        end
      end
    end
  end.

(* core/blockchain.go WriteBlockWithoutState: all direct *)
Definition write_block_without_state (b : block) (td : N) (s : st) : st :=
  let hd := b_hdr b in
  let h := h_hash hd in
  let s := emit (Put (KTd h) (VNum td)) s in
  let s := emit (Put (KBody h) (VTxs (b_txs b))) s in
  let s := emit (Put (KHashNum h) (VNum (h_number hd))) s in
  emit (Put (KHeader h) (VHeader hd)) s.

(* ---------------------------------------------------------------- InsertChain *)

(* the sanity check at the top of insertChain2: the chain is cut at the first
   broken link and the (now contiguous) prefix retried *)
Fixpoint contiguous_prefix (prev : block) (l : list block) : list block :=
  match l with
  | [] => []
  | b :: r =>
    if (h_number (b_hdr b) =? h_number (b_hdr prev) + 1) && (h_parent (b_hdr b) =? h_hash (b_hdr prev))
    then b :: contiguous_prefix b r else []
  end.

Inductive verdict := VKnown | VUnknownAncestor | VPruned | VFine.
(* core/block_validator.go ValidateBody, the part that looks at the database *)
Definition validate_body (d : disk) (hd : header) : verdict :=
  if has_block_and_state d (h_hash hd) then VKnown
  else if negb (has_block_and_state d (h_parent hd)) then
    (if negb (has_block d (h_parent hd)) then VUnknownAncestor else VPruned)
  else VFine.

(* the per-block loop of insertChain2; [prev] = chain[i-1] (None iff i = 0).
   Result: (status, index of the failing block, state). *)
Fixpoint ic_loop (prev : option block) (idx : N) (chain : list block) (s : st) : status * N * st :=
  match chain with
  | [] => (SOk, 0, s)
  | b :: rest =>
    let d := dsk s in
    let hd := b_hdr b in
    let process (s : st) : status * N * st :=
      let proot := match prev with
                   | Some p => Some (h_root (b_hdr p))
                   | None => option_map s_root (block_of d (h_parent hd))
                   end in
      match proot with
      | None => (SPanic, idx, s)                       (* parent.Root() on a nil block *)
      | Some r =>
        if negb (has_state d r) then (SErr ErrStateMissing, idx, s)
        else if negb (b_valid b) then (SErr ErrInvalidBlock, idx, s)   (* Process / ValidateState *)
        else match write_block_with_state b s with
             | (SOk, s) => ic_loop (Some b) (idx + 1) rest s
             | (e, s) => (e, idx, s)
             end
      end in
    match validate_body d hd with
    | VKnown =>
      if h_number hd <=? s_num (cur_block s) then ic_loop (Some b) (idx + 1) rest s
      else process s
    | VUnknownAncestor => (SErr ErrUnknownAncestor, idx, s)
    | VPruned =>
      match td_of d (s_hash (cur_block s)), td_of d (h_parent hd) with
      | Some ltd, Some ptd =>
        let ext := ptd + h_diff hd in
        if ext <? ltd then ic_loop (Some b) (idx + 1) rest (write_block_without_state b ext s)
        else (SUnmodelled, idx, s)                     (* re-import of the pruned winner chain *)
      | _, _ => (SPanic, idx, s)
      end
    | VFine => process s
    end
  end.

(* BlockChain.InsertChain *)
Definition insert_chain (chain : list block) (cs : list bool) (s : st) : status * N * st :=
  match chain with
  | [] => (SErr ErrEmptyChain, 0, s)
  | b :: r => ic_loop None 0 (b :: contiguous_prefix b r) (set_coins cs s)
  end.

(* ---------------------------------------------------------------- HeaderChain.WriteHeader / InsertHeaderChain *)

(* "Delete any canonical number assignments above the new head" *)
Fixpoint del_canon_above (fuel : nat) (i : N) (s : st) : option st :=
  match fuel with
  | O => None
  | S f => if canon (dsk s) i =? 0 then Some s
           else del_canon_above f (inc64 i) (emit (Del (KCanon i)) s)
  end.

(* "Overwrite any stale canonical number assignments" *)
Fixpoint rewrite_canon (fuel : nat) (hh hn : N) (hhd : option header) (s : st) : R :=
  match fuel with
  | O => (SFuel, s)
  | S f =>
    if canon (dsk s) hn =? hh then (SOk, s)
    else
      let s := emit (Put (KCanon hn) (VHash hh)) s in
      match hhd with
      | None => (SPanic, s)                            (* headHeader.ParentHash on nil *)
      | Some x =>
        let hh' := h_parent x in
        rewrite_canon f hh' (dec64 (h_number x)) (header_of (dsk s) hh') s
      end
  end.

(* core/headerchain.go WriteHeader: every write direct *)
Definition write_header (hd : header) (s : st) : R :=
  let h := h_hash hd in
  match td_of (dsk s) (h_parent hd) with
  | None => (SErr ErrUnknownAncestor, s)
  | Some ptd =>
    let localTd := td_of (dsk s) (h_hash (cur_header s)) in
    let externTd := h_diff hd + ptd in
    let s := emit (Put (KTd h) (VNum externTd)) s in
    let s := emit (Put (KHashNum h) (VNum (h_number hd))) s in
    let s := emit (Put (KHeader h) (VHeader hd)) s in
    match localTd with
    | None => (SPanic, s)
    | Some ltd =>
      let decision : option (bool * st) :=
        if ltd <? externTd then Some (true, s)
        else if externTd =? ltd then
          match coins s with [] => None | c :: rest => Some (c, set_coins rest s) end
        else Some (false, s) in
      match decision with
      | None => (SNoCoin, s)
      | Some (false, s) => (SOk, s)
      | Some (true, s) =>
        match del_canon_above (S (length (dsk s))) (inc64 (h_number hd)) s with
        | None => (SFuel, s)
        | Some s =>
          match rewrite_canon (S (S (N.to_nat (h_number hd)))) (h_parent hd) (dec64 (h_number hd))
                              (header_of (dsk s) (h_parent hd)) s with
          | (SOk, s) =>
            let s := emit (Put (KCanon (h_number hd)) (VHash h)) s in
            let s := emit (Put KHeadHeader (VHash h)) s in
            (SOk, set_cur_header hd s)
          | other => other
          end
        end
      end
    end
  end.

Fixpoint headers_contiguous (prev : header) (l : list header) : bool :=
  match l with
  | [] => true
  | x :: r => (h_number x =? h_number prev + 1) && (h_parent x =? h_hash prev) && headers_contiguous x r
  end.

Fixpoint ihc_loop (idx : N) (chain : list header) (s : st) : status * N * st :=
  match chain with
  | [] => (SOk, 0, s)
  | hd :: rest =>
    if has_header (dsk s) (h_hash hd) then ihc_loop (idx + 1) rest s
    else match write_header hd s with
         | (SOk, s) => ihc_loop (idx + 1) rest s
         | (e, s) => (e, idx, s)
         end
  end.

(* BlockChain.InsertHeaderChain = hc.ValidateHeaderChain + hc.InsertHeaderChain *)
Definition insert_header_chain (chain : list header) (cs : list bool) (s : st) : status * N * st :=
  match chain with
  | [] => (SPanic, 0, s)                               (* seals[len(seals)-1] *)
  | x :: r =>
    if headers_contiguous x r then ihc_loop 0 chain (set_coins cs s)
    else (SErr ErrNonContiguous, 0, s)
  end.

(* ---------------------------------------------------------------- loadLastState / SetHead / reopen *)

(* core/blockchain.go loadLastState.  Reset() and repair() are C04 territory:
   SUnmodelled.  Note the write: hc.SetCurrentHeader stores LastHeader. *)
Definition load_last_state (s : st) : R :=
  let d := dsk s in
  let head := head_ptr d KHeadBlock in
  if head =? 0 then (SUnmodelled, s)
  else match block_by_hash d head with
  | None => (SUnmodelled, s)
  | Some cb =>
    if negb (has_state d (s_root cb)) then (SUnmodelled, s)
    else
      let s := set_cur_block cb s in
      let hh := head_ptr d KHeadHeader in
      let ch := if hh =? 0 then fst cb
                else match header_by_hash d hh with Some x => x | None => fst cb end in
      let s := emit (Put KHeadHeader (VHash (h_hash ch))) s in
      let s := set_cur_header ch s in
      let hf := head_ptr d KHeadFast in
      let cf := if hf =? 0 then cb
                else match block_by_hash d hf with Some x => x | None => cb end in
      (SOk, set_cur_fast cf s)
  end.

(* the unwinding loop of core/headerchain.go SetHead with BlockChain.SetHead's
   delFn (DeleteBody) *)
Fixpoint sh_loop (fuel : nat) (head : N) (hdr : option header) (s : st) : option (option header * st) :=
  match fuel with
  | O => None
  | S f =>
    match hdr with
    | None => Some (None, s)
    | Some x =>
      if head <? h_number x then
        let h := h_hash x in
        let s := emit (Del (KBody h)) s in
        let s := emit (Del (KHashNum h)) s in
        let s := emit (Del (KHeader h)) s in
        let s := emit (Del (KTd h)) s in
        sh_loop f head (header_of (dsk s) (h_parent x)) s
      else Some (Some x, s)
    end
  end.

(* for i := height; i > head; i-- { DeleteCanonicalHash(i) } *)
Fixpoint del_canon_down (cnt : nat) (i : N) (s : st) : st :=
  match cnt with
  | O => s
  | S c => del_canon_down c (i - 1) (emit (Del (KCanon i)) s)
  end.

(* core/blockchain.go SetHead (with core/headerchain.go SetHead inlined) *)
Definition set_head (head : N) (s : st) : R :=
  let height := h_number (cur_header s) in
  match sh_loop (S (S (N.to_nat height))) head (Some (cur_header s)) s with
  | None => (SFuel, s)
  | Some (hdr, s) =>
    let s := del_canon_down (N.to_nat (height - head)) height s in
    let ch := match hdr with Some x => x | None => fst (genesis s) end in
    let s := set_cur_header ch s in
    let s := emit (Put KHeadHeader (VHash (h_hash ch))) s in
    let d := dsk s in
    let cb : option sblock :=
      if h_number ch <? s_num (cur_block s) then block_of d (h_hash ch) else Some (cur_block s) in
    let cb := match cb with
              | Some b => if has_state d (s_root b) then Some b else Some (genesis s)
              | None => None
              end in
    let cf : option sblock :=
      if h_number ch <? s_num (cur_fast s) then block_of d (h_hash ch) else Some (cur_fast s) in
    let cb := match cb with Some b => b | None => genesis s end in
    let cf := match cf with Some b => b | None => genesis s end in
    let s := set_cur_fast cf (set_cur_block cb s) in
    let s := emit (Put KHeadBlock (VHash (s_hash cb))) s in
    let s := emit (Put KHeadFast (VHash (s_hash cf))) s in
    load_last_state s
  end.

(* close + NewBlockChain on the same database (archive mode: Stop writes
   nothing): NewHeaderChain + GetBlockByNumber(0) + loadLastState *)
Definition reopen (s : st) : R :=
  let d := dsk s in
  match header_of d (canon d 0) with
  | None => (SErr ErrNoGenesis, s)
  | Some gh =>
    match block_of d (canon d 0) with
    | None => (SErr ErrNoGenesis, s)
    | Some g =>
      let ch := let hb := head_ptr d KHeadBlock in
                if hb =? 0 then gh else match header_by_hash d hb with Some x => x | None => gh end in
      load_last_state (set_cur_fast g (set_cur_block g (set_cur_header ch (set_genesis g (set_coins [] s)))))
    end
  end.

(* core/blockchain.go Rollback: walk the given hashes from the last to the first; whichever head
   (header, fast block, block) currently IS that hash steps back to its parent.  Only the head
   pointers move (direct writes); headers, bodies, TDs and number entries stay.  GetHeader /
   GetBlock of the parent returning nil is a nil dereference. *)
Fixpoint rollback_loop (hs : list N) (s : st) : R :=
  match hs with
  | [] => (SOk, s)
  | h :: rest =>
    let r1 : R :=
      if h_hash (cur_header s) =? h then
        match header_of (dsk s) (h_parent (cur_header s)) with
        | None => (SPanic, s)                    (* hc.SetCurrentHeader(nil) *)
        | Some ph => (SOk, set_cur_header ph (emit (Put KHeadHeader (VHash (h_hash ph))) s))
        end
      else (SOk, s) in
    match r1 with
    | (SOk, s) =>
      let r2 : R :=
        if s_hash (cur_fast s) =? h then
          match block_of (dsk s) (s_parent (cur_fast s)) with
          | None => (SPanic, s)                  (* newFastBlock.Hash() on nil *)
          | Some pb => (SOk, emit (Put KHeadFast (VHash (s_hash pb))) (set_cur_fast pb s))
          end
        else (SOk, s) in
      match r2 with
      | (SOk, s) =>
        let r3 : R :=
          if s_hash (cur_block s) =? h then
            match block_of (dsk s) (s_parent (cur_block s)) with
            | None => (SPanic, s)
            | Some pb => (SOk, emit (Put KHeadBlock (VHash (s_hash pb))) (set_cur_block pb s))
            end
          else (SOk, s) in
        match r3 with
        | (SOk, s) => rollback_loop rest s
        | other => other
        end
      | other => other
      end
    | other => other
    end
  end.
Definition rollback (hs : list N) (s : st) : R := rollback_loop (rev hs) s.

(* the database right after Genesis.Commit, and the chain opened on it *)
Definition genesis_disk (g : header) : disk :=
  replay [Put (KTd (h_hash g)) (VNum (h_diff g));
          Put (KState (h_root g)) VUnit;
          Put (KBody (h_hash g)) (VTxs []); Put (KHashNum (h_hash g)) (VNum 0); Put (KHeader (h_hash g)) (VHeader g);
          Put (KReceipts (h_hash g)) (VTxs []); Put (KCanon 0) (VHash (h_hash g));
          Put KHeadBlock (VHash (h_hash g)); Put KHeadHeader (VHash (h_hash g))] [].
Definition pre_open (g : header) : st := mkSt (genesis_disk g) [] (g, []) g (g, []) (g, []) [].
Definition init_state (g : header) : st := snd (reopen (pre_open g)).

(* ---------------------------------------------------------------- operations as data (histories) *)

Inductive op :=
| OpInsert (chain : list block) (cs : list bool)
| OpHeaders (chain : list header) (cs : list bool)
| OpSetHead (n : N)
| OpReopen
| OpRollback (hs : list N).

Definition step (o : op) (s : st) : status * st :=
  match o with
  | OpInsert c cs => let '(e, _, s) := insert_chain c cs s in (e, s)
  | OpHeaders c cs => let '(e, _, s) := insert_header_chain c cs s in (e, s)
  | OpSetHead n => set_head n s
  | OpReopen => reopen s
  | OpRollback hs => rollback hs s
  end.
Definition run (ops : list op) (s : st) : st := fold_left (fun s o => snd (step o s)) ops s.
