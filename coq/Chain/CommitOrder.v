(* Chain/CommitOrder.v — model of the method commit of Database in trie/database.go, for the
   closure clause of property C04.  Definitions only.

   commit(hash, batch): if the node is not in the memory layer it was committed
   before (nothing to do); otherwise commit every child, THEN put the node
   into the batch; the batch is flushed whenever it exceeds IdealBatchSize, so
   the sequence of puts is cut into batches at arbitrary places and a crash
   leaves an arbitrary batch-aligned prefix of it on disk. *)
From Coq Require Import NArith List.
Import ListNotations.

(* a node of the memory layer with its children (in the iteration order of the
   Go map), or a reference to a node that is already on disk *)
Inductive tnode :=
| Dirty (h : N) (cs : list tnode)
| Stored (h : N).

Definition th (n : tnode) : N := match n with Dirty h _ => h | Stored h => h end.

(* the sequence of batch.Put keys issued by commit: post-order *)
Fixpoint post (n : tnode) : list N :=
  match n with
  | Stored _ => []
  | Dirty h cs => flat_map post cs ++ [h]
  end.

(* m occurs in the DAG under n *)
Inductive sub : tnode -> tnode -> Prop :=
| sub_refl : forall n, sub n n
| sub_child : forall m h cs c, In c cs -> sub m c -> sub m (Dirty h cs).

(* Merkle property: nodes with the same hash have the same children *)
Definition merkle (n : tnode) : Prop :=
  forall ha ca hb cb, sub (Dirty ha ca) n -> sub (Dirty hb cb) n -> ha = hb -> map th ca = map th cb.

(* the pre-order variant (node before its children): what a wrong commit would emit *)
Fixpoint pre_order (n : tnode) : list N :=
  match n with
  | Stored _ => []
  | Dirty h cs => h :: flat_map pre_order cs
  end.

(* ---- the memory layer: nodes leave it only after the batch holding them was written ----
   trie.Database keeps dirty nodes in memory; Commit puts them into batches and, only after the
   LAST batch was written successfully, uncaches them.  A node that is neither in memory nor
   on disk is treated by later commits as "already committed" (commit returns at once), so
   the discipline to keep is: every node of the universe is in memory or on disk. *)
Record tdb := mkTdb { t_mem : list N; t_dsk : list N }.

Definition inN (x : N) (l : list N) : bool := existsb (N.eqb x) l.

(* a commit whose write sequence [w] reached the disk completely: uncache exactly [w] *)
Definition commit_ok (w : list N) (s : tdb) : tdb :=
  mkTdb (filter (fun h => negb (inN h w)) (t_mem s)) (t_dsk s ++ w).
(* a commit that failed after the prefix [p] of its batches was written: nothing is uncached *)
Definition commit_failed (p : list N) (s : tdb) : tdb := mkTdb (t_mem s) (t_dsk s ++ p).
(* the wrong discipline: nodes are dropped from memory as soon as they are put into a batch
   ([w] = everything put so far), whatever part [p] of it reached the disk *)
Definition commit_failed_eager (p w : list N) (s : tdb) : tdb :=
  mkTdb (filter (fun h => negb (inN h w)) (t_mem s)) (t_dsk s ++ p).

Definition covered (univ : list N) (s : tdb) : Prop :=
  forall h, In h univ -> In h (t_mem s) \/ In h (t_dsk s).
