(* Chain/ChainLookup.v — round 6: the full forms of C03_head_named / C03_stored_ancestry
   (histories of imports and restarts), assembled from ChainCanon.v and ChainReopen.v. *)
From Coq Require Import NArith List Bool Lia ZifyBool ZifyN ZifyNat.
From AQ Require Import Chain.Store Chain.ChainSpec Chain.ChainProofs Chain.Crash Chain.CrashProofs Chain.ChainReopen Chain.ChainCanon.
Import ListNotations.
Local Open Scope N_scope.
Set Default Timeout 60.

Section Full.
Variable U : N -> sblock.
Variable g : header.
Hypothesis Ug : U (h_hash g) = (g, []).
Hypothesis g0 : h_number g = 0.
Variable d0 : disk.
Hypothesis gnz : h_hash g <> 0.
Hypothesis Ed0 : d0 = genesis_disk g.

(* the whole of canon_below (every height up to the head names the head's stored ancestor at
   that height), its top clause spelled out, and the persistent LastBlock pointer *)
Theorem head_named_full : forall ops,
  imports_and_reopens ops ->
  (forall b, In b (blocks_of ops) -> wf_block U b /\ h_hash (b_hdr b) <> 0) ->
  let s := run ops (pre_open g) in
  canon_below s /\
  canon (dsk s) (s_num (cur_block s)) = s_hash (cur_block s) /\ hb (dsk s) = s_hash (cur_block s) /\
  block_of (dsk s) (s_hash (cur_block s)) = Some (cur_block s).
Proof.
  intros ops Hio W s.
  split; [apply (canon_below_with_reopen U g Ug g0 d0 gnz Ed0 ops Hio W)|].
  destruct (head_named U g Ug g0 d0 gnz Ed0 ops Hio W) as [A B].
  split; [exact A|split; [exact B|]].
  destruct (run_J U g Ug g0 d0 ops (pre_open g) Hio W (J_pre_open U g Ug g0 d0 gnz Ed0)) as ((I & _ & _) & _ & _).
  apply (inv_cur _ _ _ I).
Qed.

(* the stored ancestry of the head reaches every height down to genesis, and header, body,
   receipts and total difficulty of each ancestor are retrievable; every stored block has its state *)
Theorem stored_ancestry_full : forall ops,
  imports_and_reopens ops ->
  (forall b, In b (blocks_of ops) -> wf_block U b /\ h_hash (b_hdr b) <> 0) ->
  let s := run ops (pre_open g) in
  block_of (dsk s) (s_hash (cur_block s)) = Some (cur_block s) /\
  (forall n, n <= s_num (cur_block s) ->
     exists h, ancestor_at (dsk s) (s_hash (cur_block s)) n = Some h /\ canon (dsk s) n = h /\
       header_of (dsk s) h <> None /\ body_of (dsk s) h <> None /\
       receipts_of (dsk s) h <> None /\ td_of (dsk s) h <> None).
Proof.
  intros ops Hio W s.
  destruct (head_named_full ops Hio W) as (CB & _ & _ & Hc).
  split; [exact Hc|].
  intros n Hn. exists (canon (dsk s) n).
  split; [apply CB; exact Hn|split; [reflexivity|]].
  apply (canon_data_present_with_reopen U g Ug g0 d0 gnz Ed0 ops Hio W n Hn).
Qed.

End Full.

(* ---------------------------------------------------------------- towards the completeness half of lookup_exact *)

(* no transaction twice on the canonical chain up to the head (in the Go code: nonces) *)
Definition canon_txs_once (s : st) : Prop :=
  forall n n' l l' i i' t, n <= s_num (cur_block s) -> n' <= s_num (cur_block s) ->
    body_of (dsk s) (canon (dsk s) n) = Some l -> body_of (dsk s) (canon (dsk s) n') = Some l' ->
    nth_error l (N.to_nat i) = Some t -> nth_error l' (N.to_nat i') = Some t -> n = n' /\ i = i'.
(* every transaction of a canonical block has SOME entry *)
Definition lookup_nonempty (s : st) : Prop :=
  forall n l j t, n <= s_num (cur_block s) -> body_of (dsk s) (canon (dsk s) n) = Some l ->
    nth_error l j = Some t -> lookup_of (dsk s) t <> None.

(* reduction: with the soundness half (LS, proved for all import/restart histories) the
   completeness half follows from "some entry" + "once per chain"; what is still to be proved
   about reorg is therefore only that it never leaves a canonical transaction without entry *)
Lemma lookup_complete_of_nonempty : forall s, LS s -> canon_txs_once s -> lookup_nonempty s ->
  forall n l i t, n <= s_num (cur_block s) -> body_of (dsk s) (canon (dsk s) n) = Some l ->
    nth_error l (N.to_nat i) = Some t -> lookup_of (dsk s) t = Some (canon (dsk s) n, n, i).
Proof.
  intros s L O NE n l i t Hn Hb Ht.
  pose proof (NE n l (N.to_nat i) t Hn Hb Ht) as Hne.
  destruct (lookup_of (dsk s) t) as [[[h' n'] i']|] eqn:E; [|congruence].
  destruct (L _ _ _ _ E) as (A & B & l' & C & D).
  rewrite <- B in C.
  destruct (O n n' l l' i i' t Hn A Hb C Ht D) as [-> ->]. rewrite B. reflexivity.
Qed.

(* why "once per chain" is a premise: the model's validity oracle admits a chain that repeats
   a transaction, and then the later block owns the entry *)
Definition ops_tx_twice : list op :=
  [OpInsert [mkB (mkH 2 1 1 100 2) [7; 8] true; mkB (mkH 3 2 2 100 3) [7] true] []].
Lemma tx_twice_owned_by_later :
  let s := run ops_tx_twice (init_state (mkH 1 0 0 100 1)) in
  s_num (cur_block s) = 2 /\ canon (dsk s) 1 = 2 /\ body_of (dsk s) 2 = Some [7; 8] /\
  lookup_of (dsk s) 7 = Some (3, 2, 0) /\ lookup_of (dsk s) 8 = Some (2, 1, 1).
Proof. vm_compute. repeat split; reflexivity. Qed.

Section Complete.
Variable U : N -> sblock.
Variable g : header.
Hypothesis Ug : U (h_hash g) = (g, []).
Hypothesis g0 : h_number g = 0.
Variable d0 : disk.
Hypothesis gnz : h_hash g <> 0.
Hypothesis Ed0 : d0 = genesis_disk g.

Theorem lookup_complete_given_nonempty : forall ops,
  imports_and_reopens ops ->
  (forall b, In b (blocks_of ops) -> wf_block U b /\ h_hash (b_hdr b) <> 0) ->
  let s := run ops (pre_open g) in
  canon_txs_once s -> lookup_nonempty s ->
  forall n l i t, n <= s_num (cur_block s) -> body_of (dsk s) (canon (dsk s) n) = Some l ->
    nth_error l (N.to_nat i) = Some t -> lookup_of (dsk s) t = Some (canon (dsk s) n, n, i).
Proof.
  intros ops Hio W s. apply lookup_complete_of_nonempty.
  apply (run_K_reopen U g Ug g0 d0 ops (pre_open g) Hio W (J_pre_open U g Ug g0 d0 gnz Ed0) (K_pre_open U g Ug g0)).
Qed.
End Complete.
Print Assumptions lookup_complete_given_nonempty.

Print Assumptions head_named_full.
Print Assumptions stored_ancestry_full.
