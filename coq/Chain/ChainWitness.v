(* Chain/ChainWitness.v — concrete histories (closed terms, checked by
   vm_compute): non-vacuity examples and the counter-examples behind the
   C03 `_refuted` theorems. *)
From Coq Require Import NArith List Bool.
From AQ Require Import Chain.Store Chain.ChainSpec.
Import ListNotations.
Local Open Scope N_scope.

Definition wg : header := mkH 1 0 0 100 1.
Definition wb (h p n d r : N) (txs : list N) : block := mkB (mkH h p n d r) txs true.
(* 2-3-4 on genesis (100 each), 5 on genesis with difficulty 400 (shorter, heavier) *)
Definition w2 := wb 2 1 1 100 2 [7; 8].
Definition w3 := wb 3 2 2 100 3 [9].
Definition w4 := wb 4 3 3 100 4 [].
Definition w5 := wb 5 1 1 400 5 [7].

Definition ops_longer : list op := [OpInsert [w2; w3] []; OpInsert [w4] []].
Definition ops_shorter_heavier : list op := [OpInsert [w2; w3; w4] []; OpInsert [w5] []].
Definition ops_sethead : list op := [OpInsert [w2; w3; w4] []; OpSetHead 1].

(* after a reorganisation to the shorter, heavier branch the head is block 5 at
   height 1, yet heights 2 and 3 still map to the abandoned blocks 3 and 4 *)
Lemma shorter_heavier_stale :
  let s := run ops_shorter_heavier (init_state wg) in
  s_hash (cur_block s) = 5 /\ s_num (cur_block s) = 1 /\ canon (dsk s) 2 = 3 /\ canon (dsk s) 3 = 4.
Proof. vm_compute. repeat split; reflexivity. Qed.

(* after SetHead 1 the head is block 2; transaction 9 (only in the rewound
   block 3) still has its lookup entry, block 3's receipts are still there and
   GetReceipt still resolves, while the body is gone *)
Lemma sethead_stale :
  let s := run ops_sethead (init_state wg) in
  s_hash (cur_block s) = 2 /\ canon (dsk s) 2 = 0 /\
  lookup_of (dsk s) 9 = Some (3, 2, 0) /\ receipts_of (dsk s) 3 = Some [9] /\
  get_receipt (dsk s) 9 = Some (3, 2, 0) /\ body_of (dsk s) 3 = None.
Proof. vm_compute. repeat split; reflexivity. Qed.

(* a history on which every clause holds and the log replays to the disk *)
Lemma longer_fine :
  let s := run ops_longer (init_state wg) in
  s_hash (cur_block s) = 4 /\ head_td s = 400 /\
  canon (dsk s) 1 = 2 /\ canon (dsk s) 2 = 3 /\ canon (dsk s) 3 = 4 /\ canon (dsk s) 4 = 0 /\
  lookup_of (dsk s) 9 = Some (3, 2, 0) /\
  td_of (dsk s) 3 = Some 300.
Proof. vm_compute. repeat split; reflexivity. Qed.

(* header-only chain: 2-3-4 canonical, 5 a lighter side header on 3; SetHead 1
   removes headers 4,3 (and their TDs) but keeps 5 and its TD; importing 6 on
   top of 5 then walks the canonical-number rewrite loop into the removed
   header 3: headHeader.ParentHash on nil *)
Definition hh (h p n d : N) : header := mkH h p n d h.
Definition ops_orphan_header : list op :=
  [OpHeaders [hh 2 1 1 100; hh 3 2 2 100; hh 4 3 3 100] []; OpHeaders [hh 5 3 3 50] [];
   OpSetHead 1].
Lemma orphan_header_panics :
  let s := run ops_orphan_header (init_state wg) in
  h_hash (cur_header s) = 2 /\ td_of (dsk s) 5 = Some 350 /\ header_of (dsk s) 3 = None /\
  fst (step (OpHeaders [hh 6 5 4 500] []) s) = SPanic.
Proof. vm_compute. repeat split; reflexivity. Qed.

(* the write log replays to the disk (the tie C04 relies on), on the three witnesses *)
Lemma log_replays :
  let chk ops := let s := run ops (init_state wg) in
                 map (get (replay (log_of s) (genesis_disk wg)))
                     [KCanon 1; KCanon 2; KCanon 3; KHeadBlock; KHeadHeader; KHeadFast; KTd 5; KBody 3; KHeader 3; KLookup 7; KLookup 9; KReceipts 3]
                 = map (get (dsk s))
                     [KCanon 1; KCanon 2; KCanon 3; KHeadBlock; KHeadHeader; KHeadFast; KTd 5; KBody 3; KHeader 3; KLookup 7; KLookup 9; KReceipts 3] in
  chk ops_longer /\ chk ops_shorter_heavier /\ chk ops_sethead.
Proof. vm_compute. repeat split; reflexivity. Qed.

(* init_state is pre_open plus the redundant LastHeader write of loadLastState *)
Lemma init_is_pre_open :
  dsk (init_state wg) = put KHeadHeader (VHash 1) (dsk (pre_open wg)) /\
  cur_block (init_state wg) = cur_block (pre_open wg) /\ cur_header (init_state wg) = cur_header (pre_open wg).
Proof. vm_compute. repeat split; reflexivity. Qed.

(* full chain: 2-3-4 canonical, 6 a lighter side block on 3 (stored with its
   state); SetHead 1 removes blocks 4 and 3 but keeps 6; re-importing the known
   block 6 (its number is above the rewound head) reaches parent.Root() with
   GetBlock(parent) = nil *)
Definition w6 := wb 6 3 3 50 6 [].
Definition ops_orphan_side : list op := [OpInsert [w2; w3; w4] []; OpInsert [w6] []; OpSetHead 1].
Lemma orphan_side_block_panics :
  let s := run ops_orphan_side (init_state wg) in
  s_hash (cur_block s) = 2 /\ block_of (dsk s) 6 <> None /\ block_of (dsk s) 3 = None /\
  fst (step (OpInsert [w6] []) s) = SPanic.
Proof. vm_compute. repeat split; try reflexivity. discriminate. Qed.
