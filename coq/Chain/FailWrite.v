(* Chain/FailWrite.v — model-side semantics of a failing database write, for C04.
   The n-th write (1-based) of a run fails and the process dies there (log.Crit
   exits, or the error unwinds to the caller who stops): the disk is exactly the
   one a crash after the first n-1 writes leaves.  A process that swallows the
   error and carries on is NOT modelled (checked on the implementation only). *)
From Coq Require Import NArith List.
From AQ Require Import Chain.Store Chain.ChainSpec Chain.ChainProofs Chain.Crash Chain.CrashProofs Chain.ChainReopen.
Import ListNotations.
Local Open Scope N_scope.

Definition fail_disk (d0 : disk) (l : list wop) (n : nat) : disk := crash_disk d0 l (pred n).

Section FailWrite.
Variable U : N -> sblock.
Variable g : header.
Hypothesis Ug : U (h_hash g) = (g, []).
Hypothesis g0 : h_number g = 0.
Hypothesis gnz : h_hash g <> 0.

(* whichever write of a history of imports and restarts fails, the disk left behind
   has complete block data, and its LastBlock pointer is the last one written before *)
Theorem failed_write_disk : forall ops,
  imports_and_reopens ops ->
  (forall b, In b (blocks_of ops) -> wf_block U b /\ h_hash (b_hdr b) <> 0) ->
  forall n,
  let l := log_of (run ops (pre_open g)) in
  block_data_complete (fail_disk (genesis_disk g) l n) /\
  get (fail_disk (genesis_disk g) l n) KHeadBlock
    = val_of (last_write KHeadBlock (firstn (pred n) l) None) (genesis_disk g) KHeadBlock.
Proof.
  intros ops Hio W n l. split.
  - apply (every_prefix_with_reopen U g Ug g0 (genesis_disk g) gnz eq_refl ops Hio W).
  - apply crash_head_pointer.
Qed.

End FailWrite.
