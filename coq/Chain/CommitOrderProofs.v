(* Chain/CommitOrderProofs.v — children before parents: every prefix of the
   write sequence of commit is closed. *)
From Coq Require Import NArith List Lia.
From AQ Require Import Chain.CommitOrder.
Import ListNotations.

Lemma split_app : forall (A : Type) (a b l1 : list A) (x : A) (l2 : list A),
  a ++ b = l1 ++ x :: l2 ->
  (exists m, a = l1 ++ x :: m /\ l2 = m ++ b) \/ (exists m, l1 = a ++ m /\ b = m ++ x :: l2).
Proof.
  intros A a. induction a as [|y a IH]; intros b l1 x l2 H.
  - right. exists l1. split; [reflexivity|exact H].
  - destruct l1 as [|z l1]; cbn [app] in H.
    + injection H as -> H. left. exists a. split; [reflexivity|symmetry; exact H].
    + injection H as -> H. destruct (IH _ _ _ _ H) as [(m & -> & ->)|(m & -> & ->)].
      * left. exists m. split; reflexivity.
      * right. exists m. split; reflexivity.
Qed.

(* induction over the DAG *)
Lemma tnode_ind' : forall P : tnode -> Prop,
  (forall h, P (Stored h)) ->
  (forall h cs, Forall P cs -> P (Dirty h cs)) ->
  forall n, P n.
Proof.
  intros P HS HD. fix IH 1. intros [h cs|h]; [|apply HS].
  apply HD. induction cs as [|c cs IHcs]; constructor; [apply IH|exact IHcs].
Qed.

Lemma sub_trans : forall a b c, sub a b -> sub b c -> sub a c.
Proof.
  intros a b c Hab Hbc. induction Hbc as [n|m h cs c0 Hin Hsub IH]; [exact Hab|].
  eapply sub_child; [exact Hin|apply IH; exact Hab].
Qed.
Lemma sub_trans_child : forall n h cs c, sub (Dirty h cs) n -> In c cs -> sub c n.
Proof. intros n h cs c H Hin. eapply sub_trans; [|exact H]. eapply sub_child; [exact Hin|apply sub_refl]. Qed.

Lemma th_in_post : forall h cs, In h (post (Dirty h cs)).
Proof. intros. cbn [post]. apply in_or_app. right. left. reflexivity. Qed.

(* every occurrence of a key in the write sequence is preceded by the keys of all
   its dirty children; its other children are already on disk *)
Definition occ_ok (n : tnode) : Prop :=
  forall l1 x l2, post n = l1 ++ x :: l2 ->
    exists cs, sub (Dirty x cs) n /\ forall c, In c cs -> (exists h, c = Stored h) \/ In (th c) l1.

Lemma flat_ordered : forall cs, Forall occ_ok cs ->
  forall l1 x l2, flat_map post cs = l1 ++ x :: l2 ->
  exists c cs', In c cs /\ sub (Dirty x cs') c /\ forall c0, In c0 cs' -> (exists h, c0 = Stored h) \/ In (th c0) l1.
Proof.
  intros cs F. induction F as [|c cs Pc Pcs IHl]; intros l1 x l2 Hm.
  - destruct l1; discriminate.
  - cbn [flat_map] in Hm.
    destruct (split_app _ _ _ _ _ _ Hm) as [(m' & Hc & _)|(m' & Hl1 & Hr)].
    + destruct (Pc _ _ _ Hc) as (cs' & Hs & Hch). exists c, cs'. split; [left; reflexivity|split; assumption].
    + destruct (IHl _ _ _ Hr) as (c1 & cs' & Hin & Hs & Hch). exists c1, cs'. split; [right; exact Hin|split; [exact Hs|]].
      intros c0 Hc0. destruct (Hch c0 Hc0) as [S|I]; [left; exact S|right]. rewrite Hl1. apply in_or_app. right. exact I.
Qed.

Lemma post_ordered : forall n, occ_ok n.
Proof.
  induction n as [h|h cs IH] using tnode_ind'; intros l1 x l2 H.
  - destruct l1; discriminate.
  - cbn [post] in H.
    destruct (split_app _ _ _ _ _ _ H) as [(m & Hm & _)|(m & Hl1 & Hm)].
    + destruct (flat_ordered cs IH _ _ _ Hm) as (c & cs' & Hin & Hs & Hch).
      exists cs'. split; [eapply sub_child; eassumption|exact Hch].
    + destruct m as [|y m]; cbn [app] in Hm.
      * injection Hm as <- <-. exists cs. split; [apply sub_refl|].
        intros c Hc. destruct c as [hc ccs|hc]; [right|left; eexists; reflexivity].
        rewrite Hl1, app_nil_r. apply in_flat_map. exists (Dirty hc ccs). split; [exact Hc|apply th_in_post].
      * injection Hm as _ Hm. destruct m; discriminate.
Qed.

(* closure of every prefix: whatever prefix p of the write sequence reached the
   disk (batch boundaries anywhere), every node key in p has the keys of all its
   children either in p or already on disk *)
Theorem closure_every_prefix : forall n d0,
  merkle n ->
  (forall h, sub (Stored h) n -> In h d0) ->
  forall p suf, post n = p ++ suf ->
  forall h cs, sub (Dirty h cs) n -> In h p ->
  forall c, In c cs -> In (th c) (d0 ++ p).
Proof.
  intros n d0 M S p suf E h cs Hs Hin c Hc.
  destruct (in_split _ _ Hin) as (l1 & l2 & ->).
  rewrite <- app_assoc in E. cbn [app] in E.
  destruct (post_ordered n _ _ _ E) as (cs' & Hs' & Hch).
  (* same hash, same children *)
  pose proof (M _ _ _ _ Hs Hs' eq_refl) as Em.
  assert (Hth : In (th c) (map th cs')) by (rewrite <- Em; apply in_map; exact Hc).
  apply in_map_iff in Hth. destruct Hth as (c' & Eth & Hc').
  rewrite <- Eth. destruct (Hch c' Hc') as [[h' ->]|I].
  - apply in_or_app. left. apply S. eapply sub_trans_child; eassumption.
  - apply in_or_app. right. apply in_or_app. left. exact I.
Qed.

(* non-vacuity, and why the order matters: on a three-node trie the post-order
   sequence is closed at every prefix, while the pre-order sequence (node before
   children) already breaks closure at its first element *)
Definition t3 : tnode := Dirty 1 [Dirty 2 [Stored 9]; Dirty 3 []].
Lemma t3_orders : post t3 = [2; 3; 1]%N /\ pre_order t3 = [1; 2; 3]%N /\
  (forall h, sub (Stored h) t3 -> In h [9%N]) /\ merkle t3.
Proof.
  split; [reflexivity|split; [reflexivity|split]].
  - intros h H. inversion H as [|? ? ? c Hin Hs]; subst.
    destruct Hin as [<-|[<-|[]]].
    + inversion Hs as [|? ? ? c Hin Hs']; subst. destruct Hin as [<-|[]]. inversion Hs'; subst. left; reflexivity.
    + inversion Hs as [|? ? ? c Hin Hs']; subst. destruct Hin.
  - intros ha ca hb cb Ha Hb E.
    assert (K : forall h cs, sub (Dirty h cs) t3 -> (h = 1%N /\ cs = [Dirty 2%N [Stored 9%N]; Dirty 3%N []]) \/ (h = 2%N /\ cs = [Stored 9%N]) \/ (h = 3%N /\ cs = [])).
    { intros h cs H. inversion H as [|? ? ? c Hin Hs]; subst; [left; split; reflexivity|].
      destruct Hin as [<-|[<-|[]]].
      - inversion Hs as [|? ? ? c Hin Hs']; subst; [right; left; split; reflexivity|]. destruct Hin as [<-|[]]. inversion Hs'.
      - inversion Hs as [|? ? ? c Hin Hs']; subst; [right; right; split; reflexivity|]. destruct Hin. }
    destruct (K _ _ Ha) as [[-> ->]|[[-> ->]|[-> ->]]]; destruct (K _ _ Hb) as [[-> ->]|[[-> ->]|[-> ->]]]; try reflexivity; discriminate.
Qed.

(* ---- uncache only after a successful write keeps every node reachable ---- *)
Lemma inN_spec : forall x l, inN x l = true <-> In x l.
Proof.
  intros x l. unfold inN. rewrite existsb_exists. split.
  - intros (y & Hy & E). apply N.eqb_eq in E. subst. exact Hy.
  - intro H. exists x. split; [exact H|apply N.eqb_refl].
Qed.

Theorem covered_commit_ok : forall univ w s, covered univ s -> covered univ (commit_ok w s).
Proof.
  intros univ w s C h Hh. destruct (C h Hh) as [M|D].
  - destruct (inN h w) eqn:E.
    + right. cbn [t_dsk commit_ok]. apply in_or_app. right. apply inN_spec. exact E.
    + left. cbn [t_mem commit_ok]. apply filter_In. split; [exact M|rewrite E; reflexivity].
  - right. cbn [t_dsk commit_ok]. apply in_or_app. left. exact D.
Qed.

Theorem covered_commit_failed : forall univ p s, covered univ s -> covered univ (commit_failed p s).
Proof.
  intros univ p s C h Hh. destruct (C h Hh) as [M|D]; [left; exact M|right].
  cbn [t_dsk commit_failed]. apply in_or_app. left. exact D.
Qed.

(* the eager variant loses nodes: one dirty node, put into the batch, flush failed *)
Lemma eager_uncache_loses_nodes :
  covered [7%N] (mkTdb [7%N] []) /\ ~ covered [7%N] (commit_failed_eager [] [7%N] (mkTdb [7%N] [])).
Proof.
  split.
  - intros h [<-|[]]. left. left. reflexivity.
  - intro C. destruct (C 7%N (or_introl eq_refl)) as [M|D]; [cbn in M|cbn in D]; contradiction.
Qed.

Theorem uncache_discipline : forall (univ w p : list N) (s : tdb),
  covered univ s -> covered univ (commit_ok w s) /\ covered univ (commit_failed p s).
Proof. intros univ w p s C. split; [apply covered_commit_ok|apply covered_commit_failed]; exact C. Qed.
