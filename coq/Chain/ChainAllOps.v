(* Chain/ChainAllOps.v — content soundness of the chain database under EVERY
   operation of Chain/Store.v (InsertChain, InsertHeaderChain, SetHead, Rollback,
   close/reopen, in any order, any validity oracle, any coins, including the
   error / panic / fuel / unmodelled exits).

   The presence / absence clauses of C03 are false after SetHead and after a
   reorganisation to a shorter branch (stale entries, orphans).  What holds for
   every history is that the records that ARE on disk are never wrong about
   content: a stored header / body / number / TD / canonical-number / lookup
   record agrees with the block universe.

   Method: one predicate [GoodKV k v] ("value v is the universe's value for key
   k"); the disk is sound iff every binding is good.  A good Put keeps it, a
   Del always keeps it, a Batch of good puts keeps it; every function of Store.v
   is then threaded write by write. *)
From Coq Require Import NArith List Bool Lia ZifyBool ZifyN ZifyNat.
From AQ Require Import Chain.Store Chain.ChainSpec Chain.ChainProofs Chain.Crash Chain.CrashProofs Chain.ChainReopen.
Import ListNotations.
Local Open Scope N_scope.

Lemma dec64_succ : forall k, k + 1 < two64 -> dec64 (k + 1) = k.
Proof.
  intros k Hk. unfold dec64.
  replace (k + 1 + two64 - 1) with (k + 1 * two64) by lia.
  rewrite N.mod_add by (unfold two64; discriminate).
  apply N.mod_small. lia.
Qed.

Section AllOps.
Variable U : N -> sblock.          (* THE header and transactions of each hash *)
Variable utd : N -> N.             (* the universe's total difficulty of each hash *)
Variable g : header.
Hypothesis Ug : U (h_hash g) = (g, []).
Hypothesis g0 : h_number g = 0.
Hypothesis utd_g : utd (h_hash g) = h_diff g.
Hypothesis gp : h_parent g = 0.    (* the genesis block's parent hash is common.Hash{} *)

(* a delivered header: it is the universe's header of its hash, one above its
   parent, its TD is the parent's plus its difficulty, its number is a uint64 *)
Definition wfH (hd : header) : Prop :=
  hd = fst (U (h_hash hd)) /\
  h_number hd = h_number (fst (U (h_parent hd))) + 1 /\
  utd (h_hash hd) = utd (h_parent hd) + h_diff hd /\
  h_number hd < two64.
(* a delivered block: additionally its transactions are the universe's *)
Definition wfU (b : block) : Prop := to_s b = U (h_hash (b_hdr b)) /\ wfH (b_hdr b).

(* the link facts of a non-genesis header *)
Definition linked (hd : header) : Prop :=
  h_number hd = h_number (fst (U (h_parent hd))) + 1 /\
  h_number hd < two64 /\
  utd (h_hash hd) = utd (h_parent hd) + h_diff hd.

(* value v is right for key k *)
Definition GoodKV (k : key) (v : value) : Prop :=
  match k, v with
  | KHeader h, VHeader hd => hd = fst (U h) /\ h_hash hd = h /\ (h <> h_hash g -> linked hd)
  | KBody h, VTxs l => l = snd (U h)
  | KHashNum h, VNum n => n = h_number (fst (U h))
  | KTd h, VNum t => t = utd h
  | KCanon n, VHash h => h <> 0 -> h_number (fst (U h)) = n
  | KLookup t, VLookup h n i => n = h_number (fst (U h)) /\ nth_error (snd (U h)) (N.to_nat i) = Some t
  | _, _ => True
  end.

Definition SoundG (d : disk) : Prop := forall k v, get d k = Some v -> GoodKV k v.

(* the six clauses (plus the link clause of stored headers) *)
Definition Sound (d : disk) : Prop :=
  (forall h hd, header_of d h = Some hd -> hd = fst (U h) /\ h_hash hd = h) /\
  (forall h l, body_of d h = Some l -> l = snd (U h)) /\
  (forall h n, number_of d h = Some n -> n = h_number (fst (U h))) /\
  (forall h t, td_of d h = Some t -> t = utd h) /\
  (forall n h, canon d n = h -> h <> 0 -> h_number (fst (U h)) = n) /\
  (forall t h n i, lookup_of d t = Some (h, n, i) ->
     n = h_number (fst (U h)) /\ nth_error (snd (U h)) (N.to_nat i) = Some t) /\
  (forall h hd, header_of d h = Some hd -> h <> h_hash g -> linked hd).

Lemma soundG_sound : forall d, SoundG d -> Sound d.
Proof.
  intros d S. unfold Sound.
  split; [|split; [|split; [|split; [|split; [|split]]]]].
  - intros h hd H. unfold header_of in H. destruct (get d (KHeader h)) as [[]|] eqn:E; try discriminate. injection H as <-.
    destruct (S _ _ E) as (A & B & _). split; assumption.
  - intros h l H. unfold body_of in H. destruct (get d (KBody h)) as [[]|] eqn:E; try discriminate. injection H as <-. apply (S _ _ E).
  - intros h n H. unfold number_of in H. destruct (get d (KHashNum h)) as [[]|] eqn:E; try discriminate. injection H as <-. apply (S _ _ E).
  - intros h t H. unfold td_of in H. destruct (get d (KTd h)) as [[]|] eqn:E; try discriminate. injection H as <-. apply (S _ _ E).
  - intros n h H Hnz. unfold canon in H. destruct (get d (KCanon n)) as [[]|] eqn:E; try (exfalso; apply Hnz; symmetry; exact H).
    subst h0. apply (S _ _ E). exact Hnz.
  - intros t h n i H. unfold lookup_of in H. destruct (get d (KLookup t)) as [[]|] eqn:E; try discriminate. injection H as <- <- <-. apply (S _ _ E).
  - intros h hd H Ne. unfold header_of in H. destruct (get d (KHeader h)) as [[]|] eqn:E; try discriminate. injection H as <-.
    destruct (S _ _ E) as (_ & _ & L). apply L. exact Ne.
Qed.

(* ---------------------------------------------------------------- writes *)

Lemma soundG_put : forall d k v, SoundG d -> GoodKV k v -> SoundG (put k v d).
Proof.
  intros d k v S G k' v' H. rewrite get_put in H.
  destruct (key_eq_dec k' k) as [->|]; [injection H as <-; exact G|apply S; exact H].
Qed.
Lemma soundG_del : forall d k, SoundG d -> SoundG (del k d).
Proof.
  intros d k S k' v' H. rewrite get_del in H.
  destruct (key_eq_dec k' k); [discriminate|apply S; exact H].
Qed.
Definition GoodBop (kv : key * option value) : Prop :=
  match snd kv with Some v => GoodKV (fst kv) v | None => True end.
Lemma soundG_batch : forall l d, SoundG d -> Forall GoodBop l -> SoundG (fold_left apply_bop l d).
Proof.
  induction l as [|[k ov] l IH]; intros d S F; cbn [fold_left]; [exact S|].
  inversion F as [|x l' Hx Hl]; subst. apply IH; [|exact Hl].
  unfold apply_bop; cbn [fst snd]. unfold GoodBop in Hx; cbn [fst snd] in Hx.
  destruct ov; [apply soundG_put; assumption|apply soundG_del; assumption].
Qed.

(* ---------------------------------------------------------------- memory *)

Definition UB (b : sblock) : Prop := b = U (s_hash b).
Definition UH (hd : header) : Prop := hd = fst (U (h_hash hd)).
Definition MemOK (s : st) : Prop :=
  cur_block s = U (s_hash (cur_block s)) /\
  cur_header s = fst (U (h_hash (cur_header s))) /\
  cur_fast s = U (s_hash (cur_fast s)) /\
  genesis s = U (s_hash (genesis s)).
Definition Good (s : st) : Prop := SoundG (dsk s) /\ MemOK s.

Lemma UB_UH : forall b, UB b -> UH (fst b).
Proof. intros b H. unfold UB, UH in *. unfold s_hash in H. rewrite <- H. reflexivity. Qed.

Lemma good_put : forall s k v, Good s -> GoodKV k v -> Good (emit (Put k v) s).
Proof. intros s k v [S M] G. split; [cbn [dsk emit apply_wop]; apply soundG_put; assumption|exact M]. Qed.
Lemma good_del : forall s k, Good s -> Good (emit (Del k) s).
Proof. intros s k [S M]. split; [cbn [dsk emit apply_wop]; apply soundG_del; assumption|exact M]. Qed.
Lemma good_batch : forall s l, Good s -> Forall GoodBop l -> Good (emit (Batch l) s).
Proof. intros s l [S M] F. split; [cbn [dsk emit apply_wop]; apply soundG_batch; assumption|exact M]. Qed.
Lemma good_set_cur_block : forall s b, Good s -> UB b -> Good (set_cur_block b s).
Proof. intros s b [S (M1 & M2 & M3 & M4)] Hb. split; [exact S|]. unfold MemOK; cbn [set_cur_block cur_block cur_header cur_fast genesis]. auto. Qed.
Lemma good_set_cur_header : forall s hd, Good s -> UH hd -> Good (set_cur_header hd s).
Proof. intros s b [S (M1 & M2 & M3 & M4)] Hb. split; [exact S|]. unfold MemOK; cbn [set_cur_header cur_block cur_header cur_fast genesis]. auto. Qed.
Lemma good_set_cur_fast : forall s b, Good s -> UB b -> Good (set_cur_fast b s).
Proof. intros s b [S (M1 & M2 & M3 & M4)] Hb. split; [exact S|]. unfold MemOK; cbn [set_cur_fast cur_block cur_header cur_fast genesis]. auto. Qed.
Lemma good_set_genesis : forall s b, Good s -> UB b -> Good (set_genesis b s).
Proof. intros s b [S (M1 & M2 & M3 & M4)] Hb. split; [exact S|]. unfold MemOK; cbn [set_genesis cur_block cur_header cur_fast genesis]. auto. Qed.
Lemma good_set_coins : forall s c, Good s -> Good (set_coins c s).
Proof. intros s c G. exact G. Qed.

Lemma good_UB_cur : forall s, Good s -> UB (cur_block s). Proof. intros s [_ (M & _)]. exact M. Qed.
Lemma good_UH_cur : forall s, Good s -> UH (cur_header s). Proof. intros s [_ (_ & M & _)]. exact M. Qed.
Lemma good_UB_fast : forall s, Good s -> UB (cur_fast s). Proof. intros s [_ (_ & _ & M & _)]. exact M. Qed.
Lemma good_UB_gen : forall s, Good s -> UB (genesis s). Proof. intros s [_ (_ & _ & _ & M)]. exact M. Qed.

(* ---------------------------------------------------------------- reads *)

Lemma read_header : forall d h x, SoundG d -> header_of d h = Some x ->
  x = fst (U h) /\ h_hash x = h /\ (h <> h_hash g -> linked x).
Proof.
  intros d h x S H. unfold header_of in H. destruct (get d (KHeader h)) as [[]|] eqn:E; try discriminate.
  injection H as <-. apply (S _ _ E).
Qed.
Lemma read_header_UH : forall d h x, SoundG d -> header_of d h = Some x -> UH x.
Proof. intros d h x S H. destruct (read_header _ _ _ S H) as (A & B & _). unfold UH. rewrite B. exact A. Qed.
Lemma read_body : forall d h l, SoundG d -> body_of d h = Some l -> l = snd (U h).
Proof.
  intros d h l S H. unfold body_of in H. destruct (get d (KBody h)) as [[]|] eqn:E; try discriminate.
  injection H as <-. apply (S _ _ E).
Qed.
Lemma read_td : forall d h t, SoundG d -> td_of d h = Some t -> t = utd h.
Proof.
  intros d h t S H. unfold td_of in H. destruct (get d (KTd h)) as [[]|] eqn:E; try discriminate.
  injection H as <-. apply (S _ _ E).
Qed.
Lemma read_block : forall d h b, SoundG d -> block_of d h = Some b -> UB b.
Proof.
  intros d h b S H. unfold block_of in H.
  destruct (header_of d h) as [x|] eqn:Eh; [|discriminate].
  destruct (body_of d h) as [l|] eqn:Eb; [|discriminate]. injection H as <-.
  destruct (read_header _ _ _ S Eh) as (A & B & _). pose proof (read_body _ _ _ S Eb) as C.
  unfold UB, s_hash; cbn [fst]. rewrite B. rewrite A at 1. rewrite C. symmetry. apply surjective_pairing.
Qed.
Lemma read_bbh : forall d h b, SoundG d -> block_by_hash d h = Some b -> UB b.
Proof. intros d h b S H. unfold block_by_hash in H. destruct (number_of d h); [|discriminate]. eapply read_block; eassumption. Qed.
Lemma read_hbh : forall d h x, SoundG d -> header_by_hash d h = Some x -> UH x.
Proof. intros d h x S H. unfold header_by_hash in H. destruct (number_of d h); [|discriminate]. eapply read_header_UH; eassumption. Qed.

(* ---------------------------------------------------------------- BlockChain.insert, lookups *)

Lemma UB_canon : forall b, UB b -> GoodKV (KCanon (s_num b)) (VHash (s_hash b)).
Proof. intros b H _. unfold UB in H. unfold s_num. rewrite <- H. reflexivity. Qed.

Lemma bc_insert_good : forall b s, Good s -> UB b -> Good (bc_insert b s).
Proof.
  intros b s G Hb. unfold bc_insert.
  assert (G1 : Good (set_cur_block b (emit (Put KHeadBlock (VHash (s_hash b))) (emit (Put (KCanon (s_num b)) (VHash (s_hash b))) s)))).
  { apply good_set_cur_block; [|exact Hb]. apply good_put; [|exact I]. apply good_put; [exact G|apply UB_canon; exact Hb]. }
  destruct (negb (canon (dsk s) (s_num b) =? s_hash b)); [|exact G1].
  apply good_set_cur_fast; [|exact Hb]. apply good_put; [|exact I].
  apply good_set_cur_header; [|apply UB_UH; exact Hb]. apply good_put; [exact G1|exact I].
Qed.

Definition GoodPut (kv : key * value) : Prop := GoodKV (fst kv) (snd kv).

Lemma lookup_puts_good : forall h n txs pre i,
  n = h_number (fst (U h)) -> snd (U h) = pre ++ txs -> N.to_nat i = length pre ->
  Forall GoodPut (lookup_puts h n i txs).
Proof.
  intros h n txs. induction txs as [|t r IH]; intros pre i Hn Hs Hi; cbn [lookup_puts]; [constructor|].
  constructor.
  - unfold GoodPut; cbn [fst snd GoodKV]. split; [exact Hn|].
    rewrite Hs, Hi. rewrite nth_error_app2 by apply le_n. replace (length pre - length pre)%nat with O by lia. reflexivity.
  - apply (IH (pre ++ [t])); [exact Hn|rewrite <- app_assoc; exact Hs|].
    rewrite app_length; cbn [length]. lia.
Qed.

Lemma fold_put_good : forall l s, Good s -> Forall GoodPut l ->
  Good (fold_left (fun s kv => emit (Put (fst kv) (snd kv)) s) l s).
Proof.
  induction l as [|kv l IH]; intros s G F; cbn [fold_left]; [exact G|].
  inversion F as [|x l' Hx Hl]; subst. apply IH; [|exact Hl]. apply good_put; [exact G|exact Hx].
Qed.

Lemma write_lookups_good : forall b s, Good s -> UB b -> Good (write_lookups_direct b s).
Proof.
  intros b s G Hb. unfold write_lookups_direct. apply fold_put_good; [exact G|].
  apply (lookup_puts_good _ _ _ []).
  - unfold UB in Hb. unfold s_num. rewrite <- Hb. reflexivity.
  - unfold UB in Hb. rewrite <- Hb. reflexivity.
  - reflexivity.
Qed.

(* ---------------------------------------------------------------- BlockChain.reorg *)

Definition UBo (b : option sblock) : Prop := forall x, b = Some x -> UB x.

Lemma walk_UB : forall fuel d b target acc r racc, SoundG d -> UBo b -> Forall UB acc ->
  walk fuel d b target acc = Some (r, racc) -> UBo r /\ Forall UB racc.
Proof.
  induction fuel as [|f IH]; intros d b target acc r racc S Hb Ha H; cbn [walk] in H; [discriminate|].
  destruct b as [x|].
  - destruct (s_num x =? target).
    + injection H as <- <-. split; assumption.
    + apply (IH _ _ _ _ _ _ S) in H; [exact H| |].
      * intros y Hy. eapply read_block; eassumption.
      * apply Forall_app. split; [exact Ha|]. constructor; [apply Hb; reflexivity|constructor].
  - injection H as <- <-. split; assumption.
Qed.

Lemma lockstep_UB : forall fuel d o n oc nc oc' nc', SoundG d -> UB o -> UB n -> Forall UB oc -> Forall UB nc ->
  lockstep fuel d o n oc nc = LOk oc' nc' -> Forall UB oc' /\ Forall UB nc'.
Proof.
  induction fuel as [|f IH]; intros d o n oc nc oc' nc' S Ho Hn Hoc Hnc H; cbn [lockstep] in H; [discriminate|].
  destruct (s_hash o =? s_hash n).
  - injection H as <- <-. split; assumption.
  - destruct (block_of d (s_parent o)) as [o'|] eqn:Eo; [|discriminate].
    destruct (block_of d (s_parent n)) as [n'|] eqn:En; [|discriminate].
    apply (IH _ _ _ _ _ _ _ S) in H; [exact H| | | |].
    + eapply read_block; eassumption.
    + eapply read_block; eassumption.
    + apply Forall_app. split; [exact Hoc|]. constructor; [exact Ho|constructor].
    + apply Forall_app. split; [exact Hnc|]. constructor; [exact Hn|constructor].
Qed.

Lemma fold_insert_good : forall l s, Good s -> Forall UB l ->
  Good (fold_left (fun s b => write_lookups_direct b (bc_insert b s)) l s).
Proof.
  induction l as [|b l IH]; intros s G F; cbn [fold_left]; [exact G|].
  inversion F as [|x l' Hx Hl]; subst. apply IH; [|exact Hl].
  apply write_lookups_good; [|exact Hx]. apply bc_insert_good; assumption.
Qed.

Lemma fold_del_good : forall l s, Good s -> Good (fold_left (fun s t => emit (Del (KLookup t)) s) l s).
Proof. induction l as [|t l IH]; intros s G; cbn [fold_left]; [exact G|]. apply IH. apply good_del. exact G. Qed.

Lemma reorg_good : forall fuel o n s, Good s -> UB o -> UB n -> Good (snd (reorg fuel o n s)).
Proof.
  intros fuel o n s G Ho Hn. unfold reorg.
  assert (So : UBo (Some o)) by (intros x Hx; injection Hx as <-; exact Ho).
  assert (Sn : UBo (Some n)) by (intros x Hx; injection Hx as <-; exact Hn).
  destruct G as [S M].
  destruct (s_num n <? s_num o).
  - destruct (walk fuel (dsk s) (Some o) (s_num n) []) as [[[x|] oc]|] eqn:W; cbn [snd]; try (split; assumption).
    destruct (walk_UB _ _ _ _ _ _ _ S So (Forall_nil _) W) as [Hx Hoc].
    destruct (lockstep fuel (dsk s) x n oc []) as [|e|oc' nc'] eqn:L; cbn [snd]; try (split; assumption).
    destruct (lockstep_UB _ _ _ _ _ _ _ _ S (Hx _ eq_refl) Hn Hoc (Forall_nil _) L) as [_ Hnc].
    apply fold_del_good. apply fold_insert_good; [split; assumption|apply Forall_rev; exact Hnc].
  - destruct (walk fuel (dsk s) (Some n) (s_num o) []) as [[[x|] nc]|] eqn:W; cbn [snd]; try (split; assumption).
    destruct (walk_UB _ _ _ _ _ _ _ S Sn (Forall_nil _) W) as [Hx Hnc0].
    destruct (lockstep fuel (dsk s) o x [] nc) as [|e|oc' nc'] eqn:L; cbn [snd]; try (split; assumption).
    destruct (lockstep_UB _ _ _ _ _ _ _ _ S Ho (Hx _ eq_refl) (Forall_nil _) Hnc0 L) as [_ Hnc].
    apply fold_del_good. apply fold_insert_good; [split; assumption|apply Forall_rev; exact Hnc].
Qed.

(* ---------------------------------------------------------------- WriteBlockWithState / WriteBlockWithoutState *)

Lemma wfH_ne_g : forall hd, wfH hd -> h_hash hd <> h_hash g.
Proof.
  intros hd (A & B & _) E. rewrite E, Ug in A. cbn [fst] in A. subst hd. clear - B g0. lia.
Qed.
Lemma wfH_header : forall hd, wfH hd -> GoodKV (KHeader (h_hash hd)) (VHeader hd).
Proof. intros hd (A & B & C & D). cbn [GoodKV]. split; [exact A|split; [reflexivity|]]. intros _. split; [exact B|split; [exact D|exact C]]. Qed.
Lemma wfH_num : forall hd, wfH hd -> GoodKV (KHashNum (h_hash hd)) (VNum (h_number hd)).
Proof. intros hd (A & _). cbn [GoodKV]. rewrite <- A. reflexivity. Qed.
Lemma wfH_td : forall hd d ptd, wfH hd -> SoundG d -> td_of d (h_parent hd) = Some ptd ->
  GoodKV (KTd (h_hash hd)) (VNum (h_diff hd + ptd)).
Proof.
  intros hd d ptd (_ & _ & C & _) S H. cbn [GoodKV]. rewrite (read_td _ _ _ S H). rewrite C. apply N.add_comm.
Qed.
Lemma wfU_UB : forall b, wfU b -> UB (to_s b).
Proof. intros b [A _]. unfold UB. unfold s_hash, to_s at 2; cbn [fst]. exact A. Qed.
Lemma wfU_body : forall b, wfU b -> GoodKV (KBody (h_hash (b_hdr b))) (VTxs (b_txs b)).
Proof. intros b [A _]. cbn [GoodKV]. rewrite <- A. reflexivity. Qed.

Lemma good_map_puts : forall l, Forall GoodPut l -> Forall GoodBop (map (fun kv : key * value => (fst kv, Some (snd kv))) l).
Proof. intros l F. apply Forall_map. exact F. Qed.

Lemma wfU_lookups : forall b, wfU b -> Forall GoodPut (lookup_puts (h_hash (b_hdr b)) (h_number (b_hdr b)) 0 (b_txs b)).
Proof.
  intros b [A _]. apply (lookup_puts_good _ _ _ []).
  - rewrite <- A. reflexivity.
  - rewrite <- A. reflexivity.
  - reflexivity.
Qed.

Lemma wbws_good : forall b s, wfU b -> Good s -> Good (snd (write_block_with_state b s)).
Proof.
  intros b s W G. unfold write_block_with_state.
  pose proof W as [WA WH].
  set (hd := b_hdr b) in *. set (txs := b_txs b). set (h := h_hash hd).
  destruct (td_of (dsk s) (h_parent hd)) as [ptd|] eqn:Eptd; [|exact G].
  cbv zeta. set (ext := h_diff hd + ptd).
  set (s1 := emit (Put (KState (h_root hd)) VUnit) (emit (Put (KTd h) (VNum ext)) s)).
  assert (G1 : Good s1).
  { unfold s1. apply good_put; [|exact I]. apply good_put; [exact G|]. apply (wfH_td hd (dsk s)); [exact WH|apply G|exact Eptd]. }
  destruct (td_of (dsk s) (s_hash (cur_block s))) as [ltd|]; [|exact G1].
  assert (B4 : Forall GoodBop ([(KBody h, Some (VTxs txs)); (KHashNum h, Some (VNum (h_number hd))); (KHeader h, Some (VHeader hd))]
                               ++ [(KReceipts h, Some (VTxs txs))])).
  { cbn [app].
    constructor; [exact (wfU_body b W)|].
    constructor; [exact (wfH_num hd WH)|].
    constructor; [exact (wfH_header hd WH)|].
    constructor; [exact I|constructor]. }
  assert (Hside : forall s1', Good s1' ->
            Good (emit (Batch ([(KBody h, Some (VTxs txs)); (KHashNum h, Some (VNum (h_number hd))); (KHeader h, Some (VHeader hd))]
                               ++ [(KReceipts h, Some (VTxs txs))])) s1')).
  { intros s1' G'. apply good_batch; assumption. }
  assert (Hmain : forall s1', Good s1' ->
            Good (snd (let r := if h_parent hd =? s_hash (cur_block s) then (SOk, s1')
                               else reorg (reorg_fuel s1' (h_number hd)) (cur_block s) (to_s b) s1' in
                      match r with
                      | (SOk, s0) =>
                        (SOk, bc_insert (to_s b)
                           (emit (Batch (([(KBody h, Some (VTxs txs)); (KHashNum h, Some (VNum (h_number hd))); (KHeader h, Some (VHeader hd))]
                               ++ [(KReceipts h, Some (VTxs txs))])
                               ++ map (fun kv : key * value => (fst kv, Some (snd kv))) (lookup_puts h (h_number hd) 0 txs))) s0))
                      | other => other
                      end))).
  { intros s1' G'. cbv zeta.
    set (r := if h_parent hd =? s_hash (cur_block s) then (SOk, s1')
              else reorg (reorg_fuel s1' (h_number hd)) (cur_block s) (to_s b) s1').
    assert (Hr : Good (snd r)).
    { unfold r. destruct (h_parent hd =? s_hash (cur_block s)); [exact G'|].
      apply reorg_good; [exact G'|apply good_UB_cur; exact G|apply wfU_UB; exact W]. }
    destruct r as [e s3]. cbn [snd] in Hr.
    destruct e; cbn [snd]; try exact Hr.
    apply bc_insert_good; [|apply wfU_UB; exact W].
    apply good_batch; [exact Hr|]. apply Forall_app. split; [exact B4|].
    apply good_map_puts. apply (wfU_lookups b W). }
  destruct (ltd <? ext).
  { apply (Hmain s1); exact G1. }
  destruct (ext =? ltd).
  2:{ cbn [snd]. apply (Hside s1); exact G1. }
  destruct (h_number hd <? s_num (cur_block s)).
  { apply (Hmain s1); exact G1. }
  destruct (h_number hd =? s_num (cur_block s)).
  2:{ cbn [snd]. apply (Hside s1); exact G1. }
  destruct (coins s1) as [|c rest] eqn:Ec; [exact G1|].
  destruct c.
  - apply (Hmain (set_coins rest s1)). exact G1.
  - cbn [snd]. apply (Hside (set_coins rest s1)). exact G1.
Qed.

Lemma wbwos_good : forall b ptd s, wfU b -> Good s -> td_of (dsk s) (h_parent (b_hdr b)) = Some ptd ->
  Good (write_block_without_state b (ptd + h_diff (b_hdr b)) s).
Proof.
  intros b ptd s W G Hp. pose proof W as [WA WH]. unfold write_block_without_state.
  apply good_put; [|apply (wfH_header _ WH)].
  apply good_put; [|apply (wfH_num _ WH)].
  apply good_put; [|apply (wfU_body b W)].
  apply good_put; [exact G|].
  rewrite N.add_comm. apply (wfH_td _ (dsk s)); [exact WH|apply G|exact Hp].
Qed.

(* ---------------------------------------------------------------- InsertChain *)

Lemma ic_loop_good : forall chain prev idx s, (forall b, In b chain -> wfU b) -> Good s -> Good (snd (ic_loop prev idx chain s)).
Proof.
  induction chain as [|b rest IH]; intros prev idx s Hw G; [exact G|].
  assert (Wb : wfU b) by (apply Hw; left; reflexivity).
  assert (IH' : forall prev idx s, Good s -> Good (snd (ic_loop prev idx rest s))) by (intros; apply IH; [intros; apply Hw; right; assumption|assumption]).
  rewrite ic_loop_cons.
  assert (Hproc : Good (snd (ic_process prev idx b s (ic_loop (Some b) (idx + 1) rest)))).
  { unfold ic_process.
    destruct (match prev with Some p => Some (h_root (b_hdr p)) | None => option_map s_root (block_of (dsk s) (h_parent (b_hdr b))) end); [|exact G].
    destruct (negb (has_state (dsk s) n)); [exact G|].
    destruct (negb (b_valid b)); [exact G|].
    pose proof (wbws_good b s Wb G) as Hwb.
    destruct (write_block_with_state b s) as [e s']. cbn [snd] in Hwb.
    destruct e; try exact Hwb. apply IH'. exact Hwb. }
  destruct (validate_body (dsk s) (b_hdr b)).
  - destruct (h_number (b_hdr b) <=? s_num (cur_block s)); [apply IH'; exact G|exact Hproc].
  - exact G.
  - destruct (td_of (dsk s) (s_hash (cur_block s))); [|exact G].
    destruct (td_of (dsk s) (h_parent (b_hdr b))) as [ptd|] eqn:Ep; [|exact G].
    cbv zeta. destruct (_ <? _); [|exact G]. apply IH'. apply (wbwos_good b ptd s Wb G Ep).
  - exact Hproc.
Qed.

Lemma insert_chain_good : forall chain cs s, (forall b, In b chain -> wfU b) -> Good s -> Good (snd (insert_chain chain cs s)).
Proof.
  intros chain cs s Hw G. unfold insert_chain. destruct chain as [|b r]; [exact G|].
  apply ic_loop_good; [|exact G].
  intros x [<-|Hx]; [apply Hw; left; reflexivity|apply Hw; right; eapply cp_sub; exact Hx].
Qed.

(* ---------------------------------------------------------------- Rollback *)

Lemma bind_good : forall (r : R) (k : st -> R),
  Good (snd r) -> (forall s', Good s' -> Good (snd (k s'))) ->
  Good (snd (match r with (SOk, s') => k s' | other => other end)).
Proof. intros [e s'] k Hr Hk. cbn [snd] in Hr. destruct e; try exact Hr. apply Hk. exact Hr. Qed.

Lemma rollback_loop_good : forall hs s, Good s -> Good (snd (rollback_loop hs s)).
Proof.
  induction hs as [|h rest IH]; intros s G; [exact G|]. cbn [rollback_loop].
  apply bind_good.
  { destruct (h_hash (cur_header s) =? h); [|exact G].
    destruct (header_of (dsk s) (h_parent (cur_header s))) as [ph|] eqn:E; [|exact G]. cbn [snd].
    apply good_set_cur_header; [apply good_put; [exact G|exact I]|]. eapply read_header_UH; [apply G|exact E]. }
  intros s1 H1. apply bind_good.
  { destruct (s_hash (cur_fast s1) =? h); [|exact H1].
    destruct (block_of (dsk s1) (s_parent (cur_fast s1))) as [pb|] eqn:E; [|exact H1]. cbn [snd].
    apply good_put; [|exact I]. apply good_set_cur_fast; [exact H1|]. eapply read_block; [apply H1|exact E]. }
  intros s2 H2. apply bind_good.
  { destruct (s_hash (cur_block s2) =? h); [|exact H2].
    destruct (block_of (dsk s2) (s_parent (cur_block s2))) as [pb|] eqn:E; [|exact H2]. cbn [snd].
    apply good_put; [|exact I]. apply good_set_cur_block; [exact H2|]. eapply read_block; [apply H2|exact E]. }
  intros s3 H3. apply IH. exact H3.
Qed.

Lemma rollback_good : forall hs s, Good s -> Good (snd (rollback hs s)).
Proof. intros hs s G. unfold rollback. apply rollback_loop_good. exact G. Qed.

(* ---------------------------------------------------------------- loadLastState / reopen *)

Lemma load_last_state_good : forall s, Good s -> Good (snd (load_last_state s)).
Proof.
  intros s G. unfold load_last_state.
  destruct (head_ptr (dsk s) KHeadBlock =? 0); [exact G|].
  destruct (block_by_hash (dsk s) (head_ptr (dsk s) KHeadBlock)) as [cb|] eqn:Ecb; [|exact G].
  destruct (negb (has_state (dsk s) (s_root cb))); [exact G|].
  assert (Hcb : UB cb) by (eapply read_bbh; [apply G|exact Ecb]).
  cbn [snd].
  apply good_set_cur_fast.
  - apply good_set_cur_header.
    + apply good_put; [|exact I]. apply good_set_cur_block; assumption.
    + destruct (head_ptr (dsk s) KHeadHeader =? 0); [apply UB_UH; exact Hcb|].
      destruct (header_by_hash (dsk s) (head_ptr (dsk s) KHeadHeader)) as [x|] eqn:Ex; [|apply UB_UH; exact Hcb].
      eapply read_hbh; [apply G|exact Ex].
  - destruct (head_ptr (dsk s) KHeadFast =? 0); [exact Hcb|].
    destruct (block_by_hash (dsk s) (head_ptr (dsk s) KHeadFast)) as [x|] eqn:Ex; [|exact Hcb].
    eapply read_bbh; [apply G|exact Ex].
Qed.

Lemma reopen_good : forall s, Good s -> Good (snd (reopen s)).
Proof.
  intros s G. unfold reopen.
  destruct (header_of (dsk s) (canon (dsk s) 0)) as [gh|] eqn:Egh; [|exact G].
  destruct (block_of (dsk s) (canon (dsk s) 0)) as [gb|] eqn:Egb; [|exact G].
  assert (Hgh : UH gh) by (eapply read_header_UH; [apply G|exact Egh]).
  assert (Hgb : UB gb) by (eapply read_block; [apply G|exact Egb]).
  apply load_last_state_good.
  apply good_set_cur_fast; [|exact Hgb]. apply good_set_cur_block; [|exact Hgb].
  apply good_set_cur_header.
  - apply good_set_genesis; [|exact Hgb]. apply good_set_coins. exact G.
  - destruct (head_ptr (dsk s) KHeadBlock =? 0); [exact Hgh|].
    destruct (header_by_hash (dsk s) (head_ptr (dsk s) KHeadBlock)) as [x|] eqn:Ex; [|exact Hgh].
    eapply read_hbh; [apply G|exact Ex].
Qed.

(* ---------------------------------------------------------------- SetHead *)

Definition UHo (x : option header) : Prop := forall y, x = Some y -> UH y.

Lemma sh_loop_good : forall fuel head hdr s r s', Good s -> UHo hdr ->
  sh_loop fuel head hdr s = Some (r, s') -> Good s' /\ UHo r.
Proof.
  induction fuel as [|f IH]; intros head hdr s r s' G Hh H; cbn [sh_loop] in H; [discriminate|].
  destruct hdr as [x|].
  - destruct (head <? h_number x).
    + apply IH in H; [exact H| |].
      * repeat apply good_del. exact G.
      * intros y Hy. eapply read_header_UH; [|exact Hy]. repeat apply good_del. exact G.
    + injection H as <- <-. split; assumption.
  - injection H as <- <-. split; assumption.
Qed.

Lemma del_canon_down_good : forall cnt i s, Good s -> Good (del_canon_down cnt i s).
Proof. induction cnt as [|c IH]; intros i s G; cbn [del_canon_down]; [exact G|]. apply IH. apply good_del. exact G. Qed.

Lemma del_canon_down_mem : forall cnt i s,
  cur_block (del_canon_down cnt i s) = cur_block s /\ cur_fast (del_canon_down cnt i s) = cur_fast s /\
  genesis (del_canon_down cnt i s) = genesis s.
Proof. induction cnt as [|c IH]; intros i s; cbn [del_canon_down]; [auto|]. destruct (IH (i - 1) (emit (Del (KCanon i)) s)) as (A & B & C). rewrite A, B, C. auto. Qed.

Lemma set_head_good : forall head s, Good s -> Good (snd (set_head head s)).
Proof.
  intros head s G. unfold set_head.
  assert (H0 : UHo (Some (cur_header s))) by (intros y Hy; injection Hy as <-; apply good_UH_cur; exact G).
  destruct (sh_loop (S (S (N.to_nat (h_number (cur_header s))))) head (Some (cur_header s)) s) as [[hdr s1]|] eqn:E; [|exact G].
  destruct (sh_loop_good _ _ _ _ _ _ G H0 E) as [G1 Hhdr].
  cbv zeta.
  set (s2 := del_canon_down (N.to_nat (h_number (cur_header s) - head)) (h_number (cur_header s)) s1).
  assert (G2 : Good s2) by (apply del_canon_down_good; exact G1).
  set (ch := match hdr with Some x => x | None => fst (genesis s2) end).
  assert (Hch : UH ch).
  { unfold ch. destruct hdr as [x|]; [apply Hhdr; reflexivity|apply UB_UH, good_UB_gen; exact G2]. }
  set (s3 := emit (Put KHeadHeader (VHash (h_hash ch))) (set_cur_header ch s2)).
  assert (G3 : Good s3) by (apply good_put; [apply good_set_cur_header; assumption|exact I]).
  apply load_last_state_good.
  apply good_put; [|exact I]. apply good_put; [|exact I].
  pose proof (good_UB_cur _ G3) as Mb. pose proof (good_UB_fast _ G3) as Mf. pose proof (good_UB_gen _ G3) as Mg.
  apply good_set_cur_fast; [apply good_set_cur_block; [exact G3|]|].
  - destruct (h_number ch <? s_num (cur_block s3)).
    + destruct (block_of (dsk s3) (h_hash ch)) as [x|] eqn:Ex; [|exact Mg].
      destruct (has_state (dsk s3) (s_root x)); [|exact Mg]. eapply read_block; [apply G3|exact Ex].
    + destruct (has_state (dsk s3) (s_root (cur_block s3))); [exact Mb|exact Mg].
  - destruct (h_number ch <? s_num (cur_fast s3)); [|exact Mf].
    destruct (block_of (dsk s3) (h_hash ch)) as [x|] eqn:Ex; [|exact Mg]. eapply read_block; [apply G3|exact Ex].
Qed.

(* ---------------------------------------------------------------- HeaderChain.WriteHeader / InsertHeaderChain *)

Lemma del_canon_above_good : forall fuel i s s', Good s -> del_canon_above fuel i s = Some s' -> Good s'.
Proof.
  induction fuel as [|f IH]; intros i s s' G H; cbn [del_canon_above] in H; [discriminate|].
  destruct (canon (dsk s) i =? 0).
  - injection H as <-. exact G.
  - eapply IH; [|exact H]. apply good_del. exact G.
Qed.

(* the canonical entry written for a parent link: the parent's height is the child's minus one *)
Definition CanonLink (hh hn : N) : Prop := hh <> 0 -> h_number (fst (U hh)) = hn.

Lemma link_step : forall hh x, x = fst (U hh) -> (hh <> h_hash g -> linked x) -> CanonLink (h_parent x) (dec64 (h_number x)).
Proof.
  intros hh x Hx Hl Hnz.
  destruct (N.eq_dec hh (h_hash g)) as [E|Ne].
  - exfalso. apply Hnz. rewrite Hx, E, Ug. cbn [fst]. exact gp.
  - destruct (Hl Ne) as (A & B & _). rewrite A in *. rewrite dec64_succ by exact B. reflexivity.
Qed.

Lemma rewrite_canon_good : forall fuel hh hn hhd s, Good s -> CanonLink hh hn ->
  (forall x, hhd = Some x -> x = fst (U hh) /\ (hh <> h_hash g -> linked x)) ->
  Good (snd (rewrite_canon fuel hh hn hhd s)).
Proof.
  induction fuel as [|f IH]; intros hh hn hhd s G L Hx; cbn [rewrite_canon]; [exact G|].
  destruct (canon (dsk s) hn =? hh); [exact G|].
  assert (G1 : Good (emit (Put (KCanon hn) (VHash hh)) s)) by (apply good_put; [exact G|exact L]).
  destruct hhd as [x|]; [|exact G1].
  destruct (Hx x eq_refl) as [A B].
  apply IH; [exact G1|apply (link_step hh x A B)|].
  intros y Hy. destruct (read_header _ _ _ (proj1 G1) Hy) as (C & _ & D). split; assumption.
Qed.

Lemma write_header_good : forall hd s, wfH hd -> Good s -> Good (snd (write_header hd s)).
Proof.
  intros hd s W G. unfold write_header.
  destruct (td_of (dsk s) (h_parent hd)) as [ptd|] eqn:Eptd; [|exact G].
  cbv zeta.
  set (s1 := emit (Put (KHeader (h_hash hd)) (VHeader hd))
               (emit (Put (KHashNum (h_hash hd)) (VNum (h_number hd)))
                  (emit (Put (KTd (h_hash hd)) (VNum (h_diff hd + ptd))) s))).
  assert (G1 : Good s1).
  { unfold s1. apply good_put; [|apply (wfH_header _ W)]. apply good_put; [|apply (wfH_num _ W)].
    apply good_put; [exact G|]. apply (wfH_td hd (dsk s)); [exact W|apply G|exact Eptd]. }
  destruct (td_of (dsk s) (h_hash (cur_header s))) as [ltd|]; [|exact G1].
  assert (Hmain : forall s1', Good s1' ->
     Good (snd (match del_canon_above (S (length (dsk s1'))) (inc64 (h_number hd)) s1' with
                | None => (SFuel, s1')
                | Some s2 =>
                  match rewrite_canon (S (S (N.to_nat (h_number hd)))) (h_parent hd) (dec64 (h_number hd))
                                      (header_of (dsk s2) (h_parent hd)) s2 with
                  | (SOk, s3) =>
                    (SOk, set_cur_header hd (emit (Put KHeadHeader (VHash (h_hash hd))) (emit (Put (KCanon (h_number hd)) (VHash (h_hash hd))) s3)))
                  | other => other
                  end
                end))).
  { intros s1' G'.
    destruct (del_canon_above (S (length (dsk s1'))) (inc64 (h_number hd)) s1') as [s2|] eqn:Ed; [|exact G'].
    pose proof (del_canon_above_good _ _ _ _ G' Ed) as G2.
    assert (Hrc : Good (snd (rewrite_canon (S (S (N.to_nat (h_number hd)))) (h_parent hd) (dec64 (h_number hd)) (header_of (dsk s2) (h_parent hd)) s2))).
    { apply rewrite_canon_good; [exact G2| |].
      + destruct W as (A & B & C & D). intros _. rewrite B. rewrite dec64_succ by (rewrite <- B; exact D). reflexivity.
      + intros y Hy. destruct (read_header _ _ _ (proj1 G2) Hy) as (C & _ & D). split; assumption. }
    destruct (rewrite_canon (S (S (N.to_nat (h_number hd)))) (h_parent hd) (dec64 (h_number hd)) (header_of (dsk s2) (h_parent hd)) s2) as [e s3].
    cbn [snd] in Hrc. destruct e; cbn [snd]; try exact Hrc.
    apply good_set_cur_header; [|apply W].
    apply good_put; [|exact I]. apply good_put; [exact Hrc|].
    intros _. destruct W as (A & _). rewrite <- A. reflexivity. }
  destruct (ltd <? h_diff hd + ptd).
  { apply (Hmain s1 G1). }
  destruct (h_diff hd + ptd =? ltd); [|exact G1].
  destruct (coins s1) as [|c rest] eqn:Ec; [exact G1|].
  destruct c; [|exact G1].
  apply (Hmain (set_coins rest s1)). exact G1.
Qed.

Lemma ihc_loop_good : forall chain idx s, (forall hd, In hd chain -> wfH hd) -> Good s -> Good (snd (ihc_loop idx chain s)).
Proof.
  induction chain as [|hd rest IH]; intros idx s Hw G; [exact G|]. cbn [ihc_loop].
  assert (IH' : forall idx s, Good s -> Good (snd (ihc_loop idx rest s))) by (intros; apply IH; [intros; apply Hw; right; assumption|assumption]).
  destruct (has_header (dsk s) (h_hash hd)); [apply IH'; exact G|].
  pose proof (write_header_good hd s (Hw hd (or_introl eq_refl)) G) as Hwh.
  destruct (write_header hd s) as [e s']. cbn [snd] in Hwh.
  destruct e; try exact Hwh. apply IH'. exact Hwh.
Qed.

Lemma insert_header_chain_good : forall chain cs s, (forall hd, In hd chain -> wfH hd) -> Good s -> Good (snd (insert_header_chain chain cs s)).
Proof.
  intros chain cs s Hw G. unfold insert_header_chain. destruct chain as [|x r]; [exact G|].
  destruct (headers_contiguous x r); [|exact G].
  apply ihc_loop_good; [exact Hw|exact G].
Qed.

(* ---------------------------------------------------------------- histories *)

Definition headers_of_op (o : op) : list header := match o with OpHeaders c _ => c | _ => [] end.
Definition headers_of (ops : list op) : list header := flat_map headers_of_op ops.
Definition wf_ops (ops : list op) : Prop :=
  (forall b, In b (blocks_of ops) -> wfU b) /\ (forall hd, In hd (headers_of ops) -> wfH hd).

Lemma step_good : forall o s, (forall b, In b (blocks_of_op o) -> wfU b) -> (forall hd, In hd (headers_of_op o) -> wfH hd) ->
  Good s -> Good (snd (step o s)).
Proof.
  intros o s Hb Hh G. destruct o as [c cs|c cs|n| |hs]; cbn [step].
  - pose proof (insert_chain_good c cs s Hb G) as H. destruct (insert_chain c cs s) as [[e i] s']. exact H.
  - pose proof (insert_header_chain_good c cs s Hh G) as H. destruct (insert_header_chain c cs s) as [[e i] s']. exact H.
  - apply set_head_good. exact G.
  - apply reopen_good. exact G.
  - apply rollback_good. exact G.
Qed.

Lemma run_good : forall ops s, wf_ops ops -> Good s -> Good (run ops s).
Proof.
  induction ops as [|o ops IH]; intros s [Hb Hh] G; [exact G|].
  unfold run; cbn [fold_left]. apply IH.
  - split.
    + intros b Hin. apply Hb. unfold blocks_of; cbn [flat_map]. apply in_or_app. right. exact Hin.
    + intros hd Hin. apply Hh. unfold headers_of; cbn [flat_map]. apply in_or_app. right. exact Hin.
  - apply step_good; [| |exact G].
    + intros b Hin. apply Hb. unfold blocks_of; cbn [flat_map]. apply in_or_app. left. exact Hin.
    + intros hd Hin. apply Hh. unfold headers_of; cbn [flat_map]. apply in_or_app. left. exact Hin.
Qed.

Lemma genesis_good : Good (pre_open g).
Proof.
  split.
  - cbn [pre_open dsk]. unfold genesis_disk. cbn [replay fold_left apply_wop].
    assert (S0 : SoundG []) by (intros k v H; discriminate).
    apply soundG_put; [|exact I]. apply soundG_put; [|exact I].
    apply soundG_put; [|cbn [GoodKV]; intros _; rewrite Ug; exact g0].
    apply soundG_put; [|exact I].
    apply soundG_put; [|cbn [GoodKV]; rewrite Ug; cbn [fst]; split; [reflexivity|split; [reflexivity|intro Hne; exfalso; apply Hne; reflexivity]]].
    apply soundG_put; [|cbn [GoodKV]; rewrite Ug; cbn [fst]; symmetry; exact g0].
    apply soundG_put; [|cbn [GoodKV]; rewrite Ug; reflexivity].
    apply soundG_put; [|exact I].
    apply soundG_put; [exact S0|cbn [GoodKV]; symmetry; exact utd_g].
  - unfold MemOK. cbn [pre_open cur_block cur_header cur_fast genesis]. unfold s_hash; cbn [fst]. rewrite Ug. cbn [fst]. auto.
Qed.

Theorem sound_all_ops : forall ops, wf_ops ops ->
  Sound (dsk (run ops (pre_open g))) /\ MemOK (run ops (pre_open g)).
Proof.
  intros ops W. destruct (run_good ops (pre_open g) W genesis_good) as [S M].
  split; [apply soundG_sound; exact S|exact M].
Qed.

(* (a) every stored TD is the universe's; hence TD(b) = TD(parent) + difficulty(b) whenever both are
   stored together with b's header *)
Theorem td_sound_all_ops : forall ops, wf_ops ops ->
  let d := dsk (run ops (pre_open g)) in
  (forall h t, td_of d h = Some t -> t = utd h) /\
  (forall h t pt, td_of d h = Some t -> td_of d (h_parent (fst (U h))) = Some pt ->
     h <> h_hash g -> header_of d h <> None -> t = pt + h_diff (fst (U h))).
Proof.
  intros ops W d. destruct (sound_all_ops ops W) as [(Sh & _ & _ & St & _ & _ & Sl) _]. fold d in Sh, St, Sl.
  split; [exact St|].
  intros h t pt Ht Hpt Ne Hh.
  destruct (header_of d h) as [hd|] eqn:E; [|congruence].
  destruct (Sh _ _ E) as [A B]. destruct (Sl _ _ E Ne) as (_ & _ & C).
  rewrite (St _ _ Ht), (St _ _ Hpt). rewrite <- A. rewrite <- B at 1. exact C.
Qed.

(* (b) the number index never maps a height to a block of another height *)
Theorem canon_height_all_ops : forall ops, wf_ops ops ->
  forall n h, canon (dsk (run ops (pre_open g))) n = h -> h <> 0 -> h_number (fst (U h)) = n.
Proof. intros ops W. destruct (sound_all_ops ops W) as [(_ & _ & _ & _ & Sc & _) _]. exact Sc. Qed.

(* (c) a lookup entry names a block that contains the transaction at that index, with its height *)
Theorem lookup_content_all_ops : forall ops, wf_ops ops ->
  forall t h n i, lookup_of (dsk (run ops (pre_open g))) t = Some (h, n, i) ->
    n = h_number (fst (U h)) /\ nth_error (snd (U h)) (N.to_nat i) = Some t.
Proof. intros ops W. destruct (sound_all_ops ops W) as [(_ & _ & _ & _ & _ & Sk & _) _]. exact Sk. Qed.

End AllOps.
